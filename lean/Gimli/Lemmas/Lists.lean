import Gimli.Model.Lists
import Gimli.Lemmas.Ints
import Gimli.Lemmas.Leb
import Gimli.Props.C01
/-! Helper lemmas for C08 (range and location lists). -/
namespace Gimli.Lists
open Gimli Gimli.Ints Gimli.Spec.Lists

/-! ## address arithmetic -/

theorem wrappingAddSized_eq (a len s : Nat) (hs : s ≤ 8) :
    wrappingAddSized a len s = (a + len) % 2 ^ (8 * s) := by
  unfold wrappingAddSized
  exact Nat.mod_mod_of_dvd _ (Nat.pow_dvd_pow 2 (by omega))

theorem minTombstone_eq (s : Nat) (hs : 1 ≤ s ∧ s ≤ 8) : minTombstone s = 2 ^ (8 * s) - 2 := by
  obtain ⟨h1, h8⟩ := hs
  have : s = 1 ∨ s = 2 ∨ s = 3 ∨ s = 4 ∨ s = 5 ∨ s = 6 ∨ s = 7 ∨ s = 8 := by omega
  rcases this with h | h | h | h | h | h | h | h <;> subst h <;> decide

theorem minTombstone_spec (s : Nat) (hs : 1 ≤ s ∧ s ≤ 8) : minTombstone s = tombstone s := by
  rw [minTombstone_eq s hs]; rfl

theorem addSized_eq (a len s : Nat) (hs : s ≤ 8) :
    addSized a len s = if a + len < 2 ^ (8 * s) then .ok (a + len) else .err .rAddressOverflow := by
  unfold addSized onesSized
  have hp : 0 < 2 ^ (8 * s) := Nat.pow_pos (by decide)
  have hle : 2 ^ (8 * s) ≤ 2 ^ 64 := Nat.pow_le_pow_right (by decide) (by omega)
  by_cases h : a + len < 2 ^ (8 * s)
  · have h1 : ¬ 2 ^ 64 ≤ a + len := by omega
    have h2 : ¬ 2 ^ (8 * s) - 1 < a + len := by omega
    simp only [h, h1, h2, if_true, if_false]
  · simp only [h, if_false]
    split
    · rfl
    · have h2 : 2 ^ (8 * s) - 1 < a + len := by omega
      simp only [h2, if_true]


/-! ## everything `convert_raw` lets through is non-empty and below the tombstones -/

theorem keepRange_item (s base b e : Nat) (d : Bytes) (base' : Nat) (it : Item)
    (h : keepRange s base b e d = .ok (base', some it)) :
    it = ⟨b, e, d⟩ ∧ base' = base ∧ b < e ∧ b < minTombstone s := by
  unfold keepRange at h
  split at h
  · simp at h
  · rename_i hk
    simp only [Out.ok.injEq, Prod.mk.injEq, Option.some.injEq] at h
    refine ⟨h.2.symm, h.1.symm, by omega, by omega⟩

theorem convertRaw_item (c : Cfg) (addr : Bytes) (ab base : Nat) (raw : Entry) (base' : Nat)
    (it : Item) (h : convertRaw c addr ab base raw = .ok (base', some it)) :
    it.b < it.e ∧ it.b < minTombstone c.addrSize := by
  unfold convertRaw at h
  cases raw with
  | baseAddress a => simp at h
  | baseAddressx i =>
    simp only at h
    cases hg : getAddress c addr ab i <;> rw [hg] at h <;> simp at h
  | startxEndx b e d =>
    simp only at h
    cases hb : getAddress c addr ab b <;> rw [hb] at h <;> simp at h
    cases he : getAddress c addr ab e <;> rw [he] at h <;> simp at h
    obtain ⟨rfl, _, h1, h2⟩ := keepRange_item _ _ _ _ _ _ _ h
    exact ⟨h1, h2⟩
  | startxLength b len d =>
    simp only at h
    cases hb : getAddress c addr ab b <;> rw [hb] at h <;> simp at h
    obtain ⟨rfl, _, h1, h2⟩ := keepRange_item _ _ _ _ _ _ _ h
    exact ⟨h1, h2⟩
  | defaultLocation d =>
    obtain ⟨rfl, _, h1, h2⟩ := keepRange_item _ _ _ _ _ _ _ h
    exact ⟨h1, h2⟩
  | pair b e d =>
    simp only at h
    split at h
    · simp at h
    · obtain ⟨rfl, _, h1, h2⟩ := keepRange_item _ _ _ _ _ _ _ h
      exact ⟨h1, h2⟩
  | offsetPair b e d =>
    simp only at h
    split at h
    · simp at h
    · obtain ⟨rfl, _, h1, h2⟩ := keepRange_item _ _ _ _ _ _ _ h
      exact ⟨h1, h2⟩
  | startEnd b e d =>
    obtain ⟨rfl, _, h1, h2⟩ := keepRange_item _ _ _ _ _ _ _ h
    exact ⟨h1, h2⟩
  | startLength b len d =>
    obtain ⟨rfl, _, h1, h2⟩ := keepRange_item _ _ _ _ _ _ _ h
    exact ⟨h1, h2⟩

theorem cook_items (c : Cfg) (addr : Bytes) (ab : Nat) (evs : List (Ev Entry)) :
    ∀ (base : Nat) (out : List (Ev Item)), cook c addr ab base evs = .ok out →
      ∀ it, Ev.item it ∈ out → it.b < it.e ∧ it.b < minTombstone c.addrSize := by
  induction evs with
  | nil =>
    intro base out h it hit
    simp only [cook, Out.ok.injEq] at h
    subst h; simp at hit
  | cons ev rest ih =>
    intro base out h it hit
    cases ev with
    | error e =>
      rw [cook] at h
      cases hr : cook c addr ab base rest with
      | ok evs =>
        rw [hr] at h
        simp only [Out.bind_ok, Out.pure_eq, Out.ok.injEq] at h
        subst h
        simp only [List.mem_cons, reduceCtorEq, false_or] at hit
        exact ih base evs hr it hit
      | err x => rw [hr] at h; simp at h
      | panic w => rw [hr] at h; simp at h
      | diverge => rw [hr] at h; simp at h
    | item x =>
      rw [cook] at h
      cases hc : convertRaw c addr ab base x with
      | ok p =>
        obtain ⟨base', oi⟩ := p
        rw [hc] at h
        cases oi with
        | none => exact ih base' out h it hit
        | some i0 =>
          simp only at h
          cases hr : cook c addr ab base' rest with
          | ok evs =>
            rw [hr] at h
            simp only [Out.bind_ok, Out.pure_eq, Out.ok.injEq] at h
            subst h
            simp only [List.mem_cons, Ev.item.injEq] at hit
            rcases hit with rfl | hit
            · exact convertRaw_item c addr ab base x base' it hc
            · exact ih base' evs hr it hit
          | err x => rw [hr] at h; simp at h
          | panic w => rw [hr] at h; simp at h
          | diverge => rw [hr] at h; simp at h
      | err e =>
        rw [hc] at h
        simp only at h
        cases hr : cook c addr ab base rest with
        | ok evs =>
          rw [hr] at h
          simp only [Out.bind_ok, Out.pure_eq, Out.ok.injEq] at h
          subst h
          simp only [List.mem_cons, reduceCtorEq, false_or] at hit
          exact ih base evs hr it hit
        | err x => rw [hr] at h; simp at h
        | panic w => rw [hr] at h; simp at h
        | diverge => rw [hr] at h; simp at h
      | panic w => rw [hc] at h; simp at h
      | diverge => rw [hc] at h; simp at h

/-! ## consumption and totality of the raw parser

`Good r n`: `r` is a value whose remaining input is at most `n` bytes long, or an error — never a
panic, never fuel exhaustion. -/

def Good {α : Type} (r : Out (α × Bytes)) (n : Nat) : Prop :=
  match r with
  | .ok (_, rest) => rest.length ≤ n
  | .err _ => True
  | .panic _ => False
  | .diverge => False

theorem Good.bind {α β : Type} {x : Out (α × Bytes)} {f : α × Bytes → Out (β × Bytes)} {n m : Nat}
    (hx : Good x n) (hf : ∀ a rest, rest.length ≤ n → Good (f (a, rest)) m) : Good (x >>= f) m := by
  cases x with
  | ok p => obtain ⟨a, rest⟩ := p; exact hf a rest hx
  | err e => simp [Good]
  | panic w => simp [Good] at hx
  | diverge => simp [Good] at hx

theorem Good.mono {α : Type} {x : Out (α × Bytes)} {n m : Nat} (hx : Good x n) (h : n ≤ m) :
    Good x m := by
  cases x with
  | ok p => obtain ⟨a, rest⟩ := p; simp only [Good] at *; omega
  | err e => simp [Good]
  | panic w => simp [Good] at hx
  | diverge => simp [Good] at hx

theorem good_take (n : Nat) (bs : Bytes) : Good (take n bs) bs.length := by
  unfold take; split
  · simp only [Good, List.length_drop]; omega
  · simp [Good]

theorem good_readFixed (e : Endian) (n : Nat) (bs : Bytes) : Good (readFixed e n bs) (bs.length - n) := by
  rw [readFixed_eq]; split
  · simp [Good]
  · simp [Good]

theorem good_readAddress (e : Endian) (s : Nat) (bs : Bytes) :
    Good (readAddress e s bs) (bs.length - 1) := by
  unfold readAddress; split
  · rename_i hs
    exact (good_readFixed e s bs).mono (by omega)
  · simp [Good]

theorem good_uleb (bs : Bytes) : Good (Leb.unsigned bs) (bs.length - 1) := by
  cases h : Leb.unsigned bs with
  | ok p =>
    obtain ⟨v, rest⟩ := p
    obtain ⟨pre, hbs, henc, _⟩ := Leb.unsigned_sound bs v rest h
    have : pre ≠ [] := by
      intro hp; subst hp; simp [Spec.IsLebEnc] at henc
    have hl : 0 < pre.length := List.length_pos_iff.mpr this
    simp only [Good]; subst hbs; simp only [List.length_append]; omega
  | err e => simp [Good]
  | panic w =>
    have := Gimli.Props.C01.uleb_total bs
    rw [h] at this; simp [Out.Normal] at this
  | diverge =>
    have := Gimli.Props.C01.uleb_total bs
    rw [h] at this; simp [Out.Normal] at this

theorem good_parseData (k : Kind) (e : Endian) (leb : Bool) (bs : Bytes) :
    Good (parseData k e leb bs) bs.length := by
  unfold parseData
  cases k with
  | rng => simp [Good]
  | loc =>
    simp only
    split
    · exact (good_uleb bs).bind (fun a rest hr => (good_take a rest).mono (by omega))
    · exact (good_readFixed e 2 bs).bind (fun a rest hr => (good_take a rest).mono (by omega))

theorem good_pure {α : Type} (a : α) (r : Bytes) (n : Nat) (h : r.length ≤ n) :
    Good (pure (a, r) : Out (α × Bytes)) n := by
  simpa [Good] using h

theorem good_parseRaw (k : Kind) (c : Cfg) (f : Fmt) (bs : Bytes) (hne : bs ≠ []) :
    Good (parseRaw k c f bs) (bs.length - 1) := by
  unfold parseRaw
  cases f with
  | bare =>
    simp only
    refine Good.bind (good_readAddress _ _ bs) (fun b r hr => ?_)
    refine Good.bind (n := bs.length - 1) ((good_readAddress _ _ r).mono (by omega)) (fun e r2 hr2 => ?_)
    simp only
    split
    · exact good_pure _ _ _ hr2
    · split
      · exact good_pure _ _ _ hr2
      · refine Good.bind ((good_parseData _ _ _ r2).mono hr2) (fun d r3 hr3 => ?_)
        exact good_pure _ _ _ hr3
  | coded =>
    cases bs with
    | nil => exact absurd rfl hne
    | cons t r =>
      simp only [List.length_cons, Nat.add_sub_cancel]
      have U : ∀ (x : Bytes) (n : Nat), x.length ≤ n → Good (Leb.unsigned x) n :=
        fun x n h => (good_uleb x).mono (by omega)
      have A : ∀ (x : Bytes) (n : Nat), x.length ≤ n → Good (readAddress c.endian c.addrSize x) n :=
        fun x n h => (good_readAddress _ _ x).mono (by omega)
      have D : ∀ (l : Bool) (x : Bytes) (n : Nat), x.length ≤ n → Good (parseData k c.endian l x) n :=
        fun l x n h => (good_parseData _ _ _ x).mono h
      cases decodeCode k t.toNat with
      | none => simp [Good]
      | some code =>
        cases code with
        | endOfList => exact good_pure _ _ _ (Nat.le_refl _)
        | baseAddressx =>
          simp only
          exact (U r _ (Nat.le_refl _)).bind (fun i r1 h1 => good_pure _ _ _ h1)
        | startxEndx =>
          simp only
          exact (U r _ (Nat.le_refl _)).bind (fun _ r1 h1 => (U r1 _ h1).bind (fun _ r2 h2 =>
            (D _ r2 _ h2).bind (fun _ r3 h3 => good_pure _ _ _ h3)))
        | startxLength =>
          simp only
          refine (U r _ (Nat.le_refl _)).bind (fun _ r1 h1 => ?_)
          split
          · exact Good.bind (n := r.length) ((good_readFixed _ 4 r1).mono (by omega))
              (fun _ r2 h2 => (D _ r2 _ h2).bind (fun _ r3 h3 => good_pure _ _ _ h3))
          · exact (U r1 _ h1).bind
              (fun _ r2 h2 => (D _ r2 _ h2).bind (fun _ r3 h3 => good_pure _ _ _ h3))
        | offsetPair =>
          simp only
          exact (U r _ (Nat.le_refl _)).bind (fun _ r1 h1 => (U r1 _ h1).bind (fun _ r2 h2 =>
            (D _ r2 _ h2).bind (fun _ r3 h3 => good_pure _ _ _ h3)))
        | defaultLocation =>
          simp only
          exact (D _ r _ (Nat.le_refl _)).bind (fun _ r3 h3 => good_pure _ _ _ h3)
        | baseAddress =>
          simp only
          exact (A r _ (Nat.le_refl _)).bind (fun _ r3 h3 => good_pure _ _ _ h3)
        | startEnd =>
          simp only
          exact (A r _ (Nat.le_refl _)).bind (fun _ r1 h1 => (A r1 _ h1).bind (fun _ r2 h2 =>
            (D _ r2 _ h2).bind (fun _ r3 h3 => good_pure _ _ _ h3)))
        | startLength =>
          simp only
          exact (A r _ (Nat.le_refl _)).bind (fun _ r1 h1 => (U r1 _ h1).bind (fun _ r2 h2 =>
            (D _ r2 _ h2).bind (fun _ r3 h3 => good_pure _ _ _ h3)))


/-! ## the raw iterator terminates; fuel is irrelevant -/

theorem rawFuel_succ (k : Kind) (c : Cfg) (f : Fmt) (n : Nat) (bs : Bytes) :
    rawFuel k c f (n + 1) bs =
      if bs.isEmpty then .ok []
      else
        match parseRaw k c f bs with
        | .ok (some x, rest) => do
          let evs ← rawFuel k c f n rest
          pure (.item x :: evs)
        | .ok (none, _) => .ok []
        | .err e => .ok [.error e]
        | .panic w => .panic w
        | .diverge => .diverge := by
  rfl

theorem rawFuel_ok (k : Kind) (c : Cfg) (f : Fmt) : ∀ (n : Nat) (bs : Bytes), bs.length < n →
    ∃ evs, rawFuel k c f n bs = .ok evs ∧ evs.length ≤ bs.length := by
  intro n
  induction n with
  | zero => intro bs h; omega
  | succ n ih =>
    intro bs hlen
    rw [rawFuel_succ]
    by_cases he : bs = []
    · subst he; exact ⟨[], by simp⟩
    · have hne : bs.isEmpty = false := by cases bs <;> simp_all
      have hpos : 0 < bs.length := List.length_pos_iff.mpr he
      simp only [hne, Bool.false_eq_true, if_false]
      have hg := good_parseRaw k c f bs he
      cases hp : parseRaw k c f bs with
      | ok p =>
        obtain ⟨ox, rest⟩ := p
        rw [hp] at hg
        simp only [Good] at hg
        cases ox with
        | none => exact ⟨[], by simp⟩
        | some x =>
          obtain ⟨evs, h1, h2⟩ := ih rest (by omega)
          refine ⟨.item x :: evs, ?_, ?_⟩
          · simp only [h1, Out.bind_ok, Out.pure_eq]
          · simp only [List.length_cons]; omega
      | err e => exact ⟨[.error e], by simp, by simp; omega⟩
      | panic w => rw [hp] at hg; simp [Good] at hg
      | diverge => rw [hp] at hg; simp [Good] at hg

theorem rawFuel_irrel (k : Kind) (c : Cfg) (f : Fmt) : ∀ (n m : Nat) (bs : Bytes),
    bs.length < n → bs.length < m → rawFuel k c f n bs = rawFuel k c f m bs := by
  intro n
  induction n with
  | zero => intro m bs h; omega
  | succ n ih =>
    intro m bs hn hm
    cases m with
    | zero => omega
    | succ m =>
      rw [rawFuel_succ, rawFuel_succ]
      by_cases he : bs = []
      · subst he; simp
      · have hne : bs.isEmpty = false := by cases bs <;> simp_all
        have hpos : 0 < bs.length := List.length_pos_iff.mpr he
        simp only [hne, Bool.false_eq_true, if_false]
        have hg := good_parseRaw k c f bs he
        cases hp : parseRaw k c f bs with
        | ok p =>
          obtain ⟨ox, rest⟩ := p
          rw [hp] at hg
          simp only [Good] at hg
          cases ox with
          | none => rfl
          | some x => simp only; rw [ih m rest (by omega) (by omega)]
        | err e => rfl
        | panic w => rfl
        | diverge => rfl

/-- one step of the raw iterator -/
theorem rawAll_step (k : Kind) (c : Cfg) (f : Fmt) (bs : Bytes) (x : Entry) (rest : Bytes)
    (hne : bs ≠ []) (hp : parseRaw k c f bs = .ok (some x, rest)) :
    rawAll k c f bs = (do let evs ← rawAll k c f rest; pure (.item x :: evs)) := by
  have hg := good_parseRaw k c f bs hne
  rw [hp] at hg; simp only [Good] at hg
  have hpos : 0 < bs.length := List.length_pos_iff.mpr hne
  have hne' : bs.isEmpty = false := by cases bs <;> simp_all
  unfold rawAll
  rw [rawFuel_succ]
  simp only [hne', Bool.false_eq_true, if_false, hp]
  rw [rawFuel_irrel k c f bs.length (rest.length + 1) rest (by omega) (by omega)]

theorem rawAll_end (k : Kind) (c : Cfg) (f : Fmt) (bs : Bytes) (rest : Bytes)
    (hne : bs ≠ []) (hp : parseRaw k c f bs = .ok (none, rest)) :
    rawAll k c f bs = .ok [] := by
  have hne' : bs.isEmpty = false := by cases bs <;> simp_all
  unfold rawAll
  rw [rawFuel_succ]
  simp only [hne', Bool.false_eq_true, if_false, hp]


/-! ## parsing what `encodeList` produces -/

theorem addrMod_ge (s : Nat) (hs : ValidSize s) : 256 ≤ addrMod s := by
  unfold addrMod
  rcases hs with h | h | h | h <;> subst h <;> decide

theorem readAddress_enc (c : Cfg) (a : Nat) (rest : Bytes) (hs : ValidSize c.addrSize)
    (ha : a < addrMod c.addrSize) :
    readAddress c.endian c.addrSize (encAddr c a ++ rest) = .ok (a, rest) := by
  unfold readAddress encAddr
  have hs' : c.addrSize = 1 ∨ c.addrSize = 2 ∨ c.addrSize = 4 ∨ c.addrSize = 8 := hs
  simp only [hs', if_true]
  exact readFixed_toBytes _ _ _ _ (by rw [pow256]; exact ha)

theorem take_append (d rest : Bytes) : take d.length (d ++ rest) = .ok (d, rest) := by
  rw [take_ok _ _ (by simp)]
  simp

theorem parseData_enc_bare (k : Kind) (c : Cfg) (d rest : Bytes) (h : WfData k c .bare d) :
    parseData k c.endian false (encData k c .bare d ++ rest) = .ok (d, rest) := by
  unfold parseData encData
  cases k with
  | rng => simp only [WfData] at h; subst h; rfl
  | loc =>
    simp only [WfData, reduceCtorEq, false_and, if_false] at h
    simp only [reduceCtorEq, false_and, if_false, Bool.false_eq_true, List.append_assoc]
    rw [readFixed_toBytes _ _ _ _ (by omega)]
    simp only [Out.bind_ok]
    exact take_append d rest

theorem parseData_enc_coded (k : Kind) (c : Cfg) (d rest : Bytes) (h : WfData k c .coded d) :
    parseData k c.endian (decide (c.version ≥ 5)) (encData k c .coded d ++ rest) = .ok (d, rest) := by
  unfold parseData encData
  cases k with
  | rng => simp only [WfData] at h; subst h; rfl
  | loc =>
    simp only [WfData, true_and] at h
    simp only [true_and]
    by_cases hv : c.version ≥ 5
    · simp only [hv, if_true, decide_true, List.append_assoc] at h ⊢
      rw [Leb.unsigned_roundtrip _ h]
      simp only [Out.bind_ok]
      exact take_append d rest
    · simp only [hv, if_false, decide_false, Bool.false_eq_true, List.append_assoc] at h ⊢
      rw [readFixed_toBytes _ _ _ _ (by omega)]
      simp only [Out.bind_ok]
      exact take_append d rest


theorem onesSized_eq (s : Nat) : onesSized s = addrMod s - 1 := rfl

theorem parseRaw_enc_bare (k : Kind) (c : Cfg) (x : Entry) (rest : Bytes) (hs : ValidSize c.addrSize)
    (hw : WfEntry k c .bare x) :
    parseRaw k c .bare (encodeEntry k c .bare x ++ rest) = .ok (some x, rest) := by
  have hm := addrMod_ge c.addrSize hs
  cases x with
  | pair b e d =>
    simp only [WfEntry] at hw
    obtain ⟨hb, he, hz, hones, hd⟩ := hw
    simp only [parseRaw, encodeEntry, List.append_assoc]
    rw [readAddress_enc c b _ hs hb]
    simp only [Out.bind_ok]
    rw [readAddress_enc c e _ hs he]
    simp only [Out.bind_ok, hz, if_false, onesSized_eq, hones]
    rw [parseData_enc_bare k c d rest hd]
    rfl
  | baseAddress a =>
    simp only [WfEntry] at hw
    simp only [parseRaw, encodeEntry, List.append_assoc]
    rw [readAddress_enc c _ _ hs (by omega)]
    simp only [Out.bind_ok]
    rw [readAddress_enc c a _ hs hw]
    have : ¬ (addrMod c.addrSize - 1 = 0 ∧ a = 0) := by omega
    simp only [Out.bind_ok, this, if_false, onesSized_eq, if_true]
    rfl
  | baseAddressx i => simp [WfEntry] at hw
  | startxEndx b e d => simp [WfEntry] at hw
  | startxLength b l d => simp [WfEntry] at hw
  | offsetPair b e d => simp [WfEntry] at hw
  | defaultLocation d => simp [WfEntry] at hw
  | startEnd b e d => simp [WfEntry] at hw
  | startLength b l d => simp [WfEntry] at hw

theorem parseRaw_term (k : Kind) (c : Cfg) (f : Fmt) (rest : Bytes) (hs : ValidSize c.addrSize) :
    parseRaw k c f (terminator c f ++ rest) = .ok (none, rest) := by
  have hm := addrMod_ge c.addrSize hs
  cases f with
  | bare =>
    simp only [parseRaw, terminator, List.append_assoc]
    rw [readAddress_enc c 0 _ hs (by omega)]
    simp only [Out.bind_ok]
    rw [readAddress_enc c 0 _ hs (by omega)]
    simp
  | coded =>
    cases k <;> simp [parseRaw, terminator, decodeCode]


set_option linter.unusedSimpArgs false in
theorem parseRaw_enc_coded (k : Kind) (c : Cfg) (x : Entry) (rest : Bytes) (hs : ValidSize c.addrSize)
    (hw : WfEntry k c .coded x) :
    parseRaw k c .coded (encodeEntry k c .coded x ++ rest) = .ok (some x, rest) := by
  cases x with
  | pair b e d => simp [WfEntry] at hw
  | baseAddress a =>
    simp only [WfEntry] at hw
    cases k <;>
    · simp only [parseRaw, encodeEntry, code, Option.getD_some, List.append_assoc, List.cons_append,
        List.nil_append, decodeCode, UInt8.reduceOfNat, UInt8.reduceToNat]
      rw [readAddress_enc c a _ hs hw]
      rfl
  | baseAddressx i =>
    simp only [WfEntry] at hw
    cases k <;>
    · simp only [parseRaw, encodeEntry, code, Option.getD_some, List.append_assoc, List.cons_append,
        List.nil_append, decodeCode, UInt8.reduceOfNat, UInt8.reduceToNat]
      rw [Leb.unsigned_roundtrip i hw]
      rfl
  | startxEndx b e d =>
    simp only [WfEntry] at hw
    obtain ⟨hb, he, hd⟩ := hw
    cases k <;>
    · simp only [parseRaw, encodeEntry, code, Option.getD_some, List.append_assoc, List.cons_append,
        List.nil_append, decodeCode, UInt8.reduceOfNat, UInt8.reduceToNat]
      rw [Leb.unsigned_roundtrip b hb]
      simp only [Out.bind_ok]
      rw [Leb.unsigned_roundtrip e he]
      simp only [Out.bind_ok]
      rw [parseData_enc_coded _ c d rest hd]
      rfl
  | startxLength b l d =>
    simp only [WfEntry] at hw
    obtain ⟨hb, hl, hd⟩ := hw
    cases k with
    | rng =>
      simp only [reduceCtorEq, false_and, if_false] at hl
      simp only [parseRaw, encodeEntry, code, Option.getD_some, List.append_assoc, List.cons_append,
        List.nil_append, decodeCode, UInt8.reduceOfNat, UInt8.reduceToNat, reduceCtorEq, false_and, if_false]
      rw [Leb.unsigned_roundtrip b hb]
      simp only [Out.bind_ok]
      rw [Leb.unsigned_roundtrip l hl]
      simp only [Out.bind_ok]
      rw [parseData_enc_coded _ c d rest hd]
      rfl
    | loc =>
      simp only [true_and] at hl
      simp only [parseRaw, encodeEntry, code, Option.getD_some, List.append_assoc, List.cons_append,
        List.nil_append, decodeCode, UInt8.reduceOfNat, UInt8.reduceToNat, true_and]
      rw [Leb.unsigned_roundtrip b hb]
      simp only [Out.bind_ok]
      by_cases hv : c.version < 5
      · have hv' : ¬ c.version ≥ 5 := by omega
        rw [if_pos hv] at hl
        rw [if_pos hv, if_pos hv']
        rw [readFixed_toBytes _ _ _ _ (by omega)]
        simp only [Out.bind_ok]
        rw [parseData_enc_coded _ c d rest hd]
        rfl
      · have hv' : ¬ ¬ c.version ≥ 5 := by omega
        rw [if_neg hv] at hl
        rw [if_neg hv, if_neg hv']
        rw [Leb.unsigned_roundtrip l hl]
        simp only [Out.bind_ok]
        rw [parseData_enc_coded _ c d rest hd]
        rfl
  | offsetPair b e d =>
    simp only [WfEntry] at hw
    obtain ⟨hb, he, hd⟩ := hw
    cases k <;>
    · simp only [parseRaw, encodeEntry, code, Option.getD_some, List.append_assoc, List.cons_append,
        List.nil_append, decodeCode, UInt8.reduceOfNat, UInt8.reduceToNat]
      rw [Leb.unsigned_roundtrip b hb]
      simp only [Out.bind_ok]
      rw [Leb.unsigned_roundtrip e he]
      simp only [Out.bind_ok]
      rw [parseData_enc_coded _ c d rest hd]
      rfl
  | defaultLocation d =>
    simp only [WfEntry] at hw
    obtain ⟨hk, hd⟩ := hw
    subst hk
    simp only [parseRaw, encodeEntry, code, Option.getD_some, List.append_assoc, List.cons_append,
      List.nil_append, decodeCode, UInt8.reduceOfNat, UInt8.reduceToNat]
    rw [parseData_enc_coded _ c d rest hd]
    rfl
  | startEnd b e d =>
    simp only [WfEntry] at hw
    obtain ⟨hb, he, hd⟩ := hw
    cases k <;>
    · simp only [parseRaw, encodeEntry, code, Option.getD_some, List.append_assoc, List.cons_append,
        List.nil_append, decodeCode, UInt8.reduceOfNat, UInt8.reduceToNat]
      rw [readAddress_enc c b _ hs hb]
      simp only [Out.bind_ok]
      rw [readAddress_enc c e _ hs he]
      simp only [Out.bind_ok]
      rw [parseData_enc_coded _ c d rest hd]
      rfl
  | startLength b l d =>
    simp only [WfEntry] at hw
    obtain ⟨hb, hl, hd⟩ := hw
    cases k <;>
    · simp only [parseRaw, encodeEntry, code, Option.getD_some, List.append_assoc, List.cons_append,
        List.nil_append, decodeCode, UInt8.reduceOfNat, UInt8.reduceToNat]
      rw [readAddress_enc c b _ hs hb]
      simp only [Out.bind_ok]
      rw [Leb.unsigned_roundtrip l hl]
      simp only [Out.bind_ok]
      rw [parseData_enc_coded _ c d rest hd]
      rfl


theorem parseRaw_enc (k : Kind) (c : Cfg) (f : Fmt) (x : Entry) (rest : Bytes)
    (hs : ValidSize c.addrSize) (hw : WfEntry k c f x) :
    parseRaw k c f (encodeEntry k c f x ++ rest) = .ok (some x, rest) := by
  cases f
  · exact parseRaw_enc_bare k c x rest hs hw
  · exact parseRaw_enc_coded k c x rest hs hw

theorem parseRaw_nil (k : Kind) (c : Cfg) (f : Fmt) : ∃ e, parseRaw k c f [] = .err e := by
  cases f with
  | bare =>
    simp only [parseRaw, readAddress]
    split
    · rw [readFixed_eof _ _ _ (by simp only [List.length_nil]; omega)]
      exact ⟨_, rfl⟩
    · exact ⟨_, rfl⟩
  | coded => exact ⟨_, rfl⟩

theorem ne_nil_of_parse (k : Kind) (c : Cfg) (f : Fmt) (bs : Bytes) (p : Option Entry × Bytes)
    (h : parseRaw k c f bs = .ok p) : bs ≠ [] := by
  intro hb; subst hb
  obtain ⟨e, he⟩ := parseRaw_nil k c f
  rw [he] at h; simp at h

/-- raw iteration over an encoded list returns exactly its entries, whatever follows -/
theorem rawAll_encodeList (k : Kind) (c : Cfg) (f : Fmt) (hs : ValidSize c.addrSize) :
    ∀ (l : List Entry) (rest : Bytes), (∀ x ∈ l, WfEntry k c f x) →
      rawAll k c f (encodeList k c f l ++ rest) = .ok (l.map .item) := by
  intro l
  induction l with
  | nil =>
    intro rest _
    have hp := parseRaw_term k c f rest hs
    exact rawAll_end k c f _ rest (ne_nil_of_parse _ _ _ _ _ hp) hp
  | cons x xs ih =>
    intro rest hw
    have hp := parseRaw_enc k c f x (encodeList k c f xs ++ rest) hs (hw x (by simp))
    simp only [encodeList, List.append_assoc]
    rw [rawAll_step k c f _ x _ (ne_nil_of_parse _ _ _ _ _ hp) hp]
    rw [ih rest (fun y hy => hw y (by simp [hy]))]
    rfl


/-! ## table lookups -/

theorem validSize_bounds {s : Nat} (hs : ValidSize s) : 1 ≤ s ∧ s ≤ 8 := by
  rcases hs with h | h | h | h <;> omega

/-- `get_address`, in terms of positions only -/
theorem getAddress_cases (c : Cfg) (sec : Bytes) (base i : Nat) (hs : ValidSize c.addrSize)
    (hlen : sec.length < 2 ^ 64) :
    getAddress c sec base i =
      if base + i * c.addrSize + c.addrSize ≤ sec.length then
        .ok (fromBytes c.endian ((sec.drop (base + i * c.addrSize)).take c.addrSize))
      else if sec.length < base then .err .rUnexpectedEof
      else if 2 ^ 64 ≤ i * c.addrSize then .err .rUnsupportedOffset
      else .err .rUnexpectedEof := by
  have hs' : c.addrSize = 1 ∨ c.addrSize = 2 ∨ c.addrSize = 4 ∨ c.addrSize = 8 := hs
  have hb := validSize_bounds hs
  unfold getAddress
  by_cases h : base + i * c.addrSize + c.addrSize ≤ sec.length
  · have h1 : ¬ sec.length < base := by omega
    have h2 : ¬ 2 ^ 64 ≤ i * c.addrSize := by omega
    have h3 : ¬ (sec.drop base).length < i * c.addrSize := by simp only [List.length_drop]; omega
    simp only [h, h1, h2, h3, if_true, if_false, readAddress, hs', List.drop_drop]
    rw [readFixed_eq]
    have h4 : c.addrSize ≤ (List.drop (base + i * c.addrSize) sec).length := by
      simp only [List.length_drop]; omega
    simp only [h4, if_true, Out.bind_ok, Out.pure_eq]
  · simp only [h, if_false]
    by_cases h1 : sec.length < base
    · simp only [h1, if_true]
    · simp only [h1, if_false]
      by_cases h2 : 2 ^ 64 ≤ i * c.addrSize
      · simp only [h2, if_true]
      · simp only [h2, if_false]
        by_cases h3 : (sec.drop base).length < i * c.addrSize
        · simp only [h3, if_true]
        · simp only [h3, if_false, readAddress, hs', if_true, List.drop_drop]
          simp only [List.length_drop] at h3
          rw [readFixed_eof _ _ _ (by simp only [List.length_drop]; omega)]
          rfl

theorem getAddress_tableOf (c : Cfg) (sec : Bytes) (base i : Nat) (hs : ValidSize c.addrSize)
    (hlen : sec.length < 2 ^ 64) :
    match tableOf c.endian c.addrSize sec base i with
    | some a => getAddress c sec base i = .ok a
    | none => ∃ e, getAddress c sec base i = .err e := by
  rw [getAddress_cases c sec base i hs hlen]
  unfold tableOf
  by_cases h : base + i * c.addrSize + c.addrSize ≤ sec.length
  · simp only [h, if_true]
  · simp only [h, if_false]
    split
    · exact ⟨_, rfl⟩
    · split <;> exact ⟨_, rfl⟩

/-- `get_offset`, in terms of positions only -/
theorem getOffset_cases (c : Cfg) (sec : Bytes) (base i : Nat) (hlen : sec.length < 2 ^ 64) :
    getOffset c sec base i =
      if base + i * c.format.wordSize + c.format.wordSize ≤ sec.length then
        let off := fromBytes c.endian ((sec.drop (base + i * c.format.wordSize)).take c.format.wordSize)
        if 2 ^ 64 ≤ base + off then .err .rUnsupportedOffset else .ok (base + off)
      else if sec.length < base then .err .rUnexpectedEof
      else if 2 ^ 64 ≤ i * c.format.wordSize then .err .rUnsupportedOffset
      else .err .rUnexpectedEof := by
  unfold getOffset
  have hw : c.format.wordSize = 4 ∨ c.format.wordSize = 8 := by
    cases c.format <;> simp [Format.wordSize]
  by_cases h : base + i * c.format.wordSize + c.format.wordSize ≤ sec.length
  · have h1 : ¬ sec.length < base := by omega
    have h2 : ¬ 2 ^ 64 ≤ i * c.format.wordSize := by omega
    have h3 : ¬ (sec.drop base).length < i * c.format.wordSize := by
      simp only [List.length_drop]; omega
    simp only [h, h1, h2, h3, if_true, if_false, List.drop_drop]
    have h4 : c.format.wordSize ≤ (List.drop (base + i * c.format.wordSize) sec).length := by
      simp only [List.length_drop]; omega
    cases hf : c.format with
    | dwarf32 =>
      simp only [hf, Format.wordSize] at h4 ⊢
      simp only [readWord, readFixed_eq, h4, if_true, Out.bind_ok, Out.pure_eq]
      rfl
    | dwarf64 =>
      simp only [hf, Format.wordSize] at h4 ⊢
      have hlt : fromBytes c.endian (List.take 8 (List.drop (base + i * 8) sec)) < 2 ^ 64 := by
        have := fromBytes_lt c.endian (List.take 8 (List.drop (base + i * 8) sec))
        rw [List.length_take, Nat.min_eq_left h4] at this
        exact this
      simp only [readWord, readFixed_eq, h4, if_true, Out.bind_ok, Out.pure_eq, offsetFromU64, hlt]
      rfl
  · simp only [h, if_false]
    by_cases h1 : sec.length < base
    · simp only [h1, if_true]
    · simp only [h1, if_false]
      by_cases h2 : 2 ^ 64 ≤ i * c.format.wordSize
      · simp only [h2, if_true]
      · simp only [h2, if_false]
        by_cases h3 : (sec.drop base).length < i * c.format.wordSize
        · simp only [h3, if_true]
        · simp only [h3, if_false, List.drop_drop]
          simp only [List.length_drop] at h3
          have h4 : (List.drop (base + i * c.format.wordSize) sec).length < c.format.wordSize := by
            simp only [List.length_drop]; omega
          cases hf : c.format with
          | dwarf32 =>
            simp only [hf, Format.wordSize] at h4 ⊢
            simp only [readWord]
            rw [readFixed_eof _ _ _ h4]; rfl
          | dwarf64 =>
            simp only [hf, Format.wordSize] at h4 ⊢
            simp only [readWord]
            rw [readFixed_eof _ _ _ h4]; rfl


/-! ## resolution refines the Spec -/

/-- forget which error: an `Err` result of the cooked iterator corresponds to an entry the Spec
leaves undefined -/
def denot : Ev Item → Denot
  | .item it => .range it.b it.e it.data
  | .error _ => .undefined

theorem keepRange_keep (s base b e : Nat) (d : Bytes) (rel : Bool) (hs : 1 ≤ s ∧ s ≤ 8)
    (hrel : rel = true → base < tombstone s) :
    keepRange s base b e d = .ok (base, if Keep s base b e rel then some ⟨b, e, d⟩ else none) := by
  unfold keepRange
  rw [minTombstone_spec s hs]
  by_cases h : tombstone s ≤ b ∨ e ≤ b
  · have : ¬ Keep s base b e rel := by unfold Keep; omega
    rw [if_pos h, if_neg this]
  · have : Keep s base b e rel := ⟨hrel, by omega, by omega⟩
    rw [if_neg h, if_pos this]

/-- one entry: `convert_raw` does what the Spec says -/
theorem convertRaw_spec (c : Cfg) (addr : Bytes) (ab base : Nat) (x : Entry)
    (hs : ValidSize c.addrSize) (hlen : addr.length < 2 ^ 64) :
    match resolve1 c.addrSize (tableOf c.endian c.addrSize addr ab) base x with
    | .setBase a => convertRaw c addr ab base x = .ok (a, none)
    | .undefined => ∃ e, convertRaw c addr ab base x = .err e
    | .range b e d rel =>
      convertRaw c addr ab base x =
        .ok (base, if Keep c.addrSize base b e rel then some ⟨b, e, d⟩ else none) := by
  have hb := validSize_bounds hs
  have T := fun i => getAddress_tableOf c addr ab i hs hlen
  have W : ∀ a l, wrappingAddSized a l c.addrSize = (a + l) % addrMod c.addrSize :=
    fun a l => wrappingAddSized_eq a l c.addrSize hb.2
  cases x with
  | pair b e d =>
    simp only [resolve1, convertRaw, W]
    rw [minTombstone_spec _ hb]
    by_cases ht : tombstone c.addrSize ≤ base
    · have : ¬ Keep c.addrSize base ((base + b) % addrMod c.addrSize) ((base + e) % addrMod c.addrSize) true := by
        unfold Keep; simp only [true_implies]; omega
      simp only [ht, this, if_true, if_false]
    · simp only [ht, if_false]
      exact keepRange_keep _ _ _ _ _ true hb (fun _ => by omega)
  | offsetPair b e d =>
    simp only [resolve1, convertRaw, W]
    rw [minTombstone_spec _ hb]
    by_cases ht : tombstone c.addrSize ≤ base
    · have : ¬ Keep c.addrSize base ((base + b) % addrMod c.addrSize) ((base + e) % addrMod c.addrSize) true := by
        unfold Keep; simp only [true_implies]; omega
      simp only [ht, this, if_true, if_false]
    · simp only [ht, if_false]
      exact keepRange_keep _ _ _ _ _ true hb (fun _ => by omega)
  | baseAddress a => simp only [resolve1, convertRaw]
  | baseAddressx i =>
    have t := T i
    simp only [resolve1, convertRaw]
    cases htb : tableOf c.endian c.addrSize addr ab i with
    | some a => rw [htb] at t; simp only [t, Out.bind_ok, Out.pure_eq]
    | none => rw [htb] at t; obtain ⟨e, he⟩ := t; exact ⟨e, by simp only [he, Out.bind_err]⟩
  | startxEndx b e d =>
    have tb := T b
    have te := T e
    simp only [resolve1, convertRaw]
    cases hb' : tableOf c.endian c.addrSize addr ab b with
    | none =>
      rw [hb'] at tb; obtain ⟨x, hx⟩ := tb
      exact ⟨x, by simp only [hx, Out.bind_err]⟩
    | some vb =>
      rw [hb'] at tb
      cases he' : tableOf c.endian c.addrSize addr ab e with
      | none =>
        rw [he'] at te; obtain ⟨x, hx⟩ := te
        exact ⟨x, by simp only [tb, hx, Out.bind_ok, Out.bind_err]⟩
      | some ve =>
        rw [he'] at te
        simp only [tb, te, Out.bind_ok]
        exact keepRange_keep _ _ _ _ _ false hb (fun h => by simp at h)
  | startxLength b l d =>
    have tb := T b
    simp only [resolve1, convertRaw, W]
    cases hb' : tableOf c.endian c.addrSize addr ab b with
    | none =>
      rw [hb'] at tb; obtain ⟨x, hx⟩ := tb
      exact ⟨x, by simp only [hx, Out.bind_err]⟩
    | some vb =>
      rw [hb'] at tb
      simp only [tb, Out.bind_ok]
      exact keepRange_keep _ _ _ _ _ false hb (fun h => by simp at h)
  | defaultLocation d =>
    simp only [resolve1, convertRaw]
    exact keepRange_keep _ _ _ _ _ false hb (fun h => by simp at h)
  | startEnd b e d =>
    simp only [resolve1, convertRaw]
    exact keepRange_keep _ _ _ _ _ false hb (fun h => by simp at h)
  | startLength b l d =>
    simp only [resolve1, convertRaw, W]
    exact keepRange_keep _ _ _ _ _ false hb (fun h => by simp at h)

/-- the cooked iterator over the entries of a list = the Spec's resolution of the list -/
theorem cook_refines (c : Cfg) (addr : Bytes) (ab : Nat) (hs : ValidSize c.addrSize)
    (hlen : addr.length < 2 ^ 64) : ∀ (l : List Entry) (base : Nat),
    ∃ evs, cook c addr ab base (l.map .item) = .ok evs ∧
      evs.map denot = resolveList c.addrSize (tableOf c.endian c.addrSize addr ab) base l := by
  intro l
  induction l with
  | nil => intro base; exact ⟨[], rfl, rfl⟩
  | cons x xs ih =>
    intro base
    have h1 := convertRaw_spec c addr ab base x hs hlen
    simp only [List.map_cons, cook, resolveList]
    cases hr : resolve1 c.addrSize (tableOf c.endian c.addrSize addr ab) base x with
    | setBase a =>
      rw [hr] at h1; simp only at h1
      rw [h1]
      exact ih a
    | undefined =>
      rw [hr] at h1; simp only at h1
      obtain ⟨e, he⟩ := h1
      rw [he]
      obtain ⟨evs, h2, h3⟩ := ih base
      exact ⟨.error e :: evs, by simp only [h2, Out.bind_ok, Out.pure_eq], by simp only [List.map_cons, denot, h3]⟩
    | range b e d rel =>
      rw [hr] at h1; simp only at h1
      rw [h1]
      obtain ⟨evs, h2, h3⟩ := ih base
      by_cases hk : Keep c.addrSize base b e rel
      · simp only [hk, if_true]
        exact ⟨.item ⟨b, e, d⟩ :: evs, by simp only [h2, Out.bind_ok, Out.pure_eq],
          by simp only [List.map_cons, denot, h3]⟩
      · simp only [hk, if_false]
        exact ⟨evs, h2, h3⟩


/-! ## totality of the cooked iterator, shape of the raw event list -/

theorem getAddress_normal (c : Cfg) (sec : Bytes) (base i : Nat) : (getAddress c sec base i).Normal := by
  unfold getAddress
  split
  · simp [Out.Normal]
  · simp only; split
    · simp [Out.Normal]
    · split
      · simp [Out.Normal]
      · have := Gimli.Props.C01.address_total c.endian c.addrSize
          (List.drop (i * c.addrSize) (List.drop base sec))
        cases h : readAddress c.endian c.addrSize (List.drop (i * c.addrSize) (List.drop base sec)) with
        | ok p => simp [Out.Normal]
        | err e => simp [Out.Normal]
        | panic w => rw [h] at this; simp [Out.Normal] at this
        | diverge => rw [h] at this; simp [Out.Normal] at this

theorem keepRange_normal (s base b e : Nat) (d : Bytes) : (keepRange s base b e d).Normal := by
  unfold keepRange; split <;> simp [Out.Normal]

theorem normal_bind {α β : Type} (x : Out α) (f : α → Out β) (hx : x.Normal)
    (hf : ∀ a, (f a).Normal) : (x >>= f).Normal := by
  cases x with
  | ok a => exact hf a
  | err e => simp [Out.Normal]
  | panic w => simp [Out.Normal] at hx
  | diverge => simp [Out.Normal] at hx

theorem convertRaw_normal (c : Cfg) (addr : Bytes) (ab base : Nat) (x : Entry) :
    (convertRaw c addr ab base x).Normal := by
  have G := getAddress_normal c addr ab
  have K := keepRange_normal c.addrSize base
  cases x with
  | pair b e d => simp only [convertRaw]; split; simp [Out.Normal]; exact K _ _ _
  | offsetPair b e d => simp only [convertRaw]; split; simp [Out.Normal]; exact K _ _ _
  | baseAddress a => simp [convertRaw, Out.Normal]
  | baseAddressx i => exact normal_bind _ _ (G i) (fun a => by simp [Out.Normal])
  | startxEndx b e d =>
    exact normal_bind _ _ (G b) (fun vb => normal_bind _ _ (G e) (fun ve => K _ _ _))
  | startxLength b l d => exact normal_bind _ _ (G b) (fun vb => K _ _ _)
  | defaultLocation d => exact K _ _ _
  | startEnd b e d => exact K _ _ _
  | startLength b l d => exact K _ _ _

/-- the cooked iterator returns normally and makes at most one result per raw result -/
theorem cook_ok (c : Cfg) (addr : Bytes) (ab : Nat) (evs : List (Ev Entry)) : ∀ (base : Nat),
    ∃ out, cook c addr ab base evs = .ok out ∧ out.length ≤ evs.length := by
  induction evs with
  | nil => intro base; exact ⟨[], rfl, Nat.le_refl _⟩
  | cons ev rest ih =>
    intro base
    cases ev with
    | error e =>
      obtain ⟨out, h1, h2⟩ := ih base
      exact ⟨.error e :: out, by simp only [cook, h1, Out.bind_ok, Out.pure_eq],
        by simp only [List.length_cons]; omega⟩
    | item x =>
      have hn := convertRaw_normal c addr ab base x
      rw [cook]
      cases hc : convertRaw c addr ab base x with
      | ok p =>
        obtain ⟨base', oi⟩ := p
        obtain ⟨out, h1, h2⟩ := ih base'
        cases oi with
        | none => exact ⟨out, h1, by simp only [List.length_cons]; omega⟩
        | some it =>
          exact ⟨.item it :: out, by simp only [h1, Out.bind_ok, Out.pure_eq],
            by simp only [List.length_cons]; omega⟩
      | err e =>
        obtain ⟨out, h1, h2⟩ := ih base
        exact ⟨.error e :: out, by simp only [h1, Out.bind_ok, Out.pure_eq],
          by simp only [List.length_cons]; omega⟩
      | panic w => rw [hc] at hn; simp [Out.Normal] at hn
      | diverge => rw [hc] at hn; simp [Out.Normal] at hn

/-- the raw iterator reports at most one error, and nothing after it -/
theorem rawFuel_shape (k : Kind) (c : Cfg) (f : Fmt) : ∀ (n : Nat) (bs : Bytes) (evs : List (Ev Entry)),
    rawFuel k c f n bs = .ok evs →
      ∃ items : List Entry, evs = items.map .item ∨ ∃ e, evs = items.map .item ++ [.error e] := by
  intro n
  induction n with
  | zero => intro bs evs h; simp [rawFuel] at h
  | succ n ih =>
    intro bs evs h
    rw [rawFuel_succ] at h
    split at h
    · simp only [Out.ok.injEq] at h; subst h; exact ⟨[], Or.inl rfl⟩
    · split at h
      · rename_i x rest hp
        cases hr : rawFuel k c f n rest with
        | ok evs' =>
          rw [hr] at h
          simp only [Out.bind_ok, Out.pure_eq, Out.ok.injEq] at h
          subst h
          obtain ⟨items, hi | ⟨e, hi⟩⟩ := ih rest evs' hr
          · exact ⟨x :: items, Or.inl (by simp [hi])⟩
          · exact ⟨x :: items, Or.inr ⟨e, by simp [hi]⟩⟩
        | err e => rw [hr] at h; simp at h
        | panic w => rw [hr] at h; simp at h
        | diverge => rw [hr] at h; simp at h
      · simp only [Out.ok.injEq] at h; subst h; exact ⟨[], Or.inl rfl⟩
      · rename_i e hp
        simp only [Out.ok.injEq] at h; subst h; exact ⟨[], Or.inr ⟨e, rfl⟩⟩
      · simp at h
      · simp at h


/-! ## `die_ranges` -/

/-- attributes before a `DW_AT_ranges` that cannot end the loop of `die_ranges` with an error:
`DW_AT_low_pc` as `DW_FORM_addr`, `DW_AT_high_pc` as `DW_FORM_addr` or a constant, anything that is
not one of the three range attributes -/
def Benign : AttrName × AttrVal → Prop
  | (.lowPc, .addr _) => True
  | (.lowPc, _) => False
  | (.highPc, .addr _) => True
  | (.highPc, .udata _) => True
  | (.highPc, _) => False
  | (.ranges, _) => False
  | _ => True

instance (a : AttrName × AttrVal) : Decidable (Benign a) := by
  obtain ⟨n, v⟩ := a
  cases n <;> cases v <;> unfold Benign <;> infer_instance

/-- the loop state after benign attributes: the last `low_pc`, the last address-valued `high_pc`
and the last constant `high_pc` seen -/
def accStep (acc : DieAcc) : AttrName × AttrVal → DieAcc
  | (.lowPc, .addr a) => { acc with lowPc := some a }
  | (.highPc, .addr a) => { acc with highPc := some a }
  | (.highPc, .udata v) => { acc with size := some v }
  | _ => acc

theorem dieRangesLoop_benign (u : UnitCtx) (secs : Sections) (pre : Attrs) :
    ∀ (rest : Attrs) (acc : DieAcc), (∀ a ∈ pre, Benign a) →
      dieRangesLoop u secs (pre ++ rest) acc = dieRangesLoop u secs rest (pre.foldl accStep acc) := by
  induction pre with
  | nil => intro rest acc _; rfl
  | cons a pre ih =>
    intro rest acc hb
    have ha := hb a (by simp)
    have hrest : ∀ x ∈ pre, Benign x := fun x hx => hb x (by simp [hx])
    obtain ⟨n, v⟩ := a
    simp only [List.cons_append, List.foldl_cons]
    cases n <;> cases v <;> simp only [Benign] at ha <;>
      first
        | (simp only [dieRangesLoop, attrAddress, Out.bind_ok, accStep]; exact ih rest _ hrest)
        | (rw [dieRangesLoop]; simp only [accStep]; exact ih rest _ hrest)

/-- the first usable `DW_AT_ranges` wins, whatever follows -/
theorem dieRangesCore_ranges_wins (u : UnitCtx) (secs : Sections) (pre post : Attrs) (v : AttrVal)
    (o : Nat) (hb : ∀ a ∈ pre, Benign a) (ho : attrRangesOffset u secs v = .ok (some o)) :
    dieRangesCore u secs (pre ++ (.ranges, v) :: post) =
      (do let evs ← unitRangesAt u secs o; pure (.list evs)) := by
  unfold dieRangesCore
  rw [dieRangesLoop_benign u secs pre _ _ hb]
  rw [dieRangesLoop]
  simp only [ho, Out.bind_ok]
  cases unitRangesAt u secs o <;> rfl

/-- without `DW_AT_ranges`: the single range `low_pc .. high_pc` or `low_pc .. low_pc + size`,
kept only if it is non-empty and below the tombstones -/
theorem dieRangesCore_single (u : UnitCtx) (secs : Sections) (attrs : Attrs)
    (hb : ∀ a ∈ attrs, Benign a) :
    dieRangesCore u secs attrs =
      let acc := attrs.foldl accStep {}
      match acc.lowPc with
      | none => .ok (.single none)
      | some b =>
        match acc.size with
        | some sz =>
          if 2 ^ 64 ≤ b + sz then .err .rAddressOverflow
          else .ok (.single (keepSingle u.cfg.addrSize (some (b, b + sz))))
        | none => .ok (.single (keepSingle u.cfg.addrSize (acc.highPc.map fun e => (b, e)))) := by
  unfold dieRangesCore
  have := dieRangesLoop_benign u secs attrs [] {} hb
  rw [List.append_nil] at this
  rw [this]
  simp only [dieRangesLoop, Out.bind_ok]
  cases (List.foldl accStep {} attrs).lowPc with
  | none => rfl
  | some b =>
    simp only
    cases (List.foldl accStep {} attrs).size with
    | none => rfl
    | some sz => simp only; split <;> rfl


theorem cookedAt_items (k : Kind) (c : Cfg) (dwo : Bool) (legacy v5 : Bytes)
    (offset base : Nat) (addr : Bytes) (ab : Nat) (evs : List (Ev Item))
    (h : cookedAt k c dwo legacy v5 offset base addr ab = .ok evs) :
    ∀ it, Ev.item it ∈ evs → it.b < it.e ∧ it.b < minTombstone c.addrSize := by
  have key : ∀ f bs, cookedAll k c f addr ab base bs = .ok evs →
      ∀ it, Ev.item it ∈ evs → it.b < it.e ∧ it.b < minTombstone c.addrSize := by
    intro f bs h
    unfold cookedAll at h
    cases hr : rawAll k c f bs with
    | ok raw => rw [hr] at h; exact cook_items c addr ab raw base evs h
    | err e => rw [hr] at h; simp at h
    | panic w => rw [hr] at h; simp at h
    | diverge => rw [hr] at h; simp at h
  unfold cookedAt at h
  simp only at h
  split at h
  · split at h
    · simp at h
    · exact key _ _ h
  · split at h
    · simp at h
    · exact key _ _ h

theorem dieRangesLoop_list_items (u : UnitCtx) (secs : Sections) (attrs : Attrs) :
    ∀ (acc : DieAcc) (evs : List (Ev Item)), dieRangesLoop u secs attrs acc = .ok (.inr evs) →
      ∀ it, Ev.item it ∈ evs → it.b < it.e ∧ it.b < minTombstone u.cfg.addrSize := by
  induction attrs with
  | nil => intro acc evs h; simp [dieRangesLoop] at h
  | cons a rest ih =>
    intro acc evs h
    obtain ⟨n, v⟩ := a
    cases n with
    | lowPc =>
      rw [dieRangesLoop] at h
      cases ha : attrAddress u secs v with
      | ok oa =>
        rw [ha] at h
        cases oa with
        | none => simp at h
        | some a => exact ih _ evs h
      | err e => rw [ha] at h; simp at h
      | panic w => rw [ha] at h; simp at h
      | diverge => rw [ha] at h; simp at h
    | highPc =>
      cases v with
      | udata val => rw [dieRangesLoop] at h; exact ih _ evs h
      | addr x =>
        simp only [dieRangesLoop, attrAddress, Out.bind_ok] at h; exact ih _ evs h
      | addrx i =>
        rw [dieRangesLoop] at h
        cases ha : attrAddress u secs (.addrx i) with
        | ok oa =>
          rw [ha] at h
          cases oa with
          | none => simp at h
          | some a => exact ih _ evs h
        | err e => rw [ha] at h; simp at h
        | panic w => rw [ha] at h; simp at h
        | diverge => rw [ha] at h; simp at h
        all_goals simp
      | secOffset o => simp [dieRangesLoop, attrAddress] at h
      | listx i => simp [dieRangesLoop, attrAddress] at h
      | other => simp [dieRangesLoop, attrAddress] at h
    | ranges =>
      rw [dieRangesLoop] at h
      cases ho : attrRangesOffset u secs v with
      | ok oo =>
        rw [ho] at h
        cases oo with
        | none => exact ih _ evs h
        | some o =>
          simp only [Out.bind_ok] at h
          cases hu : unitRangesAt u secs o with
          | ok evs' =>
            rw [hu] at h
            simp only [Out.bind_ok, Out.pure_eq, Out.ok.injEq, Sum.inr.injEq] at h
            subst h
            exact cookedAt_items _ _ _ _ _ _ _ _ _ _ hu
          | err e => rw [hu] at h; simp at h
          | panic w => rw [hu] at h; simp at h
          | diverge => rw [hu] at h; simp at h
      | err e => rw [ho] at h; simp at h
      | panic w => rw [ho] at h; simp at h
      | diverge => rw [ho] at h; simp at h
    | location => simp only [dieRangesLoop] at h; exact ih _ evs h
    | addrBase => simp only [dieRangesLoop] at h; exact ih _ evs h
    | rnglistsBase => simp only [dieRangesLoop] at h; exact ih _ evs h
    | loclistsBase => simp only [dieRangesLoop] at h; exact ih _ evs h
    | other => simp only [dieRangesLoop] at h; exact ih _ evs h

theorem keepSingle_some (s : Nat) (r : Option (Nat × Nat)) (b e : Nat)
    (h : keepSingle s r = some (b, e)) : r = some (b, e) ∧ b < e ∧ b < minTombstone s := by
  cases r with
  | none => simp [keepSingle] at h
  | some p =>
    obtain ⟨b', e'⟩ := p
    simp only [keepSingle] at h
    split at h
    · rename_i hk
      simp only [Option.some.injEq, Prod.mk.injEq] at h
      obtain ⟨rfl, rfl⟩ := h
      exact ⟨rfl, hk.2, hk.1⟩
    · simp at h

/-- the single range of `die_ranges`, when there is one, is non-empty and below the tombstones -/
theorem dieRangesCore_single_items (u : UnitCtx) (secs : Sections) (attrs : Attrs) (b e : Nat)
    (h : dieRangesCore u secs attrs = .ok (.single (some (b, e)))) :
    b < e ∧ b < minTombstone u.cfg.addrSize := by
  unfold dieRangesCore at h
  cases hl : dieRangesLoop u secs attrs {} with
  | ok r =>
    rw [hl] at h
    cases r with
    | inr evs' => simp at h
    | inl acc =>
      simp only [Out.bind_ok] at h
      split at h
      · simp at h
      · split at h
        · split at h
          · simp at h
          · simp only [Out.pure_eq, Out.ok.injEq, RangesResult.single.injEq] at h
            exact (keepSingle_some _ _ _ _ h).2
        · simp only [Out.pure_eq, Out.ok.injEq, RangesResult.single.injEq] at h
          exact (keepSingle_some _ _ _ _ h).2
  | err x => rw [hl] at h; simp at h
  | panic w => rw [hl] at h; simp at h
  | diverge => rw [hl] at h; simp at h

theorem dieRangesCore_list_items (u : UnitCtx) (secs : Sections) (attrs : Attrs)
    (evs : List (Ev Item)) (h : dieRangesCore u secs attrs = .ok (.list evs)) :
    ∀ it, Ev.item it ∈ evs → it.b < it.e ∧ it.b < minTombstone u.cfg.addrSize := by
  unfold dieRangesCore at h
  cases hl : dieRangesLoop u secs attrs {} with
  | ok r =>
    rw [hl] at h
    cases r with
    | inr evs' =>
      simp only [Out.bind_ok, Out.pure_eq, Out.ok.injEq, RangesResult.list.injEq] at h
      subst h
      exact dieRangesLoop_list_items u secs attrs {} evs' hl
    | inl acc =>
      simp only [Out.bind_ok] at h
      split at h
      · simp at h
      · split at h
        · split at h <;> simp at h
        · simp at h
  | err e => rw [hl] at h; simp at h
  | panic w => rw [hl] at h; simp at h
  | diverge => rw [hl] at h; simp at h


/-- every range `die_ranges` / `unit_ranges` yields — list path and single path — is non-empty and
begins below the tombstones -/
theorem dieRanges_items (u : UnitCtx) (secs : Sections) (attrs : Attrs) (evs : List (Ev Item))
    (h : dieRanges u secs attrs = .ok evs) :
    ∀ it, Ev.item it ∈ evs → it.b < it.e ∧ it.b < minTombstone u.cfg.addrSize := by
  unfold dieRanges at h
  cases hc : dieRangesCore u secs attrs with
  | ok r =>
    rw [hc] at h
    simp only [Out.bind_ok, Out.pure_eq, Out.ok.injEq] at h
    subst h
    cases r with
    | list evs' => exact dieRangesCore_list_items u secs attrs evs' hc
    | single o =>
      cases o with
      | none => intro it hit; simp [RangesResult.events] at hit
      | some p =>
        obtain ⟨b, e⟩ := p
        intro it hit
        simp only [RangesResult.events, List.mem_singleton, Ev.item.injEq] at hit
        subst hit
        exact dieRangesCore_single_items u secs attrs b e hc
  | err x => rw [hc] at h; simp at h
  | panic w => rw [hc] at h; simp at h
  | diverge => rw [hc] at h; simp at h

/-! ## totality of the unit-level helpers -/

theorem getOffset_normal (c : Cfg) (sec : Bytes) (base i : Nat) : (getOffset c sec base i).Normal := by
  unfold getOffset
  split
  · simp [Out.Normal]
  · simp only; split
    · simp [Out.Normal]
    · split
      · simp [Out.Normal]
      · generalize List.drop (i * c.format.wordSize) (List.drop base sec) = r
        cases hf : c.format with
        | dwarf32 =>
          simp only [readWord, readFixed_eq]
          split
          · simp only [Out.bind_ok]; split <;> simp [Out.Normal]
          · simp [Out.Normal]
        | dwarf64 =>
          simp only [readWord, readFixed_eq]
          split
          · simp only [Out.bind_ok, offsetFromU64]
            split
            · simp only [Out.bind_ok, Out.pure_eq]; split <;> simp [Out.Normal]
            · simp [Out.Normal]
          · simp [Out.Normal]

theorem cookedAll_normal (k : Kind) (c : Cfg) (f : Fmt) (addr : Bytes) (ab base : Nat) (bs : Bytes) :
    (cookedAll k c f addr ab base bs).Normal := by
  obtain ⟨raw, h1, _⟩ := rawFuel_ok k c f (bs.length + 1) bs (by omega)
  obtain ⟨out, h3, _⟩ := cook_ok c addr ab raw base
  unfold cookedAll rawAll
  rw [h1]; simp only [Out.bind_ok, h3, Out.Normal]

theorem cookedAt_normal (k : Kind) (c : Cfg) (dwo : Bool) (legacy v5 : Bytes) (offset base : Nat)
    (addr : Bytes) (ab : Nat) : (cookedAt k c dwo legacy v5 offset base addr ab).Normal := by
  unfold cookedAt
  simp only
  split
  · split
    · simp [Out.Normal]
    · exact cookedAll_normal _ _ _ _ _ _ _
  · split
    · simp [Out.Normal]
    · exact cookedAll_normal _ _ _ _ _ _ _

theorem attrAddress_normal (u : UnitCtx) (secs : Sections) (v : AttrVal) :
    (attrAddress u secs v).Normal := by
  cases v <;> simp only [attrAddress, Out.Normal]
  exact normal_bind _ _ (getAddress_normal _ _ _ _) (fun a => by simp [Out.Normal])

theorem attrRangesOffset_normal (u : UnitCtx) (secs : Sections) (v : AttrVal) :
    (attrRangesOffset u secs v).Normal := by
  cases v <;> simp only [attrRangesOffset, Out.Normal]
  exact normal_bind _ _ (getOffset_normal _ _ _ _) (fun a => by simp [Out.Normal])

theorem dieRangesLoop_normal (u : UnitCtx) (secs : Sections) (attrs : Attrs) :
    ∀ acc, (dieRangesLoop u secs attrs acc).Normal := by
  induction attrs with
  | nil => intro acc; simp [dieRangesLoop, Out.Normal]
  | cons a rest ih =>
    intro acc
    obtain ⟨n, v⟩ := a
    have A := attrAddress_normal u secs
    cases n with
    | lowPc =>
      rw [dieRangesLoop]
      refine normal_bind _ _ (A v) (fun oa => ?_)
      cases oa with
      | none => simp [Out.Normal]
      | some a => exact ih _
    | highPc =>
      cases v with
      | udata val => rw [dieRangesLoop]; exact ih _
      | addr x => simp only [dieRangesLoop, attrAddress, Out.bind_ok]; exact ih _
      | addrx i =>
        rw [dieRangesLoop]
        · refine normal_bind _ _ (A _) (fun oa => ?_)
          cases oa with
          | none => simp [Out.Normal]
          | some a => exact ih _
        · simp
      | secOffset o => simp [dieRangesLoop, attrAddress, Out.Normal]
      | listx i => simp [dieRangesLoop, attrAddress, Out.Normal]
      | other => simp [dieRangesLoop, attrAddress, Out.Normal]
    | ranges =>
      rw [dieRangesLoop]
      refine normal_bind _ _ (attrRangesOffset_normal u secs v) (fun oo => ?_)
      cases oo with
      | none => exact ih _
      | some o =>
        exact normal_bind _ _ (cookedAt_normal _ _ _ _ _ _ _ _ _) (fun evs => by simp [Out.Normal])
    | location => simp only [dieRangesLoop]; exact ih _
    | addrBase => simp only [dieRangesLoop]; exact ih _
    | rnglistsBase => simp only [dieRangesLoop]; exact ih _
    | loclistsBase => simp only [dieRangesLoop]; exact ih _
    | other => simp only [dieRangesLoop]; exact ih _

theorem dieRangesCore_normal (u : UnitCtx) (secs : Sections) (attrs : Attrs) :
    (dieRangesCore u secs attrs).Normal := by
  unfold dieRangesCore
  refine normal_bind _ _ (dieRangesLoop_normal u secs attrs {}) (fun r => ?_)
  cases r with
  | inr evs => simp [Out.Normal]
  | inl acc =>
    simp only
    split
    · simp [Out.Normal]
    · split
      · split <;> simp [Out.Normal]
      · simp [Out.Normal]

theorem attrLocations_items (u : UnitCtx) (secs : Sections) (v : AttrVal) (evs : List (Ev Item))
    (h : attrLocations u secs v = .ok (some evs)) :
    ∀ it, Ev.item it ∈ evs → it.b < it.e ∧ it.b < minTombstone u.cfg.addrSize := by
  unfold attrLocations at h
  cases ho : attrLocationsOffset u secs v with
  | ok oo =>
    rw [ho] at h
    cases oo with
    | none => simp at h
    | some o =>
      simp only [Out.bind_ok] at h
      cases hu : unitLocationsAt u secs o with
      | ok evs' =>
        rw [hu] at h
        simp only [Out.bind_ok, Out.pure_eq, Out.ok.injEq, Option.some.injEq] at h
        subst h
        exact cookedAt_items _ _ _ _ _ _ _ _ _ _ hu
      | err e => rw [hu] at h; simp at h
      | panic w => rw [hu] at h; simp at h
      | diverge => rw [hu] at h; simp at h
  | err e => rw [ho] at h; simp at h
  | panic w => rw [ho] at h; simp at h
  | diverge => rw [ho] at h; simp at h


/-! ## the bases of a unit -/

/-- the value of the last attribute named `n` that is a section offset -/
def lastSec (n : AttrName) : Attrs → Option Nat
  | [] => none
  | (m, v) :: rest =>
    match lastSec n rest with
    | some o => some o
    | none => if m = n then (match v with | .secOffset o => some o | _ => none) else none

theorem basesStep_cfg (st : UnitCtx × Option AttrVal) (a : AttrName × AttrVal) :
    (basesStep st a).1.cfg = st.1.cfg ∧ (basesStep st a).1.dwo = st.1.dwo ∧
      (basesStep st a).1.lowPc = st.1.lowPc := by
  obtain ⟨n, v⟩ := a
  cases n <;> cases v <;> simp [basesStep]

theorem foldl_bases (root : Attrs) : ∀ (st : UnitCtx × Option AttrVal),
    let r := root.foldl basesStep st
    r.1.addrBase = (lastSec .addrBase root).getD st.1.addrBase ∧
    r.1.rnglistsBase = (lastSec .rnglistsBase root).getD st.1.rnglistsBase ∧
    r.1.loclistsBase = (lastSec .loclistsBase root).getD st.1.loclistsBase ∧
    r.1.cfg = st.1.cfg ∧ r.1.dwo = st.1.dwo ∧ r.1.lowPc = st.1.lowPc := by
  induction root with
  | nil => intro st; simp [lastSec]
  | cons a rest ih =>
    intro st
    have h := ih (basesStep st a)
    simp only [List.foldl_cons] at h ⊢
    obtain ⟨h1, h2, h3, h4, h5, h6⟩ := h
    obtain ⟨c1, c2, c3⟩ := basesStep_cfg st a
    refine ⟨?_, ?_, ?_, by rw [h4, c1], by rw [h5, c2], by rw [h6, c3]⟩
    · rw [h1]; obtain ⟨n, v⟩ := a
      simp only [lastSec]
      cases lastSec .addrBase rest with
      | some o => rfl
      | none => cases n <;> cases v <;> simp [basesStep]
    · rw [h2]; obtain ⟨n, v⟩ := a
      simp only [lastSec]
      cases lastSec .rnglistsBase rest with
      | some o => rfl
      | none => cases n <;> cases v <;> simp [basesStep]
    · rw [h3]; obtain ⟨n, v⟩ := a
      simp only [lastSec]
      cases lastSec .loclistsBase rest with
      | some o => rfl
      | none => cases n <;> cases v <;> simp [basesStep]

/-- the bases of a unit: the last base attribute given as a section offset, else the default -/
theorem unitBases_bases (c : Cfg) (dwo : Bool) (secs : Sections) (root : Attrs) (u : UnitCtx)
    (h : unitBases c dwo secs root = .ok u) :
    u.addrBase = (lastSec .addrBase root).getD 0 ∧
    u.rnglistsBase = (lastSec .rnglistsBase root).getD (defaultListsBase c dwo) ∧
    u.loclistsBase = (lastSec .loclistsBase root).getD (defaultListsBase c dwo) ∧
    u.cfg = c ∧ u.dwo = dwo := by
  have hf := foldl_bases root (initialUnit c dwo, none)
  simp only at hf
  unfold unitBases at h
  generalize List.foldl basesStep (initialUnit c dwo, none) root = r at h hf
  obtain ⟨u0, low⟩ := r
  simp only at h hf
  obtain ⟨h1, h2, h3, h4, h5, _⟩ := hf
  have key : u.addrBase = u0.addrBase ∧ u.rnglistsBase = u0.rnglistsBase ∧
      u.loclistsBase = u0.loclistsBase ∧ u.cfg = u0.cfg ∧ u.dwo = u0.dwo := by
    cases low with
    | none => simp only [Out.ok.injEq] at h; subst h; exact ⟨rfl, rfl, rfl, rfl, rfl⟩
    | some v =>
      simp only at h
      cases ha : attrAddress u0 secs v with
      | ok oa =>
        rw [ha] at h
        cases oa with
        | none => simp only [Out.bind_ok, Out.pure_eq, Out.ok.injEq] at h; subst h; exact ⟨rfl, rfl, rfl, rfl, rfl⟩
        | some a => simp only [Out.bind_ok, Out.pure_eq, Out.ok.injEq] at h; subst h; exact ⟨rfl, rfl, rfl, rfl, rfl⟩
      | err e => rw [ha] at h; simp at h
      | panic w => rw [ha] at h; simp at h
      | diverge => rw [ha] at h; simp at h
  obtain ⟨k1, k2, k3, k4, k5⟩ := key
  exact ⟨by rw [k1, h1]; rfl, by rw [k2, h2]; rfl, by rw [k3, h3]; rfl, by rw [k4, h4]; rfl, by rw [k5, h5]; rfl⟩


end Gimli.Lists
