import Gimli.Spec.WLists
import Gimli.Lemmas.Lists
import Gimli.Props.C08
/-! Helper lemmas for C16 (written range and location lists). -/
namespace Gimli.WLists
open Gimli Gimli.Ints Gimli.Lists Gimli.Spec.Lists Gimli.Spec.WLists

/-! ## machine integers -/

/-- the numeric fields are `u64`s -/
def U64Addr : Addr → Prop
  | .const v => v < 2 ^ 64
  | .symbol _ _ => True

def U64Op : XOp → Prop
  | .constu v => v < 2 ^ 64
  | .addr a => U64Addr a
  | _ => True

def U64Entry : WEntry → Prop
  | .baseAddress a => U64Addr a
  | .offsetPair b e x => b < 2 ^ 64 ∧ e < 2 ^ 64 ∧ ∀ op ∈ x, U64Op op
  | .startEnd b e x => U64Addr b ∧ U64Addr e ∧ ∀ op ∈ x, U64Op op
  | .startLength b len x => U64Addr b ∧ len < 2 ^ 64 ∧ ∀ op ∈ x, U64Op op
  | .defaultLocation x => ∀ op ∈ x, U64Op op

/-- DIE offsets are `u64`s -/
def U64EOff (eo : EOff) : Prop := ∀ i o, eo i = some o → o < 2 ^ 64

instance (a : Addr) : Decidable (U64Addr a) := by unfold U64Addr; cases a <;> infer_instance
instance (o : XOp) : Decidable (U64Op o) := by unfold U64Op; cases o <;> infer_instance
instance (x : WEntry) : Decidable (U64Entry x) := by unfold U64Entry; cases x <;> infer_instance

/-! ## `Out` plumbing -/

theorem bind_ok_inv {α β : Type} {x : Out α} {f : α → Out β} {b : β} (h : (x >>= f) = .ok b) :
    ∃ a, x = .ok a ∧ f a = .ok b := by
  cases x with
  | ok a => exact ⟨a, rfl, by simpa using h⟩
  | err e => simp at h
  | panic w => simp at h
  | diverge => simp at h

theorem bind_err_inv {α β : Type} {x : Out α} {f : α → Out β} {e : Err} (h : (x >>= f) = .err e) :
    x = .err e ∨ ∃ a, x = .ok a ∧ f a = .err e := by
  cases x with
  | ok a => exact .inr ⟨a, rfl, by simpa using h⟩
  | err e' => left; simpa using h
  | panic w => simp at h
  | diverge => simp at h

/-! ## integer writers -/

theorem writeUdata_ok {e : Endian} {v size : Nat} {bs : Bytes} (h : writeUdata e v size = .ok bs) :
    bs = toBytes e size v ∧ bs.length = size ∧ ValidSize size := by
  unfold writeUdata at h
  split at h
  · rename_i hs
    split at h
    · simp at h
    · have : bs = toBytes e size v := by simpa using h.symm
      subst this
      exact ⟨rfl, toBytes_length e size v, by unfold ValidSize; omega⟩
  · split at h
    · rename_i h8; subst h8
      have : bs = toBytes e 8 v := by simpa using h.symm
      subst this
      exact ⟨rfl, toBytes_length e 8 v, by unfold ValidSize; omega⟩
    · simp at h

theorem writeUdata_fits {e : Endian} {v size : Nat} {bs : Bytes} (h : writeUdata e v size = .ok bs)
    (hv : v < 2 ^ 64) : v < 2 ^ (8 * size) :=
  ((writeUdata_ok_iff e v size hv).mp ⟨bs, h⟩).2

theorem writeUdata_of_fits (e : Endian) (v size : Nat) (hs : ValidSize size) (hv : v < 2 ^ (8 * size)) :
    writeUdata e v size = .ok (toBytes e size v) := by
  unfold writeUdata
  by_cases h124 : size = 1 ∨ size = 2 ∨ size = 4
  · simp [h124, Nat.mod_eq_of_lt hv]
  · have : size = 8 := by unfold ValidSize at hs; omega
    simp [this]

/-- `write_udata` never returns one of the errors the list writers use for unrepresentable lists -/
theorem writeUdata_err {e : Endian} {v size : Nat} {er : Err} (h : writeUdata e v size = .err er) :
    er = .wValueTooLarge ∨ er = .wUnsupportedWordSize := by
  unfold writeUdata at h
  split at h
  · split at h
    · left; simpa using h.symm
    · simp at h
  · split at h
    · simp at h
    · right; simpa using h.symm

theorem writeAddress_ok {c : Cfg} {a : Addr} {bs : Bytes} (h : writeAddress c a = .ok bs) :
    ∃ v, a = .const v ∧ bs = toBytes c.endian c.addrSize v ∧ bs.length = c.addrSize ∧
      ValidSize c.addrSize := by
  cases a with
  | const v =>
    obtain ⟨h1, h2, h3⟩ := writeUdata_ok (by simpa [writeAddress] using h)
    exact ⟨v, rfl, h1, h2, h3⟩
  | symbol s a => simp [writeAddress] at h

theorem writeAddress_fits {c : Cfg} {v : Nat} {bs : Bytes} (h : writeAddress c (.const v) = .ok bs)
    (hv : v < 2 ^ 64) : v < addrMod c.addrSize :=
  writeUdata_fits (by simpa [writeAddress] using h) hv

/-! ## expressions: `Operation::size` is the number of bytes `Operation::write` emits -/

theorem writeOp_length {c : Cfg} {eo : EOff} {uoff : Nat} {op : XOp} {n : Nat} {bs : Bytes}
    (hs : opSize c eo op = .ok n) (hw : writeOp c eo uoff op = .ok bs) (hu : U64Op op)
    (he : U64EOff eo) : bs.length = n := by
  cases op with
  | raw b =>
    simp only [opSize, Out.ok.injEq] at hs; simp only [writeOp, Out.ok.injEq] at hw; subst hs hw; rfl
  | simple o =>
    simp only [opSize, Out.ok.injEq] at hs; simp only [writeOp, Out.ok.injEq] at hw; subst hs hw; rfl
  | addr a =>
    simp only [opSize, Out.ok.injEq] at hs
    simp only [writeOp] at hw
    obtain ⟨b, h1, h2⟩ := bind_ok_inv hw
    obtain ⟨v, _, _, hl, _⟩ := writeAddress_ok h1
    simp only [Out.pure_eq, Out.ok.injEq] at h2
    subst h2 hs; simp [hl]; omega
  | constu v =>
    simp only [opSize, Out.ok.injEq] at hs; simp only [writeOp, Out.ok.injEq] at hw
    subst hs hw
    by_cases h : v < 32
    · simp [h]
    · have := (Leb.encodeU_spec v hu).2.2.2.2
      simp [h, this]; omega
  | call i =>
    simp only [opSize, Out.ok.injEq] at hs
    simp only [writeOp] at hw
    cases ho : eo i with
    | none => simp [ho] at hw
    | some o =>
      simp only [ho] at hw
      obtain ⟨b, h1, h2⟩ := bind_ok_inv hw
      obtain ⟨_, hl, _⟩ := writeUdata_ok h1
      simp only [Out.pure_eq, Out.ok.injEq] at h2
      subst h2 hs; simp [hl]
  | convert base =>
    cases base with
    | none =>
      simp only [opSize, Out.ok.injEq] at hs; simp only [writeOp, Out.ok.injEq] at hw
      subst hs hw; rfl
    | some i =>
      simp only [opSize] at hs
      simp only [writeOp] at hw
      cases ho : eo i with
      | none => simp [ho] at hw
      | some o =>
        simp only [ho, Out.ok.injEq] at hw hs
        have := (Leb.encodeU_spec o (he i o ho)).2.2.2.2
        subst hs hw; simp [this]; omega
  | callRef i =>
    simp only [opSize, Out.ok.injEq] at hs
    simp only [writeOp] at hw
    cases ho : eo i with
    | none => simp [ho] at hw
    | some o =>
      simp only [ho] at hw
      obtain ⟨b, h1, h2⟩ := bind_ok_inv hw
      obtain ⟨_, hl, _⟩ := writeUdata_ok h1
      simp only [Out.pure_eq, Out.ok.injEq] at h2
      subst h2 hs; simp [hl]; omega

theorem writeOps_length {c : Cfg} {eo : EOff} {uoff : Nat} (he : U64EOff eo) :
    ∀ (x : WExpr) (n : Nat) (bs : Bytes), exprSize c eo x = .ok n → writeOps c eo uoff x = .ok bs →
      (∀ op ∈ x, U64Op op) → bs.length = n
  | [], n, bs, hs, hw, _ => by
    simp only [exprSize, Out.ok.injEq] at hs; simp only [writeOps, Out.ok.injEq] at hw
    subst hs hw; rfl
  | op :: rest, n, bs, hs, hw, hu => by
    simp only [exprSize] at hs
    simp only [writeOps] at hw
    obtain ⟨a, hs1, hs2⟩ := bind_ok_inv hs
    obtain ⟨b, hs3, hs4⟩ := bind_ok_inv hs2
    obtain ⟨a', hw1, hw2⟩ := bind_ok_inv hw
    obtain ⟨b', hw3, hw4⟩ := bind_ok_inv hw2
    simp only [Out.pure_eq, Out.ok.injEq] at hs4 hw4
    have h1 := writeOp_length hs1 hw1 (hu op (by simp)) he
    have h2 := writeOps_length he rest b b' hs3 hw3 (fun o ho => hu o (by simp [ho]))
    subst hs4 hw4; simp [h1, h2]

/-! ## the location description of an entry -/

/-- the bytes of an expression (what `Expression::write` emits; `[]` if it cannot be written) -/
def exprBytes (c : Cfg) (eo : EOff) (uoff : Nat) (x : WExpr) : Bytes :=
  match writeOps c eo uoff x with
  | .ok b => b
  | _ => []

/-- the location description of an entry as a byte string: nothing in range lists -/
def dataBytes (k : Kind) (c : Cfg) (eo : EOff) (uoff : Nat) (x : WExpr) : Bytes :=
  match k with
  | .rng => []
  | .loc => exprBytes c eo uoff x

/-- the expression of an entry -/
def exprOf : WEntry → WExpr
  | .baseAddress _ => []
  | .offsetPair _ _ x => x
  | .startEnd _ _ x => x
  | .startLength _ _ x => x
  | .defaultLocation x => x

/-- What the Rust types and a 64-bit machine guarantee about an entry: it is of the list's family,
its numeric fields are `u64`s, its encoded expression is shorter than 2^64 bytes. -/
def Machine (k : Kind) (c : Cfg) (eo : EOff) (uoff : Nat) (x : WEntry) : Prop :=
  EntryOfKind k x ∧ U64Entry x ∧ (exprBytes c eo uoff (exprOf x)).length < 2 ^ 64

instance (k : Kind) (c : Cfg) (eo : EOff) (uoff : Nat) (x : WEntry) : Decidable (Machine k c eo uoff x) := by
  unfold Machine; infer_instance

theorem writeData_enc {k : Kind} {c : Cfg} {eo : EOff} {uoff : Nat} {x : WExpr} {bs : Bytes} (f : Fmt)
    (h : writeData k c eo uoff x = .ok bs) (hu : ∀ op ∈ x, U64Op op) (he : U64EOff eo)
    (hv : (f = .coded ∧ c.version ≥ 5) ∨ c.version ≤ 4)
    (hlen : (exprBytes c eo uoff x).length < 2 ^ 64) :
    bs = encData k c f (dataBytes k c eo uoff x) ∧ WfData k c f (dataBytes k c eo uoff x) := by
  cases k with
  | rng =>
    simp only [writeData, Out.ok.injEq] at h
    subst h; simp [encData, dataBytes, WfData]
  | loc =>
    simp only [writeData, writeExpression, writeExprBody] at h
    obtain ⟨size, h1, h2⟩ := bind_ok_inv h
    obtain ⟨len, h3, h4⟩ := bind_ok_inv h2
    obtain ⟨body, h5, h6⟩ := bind_ok_inv h4
    obtain ⟨_, _, h7⟩ := bind_ok_inv h5
    simp only [Out.pure_eq, Out.ok.injEq] at h6
    have hbody : exprBytes c eo uoff x = body := by simp [exprBytes, h7]
    have hsz : body.length = size := writeOps_length he x size body h1 h7 hu
    simp only [dataBytes, hbody, encData, WfData]
    rw [hbody] at hlen
    by_cases h4v : c.version ≤ 4
    · have hcond : ¬ (f = .coded ∧ c.version ≥ 5) := by omega
      rw [writeExprLen, if_pos h4v] at h3
      obtain ⟨hl, _, _⟩ := writeUdata_ok h3
      have hfit := writeUdata_fits h3 (by omega)
      rw [if_neg hcond, if_neg hcond]
      subst h6; rw [hl, hsz]
      exact ⟨rfl, by omega⟩
    · have hcond : f = .coded ∧ c.version ≥ 5 := by
        rcases hv with hv | hv
        · exact hv
        · omega
      rw [writeExprLen, if_neg h4v] at h3
      simp only [Out.ok.injEq] at h3
      rw [if_pos hcond, if_pos hcond]
      subst h6 h3; rw [hsz]
      exact ⟨rfl, by omega⟩

/-- `write_expression` never returns one of the errors that reject unrepresentable lists -/
def ListErr (e : Err) : Prop := e = .wInvalidRange ∨ e = .wMissingBaseAddress ∨ e = .wUnexpectedBaseAddress

theorem writeUdata_not_listErr {e : Endian} {v size : Nat} {er : Err} (h : writeUdata e v size = .err er) :
    ¬ ListErr er := by
  rcases writeUdata_err h with h | h <;> subst h <;> simp [ListErr]

theorem writeAddress_not_listErr {c : Cfg} {a : Addr} {er : Err} (h : writeAddress c a = .err er) :
    ¬ ListErr er := by
  cases a with
  | const v => exact writeUdata_not_listErr (by simpa [writeAddress] using h)
  | symbol s a =>
    simp only [writeAddress, Out.err.injEq] at h
    subst h; simp [ListErr]

theorem opSize_not_listErr {c : Cfg} {eo : EOff} {op : XOp} {er : Err} (h : opSize c eo op = .err er) :
    ¬ ListErr er := by
  cases op with
  | convert base =>
    cases base with
    | none => simp [opSize] at h
    | some i =>
      simp only [opSize] at h
      cases ho : eo i with
      | none => simp only [ho, Out.err.injEq] at h; subst h; simp [ListErr]
      | some o => simp [ho] at h
  | _ => simp [opSize] at h

theorem exprSize_not_listErr {c : Cfg} {eo : EOff} : ∀ (x : WExpr) {er : Err},
    exprSize c eo x = .err er → ¬ ListErr er
  | [], er, h => by simp [exprSize] at h
  | op :: rest, er, h => by
    simp only [exprSize] at h
    rcases bind_err_inv h with h1 | ⟨a, _, h2⟩
    · exact opSize_not_listErr h1
    · rcases bind_err_inv h2 with h3 | ⟨b, _, h4⟩
      · exact exprSize_not_listErr rest h3
      · simp at h4

theorem writeOp_not_listErr {c : Cfg} {eo : EOff} {uoff : Nat} {op : XOp} {er : Err}
    (h : writeOp c eo uoff op = .err er) : ¬ ListErr er := by
  cases op with
  | raw b => simp [writeOp] at h
  | simple o => simp [writeOp] at h
  | addr a =>
    simp only [writeOp] at h
    rcases bind_err_inv h with h1 | ⟨a, _, h2⟩
    · exact writeAddress_not_listErr h1
    · simp at h2
  | constu v => simp [writeOp] at h
  | call i =>
    simp only [writeOp] at h
    cases ho : eo i with
    | none => simp only [ho, Out.err.injEq] at h; subst h; simp [ListErr]
    | some o =>
      simp only [ho] at h
      rcases bind_err_inv h with h1 | ⟨a, _, h2⟩
      · exact writeUdata_not_listErr h1
      · simp at h2
  | convert base =>
    cases base with
    | none => simp [writeOp] at h
    | some i =>
      simp only [writeOp] at h
      cases ho : eo i with
      | none => simp only [ho, Out.err.injEq] at h; subst h; simp [ListErr]
      | some o => simp [ho] at h
  | callRef i =>
    simp only [writeOp] at h
    cases ho : eo i with
    | none => simp only [ho, Out.err.injEq] at h; subst h; simp [ListErr]
    | some o =>
      simp only [ho] at h
      rcases bind_err_inv h with h1 | ⟨a, _, h2⟩
      · exact writeUdata_not_listErr h1
      · simp at h2

theorem writeOps_not_listErr {c : Cfg} {eo : EOff} {uoff : Nat} : ∀ (x : WExpr) {er : Err},
    writeOps c eo uoff x = .err er → ¬ ListErr er
  | [], er, h => by simp [writeOps] at h
  | op :: rest, er, h => by
    simp only [writeOps] at h
    rcases bind_err_inv h with h1 | ⟨a, _, h2⟩
    · exact writeOp_not_listErr h1
    · rcases bind_err_inv h2 with h3 | ⟨b, _, h4⟩
      · exact writeOps_not_listErr rest h3
      · simp at h4

theorem writeData_not_listErr {k : Kind} {c : Cfg} {eo : EOff} {uoff : Nat} {x : WExpr} {er : Err}
    (h : writeData k c eo uoff x = .err er) : ¬ ListErr er := by
  cases k with
  | rng => simp [writeData] at h
  | loc =>
    simp only [writeData, writeExpression, writeExprBody] at h
    rcases bind_err_inv h with h1 | ⟨size, _, h2⟩
    · exact exprSize_not_listErr x h1
    · rcases bind_err_inv h2 with h3 | ⟨len, _, h4⟩
      · rw [writeExprLen] at h3
        split at h3
        · exact writeUdata_not_listErr h3
        · simp at h3
      · rcases bind_err_inv h4 with h5 | ⟨body, _, h6⟩
        · rcases bind_err_inv h5 with h7 | ⟨_, _, h8⟩
          · exact exprSize_not_listErr x h7
          · exact writeOps_not_listErr x h8
        · simp at h6

/-! ## DWARF 5: the writer emits the Spec encoding of the list as built -/

theorem writeEntryCoded_enc {k : Kind} {c : Cfg} {eo : EOff} {uoff : Nat} {x : WEntry} {bs : Bytes}
    (h : writeEntryCoded k c eo uoff x = .ok bs) (hm : Machine k c eo uoff x) (he : U64EOff eo)
    (hv : c.version ≥ 5) :
    bs = encodeEntry k c .coded (asBuilt (dataBytes k c eo uoff) x) ∧
      WfEntry k c .coded (asBuilt (dataBytes k c eo uoff) x) := by
  obtain ⟨hk, hu, hl⟩ := hm
  have hvv : (Fmt.coded = .coded ∧ c.version ≥ 5) ∨ c.version ≤ 4 := .inl ⟨rfl, hv⟩
  cases x with
  | baseAddress a =>
    simp only [writeEntryCoded] at h
    obtain ⟨b, h1, h2⟩ := bind_ok_inv h
    obtain ⟨v, rfl, hb, _, _⟩ := writeAddress_ok h1
    have hfit := writeAddress_fits h1 hu
    simp only [Out.pure_eq, Out.ok.injEq] at h2
    subst h2 hb
    refine ⟨?_, ?_⟩
    · cases k <;> simp [encodeEntry, asBuilt, code, codeBaseAddress, encAddr, addrVal]
    · simpa [WfEntry, asBuilt, addrVal] using hfit
  | offsetPair b e x =>
    simp only [writeEntryCoded] at h
    obtain ⟨d, h1, h2⟩ := bind_ok_inv h
    simp only [Out.pure_eq, Out.ok.injEq] at h2
    obtain ⟨hd, hwf⟩ := writeData_enc .coded h1 hu.2.2 he hvv hl
    subst h2
    refine ⟨?_, ?_⟩
    · rw [hd]; cases k <;> simp [encodeEntry, asBuilt, code, codeOffsetPair]
    · exact ⟨hu.1, hu.2.1, hwf⟩
  | startEnd b e x =>
    simp only [writeEntryCoded, writeAddrPair] at h
    obtain ⟨bs', h0, h2⟩ := bind_ok_inv h
    obtain ⟨b1, h1, h3⟩ := bind_ok_inv h0
    obtain ⟨b2, h4, h5⟩ := bind_ok_inv h3
    obtain ⟨d, h6, h7⟩ := bind_ok_inv h5
    simp only [Out.pure_eq, Out.ok.injEq] at h2 h7
    obtain ⟨vb, rfl, hb1, _, _⟩ := writeAddress_ok h1
    obtain ⟨ve, rfl, hb2, _, _⟩ := writeAddress_ok h4
    have hfb := writeAddress_fits h1 hu.1
    have hfe := writeAddress_fits h4 hu.2.1
    obtain ⟨hd, hwf⟩ := writeData_enc .coded h6 hu.2.2 he hvv hl
    subst h2 h7 hb1 hb2
    refine ⟨?_, ?_⟩
    · rw [hd]; cases k <;> simp [encodeEntry, asBuilt, code, codeStartEnd, encAddr, addrVal]
    · exact ⟨hfb, hfe, hwf⟩
  | startLength b len x =>
    simp only [writeEntryCoded] at h
    obtain ⟨b1, h1, h3⟩ := bind_ok_inv h
    obtain ⟨d, h6, h7⟩ := bind_ok_inv h3
    simp only [Out.pure_eq, Out.ok.injEq] at h7
    obtain ⟨vb, rfl, hb1, _, _⟩ := writeAddress_ok h1
    have hfb := writeAddress_fits h1 hu.1
    obtain ⟨hd, hwf⟩ := writeData_enc .coded h6 hu.2.2 he hvv hl
    subst h7 hb1
    refine ⟨?_, ?_⟩
    · rw [hd]; cases k <;> simp [encodeEntry, asBuilt, code, codeStartLength, encAddr, addrVal]
    · exact ⟨hfb, hu.2.1, hwf⟩
  | defaultLocation x =>
    simp only [writeEntryCoded] at h
    obtain ⟨d, h6, h7⟩ := bind_ok_inv h
    simp only [Out.pure_eq, Out.ok.injEq] at h7
    obtain ⟨hd, hwf⟩ := writeData_enc .coded h6 hu he hvv hl
    subst h7
    cases k with
    | rng => exact absurd hk (by simp [EntryOfKind])
    | loc =>
      refine ⟨?_, rfl, hwf⟩
      rw [hd]; simp [encodeEntry, asBuilt, code, codeDefaultLocation]

theorem writeEntriesCoded_enc {k : Kind} {c : Cfg} {eo : EOff} {uoff : Nat} (he : U64EOff eo)
    (hv : c.version ≥ 5) : ∀ (l : WList) (bs : Bytes), writeEntriesCoded k c eo uoff l = .ok bs →
      (∀ x ∈ l, Machine k c eo uoff x) →
      bs = encodeList k c .coded (l.map (asBuilt (dataBytes k c eo uoff))) ∧
        ∀ y ∈ l.map (asBuilt (dataBytes k c eo uoff)), WfEntry k c .coded y
  | [], bs, h, _ => by
    simp only [writeEntriesCoded, Out.ok.injEq] at h
    subst h
    exact ⟨by simp [encodeList, terminator, codeEndOfList], by simp⟩
  | x :: xs, bs, h, hm => by
    simp only [writeEntriesCoded] at h
    obtain ⟨b1, h1, h2⟩ := bind_ok_inv h
    obtain ⟨b2, h3, h4⟩ := bind_ok_inv h2
    simp only [Out.pure_eq, Out.ok.injEq] at h4
    obtain ⟨e1, w1⟩ := writeEntryCoded_enc h1 (hm x (by simp)) he hv
    obtain ⟨e2, w2⟩ := writeEntriesCoded_enc he hv xs b2 h3 (fun y hy => hm y (by simp [hy]))
    subst h4
    refine ⟨by simp [encodeList, e1, e2], ?_⟩
    intro y hy
    simp only [List.map_cons, List.mem_cons] at hy
    rcases hy with rfl | hy
    · exact w1
    · exact w2 y hy

/-! ## the lists of a table inside the section -/

theorem writeLists_at (one : WList → Out Bytes) : ∀ (tbl : List WList) (start : Nat) (bytes : Bytes)
    (offs : List Nat), writeLists one start tbl = .ok (bytes, offs) →
    offs.length = tbl.length ∧
    ∀ (i : Nat) (hi : i < tbl.length), ∃ pre bsi post, bytes = pre ++ bsi ++ post ∧
      one tbl[i] = .ok bsi ∧ offs[i]? = some (start + pre.length)
  | [], start, bytes, offs, h => by
    simp only [writeLists, Out.ok.injEq, Prod.mk.injEq] at h
    obtain ⟨rfl, rfl⟩ := h
    exact ⟨rfl, fun i hi => absurd hi (by simp)⟩
  | l :: ls, start, bytes, offs, h => by
    simp only [writeLists] at h
    obtain ⟨bs, h1, h2⟩ := bind_ok_inv h
    obtain ⟨⟨rest, offs'⟩, h3, h4⟩ := bind_ok_inv h2
    simp only [Out.pure_eq, Out.ok.injEq, Prod.mk.injEq] at h4
    obtain ⟨rfl, rfl⟩ := h4
    obtain ⟨hl, hat⟩ := writeLists_at one ls (start + bs.length) rest offs' h3
    refine ⟨by simp [hl], ?_⟩
    intro i hi
    cases i with
    | zero => exact ⟨[], bs, rest, by simp, by simpa using h1, by simp⟩
    | succ j =>
      obtain ⟨pre, bsi, post, e1, e2, e3⟩ := hat j (by simpa using hi)
      refine ⟨bs ++ pre, bsi, post, by simp [e1], by simpa using e2, ?_⟩
      simp only [List.getElem?_cons_succ, e3, List.length_append, Option.some.injEq]
      omega

theorem tableOf_nil (e : Endian) (s : Nat) (hs : 1 ≤ s) : tableOf e s [] 0 = noTable := by
  funext i
  simp only [tableOf, noTable, List.length_nil]
  rw [if_neg (by omega)]

theorem writeInitialLength_length {e : Endian} {f : Format} {n : Nat} {bs : Bytes}
    (h : writeInitialLength e f n = .ok bs) : bs.length = initialLengthSize f := by
  cases f with
  | dwarf32 =>
    simp only [writeInitialLength] at h
    split at h
    · simp at h
    · exact (writeUdata_ok h).2.1
  | dwarf64 =>
    simp only [writeInitialLength] at h
    obtain ⟨b, h1, h2⟩ := bind_ok_inv h
    simp only [Out.pure_eq, Out.ok.injEq] at h2
    subst h2
    simp [toBytes_length, (writeUdata_ok h1).2.1, initialLengthSize]

theorem headerBody_length (c : Cfg) : (headerBody c).length = 8 := by
  simp [headerBody, toBytes_length]

theorem sectionFormat_v5 (k : Kind) (v : Nat) (hv : v = 5) : sectionFormat k v false = (false, .coded) := by
  subst hv; simp [sectionFormat]

theorem table_roundtrip_v5 (m : Mode) (k : Kind) (c : Cfg) (eo : EOff) (uoff : Nat) (ub : Bool)
    (prior other : Bytes) (tbl : List WList) (bytes : Bytes) (offs : List Nat)
    (hv : c.version = 5) (hs : ValidSize c.addrSize) (he : U64EOff eo)
    (hm : ∀ l ∈ tbl, ∀ x ∈ l, Machine k c eo uoff x)
    (hw : writeTable m k c eo uoff ub prior.length tbl = .ok (bytes, offs))
    (base : Nat) (i : Nat) (hi : i < tbl.length) :
    ∃ off evs, offs[i]? = some off ∧
      cookedAt k c false other (prior ++ bytes) off base [] 0 = .ok evs ∧
      evs.map denot = meaning c.addrSize (dataBytes k c eo uoff) base tbl[i] := by
  have hne : tbl.isEmpty = false := by
    cases tbl with
    | nil => simp at hi
    | cons _ _ => rfl
  simp only [writeTable, hne, Bool.false_eq_true, if_false, hv, if_true] at hw
  obtain ⟨⟨body, offs'⟩, h1, h2⟩ := bind_ok_inv hw
  obtain ⟨len, h3, h4⟩ := bind_ok_inv h2
  simp only [Out.pure_eq, Out.ok.injEq, Prod.mk.injEq] at h4
  obtain ⟨rfl, rfl⟩ := h4
  obtain ⟨_, hat⟩ := writeLists_at _ tbl _ body offs' h1
  obtain ⟨pre, bsi, post, e1, e2, e3⟩ := hat i hi
  obtain ⟨e4, w4⟩ := writeEntriesCoded_enc he (by omega) tbl[i] bsi e2
    (hm tbl[i] (List.getElem_mem hi))
  have hsf := sectionFormat_v5 k c.version hv
  have hr := Props.C08.resolve_refines_at k c false [] 0 base hs (by simp)
    (tbl[i].map (asBuilt (dataBytes k c eo uoff))) (prior ++ len ++ headerBody c ++ pre) post other
    (by rw [hsf]; exact w4)
  simp only [hsf] at hr
  obtain ⟨evs, hr1, hr2⟩ := hr
  refine ⟨_, evs, e3, ?_, ?_⟩
  · have hlen : (prior ++ len ++ headerBody c ++ pre).length =
        prior.length + (initialLengthSize c.format + 8) + pre.length := by
      simp [writeInitialLength_length h3, headerBody_length]; omega
    rw [← hlen]
    have hsec : prior ++ (len ++ headerBody c ++ body) =
        prior ++ len ++ headerBody c ++ pre ++ encodeList k c .coded (tbl[i].map (asBuilt (dataBytes k c eo uoff))) ++ post := by
      rw [e1, e4]; simp [List.append_assoc]
    rw [hsec]
    simpa using hr1
  · rw [hr2, tableOf_nil _ _ (validSize_bounds hs).1]; rfl

/-! ## `add`: de-duplication -/

theorem indexOf_some {l : WList} : ∀ {tbl : List WList} {i : Nat}, indexOf l tbl = some i → tbl[i]? = some l
  | [], i, h => by simp [indexOf] at h
  | x :: xs, i, h => by
    simp only [indexOf] at h
    split at h
    · rename_i hx
      simp only [Option.some.injEq] at h
      subst h hx; rfl
    · cases hr : indexOf l xs with
      | none => simp [hr] at h
      | some j =>
        simp only [hr, Option.map_some, Option.some.injEq] at h
        subst h
        simpa using indexOf_some hr

theorem indexOf_none {l : WList} : ∀ {tbl : List WList}, indexOf l tbl = none → l ∉ tbl
  | [], _ => by simp
  | x :: xs, h => by
    simp only [indexOf] at h
    split at h
    · simp at h
    · rename_i hx
      cases hr : indexOf l xs with
      | none =>
        have := indexOf_none hr
        simp only [List.mem_cons, not_or]
        exact ⟨fun e => hx e.symm, this⟩
      | some j => simp [hr] at h

theorem add_spec (tbl : List WList) (l : WList) (hn : tbl.Nodup) :
    (add tbl l).1.Nodup ∧ (∃ ext, (add tbl l).1 = tbl ++ ext) ∧ (add tbl l).1[(add tbl l).2]? = some l ∧
      (∀ t ∈ (add tbl l).1, t ∈ tbl ∨ t = l) := by
  unfold add
  cases h : indexOf l tbl with
  | some i =>
    exact ⟨hn, ⟨[], by simp⟩, indexOf_some h, fun t ht => .inl ht⟩
  | none =>
    have hnot := indexOf_none h
    refine ⟨?_, ⟨[l], rfl⟩, by simp, ?_⟩
    · rw [List.nodup_append]
      refine ⟨hn, by simp, ?_⟩
      intro a ha b hb
      simp only [List.mem_singleton] at hb
      subst hb
      exact fun e => hnot (e ▸ ha)
    · intro t ht
      simp only [List.mem_append, List.mem_singleton] at ht
      exact ht

theorem addAll_spec : ∀ (ls tbl : List WList), tbl.Nodup →
    (addAll tbl ls).1.Nodup ∧ (∃ ext, (addAll tbl ls).1 = tbl ++ ext) ∧
      (addAll tbl ls).2.length = ls.length ∧
      (∀ (j : Nat) (hj : j < ls.length), ∃ id, (addAll tbl ls).2[j]? = some id ∧
        (addAll tbl ls).1[id]? = some ls[j]) ∧
      (∀ t ∈ (addAll tbl ls).1, t ∈ tbl ∨ t ∈ ls)
  | [], tbl, hn => by
    simp only [addAll]
    exact ⟨hn, ⟨[], by simp⟩, rfl, fun j hj => absurd hj (by simp), fun t ht => .inl ht⟩
  | l :: ls, tbl, hn => by
    simp only [addAll]
    obtain ⟨a1, ⟨ext1, a2⟩, a3, a4⟩ := add_spec tbl l hn
    obtain ⟨b1, ⟨ext2, b2⟩, b3, b4, b5⟩ := addAll_spec ls (add tbl l).1 a1
    refine ⟨b1, ⟨ext1 ++ ext2, by rw [b2, a2, List.append_assoc]⟩, by simp [b3], ?_, ?_⟩
    · intro j hj
      cases j with
      | zero =>
        refine ⟨(add tbl l).2, by simp, ?_⟩
        rw [b2]
        have hlt : (add tbl l).2 < (add tbl l).1.length := by
          rcases Nat.lt_or_ge (add tbl l).2 (add tbl l).1.length with h | h
          · exact h
          · rw [List.getElem?_eq_none h] at a3; simp at a3
        rw [List.getElem?_append_left hlt]
        simpa using a3
      | succ j' =>
        obtain ⟨id, e1, e2⟩ := b4 j' (by simpa using hj)
        exact ⟨id, by simpa using e1, by simpa using e2⟩
    · intro t ht
      rcases b5 t ht with h | h
      · rcases a4 t h with h' | h'
        · exact .inl h'
        · exact .inr (by simp [h'])
      · exact .inr (by simp [h])

/-- in a duplicate-free list equal elements sit at equal positions -/
theorem nodup_index_inj {tbl : List WList} (hn : tbl.Nodup) {a b : Nat} {x : WList}
    (ha : tbl[a]? = some x) (hb : tbl[b]? = some x) : a = b := by
  have hal : a < tbl.length := by
    rcases Nat.lt_or_ge a tbl.length with h | h
    · exact h
    · rw [List.getElem?_eq_none h] at ha; simp at ha
  exact (List.getElem?_inj hal hn).mp (by rw [ha, hb])

/-! ## DWARF ≤ 4: what an accepted entry is emitted as -/

/-- the entry's first word in the DWARF ≤ 4 encoding is the all-ones base-address marker -/
def OnesBegin (c : Cfg) : WEntry → Prop
  | .offsetPair b _ _ => b = addrMod c.addrSize - 1
  | .startEnd b _ _ => b = .const (addrMod c.addrSize - 1)
  | .startLength b _ _ => b = .const (addrMod c.addrSize - 1)
  | _ => False

instance (c : Cfg) (x : WEntry) : Decidable (OnesBegin c x) := by
  unfold OnesBegin; cases x <;> infer_instance

/-- the DWARF ≤ 4 entry (address-or-offset pair / base address selection) an accepted entry is
emitted as -/
def toBare (enc : WExpr → Bytes) : WEntry → Entry
  | .baseAddress a => .baseAddress (addrVal a)
  | .offsetPair b e x => .pair b e (enc x)
  | .startEnd b e x => .pair (addrVal b) (addrVal e) (enc x)
  | .startLength b len x => .pair (addrVal b) (addrVal b + len) (enc x)
  | .defaultLocation _ => .pair 0 0 []

theorem marker_valid {m : Mode} {s mk : Nat} (h : marker m s = .ok mk) (hs : ValidSize s) :
    mk = addrMod s - 1 := by
  have hb := validSize_bounds hs
  unfold marker at h
  rw [if_pos hb] at h
  simp only [Out.ok.injEq] at h
  exact h.symm

theorem tombstone_pos (s : Nat) (hs : ValidSize s) : 0 < tombstone s := by
  have := addrMod_ge s hs
  unfold tombstone; omega

theorem writeEntryBare_enc {m : Mode} {mk : Nat} {k : Kind} {c : Cfg} {eo : EOff} {uoff : Nat} {hb hb' : Bool}
    {x : WEntry} {bs : Bytes} (hmk : marker m c.addrSize = .ok mk)
    (h : writeEntryBare mk k c eo uoff hb x = .ok (bs, hb'))
    (hm : Machine k c eo uoff x) (he : U64EOff eo) (hv : c.version ≤ 4) :
    ValidSize c.addrSize ∧
    bs = encodeEntry k c .bare (toBare (dataBytes k c eo uoff) x) ∧
    WfEntry k c .bare (toBare (dataBytes k c eo uoff) x) ∧
    ∀ (base : Nat) (xs ys : List Entry), (hb = false → base = 0) →
      (∀ base', (hb' = false → base' = 0) →
        resolveList c.addrSize noTable base' xs = resolveList c.addrSize noTable base' ys) →
      resolveList c.addrSize noTable base (toBare (dataBytes k c eo uoff) x :: xs) =
        resolveList c.addrSize noTable base (asBuilt (dataBytes k c eo uoff) x :: ys) := by
  obtain ⟨hk, hu, hl⟩ := hm
  have hvv : (Fmt.bare = .coded ∧ c.version ≥ 5) ∨ c.version ≤ 4 := .inr hv
  cases x with
  | baseAddress a =>
    simp only [writeEntryBare] at h
    obtain ⟨b1, h2, h3⟩ := bind_ok_inv h
    obtain ⟨b2, h4, h5⟩ := bind_ok_inv h3
    simp only [Out.pure_eq, Out.ok.injEq, Prod.mk.injEq] at h5
    obtain ⟨rfl, rfl⟩ := h5
    obtain ⟨hb1, _, hs⟩ := writeUdata_ok h2
    obtain ⟨v, rfl, hb2, _, _⟩ := writeAddress_ok h4
    have hfit := writeAddress_fits h4 hu
    have hmkv := marker_valid hmk hs
    subst hb1 hb2 hmkv
    refine ⟨hs, by simp [encodeEntry, toBare, encAddr, addrVal], by simpa [WfEntry, toBare, addrVal] using hfit, ?_⟩
    intro base xs ys _ hrec
    simp only [toBare, asBuilt, addrVal, resolveList, resolve1]
    exact hrec v (by simp)
  | offsetPair b e x =>
    simp only [writeEntryBare] at h
    split at h
    · simp at h
    · rename_i hne0
      have hne : ¬ b = e := fun h => hne0 (.inl h)
      have hnm : ¬ b = mk := fun h => hne0 (.inr h)
      split at h
      · simp at h
      · rename_i hhb
        obtain ⟨b1, h2, h3⟩ := bind_ok_inv h
        obtain ⟨b2, h4, h5⟩ := bind_ok_inv h3
        obtain ⟨d, h6, h7⟩ := bind_ok_inv h5
        simp only [Out.pure_eq, Out.ok.injEq, Prod.mk.injEq] at h7
        obtain ⟨rfl, rfl⟩ := h7
        obtain ⟨hb1, _, hs⟩ := writeUdata_ok h2
        obtain ⟨hb2, _, _⟩ := writeUdata_ok h4
        have hf1 := writeUdata_fits h2 hu.1
        have hf2 := writeUdata_fits h4 hu.2.1
        obtain ⟨hd, hwf⟩ := writeData_enc .bare h6 hu.2.2 he hvv hl
        subst hb1 hb2
        refine ⟨hs, by rw [hd]; simp [encodeEntry, toBare, encAddr], ?_, ?_⟩
        · refine ⟨hf1, hf2, by omega, ?_, hwf⟩
          rw [← marker_valid hmk hs]; exact hnm
        · intro base xs ys _ hrec
          simp only [toBare, asBuilt, resolveList, resolve1]
          rw [hrec base (by assumption)]
  | startEnd b e x =>
    simp only [writeEntryBare] at h
    split at h
    · simp at h
    · rename_i hne0
      have hne : ¬ b = e := fun h => hne0 (.inl h)
      have hnm : ¬ b = .const mk := fun h => hne0 (.inr h)
      split at h
      · simp at h
      · rename_i hhb
        obtain ⟨bs', h0, h1⟩ := bind_ok_inv h
        simp only [Out.pure_eq, Out.ok.injEq, Prod.mk.injEq] at h1
        obtain ⟨rfl, rfl⟩ := h1
        simp only [writeAddrPair] at h0
        obtain ⟨b1, h2, h3⟩ := bind_ok_inv h0
        obtain ⟨b2, h4, h5⟩ := bind_ok_inv h3
        obtain ⟨d, h6, h7⟩ := bind_ok_inv h5
        simp only [Out.pure_eq, Out.ok.injEq] at h7
        obtain ⟨vb, rfl, hb1, _, hs⟩ := writeAddress_ok h2
        obtain ⟨ve, rfl, hb2, _, _⟩ := writeAddress_ok h4
        have hf1 := writeAddress_fits h2 hu.1
        have hf2 := writeAddress_fits h4 hu.2.1
        obtain ⟨hd, hwf⟩ := writeData_enc .bare h6 hu.2.2 he hvv hl
        have hne' : vb ≠ ve := fun e => hne (by rw [e])
        have hno' : vb ≠ addrMod c.addrSize - 1 := fun e => hnm (by rw [marker_valid hmk hs, e])
        subst h7 hb1 hb2
        refine ⟨hs, by rw [hd]; simp [encodeEntry, toBare, encAddr, addrVal], ?_, ?_⟩
        · exact ⟨hf1, hf2, fun h => hne' (h.1.trans h.2.symm), hno', hwf⟩
        · intro base xs ys hbase hrec
          have hb0 : base = 0 := hbase (by simpa using hhb)
          subst hb0
          have ht := tombstone_pos c.addrSize hs
          simp only [toBare, asBuilt, addrVal, resolveList, resolve1, Nat.zero_add,
            Nat.mod_eq_of_lt hf1, Nat.mod_eq_of_lt hf2]
          rw [hrec 0 (fun _ => rfl)]
          have hk : Keep c.addrSize 0 vb ve true ↔ Keep c.addrSize 0 vb ve false := by
            simp [Keep, ht]
          by_cases hkeep : Keep c.addrSize 0 vb ve false
          · rw [if_pos hkeep, if_pos (hk.mpr hkeep)]
          · rw [if_neg hkeep, if_neg (fun h => hkeep (hk.mp h))]
  | startLength b len x =>
    simp only [writeEntryBare] at h
    obtain ⟨e, h00, h01⟩ := bind_ok_inv h
    split at h01
    · simp at h01
    · rename_i hne0
      have hne : ¬ b = e := fun h => hne0 (.inl h)
      have hnm : ¬ b = .const mk := fun h => hne0 (.inr h)
      split at h01
      · simp at h01
      · rename_i hhb
        obtain ⟨bs', h0, h1⟩ := bind_ok_inv h01
        simp only [Out.pure_eq, Out.ok.injEq, Prod.mk.injEq] at h1
        obtain ⟨rfl, rfl⟩ := h1
        simp only [writeAddrPair] at h0
        obtain ⟨b1, h2, h3⟩ := bind_ok_inv h0
        obtain ⟨b2, h4, h5⟩ := bind_ok_inv h3
        obtain ⟨d, h6, h7⟩ := bind_ok_inv h5
        simp only [Out.pure_eq, Out.ok.injEq] at h7
        obtain ⟨vb, rfl, hb1, _, hs⟩ := writeAddress_ok h2
        simp only [endOf] at h00
        split at h00
        · rename_i hsum
          simp only [Out.ok.injEq] at h00
          subst h00
          have hf1 := writeAddress_fits h2 hu.1
          have hf2 := writeAddress_fits h4 hsum
          obtain ⟨ve, hve, hb2, _, _⟩ := writeAddress_ok h4
          injection hve with hve
          subst hve
          obtain ⟨hd, hwf⟩ := writeData_enc .bare h6 hu.2.2 he hvv hl
          have hlen0 : len ≠ 0 := fun e => hne (by simp [e])
          have hno' : vb ≠ addrMod c.addrSize - 1 := fun e => hnm (by rw [marker_valid hmk hs, e])
          subst h7 hb1 hb2
          refine ⟨hs, by rw [hd]; simp [encodeEntry, toBare, encAddr, addrVal], ?_, ?_⟩
          · exact ⟨hf1, hf2, by omega, hno', hwf⟩
          · intro base xs ys hbase hrec
            have hb0 : base = 0 := hbase (by simpa using hhb)
            subst hb0
            have ht := tombstone_pos c.addrSize hs
            simp only [toBare, asBuilt, addrVal, resolveList, resolve1, Nat.zero_add,
              Nat.mod_eq_of_lt hf1, Nat.mod_eq_of_lt hf2]
            rw [hrec 0 (fun _ => rfl)]
            have hk : Keep c.addrSize 0 vb (vb + len) true ↔ Keep c.addrSize 0 vb (vb + len) false := by
              simp [Keep, ht]
            by_cases hkeep : Keep c.addrSize 0 vb (vb + len) false
            · rw [if_pos hkeep, if_pos (hk.mpr hkeep)]
            · rw [if_neg hkeep, if_neg (fun h => hkeep (hk.mp h))]
        · cases h00
  | defaultLocation x => simp [writeEntryBare] at h

theorem writeTermBare_ok {c : Cfg} {bs : Bytes} (h : writeTermBare c = .ok bs) :
    ValidSize c.addrSize ∧ bs = terminator c .bare := by
  simp only [writeTermBare] at h
  obtain ⟨z1, h1, h2⟩ := bind_ok_inv h
  obtain ⟨z2, h3, h4⟩ := bind_ok_inv h2
  simp only [Out.pure_eq, Out.ok.injEq] at h4
  obtain ⟨e1, _, hs⟩ := writeUdata_ok h1
  obtain ⟨e2, _, _⟩ := writeUdata_ok h3
  subst h4 e1 e2
  exact ⟨hs, by simp [terminator, encAddr]⟩

theorem writeEntriesBare_enc {m : Mode} {mk : Nat} {k : Kind} {c : Cfg} {eo : EOff} {uoff : Nat}
    (hmk : marker m c.addrSize = .ok mk) (he : U64EOff eo)
    (hv : c.version ≤ 4) : ∀ (l : WList) (hb : Bool) (bs : Bytes) (base : Nat),
      writeEntriesBare mk k c eo uoff hb l = .ok bs →
      (∀ x ∈ l, Machine k c eo uoff x) → (hb = false → base = 0) →
      ValidSize c.addrSize ∧
      bs = encodeList k c .bare (l.map (toBare (dataBytes k c eo uoff))) ∧
      (∀ y ∈ l.map (toBare (dataBytes k c eo uoff)), WfEntry k c .bare y) ∧
      resolveList c.addrSize noTable base (l.map (toBare (dataBytes k c eo uoff))) =
        resolveList c.addrSize noTable base (l.map (asBuilt (dataBytes k c eo uoff)))
  | [], hb, bs, base, h, _, _ => by
    simp only [writeEntriesBare] at h
    obtain ⟨hs, e⟩ := writeTermBare_ok h
    exact ⟨hs, by simp [e, encodeList], by simp, rfl⟩
  | x :: xs, hb, bs, base, h, hm, hbase => by
    simp only [writeEntriesBare] at h
    obtain ⟨⟨b1, hb'⟩, h1, h2⟩ := bind_ok_inv h
    obtain ⟨b2, h3, h4⟩ := bind_ok_inv h2
    simp only [Out.pure_eq, Out.ok.injEq] at h4
    obtain ⟨hs, e1, w1, r1⟩ := writeEntryBare_enc hmk h1 (hm x (by simp)) he hv
    have ih := fun base' hb0 => writeEntriesBare_enc hmk he hv xs hb' b2 base' h3
      (fun y hy => hm y (by simp [hy])) hb0
    obtain ⟨_, e2, w2, _⟩ := ih (if hb' = false then 0 else base) (by intro h; simp [h])
    subst h4
    refine ⟨hs, by simp [encodeList, e1, e2], ?_, ?_⟩
    · intro y hy
      simp only [List.map_cons, List.mem_cons] at hy
      rcases hy with rfl | hy
      · exact w1
      · exact w2 y hy
    · simp only [List.map_cons]
      exact r1 base _ _ hbase (fun base' hb0 => (ih base' hb0).2.2.2)

theorem sectionFormat_legacy (k : Kind) (v : Nat) (hv : v ≤ 4) : sectionFormat k v false = (true, .bare) := by
  simp [sectionFormat, hv]

theorem table_roundtrip_prev5 (m : Mode) (k : Kind) (c : Cfg) (eo : EOff) (uoff : Nat) (ub : Bool)
    (prior other : Bytes) (tbl : List WList) (bytes : Bytes) (offs : List Nat)
    (hv : 2 ≤ c.version ∧ c.version ≤ 4) (he : U64EOff eo)
    (hm : ∀ l ∈ tbl, ∀ x ∈ l, Machine k c eo uoff x)
    (hw : writeTable m k c eo uoff ub prior.length tbl = .ok (bytes, offs))
    (base : Nat) (hbase : ub = false → base = 0) (i : Nat) (hi : i < tbl.length) :
    ∃ off evs, offs[i]? = some off ∧
      cookedAt k c false (prior ++ bytes) other off base [] 0 = .ok evs ∧
      evs.map denot = meaning c.addrSize (dataBytes k c eo uoff) base tbl[i] := by
  have hne : tbl.isEmpty = false := by
    cases tbl with
    | nil => simp at hi
    | cons _ _ => rfl
  simp only [writeTable, hne, Bool.false_eq_true, if_false, hv, and_self, if_true] at hw
  obtain ⟨mk, hmk, hw⟩ := bind_ok_inv hw
  obtain ⟨_, hat⟩ := writeLists_at _ tbl _ bytes offs hw
  obtain ⟨pre, bsi, post, e1, e2, e3⟩ := hat i hi
  obtain ⟨hs, e4, w4, r4⟩ := writeEntriesBare_enc hmk he hv.2 tbl[i] ub bsi base e2
    (hm tbl[i] (List.getElem_mem hi)) hbase
  have hsf := sectionFormat_legacy k c.version hv.2
  have hr := Props.C08.resolve_refines_at k c false [] 0 base hs (by simp)
    (tbl[i].map (toBare (dataBytes k c eo uoff))) (prior ++ pre) post other
    (by rw [hsf]; exact w4)
  simp only [hsf] at hr
  obtain ⟨evs, hr1, hr2⟩ := hr
  refine ⟨_, evs, e3, ?_, ?_⟩
  · have hlen : (prior ++ pre).length = prior.length + pre.length := by simp
    rw [← hlen]
    have hsec : prior ++ bytes =
        prior ++ pre ++ encodeList k c .bare (tbl[i].map (toBare (dataBytes k c eo uoff))) ++ post := by
      rw [e1, e4]; simp [List.append_assoc]
    rw [hsec]
    simpa using hr1
  · rw [hr2, tableOf_nil _ _ (validSize_bounds hs).1, r4]; rfl

/-! ## from the table to the attributes of the unit -/

theorem handOver_at {offs ids : List Nat} {j id off : Nat} (h1 : ids[j]? = some id)
    (h2 : offs[id]? = some off) : (handOver offs ids)[j]? = some off := by
  simp only [handOver, List.getElem?_map, h1, Option.map_some, Option.some.injEq]
  simp [List.getD, h2]

theorem addAll_machine {P : WEntry → Prop} (lists : List WList) (hm : ∀ l ∈ lists, ∀ x ∈ l, P x) :
    ∀ l ∈ (addAll [] lists).1, ∀ x ∈ l, P x := by
  intro l hl
  rcases (addAll_spec lists [] List.nodup_nil).2.2.2.2 l hl with h | h
  · simp at h
  · exact hm l h

theorem lists_roundtrip_v5 (m : Mode) (k : Kind) (c : Cfg) (eo : EOff) (uoff : Nat) (ub : Bool)
    (prior other : Bytes) (lists : List WList) (r : Bytes × List Nat)
    (hv : c.version = 5) (hs : ValidSize c.addrSize) (he : U64EOff eo)
    (hm : ∀ l ∈ lists, ∀ x ∈ l, Machine k c eo uoff x)
    (hw : writeTable m k c eo uoff ub prior.length (addAll [] lists).1 = .ok r)
    (base : Nat) (j : Nat) (hj : j < lists.length) :
    ∃ off evs, (handOver r.2 (addAll [] lists).2)[j]? = some off ∧
      cookedAt k c false other (prior ++ r.1) off base [] 0 = .ok evs ∧
      evs.map denot = meaning c.addrSize (dataBytes k c eo uoff) base lists[j] := by
  obtain ⟨_, _, _, hid, _⟩ := addAll_spec lists [] List.nodup_nil
  obtain ⟨id, hid1, hid2⟩ := hid j hj
  have hlt : id < (addAll [] lists).1.length := by
    rcases Nat.lt_or_ge id (addAll [] lists).1.length with h | h
    · exact h
    · rw [List.getElem?_eq_none h] at hid2; simp at hid2
  have hget : (addAll [] lists).1[id] = lists[j] := by
    rw [List.getElem?_eq_getElem hlt] at hid2; simpa using hid2
  obtain ⟨off, evs, h1, h2, h3⟩ := table_roundtrip_v5 m k c eo uoff ub prior other (addAll [] lists).1 r.1 r.2
    hv hs he (addAll_machine lists hm) hw base id hlt
  refine ⟨off, evs, handOver_at hid1 h1, h2, ?_⟩
  rw [h3, hget]

theorem lists_roundtrip_prev5 (m : Mode) (k : Kind) (c : Cfg) (eo : EOff) (uoff : Nat) (ub : Bool)
    (prior other : Bytes) (lists : List WList) (r : Bytes × List Nat)
    (hv : 2 ≤ c.version ∧ c.version ≤ 4) (he : U64EOff eo)
    (hm : ∀ l ∈ lists, ∀ x ∈ l, Machine k c eo uoff x)
    (hw : writeTable m k c eo uoff ub prior.length (addAll [] lists).1 = .ok r)
    (base : Nat) (hbase : ub = false → base = 0) (j : Nat) (hj : j < lists.length) :
    ∃ off evs, (handOver r.2 (addAll [] lists).2)[j]? = some off ∧
      cookedAt k c false (prior ++ r.1) other off base [] 0 = .ok evs ∧
      evs.map denot = meaning c.addrSize (dataBytes k c eo uoff) base lists[j] := by
  obtain ⟨_, _, _, hid, _⟩ := addAll_spec lists [] List.nodup_nil
  obtain ⟨id, hid1, hid2⟩ := hid j hj
  have hlt : id < (addAll [] lists).1.length := by
    rcases Nat.lt_or_ge id (addAll [] lists).1.length with h | h
    · exact h
    · rw [List.getElem?_eq_none h] at hid2; simp at hid2
  have hget : (addAll [] lists).1[id] = lists[j] := by
    rw [List.getElem?_eq_getElem hlt] at hid2; simpa using hid2
  obtain ⟨off, evs, h1, h2, h3⟩ := table_roundtrip_prev5 m k c eo uoff ub prior other (addAll [] lists).1 r.1 r.2
    hv he (addAll_machine lists hm) hw base hbase id hlt
  refine ⟨off, evs, handOver_at hid1 h1, h2, ?_⟩
  rw [h3, hget]

theorem unitEOff_u64 (u : UnitIn) (h : ∀ o ∈ u.eoff, o < 2 ^ 64) : U64EOff (unitEOff u) := by
  intro i o hio
  exact h o (List.mem_of_getElem? hio)

theorem haveBase_false_base (low : Option Addr) (h : haveBaseAddress low = false) : unitBase low = 0 := by
  cases low with
  | none => rfl
  | some a =>
    cases a with
    | const v =>
      cases v with
      | zero => rfl
      | succ n => simp [haveBaseAddress] at h
    | symbol s a => simp [haveBaseAddress] at h

/-- what a successful `writeUnitAt` consists of -/
theorem writeUnitAt_ok {m : Mode} {u : UnitIn} {p : Pos} {out : UnitOut} (h : writeUnitAt m u p = .ok out) :
    ValidSize u.cfg.addrSize ∧ (2 ≤ u.cfg.version ∧ u.cfg.version ≤ 5) ∧
    ∃ r l, writeTable m .rng u.cfg (unitEOff u) p.uoff (haveBaseAddress u.lowPc) p.rngStart (addAll [] u.rng).1 = .ok r ∧
      writeTable m .loc u.cfg (unitEOff u) p.uoff (haveBaseAddress u.lowPc) p.locStart (addAll [] u.loc).1 = .ok l ∧
      (∃ bs, writeLowPc u.cfg u.lowPc = .ok bs) ∧
      out = mkOut u.cfg (addAll [] u.rng).2 (addAll [] u.loc).2 r l := by
  unfold writeUnitAt at h
  split at h
  · simp at h
  · rename_i hs
    split at h
    · simp at h
    · rename_i hv
      obtain ⟨r, h1, h2⟩ := bind_ok_inv h
      obtain ⟨l, h3, h4⟩ := bind_ok_inv h2
      obtain ⟨b, h5, h6⟩ := bind_ok_inv h4
      simp only [Out.pure_eq, Out.ok.injEq] at h6
      exact ⟨by unfold ValidSize; omega, by omega, r, l, h1, h3, ⟨b, h5⟩, h6.symm⟩

/-! ## DWARF ≤ 4: the two words every accepted entry starts with -/

/-- the first and second word of the DWARF ≤ 4 encoding of an entry -/
def bareWords (c : Cfg) : WEntry → Nat × Nat
  | .baseAddress a => (addrMod c.addrSize - 1, addrVal a)
  | .offsetPair b e _ => (b, e)
  | .startEnd b e _ => (addrVal b, addrVal e)
  | .startLength b len _ => (addrVal b, addrVal b + len)
  | .defaultLocation _ => (0, 0)

theorem writeEntryBare_words {m : Mode} {mk : Nat} {k : Kind} {c : Cfg} {eo : EOff} {uoff : Nat} {hb hb' : Bool}
    {x : WEntry} {bs : Bytes} (hmk : marker m c.addrSize = .ok mk)
    (h : writeEntryBare mk k c eo uoff hb x = .ok (bs, hb'))
    (hu : U64Entry x) :
    ValidSize c.addrSize ∧ (bareWords c x).1 < addrMod c.addrSize ∧ (bareWords c x).2 < addrMod c.addrSize ∧
    ¬ ((bareWords c x).1 = 0 ∧ (bareWords c x).2 = 0) ∧
    ∃ tail, bs = encAddr c (bareWords c x).1 ++ encAddr c (bareWords c x).2 ++ tail := by
  cases x with
  | baseAddress a =>
    simp only [writeEntryBare] at h
    obtain ⟨b1, h2, h3⟩ := bind_ok_inv h
    obtain ⟨b2, h4, h5⟩ := bind_ok_inv h3
    simp only [Out.pure_eq, Out.ok.injEq, Prod.mk.injEq] at h5
    obtain ⟨rfl, rfl⟩ := h5
    obtain ⟨hb1, _, hs⟩ := writeUdata_ok h2
    obtain ⟨v, rfl, hb2, _, _⟩ := writeAddress_ok h4
    have hfit := writeAddress_fits h4 hu
    have hmkv := marker_valid hmk hs
    have hM := addrMod_ge c.addrSize hs
    subst hb1 hb2 hmkv
    exact ⟨hs, by simp only [bareWords]; omega, by simpa [bareWords, addrVal] using hfit,
      by simp only [bareWords]; omega, [], by simp [bareWords, encAddr, addrVal]⟩
  | offsetPair b e x =>
    simp only [writeEntryBare] at h
    split at h
    · simp at h
    · rename_i hne
      split at h
      · simp at h
      · obtain ⟨b1, h2, h3⟩ := bind_ok_inv h
        obtain ⟨b2, h4, h5⟩ := bind_ok_inv h3
        obtain ⟨d, h6, h7⟩ := bind_ok_inv h5
        simp only [Out.pure_eq, Out.ok.injEq, Prod.mk.injEq] at h7
        obtain ⟨rfl, rfl⟩ := h7
        obtain ⟨hb1, _, hs⟩ := writeUdata_ok h2
        obtain ⟨hb2, _, _⟩ := writeUdata_ok h4
        have hf1 := writeUdata_fits h2 hu.1
        have hf2 := writeUdata_fits h4 hu.2.1
        subst hb1 hb2
        exact ⟨hs, hf1, hf2, by simp only [bareWords]; omega, d, by simp [bareWords, encAddr]⟩
  | startEnd b e x =>
    simp only [writeEntryBare] at h
    split at h
    · simp at h
    · rename_i hne
      split at h
      · simp at h
      · obtain ⟨bs', h0, h1⟩ := bind_ok_inv h
        simp only [Out.pure_eq, Out.ok.injEq, Prod.mk.injEq] at h1
        obtain ⟨rfl, rfl⟩ := h1
        simp only [writeAddrPair] at h0
        obtain ⟨b1, h2, h3⟩ := bind_ok_inv h0
        obtain ⟨b2, h4, h5⟩ := bind_ok_inv h3
        obtain ⟨d, h6, h7⟩ := bind_ok_inv h5
        simp only [Out.pure_eq, Out.ok.injEq] at h7
        obtain ⟨vb, rfl, hb1, _, hs⟩ := writeAddress_ok h2
        obtain ⟨ve, rfl, hb2, _, _⟩ := writeAddress_ok h4
        have hf1 := writeAddress_fits h2 hu.1
        have hf2 := writeAddress_fits h4 hu.2.1
        have hne' : vb ≠ ve := fun e => hne (.inl (by rw [e]))
        subst h7 hb1 hb2
        exact ⟨hs, hf1, hf2, fun h => hne' (h.1.trans h.2.symm), d, by simp [bareWords, encAddr, addrVal]⟩
  | startLength b len x =>
    simp only [writeEntryBare] at h
    obtain ⟨e, h00, h01⟩ := bind_ok_inv h
    split at h01
    · simp at h01
    · rename_i hne
      split at h01
      · simp at h01
      · obtain ⟨bs', h0, h1⟩ := bind_ok_inv h01
        simp only [Out.pure_eq, Out.ok.injEq, Prod.mk.injEq] at h1
        obtain ⟨rfl, rfl⟩ := h1
        simp only [writeAddrPair] at h0
        obtain ⟨b1, h2, h3⟩ := bind_ok_inv h0
        obtain ⟨b2, h4, h5⟩ := bind_ok_inv h3
        obtain ⟨d, h6, h7⟩ := bind_ok_inv h5
        simp only [Out.pure_eq, Out.ok.injEq] at h7
        obtain ⟨vb, rfl, hb1, _, hs⟩ := writeAddress_ok h2
        simp only [endOf] at h00
        split at h00
        · rename_i hsum
          simp only [Out.ok.injEq] at h00
          subst h00
          have hf1 := writeAddress_fits h2 hu.1
          have hf2 := writeAddress_fits h4 hsum
          obtain ⟨ve, hve, hb2, _, _⟩ := writeAddress_ok h4
          injection hve with hve
          subst hve
          have hlen0 : len ≠ 0 := fun e => hne (.inl (by simp [e]))
          subst h7 hb1 hb2
          exact ⟨hs, hf1, hf2, by simp only [bareWords, addrVal]; omega, d,
            by simp [bareWords, encAddr, addrVal]⟩
        · cases h00
  | defaultLocation x => simp [writeEntryBare] at h

/-- what the reader makes of two such words -/
theorem parseRaw_words (k : Kind) (c : Cfg) (w1 w2 : Nat) (tail : Bytes) (hs : ValidSize c.addrSize)
    (h1 : w1 < addrMod c.addrSize) (h2 : w2 < addrMod c.addrSize) (hz : ¬ (w1 = 0 ∧ w2 = 0)) :
    (w1 = addrMod c.addrSize - 1 →
      parseRaw k c .bare (encAddr c w1 ++ encAddr c w2 ++ tail) = .ok (some (.baseAddress w2), tail)) ∧
    ∀ r, parseRaw k c .bare (encAddr c w1 ++ encAddr c w2 ++ tail) ≠ .ok (none, r) := by
  have hp : parseRaw k c .bare (encAddr c w1 ++ encAddr c w2 ++ tail) =
      (if w1 = onesSized c.addrSize then pure (some (.baseAddress w2), tail)
       else do
        let (d, r) ← parseData k c.endian false tail
        pure (some (.pair w1 w2 d), r)) := by
    simp only [parseRaw, List.append_assoc]
    rw [readAddress_enc c w1 _ hs h1]
    simp only [Out.bind_ok]
    rw [readAddress_enc c w2 _ hs h2]
    simp only [Out.bind_ok, hz, if_false]
  refine ⟨?_, ?_⟩
  · intro hone
    rw [hp, if_pos (by rw [onesSized_eq]; exact hone)]; rfl
  · intro r
    rw [hp]
    split
    · simp
    · intro hcontra
      obtain ⟨⟨d, r'⟩, _, h4⟩ := bind_ok_inv hcontra
      simp at h4

/-! ## which errors reject an entry -/

theorem writeAddrPair_not_listErr {k : Kind} {c : Cfg} {eo : EOff} {uoff : Nat} {b e : Addr}
    {x : WExpr} {er : Err} (h : writeAddrPair k c eo uoff b e x = .err er) : ¬ ListErr er := by
  simp only [writeAddrPair] at h
  rcases bind_err_inv h with h1 | ⟨b1, _, h2⟩
  · exact writeAddress_not_listErr h1
  · rcases bind_err_inv h2 with h3 | ⟨b2, _, h4⟩
    · exact writeAddress_not_listErr h3
    · rcases bind_err_inv h4 with h5 | ⟨d, _, h6⟩
      · exact writeData_not_listErr h5
      · simp at h6

theorem endOf_eq_iff {b e : Addr} {len : Nat} (h : endOf b len = .ok e) : b = e ↔ len = 0 := by
  cases b with
  | const v =>
    simp only [endOf] at h
    split at h
    · simp only [Out.ok.injEq] at h; subst h
      constructor
      · intro h; injection h with h; omega
      · intro h; simp [h]
    · cases h
  | symbol s a =>
    simp only [endOf] at h
    split at h
    · simp only [Out.ok.injEq] at h; subst h
      constructor
      · intro h; injection h with _ h; omega
      · intro h; simp [h]
    · cases h

theorem endOf_err {b : Addr} {len : Nat} {er : Err} (h : endOf b len = .err er) : er = .wInvalidRange := by
  cases b with
  | const v =>
    simp only [endOf] at h
    split at h
    · cases h
    · simpa using h.symm
  | symbol s a =>
    simp only [endOf] at h
    split at h
    · cases h
    · simpa using h.symm

/-! ## the writer returns normally (no panic, no divergence) -/

theorem normal_ok {α : Type} (a : α) : (Out.ok a).Normal := by simp [Out.Normal]
theorem normal_err {α : Type} (e : Err) : (Out.err e : Out α).Normal := by simp [Out.Normal]

theorem writeUdata_normal (e : Endian) (v size : Nat) : (writeUdata e v size).Normal := by
  unfold writeUdata
  split
  · split <;> simp [Out.Normal]
  · split <;> simp [Out.Normal]

theorem writeAddress_normal (c : Cfg) (a : Addr) : (writeAddress c a).Normal := by
  cases a with
  | const v => exact writeUdata_normal _ _ _
  | symbol s a => exact normal_err _

theorem opSize_normal (c : Cfg) (eo : EOff) (op : XOp) : (opSize c eo op).Normal := by
  cases op with
  | convert base =>
    cases base with
    | none => exact normal_ok _
    | some i => simp only [opSize]; split <;> simp [Out.Normal]
  | _ => exact normal_ok _

theorem exprSize_normal (c : Cfg) (eo : EOff) : ∀ (x : WExpr), (exprSize c eo x).Normal
  | [] => normal_ok _
  | op :: rest =>
    normal_bind _ _ (opSize_normal c eo op) fun _ =>
      normal_bind _ _ (exprSize_normal c eo rest) fun _ => normal_ok _

theorem writeOp_normal (c : Cfg) (eo : EOff) (uoff : Nat) (op : XOp) : (writeOp c eo uoff op).Normal := by
  cases op with
  | raw b => exact normal_ok _
  | simple o => exact normal_ok _
  | addr a => exact normal_bind _ _ (writeAddress_normal c a) fun _ => normal_ok _
  | constu v => exact normal_ok _
  | call i =>
    simp only [writeOp]; split
    · exact normal_err _
    · exact normal_bind _ _ (writeUdata_normal _ _ _) fun _ => normal_ok _
  | convert base =>
    cases base with
    | none => exact normal_ok _
    | some i => simp only [writeOp]; split <;> simp [Out.Normal]
  | callRef i =>
    simp only [writeOp]; split
    · exact normal_err _
    · exact normal_bind _ _ (writeUdata_normal _ _ _) fun _ => normal_ok _

theorem writeOps_normal (c : Cfg) (eo : EOff) (uoff : Nat) : ∀ (x : WExpr), (writeOps c eo uoff x).Normal
  | [] => normal_ok _
  | op :: rest =>
    normal_bind _ _ (writeOp_normal c eo uoff op) fun _ =>
      normal_bind _ _ (writeOps_normal c eo uoff rest) fun _ => normal_ok _

theorem writeData_normal (k : Kind) (c : Cfg) (eo : EOff) (uoff : Nat) (x : WExpr) :
    (writeData k c eo uoff x).Normal := by
  cases k with
  | rng => exact normal_ok _
  | loc =>
    refine normal_bind _ _ (exprSize_normal c eo x) fun size => ?_
    refine normal_bind _ _ ?_ fun len => ?_
    · unfold writeExprLen; split
      · exact writeUdata_normal _ _ _
      · exact normal_ok _
    · refine normal_bind _ _ ?_ fun _ => normal_ok _
      exact normal_bind _ _ (exprSize_normal c eo x) fun _ => writeOps_normal c eo uoff x

theorem writeAddrPair_normal (k : Kind) (c : Cfg) (eo : EOff) (uoff : Nat) (b e : Addr) (x : WExpr) :
    (writeAddrPair k c eo uoff b e x).Normal :=
  normal_bind _ _ (writeAddress_normal c b) fun _ =>
    normal_bind _ _ (writeAddress_normal c e) fun _ =>
      normal_bind _ _ (writeData_normal k c eo uoff x) fun _ => normal_ok _

theorem endOf_normal (b : Addr) (len : Nat) : (endOf b len).Normal := by
  cases b <;> simp only [endOf] <;> split <;> simp [Out.Normal]

/-- the only panic in the writer: the marker computation for an address size outside 1..8 with
overflow checks on -/
theorem marker_normal (m : Mode) (s : Nat) (h : (1 ≤ s ∧ s ≤ 8) ∨ m = .release) : (marker m s).Normal := by
  unfold marker
  split
  · exact normal_ok _
  · rcases h with h | h
    · contradiction
    · subst h; exact normal_ok _

theorem writeEntryBare_normal (mk : Nat) (k : Kind) (c : Cfg) (eo : EOff) (uoff : Nat) (hb : Bool)
    (x : WEntry) : (writeEntryBare mk k c eo uoff hb x).Normal := by
  cases x with
  | baseAddress a =>
    exact normal_bind _ _ (writeUdata_normal _ _ _) fun _ =>
      normal_bind _ _ (writeAddress_normal c a) fun _ => normal_ok _
  | offsetPair b e x =>
    simp only [writeEntryBare]
    split
    · exact normal_err _
    · split
      · exact normal_err _
      · exact normal_bind _ _ (writeUdata_normal _ _ _) fun _ =>
          normal_bind _ _ (writeUdata_normal _ _ _) fun _ =>
            normal_bind _ _ (writeData_normal k c eo uoff x) fun _ => normal_ok _
  | startEnd b e x =>
    simp only [writeEntryBare]
    split
    · exact normal_err _
    · split
      · exact normal_err _
      · exact normal_bind _ _ (writeAddrPair_normal k c eo uoff b e x) fun _ => normal_ok _
  | startLength b len x =>
    refine normal_bind _ _ (endOf_normal b len) fun e => ?_
    split
    · exact normal_err _
    · split
      · exact normal_err _
      · exact normal_bind _ _ (writeAddrPair_normal k c eo uoff b e x) fun _ => normal_ok _
  | defaultLocation x => exact normal_err _

theorem writeEntriesBare_normal (mk : Nat) (k : Kind) (c : Cfg) (eo : EOff) (uoff : Nat) :
    ∀ (l : WList) (hb : Bool), (writeEntriesBare mk k c eo uoff hb l).Normal
  | [], _ =>
    normal_bind _ _ (writeUdata_normal _ _ _) fun _ =>
      normal_bind _ _ (writeUdata_normal _ _ _) fun _ => normal_ok _
  | x :: xs, hb =>
    normal_bind _ _ (writeEntryBare_normal mk k c eo uoff hb x) fun p =>
      normal_bind _ _ (writeEntriesBare_normal mk k c eo uoff xs p.2) fun _ => normal_ok _

theorem writeEntryCoded_normal (k : Kind) (c : Cfg) (eo : EOff) (uoff : Nat) (x : WEntry) :
    (writeEntryCoded k c eo uoff x).Normal := by
  cases x with
  | baseAddress a => exact normal_bind _ _ (writeAddress_normal c a) fun _ => normal_ok _
  | offsetPair b e x => exact normal_bind _ _ (writeData_normal k c eo uoff x) fun _ => normal_ok _
  | startEnd b e x => exact normal_bind _ _ (writeAddrPair_normal k c eo uoff b e x) fun _ => normal_ok _
  | startLength b len x =>
    exact normal_bind _ _ (writeAddress_normal c b) fun _ =>
      normal_bind _ _ (writeData_normal k c eo uoff x) fun _ => normal_ok _
  | defaultLocation x => exact normal_bind _ _ (writeData_normal k c eo uoff x) fun _ => normal_ok _

theorem writeEntriesCoded_normal (k : Kind) (c : Cfg) (eo : EOff) (uoff : Nat) : ∀ (l : WList),
    (writeEntriesCoded k c eo uoff l).Normal
  | [] => normal_ok _
  | x :: xs =>
    normal_bind _ _ (writeEntryCoded_normal k c eo uoff x) fun _ =>
      normal_bind _ _ (writeEntriesCoded_normal k c eo uoff xs) fun _ => normal_ok _

theorem writeLists_normal (one : WList → Out Bytes) (h : ∀ l, (one l).Normal) : ∀ (tbl : List WList)
    (start : Nat), (writeLists one start tbl).Normal
  | [], _ => normal_ok _
  | l :: ls, start =>
    normal_bind _ _ (h l) fun bs =>
      normal_bind _ _ (writeLists_normal one h ls (start + bs.length)) fun _ => normal_ok _

theorem writeInitialLength_normal (e : Endian) (f : Format) (n : Nat) : (writeInitialLength e f n).Normal := by
  cases f with
  | dwarf32 =>
    simp only [writeInitialLength]; split
    · exact normal_err _
    · exact writeUdata_normal _ _ _
  | dwarf64 => exact normal_bind _ _ (writeUdata_normal _ _ _) fun _ => normal_ok _

theorem writeTable_normal (m : Mode) (k : Kind) (c : Cfg) (eo : EOff) (uoff : Nat) (ub : Bool)
    (start : Nat) (tbl : List WList) (hm : (marker m c.addrSize).Normal) :
    (writeTable m k c eo uoff ub start tbl).Normal := by
  unfold writeTable
  split
  · exact normal_ok _
  · split
    · exact normal_bind _ _ hm fun mk =>
        writeLists_normal _ (fun l => writeEntriesBare_normal mk k c eo uoff l ub) _ _
    · split
      · exact normal_bind _ _ (writeLists_normal _ (writeEntriesCoded_normal k c eo uoff) _ _) fun _ =>
          normal_bind _ _ (writeInitialLength_normal _ _ _) fun _ => normal_ok _
      · exact normal_err _

theorem writeUnitAt_normal (m : Mode) (u : UnitIn) (p : Pos) : (writeUnitAt m u p).Normal := by
  unfold writeUnitAt
  split
  · exact normal_err _
  · rename_i hs
    have hm : (marker m u.cfg.addrSize).Normal := marker_normal m _ (.inl (by omega))
    split
    · exact normal_err _
    · refine normal_bind _ _ (writeTable_normal _ _ _ _ _ _ _ _ hm) fun _ =>
        normal_bind _ _ (writeTable_normal _ _ _ _ _ _ _ _ hm) fun _ =>
          normal_bind _ _ ?_ fun _ => normal_ok _
      cases u.lowPc with
      | none => exact normal_ok _
      | some a => exact writeAddress_normal _ a

/-! ## offsets of different lists differ -/

/-- the offsets of the lists of a table are strictly increasing when every list has at least one byte -/
theorem writeLists_increasing (one : WList → Out Bytes) (h1 : ∀ l bs, one l = .ok bs → 1 ≤ bs.length) :
    ∀ (tbl : List WList) (start : Nat) (bytes : Bytes) (offs : List Nat),
      writeLists one start tbl = .ok (bytes, offs) →
      (∀ o ∈ offs, start ≤ o) ∧ offs.Pairwise (· < ·)
  | [], start, bytes, offs, h => by
    simp only [writeLists, Out.ok.injEq, Prod.mk.injEq] at h
    obtain ⟨_, rfl⟩ := h
    simp
  | l :: ls, start, bytes, offs, h => by
    simp only [writeLists] at h
    obtain ⟨bs, hb, h2⟩ := bind_ok_inv h
    obtain ⟨⟨rest, offs'⟩, h3, h4⟩ := bind_ok_inv h2
    simp only [Out.pure_eq, Out.ok.injEq, Prod.mk.injEq] at h4
    obtain ⟨_, rfl⟩ := h4
    obtain ⟨ih1, ih2⟩ := writeLists_increasing one h1 ls (start + bs.length) rest offs' h3
    have hpos := h1 l bs hb
    refine ⟨?_, ?_⟩
    · intro o ho
      simp only [List.mem_cons] at ho
      rcases ho with rfl | ho
      · exact Nat.le_refl _
      · have := ih1 o ho; omega
    · rw [List.pairwise_cons]
      exact ⟨fun o ho => by have := ih1 o ho; omega, ih2⟩

theorem writeEntriesBare_pos {mk : Nat} {k : Kind} {c : Cfg} {eo : EOff} {uoff : Nat} :
    ∀ (l : WList) (hb : Bool) (bs : Bytes), writeEntriesBare mk k c eo uoff hb l = .ok bs → 1 ≤ bs.length
  | [], hb, bs, h => by
    simp only [writeEntriesBare] at h
    obtain ⟨hs, e⟩ := writeTermBare_ok h
    have := validSize_bounds hs
    subst e
    simp [terminator, encAddr, toBytes_length]; omega
  | x :: xs, hb, bs, h => by
    simp only [writeEntriesBare] at h
    obtain ⟨⟨b1, hb'⟩, _, h2⟩ := bind_ok_inv h
    obtain ⟨b2, h3, h4⟩ := bind_ok_inv h2
    simp only [Out.pure_eq, Out.ok.injEq] at h4
    have := writeEntriesBare_pos xs hb' b2 h3
    subst h4; simp; omega

theorem writeEntriesCoded_pos {k : Kind} {c : Cfg} {eo : EOff} {uoff : Nat} :
    ∀ (l : WList) (bs : Bytes), writeEntriesCoded k c eo uoff l = .ok bs → 1 ≤ bs.length
  | [], bs, h => by
    simp only [writeEntriesCoded, Out.ok.injEq] at h
    subst h; simp
  | x :: xs, bs, h => by
    simp only [writeEntriesCoded] at h
    obtain ⟨b1, _, h2⟩ := bind_ok_inv h
    obtain ⟨b2, h3, h4⟩ := bind_ok_inv h2
    simp only [Out.pure_eq, Out.ok.injEq] at h4
    have := writeEntriesCoded_pos xs b2 h3
    subst h4; simp; omega

theorem writeTable_increasing {m : Mode} {k : Kind} {c : Cfg} {eo : EOff} {uoff : Nat} {ub : Bool}
    {start : Nat} {tbl : List WList} {bytes : Bytes} {offs : List Nat}
    (hw : writeTable m k c eo uoff ub start tbl = .ok (bytes, offs)) : offs.Pairwise (· < ·) := by
  unfold writeTable at hw
  split at hw
  · simp only [Out.ok.injEq, Prod.mk.injEq] at hw
    rw [← hw.2]; simp
  · split at hw
    · obtain ⟨mk, _, hw⟩ := bind_ok_inv hw
      exact (writeLists_increasing _ (fun l bs h => writeEntriesBare_pos l ub bs h) _ _ _ _ hw).2
    · split at hw
      · obtain ⟨⟨body, offs'⟩, h1, h2⟩ := bind_ok_inv hw
        obtain ⟨len, _, h4⟩ := bind_ok_inv h2
        simp only [Out.pure_eq, Out.ok.injEq, Prod.mk.injEq] at h4
        rw [← h4.2]
        exact (writeLists_increasing _ (fun l bs h => writeEntriesCoded_pos l bs h) _ _ _ _ h1).2
      · cases hw

/-- an entry's addresses are constants -/
def NoSymbol : WEntry → Prop
  | .baseAddress a => ∃ v, a = .const v
  | .offsetPair _ _ _ => True
  | .startEnd b e _ => (∃ v, b = .const v) ∧ ∃ v, e = .const v
  | .startLength b _ _ => ∃ v, b = .const v
  | .defaultLocation _ => True

end Gimli.WLists
