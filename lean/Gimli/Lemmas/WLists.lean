import Gimli.Spec.WLists
import Gimli.Lemmas.Lists
/-! Helper lemmas for C16 (written range and location lists). -/
namespace Gimli.WLists
open Gimli Gimli.Ints Gimli.Spec.Lists Gimli.Spec.WLists

/-! ## machine integers -/

/-- the numeric fields are `u64`s -/
def U64Addr : Addr → Prop
  | .const v => v < 2 ^ 64
  | .symbol _ _ => True

def U64Op : XOp → Prop
  | .constu v => v < 2 ^ 64
  | .addr a => U64Addr a
  | _ => True

def U64Entry : WEntry → Prop
  | .baseAddress a => U64Addr a
  | .offsetPair b e x => b < 2 ^ 64 ∧ e < 2 ^ 64 ∧ ∀ op ∈ x, U64Op op
  | .startEnd b e x => U64Addr b ∧ U64Addr e ∧ ∀ op ∈ x, U64Op op
  | .startLength b len x => U64Addr b ∧ len < 2 ^ 64 ∧ ∀ op ∈ x, U64Op op
  | .defaultLocation x => ∀ op ∈ x, U64Op op

/-- DIE offsets are `u64`s -/
def U64EOff (eo : EOff) : Prop := ∀ i o, eo i = some o → o < 2 ^ 64

instance (a : Addr) : Decidable (U64Addr a) := by unfold U64Addr; cases a <;> infer_instance
instance (o : XOp) : Decidable (U64Op o) := by unfold U64Op; cases o <;> infer_instance
instance (x : WEntry) : Decidable (U64Entry x) := by unfold U64Entry; cases x <;> infer_instance

/-! ## `Out` plumbing -/

theorem bind_ok_inv {α β : Type} {x : Out α} {f : α → Out β} {b : β} (h : (x >>= f) = .ok b) :
    ∃ a, x = .ok a ∧ f a = .ok b := by
  cases x with
  | ok a => exact ⟨a, rfl, by simpa using h⟩
  | err e => simp at h
  | panic w => simp at h
  | diverge => simp at h

theorem bind_err_inv {α β : Type} {x : Out α} {f : α → Out β} {e : Err} (h : (x >>= f) = .err e) :
    x = .err e ∨ ∃ a, x = .ok a ∧ f a = .err e := by
  cases x with
  | ok a => exact .inr ⟨a, rfl, by simpa using h⟩
  | err e' => left; simpa using h
  | panic w => simp at h
  | diverge => simp at h

/-! ## integer writers -/

theorem writeUdata_ok {e : Endian} {v size : Nat} {bs : Bytes} (h : writeUdata e v size = .ok bs) :
    bs = toBytes e size v ∧ bs.length = size ∧ ValidSize size := by
  unfold writeUdata at h
  split at h
  · rename_i hs
    split at h
    · simp at h
    · have : bs = toBytes e size v := by simpa using h.symm
      subst this
      exact ⟨rfl, toBytes_length e size v, by unfold ValidSize; omega⟩
  · split at h
    · rename_i h8; subst h8
      have : bs = toBytes e 8 v := by simpa using h.symm
      subst this
      exact ⟨rfl, toBytes_length e 8 v, by unfold ValidSize; omega⟩
    · simp at h

theorem writeUdata_fits {e : Endian} {v size : Nat} {bs : Bytes} (h : writeUdata e v size = .ok bs)
    (hv : v < 2 ^ 64) : v < 2 ^ (8 * size) :=
  ((writeUdata_ok_iff e v size hv).mp ⟨bs, h⟩).2

theorem writeUdata_of_fits (e : Endian) (v size : Nat) (hs : ValidSize size) (hv : v < 2 ^ (8 * size)) :
    writeUdata e v size = .ok (toBytes e size v) := by
  unfold writeUdata
  by_cases h124 : size = 1 ∨ size = 2 ∨ size = 4
  · simp [h124, Nat.mod_eq_of_lt hv]
  · have : size = 8 := by unfold ValidSize at hs; omega
    simp [this]

/-- `write_udata` never returns one of the errors the list writers use for unrepresentable lists -/
theorem writeUdata_err {e : Endian} {v size : Nat} {er : Err} (h : writeUdata e v size = .err er) :
    er = .wValueTooLarge ∨ er = .wUnsupportedWordSize := by
  unfold writeUdata at h
  split at h
  · split at h
    · left; simpa using h.symm
    · simp at h
  · split at h
    · simp at h
    · right; simpa using h.symm

theorem writeAddress_ok {c : Cfg} {a : Addr} {bs : Bytes} (h : writeAddress c a = .ok bs) :
    ∃ v, a = .const v ∧ bs = toBytes c.endian c.addrSize v ∧ bs.length = c.addrSize ∧
      ValidSize c.addrSize := by
  cases a with
  | const v =>
    obtain ⟨h1, h2, h3⟩ := writeUdata_ok (by simpa [writeAddress] using h)
    exact ⟨v, rfl, h1, h2, h3⟩
  | symbol s a => simp [writeAddress] at h

theorem writeAddress_fits {c : Cfg} {v : Nat} {bs : Bytes} (h : writeAddress c (.const v) = .ok bs)
    (hv : v < 2 ^ 64) : v < addrMod c.addrSize :=
  writeUdata_fits (by simpa [writeAddress] using h) hv

/-! ## expressions: `Operation::size` is the number of bytes `Operation::write` emits -/

theorem writeOp_length {c : Cfg} {eo : EOff} {uoff : Nat} {op : XOp} {n : Nat} {bs : Bytes}
    (hs : opSize c eo op = .ok n) (hw : writeOp c eo uoff op = .ok bs) (hu : U64Op op)
    (he : U64EOff eo) : bs.length = n := by
  cases op with
  | raw b =>
    simp only [opSize, Out.ok.injEq] at hs; simp only [writeOp, Out.ok.injEq] at hw; subst hs hw; rfl
  | simple o =>
    simp only [opSize, Out.ok.injEq] at hs; simp only [writeOp, Out.ok.injEq] at hw; subst hs hw; rfl
  | addr a =>
    simp only [opSize, Out.ok.injEq] at hs
    simp only [writeOp] at hw
    obtain ⟨b, h1, h2⟩ := bind_ok_inv hw
    obtain ⟨v, _, _, hl, _⟩ := writeAddress_ok h1
    simp only [Out.pure_eq, Out.ok.injEq] at h2
    subst h2 hs; simp [hl]; omega
  | constu v =>
    simp only [opSize, Out.ok.injEq] at hs; simp only [writeOp, Out.ok.injEq] at hw
    subst hs hw
    by_cases h : v < 32
    · simp [h]
    · have := (Leb.encodeU_spec v hu).2.2.2.2
      simp [h, this]; omega
  | call i =>
    simp only [opSize, Out.ok.injEq] at hs
    simp only [writeOp] at hw
    cases ho : eo i with
    | none => simp [ho] at hw
    | some o =>
      simp only [ho] at hw
      obtain ⟨b, h1, h2⟩ := bind_ok_inv hw
      obtain ⟨_, hl, _⟩ := writeUdata_ok h1
      simp only [Out.pure_eq, Out.ok.injEq] at h2
      subst h2 hs; simp [hl]
  | convert base =>
    cases base with
    | none =>
      simp only [opSize, Out.ok.injEq] at hs; simp only [writeOp, Out.ok.injEq] at hw
      subst hs hw; rfl
    | some i =>
      simp only [opSize] at hs
      simp only [writeOp] at hw
      cases ho : eo i with
      | none => simp [ho] at hw
      | some o =>
        simp only [ho, Out.ok.injEq] at hw hs
        have := (Leb.encodeU_spec o (he i o ho)).2.2.2.2
        subst hs hw; simp [this]; omega
  | callRef i =>
    simp only [opSize, Out.ok.injEq] at hs
    simp only [writeOp] at hw
    cases ho : eo i with
    | none => simp [ho] at hw
    | some o =>
      simp only [ho] at hw
      obtain ⟨b, h1, h2⟩ := bind_ok_inv hw
      obtain ⟨_, hl, _⟩ := writeUdata_ok h1
      simp only [Out.pure_eq, Out.ok.injEq] at h2
      subst h2 hs; simp [hl]; omega

theorem writeOps_length {c : Cfg} {eo : EOff} {uoff : Nat} (he : U64EOff eo) :
    ∀ (x : WExpr) (n : Nat) (bs : Bytes), exprSize c eo x = .ok n → writeOps c eo uoff x = .ok bs →
      (∀ op ∈ x, U64Op op) → bs.length = n
  | [], n, bs, hs, hw, _ => by
    simp only [exprSize, Out.ok.injEq] at hs; simp only [writeOps, Out.ok.injEq] at hw
    subst hs hw; rfl
  | op :: rest, n, bs, hs, hw, hu => by
    simp only [exprSize] at hs
    simp only [writeOps] at hw
    obtain ⟨a, hs1, hs2⟩ := bind_ok_inv hs
    obtain ⟨b, hs3, hs4⟩ := bind_ok_inv hs2
    obtain ⟨a', hw1, hw2⟩ := bind_ok_inv hw
    obtain ⟨b', hw3, hw4⟩ := bind_ok_inv hw2
    simp only [Out.pure_eq, Out.ok.injEq] at hs4 hw4
    have h1 := writeOp_length hs1 hw1 (hu op (by simp)) he
    have h2 := writeOps_length he rest b b' hs3 hw3 (fun o ho => hu o (by simp [ho]))
    subst hs4 hw4; simp [h1, h2]

/-! ## the location description of an entry -/

/-- the bytes of an expression (what `Expression::write` emits; `[]` if it cannot be written) -/
def exprBytes (c : Cfg) (eo : EOff) (uoff : Nat) (x : WExpr) : Bytes :=
  match writeOps c eo uoff x with
  | .ok b => b
  | _ => []

/-- the location description of an entry as a byte string: nothing in range lists -/
def dataBytes (k : Kind) (c : Cfg) (eo : EOff) (uoff : Nat) (x : WExpr) : Bytes :=
  match k with
  | .rng => []
  | .loc => exprBytes c eo uoff x

/-- the expression of an entry -/
def exprOf : WEntry → WExpr
  | .baseAddress _ => []
  | .offsetPair _ _ x => x
  | .startEnd _ _ x => x
  | .startLength _ _ x => x
  | .defaultLocation x => x

/-- What the Rust types and a 64-bit machine guarantee about an entry: it is of the list's family,
its numeric fields are `u64`s, its encoded expression is shorter than 2^64 bytes. -/
def Machine (k : Kind) (c : Cfg) (eo : EOff) (uoff : Nat) (x : WEntry) : Prop :=
  EntryOfKind k x ∧ U64Entry x ∧ (exprBytes c eo uoff (exprOf x)).length < 2 ^ 64

instance (k : Kind) (c : Cfg) (eo : EOff) (uoff : Nat) (x : WEntry) : Decidable (Machine k c eo uoff x) := by
  unfold Machine; infer_instance

theorem writeData_enc {k : Kind} {c : Cfg} {eo : EOff} {uoff : Nat} {x : WExpr} {bs : Bytes} (f : Fmt)
    (h : writeData k c eo uoff x = .ok bs) (hu : ∀ op ∈ x, U64Op op) (he : U64EOff eo)
    (hv : (f = .coded ∧ c.version ≥ 5) ∨ c.version ≤ 4)
    (hlen : (exprBytes c eo uoff x).length < 2 ^ 64) :
    bs = encData k c f (dataBytes k c eo uoff x) ∧ WfData k c f (dataBytes k c eo uoff x) := by
  cases k with
  | rng =>
    simp only [writeData, Out.ok.injEq] at h
    subst h; simp [encData, dataBytes, WfData]
  | loc =>
    simp only [writeData, writeExpression, writeExprBody] at h
    obtain ⟨size, h1, h2⟩ := bind_ok_inv h
    obtain ⟨len, h3, h4⟩ := bind_ok_inv h2
    obtain ⟨body, h5, h6⟩ := bind_ok_inv h4
    obtain ⟨_, _, h7⟩ := bind_ok_inv h5
    simp only [Out.pure_eq, Out.ok.injEq] at h6
    have hbody : exprBytes c eo uoff x = body := by simp [exprBytes, h7]
    have hsz : body.length = size := writeOps_length he x size body h1 h7 hu
    simp only [dataBytes, hbody, encData, WfData]
    rw [hbody] at hlen
    by_cases h4v : c.version ≤ 4
    · have hcond : ¬ (f = .coded ∧ c.version ≥ 5) := by omega
      rw [writeExprLen, if_pos h4v] at h3
      obtain ⟨hl, _, _⟩ := writeUdata_ok h3
      have hfit := writeUdata_fits h3 (by omega)
      rw [if_neg hcond, if_neg hcond]
      subst h6; rw [hl, hsz]
      exact ⟨rfl, by omega⟩
    · have hcond : f = .coded ∧ c.version ≥ 5 := by
        rcases hv with hv | hv
        · exact hv
        · omega
      rw [writeExprLen, if_neg h4v] at h3
      simp only [Out.ok.injEq] at h3
      rw [if_pos hcond, if_pos hcond]
      subst h6 h3; rw [hsz]
      exact ⟨rfl, by omega⟩

/-- `write_expression` never returns one of the errors that reject unrepresentable lists -/
def ListErr (e : Err) : Prop := e = .wInvalidRange ∨ e = .wMissingBaseAddress ∨ e = .wUnexpectedBaseAddress

theorem writeUdata_not_listErr {e : Endian} {v size : Nat} {er : Err} (h : writeUdata e v size = .err er) :
    ¬ ListErr er := by
  rcases writeUdata_err h with h | h <;> subst h <;> simp [ListErr]

theorem writeAddress_not_listErr {c : Cfg} {a : Addr} {er : Err} (h : writeAddress c a = .err er) :
    ¬ ListErr er := by
  cases a with
  | const v => exact writeUdata_not_listErr (by simpa [writeAddress] using h)
  | symbol s a =>
    simp only [writeAddress, Out.err.injEq] at h
    subst h; simp [ListErr]

theorem opSize_not_listErr {c : Cfg} {eo : EOff} {op : XOp} {er : Err} (h : opSize c eo op = .err er) :
    ¬ ListErr er := by
  cases op with
  | convert base =>
    cases base with
    | none => simp [opSize] at h
    | some i =>
      simp only [opSize] at h
      cases ho : eo i with
      | none => simp only [ho, Out.err.injEq] at h; subst h; simp [ListErr]
      | some o => simp [ho] at h
  | _ => simp [opSize] at h

theorem exprSize_not_listErr {c : Cfg} {eo : EOff} : ∀ (x : WExpr) {er : Err},
    exprSize c eo x = .err er → ¬ ListErr er
  | [], er, h => by simp [exprSize] at h
  | op :: rest, er, h => by
    simp only [exprSize] at h
    rcases bind_err_inv h with h1 | ⟨a, _, h2⟩
    · exact opSize_not_listErr h1
    · rcases bind_err_inv h2 with h3 | ⟨b, _, h4⟩
      · exact exprSize_not_listErr rest h3
      · simp at h4

theorem writeOp_not_listErr {c : Cfg} {eo : EOff} {uoff : Nat} {op : XOp} {er : Err}
    (h : writeOp c eo uoff op = .err er) : ¬ ListErr er := by
  cases op with
  | raw b => simp [writeOp] at h
  | simple o => simp [writeOp] at h
  | addr a =>
    simp only [writeOp] at h
    rcases bind_err_inv h with h1 | ⟨a, _, h2⟩
    · exact writeAddress_not_listErr h1
    · simp at h2
  | constu v => simp [writeOp] at h
  | call i =>
    simp only [writeOp] at h
    cases ho : eo i with
    | none => simp only [ho, Out.err.injEq] at h; subst h; simp [ListErr]
    | some o =>
      simp only [ho] at h
      rcases bind_err_inv h with h1 | ⟨a, _, h2⟩
      · exact writeUdata_not_listErr h1
      · simp at h2
  | convert base =>
    cases base with
    | none => simp [writeOp] at h
    | some i =>
      simp only [writeOp] at h
      cases ho : eo i with
      | none => simp only [ho, Out.err.injEq] at h; subst h; simp [ListErr]
      | some o => simp [ho] at h
  | callRef i =>
    simp only [writeOp] at h
    cases ho : eo i with
    | none => simp only [ho, Out.err.injEq] at h; subst h; simp [ListErr]
    | some o =>
      simp only [ho] at h
      rcases bind_err_inv h with h1 | ⟨a, _, h2⟩
      · exact writeUdata_not_listErr h1
      · simp at h2

theorem writeOps_not_listErr {c : Cfg} {eo : EOff} {uoff : Nat} : ∀ (x : WExpr) {er : Err},
    writeOps c eo uoff x = .err er → ¬ ListErr er
  | [], er, h => by simp [writeOps] at h
  | op :: rest, er, h => by
    simp only [writeOps] at h
    rcases bind_err_inv h with h1 | ⟨a, _, h2⟩
    · exact writeOp_not_listErr h1
    · rcases bind_err_inv h2 with h3 | ⟨b, _, h4⟩
      · exact writeOps_not_listErr rest h3
      · simp at h4

theorem writeData_not_listErr {k : Kind} {c : Cfg} {eo : EOff} {uoff : Nat} {x : WExpr} {er : Err}
    (h : writeData k c eo uoff x = .err er) : ¬ ListErr er := by
  cases k with
  | rng => simp [writeData] at h
  | loc =>
    simp only [writeData, writeExpression, writeExprBody] at h
    rcases bind_err_inv h with h1 | ⟨size, _, h2⟩
    · exact exprSize_not_listErr x h1
    · rcases bind_err_inv h2 with h3 | ⟨len, _, h4⟩
      · rw [writeExprLen] at h3
        split at h3
        · exact writeUdata_not_listErr h3
        · simp at h3
      · rcases bind_err_inv h4 with h5 | ⟨body, _, h6⟩
        · rcases bind_err_inv h5 with h7 | ⟨_, _, h8⟩
          · exact exprSize_not_listErr x h7
          · exact writeOps_not_listErr x h8
        · simp at h6

end Gimli.WLists
