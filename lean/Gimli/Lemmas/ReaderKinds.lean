import Gimli.Lemmas.ReaderSim
/-! Simulations between the concrete reader kinds (C10 `kinds_bisimilar`). -/
namespace Gimli.Rd
variable {σ : Type}

/-! ## EndianSlice vs EndianReader: the same windows under every method -/

theorem coreSim_slice_shared : CoreSim sliceCore sharedCore Eq where
  view := by rintro s t rfl; rfl
  len := by rintro s t rfl; rfl
  truncate := by
    rintro n s t rfl
    simp only [sliceCore, sharedCore, Shared.truncate_eq]
    exact ⟨trivial, trivial⟩
  offsetFrom := by rintro m s t s' t' rfl rfl; rfl
  offsetId := by rintro s t rfl; rfl
  lookupOffsetId := by rintro s t rfl id; rfl
  find := by rintro s t rfl b; rfl
  skip := by
    rintro n s t rfl
    simp only [sliceCore, sharedCore, Shared.skip_eq]
    exact ⟨trivial, trivial⟩
  split := by
    rintro n s t rfl
    simp only [sliceCore, sharedCore, Shared.split_eq]
    unfold Slice.split Slice.readSliceRaw
    by_cases h : s.len < n
    · simp only [h, if_true]; exact ⟨rfl, trivial⟩
    · simp only [h, if_false]; exact ⟨rfl, trivial⟩
  toSlice := by rintro s t rfl; rfl
  toStr := by rintro v s t rfl; rfl
  toLossy := by rintro v l s t rfl; rfl
  readSlice := by
    rintro n s t rfl
    simp only [sliceCore, sharedCore, Shared.readSlice_eq]
    exact ⟨trivial, trivial⟩

theorem sim_slice_shared : Sim sliceImpl sharedImpl Eq := coreSim_slice_shared.withDefaults

/-- `empty` too: `&self.slice[..0]` and `SubRange::truncate(0)` are the same window -/
theorem empty_slice_shared (c : Cur) : sliceImpl.empty c = sharedImpl.empty c := by
  show Slice.empty c = Shared.empty c
  rw [Shared.empty_eq]; rfl

/-! ## RelocateReader with the identity relocation vs its inner reader -/

theorem M.bind_liftOut_ok {α : Type} (x : M σ α) : M.bind x (fun v => M.liftOut (.ok v)) = x := by
  funext s
  unfold M.bind M.liftOut
  rcases x s with ⟨o, s'⟩
  cases o <;> rfl

/-- `split` expressed with `truncate` and `skip`, the way `RelocateReader::split` does it -/
def splitTS (I : Impl σ) (n : Nat) : M σ σ := fun t =>
  match I.truncate n t with
  | (.ok _, o) => M.bind (I.skip n) (fun _ => M.pure o) t
  | (.err e, _) => (.err e, t)
  | (.panic w, _) => (.panic w, t)
  | (.diverge, _) => (.diverge, t)

theorem Slice.split_eq_splitTS (n : Nat) (c : Cur) : sliceImpl.split n c = splitTS sliceImpl n c := by
  simp only [sliceImpl, Core.withDefaults, sliceCore, splitTS, Slice.split, Slice.readSliceRaw,
    Slice.truncate, Slice.skip, M.bind, M.pure]
  by_cases h : c.len < n <;> simp [h]

theorem Shared.split_eq_splitTS (n : Nat) (c : Cur) :
    sharedImpl.split n c = splitTS sharedImpl n c := by
  simp only [sharedImpl, Core.withDefaults, sharedCore, splitTS, Shared.split_eq, Shared.truncate_eq,
    Shared.skip_eq, Slice.split, Slice.readSliceRaw, Slice.truncate, Slice.skip, M.bind, M.pure]
  by_cases h : c.len < n <;> simp [h]

/-- the relation between a `RelocateReader` and the reader it wraps -/
def RelocRel (P : σ → Prop) (sct : σ) (s : RCur σ) (t : σ) : Prop :=
  s.rdr = t ∧ s.sect = sct ∧ P t

section
variable {I : Impl σ} {P : σ → Prop} {sct : σ}

theorem onReader_rel {α : Type} (x : M σ α) (hx : Pres P x) :
    RelM (RelocRel P sct) (Reloc.onReader x) x := by
  rintro s t ⟨rfl, hs, hp⟩
  exact ⟨rfl, rfl, hs, hx _ hp⟩

theorem relocated_id_rel (hoff : ∀ m t, P t → ∃ o, I.offsetFrom m t sct = .ok o) (m : Mode)
    (x : M σ Nat) (hx : Pres P x) :
    RelM (RelocRel P sct) (Reloc.relocated I m x (fun _ v => .ok v)) x := by
  rintro s t ⟨rfl, hs, hp⟩
  obtain ⟨o, ho⟩ := hoff m s.rdr hp
  unfold Reloc.relocated
  rw [hs, ho]
  simp only [M.bind_liftOut_ok]
  exact ⟨rfl, rfl, hs, hx _ hp⟩

theorem sim_reloc_id (hI : I.SafeNE P) (hoff : ∀ m t, P t → ∃ o, I.offsetFrom m t sct = .ok o)
    (hsplit : ∀ n t, I.split n t = splitTS I n t) :
    Sim (relocImpl I Rel.id) I (RelocRel P sct) where
  view := by rintro s t ⟨rfl, _, _⟩; rfl
  len := by rintro s t ⟨rfl, _, _⟩; rfl
  truncate := fun n => onReader_rel _ (hI.truncate n)
  offsetFrom := by rintro m s t s' t' ⟨rfl, _, _⟩ ⟨rfl, _, _⟩; rfl
  offsetId := by rintro s t ⟨rfl, _, _⟩; rfl
  lookupOffsetId := by rintro s t ⟨rfl, _, _⟩ id; rfl
  find := by rintro s t ⟨rfl, _, _⟩ b; rfl
  skip := fun n => onReader_rel _ (hI.skip n)
  split := by
    rintro n s t ⟨rfl, hs, hp⟩
    have ht := hI.truncate n s.rdr hp
    have hk := hI.skip n s.rdr hp
    show OutRel _ (Reloc.split I n s).1 (I.split n s.rdr).1 ∧
      RelocRel P sct (Reloc.split I n s).2 (I.split n s.rdr).2
    rw [hsplit]
    unfold Reloc.split splitTS M.bind M.pure Reloc.onReader
    generalize I.truncate n s.rdr = tr at ht ⊢
    generalize I.skip n s.rdr = sk at hk ⊢
    rcases tr with ⟨o1, r1⟩
    rcases sk with ⟨o2, r2⟩
    cases o1 with
    | ok u =>
      cases o2 with
      | ok u2 => exact ⟨⟨rfl, hs, ht⟩, rfl, hs, hk⟩
      | err e => exact ⟨rfl, rfl, hs, hk⟩
      | panic w => exact ⟨rfl, rfl, hs, hk⟩
      | diverge => exact ⟨trivial, rfl, hs, hk⟩
    | err e => exact ⟨rfl, rfl, hs, hp⟩
    | panic w => exact ⟨rfl, rfl, hs, hp⟩
    | diverge => exact ⟨trivial, rfl, hs, hp⟩
  toSlice := by rintro s t ⟨rfl, _, _⟩; rfl
  toStr := by rintro v s t ⟨rfl, _, _⟩; rfl
  toLossy := by rintro v l s t ⟨rfl, _, _⟩; rfl
  readSlice := fun n => onReader_rel _ (hI.readSlice n)
  readAddress := fun m e n => relocated_id_rel hoff m _ (hI.readAddress m e n)
  readOffset := fun m e f => relocated_id_rel hoff m _ (hI.readOffset m e f)
  readSizedOffset := fun m e n => relocated_id_rel hoff m _ (hI.readSizedOffset m e n)

end
end Gimli.Rd
