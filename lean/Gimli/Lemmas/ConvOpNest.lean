import Gimli.Lemmas.ConvOp
import Gimli.Lemmas.WOpDecode
/-!
# C12 expression component: the bytes of a decoded `entry_value` are shorter than the input
(so the recursion of `Expression::from` — and the Model's fuel — is bounded by the length)
-/
set_option linter.unusedSimpArgs false
set_option linter.unusedVariables false
namespace Gimli.ConvOp
open Gimli.Op (Encoding)


theorem split_len (n : Nat) (bs a r : Bytes) (h : Op.split n bs = .ok (a, r)) : a.length ≤ bs.length := by
  unfold Op.split Ints.take at h
  split at h
  · simp only [Out.ok.injEq, Prod.mk.injEq] at h
    rw [← h.1]; simp; omega
  · cases h

theorem poEntryValue_len (rest x r : Bytes) (h : WOp.poEntryValue rest = Out.ok (.entryValue x, r)) :
    x.length ≤ rest.length := by
  unfold WOp.poEntryValue at h
  simp only [WOp.bind_eq_ok, Prod.exists, Out.pure_eq, Out.ok.injEq, Prod.mk.injEq, Op.Operation.entryValue.injEq] at h
  obtain ⟨len, r1, h1, a, r2, h2, rfl, _⟩ := h
  have := split_len _ _ _ _ h2
  have hs := (unsigned_suf rest) len r1 h1
  have := hs.length_le
  omega

/-- the bytes of a decoded `entry_value` are shorter than the input they were decoded from -/
theorem parseOperands_entryValue (e : Endian) (enc : Encoding) (opc : Nat) (rest x r : Bytes)
    (h : Op.parseOperands e enc opc rest = .ok (.entryValue x, r)) : x.length ≤ rest.length := by
  by_cases h1 : opc = 0xa3
  · subst h1; rw [WOp.po_a3] at h; exact poEntryValue_len _ _ _ h
  by_cases h2 : opc = 0xf3
  · subst h2; rw [WOp.po_f3] at h; exact poEntryValue_len _ _ _ h
  exfalso
  unfold Op.parseOperands at h
  split at h
  · simp at h
  split at h
  · simp at h
  split at h
  · simp [WOp.bind_eq_ok] at h
  split at h
  all_goals try omega
  all_goals try (simp [WOp.bind_eq_ok] at h; done)
  all_goals try (split at h <;> simp [WOp.bind_eq_ok] at h; done)
  all_goals
    simp only [WOp.bind_eq_ok, Prod.exists] at h
    obtain ⟨k, b, _, h⟩ := h
    split at h <;> simp [WOp.bind_eq_ok] at h

theorem iterAll_entryValue_short (e : Endian) (enc : Encoding) (len : Nat) :
    ∀ (fuel : Nat) (input : Bytes) (p : Op.Operation × Nat) (x : Bytes),
      p ∈ (Op.iterAll e enc len fuel input).1 → p.1 = .entryValue x → x.length < input.length
  | 0, input, p, x, hp, _ => by simp [Op.iterAll] at hp
  | fuel + 1, input, p, x, hp, hx => by
    cases input with
    | nil => simp [Op.iterAll] at hp
    | cons b tl =>
      simp only [Op.iterAll] at hp
      cases hpar : Op.parse e enc (b :: tl) with
      | ok q =>
        obtain ⟨op, rest⟩ := q
        rw [hpar] at hp
        simp only [List.mem_cons] at hp
        have hprog : rest.length < (b :: tl).length := by
          have := iterNext_progress e enc (b :: tl) op (by simp [Op.iterNext, hpar])
          simpa [Op.iterNext, hpar] using this
        rcases hp with rfl | hp
        · simp only at hx
          subst hx
          rw [WOp.parse_cons] at hpar
          have := parseOperands_entryValue e enc _ _ _ _ hpar
          simp only [List.length_cons]; omega
        · have := iterAll_entryValue_short e enc len fuel rest p x hp hx
          omega
      | err er => rw [hpar] at hp; simp at hp
      | panic w => rw [hpar] at hp; simp at hp
      | diverge => rw [hpar] at hp; simp at hp

theorem convertNested_unfold (env : Env) (e : Endian) (enc : Encoding) (left : Nat) (bs : Bytes) :
    convertNested env e enc left bs =
      match Op.iterAll e enc bs.length (bs.length + 1) bs with
      | (_, some er) => .error (.read er)
      | (ops, none) => convertList env enc (inputOffsets ops bs.length) (subAt env e enc left) ops := by
  cases left <;> rfl

theorem convertOp_depth (env : Env) (enc : Encoding) (offsets : List Nat) (endOff : Nat)
    (sub : Bytes → CR (List WOp.Operation)) (n : Nat)
    (hsub : ∀ x ws, sub x = .ok ws → exprDepth ws + 1 ≤ n)
    (r : Op.Operation) (w : WOp.Operation) (h : convertOp env enc offsets endOff sub r = .ok w) :
    opDepth w ≤ n := by
  cases r <;> simp only [convertOp] at h
  case entryValue x =>
    simp only [except_bind_ok, pure, Except.pure, Except.ok.injEq] at h
    obtain ⟨ws, hws, rfl⟩ := h
    simp only [opDepth]; exact hsub x ws hws
  all_goals
    first
      | (simp only [pure, Except.pure, Except.ok.injEq] at h; subst h; simp [opDepth])
      | (simp only [except_bind_ok, pure, Except.pure, Except.ok.injEq] at h; obtain ⟨_, _, rfl⟩ := h; simp [opDepth])
      | (split at h <;>
          first
            | (simp only [pure, Except.pure, Except.ok.injEq] at h; subst h; simp [opDepth])
            | (simp only [except_bind_ok, pure, Except.pure, Except.ok.injEq] at h; obtain ⟨_, _, rfl⟩ := h; simp [opDepth])
            | (cases h)
            | (split at h <;> first
                | (simp only [pure, Except.pure, Except.ok.injEq] at h; subst h; simp [opDepth])
                | (cases h))
            | (simp only [except_bind_ok] at h; obtain ⟨_, _, h⟩ := h
               split at h <;> first
                | (simp only [pure, Except.pure, Except.ok.injEq] at h; subst h; simp [opDepth])
                | (cases h)))
      | (cases ‹Option Nat› <;> simp only [pure, Except.pure, Except.ok.injEq] at h <;> subst h <;> simp [opDepth])
      | (cases ‹Op.DieRef› <;> simp only [except_bind_ok, pure, Except.pure, Except.ok.injEq] at h <;> obtain ⟨_, _, rfl⟩ := h <;> simp [opDepth])

theorem convertList_depth (env : Env) (enc : Encoding) (offsets : List Nat)
    (sub : Bytes → CR (List WOp.Operation)) (n : Nat)
    (hsub : ∀ x ws, sub x = .ok ws → exprDepth ws + 1 ≤ n) :
    ∀ (ops : List (Op.Operation × Nat)) (ws : List WOp.Operation),
      convertList env enc offsets sub ops = .ok ws → exprDepth ws ≤ n
  | [], ws, h => by simp only [convertList, Except.ok.injEq] at h; subst h; simp [exprDepth]
  | (op, en) :: rest, ws, h => by
    simp only [convertList, except_bind_ok, pure, Except.pure, Except.ok.injEq] at h
    obtain ⟨w, hw, ws', hws, rfl⟩ := h
    simp only [exprDepth]
    exact Nat.max_le.mpr ⟨convertOp_depth env enc offsets en sub n hsub op w hw,
      convertList_depth env enc offsets sub n hsub rest ws' hws⟩

/-- a converted expression nests `entry_value` at most as deep as was still allowed -/
theorem convertNested_depth (env : Env) (e : Endian) (enc : Encoding) :
    ∀ (left : Nat) (bs : Bytes) (ws : List WOp.Operation),
      convertNested env e enc left bs = .ok ws → exprDepth ws ≤ left
  | 0, bs, ws, h => by
    simp only [convertNested] at h
    split at h
    · cases h
    · exact convertList_depth env enc _ refuseNested 0 (fun x ws h => by cases h) _ ws h
  | left + 1, bs, ws, h => by
    simp only [convertNested] at h
    split at h
    · cases h
    · exact convertList_depth env enc _ _ (left + 1)
        (fun x ws' h' => Nat.succ_le_succ (convertNested_depth env e enc left x ws' h')) _ ws h

/-- the second pass converts the decoded operations one by one, in order -/
theorem convertList_allPairs (env : Env) (enc : Encoding) (offsets : List Nat) (sub : Bytes → CR (List WOp.Operation)) :
    ∀ (ops : List (Op.Operation × Nat)) (ws : List WOp.Operation),
      convertList env enc offsets sub ops = .ok ws →
      AllPairs (fun p w => convertOp env enc offsets p.2 sub p.1 = .ok w) ops ws
  | [], ws, h => by
    simp only [convertList, Except.ok.injEq] at h; subst h; trivial
  | (op, en) :: rest, ws, h => by
    simp only [convertList, except_bind_ok, pure, Except.pure, Except.ok.injEq] at h
    obtain ⟨w, hw, ws', hws, rfl⟩ := h
    exact ⟨hw, convertList_allPairs env enc offsets sub rest ws' hws⟩
end Gimli.ConvOp
