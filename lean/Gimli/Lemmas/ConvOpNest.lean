import Gimli.Lemmas.ConvOp
import Gimli.Lemmas.WOpDecode
/-!
# C12 expression component: the bytes of a decoded `entry_value` are shorter than the input
(so the recursion of `Expression::from` — and the Model's fuel — is bounded by the length)
-/
set_option linter.unusedSimpArgs false
set_option linter.unusedVariables false
namespace Gimli.ConvOp
open Gimli.Op (Encoding)


theorem split_len (n : Nat) (bs a r : Bytes) (h : Op.split n bs = .ok (a, r)) : a.length ≤ bs.length := by
  unfold Op.split Ints.take at h
  split at h
  · simp only [Out.ok.injEq, Prod.mk.injEq] at h
    rw [← h.1]; simp; omega
  · cases h

theorem poEntryValue_len (rest x r : Bytes) (h : WOp.poEntryValue rest = Out.ok (.entryValue x, r)) :
    x.length ≤ rest.length := by
  unfold WOp.poEntryValue at h
  simp only [WOp.bind_eq_ok, Prod.exists, Out.pure_eq, Out.ok.injEq, Prod.mk.injEq, Op.Operation.entryValue.injEq] at h
  obtain ⟨len, r1, h1, a, r2, h2, rfl, _⟩ := h
  have := split_len _ _ _ _ h2
  have hs := (unsigned_suf rest) len r1 h1
  have := hs.length_le
  omega

/-- the bytes of a decoded `entry_value` are shorter than the input they were decoded from -/
theorem parseOperands_entryValue (e : Endian) (enc : Encoding) (opc : Nat) (rest x r : Bytes)
    (h : Op.parseOperands e enc opc rest = .ok (.entryValue x, r)) : x.length ≤ rest.length := by
  by_cases h1 : opc = 0xa3
  · subst h1; rw [WOp.po_a3] at h; exact poEntryValue_len _ _ _ h
  by_cases h2 : opc = 0xf3
  · subst h2; rw [WOp.po_f3] at h; exact poEntryValue_len _ _ _ h
  exfalso
  unfold Op.parseOperands at h
  split at h
  · simp at h
  split at h
  · simp at h
  split at h
  · simp [WOp.bind_eq_ok] at h
  split at h
  all_goals try omega
  all_goals try (simp [WOp.bind_eq_ok] at h; done)
  all_goals try (split at h <;> simp [WOp.bind_eq_ok] at h; done)
  all_goals
    simp only [WOp.bind_eq_ok, Prod.exists] at h
    obtain ⟨k, b, _, h⟩ := h
    split at h <;> simp [WOp.bind_eq_ok] at h

theorem iterAll_entryValue_short (e : Endian) (enc : Encoding) (len : Nat) :
    ∀ (fuel : Nat) (input : Bytes) (p : Op.Operation × Nat) (x : Bytes),
      p ∈ (Op.iterAll e enc len fuel input).1 → p.1 = .entryValue x → x.length < input.length
  | 0, input, p, x, hp, _ => by simp [Op.iterAll] at hp
  | fuel + 1, input, p, x, hp, hx => by
    cases input with
    | nil => simp [Op.iterAll] at hp
    | cons b tl =>
      simp only [Op.iterAll] at hp
      cases hpar : Op.parse e enc (b :: tl) with
      | ok q =>
        obtain ⟨op, rest⟩ := q
        rw [hpar] at hp
        simp only [List.mem_cons] at hp
        have hprog : rest.length < (b :: tl).length := by
          have := iterNext_progress e enc (b :: tl) op (by simp [Op.iterNext, hpar])
          simpa [Op.iterNext, hpar] using this
        rcases hp with rfl | hp
        · simp only at hx
          subst hx
          rw [WOp.parse_cons] at hpar
          have := parseOperands_entryValue e enc _ _ _ _ hpar
          simp only [List.length_cons]; omega
        · have := iterAll_entryValue_short e enc len fuel rest p x hp hx
          omega
      | err er => rw [hpar] at hp; simp at hp
      | panic w => rw [hpar] at hp; simp at hp
      | diverge => rw [hpar] at hp; simp at hp

/-- the environment answers with gimli errors only -/
def EnvNoFuel (env : Env) : Prop :=
  (∀ o, env.unitRef o ≠ .error .fuel) ∧ (∀ o, env.infoRef o ≠ .error .fuel) ∧
    (∀ f i, env.addrIndex = some f → f i ≠ .error .fuel)

theorem bind_no_fuel {α β} (x : CR α) (f : α → CR β) (hx : x ≠ .error .fuel) (hf : ∀ a, f a ≠ .error .fuel) :
    (x >>= f) ≠ .error .fuel := by
  cases x with
  | ok a => exact hf a
  | error c => intro h; apply hx; simpa [bind, Except.bind] using h

theorem branchIndex_no_fuel (offsets : List Nat) (endOff : Nat) (d : Int) :
    branchIndex offsets endOff d ≠ .error .fuel := by
  unfold branchIndex; simp only; split <;> simp

theorem convertOp_no_fuel (env : Env) (henv : EnvNoFuel env) (enc : Encoding) (offsets : List Nat) (endOff : Nat)
    (sub : Bytes → CR (List WOp.Operation)) (r : Op.Operation)
    (hsub : ∀ x, r = .entryValue x → sub x ≠ .error .fuel) :
    convertOp env enc offsets endOff sub r ≠ .error .fuel := by
  obtain ⟨hu, hi, ha⟩ := henv
  have pu : ∀ (w : WOp.Operation), (pure w : CR WOp.Operation) ≠ .error .fuel := by intro w h; cases h
  cases r <;> simp only [convertOp] <;> try (exact pu _)
  case deref bt s sp =>
    split
    · exact bind_no_fuel _ _ (hu _) (fun _ => pu _)
    · split <;> exact pu _
  case bra t => exact bind_no_fuel _ _ (branchIndex_no_fuel _ _ _) (fun _ => pu _)
  case skip t => exact bind_no_fuel _ _ (branchIndex_no_fuel _ _ _) (fun _ => pu _)
  case registerOffset rg o bt =>
    split
    · exact bind_no_fuel _ _ (hu _) (fun _ => pu _)
    · exact pu _
  case call d =>
    cases d with
    | unitRef o => exact bind_no_fuel _ _ (hu _) (fun _ => pu _)
    | debugInfoRef o => exact bind_no_fuel _ _ (hi _) (fun _ => pu _)
  case variableValue o => exact bind_no_fuel _ _ (hi _) (fun _ => pu _)
  case implicitPointer v bo => exact bind_no_fuel _ _ (hi _) (fun _ => pu _)
  case entryValue x => exact bind_no_fuel _ _ (hsub x rfl) (fun _ => pu _)
  case parameterRef o => exact bind_no_fuel _ _ (hu _) (fun _ => pu _)
  case typedLiteral bt v => exact bind_no_fuel _ _ (hu _) (fun _ => pu _)
  case convert bt => split; exact pu _; exact bind_no_fuel _ _ (hu _) (fun _ => pu _)
  case reinterpret bt => split; exact pu _; exact bind_no_fuel _ _ (hu _) (fun _ => pu _)
  case address a => split; exact pu _; simp
  case addressIndex i =>
    split
    · simp
    · rename_i f hf
      refine bind_no_fuel _ _ (ha f i hf) (fun v => ?_)
      split; exact pu _; simp
  case constantIndex i =>
    split
    · simp
    · rename_i f hf
      exact bind_no_fuel _ _ (ha f i hf) (fun _ => pu _)
  case piece bits bo => cases bo <;> exact pu _

theorem convertList_no_fuel (env : Env) (henv : EnvNoFuel env) (enc : Encoding) (offsets : List Nat)
    (sub : Bytes → CR (List WOp.Operation)) :
    ∀ (ops : List (Op.Operation × Nat)),
      (∀ p ∈ ops, ∀ x, p.1 = .entryValue x → sub x ≠ .error .fuel) →
      convertList env enc offsets sub ops ≠ .error .fuel
  | [], _ => by simp [convertList]
  | (op, en) :: rest, h => by
    simp only [convertList]
    refine bind_no_fuel _ _ (convertOp_no_fuel env henv enc offsets en sub op (fun x hx => h (op, en) (by simp) x hx)) (fun w => ?_)
    refine bind_no_fuel _ _ (convertList_no_fuel env henv enc offsets sub rest (fun p hp => h p (by simp [hp]))) (fun ws => ?_)
    intro h'; cases h'

/-- **the fuel suffices**: with more fuel than bytes, `convertExpr` never runs out -/
theorem convertExpr_no_fuel (env : Env) (henv : EnvNoFuel env) (e : Endian) (enc : Encoding) :
    ∀ (fuel : Nat) (bs : Bytes), bs.length < fuel → convertExpr env e enc fuel bs ≠ .error .fuel
  | 0, bs, h => by omega
  | fuel + 1, bs, h => by
    simp only [convertExpr]
    cases hI : Op.iterAll e enc bs.length (bs.length + 1) bs with
    | mk ops er =>
      cases er with
      | some x => simp
      | none =>
        simp only
        apply convertList_no_fuel env henv
        intro p hp x hx
        have hlt := iterAll_entryValue_short e enc bs.length (bs.length + 1) bs p x (by rw [hI]; exact hp) hx
        exact convertExpr_no_fuel env henv e enc fuel x (by omega)

/-- the second pass converts the decoded operations one by one, in order -/
theorem convertList_allPairs (env : Env) (enc : Encoding) (offsets : List Nat) (sub : Bytes → CR (List WOp.Operation)) :
    ∀ (ops : List (Op.Operation × Nat)) (ws : List WOp.Operation),
      convertList env enc offsets sub ops = .ok ws →
      AllPairs (fun p w => convertOp env enc offsets p.2 sub p.1 = .ok w) ops ws
  | [], ws, h => by
    simp only [convertList, Except.ok.injEq] at h; subst h; trivial
  | (op, en) :: rest, ws, h => by
    simp only [convertList, except_bind_ok, pure, Except.pure, Except.ok.injEq] at h
    obtain ⟨w, hw, ws', hws, rfl⟩ := h
    exact ⟨hw, convertList_allPairs env enc offsets sub rest ws' hws⟩
end Gimli.ConvOp
