import Gimli.Spec.Expr
/-!
# Helper lemmas for C07 `value_refines`: `src/read/value.rs` (Model) against the Spec arithmetic

No `bv_decide`: `sign_extend`'s xor/subtract trick is proved from `Nat.testBit` lemmas
(`xor_two_pow`), everything else is `Int.emod` congruences and `omega` on literals.
-/
open Gimli Gimli.Value Gimli.Spec.Expr
set_option linter.unusedSimpArgs false


-- xor with the top bit
theorem xor_two_pow (k x : Nat) (hx : x < 2 ^ (k + 1)) :
    x ^^^ 2 ^ k = if x < 2 ^ k then x + 2 ^ k else x - 2 ^ k := by
  apply Nat.eq_of_testBit_eq
  intro i
  rw [Nat.testBit_xor, Nat.testBit_two_pow]
  split
  · next h =>
    rw [Nat.add_comm]
    by_cases hik : k = i
    · subst hik; simp [Nat.testBit_two_pow_add_eq]
    · simp only [hik, decide_false, Bool.xor_false]
      by_cases hlt : i < k
      · rw [Nat.testBit_two_pow_add_gt hlt]
      · have : k < i := by omega
        rw [Nat.testBit_lt_two_pow (Nat.lt_of_lt_of_le h (Nat.pow_le_pow_right (by omega) (by omega))),
            Nat.testBit_lt_two_pow]
        calc 2 ^ k + x < 2 ^ k + 2 ^ k := by omega
          _ = 2 ^ (k + 1) := by rw [Nat.pow_succ]; omega
          _ ≤ 2 ^ i := Nat.pow_le_pow_right (by omega) (by omega)
  · next h =>
    have hge : 2 ^ k ≤ x := by omega
    have hx' : x = 2 ^ k + (x - 2 ^ k) := by omega
    have hlt : x - 2 ^ k < 2 ^ k := by rw [Nat.pow_succ] at hx; omega
    by_cases hik : k = i
    · subst hik
      rw [hx', Nat.testBit_two_pow_add_eq]; simp
    · simp only [hik, decide_false, Bool.xor_false]
      by_cases hl : i < k
      · conv => lhs; rw [hx']
        rw [Nat.testBit_two_pow_add_gt hl]
      · have : k < i := by omega
        rw [Nat.testBit_lt_two_pow (Nat.lt_of_lt_of_le hx (Nat.pow_le_pow_right (by omega) (by omega))),
            Nat.testBit_lt_two_pow (Nat.lt_of_lt_of_le hlt (Nat.pow_le_pow_right (by omega) (by omega)))]

theorem signExtend_aux (n : Nat) (hn : n = 8 ∨ n = 16 ∨ n = 32 ∨ n = 64) (x : Nat) :
    signExtend x (2 ^ n - 1) = sval n x := by
  have hand : x &&& 2 ^ n - 1 = x % 2 ^ n := Nat.and_two_pow_sub_one_eq_mod x n
  have hlt : x % 2 ^ n < 2 ^ (n - 1 + 1) := by
    have : n - 1 + 1 = n := by omega
    rw [this]; exact Nat.mod_lt _ (Nat.two_pow_pos n)
  have hx := xor_two_pow (n - 1) (x % 2 ^ n) hlt
  unfold signExtend sval Leb.toI64
  simp only [hand]
  rcases hn with h | h | h | h <;> subst h <;> simp only [Nat.reduceSub, Nat.reducePow, Nat.reduceShiftRight, Nat.reduceAdd] at hx ⊢ <;> rw [hx] <;> split <;> omega


theorem two_pow_pos_int (w : Nat) : (0 : Int) < 2 ^ w := by
  have := Nat.two_pow_pos w
  exact_mod_cast this

theorem smod_congr (w : Nat) (i j : Int) (h : i % 2 ^ w = j % 2 ^ w) : smod w i = smod w j := by
  unfold smod; rw [h]

theorem umod_congr (w : Nat) (i j : Int) (h : i % 2 ^ w = j % 2 ^ w) : umod w i = umod w j := by
  unfold umod; rw [h]

theorem smod_emod (w : Nat) (i : Int) : smod w i % 2 ^ w = i % 2 ^ w := by
  unfold smod
  split
  · exact Int.emod_emod_of_dvd _ (Int.dvd_refl _)
  · rw [Int.sub_emod, Int.emod_self, Int.sub_zero, Int.emod_emod_of_dvd _ (Int.dvd_refl _), Int.emod_emod_of_dvd _ (Int.dvd_refl _)]

theorem pat_cast (w : Nat) (i : Int) : ((pat w i : Nat) : Int) = i % 2 ^ w := by
  unfold pat
  exact Int.toNat_of_nonneg (Int.emod_nonneg _ (Int.ne_of_gt (two_pow_pos_int w)))

theorem sval_eq_smod (w b : Nat) : sval w b = smod w (b : Int) := by
  unfold sval smod
  have h : ((b % 2 ^ w : Nat) : Int) = (b : Int) % 2 ^ w := by push_cast; rfl
  have h2 : (b % 2 ^ w < 2 ^ (w - 1)) ↔ ((b : Int) % 2 ^ w < 2 ^ (w - 1)) := by
    rw [← h]; exact_mod_cast Iff.rfl
  by_cases hc : b % 2 ^ w < 2 ^ (w - 1)
  · rw [if_pos hc, if_pos (h2.mp hc), h]
  · rw [if_neg hc, if_neg (fun x => hc (h2.mpr x)), h]

theorem sval_pat (w : Nat) (i : Int) : sval w (pat w i) = smod w i := by
  rw [sval_eq_smod, pat_cast]
  exact smod_congr w _ _ (Int.emod_emod_of_dvd _ (Int.dvd_refl _))

theorem pat_mod (w n : Nat) (h : w ≤ n) (i : Int) : ((pat n i % 2 ^ w : Nat) : Int) = i % 2 ^ w := by
  push_cast
  rw [pat_cast]
  exact Int.emod_emod_of_dvd _ (by exact_mod_cast (Nat.pow_dvd_pow 2 h))

namespace Gimli.Value

def absV (a : Nat) (v : Value) : SVal :=
  ⟨v.ty, match v.ty.kind with
    | .generic => ((v.bits % 2 ^ (8 * a) : Nat) : Int)
    | .sint => sval v.ty.width v.bits
    | _ => (v.bits : Int)⟩

def WF (v : Value) : Prop := v.bits < 2 ^ v.ty.width

def IsInt (v : Value) : Prop := v.ty.kind ≠ .float

def AddrSize (a : Nat) : Prop := a = 1 ∨ a = 2 ∨ a = 4 ∨ a = 8

def maskOf (a : Nat) : Nat := 2 ^ (8 * a) - 1

end Gimli.Value
open Gimli.Value

theorem and_mask (a x : Nat) : x &&& maskOf a = x % 2 ^ (8 * a) := Nat.and_two_pow_sub_one_eq_mod x (8 * a)

theorem absV_generic (a b : Nat) : absV a ⟨.generic, b⟩ = ⟨.generic, ((b % 2 ^ (8 * a) : Nat) : Int)⟩ := rfl

theorem sval_congr (w x y : Nat) (h : x % 2 ^ w = y % 2 ^ w) : sval w x = sval w y := by
  unfold sval; rw [h]

/-- generic results only matter modulo the address size -/
theorem gen_mod (a : Nat) (ha : AddrSize a) (n : Nat) : n % 2 ^ 64 % 2 ^ (8 * a) = n % 2 ^ (8 * a) := by
  apply Nat.mod_mod_of_dvd
  apply Nat.pow_dvd_pow
  rcases ha with h | h | h | h <;> omega


theorem add_congr (P i i' j j' : Int) (h1 : i % P = i' % P) (h2 : j % P = j' % P) : (i + j) % P = (i' + j') % P := by
  rw [Int.add_emod, h1, h2, ← Int.add_emod]
theorem sub_congr (P i i' j j' : Int) (h1 : i % P = i' % P) (h2 : j % P = j' % P) : (i - j) % P = (i' - j') % P := by
  rw [Int.sub_emod, h1, h2, ← Int.sub_emod]
theorem mul_congr (P i i' j j' : Int) (h1 : i % P = i' % P) (h2 : j % P = j' % P) : (i * j) % P = (i' * j') % P := by
  rw [Int.mul_emod, h1, h2, ← Int.mul_emod]
theorem neg_congr (P i i' : Int) (h1 : i % P = i' % P) : (-i) % P = (-i') % P := by
  have := sub_congr P 0 0 i i' rfl h1
  simpa using this

theorem sval_emod (w b : Nat) : sval w b % 2 ^ w = (b : Int) % 2 ^ w := by
  rw [sval_eq_smod, smod_emod]

theorem sval_of_mod (w n : Nat) : sval w (n % 2 ^ w) = smod w (n : Int) := by
  rw [← sval_eq_smod]; exact sval_congr w _ _ (Nat.mod_mod _ _)

theorem cast_of_mod (w n : Nat) : ((n % 2 ^ w : Nat) : Int) = umod w (n : Int) := by
  unfold umod; push_cast; rfl

theorem cast_mod_emod (w n : Nat) : ((n % 2 ^ w : Nat) : Int) % 2 ^ w = (n : Int) % 2 ^ w := by
  push_cast; exact Int.emod_emod_of_dvd _ (Int.dvd_refl _)

theorem gen_of (a : Nat) (ha : AddrSize a) (n : Nat) :
    (((n % 2 ^ 64 &&& maskOf a) % 2 ^ (8 * a) : Nat) : Int) = umod (8 * a) (n : Int) := by
  rw [and_mask, Nat.mod_mod, gen_mod a ha, cast_of_mod]

theorem two64_emod (a : Nat) (ha : AddrSize a) : (2 ^ 64 : Int) % 2 ^ (8 * a) = 0 := by
  rcases ha with h | h | h | h <;> subst h <;> decide


theorem add_gen (a : Nat) (ha : AddrSize a) (x y : Nat) :
    ((((x + y) % 2 ^ 64 &&& maskOf a) % 2 ^ (8 * a) : Nat) : Int) =
      umod (8 * a) (((x % 2 ^ (8 * a) : Nat) : Int) + ((y % 2 ^ (8 * a) : Nat) : Int)) := by
  rw [gen_of a ha]; apply umod_congr; push_cast
  exact add_congr _ _ _ _ _ (cast_mod_emod _ x).symm (cast_mod_emod _ y).symm

theorem add_s (w x y : Nat) : sval w ((x + y) % 2 ^ w) = smod w (sval w x + sval w y) := by
  rw [sval_of_mod]; apply smod_congr; push_cast
  exact add_congr _ _ _ _ _ (sval_emod w x).symm (sval_emod w y).symm

theorem add_u (w x y : Nat) : (((x + y) % 2 ^ w : Nat) : Int) = umod w ((x : Int) + (y : Int)) := by
  rw [cast_of_mod]; push_cast; rfl


/-! ## the dispatchers the property theorem is stated over -/
namespace Gimli.Value

/-- the Model function for each unary operation -/
def unaryOf : UnOp → Value → Nat → Out Value
  | .abs => Value.abs | .neg => Value.neg | .not => Value.not

/-- the Model function for each binary operation -/
def binaryOf : BinOp → Value → Value → Nat → Out Value
  | .add => Value.add | .sub => Value.sub | .mul => Value.mul | .div => Value.div | .rem => Value.rem
  | .and => Value.and | .or => Value.or | .xor => Value.xor
  | .shl => Value.shl | .shr => Value.shr | .shra => Value.shra
  | .eq => Value.eq | .ge => Value.ge | .gt => Value.gt | .le => Value.le | .lt => Value.lt | .ne => Value.ne

end Gimli.Value

/-! ## add / sub / mul -/

theorem mul_gen (a : Nat) (ha : AddrSize a) (x y : Nat) :
    ((((x * y) % 2 ^ 64 &&& maskOf a) % 2 ^ (8 * a) : Nat) : Int) =
      umod (8 * a) (((x % 2 ^ (8 * a) : Nat) : Int) * ((y % 2 ^ (8 * a) : Nat) : Int)) := by
  rw [gen_of a ha]; apply umod_congr; push_cast
  exact mul_congr _ _ _ _ _ (cast_mod_emod _ x).symm (cast_mod_emod _ y).symm

theorem mul_s (w x y : Nat) : sval w ((x * y) % 2 ^ w) = smod w (sval w x * sval w y) := by
  rw [sval_of_mod]; apply smod_congr; push_cast
  exact mul_congr _ _ _ _ _ (sval_emod w x).symm (sval_emod w y).symm

theorem mul_u (w x y : Nat) : (((x * y) % 2 ^ w : Nat) : Int) = umod w ((x : Int) * (y : Int)) := by
  rw [cast_of_mod]; push_cast; rfl

/-- `2^64 + x - y` on naturals is `x - y` modulo any `2^w`, `w ≤ 64` -/
theorem sub_cast (w x y : Nat) (hw : w ≤ 64) (hy : y < 2 ^ 64) :
    ((2 ^ 64 + x - y : Nat) : Int) % 2 ^ w = ((x : Int) - (y : Int)) % 2 ^ w := by
  have h1 : ((2 ^ 64 + x - y : Nat) : Int) = (x : Int) - (y : Int) + 2 ^ 64 := by omega
  rw [h1]
  have h2 : (2 ^ 64 : Int) % 2 ^ w = 0 :=
    Int.emod_eq_zero_of_dvd (by exact_mod_cast (Nat.pow_dvd_pow 2 hw))
  rw [Int.add_emod, h2, Int.add_zero, Int.emod_emod_of_dvd _ (Int.dvd_refl _)]

theorem sub_gen (a : Nat) (ha : AddrSize a) (x y : Nat) (hy : y < 2 ^ 64) :
    ((((2 ^ 64 + x - y) % 2 ^ 64 &&& maskOf a) % 2 ^ (8 * a) : Nat) : Int) =
      umod (8 * a) (((x % 2 ^ (8 * a) : Nat) : Int) - ((y % 2 ^ (8 * a) : Nat) : Int)) := by
  rw [gen_of a ha]; apply umod_congr
  rw [sub_cast (8 * a) x y (by rcases ha with h | h | h | h <;> omega) hy]
  exact sub_congr _ _ _ _ _ (cast_mod_emod _ x).symm (cast_mod_emod _ y).symm

theorem sub_s (w x y : Nat) (hw : w ≤ 64) (hy : y < 2 ^ 64) :
    sval w ((2 ^ 64 + x - y) % 2 ^ w) = smod w (sval w x - sval w y) := by
  rw [sval_of_mod]; apply smod_congr
  rw [sub_cast w x y hw hy]
  exact sub_congr _ _ _ _ _ (sval_emod w x).symm (sval_emod w y).symm

theorem sub_u (w x y : Nat) (hw : w ≤ 64) (hy : y < 2 ^ 64) :
    (((2 ^ 64 + x - y) % 2 ^ w : Nat) : Int) = umod w ((x : Int) - (y : Int)) := by
  rw [cast_of_mod]; unfold umod; exact sub_cast w x y hw hy

theorem wf_lt64 (v : Value) (h : WF v) : v.bits < 2 ^ 64 := by
  obtain ⟨t, b⟩ := v
  show b < 2 ^ 64
  have h' : b < 2 ^ t.width := h
  cases t <;> simp only [ValueType.width] at h' <;> omega

theorem add_refines (a : Nat) (ha : AddrSize a) (x y : Value) (ix : IsInt x) :
    (Value.add x y (maskOf a)).map (absV a) = binary a .add (absV a x) (absV a y) := by
  obtain ⟨tx, bx⟩ := x
  obtain ⟨ty, bY⟩ := y
  by_cases hty : tx = ty
  · subst hty
    cases tx <;> simp [IsInt, ValueType.kind] at ix
    all_goals simp only [Value.add, Value.arith, binary, absV, ValueType.kind, ne_eq, not_true_eq_false, ite_false, Out.map, isFloat, kindOf, canon, width, ValueType.width, Bool.false_eq_true]
    all_goals first | rw [add_gen a ha] | rw [add_s] | rw [add_u]
  · simp [Value.add, Value.arith, binary, absV, hty, Out.map]

theorem mul_refines (a : Nat) (ha : AddrSize a) (x y : Value) (ix : IsInt x) :
    (Value.mul x y (maskOf a)).map (absV a) = binary a .mul (absV a x) (absV a y) := by
  obtain ⟨tx, bx⟩ := x
  obtain ⟨ty, bY⟩ := y
  by_cases hty : tx = ty
  · subst hty
    cases tx <;> simp [IsInt, ValueType.kind] at ix
    all_goals simp only [Value.mul, Value.arith, binary, absV, ValueType.kind, ne_eq, not_true_eq_false, ite_false, Out.map, isFloat, kindOf, canon, width, ValueType.width, Bool.false_eq_true]
    all_goals first | rw [mul_gen a ha] | rw [mul_s] | rw [mul_u]
  · simp [Value.mul, Value.arith, binary, absV, hty, Out.map]

theorem sub_refines (a : Nat) (ha : AddrSize a) (x y : Value) (ix : IsInt x) (hy : WF y) :
    (Value.sub x y (maskOf a)).map (absV a) = binary a .sub (absV a x) (absV a y) := by
  have hy64 := wf_lt64 y hy
  obtain ⟨tx, bx⟩ := x
  obtain ⟨ty, bY⟩ := y
  by_cases hty : tx = ty
  · subst hty
    cases tx <;> simp [IsInt, ValueType.kind] at ix
    all_goals simp only [Value.sub, Value.arith, binary, absV, ValueType.kind, ne_eq, not_true_eq_false, ite_false, Out.map, isFloat, kindOf, canon, width, ValueType.width, Bool.false_eq_true]
    all_goals first | rw [sub_gen a ha _ _ hy64] | rw [sub_s _ _ _ (by omega) hy64] | rw [sub_u _ _ _ (by omega) hy64]
  · simp [Value.sub, Value.arith, binary, absV, hty, Out.map]

/-! ## div / rem -/

theorem signExtend_mask (a : Nat) (ha : AddrSize a) (x : Nat) : signExtend x (maskOf a) = sval (8 * a) x :=
  signExtend_aux (8 * a) (by rcases ha with h | h | h | h <;> omega) x

theorem sval_eq_zero (w b : Nat) : sval w b = 0 ↔ b % 2 ^ w = 0 := by
  unfold sval
  have hlt : b % 2 ^ w < 2 ^ w := Nat.mod_lt _ (Nat.two_pow_pos w)
  generalize b % 2 ^ w = r at *
  have hp : ((2 ^ w : Nat) : Int) = (2 : Int) ^ w := by push_cast; rfl
  split
  · omega
  · constructor
    · intro h; omega
    · intro h; subst h; simp at *

/-- the two divisor-is-zero tests of `Value::div` say the same as the Spec's single one -/
theorem div_zero_iff (a : Nat) (ha : AddrSize a) (y : Value) (hy : WF y) :
    ((y.ty = .generic ∧ signExtend y.bits (maskOf a) = 0) ∨ isTypedIntZero y = true) ↔
      (¬ (isFloat (absV a y).ty = true) ∧ (absV a y).val = 0) := by
  obtain ⟨ty, b⟩ := y
  have hb : b < 2 ^ ty.width := hy
  cases ty <;> simp only [ValueType.width] at hb <;>
    simp only [isTypedIntZero, ValueType.kind, absV, isFloat, signExtend_mask a ha, sval_eq_zero, ValueType.width]
  all_goals simp
  all_goals first | omega | (rcases ha with h | h | h | h <;> subst h <;> omega)

theorem smod_cast_mod (w x : Nat) : smod w ((x % 2 ^ w : Nat) : Int) = sval w x := by
  rw [sval_eq_smod]; exact smod_congr _ _ _ (cast_mod_emod w x)

theorem div_gen (a : Nat) (ha : AddrSize a) (x y : Nat) :
    ((pat 64 (Int.tdiv (signExtend x (maskOf a)) (signExtend y (maskOf a))) % 2 ^ (8 * a) : Nat) : Int) =
      umod (8 * a) (Int.tdiv (smod (8 * a) ((x % 2 ^ (8 * a) : Nat) : Int)) (smod (8 * a) ((y % 2 ^ (8 * a) : Nat) : Int))) := by
  rw [pat_mod _ _ (by rcases ha with h | h | h | h <;> omega), signExtend_mask a ha, signExtend_mask a ha,
    smod_cast_mod, smod_cast_mod]; rfl

theorem div_refines (a : Nat) (ha : AddrSize a) (x y : Value) (ix : IsInt x) (hy : WF y) :
    (Value.div x y (maskOf a)).map (absV a) = binary a .div (absV a x) (absV a y) := by
  have hz := div_zero_iff a ha y hy
  by_cases hc : (¬ (isFloat (absV a y).ty = true) ∧ (absV a y).val = 0)
  · have hm := hz.mpr hc
    have : Value.div x y (maskOf a) = .err .rDivisionByZero := by
      unfold Value.div
      rcases hm with h | h
      · rw [if_pos h]
      · by_cases h1 : y.ty = ValueType.generic ∧ signExtend y.bits (maskOf a) = 0
        · rw [if_pos h1]
        · rw [if_neg h1, if_pos h]
    rw [this]
    simp only [binary, Out.map]
    rw [if_pos hc]
  · have hm : ¬ ((y.ty = .generic ∧ signExtend y.bits (maskOf a) = 0) ∨ isTypedIntZero y = true) := fun h => hc (hz.mp h)
    have h1 : ¬ (y.ty = ValueType.generic ∧ signExtend y.bits (maskOf a) = 0) := fun h => hm (Or.inl h)
    have h2 : ¬ (isTypedIntZero y = true) := fun h => hm (Or.inr h)
    unfold Value.div
    rw [if_neg h1, if_neg h2]
    simp only [binary]
    rw [if_neg hc]
    obtain ⟨tx, bx⟩ := x
    obtain ⟨ty, bY⟩ := y
    by_cases hty : tx = ty
    · subst hty
      cases tx <;> simp [IsInt, ValueType.kind] at ix
      all_goals simp only [absV, ValueType.kind, ne_eq, not_true_eq_false, ite_false, ite_true, Out.map, isFloat, kindOf, canon, width, ValueType.width, Bool.false_eq_true, asSigned]
      all_goals first | rw [div_gen a ha] | rw [sval_pat] | (push_cast; rfl)
    · simp [absV, hty, Out.map]

theorem rem_zero_iff (a : Nat) (ha : AddrSize a) (y : Value) (hy : WF y) :
    ((y.ty = .generic ∧ y.bits &&& maskOf a = 0) ∨ isTypedIntZero y = true) ↔
      (¬ (isFloat (absV a y).ty = true) ∧ (absV a y).val = 0) := by
  obtain ⟨ty, b⟩ := y
  have hb : b < 2 ^ ty.width := hy
  cases ty <;> simp only [ValueType.width] at hb <;>
    simp only [isTypedIntZero, ValueType.kind, absV, isFloat, and_mask, sval_eq_zero, ValueType.width]
  all_goals simp
  all_goals first | omega | (rcases ha with h | h | h | h <;> subst h <;> omega)

theorem rem_gen (a x y : Nat) :
    ((x % 2 ^ (8 * a) % (y % 2 ^ (8 * a)) % 2 ^ (8 * a) : Nat) : Int) =
      ((x % 2 ^ (8 * a) : Nat) : Int) % ((y % 2 ^ (8 * a) : Nat) : Int) := by
  have h : x % 2 ^ (8 * a) % (y % 2 ^ (8 * a)) < 2 ^ (8 * a) :=
    Nat.lt_of_le_of_lt (Nat.mod_le _ _) (Nat.mod_lt _ (Nat.two_pow_pos _))
  rw [Nat.mod_eq_of_lt h]; push_cast; rfl

theorem rem_refines (a : Nat) (ha : AddrSize a) (x y : Value) (ix : IsInt x) (hy : WF y) :
    (Value.rem x y (maskOf a)).map (absV a) = binary a .rem (absV a x) (absV a y) := by
  have hz := rem_zero_iff a ha y hy
  by_cases hc : (¬ (isFloat (absV a y).ty = true) ∧ (absV a y).val = 0)
  · have hm := hz.mpr hc
    have : Value.rem x y (maskOf a) = .err .rDivisionByZero := by
      unfold Value.rem
      rcases hm with h | h
      · rw [if_pos h]
      · by_cases h1 : y.ty = ValueType.generic ∧ y.bits &&& maskOf a = 0
        · rw [if_pos h1]
        · rw [if_neg h1, if_pos h]
    rw [this]
    simp only [binary, Out.map]
    rw [if_pos hc]
  · have hm : ¬ ((y.ty = .generic ∧ y.bits &&& maskOf a = 0) ∨ isTypedIntZero y = true) := fun h => hc (hz.mp h)
    have h1 : ¬ (y.ty = ValueType.generic ∧ y.bits &&& maskOf a = 0) := fun h => hm (Or.inl h)
    have h2 : ¬ (isTypedIntZero y = true) := fun h => hm (Or.inr h)
    unfold Value.rem
    rw [if_neg h1, if_neg h2]
    simp only [binary]
    rw [if_neg hc]
    obtain ⟨tx, bx⟩ := x
    obtain ⟨ty, bY⟩ := y
    by_cases hty : tx = ty
    · subst hty
      cases tx <;> simp [IsInt, ValueType.kind] at ix
      all_goals simp only [absV, ValueType.kind, ne_eq, not_true_eq_false, ite_false, ite_true, Out.map, isFloat, kindOf, canon, width, ValueType.width, Bool.false_eq_true, asSigned, and_mask, reduceCtorEq]
      all_goals first | rw [rem_gen] | rw [sval_pat] | (push_cast; rfl)
    · simp [absV, hty, Out.map]

/-! ## and / or / xor -/

theorem bitsOf_eq_pat (w : Nat) (i : Int) : bitsOf w i = pat w i := rfl

theorem pat_cast_nat (w n : Nat) : pat w (n : Int) = n % 2 ^ w := by
  have := pat_cast w (n : Int)
  have h2 : ((n % 2 ^ w : Nat) : Int) = (n : Int) % 2 ^ w := by push_cast; rfl
  omega

theorem pat_mod_nat (w n : Nat) (h : w ≤ n) (i : Int) : pat n i % 2 ^ w = pat w i := by
  have := pat_mod w n h i
  have h2 := pat_cast w i
  omega

theorem pat_lt (w : Nat) (i : Int) : pat w i < 2 ^ w := by
  have := pat_cast w i
  have h2 : i % 2 ^ w < 2 ^ w := Int.emod_lt_of_pos _ (two_pow_pos_int w)
  have h3 : ((2 ^ w : Nat) : Int) = (2 : Int) ^ w := by push_cast; rfl
  omega


/-- what `and`, `or`, `xor` have in common: they commute with reduction modulo `2^n` -/
def ModCompat (f : Nat → Nat → Nat) : Prop := ∀ p q n, f p q % 2 ^ n = f (p % 2 ^ n) (q % 2 ^ n)

theorem modCompat_and : ModCompat (· &&& ·) := fun p q n => Nat.and_mod_two_pow (a := p) (b := q) (n := n)
theorem modCompat_or : ModCompat (· ||| ·) := fun p q n => Nat.or_mod_two_pow (a := p) (b := q) (n := n)
theorem modCompat_xor : ModCompat (· ^^^ ·) := fun p q n => Nat.xor_mod_two_pow (a := p) (b := q) (n := n)

theorem bit_gen (f : Nat → Nat → Nat) (a x y : Nat) :
    ((f (x % 2 ^ (8 * a)) (y % 2 ^ (8 * a)) % 2 ^ (8 * a) : Nat) : Int) =
      umod (8 * a) (f (pat (8 * a) ((x % 2 ^ (8 * a) : Nat) : Int)) (pat (8 * a) ((y % 2 ^ (8 * a) : Nat) : Int)) : Nat) := by
  rw [pat_cast_nat, pat_cast_nat, Nat.mod_mod, Nat.mod_mod, cast_of_mod]

theorem bit_s (f : Nat → Nat → Nat) (hf : ModCompat f) (w : Nat) (hw : w ≤ 64) (i j : Int) :
    sval w (f (pat 64 i) (pat 64 j) % 2 ^ w) = smod w (f (pat w i) (pat w j) : Nat) := by
  rw [hf, pat_mod_nat w 64 hw, pat_mod_nat w 64 hw, ← sval_eq_smod]

theorem bit_u (f : Nat → Nat → Nat) (hf : ModCompat f) (w x y : Nat) :
    ((f x y % 2 ^ w : Nat) : Int) = umod w (f (pat w (x : Int)) (pat w (y : Int)) : Nat) := by
  rw [← cast_of_mod, pat_cast_nat, pat_cast_nat]
  congr 1
  rw [hf, hf (x % 2 ^ w), Nat.mod_mod, Nat.mod_mod]

theorem bitwise_refines (f : Nat → Nat → Nat) (hf : ModCompat f) (op : BinOp)
    (hop : ∀ a x y, binary a op x y =
      if x.ty ≠ y.ty then .err .rTypeMismatch
      else if isFloat x.ty then .err .rIntegralTypeRequired
      else .ok ⟨x.ty, canon a x.ty (f (bitsOf (width a x.ty) x.val) (bitsOf (width a x.ty) y.val) : Nat)⟩)
    (a : Nat) (x y : Value) (ix : IsInt x) :
    (Value.bitwise f x y (maskOf a)).map (absV a) = binary a op (absV a x) (absV a y) := by
  rw [hop]
  obtain ⟨tx, bx⟩ := x
  obtain ⟨ty, bY⟩ := y
  by_cases hty : tx = ty
  · subst hty
    cases tx <;> simp [IsInt, ValueType.kind] at ix
    all_goals simp only [Value.bitwise, Value.toU64, Value.fromU64, absV, ValueType.kind, ne_eq, not_true_eq_false, ite_false, Out.map, isFloat, kindOf, canon, width, ValueType.width, Bool.false_eq_true, Out.bind_ok, bind, Out.bind, and_mask, bitsOf_eq_pat]
    all_goals first | rw [bit_gen] | rw [bit_s f hf _ (by omega)] | rw [bit_u f hf]
  · simp [Value.bitwise, absV, hty, Out.map]

theorem and_refines (a : Nat) (x y : Value) (ix : IsInt x) :
    (Value.and x y (maskOf a)).map (absV a) = binary a .and (absV a x) (absV a y) :=
  bitwise_refines _ modCompat_and .and (fun a x y => by simp only [binary]) a x y ix
theorem or_refines (a : Nat) (x y : Value) (ix : IsInt x) :
    (Value.or x y (maskOf a)).map (absV a) = binary a .or (absV a x) (absV a y) :=
  bitwise_refines _ modCompat_or .or (fun a x y => by simp only [binary]) a x y ix
theorem xor_refines (a : Nat) (x y : Value) (ix : IsInt x) :
    (Value.xor x y (maskOf a)).map (absV a) = binary a .xor (absV a x) (absV a y) :=
  bitwise_refines _ modCompat_xor .xor (fun a x y => by simp only [binary]) a x y ix

/-! ## abs / neg / not -/

theorem two_pow_emod_self (w : Nat) : (2 ^ w : Int) % 2 ^ w = 0 := Int.emod_self

theorem not_core (w p : Nat) (hw : w ≤ 64) (hp : p < 2 ^ 64) :
    ((2 ^ 64 - 1 - p : Nat) : Int) % 2 ^ w = ((2 : Int) ^ w - 1 - ((p % 2 ^ w : Nat) : Int)) % 2 ^ w := by
  have h1 : ((2 ^ 64 - 1 - p : Nat) : Int) = 2 ^ 64 - 1 - (p : Int) := by omega
  rw [h1]
  have h64 : (2 ^ 64 : Int) % 2 ^ w = (2 : Int) ^ w % 2 ^ w := by
    rw [Int.emod_self]
    exact Int.emod_eq_zero_of_dvd (by exact_mod_cast (Nat.pow_dvd_pow 2 hw))
  exact sub_congr _ _ _ _ _ (sub_congr _ _ _ _ _ h64 rfl) (cast_mod_emod w p).symm

theorem not_gen (a : Nat) (ha : AddrSize a) (x : Nat) :
    (((2 ^ 64 - 1 - x % 2 ^ (8 * a)) % 2 ^ (8 * a) : Nat) : Int) =
      umod (8 * a) (2 ^ (8 * a) - 1 - ((pat (8 * a) ((x % 2 ^ (8 * a) : Nat) : Int) : Nat) : Int)) := by
  have hw : 8 * a ≤ 64 := by rcases ha with h | h | h | h <;> omega
  have hp : x % 2 ^ (8 * a) < 2 ^ 64 :=
    Nat.lt_of_lt_of_le (Nat.mod_lt _ (Nat.two_pow_pos _)) (Nat.pow_le_pow_right (by omega) hw)
  rw [pat_cast_nat, Nat.mod_mod, cast_of_mod]
  apply umod_congr
  rw [not_core _ _ hw hp, Nat.mod_mod]

theorem not_s (w : Nat) (hw : w ≤ 64) (i : Int) :
    sval w ((2 ^ 64 - 1 - pat 64 i) % 2 ^ w) = smod w (2 ^ w - 1 - ((pat w i : Nat) : Int)) := by
  rw [sval_of_mod]; apply smod_congr
  rw [not_core _ _ hw (pat_lt 64 i), pat_mod_nat w 64 hw]

theorem not_u (w x : Nat) (hw : w ≤ 64) (hx : x < 2 ^ 64) :
    (((2 ^ 64 - 1 - x) % 2 ^ w : Nat) : Int) = umod w (2 ^ w - 1 - ((pat w (x : Int) : Nat) : Int)) := by
  rw [cast_of_mod, pat_cast_nat]; apply umod_congr
  exact not_core _ _ hw hx

theorem abs_gen (a : Nat) (ha : AddrSize a) (f : Int → Int) (x : Nat) :
    ((pat 64 (f (sval (8 * a) x)) % 2 ^ (8 * a) : Nat) : Int) =
      umod (8 * a) (f (smod (8 * a) ((x % 2 ^ (8 * a) : Nat) : Int))) := by
  rw [pat_mod _ _ (by rcases ha with h | h | h | h <;> omega), smod_cast_mod]; rfl

theorem unary_refines (a : Nat) (ha : AddrSize a) (op : UnOp) (x : Value) (ix : IsInt x) (hx : WF x) :
    (unaryOf op x (maskOf a)).map (absV a) = unary a op (absV a x) := by
  obtain ⟨tx, bx⟩ := x
  have hb : bx < 2 ^ tx.width := hx
  cases op <;> cases tx <;> simp [IsInt, ValueType.kind] at ix
  all_goals simp only [ValueType.width] at hb
  all_goals simp only [unaryOf, Value.abs, Value.neg, Value.not, Value.toU64, Value.fromU64, unary, absV, ValueType.kind, Out.map, kindOf, canon, width, ValueType.width, asSigned, bind, Out.bind, and_mask, bitsOf_eq_pat, signExtend_mask a ha]
  all_goals first
    | rw [sval_pat]
    | rw [abs_gen a ha (fun i => ((Int.natAbs i : Nat) : Int))]
    | rw [abs_gen a ha (fun i => - i)]
    | rw [not_gen a ha]
    | rw [not_s _ (by omega)]
    | rw [not_u _ _ (by omega) (by omega)]

/-! ## comparisons -/

theorem one_mod (a : Nat) (ha : AddrSize a) (b : Bool) :
    ((b.toNat % 2 ^ (8 * a) : Nat) : Int) = if b = true then 1 else 0 := by
  rcases ha with h | h | h | h <;> subst h <;> cases b <;> simp

theorem compare_refines (a : Nat) (ha : AddrSize a) (op : BinOp) (ri : Int → Int → Bool)
    (rf32 : Float32 → Float32 → Bool) (rf64 : Float → Float → Bool)
    (hop : ∀ x y, binary a op x y =
      if x.ty ≠ y.ty then .err .rTypeMismatch
      else if isFloat x.ty then .ok ⟨.generic, 0⟩
      else .ok ⟨.generic, if rel op (asSigned a x) (asSigned a y) then 1 else 0⟩)
    (hrel : ∀ i j, rel op i j = ri i j)
    (x y : Value) (ix : IsInt x) :
    (Value.compare ri rf32 rf64 x y (maskOf a)).map (absV a) = binary a op (absV a x) (absV a y) := by
  rw [hop]
  obtain ⟨tx, bx⟩ := x
  obtain ⟨ty, bY⟩ := y
  by_cases hty : tx = ty
  · subst hty
    cases tx <;> simp [IsInt, ValueType.kind] at ix
    all_goals simp only [Value.compare, absV, ValueType.kind, ne_eq, not_true_eq_false, ite_false, Out.map, isFloat, kindOf, width, ValueType.width, Bool.false_eq_true, asSigned, signExtend_mask a ha, smod_cast_mod, hrel, one_mod a ha]
    all_goals rw [one_mod a ha]
  · simp [Value.compare, absV, hty, Out.map]

theorem eq_refines (a : Nat) (ha : AddrSize a) (x y : Value) (ix : IsInt x) :
    (Value.eq x y (maskOf a)).map (absV a) = binary a .eq (absV a x) (absV a y) :=
  compare_refines a ha .eq _ _ _ (fun x y => by simp only [binary]) (fun i j => by simp [rel]) x y ix
theorem ge_refines (a : Nat) (ha : AddrSize a) (x y : Value) (ix : IsInt x) :
    (Value.ge x y (maskOf a)).map (absV a) = binary a .ge (absV a x) (absV a y) :=
  compare_refines a ha .ge _ _ _ (fun x y => by simp only [binary]) (fun i j => by simp [rel]) x y ix
theorem gt_refines (a : Nat) (ha : AddrSize a) (x y : Value) (ix : IsInt x) :
    (Value.gt x y (maskOf a)).map (absV a) = binary a .gt (absV a x) (absV a y) :=
  compare_refines a ha .gt _ _ _ (fun x y => by simp only [binary]) (fun i j => by simp [rel]) x y ix
theorem le_refines (a : Nat) (ha : AddrSize a) (x y : Value) (ix : IsInt x) :
    (Value.le x y (maskOf a)).map (absV a) = binary a .le (absV a x) (absV a y) :=
  compare_refines a ha .le _ _ _ (fun x y => by simp only [binary]) (fun i j => by simp [rel]) x y ix
theorem lt_refines (a : Nat) (ha : AddrSize a) (x y : Value) (ix : IsInt x) :
    (Value.lt x y (maskOf a)).map (absV a) = binary a .lt (absV a x) (absV a y) :=
  compare_refines a ha .lt _ _ _ (fun x y => by simp only [binary]) (fun i j => by simp [rel]) x y ix
theorem ne_refines (a : Nat) (ha : AddrSize a) (x y : Value) (ix : IsInt x) :
    (Value.ne x y (maskOf a)).map (absV a) = binary a .ne (absV a x) (absV a y) :=
  compare_refines a ha .ne _ _ _ (fun x y => by simp only [binary]) (fun i j => by simp [rel]) x y ix

/-! ## shifts -/

theorem maskBitSize_mask (a : Nat) (ha : AddrSize a) : maskBitSize (maskOf a) = 8 * a := by
  rcases ha with h | h | h | h <;> subst h <;> decide

theorem sval_nonneg_eq (w b : Nat) (hb : b < 2 ^ w) (h : 0 ≤ sval w b) : sval w b = (b : Int) := by
  unfold sval at *
  rw [Nat.mod_eq_of_lt hb] at *
  have hc : ((b : Nat) : Int) < ((2 ^ w : Nat) : Int) := by exact_mod_cast hb
  have hp : ((2 ^ w : Nat) : Int) = (2 : Int) ^ w := by push_cast; rfl
  split at h
  · rw [if_pos (by assumption)]
  · omega

theorem shiftLength_sint (w b : Nat) (hb : b < 2 ^ w) :
    (if 0 ≤ sval w b then Out.ok b else Out.err Err.rInvalidShiftExpression) =
      if sval w b < 0 then Out.err Err.rInvalidShiftExpression else Out.ok (sval w b).toNat := by
  by_cases h : 0 ≤ sval w b
  · rw [if_pos h, if_neg (by omega), sval_nonneg_eq w b hb h]; simp
  · rw [if_neg h, if_pos (by omega)]

theorem shiftCount_uint (t : ValueType) (hf : isFloat t = false) (b : Nat) :
    shiftCount ⟨t, (b : Int)⟩ = .ok b := by
  unfold shiftCount
  rw [if_neg (by simp [hf]), if_neg (by simp only []; omega)]; simp

/-- the count of a shift: the Model's `shift_length` is the Spec's count — a generic count is
masked to the address size (since the `fix:` for finding C07-1) -/
theorem shiftLength_refines (a : Nat) (y : Value) (hy : WF y) :
    Value.shiftLength y (maskOf a) = shiftCount (absV a y) := by
  obtain ⟨ty, b⟩ := y
  have hb : b < 2 ^ ty.width := hy
  cases ty <;> simp only [ValueType.width] at hb
  · show Out.ok (b &&& maskOf a) = shiftCount ⟨.generic, ((b % 2 ^ (8 * a) : Nat) : Int)⟩
    rw [and_mask, shiftCount_uint _ rfl]
  all_goals first
    | exact shiftLength_sint _ b hb
    | (simp [Value.shiftLength, shiftCount, absV, ValueType.kind, isFloat]; done)
    | (show Out.ok b = shiftCount ⟨_, (b : Int)⟩; rw [shiftCount_uint _ rfl])

theorem shl_gen (a : Nat) (ha : AddrSize a) (x c : Nat) :
    (((if c ≥ 8 * a then 0 else ((x % 2 ^ (8 * a)) <<< c) % 2 ^ 64) % 2 ^ (8 * a) : Nat) : Int) =
      if c ≥ 8 * a then 0 else umod (8 * a) (((x % 2 ^ (8 * a) : Nat) : Int) * 2 ^ c) := by
  split
  · simp
  · rw [Nat.shiftLeft_eq, gen_mod a ha, cast_of_mod]; push_cast; rfl

theorem shl_s (w x c : Nat) :
    sval w (if c ≥ w then 0 else (x <<< c) % 2 ^ w) = if c ≥ w then 0 else smod w (sval w x * 2 ^ c) := by
  split
  · simp [sval]
  · rw [Nat.shiftLeft_eq, sval_of_mod]; apply smod_congr; push_cast
    exact mul_congr _ _ _ _ _ (sval_emod w x).symm rfl

theorem shl_u (w x c : Nat) :
    ((if c ≥ w then 0 else (x <<< c) % 2 ^ w : Nat) : Int) = if c ≥ w then 0 else umod w ((x : Int) * 2 ^ c) := by
  split
  · simp
  · rw [Nat.shiftLeft_eq, cast_of_mod]; push_cast; rfl

theorem shr_gen (a x c : Nat) :
    (((if c ≥ 8 * a then 0 else (x % 2 ^ (8 * a)) >>> c) % 2 ^ (8 * a) : Nat) : Int) =
      if c ≥ 8 * a then 0 else ((x % 2 ^ (8 * a) : Nat) : Int) / 2 ^ c := by
  split
  · simp
  · have h : (x % 2 ^ (8 * a)) >>> c < 2 ^ (8 * a) := by
      rw [Nat.shiftRight_eq_div_pow]
      exact Nat.lt_of_le_of_lt (Nat.div_le_self _ _) (Nat.mod_lt _ (Nat.two_pow_pos _))
    rw [Nat.mod_eq_of_lt h, Nat.shiftRight_eq_div_pow]; push_cast; rfl

theorem shr_u (w x c : Nat) :
    ((if c ≥ w then 0 else x >>> c : Nat) : Int) = if c ≥ w then 0 else (x : Int) / 2 ^ c := by
  split
  · simp
  · rw [Nat.shiftRight_eq_div_pow]; push_cast; rfl

theorem neg_one_gen (a : Nat) (ha : AddrSize a) :
    (((2 ^ 64 - 1) % 2 ^ (8 * a) : Nat) : Int) = umod (8 * a) (-1) := by
  rcases ha with h | h | h | h <;> subst h <;> decide

theorem shra_gen (a : Nat) (ha : AddrSize a) (x c : Nat) :
    (((if c ≥ 8 * a then (if sval (8 * a) x < 0 then 2 ^ 64 - 1 else 0) else pat 64 (sval (8 * a) x / 2 ^ c)) % 2 ^ (8 * a) : Nat) : Int) =
      if c ≥ 8 * a then (if smod (8 * a) ((x % 2 ^ (8 * a) : Nat) : Int) < 0 then umod (8 * a) (-1) else 0)
      else umod (8 * a) (smod (8 * a) ((x % 2 ^ (8 * a) : Nat) : Int) / 2 ^ c) := by
  rw [smod_cast_mod]
  split
  · split
    · exact neg_one_gen a ha
    · simp
  · rw [pat_mod _ _ (by rcases ha with h | h | h | h <;> omega)]; rfl

theorem neg_one_s (w : Nat) (hw : w = 8 ∨ w = 16 ∨ w = 32 ∨ w = 64) : sval w (2 ^ w - 1) = smod w (-1) := by
  rcases hw with h | h | h | h <;> subst h <;> decide

theorem shra_s (w : Nat) (hw : w = 8 ∨ w = 16 ∨ w = 32 ∨ w = 64) (x c : Nat) :
    sval w (if c ≥ w then (if sval w x < 0 then 2 ^ w - 1 else 0) else pat w (sval w x / 2 ^ c)) =
      if c ≥ w then (if sval w x < 0 then smod w (-1) else 0) else smod w (sval w x / 2 ^ c) := by
  split
  · split
    · exact neg_one_s w hw
    · simp [sval]
  · rw [sval_pat]

theorem ok_val_congr {t : ValueType} {v v' : Int} (h : v = v') :
    (Out.ok (⟨t, v⟩ : SVal)) = Out.ok ⟨t, v'⟩ := by rw [h]


theorem shl_refines (a : Nat) (ha : AddrSize a) (x y : Value) (ix : IsInt x) (hy : WF y) :
    (Value.shl x y (maskOf a)).map (absV a) = binary a .shl (absV a x) (absV a y) := by
  simp only [Value.shl, binary, shiftLength_refines a y hy, maskBitSize_mask a ha]
  cases shiftCount (absV a y) with
  | ok c =>
    obtain ⟨tx, bx⟩ := x
    cases tx <;> simp [IsInt, ValueType.kind] at ix
    all_goals simp only [absV, ValueType.kind, Out.map, isFloat, kindOf, canon, width, ValueType.width, Bool.false_eq_true, ite_false, bind, Out.bind, pure, and_mask]
    all_goals first | exact ok_val_congr (shl_gen a ha _ _) | exact ok_val_congr (shl_s _ _ _) | exact ok_val_congr (shl_u _ _ _)
  | err e => rfl
  | panic p => rfl
  | diverge => rfl

theorem shr_refines (a : Nat) (ha : AddrSize a) (x y : Value) (ix : IsInt x) (hy : WF y) :
    (Value.shr x y (maskOf a)).map (absV a) = binary a .shr (absV a x) (absV a y) := by
  simp only [Value.shr, binary, shiftLength_refines a y hy, maskBitSize_mask a ha]
  cases shiftCount (absV a y) with
  | ok c =>
    obtain ⟨tx, bx⟩ := x
    cases tx <;> simp [IsInt, ValueType.kind] at ix
    all_goals simp only [absV, ValueType.kind, Out.map, isFloat, kindOf, canon, width, ValueType.width, Bool.false_eq_true, ite_false, ite_true, bind, Out.bind, pure, and_mask, reduceCtorEq]
    all_goals first | exact ok_val_congr (shr_gen _ _ _) | exact ok_val_congr (shr_u _ _ _) | rfl
  | err e => rfl
  | panic p => rfl
  | diverge => rfl

theorem shra_refines (a : Nat) (ha : AddrSize a) (x y : Value) (ix : IsInt x) (hy : WF y) :
    (Value.shra x y (maskOf a)).map (absV a) = binary a .shra (absV a x) (absV a y) := by
  simp only [Value.shra, binary, shiftLength_refines a y hy, maskBitSize_mask a ha]
  cases shiftCount (absV a y) with
  | ok c =>
    obtain ⟨tx, bx⟩ := x
    cases tx <;> simp [IsInt, ValueType.kind] at ix
    all_goals simp only [absV, ValueType.kind, Out.map, isFloat, kindOf, canon, width, ValueType.width, Bool.false_eq_true, ite_false, ite_true, bind, Out.bind, pure, and_mask, reduceCtorEq, asSigned, signExtend_mask a ha]
    all_goals first | exact ok_val_congr (shra_gen a ha _ _) | exact ok_val_congr (shra_s _ (by omega) _ _) | rfl
  | err e => rfl
  | panic p => rfl
  | diverge => rfl

/-! ## all binary operations -/

def IsShift : BinOp → Prop
  | .shl | .shr | .shra => True
  | _ => False

instance : DecidablePred IsShift := fun op => by cases op <;> simp [IsShift] <;> infer_instance

theorem binary_refines (a : Nat) (ha : AddrSize a) (op : BinOp) (x y : Value) (ix : IsInt x)
    (hy : WF y) :
    (binaryOf op x y (maskOf a)).map (absV a) = binary a op (absV a x) (absV a y) := by
  cases op
  case add => exact add_refines a ha x y ix
  case sub => exact sub_refines a ha x y ix hy
  case mul => exact mul_refines a ha x y ix
  case div => exact div_refines a ha x y ix hy
  case rem => exact rem_refines a ha x y ix hy
  case and => exact and_refines a x y ix
  case or => exact or_refines a x y ix
  case xor => exact xor_refines a x y ix
  case shl => exact shl_refines a ha x y ix hy
  case shr => exact shr_refines a ha x y ix hy
  case shra => exact shra_refines a ha x y ix hy
  case eq => exact eq_refines a ha x y ix
  case ge => exact ge_refines a ha x y ix
  case gt => exact gt_refines a ha x y ix
  case le => exact le_refines a ha x y ix
  case lt => exact lt_refines a ha x y ix
  case ne => exact ne_refines a ha x y ix
