import Gimli.Model.Filter
import Gimli.Spec.Reach
/-!
Helper lemmas for C19: the association-list map, the worklist invariant of
`FilterDependencies::get_reachable`, its fuel bound, and the final sort.
-/
namespace Gimli.Filter
open Gimli.Spec

/-! ## the graph a `FilterDependencies` value denotes -/

/-- `add_entry` was called for `x` -/
def EdgeMap.Valid (G : EdgeMap) (x : Off) : Prop := G.contains x = true
/-- `y` is in the dependency list stored for `x` -/
def EdgeMap.Edge (G : EdgeMap) (x y : Off) : Prop := ∃ deps, G.get? x = some deps ∧ y ∈ deps

/-- the Spec-level reachable set of a `FilterDependencies` value -/
def Deps.Reachable (d : Deps) : Off → Prop :=
  Reach d.edges.Valid d.edges.Edge (· ∈ d.required)

/-! ## association list -/

namespace EdgeMap

theorem get?_erase (m : EdgeMap) (x y : Off) :
    (m.erase x).get? y = if y = x then none else m.get? y := by
  induction m with
  | nil => simp [erase, get?]
  | cons p m ih =>
    obtain ⟨k, v⟩ := p
    simp only [erase, List.filter] at ih ⊢
    by_cases hk : k = x
    · subst hk
      simp only [bne_self_eq_false, get?]
      rw [ih]
      by_cases hy : y = k
      · simp [hy]
      · have : ¬ k = y := fun h => hy h.symm
        simp [hy, this]
    · have hb : (k != x) = true := by simp [hk]
      simp only [hb, get?]
      by_cases hky : k = y
      · subst hky; simp [hk]
      · simp only [hky, if_false]; exact ih

theorem length_erase_lt (m : EdgeMap) (x : Off) (v : List Off) (h : m.get? x = some v) :
    (m.erase x).length < m.length := by
  induction m with
  | nil => simp [get?] at h
  | cons p m ih =>
    obtain ⟨k, w⟩ := p
    simp only [erase, List.filter]
    by_cases hk : k = x
    · subst hk
      simp only [bne_self_eq_false]
      have := List.length_filter_le (fun p : Off × List Off => p.1 != k) m
      simp only [List.length_cons]; omega
    · have hb : (k != x) = true := by simp [hk]
      simp only [hb, List.length_cons]
      simp only [get?, hk, if_false] at h
      have := ih h
      simp only [erase] at this
      omega

theorem contains_iff (m : EdgeMap) (x : Off) : m.contains x = true ↔ ∃ v, m.get? x = some v := by
  simp only [contains, Option.isSome_iff_exists]

theorem contains_false_iff (m : EdgeMap) (x : Off) : m.contains x = false ↔ m.get? x = none := by
  simp only [contains]
  cases m.get? x <;> simp

end EdgeMap

/-! ## worklist invariant -/

/-- what holds before and after every step of `get_reachable`; `pend` = the offsets still waiting
in the current list or in a list on the stack -/
structure Inv (G : EdgeMap) (R : List Off) (s : WState) (pend : Off → Prop) : Prop where
  edges : ∀ x, s.edges.get? x = if x ∈ s.reach then none else G.get? x
  sound : ∀ x, x ∈ s.reach → Reach G.Valid G.Edge (· ∈ R) x
  pendSound : ∀ x, pend x → G.Valid x → Reach G.Valid G.Edge (· ∈ R) x
  closed : ∀ x, x ∈ s.reach → ∀ deps, G.get? x = some deps → ∀ y, y ∈ deps →
    y ∈ s.reach ∨ pend y ∨ ¬ G.Valid y
  reqs : ∀ x, x ∈ R → x ∈ s.reach ∨ pend x ∨ ¬ G.Valid x
  nodup : s.reach.Nodup

def pendOf (es : List Off) (queue : List (List Off)) (y : Off) : Prop :=
  y ∈ es ∨ ∃ l, l ∈ queue ∧ y ∈ l

theorem visit_inv (G : EdgeMap) (R : List Off) :
    ∀ (es : List Off) (s : WState), Inv G R s (pendOf es s.queue) →
      Inv G R (visit s es) (pendOf [] (visit s es).queue) := by
  intro es
  induction es with
  | nil => intro s h; simpa [visit] using h
  | cons e es ih =>
    intro s h
    rw [visit]
    cases hg : s.edges.get? e with
    | none =>
      simp only
      apply ih
      have he := h.edges e
      rw [hg] at he
      -- `e` is already reached or is not a key of the graph
      have hcase : e ∈ s.reach ∨ ¬ G.Valid e := by
        by_cases hm : e ∈ s.reach
        · exact Or.inl hm
        · right
          simp only [hm, if_false] at he
          intro hv
          have := (EdgeMap.contains_iff G e).1 hv
          obtain ⟨v, hv⟩ := this
          rw [hv] at he; cases he
      refine ⟨h.edges, h.sound, ?_, ?_, ?_, h.nodup⟩
      · intro x hp hv
        exact h.pendSound x (by
          rcases hp with hp | hp
          · exact Or.inl (List.mem_cons_of_mem _ hp)
          · exact Or.inr hp) hv
      · intro x hx deps hd y hy
        rcases h.closed x hx deps hd y hy with h1 | h1 | h1
        · exact Or.inl h1
        · rcases h1 with h1 | h1
          · rcases List.mem_cons.1 h1 with h2 | h2
            · subst h2
              rcases hcase with hc | hc
              · exact Or.inl hc
              · exact Or.inr (Or.inr hc)
            · exact Or.inr (Or.inl (Or.inl h2))
          · exact Or.inr (Or.inl (Or.inr h1))
        · exact Or.inr (Or.inr h1)
      · intro x hx
        rcases h.reqs x hx with h1 | h1 | h1
        · exact Or.inl h1
        · rcases h1 with h1 | h1
          · rcases List.mem_cons.1 h1 with h2 | h2
            · subst h2
              rcases hcase with hc | hc
              · exact Or.inl hc
              · exact Or.inr (Or.inr hc)
            · exact Or.inr (Or.inl (Or.inl h2))
          · exact Or.inr (Or.inl (Or.inr h1))
        · exact Or.inr (Or.inr h1)
    | some deps =>
      simp only
      apply ih
      have he := h.edges e
      rw [hg] at he
      have hnot : e ∉ s.reach := by
        intro hm; simp [hm] at he
      simp only [hnot, if_false] at he
      have hGe : G.get? e = some deps := he.symm
      have hvalid : G.Valid e := (EdgeMap.contains_iff G e).2 ⟨deps, hGe⟩
      have hreach : Reach G.Valid G.Edge (· ∈ R) e :=
        h.pendSound e (Or.inl (List.mem_cons_self)) hvalid
      refine ⟨?_, ?_, ?_, ?_, ?_, ?_⟩
      · intro x
        simp only [EdgeMap.get?_erase, List.mem_append, List.mem_singleton]
        by_cases hx : x = e
        · subst hx; simp
        · simp only [hx, if_false, or_false]
          exact h.edges x
      · intro x hx
        rcases List.mem_append.1 hx with h1 | h1
        · exact h.sound x h1
        · simp only [List.mem_singleton] at h1; subst h1; exact hreach
      · intro x hp hv
        rcases hp with hp | ⟨l, hl, hxl⟩
        · exact h.pendSound x (Or.inl (List.mem_cons_of_mem _ hp)) hv
        · rcases List.mem_cons.1 hl with h2 | h2
          · subst h2
            exact Reach.step hreach ⟨l, hGe, hxl⟩ hv
          · exact h.pendSound x (Or.inr ⟨l, h2, hxl⟩) hv
      · intro x hx ds hd y hy
        have keep : ∀ y, (y ∈ s.reach ∨ pendOf (e :: es) s.queue y ∨ ¬ G.Valid y) →
            (y ∈ s.reach ++ [e] ∨ pendOf es (deps :: s.queue) y ∨ ¬ G.Valid y) := by
          intro y hy
          rcases hy with h1 | h1 | h1
          · exact Or.inl (List.mem_append_left _ h1)
          · rcases h1 with h1 | ⟨l, hl, hyl⟩
            · rcases List.mem_cons.1 h1 with h2 | h2
              · subst h2; exact Or.inl (List.mem_append_right _ (List.mem_singleton.2 rfl))
              · exact Or.inr (Or.inl (Or.inl h2))
            · exact Or.inr (Or.inl (Or.inr ⟨l, List.mem_cons_of_mem _ hl, hyl⟩))
          · exact Or.inr (Or.inr h1)
        rcases List.mem_append.1 hx with h1 | h1
        · exact keep y (h.closed x h1 ds hd y hy)
        · simp only [List.mem_singleton] at h1; subst h1
          rw [hGe] at hd; cases hd
          exact Or.inr (Or.inl (Or.inr ⟨deps, List.mem_cons_self, hy⟩))
      · intro x hx
        rcases h.reqs x hx with h1 | h1 | h1
        · exact Or.inl (List.mem_append_left _ h1)
        · rcases h1 with h1 | ⟨l, hl, hyl⟩
          · rcases List.mem_cons.1 h1 with h2 | h2
            · subst h2; exact Or.inl (List.mem_append_right _ (List.mem_singleton.2 rfl))
            · exact Or.inr (Or.inl (Or.inl h2))
          · exact Or.inr (Or.inl (Or.inr ⟨l, List.mem_cons_of_mem _ hl, hyl⟩))
        · exact Or.inr (Or.inr h1)
      · refine List.nodup_append.2 ⟨h.nodup, List.nodup_cons.2 ⟨by simp, List.nodup_nil⟩, ?_⟩
        intro a ha b hb
        simp only [List.mem_singleton] at hb; subst hb
        intro hab; subst hab; exact hnot ha

theorem loop_inv (G : EdgeMap) (R : List Off) :
    ∀ (fuel : Nat) (s : WState) (out : List Off), Inv G R s (pendOf [] s.queue) →
      loop fuel s = .ok out →
      ∃ s', s'.reach = out ∧ Inv G R s' (fun _ => False) := by
  intro fuel
  induction fuel with
  | zero => intro s out _ h; simp [loop] at h
  | succ fuel ih =>
    intro s out hinv h
    rw [loop] at h
    cases hq : s.queue with
    | nil =>
      rw [hq] at h
      simp only [Out.ok.injEq] at h
      refine ⟨s, h, ?_⟩
      have hp : ∀ y, pendOf [] s.queue y → False := by
        intro y hy
        rcases hy with hy | ⟨l, hl, _⟩
        · cases hy
        · rw [hq] at hl; cases hl
      refine ⟨hinv.edges, hinv.sound, fun x hx => (hx.elim), ?_, ?_, hinv.nodup⟩
      · intro x hx deps hd y hy
        rcases hinv.closed x hx deps hd y hy with h1 | h1 | h1
        · exact Or.inl h1
        · exact (hp y h1).elim
        · exact Or.inr (Or.inr h1)
      · intro x hx
        rcases hinv.reqs x hx with h1 | h1 | h1
        · exact Or.inl h1
        · exact (hp x h1).elim
        · exact Or.inr (Or.inr h1)
    | cons entries queue =>
      rw [hq] at h
      simp only at h
      apply ih _ out _ h
      apply visit_inv
      -- the popped list becomes the current list
      have hp : ∀ y, pendOf [] s.queue y ↔ pendOf entries queue y := by
        intro y
        rw [hq]
        constructor
        · intro hy
          rcases hy with hy | ⟨l, hl, hyl⟩
          · cases hy
          · rcases List.mem_cons.1 hl with h2 | h2
            · subst h2; exact Or.inl hyl
            · exact Or.inr ⟨l, h2, hyl⟩
        · intro hy
          rcases hy with hy | ⟨l, hl, hyl⟩
          · exact Or.inr ⟨entries, List.mem_cons_self, hy⟩
          · exact Or.inr ⟨l, List.mem_cons_of_mem _ hl, hyl⟩
      refine ⟨hinv.edges, hinv.sound, ?_, ?_, ?_, hinv.nodup⟩
      · intro x hx hv; exact hinv.pendSound x ((hp x).2 hx) hv
      · intro x hx deps hd y hy
        rcases hinv.closed x hx deps hd y hy with h1 | h1 | h1
        · exact Or.inl h1
        · exact Or.inr (Or.inl ((hp y).1 h1))
        · exact Or.inr (Or.inr h1)
      · intro x hx
        rcases hinv.reqs x hx with h1 | h1 | h1
        · exact Or.inl h1
        · exact Or.inr (Or.inl ((hp x).1 h1))
        · exact Or.inr (Or.inr h1)

/-- the invariant holds at the start: nothing reached, the required list on the stack -/
theorem inv_init (d : Deps) :
    Inv d.edges d.required ⟨d.edges, [], [d.required]⟩ (pendOf [] [d.required]) := by
  refine ⟨?_, ?_, ?_, ?_, ?_, List.nodup_nil⟩
  · intro x; simp
  · intro x hx; cases hx
  · intro x hp hv
    rcases hp with hp | ⟨l, hl, hxl⟩
    · cases hp
    · simp only [List.mem_singleton] at hl; subst hl
      exact Reach.req hxl hv
  · intro x hx; cases hx
  · intro x hx
    exact Or.inr (Or.inl (Or.inr ⟨d.required, List.mem_singleton.2 rfl, hx⟩))

/-- a final state (empty stack) contains every reachable node -/
theorem inv_final_complete (G : EdgeMap) (R : List Off) (s : WState)
    (h : Inv G R s (fun _ => False)) : ∀ x, Reach G.Valid G.Edge (· ∈ R) x → x ∈ s.reach := by
  intro x hx
  induction hx with
  | req hr hv =>
    rcases h.reqs _ hr with h1 | h1 | h1
    · exact h1
    · exact h1.elim
    · exact (h1 hv).elim
  | step _ he hv ih =>
    obtain ⟨deps, hd, hy⟩ := he
    rcases h.closed _ ih deps hd _ hy with h1 | h1 | h1
    · exact h1
    · exact h1.elim
    · exact (h1 hv).elim

/-! ## fuel -/

theorem visit_measure : ∀ (es : List Off) (s : WState),
    (visit s es).queue.length + (visit s es).edges.length ≤ s.queue.length + s.edges.length := by
  intro es
  induction es with
  | nil => intro s; simp [visit]
  | cons e es ih =>
    intro s
    rw [visit]
    cases hg : s.edges.get? e with
    | none => exact ih s
    | some deps =>
      simp only
      have h1 := ih ⟨s.edges.erase e, s.reach ++ [e], deps :: s.queue⟩
      have h2 := EdgeMap.length_erase_lt s.edges e deps hg
      simp only [List.length_cons] at h1
      omega

theorem loop_terminates : ∀ (fuel : Nat) (s : WState),
    s.queue.length + s.edges.length < fuel → ∃ out, loop fuel s = .ok out := by
  intro fuel
  induction fuel with
  | zero => intro s h; omega
  | succ fuel ih =>
    intro s h
    rw [loop]
    cases hq : s.queue with
    | nil => exact ⟨s.reach, rfl⟩
    | cons entries queue =>
      simp only
      apply ih
      have := visit_measure entries { s with queue := queue }
      rw [hq] at h
      simp only [List.length_cons] at h
      simp only at this
      omega

/-- more fuel never changes an answer -/
theorem loop_fuel_mono : ∀ (fuel : Nat) (s : WState) (out : List Off),
    loop fuel s = .ok out → ∀ k, loop (fuel + k) s = .ok out := by
  intro fuel
  induction fuel with
  | zero => intro s out h; simp [loop] at h
  | succ fuel ih =>
    intro s out h k
    have : fuel + 1 + k = (fuel + k) + 1 := by omega
    rw [this, loop]
    rw [loop] at h
    cases hq : s.queue with
    | nil => rw [hq] at h; exact h
    | cons entries queue =>
      rw [hq] at h
      exact ih _ _ h k

/-! ## the final sort -/

theorem insertOff_perm (a : Off) : ∀ l : List Off, (insertOff a l).Perm (a :: l)
  | [] => List.Perm.refl _
  | b :: l => by
    rw [insertOff]
    by_cases h : a ≤ b
    · simp only [h, if_true]; exact List.Perm.refl _
    · simp only [h, if_false]
      exact ((insertOff_perm a l).cons b).trans (List.Perm.swap a b l)

theorem sortOffs_perm : ∀ l : List Off, (sortOffs l).Perm l
  | [] => List.Perm.refl _
  | a :: l => by
    show (insertOff a (sortOffs l)).Perm (a :: l)
    exact (insertOff_perm a _).trans ((sortOffs_perm l).cons a)

theorem mem_sortOffs (l : List Off) (x : Off) : x ∈ sortOffs l ↔ x ∈ l :=
  (sortOffs_perm l).mem_iff

theorem insertOff_sorted (a : Off) : ∀ l : List Off, l.Pairwise (· ≤ ·) → (insertOff a l).Pairwise (· ≤ ·)
  | [], _ => by simp [insertOff]
  | b :: l, h => by
    rw [insertOff]
    rw [List.pairwise_cons] at h
    by_cases hab : a ≤ b
    · simp only [hab, if_true]
      rw [List.pairwise_cons]
      refine ⟨?_, List.pairwise_cons.2 h⟩
      intro c hc
      rcases List.mem_cons.1 hc with h1 | h1
      · subst h1; exact hab
      · exact Nat.le_trans hab (h.1 c h1)
    · simp only [hab, if_false]
      rw [List.pairwise_cons]
      refine ⟨?_, insertOff_sorted a l h.2⟩
      intro c hc
      rcases List.mem_cons.1 ((insertOff_perm a l).mem_iff.1 hc) with h1 | h1
      · subst h1; exact Nat.le_of_lt (Nat.lt_of_not_le hab)
      · exact h.1 c h1

theorem sortOffs_sorted : ∀ l : List Off, (sortOffs l).Pairwise (· ≤ ·)
  | [] => List.Pairwise.nil
  | a :: l => insertOff_sorted a _ (sortOffs_sorted l)

theorem sortOffs_nodup (l : List Off) (h : l.Nodup) : (sortOffs l).Nodup :=
  (sortOffs_perm l).nodup_iff.2 h

/-! ## reservation by unit -/


namespace UnitHdr
def endOff (u : UnitHdr) : Off := u.base + u.hdr + u.len

theorem inb_nat (base hdr len o : Nat) :
    (decide (base ≤ o) && (decide (hdr ≤ o - base) && decide (o - base - hdr < len))) = true ↔
      base + hdr ≤ o ∧ o < base + hdr + len := by
  simp only [Bool.and_eq_true, decide_eq_true_eq]
  omega

theorem containsOff_iff (u : UnitHdr) (o : Off) :
    u.containsOff o = true ↔ u.base + u.hdr ≤ o ∧ o < u.endOff :=
  inb_nat u.base u.hdr u.len o
end UnitHdr

theorem takeUnit_sorted (u : UnitHdr) : ∀ (os : List Off), os.Pairwise (· ≤ ·) →
    (∀ o, o ∈ os → u.containsOff o = true ∨ u.endOff ≤ o) →
    takeUnit u os = (os.filter u.containsOff, os.filter (fun o => !u.containsOff o)) := by
  intro os
  induction os with
  | nil => intro _ _; rfl
  | cons o os ih =>
    intro hs hc
    rw [List.pairwise_cons] at hs
    rw [takeUnit]
    by_cases hp : u.containsOff o = true
    · have := ih hs.2 (fun x hx => hc x (List.mem_cons_of_mem _ hx))
      simp [hp, this]
    · have hge : u.endOff ≤ o := by
        rcases hc o List.mem_cons_self with h | h
        · exact (hp h).elim
        · exact h
      have hall : ∀ x, x ∈ os → u.containsOff x = false := by
        intro x hx
        have h1 : o ≤ x := hs.1 x hx
        cases hcx : u.containsOff x with
        | false => rfl
        | true =>
          have := ((UnitHdr.containsOff_iff u x).1 hcx).2
          exact absurd (Nat.lt_of_lt_of_le this (Nat.le_trans hge h1)) (Nat.lt_irrefl _)
      have hpf : u.containsOff o = false := by cases h : u.containsOff o <;> simp_all
      have h1 : os.filter u.containsOff = [] := by
        rw [List.filter_eq_nil_iff]; intro x hx; simp [hall x hx]
      have h2 : os.filter (fun o => !u.containsOff o) = os := by
        rw [List.filter_eq_self]; intro x hx; simp [hall x hx]
      simp [hpf, h1, h2]





theorem partition_sorted : ∀ (units : List UnitHdr) (offs : List Off),
    offs.Pairwise (· ≤ ·) →
    units.Pairwise (fun u v => u.endOff ≤ v.base) →
    (∀ o, o ∈ offs → ∃ u, u ∈ units ∧ u.containsOff o = true) →
    partition units offs = (units.map (fun u => offs.filter u.containsOff), []) := by
  intro units
  induction units with
  | nil =>
    intro offs _ _ hc
    cases offs with
    | nil => rfl
    | cons o os => obtain ⟨u, hu, _⟩ := hc o List.mem_cons_self; cases hu
  | cons u us ih =>
    intro offs hs hu hc
    rw [List.pairwise_cons] at hu
    have hB : ∀ o, o ∈ offs → u.containsOff o = true ∨ u.endOff ≤ o := by
      intro o ho
      obtain ⟨v, hv, hvo⟩ := hc o ho
      rcases List.mem_cons.1 hv with h | h
      · subst h; exact Or.inl hvo
      · right
        have h1 := hu.1 v h
        have h2 := ((UnitHdr.containsOff_iff v o).1 hvo).1
        exact Nat.le_trans h1 (Nat.le_trans (Nat.le_add_right _ _) h2)
    have ht := takeUnit_sorted u offs hs hB
    rw [partition, ht]
    simp only
    have hrest : (offs.filter (fun o => !u.containsOff o)).Pairwise (· ≤ ·) := hs.filter _
    have hcov : ∀ o, o ∈ offs.filter (fun o => !u.containsOff o) → ∃ v, v ∈ us ∧ v.containsOff o = true := by
      intro o ho
      rw [List.mem_filter] at ho
      obtain ⟨v, hv, hvo⟩ := hc o ho.1
      rcases List.mem_cons.1 hv with h | h
      · subst h; simp [hvo] at ho
      · exact ⟨v, h, hvo⟩
    rw [ih _ hrest hu.2 hcov]
    simp only [List.map_cons, Prod.mk.injEq, List.cons.injEq, true_and, and_true]
    apply List.map_congr_left
    intro v hv
    rw [List.filter_filter]
    apply List.filter_congr
    intro o _
    cases hvo : v.containsOff o with
    | false => simp
    | true =>
      have h1 := hu.1 v hv
      have h2 := ((UnitHdr.containsOff_iff v o).1 hvo).1
      have h3 : u.containsOff o = false := by
        cases huo : u.containsOff o with
        | false => rfl
        | true =>
          have h4 := ((UnitHdr.containsOff_iff u o).1 huo).2
          have : u.endOff ≤ o := Nat.le_trans h1 (Nat.le_trans (Nat.le_add_right _ _) h2)
          exact absurd (Nat.lt_of_lt_of_le h4 this) (Nat.lt_irrefl _)
      simp [h3]



end Gimli.Filter
