import Gimli.Model.WLine
import Gimli.Lemmas.Line
import Gimli.Lemmas.LineDecode
/-! Helper lemmas for C13: what the reader Model (`Gimli.Line`, C04) does with the instructions the
writer Model (`Gimli.WLine`) emits. -/
namespace Gimli.WLine
open Gimli Gimli.Line

/-! ## the reader side, in closed form -/

/-- the operation pointer moved by `n` operations (§6.2.5.1) -/
def advBy (h : Params) (r : Row) (n : Nat) : Row :=
  { r with opIndex := (r.opIndex + n) % h.maxOps,
           address := r.address + h.minInstLen * ((r.opIndex + n) / h.maxOps) }

theorem div_mod_add (x b m : Nat) (hm : 0 < m) : (x % m + b) / m + x / m = (x + b) / m := by
  have h1 : x = m * (x / m) + x % m := (Nat.div_add_mod x m).symm
  have h2 : x + b = (x % m + b) + m * (x / m) := by omega
  rw [h2, Nat.add_mul_div_left _ _ hm]

theorem mod_mod_add (x b m : Nat) : (x % m + b) % m = (x + b) % m := by
  rw [Nat.add_mod, Nat.mod_mod, ← Nat.add_mod]

theorem advBy_advBy (h : Params) (r : Row) (a b : Nat) (hm : 0 < h.maxOps) :
    advBy h (advBy h r a) b = advBy h r (a + b) := by
  unfold advBy
  simp only
  have e1 : ((r.opIndex + a) % h.maxOps + b) % h.maxOps = (r.opIndex + (a + b)) % h.maxOps := by
    rw [mod_mod_add]; congr 1; omega
  have e2 : ((r.opIndex + a) % h.maxOps + b) / h.maxOps + (r.opIndex + a) / h.maxOps =
      (r.opIndex + (a + b)) / h.maxOps := by
    rw [div_mod_add _ _ _ hm]; congr 1; omega
  rw [e1, ← e2, Nat.mul_add]
  congr 1
  omega

theorem advBy_zero (h : Params) (r : Row) (hidx : r.opIndex < h.maxOps) : advBy h r 0 = r := by
  unfold advBy
  simp only [Nat.add_zero]
  rw [Nat.mod_eq_of_lt hidx, Nat.div_eq_of_lt hidx]
  simp

theorem advBy_address_mono (h : Params) (r : Row) (a b : Nat) (hab : a ≤ b) :
    (advBy h r a).address ≤ (advBy h r b).address := by
  unfold advBy
  simp only
  have : (r.opIndex + a) / h.maxOps ≤ (r.opIndex + b) / h.maxOps :=
    Nat.div_le_div_right (by omega)
  have := Nat.mul_le_mul_left h.minInstLen this
  omega

/-- `apply_operation_advance` when nothing overflows -/
theorem applyOperationAdvance_advBy (h : Params) (r : Row) (n : Nat) (hnt : r.tombstone = false)
    (hsz : h.addrSize ≤ 8) (hmax1 : 1 ≤ h.maxOps) (hidx : r.opIndex < h.maxOps)
    (hn : r.opIndex + n < 2 ^ 64)
    (hfit : (advBy h r n).address ≤ onesSized h.addrSize) :
    applyOperationAdvance h r n = (advBy h r n, none) := by
  have hones := onesSized_lt h.addrSize hsz
  have hfit' : r.address + h.minInstLen * ((r.opIndex + n) / h.maxOps) ≤ onesSized h.addrSize := hfit
  rw [applyOperationAdvance_eq h r n hnt hsz hmax1 hidx hn (by omega)]
  rw [if_pos hfit']
  rfl

theorem advBy_tombstone (h : Params) (r : Row) (n : Nat) : (advBy h r n).tombstone = r.tombstone := rfl
theorem advBy_line (h : Params) (r : Row) (n : Nat) : (advBy h r n).line = r.line := rfl

theorem advBy_opIndex_lt (h : Params) (r : Row) (n : Nat) (hm : 0 < h.maxOps) :
    (advBy h r n).opIndex < h.maxOps := Nat.mod_lt _ hm

/-! ## the writer's row encoder, piece by piece -/

/-- the reader's header parameters agree with the writer's `LineEncoding` -/
def Agrees (h : Params) (e : Enc) : Prop :=
  h.version = e.version ∧ h.minInstLen = e.minInstLen ∧ h.maxOps = e.maxOps ∧
  h.lineBase = e.lineBase ∧ h.lineRange = e.lineRange ∧ h.opcodeBase = 13

theorem ofI64_nonpos (i : Int) (h1 : -128 ≤ i) (h2 : i ≤ 0) :
    Leb.ofI64 i = if i = 0 then 0 else (2 ^ 64 + i).toNat := by
  unfold Leb.ofI64
  split <;> omega

theorem specialDefault_eq (e : Enc) (h1 : -128 ≤ e.lineBase) (h2 : e.lineBase ≤ 0) :
    specialDefault e = 13 + (-e.lineBase).toNat := by
  unfold specialDefault opcodeBase
  rw [ofI64_nonpos _ h1 h2]
  split <;> omega

/-- `linePart`: the pending line increment `pl` that the final special opcode will carry -/
theorem linePart_spec (e : Enc) (la : Int) (h1 : -128 ≤ e.lineBase) (h2 : e.lineBase ≤ 0)
    (hr : 0 < e.lineBase + e.lineRange) (hlr : e.lineRange ≤ 255)
    (hla : -(2 ^ 63 : Int) ≤ la ∧ la < 2 ^ 63) :
    ∃ (pl : Int) (is : List WInstr),
      linePart e la = (13 + (pl - e.lineBase).toNat, decide (pl ≠ 0), is) ∧
      e.lineBase ≤ pl ∧ pl < e.lineBase + e.lineRange ∧ 13 + (pl - e.lineBase).toNat ≤ 255 ∧
      ((pl = la ∧ is = []) ∨ (pl = 0 ∧ is = [.advanceLine la])) := by
  unfold linePart
  rw [specialDefault_eq e h1 h2]
  have hb := ofI64_nonpos e.lineBase h1 h2
  by_cases hz : la = 0
  · subst hz
    refine ⟨0, [], ?_, h2, by omega, by omega, Or.inl ⟨rfl, rfl⟩⟩
    simp
  · simp only [ne_eq, hz, not_false_eq_true, ↓reduceIte, opcodeBase]
    have hsl : (Leb.ofI64 la + 2 ^ 64 - Leb.ofI64 e.lineBase) % 2 ^ 64 =
        if e.lineBase ≤ la then (la - e.lineBase).toNat else (2 ^ 64 + (la - e.lineBase)).toNat := by
      rw [hb]
      unfold Leb.ofI64
      split <;> split <;> omega
    rw [hsl]
    by_cases hin : (e.lineBase ≤ la ∧ la < e.lineBase + e.lineRange) ∧ 13 + (la - e.lineBase).toNat ≤ 255
    · refine ⟨la, [], ?_, hin.1.1, hin.1.2, hin.2, Or.inl ⟨rfl, rfl⟩⟩
      have : (la - e.lineBase).toNat < e.lineRange := by omega
      simp [hin.1.1, this, hz, hin.2]
    · refine ⟨0, [.advanceLine la], ?_, h2, by omega, by omega, Or.inr ⟨rfl, rfl⟩⟩
      have : ¬ ((if e.lineBase ≤ la then (la - e.lineBase).toNat else (2 ^ 64 + (la - e.lineBase)).toNat) < e.lineRange ∧
          13 + (if e.lineBase ≤ la then (la - e.lineBase).toNat else (2 ^ 64 + (la - e.lineBase)).toNat) ≤ 255) := by
        split <;> omega
      generalize (if e.lineBase ≤ la then (la - e.lineBase).toNat else (2 ^ 64 + (la - e.lineBase)).toNat) = X
        at this ⊢
      simp only [this, ↓reduceIte]
      simp

theorem specialFor_eq (special lr oa : Nat) :
    specialFor special lr oa = if special + oa * lr ≤ 255 then some (special + oa * lr) else none := by
  unfold specialFor
  by_cases h1 : oa * lr < 2 ^ 64
  · by_cases h2 : special + oa * lr < 2 ^ 64
    · simp [h1, h2]
    · have : ¬ special + oa * lr ≤ 255 := by omega
      simp [h1, h2, this]
  · have : ¬ special + oa * lr ≤ 255 := by omega
    simp [h1, this]

theorem subM_ok (m : Mode) (a b : Nat) (h : b ≤ a) : subM m a b = .ok (a - b) := by
  unfold subM; simp [h]

theorem addM_ok (m : Mode) (a b : Nat) (h : a + b < 2 ^ 64) : addM m a b = .ok (a + b) := by
  unfold addM; simp [h]

theorem mulM_ok (m : Mode) (a b : Nat) (h : a * b < 2 ^ 64) : mulM m a b = .ok (a * b) := by
  unfold mulM; simp [h]

/-- `opPart`: the pending operation advance `po` that the final special opcode will carry -/
theorem opPart_spec (m : Mode) (e : Enc) (x : Nat) (us : Bool) (oa : Nat) (hx : x < e.lineRange)
    (hlr : 13 + x ≤ 255) :
    ∃ (po : Nat) (us' : Bool) (is : List WInstr),
      opPart m e (13 + x) us oa = .ok (13 + x + po * e.lineRange, us', is) ∧
      13 + x + po * e.lineRange ≤ 255 ∧
      ((is = [] ∧ po = oa ∧ us' = (us || decide (oa ≠ 0))) ∨
       (is = [.constAddPc] ∧ po + 242 / e.lineRange = oa ∧ us' = true) ∨
       (is = [.advancePc oa] ∧ po = 0 ∧ us' = us)) := by
  unfold opPart
  by_cases hz : oa = 0
  · subst hz
    exact ⟨0, us, [], by simp, by omega, Or.inl ⟨rfl, rfl, by simp⟩⟩
  · simp only [ne_eq, hz, not_false_eq_true, ↓reduceIte, specialFor_eq, opcodeBase]
    by_cases h1 : 13 + x + oa * e.lineRange ≤ 255
    · refine ⟨oa, true, [], ?_, h1, Or.inl ⟨rfl, rfl, by simp [hz]⟩⟩
      simp [h1]
    · have hlr0 : e.lineRange ≠ 0 := by omega
      have hge : 242 / e.lineRange ≤ oa := by
        apply Classical.byContradiction
        intro hlt
        have h3 : (oa + 1) * e.lineRange ≤ (242 / e.lineRange) * e.lineRange :=
          Nat.mul_le_mul_right _ (by omega)
        have h4 : (242 / e.lineRange) * e.lineRange ≤ 242 := Nat.div_mul_le_self _ _
        have h5 : (oa + 1) * e.lineRange = oa * e.lineRange + e.lineRange := by
          rw [Nat.add_mul, Nat.one_mul]
        omega
      simp only [h1, ↓reduceIte, Option.isSome_none, Bool.false_eq_true, hlr0, Nat.reduceSub]
      rw [subM_ok m _ _ hge]
      simp only [Out.bind_ok, Out.pure_eq]
      by_cases h2 : 13 + x + (oa - 242 / e.lineRange) * e.lineRange ≤ 255
      · refine ⟨oa - 242 / e.lineRange, true, [.constAddPc], ?_, h2, Or.inr (Or.inl ⟨rfl, by omega, rfl⟩)⟩
        simp [h2]
      · refine ⟨0, us, [.advancePc oa], ?_, by omega, Or.inr (Or.inr ⟨rfl, rfl, rfl⟩)⟩
        simp [h2]

theorem exec_special (h : Params) (hob : h.opcodeBase = 13) (r : Row) (pl : Int) (po : Nat)
    (hlo : h.lineBase ≤ pl) (hhi : pl < h.lineBase + h.lineRange)
    (hl : r.line < 2 ^ 64) (hl2 : 0 ≤ (r.line : Int) + pl ∧ (r.line : Int) + pl < 2 ^ 64)
    (hnt : r.tombstone = false) (hsz : h.addrSize ≤ 8) (hmax1 : 1 ≤ h.maxOps)
    (hidx : r.opIndex < h.maxOps) (hn : r.opIndex + po < 2 ^ 64)
    (hfit : (advBy h { r with line := ((r.line : Int) + pl).toNat } po).address ≤ onesSized h.addrSize) :
    execute h r (.special (13 + (pl - h.lineBase).toNat + po * h.lineRange)) =
      (advBy h { r with line := ((r.line : Int) + pl).toNat } po, .emit) := by
  have hx : (pl - h.lineBase).toNat < h.lineRange := by omega
  have hlr : 0 < h.lineRange := by omega
  have hadj : adjustOpcode h (13 + (pl - h.lineBase).toNat + po * h.lineRange) =
      (pl - h.lineBase).toNat + po * h.lineRange := by
    unfold adjustOpcode; omega
  have hmod : ((pl - h.lineBase).toNat + po * h.lineRange) % h.lineRange = (pl - h.lineBase).toNat := by
    rw [Nat.add_mul_mod_self_right, Nat.mod_eq_of_lt hx]
  have hdiv : ((pl - h.lineBase).toNat + po * h.lineRange) / h.lineRange = po := by
    rw [Nat.add_mul_div_right _ _ hlr, Nat.div_eq_of_lt hx, Nat.zero_add]
  have hinc : h.lineBase + (((pl - h.lineBase).toNat : Nat) : Int) = pl := by omega
  simp only [execute, execSpecial, hadj, hmod, hdiv, hinc]
  rw [applyLineAdvance_eq r pl hl]
  have hline : (if (r.line : Int) + pl < 0 then 0 else ((r.line : Int) + pl).toNat % 2 ^ 64) =
      ((r.line : Int) + pl).toNat := by
    rw [if_neg (by omega)]
    apply Nat.mod_eq_of_lt
    omega
  rw [hline]
  rw [applyOperationAdvance_advBy h { r with line := ((r.line : Int) + pl).toNat } po hnt hsz hmax1 hidx hn hfit]
  rfl

theorem exec_advancePc (h : Params) (r : Row) (n : Nat)
    (hnt : r.tombstone = false) (hsz : h.addrSize ≤ 8) (hmax1 : 1 ≤ h.maxOps)
    (hidx : r.opIndex < h.maxOps) (hn : r.opIndex + n < 2 ^ 64)
    (hfit : (advBy h r n).address ≤ onesSized h.addrSize) :
    execute h r (.advancePc n) = (advBy h r n, .noEmit) := by
  simp only [execute]
  rw [applyOperationAdvance_advBy h r n hnt hsz hmax1 hidx hn hfit]
  rfl

theorem exec_constAddPc (h : Params) (hob : h.opcodeBase = 13) (r : Row)
    (hnt : r.tombstone = false) (hsz : h.addrSize ≤ 8) (hmax1 : 1 ≤ h.maxOps)
    (hidx : r.opIndex < h.maxOps) (hn : r.opIndex + 242 / h.lineRange < 2 ^ 64)
    (hfit : (advBy h r (242 / h.lineRange)).address ≤ onesSized h.addrSize) :
    execute h r .constAddPc = (advBy h r (242 / h.lineRange), .noEmit) := by
  have : adjustOpcode h 255 = 242 := by unfold adjustOpcode; omega
  simp only [execute, this]
  rw [applyOperationAdvance_advBy h r _ hnt hsz hmax1 hidx hn hfit]
  rfl

theorem exec_advanceLine (h : Params) (r : Row) (la : Int) (hl : r.line < 2 ^ 64)
    (hl2 : 0 ≤ (r.line : Int) + la ∧ (r.line : Int) + la < 2 ^ 64) :
    execute h r (.advanceLine la) = ({ r with line := ((r.line : Int) + la).toNat }, .noEmit) := by
  simp only [execute]
  rw [applyLineAdvance_eq r la hl, if_neg (by omega), Nat.mod_eq_of_lt (by omega)]

/-- one step of `traceInstrs` for an instruction that produces no row -/
theorem trace_noEmit (h : Params) (r r' : Row) (b : Bool) (i : Instr) (is : List Instr)
    (hx : execute h r i = (r', .noEmit)) : traceInstrs h r b (i :: is) = traceInstrs h r' b is := by
  rw [traceInstrs, hx]

/-- one step of `traceInstrs` for an instruction that produces a row -/
theorem trace_emit (h : Params) (r r' : Row) (b : Bool) (i : Instr) (is : List Instr)
    (hx : execute h r i = (r', .emit)) (hnt : r'.tombstone = false) :
    traceInstrs h r b (i :: is) =
      Ev.row r' :: traceInstrs h (reset h r') (!r'.endSequence) is := by
  rw [traceInstrs, hx]
  simp [skipRow, hnt]


theorem finalPart_spec (m : Mode) (e : Enc) (h : Params) (ha : Agrees h e) (version : Nat) (r : Row)
    (pl : Int) (po : Nat) (us : Bool)
    (h1 : -128 ≤ e.lineBase) (h2 : e.lineBase ≤ 0) (hr : 0 < e.lineBase + e.lineRange)
    (hlo : e.lineBase ≤ pl) (hhi : pl < e.lineBase + e.lineRange)
    (hle : 13 + (pl - e.lineBase).toNat + po * e.lineRange ≤ 255)
    (hus : us = false → pl = 0 ∧ po = 0)
    (hl : r.line < 2 ^ 64) (hl2 : 0 ≤ (r.line : Int) + pl ∧ (r.line : Int) + pl < 2 ^ 64)
    (hnt : r.tombstone = false) (hsz : h.addrSize ≤ 8) (hmax1 : 1 ≤ h.maxOps)
    (hidx : r.opIndex < h.maxOps) (hn : r.opIndex + po < 2 ^ 64)
    (hfit : (advBy h { r with line := ((r.line : Int) + pl).toNat } po).address ≤ onesSized h.addrSize) :
    ∃ fin, finalPart m e (13 + (pl - e.lineBase).toNat + po * e.lineRange) us = .ok fin ∧
      execute h r (fin.toInstr version) =
        (advBy h { r with line := ((r.line : Int) + pl).toNat } po, .emit) := by
  obtain ⟨_, _, _, hlb, hlrg, hob⟩ := ha
  unfold finalPart
  rw [specialDefault_eq e h1 h2]
  by_cases hc : us = true ∧ 13 + (pl - e.lineBase).toNat + po * e.lineRange ≠ 13 + (-e.lineBase).toNat
  · refine ⟨.special (13 + (pl - e.lineBase).toNat + po * e.lineRange), ?_, ?_⟩
    · have hm : (13 + (pl - e.lineBase).toNat + po * e.lineRange) % 256 =
          13 + (pl - e.lineBase).toNat + po * e.lineRange := Nat.mod_eq_of_lt (by omega)
      rw [if_pos hc, hm]
      have a1 : ¬ (m = Mode.debug ∧ 13 + (pl - e.lineBase).toNat + po * e.lineRange < opcodeBase) := by
        unfold opcodeBase; omega
      have a2 : ¬ (m = Mode.debug ∧ 13 + (pl - e.lineBase).toNat + po * e.lineRange > 255) := by omega
      rw [if_neg a1, if_neg a2]
    · simp only [WInstr.toInstr]
      have := exec_special h hob r pl po (by omega) (by omega) hl hl2 hnt hsz hmax1 hidx hn hfit
      rw [hlb, hlrg] at this
      exact this
  · have hz : pl = 0 ∧ po = 0 := by
      cases hu : us with
      | false => exact hus hu
      | true =>
        have heq : 13 + (pl - e.lineBase).toNat + po * e.lineRange = 13 + (-e.lineBase).toNat := by
          apply Classical.byContradiction
          intro hne
          exact hc ⟨hu, hne⟩
        have hpo : po = 0 := by
          cases po with
          | zero => rfl
          | succ k =>
            have : (k + 1) * e.lineRange = k * e.lineRange + e.lineRange := by
              rw [Nat.add_mul, Nat.one_mul]
            omega
        subst hpo
        exact ⟨by omega, rfl⟩
    obtain ⟨hpl, hpo⟩ := hz
    subst hpl hpo
    refine ⟨.copy, by rw [if_neg hc], ?_⟩
    simp only [WInstr.toInstr, execute]
    have : ({ r with line := ((r.line : Int) + 0).toNat } : Row) = r := by
      cases r; simp
    rw [this, advBy_zero h r hidx]


/-- **The arithmetic core of `generate_row`.** Whatever mix of `advance_line`, `advance_pc`,
`const_add_pc`, special opcode or `copy` is chosen for a line advance `la` and an operation advance
`oa`, the reader executes it as: one row, line moved by `la`, operation pointer moved by `oa`. -/
theorem advanceInstrs_trace (m : Mode) (e : Enc) (h : Params) (ha : Agrees h e) (version : Nat)
    (r : Row) (la : Int) (oa : Nat)
    (h1 : -128 ≤ e.lineBase) (h2 : e.lineBase ≤ 0) (hr : 0 < e.lineBase + e.lineRange)
    (hlr : e.lineRange ≤ 255)
    (hla : -(2 ^ 63 : Int) ≤ la ∧ la < 2 ^ 63) (hl : r.line < 2 ^ 64)
    (hl2 : 0 ≤ (r.line : Int) + la ∧ (r.line : Int) + la < 2 ^ 64)
    (hnt : r.tombstone = false) (hsz : h.addrSize ≤ 8) (hmax1 : 1 ≤ h.maxOps)
    (hidx : r.opIndex < h.maxOps) (hn : r.opIndex + oa < 2 ^ 64)
    (hfit : (advBy h r oa).address ≤ onesSized h.addrSize) :
    ∃ is, advanceInstrs m e la oa = .ok is ∧ ∀ (b : Bool) (rest : List Instr),
      traceInstrs h r b (is.map (WInstr.toInstr version) ++ rest) =
        Ev.row (advBy h { r with line := ((r.line : Int) + la).toNat } oa) ::
          traceInstrs h (reset h (advBy h { r with line := ((r.line : Int) + la).toNat } oa))
            (!r.endSequence) rest := by
  obtain ⟨pl, lis, hL, hlo, hhi, hp255, hlcase⟩ := linePart_spec e la h1 h2 hr hlr hla
  obtain ⟨po, us', ois, hO, hle, hocase⟩ :=
    opPart_spec m e (pl - e.lineBase).toNat (decide (pl ≠ 0)) oa (by omega) hp255
  have hob : h.opcodeBase = 13 := ha.2.2.2.2.2
  have hlrg : h.lineRange = e.lineRange := ha.2.2.2.2.1
  have hpo : po ≤ oa := by
    rcases hocase with ⟨_, hp, _⟩ | ⟨_, hp, _⟩ | ⟨_, hp, _⟩
    · omega
    · exact hp ▸ Nat.le_add_right _ _
    · omega
  have hL1 : 0 ≤ (r.line : Int) + la - pl ∧ (r.line : Int) + la - pl < 2 ^ 64 := by
    rcases hlcase with ⟨hp, _⟩ | ⟨hp, _⟩ <;> omega
  -- the registers after the line instructions, after the operation-pointer instructions
  let L1 : Nat := ((r.line : Int) + la - pl).toNat
  let r1 : Row := { r with line := L1 }
  let r2 : Row := { advBy h r (oa - po) with line := L1 }
  have hmono : ∀ n, n ≤ oa → (advBy h r n).address ≤ onesSized h.addrSize := fun n hn' =>
    Nat.le_trans (advBy_address_mono h r n oa hn') hfit
  have stepL : ∀ (b : Bool) tail, traceInstrs h r b (lis.map (WInstr.toInstr version) ++ tail) = traceInstrs h r1 b tail := by
    intro b tail
    rcases hlcase with ⟨hp, hlis⟩ | ⟨hp, hlis⟩
    · subst hlis
      have : r1 = r := by
        show ({ r with line := ((r.line : Int) + la - pl).toNat } : Row) = r
        have : ((r.line : Int) + la - pl).toNat = r.line := by omega
        rw [this]
      rw [this]; rfl
    · subst hlis
      have hx := exec_advanceLine h r la hl hl2
      have : r1 = { r with line := ((r.line : Int) + la).toNat } := by
        show ({ r with line := ((r.line : Int) + la - pl).toNat } : Row) = _
        have : ((r.line : Int) + la - pl).toNat = ((r.line : Int) + la).toNat := by omega
        rw [this]
      rw [this]
      exact trace_noEmit h r _ b _ _ hx
  have stepO : ∀ (b : Bool) tail, traceInstrs h r1 b (ois.map (WInstr.toInstr version) ++ tail) = traceInstrs h r2 b tail := by
    intro b tail
    rcases hocase with ⟨hois, hp, _⟩ | ⟨hois, hp, _⟩ | ⟨hois, hp, _⟩
    · subst hois
      have : r2 = r1 := by
        show ({ advBy h r (oa - po) with line := L1 } : Row) = { r with line := L1 }
        have : oa - po = 0 := by omega
        rw [this, advBy_zero h r hidx]
      rw [this]; rfl
    · subst hois
      have hx := exec_constAddPc h hob r1 hnt hsz hmax1 hidx (by rw [hlrg]; show r.opIndex + _ < _; omega)
        (by rw [hlrg]; exact hmono _ (by omega))
      have : r2 = advBy h r1 (242 / h.lineRange) := by
        show ({ advBy h r (oa - po) with line := L1 } : Row) = advBy h { r with line := L1 } (242 / h.lineRange)
        have : oa - po = 242 / h.lineRange := by rw [hlrg]; omega
        rw [this]; rfl
      rw [this]
      exact trace_noEmit h r1 _ b _ _ hx
    · subst hois
      have hx := exec_advancePc h r1 oa hnt hsz hmax1 hidx hn hfit
      have : r2 = advBy h r1 oa := by
        show ({ advBy h r (oa - po) with line := L1 } : Row) = advBy h { r with line := L1 } oa
        have : oa - po = oa := by omega
        rw [this]; rfl
      rw [this]
      exact trace_noEmit h r1 _ b _ _ hx
  -- the final instruction
  have hus : us' = false → pl = 0 ∧ po = 0 := by
    intro hu
    rcases hocase with ⟨_, hp, hu'⟩ | ⟨_, hp, hu'⟩ | ⟨_, hp, hu'⟩
    · rw [hu] at hu'
      simp at hu'
      omega
    · rw [hu] at hu'; cases hu'
    · rw [hu] at hu'
      simp at hu'
      omega
  have hr2line : (r2.line : Int) + pl = (r.line : Int) + la := by
    show (((r.line : Int) + la - pl).toNat : Int) + pl = _
    omega
  have hfin_eq : advBy h { r2 with line := ((r2.line : Int) + pl).toNat } po =
      advBy h { r with line := ((r.line : Int) + la).toNat } oa := by
    rw [hr2line]
    show ({ advBy h (advBy h r (oa - po)) po with line := ((r.line : Int) + la).toNat } : Row) = _
    rw [advBy_advBy h r _ _ (by omega)]
    have : oa - po + po = oa := by omega
    rw [this]; rfl
  obtain ⟨fin, hF, hxF⟩ := finalPart_spec m e h ha version r2 pl po us' h1 h2 hr hlo hhi hle hus
    (by show L1 < 2 ^ 64; omega) (by rw [hr2line]; exact hl2) hnt hsz hmax1
    (advBy_opIndex_lt h r _ (by omega))
    (by
      show (r.opIndex + (oa - po)) % h.maxOps + po < 2 ^ 64
      have := Nat.mod_le (r.opIndex + (oa - po)) h.maxOps
      omega)
    (by rw [hfin_eq]; exact hfit)
  rw [hfin_eq] at hxF
  refine ⟨lis ++ ois ++ [fin], ?_, ?_⟩
  · unfold advanceInstrs
    rw [hL]
    simp only [hO, hF, Out.bind_ok, Out.pure_eq]
  · intro b rest
    simp only [List.map_append, List.append_assoc, List.map_cons, List.map_nil, List.cons_append,
      List.nil_append]
    rw [stepL, stepO]
    exact trace_emit h r2 _ b _ _ hxF hnt

theorem trace_resetFields (h : Params) (version : Nat) (r : Row) (b : Bool) (row : WRow) (tail : List Instr)
    (h0 : r.discriminator = 0 ∧ r.basicBlock = false ∧ r.prologueEnd = false ∧ r.epilogueBegin = false) :
    traceInstrs h r b ((resetFieldInstrs row).map (WInstr.toInstr version) ++ tail) =
      traceInstrs h { r with discriminator := row.discriminator, basicBlock := row.basicBlock,
                             prologueEnd := row.prologueEnd, epilogueBegin := row.epilogueBegin } b tail := by
  obtain ⟨hd, hb, hp, he⟩ := h0
  cases r
  simp only at hd hb hp he
  subst hd hb hp he
  unfold resetFieldInstrs
  by_cases c1 : row.discriminator = 0 <;> cases c2 : row.basicBlock <;> cases c3 : row.prologueEnd <;>
    cases c4 : row.epilogueBegin <;>
    simp [c1, traceInstrs, execute, WInstr.toInstr]

theorem trace_stickyFields (h : Params) (version : Nat) (r : Row) (b : Bool) (prev row : WRow) (tail : List Instr)
    (hs : r.isStmt = prev.isStmt) (hf : r.file = fileRaw version prev.file)
    (hc : r.column = prev.column) (hi : r.isa = prev.isa) :
    traceInstrs h r b ((stickyFieldInstrs prev row).map (WInstr.toInstr version) ++ tail) =
      traceInstrs h { r with isStmt := row.isStmt, file := fileRaw version row.file,
                             column := row.column, isa := row.isa } b tail := by
  cases r
  simp only at hs hf hc hi
  subst hs hf hc hi
  unfold stickyFieldInstrs
  cases c0 : row.isStmt <;> cases c1 : prev.isStmt <;> by_cases c2 : row.file = prev.file <;>
    by_cases c3 : row.column = prev.column <;> by_cases c4 : row.isa = prev.isa <;>
    simp [c2, c3, c4, traceInstrs, execute, WInstr.toInstr]

theorem opAdvance_spec (m : Mode) (e : Enc) (prev row : WRow)
    (hmin : 1 ≤ e.minInstLen)
    (hle : prev.addressOffset ≤ row.addressOffset)
    (hal : row.addressOffset % e.minInstLen = 0)
    (hfit : (row.addressOffset - prev.addressOffset) / e.minInstLen * e.maxOps + row.opIndex < 2 ^ 64)
    (hge : prev.opIndex ≤ (row.addressOffset - prev.addressOffset) / e.minInstLen * e.maxOps + row.opIndex) :
    opAdvance m e prev row =
      .ok ((row.addressOffset - prev.addressOffset) / e.minInstLen * e.maxOps + row.opIndex - prev.opIndex) := by
  unfold opAdvance
  have c1 : ¬ (m = Mode.debug ∧ row.addressOffset < prev.addressOffset) := by omega
  rw [if_neg c1, subM_ok m _ _ hle]
  simp only [Out.bind_ok]
  by_cases h1 : e.minInstLen = 1
  · simp only [h1, ne_eq, not_true_eq_false, ↓reduceIte, Out.bind_ok]
    rw [h1, Nat.div_one] at hfit hge
    rw [mulM_ok m _ _ (by omega)]
    simp only [Out.bind_ok]
    rw [addM_ok m _ _ hfit]
    simp only [Out.bind_ok]
    rw [subM_ok m _ _ hge, Nat.div_one]
  · have h0 : e.minInstLen ≠ 0 := by omega
    have c2 : ¬ (m = Mode.debug ∧ row.addressOffset % e.minInstLen ≠ 0) := by simp [hal]
    simp only [ne_eq, h1, not_false_eq_true, ↓reduceIte, h0]
    rw [if_neg c2]
    simp only [Out.bind_ok]
    rw [mulM_ok m _ _ (by omega)]
    simp only [Out.bind_ok]
    rw [addM_ok m _ _ hfit]
    simp only [Out.bind_ok]
    rw [subM_ok m _ _ hge]

theorem toI64_small (n : Nat) (h : n < 2 ^ 63) : Leb.toI64 n = n := by
  unfold Leb.toI64
  have : n % 2 ^ 64 = n := Nat.mod_eq_of_lt (by omega)
  rw [this, if_pos h]

theorem lineAdvance_spec (m : Mode) (a b : Nat) (ha : a < 2 ^ 63) (hb : b < 2 ^ 63) :
    lineAdvance m a b = .ok ((b : Int) - a) := by
  unfold lineAdvance
  rw [toI64_small a ha, toI64_small b hb]
  simp only
  rw [if_pos (by omega)]

/-- the operation pointer arithmetic: moving from `(prevOff, prevOp)` by the operation advance the
writer computes lands exactly on `(off, op)` -/
theorem pointer_arith (mn mx prevOff off prevOp op : Nat) (_hmn : 1 ≤ mn) (hmx : 1 ≤ mx)
    (hd1 : prevOff % mn = 0) (hd2 : off % mn = 0) (hle : prevOff ≤ off) (hop : op < mx)
    (hge : prevOp ≤ (off - prevOff) / mn * mx + op) :
    let oa := (off - prevOff) / mn * mx + op - prevOp
    (prevOp + oa) % mx = op ∧ prevOff + mn * ((prevOp + oa) / mx) = off := by
  intro oa
  have hsum : prevOp + oa = op + mx * ((off - prevOff) / mn) := by
    show prevOp + ((off - prevOff) / mn * mx + op - prevOp) = _
    rw [Nat.mul_comm mx]; omega
  have hdvd : mn * ((off - prevOff) / mn) = off - prevOff := by
    apply Nat.mul_div_cancel'
    apply (Nat.dvd_sub (Nat.dvd_of_mod_eq_zero hd2) (Nat.dvd_of_mod_eq_zero hd1))
  rw [hsum, Nat.add_mul_mod_self_left, Nat.mod_eq_of_lt hop, Nat.add_mul_div_left _ _ (by omega),
    Nat.div_eq_of_lt hop, Nat.zero_add, hdvd]
  exact ⟨rfl, by omega⟩

theorem linePart_noSpecial (e : Enc) (la : Int) (op : Nat) : WInstr.special op ∉ (linePart e la).2.2 := by
  unfold linePart
  by_cases h0 : la ≠ 0
  · by_cases h1 : (Leb.ofI64 la + 2 ^ 64 - Leb.ofI64 e.lineBase) % 2 ^ 64 < e.lineRange ∧
        opcodeBase + (Leb.ofI64 la + 2 ^ 64 - Leb.ofI64 e.lineBase) % 2 ^ 64 ≤ 255
    · simp [h0, h1]
    · simp [h0, h1]
  · simp [h0]

theorem opPart_noSpecial (m : Mode) (e : Enc) (s : Nat) (us : Bool) (oa : Nat) (s' : Nat) (us' : Bool)
    (is : List WInstr) (h : opPart m e s us oa = .ok (s', us', is)) (op : Nat) :
    WInstr.special op ∉ is := by
  unfold opPart at h
  split at h
  · -- oa ≠ 0
    split at h
    · simp only [Out.bind_ok] at h
      split at h <;> simp only [Out.pure_eq, Out.ok.injEq, Prod.mk.injEq] at h <;>
        (obtain ⟨_, _, rfl⟩ := h; simp)
    · split at h
      · cases h
      · cases hs : subM m oa ((255 - opcodeBase) / e.lineRange) with
        | ok v =>
          simp only [hs, Out.bind_ok, Out.pure_eq] at h
          split at h <;> simp only [Out.ok.injEq, Prod.mk.injEq] at h <;>
            (obtain ⟨_, _, rfl⟩ := h; simp)
        | err x => simp [hs] at h
        | panic w => simp [hs] at h
        | diverge => simp [hs] at h
  · simp only [Out.pure_eq, Out.ok.injEq, Prod.mk.injEq] at h
    obtain ⟨_, _, rfl⟩ := h; simp

/-- debug builds: the two `debug_assert!`s make an out-of-range special opcode a panic -/
theorem finalPart_debug_range (e : Enc) (s : Nat) (us : Bool) (op : Nat)
    (h : finalPart .debug e s us = .ok (.special op)) : 13 ≤ op ∧ op ≤ 255 := by
  unfold finalPart at h
  split at h
  · split at h
    · cases h
    · split at h
      · cases h
      · rename_i h1 h2
        simp only [true_and, Nat.not_lt, Nat.not_lt, gt_iff_lt] at h1 h2
        unfold opcodeBase at h1
        simp only [Out.ok.injEq, WInstr.special.injEq] at h
        subst h
        have : s % 256 = s := Nat.mod_eq_of_lt (by omega)
        omega
  · cases h

theorem resetFieldInstrs_noSpecial (row : WRow) (op : Nat) : WInstr.special op ∉ resetFieldInstrs row := by
  unfold resetFieldInstrs
  by_cases c1 : row.discriminator ≠ 0 <;> cases row.basicBlock <;> cases row.prologueEnd <;>
    cases row.epilogueBegin <;> simp [c1]

theorem stickyFieldInstrs_noSpecial (prev row : WRow) (op : Nat) :
    WInstr.special op ∉ stickyFieldInstrs prev row := by
  unfold stickyFieldInstrs
  by_cases c1 : row.isStmt ≠ prev.isStmt <;> by_cases c2 : row.file ≠ prev.file <;>
    by_cases c3 : row.column ≠ prev.column <;> by_cases c4 : row.isa ≠ prev.isa <;> simp [c1, c2, c3, c4]

/-- a special opcode in the output of `advanceInstrs` is the one `finalPart` produced -/
theorem advanceInstrs_special_mem (m : Mode) (e : Enc) (la : Int) (oa : Nat) (is : List WInstr)
    (h : advanceInstrs m e la oa = .ok is) (op : Nat) (hm : WInstr.special op ∈ is) :
    ∃ s us ois, finalPart m e s us = .ok (.special op) ∧
      opPart m e (linePart e la).1 (linePart e la).2.1 oa = .ok (s, us, ois) := by
  unfold advanceInstrs at h
  cases hO : opPart m e (linePart e la).1 (linePart e la).2.1 oa with
  | ok v =>
    obtain ⟨s, us, ois⟩ := v
    simp only [hO, Out.bind_ok] at h
    cases hF : finalPart m e s us with
    | ok fin =>
      simp only [hF, Out.bind_ok, Out.pure_eq, Out.ok.injEq] at h
      subst h
      simp only [List.append_assoc, List.mem_append, List.mem_cons, List.not_mem_nil, or_false] at hm
      rcases hm with hm | hm | hm
      · exact absurd hm (linePart_noSpecial e la op)
      · exact absurd hm (opPart_noSpecial m e _ _ oa s us ois hO op)
      · subst hm
        exact ⟨s, us, ois, hF, rfl⟩
    | err x => simp [hF] at h
    | panic w => simp [hF] at h
    | diverge => simp [hF] at h
  | err x => simp [hO] at h
  | panic w => simp [hO] at h
  | diverge => simp [hO] at h

theorem lineAdvance_range (m : Mode) (a b : Nat) (la : Int) (h : lineAdvance m a b = .ok la) :
    -(2 ^ 63 : Int) ≤ la ∧ la < 2 ^ 63 := by
  unfold lineAdvance at h
  simp only at h
  split at h
  · simp only [Out.ok.injEq] at h; subst h; assumption
  · cases m with
    | debug => cases h
    | release =>
      simp only [Out.ok.injEq] at h
      subst h
      unfold wrapI64
      omega

/-- with any `LineEncoding` that `new` accepts, in any build mode, the special opcode pushed is in
13..255 -/
theorem advanceInstrs_special_range (m : Mode) (e : Enc) (la : Int) (oa : Nat) (is : List WInstr)
    (h1 : -128 ≤ e.lineBase) (h2 : e.lineBase ≤ 0) (hr : 0 < e.lineBase + e.lineRange)
    (hlr : e.lineRange ≤ 255) (hla : -(2 ^ 63 : Int) ≤ la ∧ la < 2 ^ 63)
    (h : advanceInstrs m e la oa = .ok is) (op : Nat) (hm : WInstr.special op ∈ is) :
    13 ≤ op ∧ op ≤ 255 := by
  obtain ⟨pl, lis, hL, hlo, hhi, hp255, _⟩ := linePart_spec e la h1 h2 hr hlr hla
  obtain ⟨po, us', ois, hO, hle, _⟩ :=
    opPart_spec m e (pl - e.lineBase).toNat (decide (pl ≠ 0)) oa (by omega) hp255
  obtain ⟨s, us, ois', hF, hO'⟩ := advanceInstrs_special_mem m e la oa is h op hm
  rw [hL] at hO'
  simp only at hO'
  rw [hO] at hO'
  simp only [Out.ok.injEq, Prod.mk.injEq] at hO'
  obtain ⟨hs, _, _⟩ := hO'
  subst hs
  unfold finalPart at hF
  split at hF
  · split at hF
    · cases hF
    · split at hF
      · cases hF
      · simp only [Out.ok.injEq, WInstr.special.injEq] at hF
        subst hF
        have : (13 + (pl - e.lineBase).toNat + po * e.lineRange) % 256 =
            13 + (pl - e.lineBase).toNat + po * e.lineRange := Nat.mod_eq_of_lt (by omega)
        omega
  · cases hF
/-! ## file and directory tables -/

theorem findIdx?_some {α : Type} (p : α → Bool) : ∀ (xs : List α) (i : Nat), findIdx? p xs = some i →
    ∃ x, xs[i]? = some x ∧ p x = true ∧ ∀ j y, j < i → xs[j]? = some y → p y = false := by
  intro xs
  induction xs with
  | nil => intro i h; simp [findIdx?] at h
  | cons x xs ih =>
    intro i h
    rw [findIdx?] at h
    by_cases hp : p x = true
    · simp only [hp, ↓reduceIte, Option.some.injEq] at h
      subst h
      exact ⟨x, rfl, hp, fun j y hj => by omega⟩
    · simp only [hp, Bool.false_eq_true, ↓reduceIte, Option.map_eq_some_iff] at h
      obtain ⟨k, hk, rfl⟩ := h
      obtain ⟨y, hy, hpy, hmin⟩ := ih k hk
      refine ⟨y, by simpa using hy, hpy, ?_⟩
      intro j z hj hz
      cases j with
      | zero => simp at hz; subst hz; simpa using hp
      | succ j => exact hmin j z (by omega) (by simpa using hz)

theorem findIdx?_none {α : Type} (p : α → Bool) : ∀ (xs : List α), findIdx? p xs = none →
    ∀ x ∈ xs, p x = false := by
  intro xs
  induction xs with
  | nil => intro _ x hx; simp at hx
  | cons x xs ih =>
    intro h y hy
    rw [findIdx?] at h
    by_cases hp : p x = true
    · simp [hp] at h
    · simp only [hp, Bool.false_eq_true, ↓reduceIte, Option.map_eq_none_iff] at h
      rcases List.mem_cons.mp hy with rfl | hy
      · simpa using hp
      · exact ih h y hy

theorem findIdx?_append_new {α : Type} (p : α → Bool) : ∀ (xs : List α) (y : α), findIdx? p xs = none →
    p y = true → findIdx? p (xs ++ [y]) = some xs.length := by
  intro xs
  induction xs with
  | nil => intro y _ hy; simp [findIdx?, hy]
  | cons x xs ih =>
    intro y h hy
    rw [findIdx?] at h
    by_cases hp : p x = true
    · simp [hp] at h
    · simp only [hp, Bool.false_eq_true, ↓reduceIte, Option.map_eq_none_iff] at h
      simp only [List.cons_append, findIdx?, hp, Bool.false_eq_true, ↓reduceIte, ih y h hy,
        Option.map_some, List.length_cons]

theorem findIdx?_append_old {α : Type} (p : α → Bool) : ∀ (xs ys : List α) (i : Nat),
    findIdx? p xs = some i → findIdx? p (xs ++ ys) = some i := by
  intro xs
  induction xs with
  | nil => intro ys i h; simp [findIdx?] at h
  | cons x xs ih =>
    intro ys i h
    rw [findIdx?] at h
    by_cases hp : p x = true
    · simp only [hp, ↓reduceIte, Option.some.injEq] at h
      subst h
      simp [findIdx?, hp]
    · simp only [hp, Bool.false_eq_true, ↓reduceIte, Option.map_eq_some_iff] at h
      obtain ⟨k, hk, rfl⟩ := h
      simp [findIdx?, hp, ih ys k hk]

/-- `setInfo` replaces the info of one entry and nothing else -/
theorem setInfo_get (fs : List FileEnt) : ∀ (i : Nat) (info : FileInfo) (j : Nat),
    (setInfo fs i info)[j]? = (fs[j]?).map (fun f => if j = i then { f with info := info } else f) := by
  induction fs with
  | nil => intro i info j; simp [setInfo]
  | cons f fs ih =>
    intro i info j
    cases i with
    | zero =>
      cases j with
      | zero => simp [setInfo]
      | succ j => simp [setInfo]
    | succ i =>
      cases j with
      | zero => simp [setInfo]
      | succ j => simp [setInfo, ih i info j]

theorem setInfo_length (fs : List FileEnt) : ∀ (i : Nat) (info : FileInfo),
    (setInfo fs i info).length = fs.length := by
  induction fs with
  | nil => intro i info; simp [setInfo]
  | cons f fs ih =>
    intro i info
    cases i with
    | zero => simp [setInfo]
    | succ i => simp [setInfo, ih i info]

/-- the `IndexMap` key test of `add_file` -/
def fkey (name : LineStr) (dir : Nat) : FileEnt → Bool := fun f => f.name == name && f.dir == dir

theorem fkey_iff (name : LineStr) (dir : Nat) (f : FileEnt) :
    fkey name dir f = true ↔ f.name = name ∧ f.dir = dir := by
  simp [fkey]

theorem findIdx?_setInfo (n : LineStr) (d : Nat) (fs : List FileEnt) : ∀ (i : Nat) (info : FileInfo),
    findIdx? (fkey n d) (setInfo fs i info) = findIdx? (fkey n d) fs := by
  induction fs with
  | nil => intro i info; simp [setInfo]
  | cons f fs ih =>
    intro i info
    cases i with
    | zero => simp [setInfo, findIdx?, fkey]
    | succ i => simp [setInfo, findIdx?, ih i info]

/-- the files after `add_file` found the key at `i` -/
def updInfo (fs : List FileEnt) (i : Nat) : Option FileInfo → List FileEnt
  | some x => setInfo fs i x
  | none => fs

theorem addFile_unfold (p : Prog) (name : LineStr) (dir : Nat) (info : Option FileInfo) (p1 : Prog) (i : Nat)
    (h : addFile p name dir info = .ok (p1, i)) :
    (findIdx? (fkey name dir) p.files = some i ∧
      p1 = { p with files := updInfo p.files i info }) ∨
    (findIdx? (fkey name dir) p.files = none ∧ i = p.files.length ∧
      p1 = { p with files := p.files ++ [{ name, dir, info := info.getD FileInfo.default }] }) := by
  unfold addFile at h
  split at h
  · cases h
  · split at h
    · cases h
    · have hk : (fun f : FileEnt => f.name == name && f.dir == dir) = fkey name dir := rfl
      rw [hk] at h
      cases hf : findIdx? (fkey name dir) p.files with
      | some k =>
        rw [hf] at h
        left
        cases info with
        | some x =>
          simp only [Out.ok.injEq, Prod.mk.injEq] at h
          obtain ⟨rfl, rfl⟩ := h
          exact ⟨rfl, rfl⟩
        | none =>
          simp only [Out.ok.injEq, Prod.mk.injEq] at h
          obtain ⟨rfl, rfl⟩ := h
          exact ⟨rfl, rfl⟩
      | none =>
        rw [hf] at h
        right
        simp only [Out.ok.injEq, Prod.mk.injEq] at h
        obtain ⟨rfl, rfl⟩ := h
        exact ⟨rfl, rfl, rfl⟩

/-- after `add_file`, the key is found at the returned id (and nowhere before it) -/
theorem addFile_find (p : Prog) (name : LineStr) (dir : Nat) (info : Option FileInfo) (p1 : Prog) (i : Nat)
    (h : addFile p name dir info = .ok (p1, i)) : findIdx? (fkey name dir) p1.files = some i := by
  rcases addFile_unfold p name dir info p1 i h with ⟨hf, hp⟩ | ⟨hf, hi, hp⟩
  · subst hp
    cases info with
    | some x => simp only [updInfo]; rw [findIdx?_setInfo]; exact hf
    | none => exact hf
  · subst hp hi
    exact findIdx?_append_new _ _ _ hf (by simp [fkey])

/-- `add_file` keeps every existing entry at its index with its key; only the info of the
returned entry can change -/
theorem addFile_preserves (p : Prog) (name : LineStr) (dir : Nat) (info : Option FileInfo) (p1 : Prog) (i : Nat)
    (h : addFile p name dir info = .ok (p1, i)) (j : Nat) (f : FileEnt) (hj : p.files[j]? = some f) :
    ∃ f', p1.files[j]? = some f' ∧ f'.name = f.name ∧ f'.dir = f.dir ∧ (j ≠ i → f' = f) := by
  rcases addFile_unfold p name dir info p1 i h with ⟨_, hp⟩ | ⟨_, _, hp⟩
  · subst hp
    cases info with
    | some x =>
      simp only [updInfo, setInfo_get, hj, Option.map_some]
      by_cases hji : j = i
      · exact ⟨_, rfl, by simp [hji], by simp [hji], fun hne => absurd hji hne⟩
      · exact ⟨_, rfl, by simp [hji], by simp [hji], fun _ => by simp [hji]⟩
    | none => exact ⟨f, hj, rfl, rfl, fun _ => rfl⟩
  · subst hp
    have hlt : j < p.files.length := by
      rcases Nat.lt_or_ge j p.files.length with h | h
      · exact h
      · rw [List.getElem?_eq_none h] at hj; cases hj
    exact ⟨f, by simp only; rw [List.getElem?_append_left hlt]; exact hj, rfl, rfl, fun _ => rfl⟩
/-! ## instruction bytes -/

theorem ofNat_toNat (n : Nat) (h : n < 256) : (UInt8.ofNat n).toNat = n := by
  simp [Nat.mod_eq_of_lt h]

/-- an extended opcode as the writer emits it: `0`, ULEB(1 + |payload|), sub-opcode, payload -/
theorem parse_extended_bytes (h : Params) (sub : Nat) (payload rest : Bytes) (hlen : payload.length + 1 < 2 ^ 64) :
    parseInstr h (0 :: (Leb.encodeU (1 + payload.length) ++ UInt8.ofNat sub :: payload) ++ rest) =
      match parseExtended h (UInt8.ofNat sub :: payload) with
      | .ok i => .ok (i, rest)
      | .err e => .err e
      | .panic w => .panic w
      | .diverge => .diverge := by
  have happ : (0 :: (Leb.encodeU (1 + payload.length) ++ UInt8.ofNat sub :: payload) ++ rest : Bytes) =
      0 :: (Leb.encodeU (1 + payload.length) ++ ((UInt8.ofNat sub :: payload) ++ rest)) := by simp
  rw [happ, parseInstr]
  simp only [UInt8.toNat_ofNat, Nat.zero_mod, ↓reduceIte]
  rw [Leb.unsigned_roundtrip _ (by omega)]
  simp only
  have ht : Ints.take (1 + payload.length) ((UInt8.ofNat sub :: payload) ++ rest) =
      .ok (UInt8.ofNat sub :: payload, rest) := by
    rw [Ints.take_ok _ _ (by simp; omega)]
    have hl : (UInt8.ofNat sub :: payload).length = 1 + payload.length := by simp; omega
    rw [List.take_left' hl, List.drop_left' hl]
  rw [ht]
  rfl


/-- the header parameters under which written instructions are parsed back -/
def WriterHeader (h : Params) : Prop :=
  h.opcodeBase = 13 ∧ (h.addrSize = 1 ∨ h.addrSize = 2 ∨ h.addrSize = 4 ∨ h.addrSize = 8)

/-- operands that fit the writer's own field types (`u8`, `u64`, `i64`, a constant address) -/
def WInstr.Encodable (version : Nat) : WInstr → Prop
  | .special op => 13 ≤ op ∧ op ≤ 255
  | .advancePc n => n < 2 ^ 64
  | .advanceLine i => -(2 ^ 63 : Int) ≤ i ∧ i < 2 ^ 63
  | .setFile index => fileRaw version index < 2 ^ 64
  | .setColumn n => n < 2 ^ 64
  | .setIsa n => n < 2 ^ 64
  | .setDiscriminator n => n < 2 ^ 64
  | .setAddress (some a) => a < 2 ^ 64
  | _ => True

theorem instr_bytes_roundtrip_aux (h : Params) (hh : WriterHeader h) (i : WInstr)
    (henc : i.Encodable h.version)
    (hsig : ∀ v rest, i = .advanceLine v → Leb.signed (Leb.encodeS v ++ rest) = .ok (v, rest))
    (bs : Bytes) (hw : writeInstr h.endian h.version h.addrSize i = .ok bs) (rest : Bytes) :
    parseInstr h (bs ++ rest) = .ok (i.toInstr h.version, rest) := by
  obtain ⟨hob, hasz⟩ := hh
  cases i with
  | special op =>
    simp only [WInstr.Encodable] at henc
    simp only [writeInstr, Out.ok.injEq] at hw
    subst hw
    simp only [List.cons_append, List.nil_append, parseInstr, ofNat_toNat op (by omega), hob,
      WInstr.toInstr]
    rw [if_neg (by omega), if_pos (by omega)]
  | copy =>
    simp only [writeInstr, Out.ok.injEq] at hw
    subst hw
    simp [parseInstr, hob, parseStandard, WInstr.toInstr]
  | advancePc n =>
    simp only [WInstr.Encodable] at henc
    simp only [writeInstr, Out.ok.injEq] at hw
    subst hw
    simp [parseInstr, hob, parseStandard, WInstr.toInstr, Leb.unsigned_roundtrip n henc, mapRead]
  | advanceLine v =>
    simp only [writeInstr, Out.ok.injEq] at hw
    subst hw
    simp [parseInstr, hob, parseStandard, WInstr.toInstr, hsig v rest rfl, mapRead]
  | setFile index =>
    simp only [WInstr.Encodable] at henc
    simp only [writeInstr, Out.ok.injEq] at hw
    subst hw
    simp [parseInstr, hob, parseStandard, WInstr.toInstr, Leb.unsigned_roundtrip _ henc, mapRead]
  | setColumn n =>
    simp only [WInstr.Encodable] at henc
    simp only [writeInstr, Out.ok.injEq] at hw
    subst hw
    simp [parseInstr, hob, parseStandard, WInstr.toInstr, Leb.unsigned_roundtrip n henc, mapRead]
  | negateStatement =>
    simp only [writeInstr, Out.ok.injEq] at hw
    subst hw
    simp [parseInstr, hob, parseStandard, WInstr.toInstr]
  | setBasicBlock =>
    simp only [writeInstr, Out.ok.injEq] at hw
    subst hw
    simp [parseInstr, hob, parseStandard, WInstr.toInstr]
  | constAddPc =>
    simp only [writeInstr, Out.ok.injEq] at hw
    subst hw
    simp [parseInstr, hob, parseStandard, WInstr.toInstr]
  | setPrologueEnd =>
    simp only [writeInstr, Out.ok.injEq] at hw
    subst hw
    simp [parseInstr, hob, parseStandard, WInstr.toInstr]
  | setEpilogueBegin =>
    simp only [writeInstr, Out.ok.injEq] at hw
    subst hw
    simp [parseInstr, hob, parseStandard, WInstr.toInstr]
  | setIsa n =>
    simp only [WInstr.Encodable] at henc
    simp only [writeInstr, Out.ok.injEq] at hw
    subst hw
    simp [parseInstr, hob, parseStandard, WInstr.toInstr, Leb.unsigned_roundtrip n henc, mapRead]
  | endSequence =>
    simp only [writeInstr, Out.ok.injEq] at hw
    subst hw
    have := parse_extended_bytes h 1 [] rest (by simp)
    simp only [List.length_nil, Nat.add_zero] at this
    have e1 : (UInt8.ofNat 1 : UInt8) = 1 := rfl
    rw [e1] at this
    rw [this]
    simp [parseExtended, WInstr.toInstr]
  | setAddress a =>
    cases a with
    | none => simp [writeInstr] at hw
    | some a =>
      simp only [writeInstr] at hw
      cases hu : Ints.writeUdata h.endian a h.addrSize with
      | ok ab =>
        simp only [hu, Out.bind_ok, Out.pure_eq, Out.ok.injEq] at hw
        subst hw
        simp only [WInstr.Encodable] at henc
        obtain ⟨hlen, hrd⟩ := Ints.writeUdata_roundtrip h.endian a h.addrSize ab [] hu henc
        rw [List.append_nil] at hrd
        have := parse_extended_bytes h 2 ab rest (by omega)
        have e2 : (UInt8.ofNat 2 : UInt8) = 2 := rfl
        rw [e2, hlen] at this
        rw [this]
        have hra : Ints.readAddress h.endian h.addrSize ab = .ok (a, []) := by
          unfold Ints.readAddress
          rw [if_pos hasz]; exact hrd
        simp [parseExtended, hra, WInstr.toInstr]
      | err e => simp [hu] at hw
      | panic w => simp [hu] at hw
      | diverge => simp [hu] at hw
  | setDiscriminator n =>
    simp only [WInstr.Encodable] at henc
    simp only [writeInstr, Out.ok.injEq] at hw
    subst hw
    have hlen := (Leb.encodeU_spec n henc).2.2.1
    have := parse_extended_bytes h 4 (Leb.encodeU n) rest (by omega)
    have e4 : (UInt8.ofNat 4 : UInt8) = 4 := rfl
    rw [e4] at this
    rw [this]
    have hrt := Leb.unsigned_roundtrip n henc []
    rw [List.append_nil] at hrt
    simp [parseExtended, hrt, WInstr.toInstr]

theorem writeInstr_nonempty (en : Endian) (version addrSize : Nat) (i : WInstr) (bs : Bytes)
    (h : writeInstr en version addrSize i = .ok bs) : 1 ≤ bs.length := by
  cases i <;> simp only [writeInstr, Out.ok.injEq] at h <;> try (subst h; simp)
  rename_i a
  cases a with
  | none => simp at h
  | some a =>
    simp only at h
    cases hu : Ints.writeUdata en a addrSize with
    | ok ab => simp only [hu, Out.bind_ok, Out.pure_eq, Out.ok.injEq] at h; subst h; simp
    | err e => simp [hu] at h
    | panic w => simp [hu] at h
    | diverge => simp [hu] at h

/-- a whole instruction list: what `LineInstructions::next_instruction` decodes from the written
bytes is the list that was written -/
theorem writeInstrs_decodeAll (h : Params) (hh : WriterHeader h) : ∀ (is : List WInstr)
    (_henc : ∀ i ∈ is, i.Encodable h.version)
    (_hsig : ∀ v rest, WInstr.advanceLine v ∈ is → Leb.signed (Leb.encodeS v ++ rest) = .ok (v, rest))
    (bs : Bytes) (_hw : writeInstrs h.endian h.version h.addrSize is = .ok bs) (fuel : Nat)
    (_hf : bs.length < fuel),
    decodeAll h fuel bs = .ok (is.map (WInstr.toInstr h.version)) := by
  intro is
  induction is with
  | nil =>
    intro _ _ bs hw fuel hf
    simp only [writeInstrs, Out.ok.injEq] at hw
    subst hw
    cases fuel with
    | zero => omega
    | succ f => simp [decodeAll]
  | cons i is ih =>
    intro henc hsig bs hw fuel hf
    rw [writeInstrs] at hw
    cases hb : writeInstr h.endian h.version h.addrSize i with
    | ok b =>
      cases hbs : writeInstrs h.endian h.version h.addrSize is with
      | ok bs' =>
        simp only [hb, hbs, Out.bind_ok, Out.pure_eq, Out.ok.injEq] at hw
        subst hw
        have hp := instr_bytes_roundtrip_aux h hh i (henc i (by simp))
          (fun v rest hv => hsig v rest (by rw [hv]; simp)) b hb bs'
        have hne := writeInstr_nonempty _ _ _ i b hb
        cases fuel with
        | zero => omega
        | succ f =>
          rw [decodeAll]
          have hemp : (b ++ bs').isEmpty = false := by
            cases b with
            | nil => simp at hne
            | cons => rfl
          simp only [hemp, Bool.false_eq_true, ↓reduceIte, hp]
          rw [ih (fun j hj => henc j (by simp [hj])) (fun v rest hv => hsig v rest (by simp [hv])) bs' hbs f
            (by simp at hf; omega)]
          rfl
      | err e => simp [hb, hbs] at hw
      | panic w => simp [hb, hbs] at hw
      | diverge => simp [hb, hbs] at hw
    | err e => simp [hb] at hw
    | panic w => simp [hb] at hw
    | diverge => simp [hb] at hw
end Gimli.WLine
