import Gimli.Lemmas.WOpExpr
import Gimli.Lemmas.WOpEvalAux
/-!
# C15: one step of the evaluator on emitted bytes = executing the operation as built
-/
set_option linter.unusedSimpArgs false
namespace Gimli.WOp
open Gimli.Op (Encoding)
open Gimli.Eval

section
variable (e : Endian) (enc : Encoding) (uo : UnitOffs) (hasRefs : Bool)

theorem simpleImage_not_branch (opc : Nat) (img : Op.Operation) (h : simpleImage opc = some img) :
    (∀ t, img ≠ .skip t) ∧ (∀ t, img ≠ .bra t) := by
  unfold simpleImage at h
  split at h <;> first | (simp only [Option.some.injEq] at h; subst h; exact ⟨fun _ => nofun, fun _ => nofun⟩) | (simp at h)

theorem opImage_not_branch (offsets : List Nat) (pos : Nat) (op : Operation) (img : Op.Operation)
    (h : opImage e enc uo hasRefs offsets pos op = some img) (hnb : ∀ t, ¬ isBranchTo op t) :
    (∀ t, img ≠ .skip t) ∧ (∀ t, img ≠ .bra t) := by
  unfold opImage at h
  cases op
  case skip t => exact absurd (Or.inl rfl) (hnb t)
  case branch t => exact absurd (Or.inr rfl) (hnb t)
  case simple opc => exact simpleImage_not_branch opc img (by simpa [image] using h)
  case address a =>
    cases a <;> simp [image] at h
    subst h; exact ⟨fun _ => nofun, fun _ => nofun⟩
  case convert b =>
    cases b <;> simp [image] at h
    · subst h; exact ⟨fun _ => nofun, fun _ => nofun⟩
    · obtain ⟨_, _, h⟩ := h; subst h; exact ⟨fun _ => nofun, fun _ => nofun⟩
  case reinterpret b =>
    cases b <;> simp [image] at h
    · subst h; exact ⟨fun _ => nofun, fun _ => nofun⟩
    · obtain ⟨_, _, h⟩ := h; subst h; exact ⟨fun _ => nofun, fun _ => nofun⟩
  all_goals
    first
      | (simp [image] at h; done)
      | (simp [image] at h; subst h; exact ⟨fun _ => nofun, fun _ => nofun⟩)
      | (simp [image] at h; obtain ⟨_, _, h⟩ := h; subst h; exact ⟨fun _ => nofun, fun _ => nofun⟩)

/-- the bytes of `ops.drop k` inside the emitted expression: `bs` without what the first `k`
operations emitted -/
theorem tail_of_split (pre suf : List Operation) (pos : Nat) (bs : Bytes) (fx : List Fixup) (offs : List Nat)
    (ho : exprOffsets enc uo (pre ++ suf) pos = .ok offs)
    (hw : exprWriteOps e enc uo hasRefs offs pos (pre ++ suf) = .ok (bs, fx)) :
    ∃ b1 f1 b2 f2, exprWriteOps e enc uo hasRefs offs pos pre = .ok (b1, f1) ∧
      exprWriteOps e enc uo hasRefs offs (pos + b1.length) suf = .ok (b2, f2) ∧
      bs = b1 ++ b2 ∧ bs.drop b1.length = b2 := by
  obtain ⟨b1, f1, b2, f2, h1, h2, hb, _, _⟩ := exprWrite_at_offsets e enc uo hasRefs pre suf pos bs fx offs ho hw
  exact ⟨b1, f1, b2, f2, h1, h2, hb, by rw [hb, List.drop_left' rfl]⟩

/-- **One evaluation step on emitted bytes = executing the operation as built.** -/
theorem eval_step_aux (c : Config) (hce : c.endian = e) (hcenc : c.encoding = enc)
    (pre suf : List Operation) (op : Operation) (pos : Nat) (bs : Bytes) (fx : List Fixup)
    (hoffs : ∀ f, uo = some f → ∀ en o, f en = some o → o < 2 ^ 64)
    (hL : bs.length < 2 ^ 64) (hwf : OpWf op)
    (hw : exprWrite e enc uo hasRefs pos (pre ++ op :: suf) = .ok (bs, fx)) :
    ∃ (offs : List Nat) (b1 : Bytes) (f1 : List Fixup) (bo : Bytes) (fo : List Fixup) (img : Op.Operation),
      exprOffsets enc uo (pre ++ op :: suf) pos = .ok offs ∧
      exprWriteOps e enc uo hasRefs offs pos pre = .ok (b1, f1) ∧
      opWrite e enc uo hasRefs offs (pos + b1.length) op = .ok (bo, fo) ∧
      opImage e enc uo hasRefs offs (pos + b1.length) op = some img ∧
      ∀ m : Mach, m.bytecode = bs → m.pc = bs.drop b1.length →
        -- decode + execute on the bytes = execute of the image, continuing after the operation
        evaluateOneOperation c m = execute c img { m with pc := bs.drop (b1.length + bo.length) } ∧
        -- and afterwards the reader is again at the start of an operation as built (or at the end)
        ∀ r m', evaluateOneOperation c m = .ok (r, m') →
          m'.bytecode = bs ∧
          ∃ j bj fj, j ≤ (pre ++ op :: suf).length ∧
            exprWriteOps e enc uo hasRefs offs pos ((pre ++ op :: suf).take j) = .ok (bj, fj) ∧
            m'.pc = bs.drop bj.length := by
  have hw0 := hw
  simp only [exprWrite, bind_eq_ok] at hw
  obtain ⟨offs, ho, hw⟩ := hw
  obtain ⟨b1, f1, b2, f2, h1, h2, hbs, hd1⟩ := tail_of_split e enc uo hasRefs pre (op :: suf) pos bs fx offs ho hw
  simp only [exprWriteOps, bind_eq_ok, Out.pure_eq, Out.ok.injEq, Prod.mk.injEq, Prod.exists] at h2
  obtain ⟨bo, fo, hop, b3, f3, h3, hb2, _⟩ := h2
  have hlo : bo.length < 2 ^ 64 := by
    rw [hbs, ← hb2] at hL; simp at hL; omega
  obtain ⟨img, himg, hparse⟩ := opWrite_decode e enc uo hasRefs op offs (pos + b1.length) bo fo b3 hoffs hlo hop hwf
  refine ⟨offs, b1, f1, bo, fo, img, ho, h1, hop, himg, ?_⟩
  intro m hmb hmpc
  have hd2 : bs.drop (b1.length + bo.length) = b3 := by
    rw [hbs, ← hb2, ← List.append_assoc]
    exact List.drop_left' (by simp)
  have hstep : evaluateOneOperation c m = execute c img { m with pc := bs.drop (b1.length + bo.length) } := by
    unfold evaluateOneOperation
    rw [hmpc, hd1, ← hb2, hce, hcenc, hparse, hd2]
    rfl
  refine ⟨hstep, ?_⟩
  intro r m' hr
  rw [hstep] at hr
  -- the "next operation" boundary: pre ++ [op]
  have hnext : ∃ bj fj, exprWriteOps e enc uo hasRefs offs pos ((pre ++ op :: suf).take (pre.length + 1)) = .ok (bj, fj) ∧
      bs.drop (b1.length + bo.length) = bs.drop bj.length := by
    have : (pre ++ op :: suf).take (pre.length + 1) = pre ++ [op] := by
      rw [show pre ++ op :: suf = (pre ++ [op]) ++ suf by simp]
      exact List.take_left' (by simp)
    rw [this]
    refine ⟨b1 ++ bo, f1 ++ fo, ?_, by simp⟩
    rw [exprWriteOps_append]
    refine ⟨b1, f1, bo, fo, h1, ?_, rfl, rfl⟩
    simp [exprWriteOps, hop]
  by_cases hbr : ∃ t, isBranchTo op t
  · -- a branch: either not taken (next operation) or `compute_pc` lands on operation `t`
    obtain ⟨t, hbt⟩ := hbr
    obtain ⟨htle, offs', b1', f1', d, after, bt, ft, btail, ftail, ho', h1', hp', ht1, ht2, hbs2, hcp⟩ :=
      branch_lands_aux e enc uo hasRefs pre suf op t hbt pos bs fx hL hw0
    rw [ho] at ho'
    simp only [Out.ok.injEq] at ho'
    subst ho'
    rw [h1] at h1'
    simp only [Out.ok.injEq, Prod.mk.injEq] at h1'
    obtain ⟨rfl, rfl⟩ := h1'
    -- the image is the decoded branch
    have himg' : img = branchImage op d ∧ after = b3 := by
      rw [hd1, ← hb2, hparse] at hp'
      simp only [Out.ok.injEq, Prod.mk.injEq] at hp'
      exact ⟨hp'.1, hp'.2.symm⟩
    obtain ⟨rfl, rfl⟩ := himg'
    have htgt : bs.drop bt.length = btail := by rw [hbs2, List.drop_left' rfl]
    rcases hbt with rfl | rfl
    · -- skip
      simp only [branchImage, execute, hd2] at hr
      rw [hmb, hcp] at hr
      simp only [Out.bind_ok, Out.pure_eq, Out.ok.injEq, Prod.mk.injEq] at hr
      rw [← hr.2]
      exact ⟨rfl, t, bt, ft, htle, ht1, htgt.symm⟩
    · -- bra
      simp only [branchImage, execute, hd2, bind_eq_ok, Prod.exists] at hr
      obtain ⟨entry, m2, hpop, v, hv, hr⟩ := hr
      have hs2 := (pop_keeps _ _ (same_refl _)).out _ _ hpop
      obtain ⟨hpc2, hbc2, _⟩ := hs2
      simp only at hpc2 hbc2
      split at hr
      · rw [hpc2, hbc2, hmb, hcp] at hr
        simp only [Out.bind_ok, Out.pure_eq, Out.ok.injEq, Prod.mk.injEq] at hr
        rw [← hr.2]
        exact ⟨rfl, t, bt, ft, htle, ht1, htgt.symm⟩
      · simp only [Out.pure_eq, Out.ok.injEq, Prod.mk.injEq] at hr
        rw [← hr.2]
        obtain ⟨bj, fj, hj, hdj⟩ := hnext
        exact ⟨by rw [hbc2, hmb], pre.length + 1, bj, fj, by simp, hj, by rw [hpc2, ← hd2, hdj]⟩
  · -- any other operation leaves the reader where it is
    have hnb : ∀ t, ¬ isBranchTo op t := fun t ht => hbr ⟨t, ht⟩
    obtain ⟨hns, hnbr⟩ := opImage_not_branch e enc uo hasRefs offs _ op img himg hnb
    have hk := (execute_keeps c img _ hns hnbr).out _ _ hr
    obtain ⟨hpc, hbc, _⟩ := hk
    simp only at hpc hbc
    obtain ⟨bj, fj, hj, hdj⟩ := hnext
    exact ⟨by rw [hbc, hmb], pre.length + 1, bj, fj, by simp, hj, by rw [hpc, hdj]⟩
end
end Gimli.WOp
