import Gimli.Lemmas.C17NormalNames
import Gimli.Lemmas.Package
/-! Totality lemmas for the package-index, indexed-table and form-resolution Models. -/
namespace Gimli.C17
open Gimli Gimli.Ints Gimli.Index

theorem kindOf_normal (v n : Nat) : (kindOf v n).Normal := by
  unfold kindOf kindV2 kindV5
  split <;> repeat' split
  all_goals simp [Out.Normal]

theorem readKinds_normal (e : Endian) (v n : Nat) (bs : Bytes) : (readKinds e v n bs).Normal := by
  induction n generalizing bs with
  | zero => exact normal_ok _
  | succ n ih =>
    rw [readKinds]
    refine normal_bind (readFixed_normal e 4 bs) (fun p _ => ?_)
    obtain ⟨s, r⟩ := p
    refine normal_bind (kindOf_normal v s) (fun k _ => ?_)
    exact normal_bind (ih r) (fun _ _ => normal_pure _)

theorem parseVersion_normal (e : Endian) (input : Bytes) : (parseVersion e input).Normal := by
  unfold parseVersion
  refine normal_bind (readFixed_normal e 4 input) (fun p _ => ?_)
  obtain ⟨v, r⟩ := p
  simp only
  split
  · exact normal_pure _
  · refine normal_bind (readFixed_normal e 2 input) (fun p _ => ?_)
    split
    · exact normal_err _
    · exact normal_pure _

theorem ix_parse_normal (e : Endian) (input : Bytes) : (Index.parse e input).Normal := by
  unfold Index.parse
  split
  · exact normal_ok _
  refine normal_bind (parseVersion_normal e input) (fun p _ => ?_)
  obtain ⟨ver, r0⟩ := p
  refine normal_bind (readFixed_normal e 4 _) (fun p _ => ?_)
  refine normal_bind (readFixed_normal e 4 _) (fun p _ => ?_)
  refine normal_bind (readFixed_normal e 4 _) (fun p _ => ?_)
  simp only
  split
  · exact normal_err _
  refine normal_bind (take_normal _ _) (fun p _ => ?_)
  refine normal_bind (take_normal _ _) (fun p _ => ?_)
  split
  · exact normal_err _
  refine normal_bind (readKinds_normal e _ _ _) (fun p _ => ?_)
  refine normal_bind (take_normal _ _) (fun p _ => ?_)
  refine normal_bind (take_normal _ _) (fun p _ => ?_)
  exact normal_pure _

theorem ix_sections_normal (e : Endian) (ix : UnitIndex) (row : Nat) : (Index.sections e ix row).Normal := by
  unfold Index.sections
  split
  · exact normal_err _
  · simp only
    split
    · exact normal_err _
    · split
      · exact normal_err _
      · exact normal_ok _

theorem sectionIter_length (e : Endian) (ks : List SecKind) (o s : Bytes) :
    (sectionIter e ks o s).length ≤ ks.length := by
  induction ks generalizing o s with
  | nil => simp [sectionIter]
  | cons k ks ih =>
    rw [sectionIter]
    cases h1 : readFixed e 4 o with
    | ok p1 =>
      obtain ⟨ov, o'⟩ := p1
      cases h2 : readFixed e 4 s with
      | ok p2 =>
        obtain ⟨sv, s'⟩ := p2
        simp only [List.length_cons]; have := ih o' s'; omega
      | err x => simp
      | panic w => simp
      | diverge => simp
    | err x => simp
    | panic w => simp
    | diverge => simp

theorem dwpRange_normal (d : Bytes) (o s : Nat) : (dwpRange d o s).Normal := by
  unfold dwpRange
  split
  · exact normal_err _
  · simp only; split
    · exact normal_err _
    · exact normal_ok _

theorem packageSlices_normal (pkg : SecKind → Bytes) (cols : List (SecKind × Nat × Nat)) (ks : List SecKind) :
    (packageSlices pkg cols ks).Normal := by
  induction ks with
  | nil => exact normal_ok _
  | cons k ks ih =>
    rw [packageSlices]
    refine normal_bind (dwpRange_normal _ _ _) (fun _ _ => ?_)
    exact normal_bind ih (fun _ _ => normal_pure _)

theorem findUnit_normal (e : Endian) (ix : UnitIndex) (pkg : SecKind → Bytes) (id : Nat) :
    (findUnit e ix pkg id).Normal := by
  unfold findUnit
  split
  · exact normal_ok _
  · refine normal_bind (ix_sections_normal e ix _) (fun _ _ => ?_)
    exact normal_bind (packageSlices_normal _ _ _) (fun _ _ => normal_pure _)

open Gimli.Indexed in
theorem getStrOffset_normal (e : Endian) (f : Format) (sec : Bytes) (base index : Nat) :
    (getStrOffset e f sec base index).Normal := by
  unfold getStrOffset
  refine normal_bind (skipTo_normal _ _) (fun r _ => ?_)
  split
  · exact normal_err _
  · refine normal_bind (skipTo_normal _ _) (fun r2 _ => ?_)
    exact normal_bind (readWord_normal e f r2) (fun _ _ => normal_pure _)

open Gimli.Indexed in
theorem getAddress_normal (e : Endian) (sz : Nat) (sec : Bytes) (base index : Nat) :
    (getAddress e sz sec base index).Normal := by
  unfold getAddress
  refine normal_bind (skipTo_normal _ _) (fun r _ => ?_)
  split
  · exact normal_err _
  · refine normal_bind (skipTo_normal _ _) (fun r2 _ => ?_)
    exact normal_bind (readAddress_normal e sz r2) (fun _ _ => normal_pure _)

open Gimli.Indexed in
theorem attrString_normal (c : Ctx) (a : AttrVal) : (attrString c a).Normal := by
  cases a <;> simp only [attrString]
  · exact normal_ok _
  · exact getStr_normal _ _
  · cases c.supDebugStr <;> simp only
    · exact normal_err _
    · exact getStr_normal _ _
  · exact getStr_normal _ _
  · exact normal_bind (getStrOffset_normal _ _ _ _ _) (fun _ _ => getStr_normal _ _)
  all_goals exact normal_err _

open Gimli.Indexed in
theorem attrAddress_normal (c : Ctx) (a : AttrVal) : (attrAddress c a).Normal := by
  cases a <;> simp only [attrAddress]
  case debugAddrIndex i => exact map_normal _ _ (getAddress_normal _ _ _ _ _)
  all_goals exact normal_ok _
end Gimli.C17
