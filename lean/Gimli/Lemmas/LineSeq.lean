import Gimli.Lemmas.LineDecode
/-! Lemmas for C04's sequence clause: `sequences()` + `resume_from()` against the straight run. -/
namespace Gimli.Line
open Gimli Gimli.Spec Gimli.Spec.Line

/-- visible part of a trace -/
abbrev vis (evs : List Ev) : List Ev := evs.filter Ev.visible

/-- running `pre` from the initial registers consumes it exactly, produces `P`, and leaves the
machine in state `(row, inSeq)` — whatever follows -/
def Reach (h : Params) (pre : Bytes) (row : Row) (inSeq : Bool) (P : List Ev) : Prop :=
  ∀ X, traceLoop h ((pre ++ X).length + 1) (Row.new h) false (pre ++ X) =
    P ++ traceLoop h (X.length + 1) row inSeq X

theorem Reach.nil (h : Params) : Reach h [] (Row.new h) false [] := by
  intro X; simp

/-- the events and the next state produced by one executed instruction -/
def stepEv (h : Params) (row : Row) (inSeq : Bool) (ins : Instr) : List Ev × Row × Bool :=
  match execute h row ins with
  | (row, .err e) => ([.err e], reset h row, inSeq)
  | (row, .noEmit) => ([], row, inSeq)
  | (row, .emit) =>
    if skipRow row inSeq then ([.hidden row], reset h row, inSeq)
    else ([.row row], reset h row, !row.endSequence)

theorem traceLoop_stepEv (h : Params) (row : Row) (inSeq : Bool) (input : Bytes) (ins : Instr) (rest : Bytes)
    (hp : parseInstr h input = .ok (ins, rest)) :
    traceLoop h (input.length + 1) row inSeq input =
      (stepEv h row inSeq ins).1 ++
        traceLoop h (rest.length + 1) (stepEv h row inSeq ins).2.1 (stepEv h row inSeq ins).2.2 rest := by
  rw [traceLoop_step h row inSeq input ins rest hp]
  unfold stepEv
  cases hex : execute h row ins with
  | mk r e =>
    cases e with
    | emit => simp only; split <;> simp
    | noEmit => simp
    | err e => simp

theorem Reach.step (h : Params) (pre : Bytes) (row : Row) (inSeq : Bool) (P : List Ev)
    (hr : Reach h pre row inSeq P)
    (c : Bytes) (ins : Instr) (hloc : ∀ X, parseInstr h (c ++ X) = .ok (ins, X)) :
    Reach h (pre ++ c) (stepEv h row inSeq ins).2.1 (stepEv h row inSeq ins).2.2
      (P ++ (stepEv h row inSeq ins).1) := by
  intro X
  have h1 := hr (c ++ X)
  rw [List.append_assoc, h1, traceLoop_stepEv h row inSeq (c ++ X) ins X (hloc X), List.append_assoc]

theorem stepEv_err (h : Params) (row row' : Row) (inSeq : Bool) (ins : Instr) (e : Err)
    (hex : execute h row ins = (row', .err e)) :
    stepEv h row inSeq ins = ([.err e], reset h row', inSeq) := by
  unfold stepEv; rw [hex]

theorem stepEv_noEmit (h : Params) (row row' : Row) (inSeq : Bool) (ins : Instr)
    (hex : execute h row ins = (row', .noEmit)) : stepEv h row inSeq ins = ([], row', inSeq) := by
  unfold stepEv; rw [hex]

theorem stepEv_hidden (h : Params) (row row' : Row) (inSeq : Bool) (ins : Instr)
    (hex : execute h row ins = (row', .emit)) (ht : skipRow row' inSeq = true) :
    stepEv h row inSeq ins = ([.hidden row'], reset h row', inSeq) := by
  unfold stepEv; rw [hex]; simp [ht]

theorem stepEv_row (h : Params) (row row' : Row) (inSeq : Bool) (ins : Instr)
    (hex : execute h row ins = (row', .emit)) (ht : ¬ skipRow row' inSeq = true) :
    stepEv h row inSeq ins = ([.row row'], reset h row', !row'.endSequence) := by
  unfold stepEv; rw [hex]; simp [ht]

theorem take_prefix (a b : Bytes) : (a ++ b).take ((a ++ b).length - b.length) = a := by
  have : (a ++ b).length - b.length = a.length := by simp
  rw [this]; simp

theorem resume_of_reach (h : Params) (pre : Bytes) (row : Row) (inSeq : Bool) (P : List Ev)
    (hr : Reach h pre row inSeq P) (s : Seq) (hs : s.instructions = pre) : resume h s = vis P := by
  unfold resume run trace
  rw [hs, reset_new]
  have := hr []
  simp only [List.append_nil] at this
  rw [this]
  simp [traceLoop]

theorem seqLoop_spec (h : Params) : ∀ (fuel : Nat) (row : Row) (inSeq : Bool) (input pre : Bytes) (P : List Ev)
    (cur : List Row) (acc res : List Seq),
    input.length < fuel → Reach h pre row inSeq P → vis P = cur.map Ev.row →
    (∀ r ∈ cur, r.endSequence = false) →
    seqLoop h fuel row inSeq input (pre ++ input) (cur.head?.map (·.address)) acc = .ok res →
    ∃ (news : List Seq) (tail : List Row), res = acc.reverse ++ news ∧
      cur.map Ev.row ++ vis (traceLoop h (input.length + 1) row inSeq input) =
        news.flatMap (resume h) ++ tail.map Ev.row ∧
      (∀ r ∈ tail, r.endSequence = false) ∧ ∀ s ∈ news, SeqOk h s := by
  intro fuel
  induction fuel with
  | zero => intro row inSeq input pre P cur acc res hl; omega
  | succ fuel ih =>
    intro row inSeq input pre P cur acc res hl hreach hvis hcur hs
    rw [seqLoop] at hs
    split at hs
    · -- end of input
      rename_i hempty
      have : input = [] := List.isEmpty_iff.mp hempty
      subst this
      simp only [Out.ok.injEq] at hs
      refine ⟨[], cur, by simp [hs], by simp [traceLoop], hcur, by simp⟩
    · cases hp : parseInstr h input with
      | err e => rw [hp] at hs; simp at hs
      | panic w => rw [hp] at hs; simp at hs
      | diverge => rw [hp] at hs; simp at hs
      | ok p =>
        obtain ⟨ins, rest⟩ := p
        rw [hp] at hs
        simp only at hs
        obtain ⟨c, hinput, _, hloc⟩ := parseInstr_local h input ins rest hp
        have hc := parseInstr_consumes h input ins rest hp
        have hstep := traceLoop_stepEv h row inSeq input ins rest hp
        have hreach' := Reach.step h pre row inSeq P hreach c ins hloc
        subst hinput
        rw [← List.append_assoc] at hs
        cases hex : execute h row ins with
        | mk row' e =>
          rw [hex] at hs
          cases e with
          | err e => simp at hs
          | noEmit =>
            simp only at hs
            rw [stepEv_noEmit h row row' inSeq ins hex] at hreach' hstep
            simp only [List.append_nil, List.nil_append] at hreach' hstep
            obtain ⟨news, tail, h1, h2, h3, h4⟩ := ih row' inSeq rest (pre ++ c) P cur acc res (by omega) hreach' hvis hcur hs
            exact ⟨news, tail, h1, by rw [hstep]; exact h2, h3, h4⟩
          | emit =>
            simp only at hs
            by_cases htomb : skipRow row' inSeq = true
            · simp only [htomb, ↓reduceIte] at hs
              rw [stepEv_hidden h row row' inSeq ins hex htomb] at hreach' hstep
              simp only at hreach' hstep
              obtain ⟨news, tail, h1, h2, h3, h4⟩ := ih (reset h row') inSeq rest (pre ++ c) (P ++ [.hidden row']) cur acc res
                (by omega) hreach' (by simp [vis, List.filter_append, Ev.visible]; exact hvis) hcur hs
              refine ⟨news, tail, h1, ?_, h3, h4⟩
              rw [hstep]
              simp only [vis, List.filter_append, List.filter, Ev.visible, List.nil_append] at h2 ⊢
              exact h2
            · simp only [htomb, Bool.false_eq_true, ↓reduceIte] at hs
              rw [stepEv_row h row row' inSeq ins hex htomb] at hreach' hstep
              simp only at hreach' hstep
              by_cases hend : row'.endSequence = true
              · -- a sequence ends here
                simp only [hend, ↓reduceIte] at hs
                rw [take_prefix] at hs
                have hnew : reset h row' = Row.new h := by simp [reset, hend]
                rw [hnew] at hs hstep
                simp only [hend, Bool.not_true] at hstep
                obtain ⟨news, tail, h1, h2, h3, h4⟩ := ih (Row.new h) false rest [] [] [] _ res (by omega)
                  (Reach.nil h) (by simp [vis]) (by simp) (by simpa using hs)
                refine ⟨{ start := (cur.head?.map (·.address)).getD row'.address, «end» := row'.address,
                          instructions := pre ++ c } :: news, tail, by rw [h1]; simp, ?_, h3, ?_⟩
                · rw [hstep]
                  simp only [List.flatMap_cons]
                  rw [resume_of_reach h (pre ++ c) _ _ _ hreach' _ rfl]
                  simp only [vis, List.filter_append, List.filter, Ev.visible, List.map_nil, List.nil_append] at h2 hvis ⊢
                  rw [hvis, h2]
                  simp
                · intro s hs'
                  rcases List.mem_cons.mp hs' with rfl | hs'
                  · refine ⟨cur, row', ?_, hend, hcur, rfl, ?_⟩
                    · rw [resume_of_reach h (pre ++ c) _ _ _ hreach' _ rfl]
                      simp only [vis, List.filter_append, List.filter, Ev.visible] at hvis ⊢
                      rw [hvis]
                    · cases cur <;> simp
                  · exact h4 s hs'
              · simp only [hend, Bool.false_eq_true, ↓reduceIte] at hs
                have hs : seqLoop h fuel (reset h row') true rest (pre ++ c ++ rest)
                    ((cur ++ [row']).head?.map (·.address)) acc = .ok res := by
                  revert hs; cases cur <;> exact id
                have hnend : (!row'.endSequence) = true := by simpa using hend
                rw [hnend] at hreach' hstep
                obtain ⟨news, tail, h1, h2, h3, h4⟩ := ih (reset h row') true rest (pre ++ c) (P ++ [.row row'])
                  (cur ++ [row']) acc res (by omega) hreach'
                  (by simp only [vis, List.filter_append, List.filter, Ev.visible] at hvis ⊢; rw [hvis]; simp)
                  (by intro r hr; rcases List.mem_append.mp hr with hr | hr
                      · exact hcur r hr
                      · simp at hr; subst hr; simpa using hend) hs
                refine ⟨news, tail, h1, ?_, h3, h4⟩
                rw [hstep]
                simp only [vis, List.filter, Ev.visible, List.map_append, List.map_cons,
                  List.map_nil, List.append_assoc, List.cons_append, List.nil_append] at h2 ⊢
                exact h2

/-- `sequences()`: any fuel above the input length returns normally -/
theorem seqLoop_normal (h : Params) : ∀ (fuel : Nat) (row : Row) (inSeq : Bool) (input seqInput : Bytes)
    (st : Option Nat) (acc : List Seq), input.length < fuel →
    (seqLoop h fuel row inSeq input seqInput st acc).Normal := by
  intro fuel
  induction fuel with
  | zero => intro row inSeq input seqInput st acc hl; omega
  | succ fuel ih =>
    intro row inSeq input seqInput st acc hl
    rw [seqLoop]
    split
    · trivial
    · have hn := parseInstr_normal h input
      cases hp : parseInstr h input with
      | ok p =>
        obtain ⟨ins, rest⟩ := p
        have hc := parseInstr_consumes h input ins rest hp
        simp only
        cases hex : execute h row ins with
        | mk r e =>
          cases e with
          | emit =>
            simp only
            split
            · exact ih _ _ _ _ _ _ (by omega)
            · split
              · exact ih _ _ _ _ _ _ (by omega)
              · exact ih _ _ _ _ _ _ (by omega)
          | noEmit => exact ih _ _ _ _ _ _ (by omega)
          | err e => trivial
      | err e => trivial
      | panic w => rw [hp] at hn; exact absurd hn (by simp [Out.Normal])
      | diverge => rw [hp] at hn; exact absurd hn (by simp [Out.Normal])

/-- **`sequences()` against the straight run** -/
theorem sequences_spec (h : Params) (bs : Bytes) (seqs : List Seq) (hs : sequences h bs = .ok seqs) :
    ∃ tail : List Row, run h bs = seqs.flatMap (resume h) ++ tail.map Ev.row ∧
      (∀ r ∈ tail, r.endSequence = false) ∧ ∀ s ∈ seqs, SeqOk h s := by
  unfold sequences at hs
  rw [reset_new] at hs
  obtain ⟨news, tail, h1, h2, h3, h4⟩ := seqLoop_spec h (bs.length + 1) (Row.new h) false bs [] [] [] [] seqs
    (by omega) (Reach.nil h) (by simp [vis]) (by simp) (by simpa using hs)
  simp only [List.reverse_nil, List.nil_append] at h1
  subst h1
  refine ⟨tail, ?_, h3, h4⟩
  unfold run trace
  rw [reset_new]
  simpa using h2

theorem definedFiles_decodeAll (h : Params) (fuel : Nat) : ∀ (input : Bytes) (prog : List Instr),
    decodeAll h fuel input = .ok prog → Line.definedFiles h fuel input = Spec.Line.definedFiles prog := by
  induction fuel with
  | zero => intro input prog hd; simp [decodeAll] at hd
  | succ fuel ih =>
    intro input prog hd
    rw [decodeAll] at hd
    rw [Line.definedFiles]
    split at hd
    · rename_i he
      simp only [Out.ok.injEq] at hd
      subst hd
      simp [he, Spec.Line.definedFiles]
    · rename_i he
      simp only [he]
      cases hp : parseInstr h input with
      | ok p =>
        obtain ⟨ins, rest⟩ := p
        rw [hp] at hd
        simp only at hd
        cases hr : decodeAll h fuel rest with
        | ok is =>
          rw [hr] at hd
          simp only [Out.ok.injEq] at hd
          subst hd
          have := ih rest is hr
          cases ins <;> simp [Spec.Line.definedFiles, this]
        | err e => rw [hr] at hd; simp at hd
        | panic w => rw [hr] at hd; simp at hd
        | diverge => rw [hr] at hd; simp at hd
      | err e => rw [hp] at hd; simp at hd
      | panic w => rw [hp] at hd; simp at hd
      | diverge => rw [hp] at hd; simp at hd

theorem monoObserved_last (size : Nat) (rows : List Row) (last : Row) : ∀ lo,
    (∀ r ∈ rows, r.endSequence = false) →
    MonoObserved size lo (rows.map Ev.row ++ [Ev.row last]) →
    lo ≤ last.address ∧ ∀ r ∈ rows, r.address ≤ last.address := by
  induction rows with
  | nil =>
    intro lo _ h
    simp only [List.map_nil, List.nil_append, MonoObserved] at h
    exact ⟨h.1, by simp⟩
  | cons r rs ih =>
    intro lo hne h
    simp only [List.map_cons, List.cons_append, MonoObserved] at h
    have hr := hne r List.mem_cons_self
    rw [hr] at h
    simp only [Bool.false_eq_true, ↓reduceIte] at h
    obtain ⟨h1, h2⟩ := ih r.address (fun x hx => hne x (List.mem_cons_of_mem _ hx)) h.2.2
    refine ⟨by omega, fun x hx => ?_⟩
    rcases List.mem_cons.mp hx with rfl | hx
    · exact h1
    · exact h2 x hx


/-- in a monotone sequence every row after the first is at or above the first -/
theorem monoObserved_first (size : Nat) (rows : List Row) (last : Row) : ∀ lo,
    (∀ r ∈ rows, r.endSequence = false) →
    MonoObserved size lo (rows.map Ev.row ++ [Ev.row last]) →
    match rows with
    | [] => True
    | r0 :: rs => (∀ r ∈ rs, r0.address ≤ r.address) ∧ r0.address ≤ last.address := by
  intro lo hne h
  cases rows with
  | nil => trivial
  | cons r0 rs =>
    simp only [List.map_cons, List.cons_append, MonoObserved] at h
    have hr := hne r0 List.mem_cons_self
    rw [hr] at h
    simp only [Bool.false_eq_true, ↓reduceIte] at h
    have hne' : ∀ r ∈ rs, r.endSequence = false := fun x hx => hne x (List.mem_cons_of_mem _ hx)
    have key : ∀ (rs : List Row) (lo : Nat), (∀ r ∈ rs, r.endSequence = false) →
        MonoObserved size lo (rs.map Ev.row ++ [Ev.row last]) →
        (∀ r ∈ rs, lo ≤ r.address) ∧ lo ≤ last.address := by
      intro rs
      induction rs with
      | nil =>
        intro lo _ h
        simp only [List.map_nil, List.nil_append, MonoObserved] at h
        exact ⟨by simp, h.1⟩
      | cons r rs ih =>
        intro lo hne h
        simp only [List.map_cons, List.cons_append, MonoObserved] at h
        have hr := hne r List.mem_cons_self
        rw [hr] at h
        simp only [Bool.false_eq_true, ↓reduceIte] at h
        obtain ⟨h1, h2⟩ := ih r.address (fun x hx => hne x (List.mem_cons_of_mem _ hx)) h.2.2
        refine ⟨fun x hx => ?_, by omega⟩
        rcases List.mem_cons.mp hx with rfl | hx
        · exact h.1
        · have := h1 x hx; omega
    exact key rs r0.address hne' h.2.2

end Gimli.Line
