import Gimli.Lemmas.RelocRead
/-! C18, reading side: one primitive, then whole parser runs, through the relocating reader over `b`
and through the plain reader over the section with the relocations applied. -/
namespace Gimli.Rr
open Gimli Gimli.Rd Gimli.Wr

variable {e : Endian} {ρ : List RRel} {b b' : Bytes}

theorem map_apply {σ α β : Type} (f : α → β) (x : M σ α) (t : σ) :
    M.map f x t = ((x t).1.map f, (x t).2) := by
  unfold M.map M.bind M.pure
  rcases x t with ⟨o, t'⟩
  cases o <;> rfl

theorem map_onReader {α β : Type} (f : α → β) (x : M Cur α) (s : RCur Cur) :
    M.map f (Reloc.onReader x) s = ((x s.rdr).1.map f, { s with rdr := (x s.rdr).2 }) := by
  rw [map_apply]
  rfl

theorem map_rel {σ τ α β : Type} {R : σ → τ → Prop} (f : α → β) {x : M σ α} {y : M τ α} {s : σ} {t : τ}
    (h : (x s).1 = (y t).1 ∧ R (x s).2 (y t).2) :
    (M.map f x s).1 = (M.map f y t).1 ∧ R (M.map f x s).2 (M.map f y t).2 := by
  rw [map_apply, map_apply]
  exact ⟨by rw [h.1], h.2⟩

/-- `x` does the same on a window whatever the section bytes are (at least on this window `c`),
and leaves a window inside the old one -/
def Agree {α : Type} (b' : Bytes) (x : M Cur α) (c : Cur) : Prop :=
  (x (resec b' c)).1 = (x c).1 ∧ (x (resec b' c)).2 = resec b' (x c).2 ∧ (x c).2.sec = c.sec ∧
    (x c).2.off + (x c).2.len ≤ c.off + c.len

theorem agree_onReader {α β : Type} (f : α → β) {x : M Cur α} {s : RCur Cur} {t : Cur}
    (hr : RR b b' s t) (ha : Agree b' x s.rdr) :
    (M.map f (Reloc.onReader x) s).1 = (M.map f x t).1 ∧
      RR b b' (M.map f (Reloc.onReader x) s).2 (M.map f x t).2 := by
  obtain ⟨rfl, hsec, hsect, hinv⟩ := hr
  obtain ⟨a1, a2, a3, a4⟩ := ha
  rw [map_onReader, map_apply]
  simp only
  exact ⟨by rw [a1], a2, by rw [a3, hsec], hsect, by show (x s.rdr).2.off + (x s.rdr).2.len ≤ _; omega⟩

theorem agree_skip (n : Nat) (c : Cur) : Agree b' (sharedImpl.skip n) c := by
  show Agree b' (Shared.skip n) c
  unfold Agree
  rw [Shared.skip_eq, Shared.skip_eq]
  unfold Slice.skip resec
  by_cases h : c.len < n <;> simp [h] <;> omega

theorem agree_truncate (n : Nat) (c : Cur) : Agree b' (sharedImpl.truncate n) c := by
  show Agree b' (Shared.truncate n) c
  unfold Agree
  rw [Shared.truncate_eq, Shared.truncate_eq]
  unfold Slice.truncate resec
  by_cases h : c.len < n <;> simp [h] <;> omega

theorem agree_readSlice (hf : Facts e ρ b b') (n : Nat) (c : Cur) (hsec : c.sec = b)
    (hok : ¬ c.len < n → Disjoint ρ c.off n) : Agree b' (sharedImpl.readSlice n) c := by
  unfold Agree
  rw [shared_readSlice, shared_readSlice]
  by_cases h : c.len < n
  · simp [h, resec]
  · simp only [resec, h, if_false, adv]
    refine ⟨?_, trivial, trivial, by omega⟩
    rw [hsec, hf.same _ _ (hok h)]



/-! ## `find`: determined by the bytes up to the byte found -/

theorem position_congr {xs ys : Bytes} {x : UInt8} (hl : xs.length = ys.length)
    (h : ∀ i, (match position xs x with | some k => i ≤ k | none => True) → xs[i]? = ys[i]?) :
    position ys x = position xs x := by
  cases hp : position xs x with
  | none =>
    rw [hp] at h
    have : xs = ys := List.ext_getElem? (fun i => h i trivial)
    rw [← this, hp]
  | some k =>
    rw [hp] at h
    obtain ⟨hk, h1, h2⟩ := position_spec hp
    have hk' : k < ys.length := by omega
    unfold position
    rw [List.findIdx?_eq_some_iff_getElem]
    refine ⟨hk', ?_, ?_⟩
    · have := h k (Nat.le_refl k)
      rw [List.getElem?_eq_getElem hk, List.getElem?_eq_getElem hk'] at this
      have : xs[k] = ys[k] := Option.some.inj this
      rw [← this, h1]; simp
    · intro j hj
      have hjx : j < xs.length := by omega
      have hjy : j < ys.length := by omega
      have := h j (by omega)
      rw [List.getElem?_eq_getElem hjx, List.getElem?_eq_getElem hjy] at this
      have : xs[j] = ys[j] := Option.some.inj this
      rw [← this]
      have := h2 j hj
      simpa using this

theorem ext_prefix {b c : Bytes} {o n k : Nat} (hk : k ≤ n) (h : ext c o k = ext b o k) (i : Nat)
    (hi : i < k) : (ext c o n)[i]? = (ext b o n)[i]? := by
  have h1 := congrArg (fun l => l[i]?) h
  simp only [getElem?_ext] at h1 ⊢
  have : i < n := by omega
  simp only [hi, this, if_true] at h1 ⊢
  exact h1

/-! ## one primitive on corresponding tables -/

theorem reloc_split_closed (rel : Rel) (n : Nat) (s : RCur Cur) :
    (relocImpl sharedImpl rel).split n s =
      if s.rdr.len < n then (.err .rUnexpectedEof, s)
      else (.ok { s with rdr := { s.rdr with len := n } }, { s with rdr := adv s.rdr n }) := by
  show Reloc.split sharedImpl n s = _
  unfold Reloc.split
  have ht : sharedImpl.truncate n s.rdr = Slice.truncate n s.rdr := Shared.truncate_eq n s.rdr
  have hk : sharedImpl.skip n s.rdr = Slice.skip n s.rdr := Shared.skip_eq n s.rdr
  unfold M.bind M.pure Reloc.onReader
  rw [ht, hk]
  unfold Slice.truncate Slice.skip
  by_cases h : s.rdr.len < n <;> simp [h, adv]

theorem shared_split_closed (n : Nat) (c : Cur) :
    sharedImpl.split n c =
      if c.len < n then (.err .rUnexpectedEof, c) else (.ok { c with len := n }, adv c n) := by
  show Shared.split n c = _
  rw [Shared.split_eq]
  unfold Slice.split Slice.readSliceRaw
  by_cases h : c.len < n <;> simp [h, adv]

theorem RR.ext_len {s : RCur Cur} {t : Cur} (h : RR b b' s t) :
    t.off = s.rdr.off ∧ t.len = s.rdr.len ∧ t.sec = b' := by
  obtain ⟨rfl, _, _, _⟩ := h
  exact ⟨rfl, rfl, rfl⟩

/-- a primitive on a reader with window `c` is compatible with the relocation set -/
theorem prim_step (hf : Facts e ρ b b') (m : Mode) (valid : Bytes → Bool) (lossy : Bytes → Bytes)
    {st : St (RCur Cur)} {st' : St Cur} (h : StRel (RR b b') st st') (p : Prim)
    (hok : ∀ s, st.get p.reader = some s → primOK ρ s.rdr p = true) :
    (step (relocImpl sharedImpl (relOf ρ)) m e valid lossy st p.toOp).1 =
        (step sharedImpl m e valid lossy st' p.toOp).1 ∧
      StRel (RR b b') (step (relocImpl sharedImpl (relOf ρ)) m e valid lossy st p.toOp).2
        (step sharedImpl m e valid lossy st' p.toOp).2 := by
  have hview : ∀ (s : RCur Cur) (t : Cur), RR b b' s t →
      ((relocImpl sharedImpl (relOf ρ)).view s).toView = (sharedImpl.view t).toView :=
    fun s t hr => hr.view
  cases p with
  | readSlice i n =>
    refine runM_sim' hview h i (fun s t hs _ hr => ?_)
    have hk := hok s hs
    simp only [primOK, Bool.or_eq_true, decide_eq_true_eq, disjoint_iff] at hk
    exact agree_onReader _ hr (agree_readSlice hf n s.rdr hr.2.1 (fun hlt => hk.resolve_left hlt))
  | skip i n => exact runM_sim' hview h i (fun s t _ _ hr => agree_onReader _ hr (agree_skip n s.rdr))
  | trunc i n =>
    exact runM_sim' hview h i (fun s t _ _ hr => agree_onReader _ hr (agree_truncate n s.rdr))
  | split i n =>
    refine runNew_sim' hview h i (fun s t _ _ hr => ?_)
    obtain ⟨rfl, hsec, hsect, hinv⟩ := hr
    rw [reloc_split_closed, shared_split_closed]
    by_cases hl : s.rdr.len < n
    · simp only [hl, if_true, resec]
      exact ⟨rfl, rfl, hsec, hsect, hinv⟩
    · simp only [hl, if_false, resec]
      exact ⟨⟨rfl, hsec, hsect, by simp only; omega⟩, rfl, hsec, hsect, by simp only [adv]; omega⟩
  | empty i =>
    refine runM_sim' hview h i (fun s t _ _ hr => ?_)
    obtain ⟨rfl, hsec, hsect, hinv⟩ := hr
    refine ⟨rfl, ?_⟩
    show RR b b' { s with rdr := Shared.empty s.rdr } (Shared.empty (resec b' s.rdr))
    rw [Shared.empty_eq, Shared.empty_eq]
    exact ⟨rfl, hsec, hsect, by simp only; omega⟩
  | find i x =>
    refine runQ_sim' hview h i (fun s t hs _ hr => ?_)
    have hk := hok s hs
    simp only [primOK, disjoint_iff] at hk
    obtain ⟨rfl, hsec, hsect, hinv⟩ := hr
    show (Shared.find s.rdr x).map Val.nat = (Shared.find (resec b' s.rdr) x).map Val.nat
    unfold Shared.find SubRange.bytes
    have hb1 : s.rdr.bytes = ext b s.rdr.off s.rdr.len := by rw [← hsec]; rfl
    have hb2 : (resec b' s.rdr).bytes = ext b' s.rdr.off s.rdr.len := rfl
    have hpc : position (resec b' s.rdr).bytes x = position s.rdr.bytes x := by
      apply position_congr
      · rw [hb1, hb2]; simp [ext, hf.len]
      · intro i hi
        rw [hb1, hb2]
        rw [hb1] at hk hi
        cases hp : position (ext b s.rdr.off s.rdr.len) x with
        | none =>
          rw [hp] at hk
          rw [hf.same _ _ hk]
        | some k =>
          rw [hp] at hk hi
          simp only at hi
          have hkl : k < (ext b s.rdr.off s.rdr.len).length := (position_spec hp).1
          have hkl' : k + 1 ≤ s.rdr.len := by simp [ext] at hkl; omega
          exact (ext_prefix hkl' (hf.same _ _ hk) i (by omega)).symm
    rw [hpc]
  | clone i => exact runNew_sim' hview h i (fun s t _ _ hr => ⟨hr, hr⟩)
  | drop i =>
    have hr := h.rs i
    simp only [Prim.toOp, step]
    cases hg : st.get i <;> cases hg' : st'.get i <;> rw [hg, hg'] at hr <;> simp only [OptRel] at hr
    · exact ⟨rfl, h⟩
    · refine ⟨rfl, ⟨by simp [h.len], fun j => ?_, h.ids⟩⟩
      have hj := h.rs j
      unfold St.get at hj ⊢
      simp only [List.getElem?_set, h.len]
      split
      · split <;> simp [OptRel]
      · exact hj
  | offFrom i j =>
    have hr := h.rs j
    simp only [Prim.toOp, step]
    cases hg : st.get j <;> cases hg' : st'.get j <;> rw [hg, hg'] at hr <;> simp only [OptRel] at hr
    · exact ⟨rfl, h⟩
    · rename_i c c'
      refine runQ_sim' hview h i (fun s t _ _ hst => ?_)
      obtain ⟨rfl, _, _, _⟩ := hst
      obtain ⟨rfl, _, _, _⟩ := hr
      rfl
  | offId i =>
    have hr := h.rs i
    simp only [Prim.toOp, step]
    cases hg : st.get i <;> cases hg' : st'.get i <;> rw [hg, hg'] at hr <;> simp only [OptRel] at hr
    · exact ⟨rfl, h⟩
    · rename_i s t
      obtain ⟨rfl, hsec, hsect, hinv⟩ := hr
      exact ⟨rfl, ⟨h.len, h.rs, by simp only [h.ids]; rfl⟩⟩
  | lookup i k =>
    simp only [Prim.toOp, step]
    rw [h.ids]
    cases st'.ids[k]? with
    | none => exact ⟨rfl, h⟩
    | some id =>
      refine runQ_sim' hview h i (fun s t _ _ hst => ?_)
      obtain ⟨rfl, _, _, _⟩ := hst
      rfl
  | len i =>
    refine runQ_sim' hview h i (fun s t _ _ hst => ?_)
    obtain ⟨rfl, _, _, _⟩ := hst
    rfl
  | toSlice i =>
    refine runQ_sim' hview h i (fun s t hs _ hr => ?_)
    have hk := hok s hs
    simp only [primOK, disjoint_iff] at hk
    obtain ⟨rfl, hsec, hsect, hinv⟩ := hr
    show (Shared.toSlice s.rdr).map Val.bytes = (Shared.toSlice (resec b' s.rdr)).map Val.bytes
    have hb1 : SubRange.bytes s.rdr = ext b s.rdr.off s.rdr.len := by rw [← hsec]; rfl
    have hb2 : SubRange.bytes (resec b' s.rdr) = ext b' s.rdr.off s.rdr.len := rfl
    unfold Shared.toSlice
    rw [hb1, hb2, hf.same _ _ hk]
  | toStr i =>
    refine runQ_sim' hview h i (fun s t hs _ hr => ?_)
    have hk := hok s hs
    simp only [primOK, disjoint_iff] at hk
    obtain ⟨rfl, hsec, hsect, hinv⟩ := hr
    show (Shared.toStr valid s.rdr).map Val.bytes = (Shared.toStr valid (resec b' s.rdr)).map Val.bytes
    have hb1 : SubRange.bytes s.rdr = ext b s.rdr.off s.rdr.len := by rw [← hsec]; rfl
    have hb2 : SubRange.bytes (resec b' s.rdr) = ext b' s.rdr.off s.rdr.len := rfl
    unfold Shared.toStr
    rw [hb1, hb2, hf.same _ _ hk]
  | toLossy i =>
    refine runQ_sim' hview h i (fun s t hs _ hr => ?_)
    have hk := hok s hs
    simp only [primOK, disjoint_iff] at hk
    obtain ⟨rfl, hsec, hsect, hinv⟩ := hr
    show (Shared.toLossy valid lossy s.rdr).map _ = (Shared.toLossy valid lossy (resec b' s.rdr)).map _
    have hb1 : SubRange.bytes s.rdr = ext b s.rdr.off s.rdr.len := by rw [← hsec]; rfl
    have hb2 : SubRange.bytes (resec b' s.rdr) = ext b' s.rdr.off s.rdr.len := rfl
    unfold Shared.toLossy
    rw [hb1, hb2, hf.same _ _ hk]
  | addr i n =>
    refine runM_sim' hview h i (fun s t hs _ hr => ?_)
    have hk := hok s hs
    simp only [primOK, Bool.or_eq_true, Bool.not_eq_true', decide_eq_false_iff_not, decide_eq_true_eq] at hk
    have hrf := relocated_fixed (e := e) hf m n (decide (n = 1 ∨ n = 2 ∨ n = 4 ∨ n = 8))
      .rUnsupportedAddressSize s t hr (fun hs1 hl => by
        have hs1 : n = 1 ∨ n = 2 ∨ n = 4 ∨ n = 8 := by simpa using hs1
        refine ⟨by omega, by omega, ?_⟩
        rcases hk with (hk | hk) | hk
        · exact absurd hs1 hk
        · exact absurd hk hl
        · exact hk)
    have e1 : (relocImpl sharedImpl (relOf ρ)).readAddress m e n =
        Reloc.relocated sharedImpl m (fixedRead e n (decide (n = 1 ∨ n = 2 ∨ n = 4 ∨ n = 8))
          .rUnsupportedAddressSize) (relFun ρ) := by
      show Reloc.relocated sharedImpl m (sharedImpl.readAddress m e n) (relOf ρ).addr = _
      rw [shared_readAddress, relOf_addr]
    rw [e1, shared_readAddress]
    exact map_rel Val.nat hrf
  | offset i f =>
    refine runM_sim' hview h i (fun s t hs _ hr => ?_)
    have hk := hok s hs
    simp only [primOK, Bool.or_eq_true, decide_eq_true_eq] at hk
    have hrf := relocated_fixed (e := e) hf m f.wordSize true .other s t hr (fun _ hl => by
        refine ⟨by cases f <;> simp [Format.wordSize], by cases f <;> simp [Format.wordSize], ?_⟩
        exact hk.resolve_left hl)
    have e1 : (relocImpl sharedImpl (relOf ρ)).readOffset m e f =
        Reloc.relocated sharedImpl m (fixedRead e f.wordSize true .other) (relFun ρ) := by
      show Reloc.relocated sharedImpl m (sharedImpl.readOffset m e f) (relOf ρ).offs = _
      rw [shared_readOffset, relOf_offs]
    rw [e1, shared_readOffset]
    exact map_rel Val.nat hrf
  | sizedOff i n =>
    refine runM_sim' hview h i (fun s t hs _ hr => ?_)
    have hk := hok s hs
    simp only [primOK, Bool.or_eq_true, Bool.not_eq_true', decide_eq_false_iff_not, decide_eq_true_eq] at hk
    have hrf := relocated_fixed (e := e) hf m n (decide (n = 1 ∨ n = 2 ∨ n = 4 ∨ n = 8))
      .rUnsupportedOffsetSize s t hr (fun hs1 hl => by
        have hs1 : n = 1 ∨ n = 2 ∨ n = 4 ∨ n = 8 := by simpa using hs1
        refine ⟨by omega, by omega, ?_⟩
        rcases hk with (hk | hk) | hk
        · exact absurd hs1 hk
        · exact absurd hk hl
        · exact hk)
    have e1 : (relocImpl sharedImpl (relOf ρ)).readSizedOffset m e n =
        Reloc.relocated sharedImpl m (fixedRead e n (decide (n = 1 ∨ n = 2 ∨ n = 4 ∨ n = 8))
          .rUnsupportedOffsetSize) (relFun ρ) := by
      show Reloc.relocated sharedImpl m (sharedImpl.readSizedOffset m e n) (relOf ρ).offs = _
      rw [shared_readSizedOffset, relOf_offs]
    rw [e1, shared_readSizedOffset]
    exact map_rel Val.nat hrf



/-- the whole run -/
theorem run_transparent {α : Type} (hf : Facts e ρ b b') (m : Mode) (valid : Bytes → Bool)
    (lossy : Bytes → Bytes) (P : Prog α) : ∀ (st : St (RCur Cur)) (st' : St Cur),
    StRel (RR b b') st st' → compat ρ m e valid lossy P st = true →
      run (relocImpl sharedImpl (relOf ρ)) m e valid lossy P st = run sharedImpl m e valid lossy P st' := by
  induction P with
  | ret a => intro st st' _ _; rfl
  | fail x => intro st st' _ _; rfl
  | step p k ih =>
    intro st st' h hc
    simp only [compat, Bool.and_eq_true] at hc
    have hok : ∀ s, st.get p.reader = some s → primOK ρ s.rdr p = true := by
      intro s hs
      have := hc.1
      rw [hs] at this
      exact this
    have hp := prim_step hf m valid lossy h p hok
    simp only [run]
    rw [← hp.1]
    exact ih _ _ _ hp.2 hc.2

theorem RR.init (hf : Facts e ρ b b') : RR b b' (RCur.new (Cur.ofSec b)) (Cur.ofSec b') := by
  refine ⟨?_, rfl, rfl, by simp [RCur.new, Cur.ofSec]⟩
  simp [resec, RCur.new, Cur.ofSec, hf.len]

end Gimli.Rr
