import Gimli.Lemmas.Line
import Gimli.Props.C01
/-! Decoder lemmas for C04: every reader used by `LineInstruction::parse` is *local* (a successful
read consumes a prefix of its input and never looks beyond it), returns normally, and
`parseInstr` consumes at least one byte. -/
namespace Gimli.Line
open Gimli Gimli.Spec Gimli.Spec.Line Gimli.Props.C01

/-- a reader is *local*: a successful read consumes a prefix of its input and does not look
beyond it -/
def Local {α : Type} (f : Bytes → Out (α × Bytes)) : Prop :=
  ∀ bs v rest, f bs = .ok (v, rest) →
    ∃ pre, bs = pre ++ rest ∧ ∀ rest', f (pre ++ rest') = .ok (v, rest')

theorem unsigned_local : Local Leb.unsigned := by
  intro bs v rest h
  obtain ⟨pre, hbs, henc, hlen, hv, hlt⟩ := Leb.unsigned_sound bs v rest h
  refine ⟨pre, hbs, fun rest' => ?_⟩
  rw [hv]
  exact Leb.unsigned_complete pre rest' henc hlen (hv ▸ hlt)

theorem signedLoop_local (bs : Bytes) : ∀ (r s : Nat) (res sh : Nat) (b : UInt8) (rest : Bytes),
    Leb.signedLoop bs r s = .ok (res, sh, b, rest) →
    ∃ pre, bs = pre ++ rest ∧ ∀ rest', Leb.signedLoop (pre ++ rest') r s = .ok (res, sh, b, rest') := by
  induction bs with
  | nil => intro r s res sh b rest h; simp [Leb.signedLoop] at h
  | cons x tl ih =>
    intro r s res sh b rest h
    rw [Leb.signedLoop] at h
    split at h
    · simp at h
    · rename_i hc
      simp only at h
      split at h
      · rename_i hlt
        simp only [Out.ok.injEq, Prod.mk.injEq] at h
        obtain ⟨h1, h2, h3, h4⟩ := h
        subst h1 h2 h3 h4
        refine ⟨[x], by simp, fun rest' => ?_⟩
        simp only [List.cons_append, List.nil_append]
        rw [Leb.signedLoop]
        simp only [hc, ↓reduceIte, hlt]
      · rename_i hlt
        obtain ⟨pre, hpre, hall⟩ := ih _ _ _ _ _ _ h
        refine ⟨x :: pre, by simp [hpre], fun rest' => ?_⟩
        simp only [List.cons_append]
        rw [Leb.signedLoop]
        simp only [hc, ↓reduceIte, hlt]
        exact hall rest'

theorem signed_local : Local Leb.signed := by
  intro bs v rest h
  unfold Leb.signed at h
  cases hl : Leb.signedLoop bs 0 0 with
  | ok p =>
    obtain ⟨res, sh, b, rest0⟩ := p
    rw [hl] at h
    simp only [Out.ok.injEq, Prod.mk.injEq] at h
    obtain ⟨pre, hpre, hall⟩ := signedLoop_local bs 0 0 res sh b rest0 hl
    refine ⟨pre, by rw [hpre, h.2], fun rest' => ?_⟩
    unfold Leb.signed
    rw [hall rest']
    simp only [Out.ok.injEq, Prod.mk.injEq, and_true]
    exact h.1
  | err e => rw [hl] at h; simp at h
  | panic w => rw [hl] at h; simp at h
  | diverge => rw [hl] at h; simp at h

theorem take_local (n : Nat) : Local (Ints.take n) := by
  intro bs v rest h
  unfold Ints.take at h
  split at h
  · rename_i hn
    simp only [Out.ok.injEq, Prod.mk.injEq] at h
    refine ⟨v, by rw [← h.1, ← h.2]; exact (List.take_append_drop n bs).symm, fun rest' => ?_⟩
    have hlen : v.length = n := by rw [← h.1]; simp; omega
    unfold Ints.take
    rw [if_pos (by simp; omega)]
    simp [← hlen]
  · simp at h

theorem readFixed_local (e : Endian) (n : Nat) : Local (Ints.readFixed e n) := by
  intro bs v rest h
  unfold Ints.readFixed at h
  cases ht : Ints.take n bs with
  | ok p =>
    obtain ⟨a, r⟩ := p
    rw [ht] at h
    simp only [Out.bind_ok, Out.pure_eq, Out.ok.injEq, Prod.mk.injEq] at h
    obtain ⟨pre, hpre, hall⟩ := take_local n bs a r ht
    refine ⟨pre, by rw [hpre, h.2], fun rest' => ?_⟩
    unfold Ints.readFixed
    rw [hall rest']
    simp [h.1]
  | err e => rw [ht] at h; simp at h
  | panic w => rw [ht] at h; simp at h
  | diverge => rw [ht] at h; simp at h

theorem skipUlebs_local (n : Nat) : ∀ (bs rest : Bytes), skipUlebs n bs = .ok rest →
    ∃ pre, bs = pre ++ rest ∧ ∀ rest', skipUlebs n (pre ++ rest') = .ok rest' := by
  induction n with
  | zero =>
    intro bs rest h
    simp only [skipUlebs, Out.ok.injEq] at h
    exact ⟨[], by simp [h], fun rest' => by simp [skipUlebs]⟩
  | succ n ih =>
    intro bs rest h
    rw [skipUlebs] at h
    cases hu : Leb.unsigned bs with
    | ok p =>
      obtain ⟨v, r⟩ := p
      rw [hu] at h
      simp only at h
      obtain ⟨pre1, hpre1, hall1⟩ := unsigned_local bs v r hu
      obtain ⟨pre2, hpre2, hall2⟩ := ih r rest h
      refine ⟨pre1 ++ pre2, by rw [hpre1, hpre2, List.append_assoc], fun rest' => ?_⟩
      rw [skipUlebs, List.append_assoc, hall1]
      exact hall2 rest'
    | err e => rw [hu] at h; simp at h
    | panic w => rw [hu] at h; simp at h
    | diverge => rw [hu] at h; simp at h


theorem mapRead_ok {α β : Type} (g : α → β) (r : Out (α × Bytes)) (w : β) (rest : Bytes)
    (h : mapRead g r = .ok (w, rest)) : ∃ v, r = .ok (v, rest) ∧ w = g v := by
  cases r with
  | ok p => obtain ⟨v, r'⟩ := p; simp only [mapRead, Out.ok.injEq, Prod.mk.injEq] at h; exact ⟨v, by rw [h.2], h.1.symm⟩
  | err e => simp [mapRead] at h
  | panic w => simp [mapRead] at h
  | diverge => simp [mapRead] at h

theorem mapRead_local {α β : Type} (g : α → β) (f : Bytes → Out (α × Bytes)) (hf : Local f) :
    Local (fun bs => mapRead g (f bs)) := by
  intro bs w rest h
  obtain ⟨v, hv, hw⟩ := mapRead_ok g (f bs) w rest h
  obtain ⟨pre, hpre, hall⟩ := hf bs v rest hv
  exact ⟨pre, hpre, fun rest' => by simp only [hall rest', mapRead, hw]⟩

theorem ok_local {α : Type} (v : α) : Local (fun bs => (.ok (v, bs) : Out (α × Bytes))) := by
  intro bs w rest h
  simp only [Out.ok.injEq, Prod.mk.injEq] at h
  exact ⟨[], by simp [h.2], fun rest' => by simp [h.1]⟩

theorem Local.congr {α : Type} {f g : Bytes → Out (α × Bytes)} (hfg : ∀ bs, f bs = g bs)
    (hg : Local g) : Local f := by
  intro bs v rest h
  rw [hfg] at h
  obtain ⟨pre, h1, h2⟩ := hg bs v rest h
  exact ⟨pre, h1, fun r => by rw [hfg]; exact h2 r⟩

theorem unknownN_local (opcode n : Nat) : Local (fun input : Bytes =>
    (match skipUlebs n input with
     | .ok rest => .ok (Instr.unknownStandardN opcode (input.take (input.length - rest.length)), rest)
     | .err e => .err e
     | .panic w => .panic w
     | .diverge => .diverge : Out (Instr × Bytes))) := by
  intro bs w rest hp
  simp only at hp
  cases hs : skipUlebs n bs with
  | ok r =>
    rw [hs] at hp
    simp only [Out.ok.injEq, Prod.mk.injEq] at hp
    obtain ⟨hw, hr⟩ := hp
    subst hr
    obtain ⟨pre, hpre, hall⟩ := skipUlebs_local _ bs r hs
    refine ⟨pre, hpre, fun rest' => ?_⟩
    simp only [hall rest']
    rw [← hw, hpre]
    simp
  | err e => rw [hs] at hp; simp at hp
  | panic w => rw [hs] at hp; simp at hp
  | diverge => rw [hs] at hp; simp at hp

theorem parseStandard_local (h : Params) (opcode : Nat) : Local (parseStandard h opcode) := by
  by_cases h1 : opcode = 1
  · subst h1; exact Local.congr (fun bs => by simp [parseStandard]) (ok_local Instr.copy)
  by_cases h2 : opcode = 2
  · subst h2; exact Local.congr (fun bs => by simp [parseStandard]) (mapRead_local Instr.advancePc _ unsigned_local)
  by_cases h3 : opcode = 3
  · subst h3; exact Local.congr (fun bs => by simp [parseStandard]) (mapRead_local Instr.advanceLine _ signed_local)
  by_cases h4 : opcode = 4
  · subst h4; exact Local.congr (fun bs => by simp [parseStandard]) (mapRead_local Instr.setFile _ unsigned_local)
  by_cases h5 : opcode = 5
  · subst h5; exact Local.congr (fun bs => by simp [parseStandard]) (mapRead_local Instr.setColumn _ unsigned_local)
  by_cases h6 : opcode = 6
  · subst h6; exact Local.congr (fun bs => by simp [parseStandard]) (ok_local Instr.negateStatement)
  by_cases h7 : opcode = 7
  · subst h7; exact Local.congr (fun bs => by simp [parseStandard]) (ok_local Instr.setBasicBlock)
  by_cases h8 : opcode = 8
  · subst h8; exact Local.congr (fun bs => by simp [parseStandard]) (ok_local Instr.constAddPc)
  by_cases h9 : opcode = 9
  · subst h9; exact Local.congr (fun bs => by simp [parseStandard]) (mapRead_local Instr.fixedAddPc _ (readFixed_local h.endian 2))
  by_cases h10 : opcode = 10
  · subst h10; exact Local.congr (fun bs => by simp [parseStandard]) (ok_local Instr.setPrologueEnd)
  by_cases h11 : opcode = 11
  · subst h11; exact Local.congr (fun bs => by simp [parseStandard]) (ok_local Instr.setEpilogueBegin)
  by_cases h12 : opcode = 12
  · subst h12; exact Local.congr (fun bs => by simp [parseStandard]) (mapRead_local Instr.setIsa _ unsigned_local)
  cases hd : h.stdLens.drop (opcode - 1) with
  | nil =>
    intro bs w rest hp
    simp [parseStandard, h1, h2, h3, h4, h5, h6, h7, h8, h9, h10, h11, h12, hd] at hp
  | cons n tl =>
    by_cases hn0 : n.toNat = 0
    · exact Local.congr (fun bs => by simp [parseStandard, h1, h2, h3, h4, h5, h6, h7, h8, h9, h10, h11, h12, hd, hn0])
        (ok_local (Instr.unknownStandard0 opcode))
    by_cases hn1 : n.toNat = 1
    · exact Local.congr (fun bs => by simp [parseStandard, h1, h2, h3, h4, h5, h6, h7, h8, h9, h10, h11, h12, hd, hn1])
        (mapRead_local (Instr.unknownStandard1 opcode) _ unsigned_local)
    exact Local.congr (fun bs => by
        simp only [parseStandard, h1, h2, h3, h4, h5, h6, h7, h8, h9, h10, h11, h12, hd, hn0, hn1, ↓reduceIte]
        cases skipUlebs n.toNat bs <;> rfl)
      (unknownN_local opcode n.toNat)

/-- **`LineInstruction::parse` is local and consumes at least one byte.** -/
theorem parseInstr_local (h : Params) (input : Bytes) (ins : Instr) (rest : Bytes)
    (hp : parseInstr h input = .ok (ins, rest)) :
    ∃ pre, input = pre ++ rest ∧ pre ≠ [] ∧ ∀ rest', parseInstr h (pre ++ rest') = .ok (ins, rest') := by
  cases input with
  | nil => simp [parseInstr] at hp
  | cons opb tl =>
    rw [parseInstr] at hp
    split at hp
    · rename_i h0
      cases hu : Leb.unsigned tl with
      | ok p =>
        obtain ⟨len, r1⟩ := p
        rw [hu] at hp
        simp only at hp
        cases ht : Ints.take len r1 with
        | ok q =>
          obtain ⟨ext, r2⟩ := q
          rw [ht] at hp
          simp only at hp
          cases hx : parseExtended h ext with
          | ok i =>
            rw [hx] at hp
            simp only [Out.ok.injEq, Prod.mk.injEq] at hp
            obtain ⟨hi, hr⟩ := hp
            subst hi hr
            obtain ⟨pre1, hpre1, hall1⟩ := unsigned_local tl len r1 hu
            obtain ⟨pre2, hpre2, hall2⟩ := take_local len r1 ext r2 ht
            refine ⟨opb :: (pre1 ++ pre2), by simp [hpre1, hpre2], by simp, fun rest' => ?_⟩
            simp only [List.cons_append, List.append_assoc]
            rw [parseInstr]
            simp only [h0, ↓reduceIte, hall1, hall2, hx]
          | err e => rw [hx] at hp; simp at hp
          | panic w => rw [hx] at hp; simp at hp
          | diverge => rw [hx] at hp; simp at hp
        | err e => rw [ht] at hp; simp at hp
        | panic w => rw [ht] at hp; simp at hp
        | diverge => rw [ht] at hp; simp at hp
      | err e => rw [hu] at hp; simp at hp
      | panic w => rw [hu] at hp; simp at hp
      | diverge => rw [hu] at hp; simp at hp
    · rename_i h0
      split at hp
      · rename_i hs
        simp only [Out.ok.injEq, Prod.mk.injEq] at hp
        obtain ⟨hi, hr⟩ := hp
        subst hi hr
        refine ⟨[opb], by simp, by simp, fun rest' => ?_⟩
        simp only [List.cons_append, List.nil_append]
        rw [parseInstr]
        simp only [h0, ↓reduceIte, hs]
      · rename_i hs
        obtain ⟨pre, hpre, hall⟩ := parseStandard_local h opb.toNat tl ins rest hp
        refine ⟨opb :: pre, by simp [hpre], by simp, fun rest' => ?_⟩
        simp only [List.cons_append]
        rw [parseInstr]
        simp only [h0, ↓reduceIte, hs]
        exact hall rest'

theorem parseInstr_consumes (h : Params) (input : Bytes) (ins : Instr) (rest : Bytes)
    (hp : parseInstr h input = .ok (ins, rest)) : rest.length < input.length := by
  obtain ⟨pre, hpre, hne, _⟩ := parseInstr_local h input ins rest hp
  rw [hpre, List.length_append]
  have : 0 < pre.length := List.length_pos_iff.mpr hne
  omega

/-! ## the decoder returns normally -/

theorem normal_ok {α : Type} (a : α) : (Out.ok a).Normal := trivial
theorem normal_err {α : Type} (e : Err) : (Out.err e : Out α).Normal := trivial

/-- `x >>= f` is normal when `x` is and `f` is on every value -/
theorem normal_bind {α β : Type} (x : Out α) (f : α → Out β) (hx : x.Normal)
    (hf : ∀ a, (f a).Normal) : (x >>= f).Normal := by
  cases x with
  | ok a => exact hf a
  | err e => trivial
  | panic w => exact hx
  | diverge => exact hx

theorem take_normal (n : Nat) (bs : Bytes) : (Ints.take n bs).Normal := by
  unfold Ints.take; split <;> trivial

theorem mapRead_normal {α β : Type} (g : α → β) (r : Out (α × Bytes)) (hr : r.Normal) :
    (mapRead g r).Normal := by
  cases r with
  | ok p => obtain ⟨v, r⟩ := p; trivial
  | err e => trivial
  | panic w => exact hr
  | diverge => exact hr

theorem skipUlebs_normal (n : Nat) : ∀ bs, (skipUlebs n bs).Normal := by
  induction n with
  | zero => intro bs; trivial
  | succ n ih =>
    intro bs
    rw [skipUlebs]
    have := uleb_total bs
    cases hu : Leb.unsigned bs with
    | ok p => obtain ⟨v, r⟩ := p; exact ih r
    | err e => trivial
    | panic w => rw [hu] at this; exact this
    | diverge => rw [hu] at this; exact this

theorem readCStr_normal (bs : Bytes) : (readCStr bs).Normal := by
  induction bs with
  | nil => trivial
  | cons b tl ih =>
    rw [readCStr]
    split
    · trivial
    · cases hr : readCStr tl with
      | ok p => obtain ⟨s, r⟩ := p; trivial
      | err e => trivial
      | panic w => rw [hr] at ih; exact ih
      | diverge => rw [hr] at ih; exact ih

theorem parseFileEntryV4_normal (path bs : Bytes) : (parseFileEntryV4 path bs).Normal := by
  unfold parseFileEntryV4
  refine normal_bind _ _ (uleb_total _) fun ⟨_, bs⟩ => ?_
  refine normal_bind _ _ (uleb_total _) fun ⟨_, bs⟩ => ?_
  refine normal_bind _ _ (uleb_total _) fun ⟨_, bs⟩ => ?_
  trivial

theorem parseExtended_normal (h : Params) (ext : Bytes) : (parseExtended h ext).Normal := by
  unfold parseExtended
  split
  · trivial
  · simp only
    split; · trivial
    split
    · exact normal_bind _ _ (address_total _ _ _) fun ⟨_, _⟩ => trivial
    split
    · split
      · refine normal_bind _ _ (readCStr_normal _) fun ⟨_, _⟩ => ?_
        exact normal_bind _ _ (parseFileEntryV4_normal _ _) fun ⟨_, _⟩ => trivial
      · trivial
    split
    · exact normal_bind _ _ (uleb_total _) fun ⟨_, _⟩ => trivial
    · trivial

theorem parseStandard_normal (h : Params) (opcode : Nat) (input : Bytes) :
    (parseStandard h opcode input).Normal := by
  by_cases h1 : opcode = 1
  · subst h1; simp [parseStandard, Out.Normal]
  by_cases h2 : opcode = 2
  · subst h2; simp only [parseStandard]; exact mapRead_normal _ _ (uleb_total _)
  by_cases h3 : opcode = 3
  · subst h3; simp only [parseStandard]; exact mapRead_normal _ _ (sleb_total _)
  by_cases h4 : opcode = 4
  · subst h4; simp only [parseStandard]; exact mapRead_normal _ _ (uleb_total _)
  by_cases h5 : opcode = 5
  · subst h5; simp only [parseStandard]; exact mapRead_normal _ _ (uleb_total _)
  by_cases h6 : opcode = 6
  · subst h6; simp [parseStandard, Out.Normal]
  by_cases h7 : opcode = 7
  · subst h7; simp [parseStandard, Out.Normal]
  by_cases h8 : opcode = 8
  · subst h8; simp [parseStandard, Out.Normal]
  by_cases h9 : opcode = 9
  · subst h9; simp only [parseStandard]; exact mapRead_normal _ _ (fixed_total _ _ _)
  by_cases h10 : opcode = 10
  · subst h10; simp [parseStandard, Out.Normal]
  by_cases h11 : opcode = 11
  · subst h11; simp [parseStandard, Out.Normal]
  by_cases h12 : opcode = 12
  · subst h12; simp only [parseStandard]; exact mapRead_normal _ _ (uleb_total _)
  simp only [parseStandard, h1, h2, h3, h4, h5, h6, h7, h8, h9, h10, h11, h12, ↓reduceIte]
  cases hd : h.stdLens.drop (opcode - 1) with
  | nil => trivial
  | cons n tl =>
    simp only
    by_cases hn0 : n.toNat = 0
    · simp [hn0, Out.Normal]
    by_cases hn1 : n.toNat = 1
    · simp only [hn1]; exact mapRead_normal _ _ (uleb_total _)
    simp only [hn0, hn1, ↓reduceIte]
    have := skipUlebs_normal n.toNat input
    cases hq : skipUlebs n.toNat input with
    | ok r => trivial
    | err e => trivial
    | panic w => rw [hq] at this; exact this
    | diverge => rw [hq] at this; exact this

/-- `LineInstruction::parse` returns a value or an error on every input -/
theorem parseInstr_normal (h : Params) (input : Bytes) : (parseInstr h input).Normal := by
  unfold parseInstr
  split
  · trivial
  · simp only
    split
    · have h1 := uleb_total ‹Bytes›
      split
      · rename_i len r1 _
        have h2 := take_normal len r1
        split
        · rename_i ext r2 _
          have h3 := parseExtended_normal h ext
          split
          · trivial
          · trivial
          · rename_i hq; rw [hq] at h3; exact h3
          · rename_i hq; rw [hq] at h3; exact h3
        · trivial
        · rename_i hq; rw [hq] at h2; exact h2
        · rename_i hq; rw [hq] at h2; exact h2
      · trivial
      · rename_i hq; rw [hq] at h1; exact h1
      · rename_i hq; rw [hq] at h1; exact h1
    · split
      · trivial
      · exact parseStandard_normal _ _ _


/-! ## fuel -/

/-- any fuel above the input length gives the same trace -/
theorem traceLoop_fuel (h : Params) : ∀ (f1 f2 : Nat) (row : Row) (inSeq : Bool) (input : Bytes),
    input.length < f1 → input.length < f2 →
    traceLoop h f1 row inSeq input = traceLoop h f2 row inSeq input := by
  intro f1
  induction f1 with
  | zero => intro f2 row inSeq input h1; omega
  | succ f1 ih =>
    intro f2 row inSeq input h1 h2
    cases f2 with
    | zero => omega
    | succ f2 =>
      rw [traceLoop, traceLoop]
      cases hp : parseInstr h input with
      | ok p =>
        obtain ⟨ins, rest⟩ := p
        have hc := parseInstr_consumes h input ins rest hp
        have key : ∀ row' b, traceLoop h f1 row' b rest = traceLoop h f2 row' b rest :=
          fun row' b => ih f2 row' b rest (by omega) (by omega)
        simp only [key]
      | err e => rfl
      | panic w => rfl
      | diverge => rfl

/-- one unfolding of `traceLoop` at the canonical fuel -/
theorem traceLoop_step (h : Params) (row : Row) (inSeq : Bool) (input : Bytes) (ins : Instr) (rest : Bytes)
    (hp : parseInstr h input = .ok (ins, rest)) :
    traceLoop h (input.length + 1) row inSeq input =
      match execute h row ins with
      | (row, .err e) => .err e :: traceLoop h (rest.length + 1) (reset h row) inSeq rest
      | (row, .noEmit) => traceLoop h (rest.length + 1) row inSeq rest
      | (row, .emit) =>
        if skipRow row inSeq then .hidden row :: traceLoop h (rest.length + 1) (reset h row) inSeq rest
        else .row row :: traceLoop h (rest.length + 1) (reset h row) (!row.endSequence) rest := by
  have hc := parseInstr_consumes h input ins rest hp
  have hne : input.isEmpty = false := by
    cases input with
    | nil => simp at hc
    | cons => rfl
  rw [traceLoop]
  simp only [hne, Bool.false_eq_true, ↓reduceIte, hp]
  have key : ∀ row' b, traceLoop h input.length row' b rest = traceLoop h (rest.length + 1) row' b rest :=
    fun row' b => traceLoop_fuel h _ _ row' b rest (by omega) (by omega)
  simp only [key]
  cases hex : execute h row ins with
  | mk r e => cases e <;> rfl

/-- **Termination.** With fuel above the input length the trace never contains `stuck`: the loop
of `next_row` ends because every instruction consumes at least one byte, and the decoder never
panics. -/
theorem traceLoop_not_stuck (h : Params) : ∀ (fuel : Nat) (row : Row) (inSeq : Bool) (input : Bytes),
    input.length < fuel → Ev.stuck ∉ traceLoop h fuel row inSeq input := by
  intro fuel
  induction fuel with
  | zero => intro row inSeq input hl; omega
  | succ fuel ih =>
    intro row inSeq input hl
    rw [traceLoop]
    split
    · simp
    · have hn := parseInstr_normal h input
      cases hp : parseInstr h input with
      | ok p =>
        obtain ⟨ins, rest⟩ := p
        have hc := parseInstr_consumes h input ins rest hp
        have key : ∀ row' b, Ev.stuck ∉ traceLoop h fuel row' b rest := fun row' b => ih row' b rest (by omega)
        simp only
        cases hex : execute h row ins with
        | mk r e =>
          cases e with
          | emit =>
            simp only
            split <;> simp [key]
          | noEmit => simp [key]
          | err e => simp [key]
      | err e => simp
      | panic w => rw [hp] at hn; exact absurd hn (by simp [Out.Normal])
      | diverge => rw [hp] at hn; exact absurd hn (by simp [Out.Normal])


end Gimli.Line
