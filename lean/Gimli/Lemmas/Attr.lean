import Gimli.Model.Attr
import Gimli.Lemmas.Ints
/-! Helper lemmas for C03 (attribute forms): what each primitive read consumes, the size table
against the decoder, LEB128 skipping against LEB128 reading, and the induction that ties
`skip_attributes` to `read_attributes`. The property theorems are in `Gimli/Props/C03.lean`. -/
namespace Gimli.Attr
open Gimli Gimli.Ints

/-- "exactly the first `n` bytes were consumed" -/
def Consumes (n : Nat) (bs rest : Bytes) : Prop := n ≤ bs.length ∧ rest = bs.drop n

theorem numV_ok {k : Kind} {r : Out (Nat × Bytes)} {v : Value} {rest : Bytes}
    (h : numV k r = .ok (v, rest)) : ∃ x, r = .ok (x, rest) ∧ v = ⟨k, .num x⟩ := by
  unfold numV at h
  cases r with
  | ok p =>
    obtain ⟨x, r'⟩ := p
    simp only [Out.bind_ok, Out.pure_eq, Out.ok.injEq, Prod.mk.injEq] at h
    exact ⟨x, by rw [h.2], h.1.symm⟩
  | err e => simp at h
  | panic w => simp at h
  | diverge => simp at h

theorem readFixed_consumes {e n bs v rest} (h : readFixed e n bs = .ok (v, rest)) : Consumes n bs rest := by
  obtain ⟨a, b, _, _⟩ := readFixed_ok e n bs v rest h
  exact ⟨a, b⟩

theorem readAddress_consumes {e n bs v rest} (h : readAddress e n bs = .ok (v, rest)) : Consumes n bs rest := by
  unfold readAddress at h
  split at h
  · exact readFixed_consumes h
  · simp at h

theorem bind_ok_inv {α β} {x : Out α} {f : α → Out β} {b : β} (h : (x >>= f) = .ok b) :
    ∃ a, x = .ok a ∧ f a = .ok b := by
  cases x with
  | ok a => exact ⟨a, rfl, by simpa using h⟩
  | err e => simp at h
  | panic w => simp at h
  | diverge => simp at h

theorem offsetFromU64_ok {ob v w} (h : offsetFromU64 ob v = .ok w) : w = v := by
  unfold offsetFromU64 at h; split at h <;> simp at h; exact h.symm

theorem readWord_consumes {e ob f bs v rest} (h : readWord e ob f bs = .ok (v, rest)) :
    Consumes f.wordSize bs rest := by
  cases f with
  | dwarf32 => exact readFixed_consumes h
  | dwarf64 =>
    simp only [readWord] at h
    obtain ⟨⟨x, r⟩, h1, h2⟩ := bind_ok_inv h
    obtain ⟨y, h3, h4⟩ := bind_ok_inv h2
    simp only [Out.pure_eq, Out.ok.injEq, Prod.mk.injEq] at h4
    rw [← h4.2]
    exact readFixed_consumes h1

theorem readSizedOffset_consumes {e ob n bs v rest} (h : readSizedOffset e ob n bs = .ok (v, rest)) :
    Consumes n bs rest := by
  unfold readSizedOffset at h
  split at h
  · obtain ⟨⟨x, r⟩, h1, h2⟩ := bind_ok_inv h
    obtain ⟨y, h3, h4⟩ := bind_ok_inv h2
    simp only [Out.pure_eq, Out.ok.injEq, Prod.mk.injEq] at h4
    rw [← h4.2]
    exact readFixed_consumes h1
  · simp at h

theorem readUint_consumes {e n bs v rest} (h : readUint e n bs = .ok (v, rest)) : Consumes n bs rest := by
  unfold readUint at h
  split at h
  · simp at h
  · obtain ⟨⟨a, r⟩, h1, h2⟩ := bind_ok_inv h
    simp only [Out.pure_eq, Out.ok.injEq, Prod.mk.injEq] at h2
    rw [← h2.2]
    unfold take at h1
    split at h1
    · simp only [Out.ok.injEq, Prod.mk.injEq] at h1
      exact ⟨by assumption, h1.2.symm⟩
    · simp at h1


theorem consumes_zero (bs : Bytes) : Consumes 0 bs bs := ⟨Nat.zero_le _, rfl⟩

theorem parseDirect_fixed {enc : Encoding} {spec : Spec} {form : Form} {bs : Bytes} {v : Value}
    {rest : Bytes} {n : Nat} (hsz : getAttributeSize form enc = some n)
    (h : parseDirect enc spec form bs = .ok (v, rest)) : Consumes n bs rest := by
  cases form <;> simp only [getAttributeSize, Option.some.injEq, reduceCtorEq] at hsz <;>
    subst hsz <;> simp only [parseDirect] at h
  case data4 =>
    split at h <;> obtain ⟨x, hx, _⟩ := numV_ok h
    · exact readWord_consumes hx
    · exact readFixed_consumes hx
  case data8 =>
    split at h <;> obtain ⟨x, hx, _⟩ := numV_ok h
    · exact readWord_consumes hx
    · exact readFixed_consumes hx
  case flag =>
    obtain ⟨⟨x, r⟩, h1, h2⟩ := bind_ok_inv h
    simp only [Out.pure_eq, Out.ok.injEq, Prod.mk.injEq] at h2
    rw [← h2.2]; exact readFixed_consumes h1
  case refAddr =>
    by_cases hv : enc.version = 2
    · simp only [hv, if_true] at h ⊢
      obtain ⟨x, hx, _⟩ := numV_ok h
      exact readSizedOffset_consumes hx
    · simp only [hv, if_false] at h ⊢
      obtain ⟨x, hx, _⟩ := numV_ok h
      exact readWord_consumes hx
  case flagPresent =>
    simp only [Out.ok.injEq, Prod.mk.injEq] at h
    rw [← h.2]; exact consumes_zero bs
  case implicitConst =>
    split at h
    · simp only [Out.ok.injEq, Prod.mk.injEq] at h
      rw [← h.2]; exact consumes_zero bs
    · simp at h
  all_goals
    obtain ⟨x, hx, _⟩ := numV_ok h
    first
      | exact readFixed_consumes hx
      | exact readAddress_consumes hx
      | exact readWord_consumes hx
      | exact readUint_consumes hx

/-! ### LEB128: what `skip_leb128` passes over is what the readers consume -/

theorem skip_of_unsignedLoop (bs : Bytes) : ∀ (r s v : Nat) (rest : Bytes),
    Leb.unsignedLoop bs r s = .ok (v, rest) → Leb.skip bs = .ok rest := by
  induction bs with
  | nil => intro r s v rest h; simp [Leb.unsignedLoop] at h
  | cons b tl ih =>
    intro r s v rest h
    rw [Leb.unsignedLoop] at h
    rw [Leb.skip]
    split at h
    · simp at h
    · simp only at h
      split at h
      · rename_i hb
        simp only [Out.ok.injEq, Prod.mk.injEq] at h
        simp [hb, h.2]
      · rename_i hb
        simp only [hb, if_false]
        exact ih _ _ _ _ h

theorem skip_of_unsigned {bs : Bytes} {v : Nat} {rest : Bytes}
    (h : Leb.unsigned bs = .ok (v, rest)) : Leb.skip bs = .ok rest := by
  cases bs with
  | nil => simp [Leb.unsigned] at h
  | cons b tl =>
    rw [Leb.unsigned] at h
    rw [Leb.skip]
    split at h
    · rename_i hb
      simp only [Out.ok.injEq, Prod.mk.injEq] at h
      simp [hb, h.2]
    · rename_i hb
      simp only [hb, if_false]
      exact skip_of_unsignedLoop _ _ _ _ _ h

theorem skip_of_signedLoop (bs : Bytes) : ∀ (r s : Nat) (x : Nat × Nat × UInt8 × Bytes),
    Leb.signedLoop bs r s = .ok x → Leb.skip bs = .ok x.2.2.2 := by
  induction bs with
  | nil => intro r s x h; simp [Leb.signedLoop] at h
  | cons b tl ih =>
    intro r s x h
    rw [Leb.signedLoop] at h
    rw [Leb.skip]
    split at h
    · simp at h
    · simp only at h
      split at h
      · rename_i hb
        simp only [Out.ok.injEq] at h
        simp [hb, ← h]
      · rename_i hb
        simp only [hb, if_false]
        exact ih _ _ _ h

theorem skip_of_signed {bs : Bytes} {v : Int} {rest : Bytes}
    (h : Leb.signed bs = .ok (v, rest)) : Leb.skip bs = .ok rest := by
  unfold Leb.signed at h
  split at h
  · rename_i res sh byte r hl
    simp only [Out.ok.injEq, Prod.mk.injEq] at h
    have := skip_of_signedLoop bs 0 0 _ hl
    simpa [h.2] using this
  all_goals simp at h

theorem skipN_of_consumes {n : Nat} {bs rest : Bytes} (h : Consumes n bs rest) : skipN n bs = .ok rest := by
  simp [skipN, h.1, h.2]

theorem take_consumes {n : Nat} {bs a rest : Bytes} (h : Ints.take n bs = .ok (a, rest)) :
    Consumes n bs rest := by
  unfold Ints.take at h
  split at h
  · simp only [Out.ok.injEq, Prod.mk.injEq] at h
    exact ⟨by assumption, h.2.symm⟩
  · simp at h

theorem skipBlock_of_blockV {k : Kind} {r : Out (Nat × Bytes)} {v : Value} {rest : Bytes}
    (h : blockV k r = .ok (v, rest)) : skipBlock r = .ok rest := by
  unfold blockV at h
  obtain ⟨⟨len, r1⟩, h1, h2⟩ := bind_ok_inv h
  obtain ⟨⟨b, r2⟩, h3, h4⟩ := bind_ok_inv h2
  simp only [Out.pure_eq, Out.ok.injEq, Prod.mk.injEq] at h4
  subst h1
  simp only [skipBlock, Out.bind_ok]
  rw [← h4.2]
  exact skipN_of_consumes (take_consumes h3)

/-- for every variably sized form other than `DW_FORM_indirect`, the skipping arm passes over
exactly what the reading arm consumes -/
theorem skipVar_of_parseDirect {enc : Encoding} {spec : Spec} {form : Form} {bs : Bytes} {v : Value}
    {rest : Bytes} (hsz : getAttributeSize form enc = none) (hni : form ≠ .indirect)
    (h : parseDirect enc spec form bs = .ok (v, rest)) : skipVar enc form bs = .ok rest := by
  cases form <;> simp only [getAttributeSize, reduceCtorEq] at hsz <;>
    simp only [parseDirect] at h <;> simp only [skipVar]
  case indirect => exact absurd rfl hni
  case unknown c => simp at h
  case string =>
    obtain ⟨⟨s, r⟩, h1, h2⟩ := bind_ok_inv h
    simp only [Out.pure_eq, Out.ok.injEq, Prod.mk.injEq] at h2
    simp [h1, h2.2]
  case sdata =>
    obtain ⟨⟨s, r⟩, h1, h2⟩ := bind_ok_inv h
    simp only [Out.pure_eq, Out.ok.injEq, Prod.mk.injEq] at h2
    rw [← h2.2]; exact skip_of_signed h1
  all_goals first
    | exact skipBlock_of_blockV h
    | (obtain ⟨x, hx, _⟩ := numV_ok h; exact skip_of_unsigned hx)

theorem parseLoop_succ_indirect (enc : Encoding) (spec : Spec) (fuel : Nat) (bs : Bytes) :
    parseLoop enc spec (fuel + 1) .indirect bs =
      (Leb.u16 bs >>= fun x => parseLoop enc spec fuel (Form.ofCode x.1) x.2) := by
  rw [parseLoop]

theorem parseLoop_succ_direct (enc : Encoding) (spec : Spec) (fuel : Nat) (form : Form) (bs : Bytes)
    (h : form ≠ .indirect) : parseLoop enc spec (fuel + 1) form bs = parseDirect enc spec form bs := by
  cases form <;> first | exact absurd rfl h | (rw [parseLoop]; exact h)

theorem skipOne_succ_fixed (enc : Encoding) (fuel : Nat) (form : Form) (p n : Nat) (bs : Bytes)
    (h : getAttributeSize form enc = some n) : skipOne enc (fuel + 1) form p bs = .ok (p + n, bs) := by
  rw [skipOne, h]

theorem skipOne_succ_indirect (enc : Encoding) (fuel : Nat) (p : Nat) (bs : Bytes) :
    skipOne enc (fuel + 1) .indirect p bs =
      (flush p bs >>= fun bs => Leb.u16 bs >>= fun x => skipOne enc fuel (Form.ofCode x.1) 0 x.2) := by
  rw [skipOne]; rfl

theorem skipOne_succ_var (enc : Encoding) (fuel : Nat) (form : Form) (p : Nat) (bs : Bytes)
    (hsz : getAttributeSize form enc = none) (h : form ≠ .indirect) :
    skipOne enc (fuel + 1) form p bs =
      (flush p bs >>= fun bs => skipVar enc form bs >>= fun r => pure (0, r)) := by
  cases form <;> first | exact absurd rfl h | (rw [skipOne, hsz]; try exact h)

theorem flush_ok {p : Nat} {bs : Bytes} (h : p ≤ bs.length) : flush p bs = .ok (bs.drop p) := by
  unfold flush
  split
  · simp [skipN, h]
  · rename_i h0
    have : p = 0 := by omega
    simp [this]

theorem getAttributeSize_indirect (enc : Encoding) : getAttributeSize .indirect enc = none := rfl

/-- one specification: if reading it from the input that lies `p` pending bytes ahead succeeds,
`skip_attributes`' body ends in a state (new pending count, input) that denotes the same position -/
theorem skipOne_of_parseLoop (enc : Encoding) (spec : Spec) : ∀ (f1 f2 : Nat) (form : Form) (p : Nat)
    (bs : Bytes) (v : Value) (rest : Bytes), f1 ≤ f2 → p ≤ bs.length →
    parseLoop enc spec f1 form (bs.drop p) = .ok (v, rest) →
    ∃ p' bs', skipOne enc f2 form p bs = .ok (p', bs') ∧ p' ≤ bs'.length ∧ rest = bs'.drop p' := by
  intro f1
  induction f1 with
  | zero => intro f2 form p bs v rest _ _ h; simp [parseLoop] at h
  | succ f1 ih =>
    intro f2 form p bs v rest hf hp h
    obtain ⟨f2, rfl⟩ : ∃ k, f2 = k + 1 := ⟨f2 - 1, by omega⟩
    cases hsz : getAttributeSize form enc with
    | some n =>
      have hni : form ≠ .indirect := by
        intro hi; rw [hi, getAttributeSize_indirect] at hsz; simp at hsz
      rw [parseLoop_succ_direct _ _ _ _ _ hni] at h
      obtain ⟨h1, h2⟩ := parseDirect_fixed hsz h
      rw [skipOne_succ_fixed _ _ _ _ _ _ hsz]
      refine ⟨p + n, bs, rfl, ?_, ?_⟩
      · simp only [List.length_drop] at h1; omega
      · rw [h2, List.drop_drop]
    | none =>
      by_cases hi : form = .indirect
      · subst hi
        rw [parseLoop_succ_indirect] at h
        obtain ⟨⟨c, r1⟩, h1, h2⟩ := bind_ok_inv h
        rw [skipOne_succ_indirect, flush_ok hp, Out.bind_ok, h1, Out.bind_ok]
        have := ih f2 (Form.ofCode c) 0 r1 v rest (by omega) (Nat.zero_le _) (by simpa using h2)
        exact this
      · rw [parseLoop_succ_direct _ _ _ _ _ hi] at h
        have hs := skipVar_of_parseDirect hsz hi h
        rw [skipOne_succ_var _ _ _ _ _ hsz hi, flush_ok hp, Out.bind_ok, hs]
        exact ⟨0, rest, rfl, Nat.zero_le _, by simp⟩

/-- **skipping equals reading**, generalised over the pending skip count -/
theorem skipLoop_of_readAttributes (enc : Encoding) : ∀ (specs : List Spec) (p : Nat) (bs : Bytes)
    (vs : List Value) (rest : Bytes), p ≤ bs.length →
    readAttributes enc specs (bs.drop p) = .ok (vs, rest) → skipLoop enc specs p bs = .ok rest := by
  intro specs
  induction specs with
  | nil =>
    intro p bs vs rest hp h
    simp only [readAttributes, Out.ok.injEq, Prod.mk.injEq] at h
    rw [skipLoop, flush_ok hp, h.2]
  | cons s ss ih =>
    intro p bs vs rest hp h
    rw [readAttributes] at h
    obtain ⟨⟨v, r1⟩, h1, h2⟩ := bind_ok_inv h
    obtain ⟨⟨vs', r2⟩, h3, h4⟩ := bind_ok_inv h2
    simp only [Out.pure_eq, Out.ok.injEq, Prod.mk.injEq] at h4
    unfold parseAttribute at h1
    obtain ⟨p', bs', hs, hp', hr⟩ :=
      skipOne_of_parseLoop enc s _ (bs.length + 1) s.form p bs v r1
        (by simp only [List.length_drop]; omega) hp h1
    rw [skipLoop, hs, Out.bind_ok]
    rw [hr] at h3
    rw [← h4.2]
    exact ih p' bs' vs' r2 hp' h3

end Gimli.Attr
