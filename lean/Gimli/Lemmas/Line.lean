import Gimli.Model.Line
import Gimli.Spec.Line
import Gimli.Lemmas.Leb
import Gimli.Lemmas.Ints
/-! Helper lemmas for C04 (line-number programs). -/
namespace Gimli.Line
open Gimli Gimli.Spec.Line

/-! ## register arithmetic -/

theorem addSized_some {a l s x : Nat} (h : addSized a l s = some x) :
    x = a + l ∧ x ≤ onesSized s := by
  unfold addSized at h
  split at h
  · split at h
    · simp at h; subst h; exact ⟨rfl, by assumption⟩
    · simp at h
  · simp at h

theorem minTombstone_le (size : Nat) : minTombstone size ≤ onesSized size + 1 := by
  unfold minTombstone onesSized
  have : 0 < 2 ^ (8 * size) := Nat.two_pow_pos _
  have := Nat.mod_lt (2 ^ 64 - 2) this
  omega

/-- what `apply_operation_advance` can change -/
theorem applyOperationAdvance_inv (h : Params) (row : Row) (adv : Nat) :
    row.address ≤ (applyOperationAdvance h row adv).1.address ∧
    (row.address ≤ onesSized h.addrSize →
      (applyOperationAdvance h row adv).1.address ≤ onesSized h.addrSize) ∧
    (applyOperationAdvance h row adv).1.endSequence = row.endSequence ∧
    (applyOperationAdvance h row adv).1.tombstone = row.tombstone := by
  unfold applyOperationAdvance
  split
  · simp
  · simp only
    split
    · rename_i a ha
      have := addSized_some ha
      exact ⟨by simp only; omega, by intro _; simp only; omega, rfl, rfl⟩
    · simp

theorem applyLineAdvance_inv (row : Row) (i : Int) :
    (applyLineAdvance row i).address = row.address ∧
    (applyLineAdvance row i).endSequence = row.endSequence ∧
    (applyLineAdvance row i).tombstone = row.tombstone ∧
    (applyLineAdvance row i).opIndex = row.opIndex := by
  unfold applyLineAdvance
  split
  · simp only; split <;> simp
  · simp

theorem execSpecial_inv (h : Params) (row : Row) (op : Nat) :
    row.address ≤ (execSpecial h row op).1.address ∧
    (row.address ≤ onesSized h.addrSize → (execSpecial h row op).1.address ≤ onesSized h.addrSize) ∧
    (execSpecial h row op).1.endSequence = row.endSequence ∧
    (execSpecial h row op).1.tombstone = row.tombstone := by
  unfold execSpecial
  simp only
  have h1 := applyLineAdvance_inv row (h.lineBase + ((adjustOpcode h op % h.lineRange : Nat) : Int))
  have h2 := applyOperationAdvance_inv h
    (applyLineAdvance row (h.lineBase + ((adjustOpcode h op % h.lineRange : Nat) : Int)))
    (adjustOpcode h op / h.lineRange)
  rw [h1.1, h1.2.1, h1.2.2.1] at h2
  exact h2

/-- **The address register never decreases and never leaves the address size, whatever is
executed**; only `DW_LNE_end_sequence` sets the `end_sequence` flag, and an instruction that
fails or produces no row leaves it alone. -/
theorem execute_inv (h : Params) (row : Row) (ins : Instr) :
    row.address ≤ (execute h row ins).1.address ∧
    (row.address ≤ onesSized h.addrSize → (execute h row ins).1.address ≤ onesSized h.addrSize) ∧
    ((execute h row ins).2 ≠ .emit → (execute h row ins).1.endSequence = row.endSequence) := by
  cases ins with
  | special op =>
    have := execSpecial_inv h row op
    simp only [execute]
    exact ⟨this.1, this.2.1, fun _ => this.2.2.1⟩
  | advancePc n =>
    have := applyOperationAdvance_inv h row n
    simp only [execute]
    exact ⟨this.1, this.2.1, fun _ => this.2.2.1⟩
  | constAddPc =>
    have := applyOperationAdvance_inv h row (adjustOpcode h 255 / h.lineRange)
    simp only [execute]
    exact ⟨this.1, this.2.1, fun _ => this.2.2.1⟩
  | advanceLine i =>
    have := applyLineAdvance_inv row i
    simp only [execute]
    rw [this.1, this.2.1]
    simp
  | fixedAddPc n =>
    simp only [execute]
    split
    · simp
    · split
      · rename_i a ha
        have := addSized_some ha
        exact ⟨by simp only; omega, by intro _; simp only; omega, fun _ => rfl⟩
      · simp
  | setAddress a =>
    simp only [execute]
    split
    · simp
    · rename_i hn
      simp only [Bool.or_eq_true, decide_eq_true_eq, not_or, Nat.not_lt, ge_iff_le, Nat.not_le] at hn
      have := minTombstone_le h.addrSize
      exact ⟨by simp only; omega, by intro _; simp only; omega, fun _ => rfl⟩
  | endSequence => simp [execute]
  | _ => simp [execute]

theorem reset_endSequence (h : Params) (row : Row) : (reset h row).endSequence = false := by
  unfold reset
  split
  · rfl
  · simp only; simpa using ‹¬row.endSequence = true›

theorem reset_address (h : Params) (row : Row) :
    (reset h row).address = if row.endSequence then 0 else row.address := by
  unfold reset
  split <;> simp [Row.new]

theorem reset_new (h : Params) : reset h (Row.new h) = Row.new h := by
  simp [reset, Row.new]

/-! ## monotone addresses on every input -/

theorem skipRow_end {row : Row} {inSeq : Bool} (hs : skipRow row inSeq = true)
    (he : row.endSequence = true) : inSeq = false := by
  unfold skipRow at hs
  rw [he] at hs
  cases inSeq <;> simp_all

/-- the invariant of `next_row`: `lo` (address of the last returned row of the sequence, 0 at its
start) is at most the address register, which is at most the mask; `in_sequence = false` means no
row of the sequence has been returned, i.e. `lo = 0` -/
theorem traceLoop_mono (h : Params) (fuel : Nat) : ∀ (row : Row) (inSeq : Bool) (input : Bytes) (lo : Nat),
    row.endSequence = false → lo ≤ row.address → row.address ≤ onesSized h.addrSize →
    (inSeq = false → lo = 0) →
    MonoObserved h.addrSize lo (traceLoop h fuel row inSeq input) := by
  induction fuel with
  | zero => intro row inSeq input lo _ _ _ _; simp [traceLoop, MonoObserved]
  | succ fuel ih =>
    intro row inSeq input lo hes hlo hmask hseq
    rw [traceLoop]
    split
    · simp [MonoObserved]
    · split
      · simp [MonoObserved]
      · simp [MonoObserved]
      · simp [MonoObserved]
      · rename_i ins rest _
        have hinv := execute_inv h row ins
        split
        · -- execute error
          rename_i row' e hex
          rw [hex] at hinv
          simp only [ne_eq, reduceCtorEq, not_false_eq_true, forall_const] at hinv
          simp only [MonoObserved]
          apply ih
          · exact reset_endSequence h row'
          · rw [reset_address, hinv.2.2, hes]; simp; omega
          · rw [reset_address, hinv.2.2, hes]; simp; exact hinv.2.1 hmask
          · exact hseq
        · rename_i row' hex
          rw [hex] at hinv
          simp only [ne_eq, reduceCtorEq, not_false_eq_true, forall_const] at hinv
          apply ih
          · rw [hinv.2.2]; exact hes
          · omega
          · exact hinv.2.1 hmask
          · exact hseq
        · rename_i row' hex
          rw [hex] at hinv
          dsimp only at hinv
          have hb := hinv.2.1 hmask
          split
          · -- swallowed
            rename_i hskip
            simp only [MonoObserved]
            apply ih
            · exact reset_endSequence h row'
            · rw [reset_address]
              cases hE : row'.endSequence
              · simp; omega
              · have := hseq (skipRow_end hskip hE); simp; omega
            · rw [reset_address]; cases row'.endSequence <;> simp <;> omega
            · exact hseq
          · simp only [MonoObserved]
            refine ⟨by omega, hb, ?_⟩
            apply ih
            · exact reset_endSequence h row'
            · rw [reset_address]; cases row'.endSequence <;> simp
            · rw [reset_address]; cases row'.endSequence <;> simp <;> omega
            · cases row'.endSequence <;> simp

theorem monoObserved_filter (size : Nat) (evs : List Ev) : ∀ lo,
    MonoObserved size lo evs → MonoObserved size lo (evs.filter Ev.visible) := by
  induction evs with
  | nil => intro lo _; simp [MonoObserved]
  | cons e evs ih =>
    intro lo hm
    cases e with
    | row r =>
      simp only [MonoObserved] at hm
      simp only [List.filter, Ev.visible, MonoObserved]
      exact ⟨hm.1, hm.2.1, ih _ hm.2.2⟩
    | err e =>
      simp only [MonoObserved] at hm
      simp only [List.filter, Ev.visible, MonoObserved]
      exact ih _ hm
    | hidden r =>
      simp only [MonoObserved] at hm
      simp only [List.filter, Ev.visible]
      exact ih _ hm
    | stuck =>
      simp only [MonoObserved] at hm
      simp only [List.filter, Ev.visible, MonoObserved]
      exact ih _ hm

theorem row_bound_of_observed (size : Nat) (evs : List Ev) : ∀ lo,
    MonoObserved size lo evs → ∀ r, Ev.row r ∈ evs → r.address ≤ onesSized size := by
  induction evs with
  | nil => intro lo _ r hr; simp at hr
  | cons e evs ih =>
    intro lo hm r hr
    cases e with
    | row r' =>
      simp only [MonoObserved] at hm
      simp only [List.mem_cons, Ev.row.injEq] at hr
      rcases hr with rfl | hr
      · exact hm.2.1
      · exact ih _ hm.2.2 r hr
    | err e =>
      simp only [MonoObserved] at hm
      simp only [List.mem_cons, reduceCtorEq, false_or] at hr
      exact ih _ hm r hr
    | hidden r' =>
      simp only [MonoObserved] at hm
      simp only [List.mem_cons, reduceCtorEq, false_or] at hr
      exact ih _ hm r hr
    | stuck =>
      simp only [MonoObserved] at hm
      simp only [List.mem_cons, reduceCtorEq, false_or] at hr
      exact ih _ hm r hr

/-! ## refinement of the Spec machine -/

theorem onesSized_lt (size : Nat) (h : size ≤ 8) : onesSized size < 2 ^ 64 := by
  unfold onesSized
  have : 2 ^ (8 * size) ≤ 2 ^ 64 := Nat.pow_le_pow_right (by decide) (by omega)
  have : 0 < 2 ^ (8 * size) := Nat.two_pow_pos _
  omega

/-- operation advance without wrap-around is the Spec's -/
theorem applyOperationAdvance_spec (h : Params) (r : Regs) (adv : Nat)
    (hsz : h.addrSize ≤ 8) (hmax : 1 ≤ h.maxOps) (hop : r.opIndex < h.maxOps)
    (hadv : r.opIndex + adv < 2 ^ 64)
    (hfit : (advance h r adv).address < 2 ^ (8 * h.addrSize)) :
    applyOperationAdvance h (toRow r) adv = (toRow (advance h r adv), none) := by
  have hones := onesSized_lt h.addrSize hsz
  have hpos : 0 < 2 ^ (8 * h.addrSize) := Nat.two_pow_pos _
  unfold applyOperationAdvance operationPointer
  simp only [toRow, advance] at hfit ⊢
  simp only [Bool.false_eq_true, ↓reduceIte]
  by_cases h1 : h.maxOps = 1
  · simp only [h1, ↓reduceIte, Nat.div_one, Nat.mod_one] at hfit ⊢
    have hop0 : r.opIndex = 0 := by omega
    rw [hop0] at hfit ⊢
    simp only [Nat.zero_add] at hfit ⊢
    have : h.minInstLen * adv < 2 ^ 64 := by unfold onesSized at hones; omega
    rw [Nat.mod_eq_of_lt this]
    have : addSized r.address (h.minInstLen * adv) h.addrSize = some (r.address + h.minInstLen * adv) := by
      unfold addSized onesSized at *
      rw [if_pos (by omega), if_pos (by omega)]
    rw [this]
  · simp only [h1, ↓reduceIte]
    rw [Nat.mod_eq_of_lt hadv]
    have : h.minInstLen * ((r.opIndex + adv) / h.maxOps) < 2 ^ 64 := by unfold onesSized at hones; omega
    rw [Nat.mod_eq_of_lt this]
    have : addSized r.address (h.minInstLen * ((r.opIndex + adv) / h.maxOps)) h.addrSize =
        some (r.address + h.minInstLen * ((r.opIndex + adv) / h.maxOps)) := by
      unfold addSized onesSized at *
      rw [if_pos (by omega), if_pos (by omega)]
    rw [this]

/-- line advance that stays inside `0 .. 2^64` is the Spec's -/
theorem applyLineAdvance_spec (r : Regs) (inc : Int) (h0 : 0 ≤ r.line)
    (hlo : 0 ≤ r.line + inc) (hhi : r.line + inc < 2 ^ 64) :
    applyLineAdvance (toRow r) inc = toRow { r with line := r.line + inc } := by
  unfold applyLineAdvance
  by_cases hneg : inc < 0
  · have hc : inc.natAbs ≤ r.line.toNat := by omega
    have he : r.line.toNat - inc.natAbs = (r.line + inc).toNat := by omega
    simp [toRow, hneg, hc, he]
  · have : (r.line.toNat + inc.toNat) < 2 ^ 64 := by omega
    have he : r.line.toNat + inc.toNat = (r.line + inc).toNat := by omega
    simp [toRow, hneg, he]
    omega


theorem minTombstone_valid (size : Nat) (h : size = 1 ∨ size = 2 ∨ size = 4 ∨ size = 8) :
    minTombstone size = 2 ^ (8 * size) - 2 := by
  rcases h with h | h | h | h <;> subst h <;> decide

theorem regsOk_iff (h : Params) (r : Regs) :
    RegsOk h r = true ↔ r.address < 2 ^ (8 * h.addrSize) ∧ 0 ≤ r.line ∧ r.line < 2 ^ 64 := by
  simp [RegsOk]

/-- **One instruction**: on a well-formed step the Model's `execute` computes exactly the Spec's
`step` (same registers, same "append a row" decision, no error, no tombstone). -/
theorem execute_spec (h : Params) (hv : h.Valid) (r : Regs) (i : Instr)
    (hop : r.opIndex < h.maxOps) (hr : RegsOk h r = true)
    (hi : InstrOk h i = true) (hs : StepOk h r i = true)
    (hr' : RegsOk h (step h r i).1 = true) :
    execute h (toRow r) i =
      (toRow (step h r i).1, if (step h r i).2 then .emit else .noEmit) ∧
    (step h r i).1.opIndex < h.maxOps := by
  obtain ⟨_, _, hsz, hmin1, hmin2, hmax1, hmax2, hlb1, hlb2, hlr1, hlr2, hob1, hob2, _, _⟩ := hv
  have hsz8 : h.addrSize ≤ 8 := by omega
  rw [regsOk_iff] at hr hr'
  have hmodlt : ∀ x, x % h.maxOps < h.maxOps := fun x => Nat.mod_lt _ (by omega)
  cases i with
  | special op =>
    simp only [InstrOk, decide_eq_true_eq] at hi
    simp only [step, advance] at hr' ⊢
    have hdiv : (op - h.opcodeBase) / h.lineRange ≤ 255 := by
      have : (op - h.opcodeBase) / h.lineRange ≤ op - h.opcodeBase := Nat.div_le_self _ _
      omega
    have hl := applyLineAdvance_spec r (h.lineBase + (((op - h.opcodeBase) % h.lineRange : Nat) : Int))
      hr.2.1 hr'.2.1 hr'.2.2
    have ha := applyOperationAdvance_spec h
      { r with line := r.line + (h.lineBase + (((op - h.opcodeBase) % h.lineRange : Nat) : Int)) }
      ((op - h.opcodeBase) / h.lineRange) hsz8 hmax1 hop (by simp only; omega)
      (by simp only [advance]; exact hr'.1)
    refine ⟨?_, hmodlt _⟩
    simp only [execute, execSpecial, adjustOpcode]
    rw [hl, ha]
    simp [Exec.ofAdv, advance]
  | advancePc n =>
    simp only [StepOk, decide_eq_true_eq] at hs
    simp only [step] at hr' ⊢
    have ha := applyOperationAdvance_spec h r n hsz8 hmax1 hop hs hr'.1
    refine ⟨?_, hmodlt _⟩
    simp only [execute]
    rw [ha]
    simp [Exec.ofAdv]
  | constAddPc =>
    simp only [step] at hr' ⊢
    have hdiv : (255 - h.opcodeBase) / h.lineRange ≤ 255 := by
      have : (255 - h.opcodeBase) / h.lineRange ≤ 255 - h.opcodeBase := Nat.div_le_self _ _
      omega
    have ha := applyOperationAdvance_spec h r ((255 - h.opcodeBase) / h.lineRange) hsz8 hmax1 hop
      (by omega) hr'.1
    refine ⟨?_, hmodlt _⟩
    simp only [execute, adjustOpcode]
    rw [ha]
    simp [Exec.ofAdv]
  | advanceLine n =>
    simp only [step] at hr' ⊢
    have hl := applyLineAdvance_spec r n hr.2.1 hr'.2.1 hr'.2.2
    refine ⟨?_, hop⟩
    simp only [execute]
    rw [hl]
    simp
  | fixedAddPc n =>
    simp only [step] at hr' ⊢
    refine ⟨?_, by omega⟩
    have hones := onesSized_lt h.addrSize hsz8
    have : addSized r.address n h.addrSize = some (r.address + n) := by
      unfold addSized onesSized at *
      rw [if_pos (by omega), if_pos (by omega)]
    simp [execute, toRow, this]
  | setAddress a =>
    simp only [StepOk, decide_eq_true_eq] at hs
    simp only [step] at hr' ⊢
    refine ⟨?_, by omega⟩
    have hm := minTombstone_valid h.addrSize hsz
    have h1 : ¬ a < r.address := by omega
    have h2 : ¬ a ≥ minTombstone h.addrSize := by omega
    simp [execute, toRow, h1, h2]
  | copy => exact ⟨by simp [execute, step], hop⟩
  | setFile n => exact ⟨by simp [execute, step, toRow], hop⟩
  | setColumn n => exact ⟨by simp [execute, step, toRow], hop⟩
  | negateStatement => exact ⟨by simp [execute, step, toRow], hop⟩
  | setBasicBlock => exact ⟨by simp [execute, step, toRow], hop⟩
  | setPrologueEnd => exact ⟨by simp [execute, step, toRow], hop⟩
  | setEpilogueBegin => exact ⟨by simp [execute, step, toRow], hop⟩
  | setIsa n => exact ⟨by simp [execute, step, toRow], hop⟩
  | unknownStandard0 _ => exact ⟨by simp [execute, step], hop⟩
  | unknownStandard1 _ _ => exact ⟨by simp [execute, step], hop⟩
  | unknownStandardN _ _ => exact ⟨by simp [execute, step], hop⟩
  | endSequence => exact ⟨by simp [execute, step, toRow], hop⟩
  | defineFile _ => exact ⟨by simp [execute, step], hop⟩
  | setDiscriminator n => exact ⟨by simp [execute, step, toRow], hop⟩
  | unknownExtended _ _ => exact ⟨by simp [execute, step], hop⟩



/-- `traceLoop` on an already decoded program -/
def traceInstrs (h : Params) : Row → Bool → List Instr → List Ev
  | _, _, [] => []
  | row, inSeq, ins :: is =>
    match execute h row ins with
    | (row, .err e) => .err e :: traceInstrs h (reset h row) inSeq is
    | (row, .noEmit) => traceInstrs h row inSeq is
    | (row, .emit) =>
      if skipRow row inSeq then .hidden row :: traceInstrs h (reset h row) inSeq is
      else .row row :: traceInstrs h (reset h row) (!row.endSequence) is

/-- if the whole program decodes, running the bytes is running the decoded instructions -/
theorem traceLoop_decodeAll (h : Params) (fuel : Nat) :
    ∀ (row : Row) (inSeq : Bool) (input : Bytes) (prog : List Instr),
    decodeAll h fuel input = .ok prog → traceLoop h fuel row inSeq input = traceInstrs h row inSeq prog := by
  induction fuel with
  | zero => intro row inSeq input prog hd; simp [decodeAll] at hd
  | succ fuel ih =>
    intro row inSeq input prog hd
    rw [decodeAll] at hd
    rw [traceLoop]
    split at hd
    · rename_i he
      simp only [Out.ok.injEq] at hd
      subst hd
      simp [he, traceInstrs]
    · rename_i he
      simp only [he]
      split at hd
      · rename_i ins rest hp
        split at hd <;> try (simp at hd)
        rename_i is hrest
        subst hd
        have ih' := fun row b => ih row b rest is hrest
        simp only [hp, traceInstrs, ih', Bool.false_eq_true, ↓reduceIte]
        cases hex : execute h row ins with
        | mk r' e => cases e <;> rfl
      · simp at hd
      · simp at hd
      · simp at hd

theorem ofRegs_afterRow (h : Params) (r : Regs) :
    toRow (afterRow h r) = reset h (toRow r) := by
  unfold afterRow reset
  cases hE : r.endSequence <;> simp [toRow, hE, init, Row.new]

/-- **Well-formed programs**: the instruction-level Model produces exactly the Spec rows -/
theorem traceInstrs_spec (h : Params) (hv : h.Valid) (prog : List Instr) : ∀ (r : Regs) (inSeq : Bool),
    r.opIndex < h.maxOps → RegsOk h r = true → WFFrom h r prog = true →
    traceInstrs h (toRow r) inSeq prog = (rowsFrom h r prog).map (fun x => Ev.row (toRow x)) := by
  induction prog with
  | nil => intro r _ _ _ _; simp [traceInstrs, rowsFrom]
  | cons i is ih =>
    intro r inSeq hop hr hwf
    rw [WFFrom] at hwf
    simp only [Bool.and_eq_true] at hwf
    obtain ⟨⟨hi, hs⟩, hrest⟩ := hwf
    rw [traceInstrs, rowsFrom]
    cases hst : step h r i with
    | mk r' emit =>
      rw [hst] at hrest
      cases emit with
      | true =>
        simp only [Bool.and_eq_true] at hrest
        have hx := execute_spec h hv r i hop hr hi hs (by rw [hst]; exact hrest.1)
        rw [hst] at hx
        simp only [↓reduceIte] at hx
        rw [hx.1]
        simp only [skipRow, toRow, Bool.false_and, Bool.false_eq_true, ↓reduceIte, List.map_cons]
        congr 1
        have := ih (afterRow h r') (!r'.endSequence) (by
            unfold afterRow; split
            · simp [init]; obtain ⟨_, _, _, _, _, hm, _⟩ := hv; omega
            · exact hx.2) (by
            have := hrest.1
            rw [regsOk_iff] at this ⊢
            unfold afterRow; split
            · simp [init]; exact Nat.two_pow_pos _
            · exact this) hrest.2
        rw [ofRegs_afterRow] at this
        exact this
      | false =>
        simp only [Bool.and_eq_true] at hrest
        have hx := execute_spec h hv r i hop hr hi hs (by rw [hst]; exact hrest.1)
        rw [hst] at hx
        simp only [Bool.false_eq_true, ↓reduceIte] at hx
        rw [hx.1]
        exact ih r' inSeq hx.2 hrest.1 hrest.2

/-! ## special opcodes, closed form -/

theorem applyLineAdvance_eq (row : Row) (inc : Int) (hl : row.line < 2 ^ 64) :
    applyLineAdvance row inc =
      { row with line := if (row.line : Int) + inc < 0 then 0 else ((row.line : Int) + inc).toNat % 2 ^ 64 } := by
  unfold applyLineAdvance
  by_cases hneg : inc < 0
  · simp only [hneg, ↓reduceIte]
    by_cases hc : inc.natAbs ≤ row.line
    · have h1 : ¬ (row.line : Int) + inc < 0 := by omega
      have h3 : ((row.line : Int) + inc).toNat = row.line - inc.natAbs := by omega
      have h2 : ((row.line : Int) + inc).toNat % 2 ^ 64 = row.line - inc.natAbs := by
        rw [h3]; apply Nat.mod_eq_of_lt; omega
      simp only [hc, ↓reduceIte, h1, h2]
    · have h1 : (row.line : Int) + inc < 0 := by omega
      simp only [hc, ↓reduceIte, h1]
  · have h1 : ¬ (row.line : Int) + inc < 0 := by omega
    have h3 : ((row.line : Int) + inc).toNat = row.line + inc.toNat := by omega
    simp only [hneg, ↓reduceIte, h1, h3]

theorem operationPointer_small (h : Params) (opIndex adv : Nat) (_hmax1 : 1 ≤ h.maxOps)
    (hidx : opIndex < h.maxOps) (hsum : opIndex + adv < 2 ^ 64)
    (hprod : h.minInstLen * ((opIndex + adv) / h.maxOps) < 2 ^ 64) :
    operationPointer h opIndex adv =
      ((opIndex + adv) % h.maxOps, h.minInstLen * ((opIndex + adv) / h.maxOps)) := by
  unfold operationPointer
  by_cases h1 : h.maxOps = 1
  · have : opIndex = 0 := by omega
    subst this
    simp only [h1, ↓reduceIte, Nat.zero_add, Nat.mod_one, Nat.div_one] at hprod ⊢
    rw [Nat.mod_eq_of_lt hprod]
  · simp only [h1, ↓reduceIte]
    rw [Nat.mod_eq_of_lt hsum, Nat.mod_eq_of_lt hprod]

/-- `apply_operation_advance` without wrap-around in the `Wrapping<u64>` arithmetic -/
theorem applyOperationAdvance_eq (h : Params) (row : Row) (adv : Nat) (hnt : row.tombstone = false)
    (hsz : h.addrSize ≤ 8) (hmax1 : 1 ≤ h.maxOps) (hidx : row.opIndex < h.maxOps)
    (hsum : row.opIndex + adv < 2 ^ 64)
    (hprod : h.minInstLen * ((row.opIndex + adv) / h.maxOps) < 2 ^ 64) :
    applyOperationAdvance h row adv =
      if row.address + h.minInstLen * ((row.opIndex + adv) / h.maxOps) ≤ onesSized h.addrSize then
        ({ row with opIndex := (row.opIndex + adv) % h.maxOps,
                    address := row.address + h.minInstLen * ((row.opIndex + adv) / h.maxOps) }, none)
      else ({ row with opIndex := (row.opIndex + adv) % h.maxOps }, some .rAddressOverflow) := by
  have hptr := operationPointer_small h row.opIndex adv hmax1 hidx hsum hprod
  have hones := onesSized_lt h.addrSize hsz
  unfold applyOperationAdvance
  rw [if_neg (by rw [hnt]; decide)]
  simp only [hptr]
  unfold addSized
  by_cases hfit : row.address + h.minInstLen * ((row.opIndex + adv) / h.maxOps) ≤ onesSized h.addrSize
  · have : row.address + h.minInstLen * ((row.opIndex + adv) / h.maxOps) < 2 ^ 64 := by omega
    simp only [this, hfit, ↓reduceIte]
  · simp only [hfit, ↓reduceIte, ite_self]


end Gimli.Line
