import Gimli.Lemmas.ConvOpNest
/-!
# C12 expression component: operand ranges

`parse_rwf`: every operand C07's decoder yields is in the range of its Rust type (`RWf`), for every
opcode — a small "every returned operation satisfies P" calculus over the `Out` monad with the
postconditions of the operand readers (C09). `convertOp_wf`: conversion carries reader ranges to
the writer's (`WOp.OpWf`).
-/
set_option linter.unusedSimpArgs false
set_option linter.unusedVariables false
namespace Gimli.ConvOp
open Gimli.Op (Encoding)

/-- a converted operation is in the writer's operand ranges when the decoded one was in the reader's -/
theorem convertOp_wf (env : Env) (henv : EnvRanges env) (enc : Encoding) (offsets : List Nat) (endOff : Nat)
    (sub : Bytes → CR (List WOp.Operation)) (r : Op.Operation) (w : WOp.Operation)
    (hr : RWf enc r) (h : convertOp env enc offsets endOff sub r = .ok w) : WOp.OpWf w := by
  cases r <;> simp only [convertOp] at h
  case deref bt size space =>
    split at h
    · rename_i hbt
      simp only [except_bind_ok, pure, Except.pure, Except.ok.injEq] at h
      obtain ⟨id, _, rfl⟩ := h
      simp only [RWf] at hr
      rcases hr with hr | ⟨h0, _⟩
      · exact hr
      · exact absurd h0 hbt
    · split at h <;> rename_i hs <;> simp only [pure, Except.pure, Except.ok.injEq] at h <;> subst h
      · simp only [RWf] at hr
        rcases hr with hr | ⟨_, h1⟩
        · exact hr
        · exact absurd h1 hs
      · trivial
  case registerOffset rg o bt =>
    simp only [RWf] at hr
    split at h
    · simp only [except_bind_ok, pure, Except.pure, Except.ok.injEq] at h
      obtain ⟨id, _, rfl⟩ := h
      exact hr.1
    · simp only [pure, Except.pure, Except.ok.injEq] at h; subst h; exact ⟨hr.1, hr.2.1⟩
  case piece bits bo =>
    cases bo with
    | none =>
      simp only [pure, Except.pure, Except.ok.injEq] at h; subst h
      simp only [RWf] at hr
      show bits / 8 < 2 ^ 64
      omega
    | some o =>
      simp only [pure, Except.pure, Except.ok.injEq] at h; subst h
      exact hr
  case address a =>
    split at h
    · rename_i x hx
      simp only [pure, Except.pure, Except.ok.injEq] at h; subst h
      cases x with
      | constant v => exact henv.address a v hx
      | symbol s ad => trivial
    · cases h
  case addressIndex i =>
    split at h
    · cases h
    · simp only [except_bind_ok] at h
      obtain ⟨v, hv, h⟩ := h
      split at h
      · rename_i x hx
        simp only [pure, Except.pure, Except.ok.injEq] at h; subst h
        cases x with
        | constant c => exact henv.address v c hx
        | symbol s ad => trivial
      · cases h
  case constantIndex i =>
    split at h
    · cases h
    · rename_i f hf
      simp only [except_bind_ok, pure, Except.pure, Except.ok.injEq] at h
      obtain ⟨v, hv, rfl⟩ := h
      exact henv.index f i v hf hv
  case call d =>
    cases d <;> simp only [except_bind_ok, pure, Except.pure, Except.ok.injEq] at h <;> obtain ⟨_, _, rfl⟩ := h <;> trivial
  case convert bt =>
    split at h
    · simp only [pure, Except.pure, Except.ok.injEq] at h; subst h; trivial
    · simp only [except_bind_ok, pure, Except.pure, Except.ok.injEq] at h; obtain ⟨_, _, rfl⟩ := h; trivial
  case reinterpret bt =>
    split at h
    · simp only [pure, Except.pure, Except.ok.injEq] at h; subst h; trivial
    · simp only [except_bind_ok, pure, Except.pure, Except.ok.injEq] at h; obtain ⟨_, _, rfl⟩ := h; trivial
  all_goals
    first
      | (simp only [pure, Except.pure, Except.ok.injEq] at h; subst h
         first | exact hr | trivial | (simp [WOp.OpWf, WOp.simpleImage]))
      | (simp only [except_bind_ok, pure, Except.pure, Except.ok.injEq] at h; obtain ⟨_, _, rfl⟩ := h
         first | exact hr | trivial)

/-- every operation a reader computation returns satisfies `P` -/
structure Rng (P : Op.Operation → Prop) (x : Out (Op.Operation × Bytes)) : Prop where
  out : ∀ op r, x = .ok (op, r) → P op

theorem rng_err (P) (er : Err) : Rng P (.err er) := ⟨by intro op r h; cases h⟩
theorem rng_ok (P : Op.Operation → Prop) (op : Op.Operation) (r : Bytes) (h : P op) : Rng P (.ok (op, r)) :=
  ⟨by intro op' r' h'; cases h'; exact h⟩
theorem rng_pure (P : Op.Operation → Prop) (op : Op.Operation) (r : Bytes) (h : P op) : Rng P (pure (op, r)) :=
  rng_ok P op r h

theorem rng_bind {α} (P : Op.Operation → Prop) (Q : α → Prop) (x : Out (α × Bytes))
    (f : α × Bytes → Out (Op.Operation × Bytes))
    (hx : ∀ a r, x = .ok (a, r) → Q a) (hf : ∀ a r, Q a → Rng P (f (a, r))) : Rng P (x >>= f) := by
  refine ⟨?_⟩
  intro op r h
  cases x with
  | ok p => obtain ⟨a, r1⟩ := p; exact (hf a r1 (hx a r1 rfl)).out op r h
  | err _ => cases h
  | panic _ => cases h
  | diverge => cases h

theorem unsigned_lt (bs : Bytes) (v : Nat) (r : Bytes) (h : Leb.unsigned bs = .ok (v, r)) : v < 2 ^ 64 := by
  obtain ⟨_, _, _, _, _, h⟩ := Leb.unsigned_sound bs v r h; exact h

theorem signed_rng (bs : Bytes) (v : Int) (r : Bytes) (h : Leb.signed bs = .ok (v, r)) :
    -(2 : Int) ^ 63 ≤ v ∧ v < 2 ^ 63 := by
  obtain ⟨_, _, _, _, _, h⟩ := Leb.signed_sound bs v r h; exact h

theorem rdU_lt (e : Endian) (n : Nat) (bs : Bytes) (v : Nat) (r : Bytes) (h : Op.rdU e n bs = .ok (v, r)) :
    v < 2 ^ (8 * n) := by
  have := (Ints.readFixed_ok e n bs v r h).2.2.2
  rwa [Ints.pow256] at this

theorem rdI_rng (e : Endian) (n : Nat) (hn : n = 1 ∨ n = 2 ∨ n = 4 ∨ n = 8) (bs : Bytes) (v : Int) (r : Bytes)
    (h : Op.rdI e n bs = .ok (v, r)) : -(2 : Int) ^ 63 ≤ v ∧ v < 2 ^ 63 := by
  unfold Op.rdI at h
  simp only [WOp.bind_eq_ok, Prod.exists, Out.pure_eq, Out.ok.injEq, Prod.mk.injEq] at h
  obtain ⟨u, r1, _, rfl, _⟩ := h
  unfold Ints.toSigned
  rcases hn with rfl | rfl | rfl | rfl <;> (split <;> omega)

theorem rdRegister_lt (bs : Bytes) (v : Nat) (r : Bytes) (h : Op.rdRegister bs = .ok (v, r)) : v < 2 ^ 16 := by
  unfold Op.rdRegister at h
  simp only [WOp.bind_eq_ok, Prod.exists] at h
  obtain ⟨u, r1, _, h⟩ := h
  split at h
  · simp only [Out.pure_eq, Out.ok.injEq, Prod.mk.injEq] at h; omega
  · cases h

theorem readUlebU32_lt (bs : Bytes) (v : Nat) (r : Bytes) (h : Ints.readUlebU32 bs = .ok (v, r)) : v < 2 ^ 32 :=
  ((Ints.readUlebU32_iff bs v r).mp h).2

theorem split_length (n : Nat) (bs a r : Bytes) (h : Op.split n bs = .ok (a, r)) : a.length = n := by
  unfold Op.split Ints.take at h
  split at h
  · simp only [Out.ok.injEq, Prod.mk.injEq] at h
    rw [← h.1]; simp; omega
  · cases h

theorem rng_bind_unsigned (P) (bs : Bytes) (f : Nat × Bytes → Out (Op.Operation × Bytes))
    (hf : ∀ v r, v < 2 ^ 64 → Rng P (f (v, r))) : Rng P (Leb.unsigned bs >>= f) :=
  rng_bind P (fun v => v < 2 ^ 64) _ f (unsigned_lt bs) hf
theorem rng_bind_signed (P) (bs : Bytes) (f : Int × Bytes → Out (Op.Operation × Bytes))
    (hf : ∀ v r, (-(2 : Int) ^ 63 ≤ v ∧ v < 2 ^ 63) → Rng P (f (v, r))) : Rng P (Leb.signed bs >>= f) :=
  rng_bind P (fun v => -(2 : Int) ^ 63 ≤ v ∧ v < 2 ^ 63) _ f (signed_rng bs) hf
theorem rng_bind_rdU (P) (e : Endian) (n : Nat) (bs : Bytes) (f : Nat × Bytes → Out (Op.Operation × Bytes))
    (hf : ∀ v r, v < 2 ^ (8 * n) → Rng P (f (v, r))) : Rng P (Op.rdU e n bs >>= f) :=
  rng_bind P (fun v => v < 2 ^ (8 * n)) _ f (rdU_lt e n bs) hf
theorem rng_bind_rdI (P) (e : Endian) (n : Nat) (hn : n = 1 ∨ n = 2 ∨ n = 4 ∨ n = 8) (bs : Bytes)
    (f : Int × Bytes → Out (Op.Operation × Bytes))
    (hf : ∀ v r, (-(2 : Int) ^ 63 ≤ v ∧ v < 2 ^ 63) → Rng P (f (v, r))) : Rng P (Op.rdI e n bs >>= f) :=
  rng_bind P (fun v => -(2 : Int) ^ 63 ≤ v ∧ v < 2 ^ 63) _ f (rdI_rng e n hn bs) hf
theorem rng_bind_reg (P) (bs : Bytes) (f : Nat × Bytes → Out (Op.Operation × Bytes))
    (hf : ∀ v r, v < 2 ^ 16 → Rng P (f (v, r))) : Rng P (Op.rdRegister bs >>= f) :=
  rng_bind P (fun v => v < 2 ^ 16) _ f (rdRegister_lt bs) hf
theorem rng_bind_u32 (P) (bs : Bytes) (f : Nat × Bytes → Out (Op.Operation × Bytes))
    (hf : ∀ v r, v < 2 ^ 32 → Rng P (f (v, r))) : Rng P (Ints.readUlebU32 bs >>= f) :=
  rng_bind P (fun v => v < 2 ^ 32) _ f (readUlebU32_lt bs) hf
theorem rng_bind_split (P) (n : Nat) (bs : Bytes) (f : Bytes × Bytes → Out (Op.Operation × Bytes))
    (hf : ∀ a r, a.length = n → Rng P (f (a, r))) : Rng P (Op.split n bs >>= f) :=
  rng_bind P (fun a => a.length = n) _ f (split_length n bs) hf
theorem rng_bind_any {α} (P) (x : Out (α × Bytes)) (f : α × Bytes → Out (Op.Operation × Bytes))
    (hf : ∀ a r, True → Rng P (f (a, r))) : Rng P (x >>= f) :=
  rng_bind P (fun _ => True) x f (fun _ _ _ => trivial) hf

macro "rng_close" : tactic => `(tactic|
  (simp only [RWf] <;>
   first
    | trivial
    | assumption
    | omega
    | (refine ⟨?_, ?_, ?_⟩ <;> first | assumption | omega | simp)
    | (refine ⟨?_, ?_⟩ <;> first | assumption | omega)
    | (left; omega)
    | (right; exact ⟨rfl, rfl⟩)
    | simp))

macro "rng_tac" : tactic => `(tactic|
  repeat (first
    | exact rng_err _ _
    | (refine rng_ok _ _ _ ?_; rng_close)
    | (refine rng_pure _ _ _ ?_; rng_close)
    | (refine rng_bind_unsigned _ _ _ ?_)
    | (refine rng_bind_signed _ _ _ ?_)
    | (refine rng_bind_rdU _ _ _ _ _ ?_)
    | (refine rng_bind_rdI _ _ _ (by decide) _ _ ?_)
    | (refine rng_bind_reg _ _ _ ?_)
    | (refine rng_bind_u32 _ _ _ ?_)
    | (refine rng_bind_split _ _ _ _ ?_)
    | (refine rng_bind_any _ _ _ ?_)
    | split
    | (intro _ _ _; try dsimp only)))

/-- **every operand the decoder yields is in the range of its Rust type** -/
theorem parseOperands_rwf (e : Endian) (enc : Encoding) (opc : Nat) (rest : Bytes) :
    Rng (RWf enc) (Op.parseOperands e enc opc rest) := by
  unfold Op.parseOperands
  split
  · refine rng_ok _ _ _ ?_; simp only [RWf]; omega
  split
  · refine rng_ok _ _ _ ?_; simp only [RWf]; omega
  split
  · refine rng_bind_signed _ _ _ (fun v r hv => ?_)
    refine rng_pure _ _ _ ?_
    simp only [RWf]; exact ⟨by omega, hv, by simp⟩
  split
  all_goals rng_tac

theorem parse_rwf (e : Endian) (enc : Encoding) (bs : Bytes) : Rng (RWf enc) (Op.parse e enc bs) := by
  cases bs with
  | nil => exact rng_err _ _
  | cons b rest => exact parseOperands_rwf e enc b.toNat rest

theorem iterAll_rwf (e : Endian) (enc : Encoding) (len : Nat) :
    ∀ (fuel : Nat) (input : Bytes) (p : Op.Operation × Nat),
      p ∈ (Op.iterAll e enc len fuel input).1 → RWf enc p.1
  | 0, input, p, hp => by simp [Op.iterAll] at hp
  | fuel + 1, input, p, hp => by
    cases input with
    | nil => simp [Op.iterAll] at hp
    | cons b tl =>
      simp only [Op.iterAll] at hp
      cases hpar : Op.parse e enc (b :: tl) with
      | ok q =>
        obtain ⟨op, rest⟩ := q
        rw [hpar] at hp
        simp only [List.mem_cons] at hp
        rcases hp with rfl | hp
        · exact (parse_rwf e enc (b :: tl)).out op rest hpar
        · exact iterAll_rwf e enc len fuel rest p hp
      | err er => rw [hpar] at hp; simp at hp
      | panic w => rw [hpar] at hp; simp at hp
      | diverge => rw [hpar] at hp; simp at hp

theorem convertList_wf (env : Env) (henv : EnvRanges env) (enc : Encoding) (offsets : List Nat)
    (sub : Bytes → CR (List WOp.Operation)) :
    ∀ (ops : List (Op.Operation × Nat)) (ws : List WOp.Operation),
      (∀ p ∈ ops, RWf enc p.1) → convertList env enc offsets sub ops = .ok ws → ∀ w ∈ ws, WOp.OpWf w
  | [], ws, _, h => by
    simp only [convertList, Except.ok.injEq] at h; subst h; intro w hw; cases hw
  | (op, en) :: rest, ws, hr, h => by
    simp only [convertList, except_bind_ok, pure, Except.pure, Except.ok.injEq] at h
    obtain ⟨w, hw, ws', hws, rfl⟩ := h
    intro w' hw'
    simp only [List.mem_cons] at hw'
    rcases hw' with rfl | hw'
    · exact convertOp_wf env henv enc offsets en sub op _ (hr (op, en) (by simp)) hw
    · exact convertList_wf env henv enc offsets sub rest ws' (fun p hp => hr p (by simp [hp])) hws w' hw'

/-- the operations `Expression::from` produces are in the writer's operand ranges -/
theorem convertNested_wf (env : Env) (henv : EnvRanges env) (e : Endian) (enc : Encoding) (left : Nat)
    (bs : Bytes) (ws : List WOp.Operation) (h : convertNested env e enc left bs = .ok ws) :
    ∀ w ∈ ws, WOp.OpWf w := by
  rw [convertNested_unfold] at h
  cases hI : Op.iterAll e enc bs.length (bs.length + 1) bs with
  | mk ins er =>
    rw [hI] at h
    cases er with
    | some x => simp at h
    | none =>
      simp only at h
      exact convertList_wf env henv enc _ _ ins ws
        (fun p hp => iterAll_rwf e enc bs.length (bs.length + 1) bs p (by rw [hI]; exact hp)) h
end Gimli.ConvOp
