import Gimli.Spec.Machine
import Gimli.Lemmas.Value
import Gimli.Lemmas.Eval
import Gimli.Lemmas.ValueWf
import Gimli.Lemmas.OpSuffix
import Gimli.Lemmas.OpOk
/-!
# C07 `eval_refines`: the Model evaluator (`Model/Eval.lean`) simulates the Spec machine (`Spec/Machine.lean`)

`Sim R x y`: the Model outcome `x` and the Spec outcome `y` are the same kind of outcome with
`R`-related payloads (nothing is claimed where the Spec is `unspecified`). `R a m s`: the Model
machine `m` represents the Spec state `s` (stack values related by `absV`: generic values modulo
`2^(8a)`, typed values exactly; pc as offset; call frames; pieces).
-/
open Gimli Gimli.Op Gimli.Value Gimli.Spec.Expr
set_option linter.unusedVariables false
set_option linter.unusedSimpArgs false

namespace Gimli.Sim
open Gimli.Spec
open Gimli.Eval (Mach Config Eval Request Waiting OpResult Location Piece Answer)
open Gimli.Spec.Machine (SState SCfg SLoc SPiece Effect SAnswer unspecified)

/-- `x` (Model) is simulated by `y` (Spec): equal outcome kind, related payloads; where the Spec
is `unspecified` nothing is claimed -/
def Sim {α β} (R : α → β → Prop) (x : Out α) (y : Out β) : Prop :=
  match x, y with
  | _, .panic _ => True
  | .ok a, .ok b => R a b
  | .err e, .err e' => e = e'
  | .diverge, .diverge => True
  | _, _ => False

theorem Sim.bind {α β α' β'} {R : α → β → Prop} {S : α' → β' → Prop} {x : Out α} {y : Out β}
    {f : α → Out α'} {g : β → Out β'} (h : Sim R x y) (hf : ∀ a b, R a b → Sim S (f a) (g b)) :
    Sim S (x >>= f) (y >>= g) := by
  cases x <;> cases y <;> simp only [Sim] at h ⊢ <;> first | trivial | exact hf _ _ h | exact h.elim | (subst h; simp [Sim]) | skip

theorem Sim.ok {α β} {R : α → β → Prop} {a : α} {b : β} (h : R a b) : Sim R (.ok a) (.ok b) := h
theorem Sim.err {α β} {R : α → β → Prop} (e : Err) : Sim R (.err e : Out α) (.err e : Out β) := rfl
theorem Sim.unspec {α β} {R : α → β → Prop} (x : Out α) : Sim R x (unspecified : Out β) := by
  cases x <;> trivial


/-! ## abstraction of Model data to Spec data -/

def absLoc (a : Nat) : Eval.Location → SLoc
  | .empty => .empty
  | .register r => .register r
  | .address x => .address x
  | .value v => .value (absV a v)
  | .bytes b => .bytes b
  | .implicitPointer v o => .implicitPointer v o

def absPiece (a : Nat) (p : Eval.Piece) : SPiece := ⟨p.sizeInBits, p.bitOffset, absLoc a p.location⟩

/-- configurations describe the same evaluation (heap storage, no iteration limit on the Model side) -/
structure CfgRel (a : Nat) (c : Config) (sc : SCfg) : Prop where
  addr : AddrSize a
  asz : c.encoding.addressSize = a
  mask : c.addrMask = maskOf a
  endian : sc.endian = c.endian
  enc : sc.enc = c.encoding
  obj : sc.objectAddress = c.objectAddress
  objlt : ∀ v, c.objectAddress = some v → v < 2 ^ 64
  caps : c.caps = {}

/-- the Model machine `m` represents the Spec state `s` -/
structure R (a : Nat) (m : Mach) (s : SState) : Prop where
  code : s.code = m.bytecode
  pc : m.pc = m.bytecode.drop s.pc
  pcle : s.pc ≤ m.bytecode.length
  len : m.bytecode.length < 2 ^ 63
  stack : m.stack.map (absV a) = s.stack
  vok : ∀ v ∈ m.stack, VOk v
  frames : s.frames.map (fun f => (f.1.drop f.2, f.1)) = m.exprStack
  framesOk : ∀ f ∈ s.frames, f.2 ≤ f.1.length ∧ f.1.length < 2 ^ 63
  pieces : m.result.map (absPiece a) = s.pieces
  value : m.valueResult.map (absV a) = s.valueResult

theorem pop_sim (a : Nat) (m : Mach) (s : SState) (h : R a m s) :
    Sim (fun (p : Value × Mach) (q : SVal × SState) => q.1 = absV a p.1 ∧ VOk p.1 ∧ R a p.2 q.2)
      (Eval.pop m) (Machine.pop s) := by
  unfold Eval.pop Machine.pop
  have hs := h.stack
  cases hm : m.stack with
  | nil => rw [hm] at hs; simp at hs; rw [hs]; rfl
  | cons v rest =>
    rw [hm] at hs; simp at hs; rw [← hs]
    refine ⟨rfl, h.vok v (by rw [hm]; simp), ?_⟩
    exact { h with stack := rfl, vok := fun w hw => h.vok w (by rw [hm]; simp [hw]) }

theorem push_sim (a : Nat) (c : Config) (hc : c.caps = {}) (v : Value) (hv : VOk v) (m : Mach) (s : SState)
    (h : R a m s) :
    ∃ m', Eval.push c v m = .ok m' ∧ R a m' (Machine.push (absV a v) s) := by
  refine ⟨{ m with stack := v :: m.stack }, ?_, ?_⟩
  · unfold Eval.push; rw [hc]; rfl
  · exact { h with
      stack := by simp [Machine.push, h.stack]
      vok := fun w hw => by
        simp at hw
        rcases hw with rfl | hw
        · exact hv
        · exact h.vok w hw }


/-! ## value operations -/

theorem sim_of_map_eq {α β} {R : α → β → Prop} (abs : α → β) {x : Out α} {y : Out β} (h : x.map abs = y)
    (hr : ∀ r, x = .ok r → R r (abs r)) : Sim R x y := by
  subst h
  cases x with
  | ok r => exact hr r rfl
  | err e => rfl
  | panic w => trivial
  | diverge => trivial

theorem binaryOf_sim (a : Nat) (ha : AddrSize a) (op : BinOp) (x y : Value)
    (hx : VOk x) (hy : VOk y) :
    Sim (fun r sr => sr = absV a r ∧ VOk r) (binaryOf op x y (maskOf a)) (binary a op (absV a x) (absV a y)) :=
  sim_of_map_eq (absV a) (binary_refines a ha op x y hx.2 hy.1)
    (fun r hr => ⟨rfl, binaryOf_vok op x y r _ hx hy hr⟩)

theorem unaryOf_sim (a : Nat) (ha : AddrSize a) (op : UnOp) (x : Value) (hx : VOk x) :
    Sim (fun r sr => sr = absV a r ∧ VOk r) (unaryOf op x (maskOf a)) (unary a op (absV a x)) :=
  sim_of_map_eq (absV a) (unary_refines a ha op x hx.2 hx.1) (fun r hr => ⟨rfl, unaryOf_vok op x r _ hx hr⟩)


theorem toU64_sim (a : Nat) (ha : AddrSize a) (v : Value) (hv : WF v) :
    Sim (fun n sn => sn = n) (v.toU64 (maskOf a)) (Machine.toNat64 (absV a v)) := by
  obtain ⟨t, b⟩ := v
  have hb : b < 2 ^ t.width := hv
  cases t <;> simp only [ValueType.width] at hb <;>
    simp only [Value.toU64, Machine.toNat64, absV, ValueType.kind, isFloat, and_mask, ValueType.width]
  case generic =>
    show (_ : Int).toNat = _
    have : b % 2 ^ (8 * a) < 2 ^ 64 := Nat.lt_of_le_of_lt (Nat.mod_le _ _) hb
    omega
  case f32 => rfl
  case f64 => rfl
  all_goals first
    | rfl
    | (show (_ : Int).toNat = _; omega)

/-- how the results of one operation correspond -/
def EffRel (a : Nat) (p : OpResult × Mach) (e : Effect) : Prop :=
  match p.1, e with
  | .incomplete, .continue s => R a p.2 s
  | .complete loc, .location sl s => sl = absLoc a loc ∧ R a p.2 s
  | .piece, .piece s => R a p.2 s
  | .waiting w r, .request w' r' s => w' = w ∧ r' = r ∧ R a p.2 s
  | _, _ => False

theorem binop_sim (a : Nat) (c : Config) (sc : SCfg) (hc : CfgRel a c sc) (op : BinOp)
    (m : Mach) (s : SState) (h : R a m s) :
    Sim (EffRel a) (Eval.binop c (binaryOf op) m) (Machine.binop sc op s) := by
  unfold Eval.binop Machine.binop
  refine Sim.bind (pop_sim a m s h) (fun ⟨rhs, m1⟩ ⟨srhs, s1⟩ ⟨e1, v1, r1⟩ => ?_)
  refine Sim.bind (pop_sim a m1 s1 r1) (fun ⟨lhs, m2⟩ ⟨slhs, s2⟩ ⟨e2, v2, r2⟩ => ?_)
  simp only [] at e1 e2 v1 v2 r1 r2 ⊢
  subst e1 e2
  have hasz : sc.a = a := by show sc.enc.addressSize = a; rw [hc.enc, hc.asz]
  rw [hc.mask, hasz]
  refine Sim.bind (binaryOf_sim a hc.addr op lhs rhs v2 v1) (fun r sr ⟨e3, v3⟩ => ?_)
  subst e3
  obtain ⟨m3, hp, r3⟩ := push_sim a c hc.caps r v3 m2 s2 r2
  rw [hp]
  exact r3


/-! ## fetching the next operation -/

theorem fetch_sim (a : Nat) (c : Config) (sc : SCfg) (hc : CfgRel a c sc) (m : Mach) (s : SState) (h : R a m s) :
    Sim (fun (p : Operation × Bytes) (q : Operation × SState) => q.1 = p.1 ∧ OpOk p.1 ∧ R a { m with pc := p.2 } q.2)
      (Op.parse c.endian c.encoding m.pc) (Machine.fetch sc s) := by
  unfold Machine.fetch
  rw [hc.endian, hc.enc, h.code, ← h.pc]
  have hok := parse_ok c.endian c.encoding m.pc
  rw [parse_eq_decode] at hok ⊢
  cases hd : OpTable.decode c.endian c.encoding m.pc with
  | ok p =>
    obtain ⟨op, rest⟩ := p
    refine ⟨rfl, hok op rest hd, ?_⟩
    have hsuf : rest <:+ m.bytecode := by
      cases hpc : m.pc with
      | nil => rw [hpc] at hd; cases hd
      | cons b tl =>
        rw [hpc] at hd
        have h1 := decode_suffix _ _ b tl op rest hd
        have h2 : (b :: tl) <:+ m.bytecode := by rw [← hpc, h.pc]; exact List.drop_suffix _ _
        exact (h1.trans (List.suffix_cons b tl)).trans h2
    exact { h with
      code := rfl
      pc := List.suffix_iff_eq_drop.mp hsuf
      pcle := Nat.sub_le _ _ }
  | err e => rfl
  | panic w => trivial
  | diverge => trivial


/-! ## branches -/

theorem computePc_spec63 (pc bc : Bytes) (off : Int) (hoff : -2 ^ 63 ≤ off ∧ off < 2 ^ 63)
    (hlen : bc.length < 2 ^ 63) (hpc : pc.length ≤ bc.length) :
    Eval.computePc pc bc off =
      (let t : Int := ((bc.length - pc.length : Nat) : Int) + off
       if 0 ≤ t ∧ t ≤ bc.length then .ok (bc.drop t.toNat) else .err .rBadBranchTarget) := by
  unfold Eval.computePc Value.pat
  simp only []
  split
  · next h => rw [if_neg (by omega)]
  · next h =>
    rw [if_pos (by omega)]
    congr 2
    omega

theorem branch_sim (a : Nat) (m : Mach) (s : SState) (h : R a m s) (t : Int) (ht : -2 ^ 63 ≤ t ∧ t < 2 ^ 63) :
    Sim (fun (pc' : Bytes) (s' : SState) => R a { m with pc := pc' } s')
      (Eval.computePc m.pc m.bytecode t) (Machine.branch s t) := by
  have hlenpc : m.pc.length = m.bytecode.length - s.pc := by rw [h.pc, List.length_drop]
  rw [computePc_spec63 m.pc m.bytecode t ht h.len (by omega)]
  unfold Machine.branch
  have hoff : m.bytecode.length - m.pc.length = s.pc := by have := h.pcle; omega
  simp only [hoff, h.code]
  split
  · next hc =>
    exact { h with code := rfl, pc := rfl, pcle := by simp only []; omega }
  · rfl


/-! ## one operation -/

theorem unop_sim (a : Nat) (c : Config) (sc : SCfg) (hc : CfgRel a c sc) (op : UnOp)
    (m : Mach) (s : SState) (h : R a m s) :
    Sim (EffRel a) (Eval.unop c (unaryOf op) m) (Machine.unop sc op s) := by
  unfold Eval.unop Machine.unop
  refine Sim.bind (pop_sim a m s h) (fun ⟨v, m1⟩ ⟨sv, s1⟩ ⟨e1, v1, r1⟩ => ?_)
  simp only [] at e1 v1 r1 ⊢
  subst e1
  have hasz : sc.a = a := by show sc.enc.addressSize = a; rw [hc.enc, hc.asz]
  rw [hc.mask, hasz]
  refine Sim.bind (unaryOf_sim a hc.addr op v v1) (fun r sr ⟨e3, v3⟩ => ?_)
  subst e3
  obtain ⟨m3, hp, r3⟩ := push_sim a c hc.caps r v3 m1 s1 r1
  rw [hp]
  exact r3

theorem sc_a (a : Nat) (c : Config) (sc : SCfg) (hc : CfgRel a c sc) : sc.a = a := by
  show sc.enc.addressSize = a; rw [hc.enc, hc.asz]

theorem abs_generic_nat (a : Nat) (sc : SCfg) (hsa : sc.a = a) (v : Nat) :
    absV a ⟨.generic, v⟩ = Machine.gen sc (v : Int) := by
  unfold Machine.gen
  rw [hsa]
  show (⟨.generic, ((v % 2 ^ (8 * a) : Nat) : Int)⟩ : SVal) = _
  rw [cast_of_mod]

theorem abs_generic_pat (a : Nat) (ha : AddrSize a) (sc : SCfg) (hsa : sc.a = a) (i : Int) :
    absV a ⟨.generic, pat 64 i⟩ = Machine.gen sc i := by
  unfold Machine.gen
  rw [hsa]
  show (⟨.generic, ((pat 64 i % 2 ^ (8 * a) : Nat) : Int)⟩ : SVal) = _
  rw [pat_mod _ _ (by rcases ha with h | h | h | h <;> omega)]; rfl

theorem vok_generic (v : Nat) (hv : v < 2 ^ 64) : VOk ⟨.generic, v⟩ := ⟨hv, by simp [IsInt, ValueType.kind]⟩

/-- push a generic value on both sides and continue -/
theorem push_generic_sim (a : Nat) (c : Config) (sc : SCfg) (hc : CfgRel a c sc) (v : Nat) (hv : v < 2 ^ 64)
    (sv : SVal) (hsv : absV a ⟨.generic, v⟩ = sv) (m : Mach) (s : SState) (h : R a m s) :
    Sim (EffRel a)
      (Eval.push c (.generic v) m >>= fun m => pure (OpResult.incomplete, m))
      (.ok (Effect.continue (Machine.push sv s))) := by
  obtain ⟨m3, hp, r3⟩ := push_sim a c hc.caps ⟨.generic, v⟩ (vok_generic v hv) m s h
  rw [show Value.generic v = ⟨.generic, v⟩ from rfl, hp, ← hsv]
  exact r3


theorem fromU64_abs (a : Nat) (ha : AddrSize a) (t : ValueType) (ht : t.kind ≠ .float) (n : Nat) (hn : n < 2 ^ 64) :
    ∃ r, Value.fromU64 t n = .ok r ∧ absV a r = ⟨t, canon a t (n : Int)⟩ ∧ VOk r := by
  cases t <;> simp [ValueType.kind] at ht
  all_goals refine ⟨_, rfl, ?_, ?_⟩
  all_goals first
    | exact vok_generic n hn
    | exact ⟨Nat.mod_lt _ (Nat.two_pow_pos _), by simp [IsInt, ValueType.kind]⟩
    | skip
  all_goals simp only [absV, ValueType.kind, canon, kindOf, width, ValueType.width]
  all_goals first
    | rw [cast_of_mod]
    | rw [sval_of_mod]

theorem pushPiece_sim (a : Nat) (c : Config) (hc : c.caps = {}) (p : Piece) (m : Mach) (s : SState) (h : R a m s) :
    ∃ m', Eval.pushPiece c p m = .ok m' ∧ R a m' { s with pieces := s.pieces ++ [absPiece a p] } := by
  refine ⟨{ m with result := m.result ++ [p] }, ?_, ?_⟩
  · unfold Eval.pushPiece; rw [hc]; rfl
  · exact { h with pieces := by simp [h.pieces] }

theorem pat_lt64 (i : Int) : pat 64 i < 2 ^ 64 := pat_lt 64 i

theorem exec_sim (a : Nat) (c : Config) (sc : SCfg) (hc : CfgRel a c sc) (op : Operation) (hop : OpOk op)
    (m : Mach) (s : SState) (h : R a m s) :
    Sim (EffRel a) (Eval.execute c op m) (Machine.exec sc op s) := by
  have hsa := sc_a a c sc hc
  cases op <;> simp only [Eval.execute, Machine.exec]
  case abs => exact unop_sim a c sc hc .abs m s h
  case neg => exact unop_sim a c sc hc .neg m s h
  case not => exact unop_sim a c sc hc .not m s h
  case and => exact binop_sim a c sc hc .and m s h
  case div => exact binop_sim a c sc hc .div m s h
  case minus => exact binop_sim a c sc hc .sub m s h
  case mod => exact binop_sim a c sc hc .rem m s h
  case mul => exact binop_sim a c sc hc .mul m s h
  case or => exact binop_sim a c sc hc .or m s h
  case plus => exact binop_sim a c sc hc .add m s h
  case xor => exact binop_sim a c sc hc .xor m s h
  case eq => exact binop_sim a c sc hc .eq m s h
  case ge => exact binop_sim a c sc hc .ge m s h
  case gt => exact binop_sim a c sc hc .gt m s h
  case le => exact binop_sim a c sc hc .le m s h
  case lt => exact binop_sim a c sc hc .lt m s h
  case ne => exact binop_sim a c sc hc .ne m s h
  case shl => exact binop_sim a c sc hc .shl m s h
  case shr => exact binop_sim a c sc hc .shr m s h
  case shra => exact binop_sim a c sc hc .shra m s h
  case typedLiteral bt v => exact ⟨rfl, rfl, h⟩
  case convert bt => exact ⟨rfl, rfl, h⟩
  case reinterpret bt => exact ⟨rfl, rfl, h⟩
  case variableValue => rfl
  case uninitialized => rfl
  case unsignedConstant v =>
    exact push_generic_sim a c sc hc v hop _ (abs_generic_nat a sc hsa v) m s h
  case signedConstant v =>
    exact push_generic_sim a c sc hc _ (pat_lt64 v) _ (abs_generic_pat a hc.addr sc hsa v) m s h
  case nop => exact h
  case registerOffset r o bt => exact ⟨rfl, rfl, h⟩
  case frameOffset o => exact ⟨rfl, rfl, h⟩
  case call r => exact ⟨rfl, rfl, h⟩
  case callFrameCFA => exact ⟨rfl, rfl, h⟩
  case entryValue x => exact ⟨rfl, rfl, h⟩
  case parameterRef x => exact ⟨rfl, rfl, h⟩
  case address x => exact ⟨rfl, rfl, h⟩
  case addressIndex x => exact ⟨rfl, rfl, h⟩
  case constantIndex x => exact ⟨rfl, rfl, h⟩
  case wasmLocal x => exact ⟨rfl, rfl, h⟩
  case wasmGlobal x => exact ⟨rfl, rfl, h⟩
  case wasmStack x => exact ⟨rfl, rfl, h⟩
  case register r => exact ⟨rfl, h⟩
  case implicitValue d => exact ⟨rfl, h⟩
  case implicitPointer v o => exact ⟨rfl, h⟩
  case drop =>
    refine Sim.bind (pop_sim a m s h) (fun ⟨v, m1⟩ ⟨sv, s1⟩ ⟨_, _, r1⟩ => ?_)
    exact r1
  case skip t =>
    refine Sim.bind (branch_sim a m s h t hop) (fun pc' s' r' => ?_)
    exact r'
  case bra t =>
    refine Sim.bind (pop_sim a m s h) (fun ⟨v, m1⟩ ⟨sv, s1⟩ ⟨e1, v1, r1⟩ => ?_)
    simp only [] at e1 v1 r1 ⊢
    subst e1
    rw [hc.mask]
    refine Sim.bind (toU64_sim a hc.addr v v1.1) (fun n sn e2 => ?_)
    subst e2
    by_cases hn : sn = 0
    · simp only [hn, ne_eq, not_true_eq_false, ite_false]
      exact r1
    · simp only [hn, ne_eq, not_false_eq_true, ite_true]
      refine Sim.bind (branch_sim a m1 s1 r1 t hop) (fun pc' s' r' => ?_)
      exact r'
  case tls =>
    refine Sim.bind (pop_sim a m s h) (fun ⟨v, m1⟩ ⟨sv, s1⟩ ⟨e1, v1, r1⟩ => ?_)
    simp only [] at e1 v1 r1 ⊢
    subst e1
    rw [hc.mask]
    refine Sim.bind (toU64_sim a hc.addr v v1.1) (fun n sn e2 => ?_)
    subst e2
    exact ⟨rfl, rfl, r1⟩
  case stackValue =>
    refine Sim.bind (pop_sim a m s h) (fun ⟨v, m1⟩ ⟨sv, s1⟩ ⟨e1, v1, r1⟩ => ?_)
    simp only [] at e1 v1 r1 ⊢
    subst e1
    exact ⟨rfl, r1⟩
  case pushObjectAddress =>
    rw [hc.obj]
    cases ho : c.objectAddress with
    | none => rfl
    | some v =>
      simp only []
      exact push_generic_sim a c sc hc v (hc.objlt v ho) _ (abs_generic_nat a sc hsa v) m s h
  case pick index =>
    have hs : s.stack[index]? = (m.stack[index]?).map (absV a) := by rw [← h.stack]; simp
    rw [hs]
    cases hg : m.stack[index]? with
    | none => rfl
    | some v =>
      have hv : VOk v := h.vok v (List.mem_of_getElem? hg)
      obtain ⟨m3, hp, r3⟩ := push_sim a c hc.caps v hv m s h
      simp only [Option.map_some]
      rw [hp]
      exact r3
  case swap =>
    refine Sim.bind (pop_sim a m s h) (fun ⟨top, m1⟩ ⟨stop, s1⟩ ⟨e1, v1, r1⟩ => ?_)
    refine Sim.bind (pop_sim a m1 s1 r1) (fun ⟨next, m2⟩ ⟨snext, s2⟩ ⟨e2, v2, r2⟩ => ?_)
    simp only [] at e1 v1 r1 e2 v2 r2 ⊢
    subst e1 e2
    obtain ⟨m3, hp3, r3⟩ := push_sim a c hc.caps top v1 m2 s2 r2
    obtain ⟨m4, hp4, r4⟩ := push_sim a c hc.caps next v2 m3 _ r3
    rw [hp3]; simp only [Out.bind_ok]; rw [hp4]
    exact r4
  case rot =>
    refine Sim.bind (pop_sim a m s h) (fun ⟨one, m1⟩ ⟨sone, s1⟩ ⟨e1, v1, r1⟩ => ?_)
    refine Sim.bind (pop_sim a m1 s1 r1) (fun ⟨two, m2⟩ ⟨stwo, s2⟩ ⟨e2, v2, r2⟩ => ?_)
    refine Sim.bind (pop_sim a m2 s2 r2) (fun ⟨three, m3⟩ ⟨sthree, s3⟩ ⟨e3, v3, r3⟩ => ?_)
    simp only [] at e1 v1 r1 e2 v2 r2 e3 v3 r3 ⊢
    subst e1 e2 e3
    obtain ⟨m4, hp4, r4⟩ := push_sim a c hc.caps one v1 m3 s3 r3
    obtain ⟨m5, hp5, r5⟩ := push_sim a c hc.caps three v3 m4 _ r4
    obtain ⟨m6, hp6, r6⟩ := push_sim a c hc.caps two v2 m5 _ r5
    rw [hp4]; simp only [Out.bind_ok]; rw [hp5]; simp only [Out.bind_ok]; rw [hp6]
    exact r6
  case plusConstant value =>
    refine Sim.bind (pop_sim a m s h) (fun ⟨lhs, m1⟩ ⟨slhs, s1⟩ ⟨e1, v1, r1⟩ => ?_)
    simp only [] at e1 v1 r1 ⊢
    subst e1
    have hnf : isFloat (absV a lhs).ty = false := by
      have := v1.2
      obtain ⟨t, b⟩ := lhs
      cases t <;> simp [IsInt, ValueType.kind] at this <;> rfl
    rw [if_neg (by simp [hnf])]
    obtain ⟨rhs, hf, habs, hvr⟩ := fromU64_abs a hc.addr lhs.ty v1.2 value hop
    rw [hf]; simp only [Out.bind_ok]
    rw [hc.mask, hsa]
    have hty : (absV a lhs).ty = lhs.ty := rfl
    rw [hty, ← habs]
    refine Sim.bind (binaryOf_sim a hc.addr .add lhs rhs v1 hvr) (fun r sr ⟨e3, v3⟩ => ?_)
    subst e3
    obtain ⟨m3, hp, r3⟩ := push_sim a c hc.caps r v3 m1 s1 r1
    rw [hp]
    exact r3
  case deref bt size space =>
    rw [hsa, hc.asz]
    by_cases hsz : size > a
    · simp only [hsz, ite_true]; rfl
    · simp only [hsz, ite_false]
      refine Sim.bind (pop_sim a m s h) (fun ⟨v, m1⟩ ⟨sv, s1⟩ ⟨e1, v1, r1⟩ => ?_)
      simp only [] at e1 v1 r1 ⊢
      subst e1
      rw [hc.mask]
      refine Sim.bind (toU64_sim a hc.addr v v1.1) (fun n sn e2 => ?_)
      subst e2
      cases space
      · exact ⟨rfl, rfl, r1⟩
      · simp only [ite_true]
        refine Sim.bind (pop_sim a m1 s1 r1) (fun ⟨v2, m2⟩ ⟨sv2, s2⟩ ⟨e3, v3, r2⟩ => ?_)
        simp only [] at e3 v3 r2 ⊢
        subst e3
        refine Sim.bind (toU64_sim a hc.addr v2 v3.1) (fun n2 sn2 e4 => ?_)
        subst e4
        exact ⟨rfl, rfl, r2⟩
  case piece size off =>
    have hs := h.stack
    cases hm : m.stack with
    | nil =>
      rw [hm] at hs; simp at hs
      rw [hs]
      simp only [Out.pure_eq, Out.bind_ok]
      obtain ⟨m3, hp, r3⟩ := pushPiece_sim a c hc.caps ⟨some size, off, .empty⟩ m s h
      rw [hp]
      rw [hs] at r3
      exact r3
    | cons v0 rest =>
      rw [hm] at hs; simp at hs
      rw [← hs]
      simp only [Out.bind_assoc', Out.pure_eq, Out.bind_ok]
      refine Sim.bind (pop_sim a m s h) (fun ⟨v, m1⟩ ⟨sv, s1⟩ ⟨e1, v1, r1⟩ => ?_)
      simp only [] at e1 v1 r1 ⊢
      subst e1
      rw [hc.mask]
      refine Sim.bind (toU64_sim a hc.addr v v1.1) (fun n sn e2 => ?_)
      subst e2
      obtain ⟨m3, hp, r3⟩ := pushPiece_sim a c hc.caps ⟨some size, off, .address sn⟩ m1 s1 r1
      rw [hp]
      exact r3


/-! ## the end of an expression -/

theorem drop_eq_nil_iff_le {α} (l : List α) (k : Nat) : l.drop k = [] ↔ l.length ≤ k := List.drop_eq_nil_iff

theorem unwind_sim (sframes : List (Bytes × Nat)) :
    ∀ (code : Bytes) (off : Nat), off ≤ code.length → code.length < 2 ^ 63 →
      (∀ f ∈ sframes, f.2 ≤ f.1.length ∧ f.1.length < 2 ^ 63) →
      ∃ b code' off' sframes',
        Machine.unwind code off sframes = (b, code', off', sframes') ∧
        Eval.unwind (code.drop off) code (sframes.map (fun f => (f.1.drop f.2, f.1))) =
          (b, code'.drop off', code', sframes'.map (fun f => (f.1.drop f.2, f.1))) ∧
        off' ≤ code'.length ∧ code'.length < 2 ^ 63 ∧
        (∀ f ∈ sframes', f.2 ≤ f.1.length ∧ f.1.length < 2 ^ 63) := by
  induction sframes with
  | nil =>
    intro code off hle hlen _
    by_cases hlt : off < code.length
    · refine ⟨false, code, off, [], ?_, ?_, hle, hlen, by simp⟩
      · simp [Machine.unwind, hlt]
      · have hne : code.drop off ≠ [] := by
          intro h; have := (drop_eq_nil_iff_le code off).mp h; omega
        cases hd : code.drop off with
        | nil => exact absurd hd hne
        | cons x xs => simp [Eval.unwind]
    · refine ⟨true, code, off, [], ?_, ?_, hle, hlen, by simp⟩
      · simp [Machine.unwind, hlt]
      · have hd : code.drop off = [] := (drop_eq_nil_iff_le code off).mpr (by omega)
        rw [hd]; simp [Eval.unwind]
  | cons f rest ih =>
    intro code off hle hlen hfr
    by_cases hlt : off < code.length
    · refine ⟨false, code, off, f :: rest, ?_, ?_, hle, hlen, hfr⟩
      · obtain ⟨fc, fp⟩ := f; simp [Machine.unwind, hlt]
      · have hne : code.drop off ≠ [] := by
          intro h; have := (drop_eq_nil_iff_le code off).mp h; omega
        cases hd : code.drop off with
        | nil => exact absurd hd hne
        | cons x xs => simp [Eval.unwind]
    · have hf := hfr f (by simp)
      obtain ⟨b, code', off', sframes', h1, h2, h3, h4, h5⟩ :=
        ih f.1 f.2 hf.1 hf.2 (fun g hg => hfr g (by simp [hg]))
      refine ⟨b, code', off', sframes', ?_, ?_, h3, h4, h5⟩
      · obtain ⟨fc, fp⟩ := f; simp only [Machine.unwind, hlt, ite_false]; exact h1
      · have hd : code.drop off = [] := (drop_eq_nil_iff_le code off).mpr (by omega)
        rw [hd]; simp only [List.map_cons, Eval.unwind]; exact h2

theorem endOfExpression_sim (a : Nat) (m : Mach) (s : SState) (h : R a m s) :
    (Eval.endOfExpression m).1 = (Machine.atEnd s).1 ∧ R a (Eval.endOfExpression m).2 (Machine.atEnd s).2 := by
  obtain ⟨b, code', off', sframes', h1, h2, h3, h4, h5⟩ :=
    unwind_sim s.frames s.code s.pc (by rw [h.code]; exact h.pcle) (by rw [h.code]; exact h.len) h.framesOk
  unfold Eval.endOfExpression Machine.atEnd
  rw [h1]
  rw [h.pc, ← h.frames, ← h.code, h2]
  refine ⟨rfl, ?_⟩
  exact { h with code := rfl, pc := rfl, pcle := h3, len := h4, frames := rfl, framesOk := h5 }

end Gimli.Sim
