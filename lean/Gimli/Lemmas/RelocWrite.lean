import Gimli.Lemmas.RelocPatch
/-! C18, writing side: applying recorded relocations simulates direct writing. -/
namespace Gimli.Wr
open Gimli

theorem writeUdata_length {e : Endian} {v size : Nat} {x : Bytes}
    (h : Ints.writeUdata e v size = .ok x) : x.length = size := by
  unfold Ints.writeUdata at h
  split at h
  · split at h
    · cases h
    · cases h; exact Ints.toBytes_length ..
  · split at h
    · cases h; rename_i h8; rw [h8]; exact Ints.toBytes_length ..
    · cases h

theorem writeSdata_length {e : Endian} {v : Int} {size : Nat} {x : Bytes}
    (h : Ints.writeSdata e v size = .ok x) : x.length = size := by
  unfold Ints.writeSdata at h
  split at h
  · simp only at h
    split at h
    · cases h
    · cases h; exact Ints.toBytes_length ..
  · split at h
    · cases h; rename_i h8; rw [h8]; exact Ints.toBytes_length ..
    · cases h

theorem encode_length {env : Env} {e : Endian} {r : Reloc} {x : Bytes}
    (h : encode env e r = .ok x) : x.length = r.size := by
  unfold encode at h
  cases hp : r.ehPe with
  | none => rw [hp] at h; exact writeUdata_length h
  | some pe =>
    rw [hp] at h
    simp only at h
    generalize ehApply pe _ r.off = q at h
    cases q with
    | ok v =>
      simp only [Out.bind_ok] at h
      split at h
      · exact writeSdata_length h
      · exact writeUdata_length h
    | err e => cases h
    | panic w => cases h
    | diverge => cases h

/-- all recorded fields lie inside a buffer of length `n` -/
def Bounds (rs : List Reloc) (n : Nat) : Prop := ∀ r ∈ rs, r.off + r.size ≤ n

theorem applyOne_ok_iff {env : Env} {e : Endian} {b b' : Bytes} {r : Reloc} :
    applyOne env e b r = .ok b' ↔
      ∃ x, encode env e r = .ok x ∧ r.off + r.size ≤ b.length ∧ b' = patch b r.off x := by
  unfold applyOne
  cases hx : encode env e r with
  | ok x =>
    simp only [Out.bind_ok, writeAt_ok_iff, encode_length hx]
    constructor
    · rintro ⟨h1, h2⟩; exact ⟨x, rfl, h1, h2⟩
    · rintro ⟨x', hx', h1, h2⟩; cases hx'; exact ⟨h1, h2⟩
  | err e => simp
  | panic w => simp
  | diverge => simp

theorem applyOne_length {env : Env} {e : Endian} {b b' : Bytes} {r : Reloc}
    (h : applyOne env e b r = .ok b') : b'.length = b.length := by
  obtain ⟨x, hx, hb, rfl⟩ := applyOne_ok_iff.mp h
  exact patch_length (by rw [encode_length hx]; exact hb)

theorem applyW_length {env : Env} {e : Endian} (rs : List Reloc) :
    ∀ {b b' : Bytes}, applyW env e rs b = .ok b' → b'.length = b.length := by
  induction rs with
  | nil => intro b b' h; cases h; rfl
  | cons r rs ih =>
    intro b b' h
    simp only [applyW] at h
    cases h1 : applyOne env e b r with
    | ok b1 =>
      rw [h1] at h; simp only [Out.bind_ok] at h
      rw [ih h, applyOne_length h1]
    | err e => rw [h1] at h; cases h
    | panic w => rw [h1] at h; cases h
    | diverge => rw [h1] at h; cases h

theorem applyW_append_one {env : Env} {e : Endian} (rs : List Reloc) (r : Reloc) :
    ∀ b, applyW env e (rs ++ [r]) b = (applyW env e rs b >>= fun b' => applyOne env e b' r) := by
  induction rs with
  | nil =>
    intro b
    simp only [List.nil_append, applyW, Out.bind_ok]
    cases applyOne env e b r <;> rfl
  | cons r0 rs ih =>
    intro b
    simp only [List.cons_append, applyW]
    cases applyOne env e b r0 with
    | ok b1 => simp only [Out.bind_ok]; exact ih b1
    | err e => rfl
    | panic w => rfl
    | diverge => rfl

/-- F3: relocations inside `b` do not see what is appended to it -/
theorem applyW_append {env : Env} {e : Endian} (rs : List Reloc) (y : Bytes) :
    ∀ b, Bounds rs b.length →
      applyW env e rs (b ++ y) = (applyW env e rs b >>= fun b' => .ok (b' ++ y)) := by
  induction rs with
  | nil => intro b _; rfl
  | cons r rs ih =>
    intro b hb
    have hr : r.off + r.size ≤ b.length := hb r (List.mem_cons_self ..)
    simp only [applyW]
    have h1 : applyOne env e (b ++ y) r = (applyOne env e b r >>= fun b' => .ok (b' ++ y)) := by
      unfold applyOne
      cases hx : encode env e r with
      | ok x =>
        have hl := encode_length hx
        simp only [Out.bind_ok]
        rw [writeAt_ok (by simp; omega), writeAt_ok (by omega), patch_append (by omega)]
        rfl
      | err e => rfl
      | panic w => rfl
      | diverge => rfl
    rw [h1]
    cases h2 : applyOne env e b r with
    | ok b1 =>
      simp only [Out.bind_ok]
      exact ih b1 (fun r' hr' => by rw [applyOne_length h2]; exact hb r' (List.mem_cons_of_mem _ hr'))
    | err e => rfl
    | panic w => rfl
    | diverge => rfl

/-- F4: a positioned write clear of every recorded field commutes with applying them -/
theorem applyW_patch {env : Env} {e : Endian} (rs : List Reloc) (off : Nat) (x : Bytes) :
    ∀ b, Bounds rs b.length → off + x.length ≤ b.length → clear rs off x.length →
      applyW env e rs (patch b off x) = (applyW env e rs b >>= fun b' => .ok (patch b' off x)) := by
  induction rs with
  | nil => intro b _ _ _; rfl
  | cons r rs ih =>
    intro b hb hx hc
    have hr : r.off + r.size ≤ b.length := hb r (List.mem_cons_self ..)
    have hcr := hc r (List.mem_cons_self ..)
    simp only [applyW]
    have h1 : applyOne env e (patch b off x) r =
        (applyOne env e b r >>= fun b' => .ok (patch b' off x)) := by
      unfold applyOne
      cases hy : encode env e r with
      | ok y =>
        have hl := encode_length hy
        simp only [Out.bind_ok]
        rw [writeAt_ok (by rw [patch_length hx]; omega), writeAt_ok (by omega),
          patch_comm hx (by omega) (by omega)]
        rfl
      | err e => rfl
      | panic w => rfl
      | diverge => rfl
    rw [h1]
    cases h2 : applyOne env e b r with
    | ok b1 =>
      simp only [Out.bind_ok]
      have hl1 := applyOne_length h2
      exact ih b1 (fun r' hr' => by rw [hl1]; exact hb r' (List.mem_cons_of_mem _ hr'))
        (by rw [hl1]; exact hx) (fun r' hr' => hc r' (List.mem_cons_of_mem _ hr'))
    | err e => rfl
    | panic w => rfl
    | diverge => rfl

/-- same constructor; values related by `R`, errors equal -/
def OutRel (R : Bytes → Bytes → Prop) : Out Bytes → Out Bytes → Prop
  | .ok a, .ok b => R a b
  | .err e, .err e' => e = e'
  | .panic w, .panic w' => w = w'
  | .diverge, .diverge => True
  | _, _ => False

/-- F5: buffers that agree outside a range still do after the relocations are applied -/
theorem applyW_agree {env : Env} {e : Endian} (rs : List Reloc) (o n : Nat) :
    ∀ b c, AgreeOut o n b c → OutRel (AgreeOut o n) (applyW env e rs b) (applyW env e rs c) := by
  induction rs with
  | nil => intro b c h; exact h
  | cons r rs ih =>
    intro b c h
    simp only [applyW]
    unfold applyOne
    cases hy : encode env e r with
    | ok y =>
      simp only [Out.bind_ok]
      by_cases hb : r.off + y.length ≤ b.length
      · rw [writeAt_ok hb, writeAt_ok (by rw [← h.1]; exact hb)]
        simp only [Out.bind_ok]
        exact ih _ _ (h.patch_same hb)
      · have hno : ∀ b', writeAt b r.off y ≠ .ok b' := fun b' hb' => hb (writeAt_ok_iff.mp hb').1
        rw [writeAt_length_congr h.1 r.off y hno]
        cases hw : writeAt b r.off y with
        | ok b' => exact absurd hw (hno b')
        | err e => simp [OutRel]
        | panic w => simp [OutRel]
        | diverge => simp [OutRel]
    | err e => simp [OutRel]
    | panic w => simp [OutRel]
    | diverge => simp [OutRel]



/-- same successful value, or both unsuccessful -/
def OkEq (x y : Out Bytes) : Prop := ∀ b, x = .ok b ↔ y = .ok b

theorem OkEq.bind {x y : Out Bytes} {f g : Bytes → Out Bytes} (h : OkEq x y)
    (hf : ∀ b, x = .ok b → OkEq (f b) (g b)) : OkEq (x >>= f) (y >>= g) := by
  intro b
  cases x with
  | ok a =>
    have hy : y = .ok a := (h a).mp rfl
    subst hy
    simp only [Out.bind_ok]
    exact hf a rfl b
  | err e =>
    have hy : ∀ a, y ≠ .ok a := fun a ha => by have := (h a).mpr ha; cases this
    cases y with
    | ok a => exact absurd rfl (hy a)
    | err e' => simp
    | panic w => simp
    | diverge => simp
  | panic w =>
    have hy : ∀ a, y ≠ .ok a := fun a ha => by have := (h a).mpr ha; cases this
    cases y with
    | ok a => exact absurd rfl (hy a)
    | err e' => simp
    | panic w => simp
    | diverge => simp
  | diverge =>
    have hy : ∀ a, y ≠ .ok a := fun a ha => by have := (h a).mpr ha; cases this
    cases y with
    | ok a => exact absurd rfl (hy a)
    | err e' => simp
    | panic w => simp
    | diverge => simp

/-- the simulation invariant between direct writing (`d`) and recording (`st`) -/
structure Inv (env : Env) (e : Endian) (d : Out Bytes) (st : Bytes × List Reloc) : Prop where
  bounds : Bounds st.2 st.1.length
  eq : OkEq (applyW env e st.2 st.1) d

variable {env : Env} {e : Endian} {d : Out Bytes} {st : Bytes × List Reloc}

theorem Inv.len (h : Inv env e d st) {b : Bytes} (hb : applyW env e st.2 st.1 = .ok b) :
    b.length = st.1.length := applyW_length _ hb

theorem inv_append (h : Inv env e d st) (x : Bytes) (f : Bytes → Out Bytes)
    (hf : ∀ b, b.length = st.1.length → f b = .ok (b ++ x)) :
    Inv env e (d >>= f) (st.1 ++ x, st.2) where
  bounds := fun r hr => by have := h.bounds r hr; simp; omega
  eq := by
    show OkEq (applyW env e st.2 (st.1 ++ x)) _
    rw [applyW_append _ _ _ h.bounds]
    exact OkEq.bind h.eq (fun b hb => by rw [hf b (h.len hb)]; exact fun _ => Iff.rfl)

theorem inv_patch (h : Inv env e d st) (off : Nat) (x : Bytes) (hx : off + x.length ≤ st.1.length)
    (hc : clear st.2 off x.length) (f : Bytes → Out Bytes)
    (hf : ∀ b, b.length = st.1.length → f b = .ok (patch b off x)) :
    Inv env e (d >>= f) (patch st.1 off x, st.2) where
  bounds := fun r hr => by have := h.bounds r hr; rw [patch_length hx]; exact this
  eq := by
    show OkEq (applyW env e st.2 (patch st.1 off x)) _
    rw [applyW_patch _ _ _ _ h.bounds hx hc]
    exact OkEq.bind h.eq (fun b hb => by rw [hf b (h.len hb)]; exact fun _ => Iff.rfl)

theorem inv_reloc_append (h : Inv env e d st) (z : Bytes) (r : Reloc) (hro : r.off = st.1.length)
    (hrs : r.size = z.length) (f : Bytes → Out Bytes)
    (hf : ∀ b, b.length = st.1.length → f b = (encode env e r >>= fun x => .ok (b ++ x))) :
    Inv env e (d >>= f) (st.1 ++ z, st.2 ++ [r]) where
  bounds := by
    intro r' hr'
    rcases List.mem_append.mp hr' with h1 | h1
    · have := h.bounds r' h1; simp; omega
    · simp at h1; subst h1; simp; omega
  eq := by
    show OkEq (applyW env e (st.2 ++ [r]) (st.1 ++ z)) _
    rw [applyW_append_one, applyW_append _ _ _ h.bounds]
    have : ∀ (o : Out Bytes), ((o >>= fun b' => Out.ok (b' ++ z)) >>= fun b' => applyOne env e b' r) =
        (o >>= fun b' => applyOne env e (b' ++ z) r) := by
      intro o; cases o <;> rfl
    rw [this]
    refine OkEq.bind h.eq (fun b hb => ?_)
    have hl := h.len hb
    rw [hf b hl]
    unfold applyOne
    cases hx : encode env e r with
    | ok x =>
      have hxl := encode_length hx
      simp only [Out.bind_ok]
      rw [hro, ← hl, writeAt_ok (by simp; omega), patch_at_end (by omega)]
      exact fun _ => Iff.rfl
    | err e => exact fun _ => Iff.rfl
    | panic w => exact fun _ => Iff.rfl
    | diverge => exact fun _ => Iff.rfl

theorem inv_reloc_at (h : Inv env e d st) (z : Bytes) (r : Reloc) (hrs : r.size = z.length)
    (hb : r.off + z.length ≤ st.1.length) (f : Bytes → Out Bytes)
    (hf : ∀ b, b.length = st.1.length → f b = (encode env e r >>= fun x => writeAt b r.off x)) :
    Inv env e (d >>= f) (patch st.1 r.off z, st.2 ++ [r]) where
  bounds := by
    intro r' hr'
    rw [patch_length hb]
    rcases List.mem_append.mp hr' with h1 | h1
    · exact h.bounds r' h1
    · simp at h1; subst h1; omega
  eq := by
    show OkEq (applyW env e (st.2 ++ [r]) (patch st.1 r.off z)) _
    rw [applyW_append_one]
    have hag := applyW_agree (env := env) (e := e) st.2 r.off z.length _ _ (agreeOut_patch hb)
    intro b
    cases h0 : applyW env e st.2 st.1 with
    | ok b0 =>
      have hd : d = .ok b0 := (h.eq b0).mp h0
      have hl := h.len h0
      rw [h0] at hag
      cases h1 : applyW env e st.2 (patch st.1 r.off z) with
      | ok b1 =>
        rw [h1] at hag
        simp only [OutRel] at hag
        rw [hd]
        simp only [Out.bind_ok]
        rw [hf b0 hl]
        unfold applyOne
        cases hx : encode env e r with
        | ok x =>
          have hxl := encode_length hx
          simp only [Out.bind_ok]
          rw [writeAt_ok (by rw [hag.1, hl]; omega), writeAt_ok (by rw [hl]; omega),
            hag.patch_eq (by omega) (by rw [hag.1, hl]; omega)]
        | err e => exact Iff.rfl
        | panic w => exact Iff.rfl
        | diverge => exact Iff.rfl
      | err e => rw [h1] at hag; simp [OutRel] at hag
      | panic w => rw [h1] at hag; simp [OutRel] at hag
      | diverge => rw [h1] at hag; simp [OutRel] at hag
    | err _ =>
      have hd : ∀ a, d ≠ .ok a := fun a ha => by have := (h.eq a).mpr ha; rw [h0] at this; cases this
      rw [h0] at hag
      have hl : ∀ a, applyW env e st.2 (patch st.1 r.off z) ≠ .ok a := by
        intro a ha; rw [ha] at hag; simp [OutRel] at hag
      constructor
      · intro hh
        cases h1 : applyW env e st.2 (patch st.1 r.off z) with
        | ok a => exact absurd h1 (hl a)
        | err e => rw [h1] at hh; cases hh
        | panic w => rw [h1] at hh; cases hh
        | diverge => rw [h1] at hh; cases hh
      · intro hh
        cases hdd : d with
        | ok a => exact absurd hdd (hd a)
        | err e => rw [hdd] at hh; cases hh
        | panic w => rw [hdd] at hh; cases hh
        | diverge => rw [hdd] at hh; cases hh
    | panic w0 =>
      have hd : ∀ a, d ≠ .ok a := fun a ha => by have := (h.eq a).mpr ha; rw [h0] at this; cases this
      rw [h0] at hag
      have hl : ∀ a, applyW env e st.2 (patch st.1 r.off z) ≠ .ok a := by
        intro a ha; rw [ha] at hag; simp [OutRel] at hag
      constructor
      · intro hh
        cases h1 : applyW env e st.2 (patch st.1 r.off z) with
        | ok a => exact absurd h1 (hl a)
        | err e => rw [h1] at hh; cases hh
        | panic w => rw [h1] at hh; cases hh
        | diverge => rw [h1] at hh; cases hh
      · intro hh
        cases hdd : d with
        | ok a => exact absurd hdd (hd a)
        | err e => rw [hdd] at hh; cases hh
        | panic w => rw [hdd] at hh; cases hh
        | diverge => rw [hdd] at hh; cases hh
    | diverge =>
      have hd : ∀ a, d ≠ .ok a := fun a ha => by have := (h.eq a).mpr ha; rw [h0] at this; cases this
      rw [h0] at hag
      have hl : ∀ a, applyW env e st.2 (patch st.1 r.off z) ≠ .ok a := by
        intro a ha; rw [ha] at hag; simp [OutRel] at hag
      constructor
      · intro hh
        cases h1 : applyW env e st.2 (patch st.1 r.off z) with
        | ok a => exact absurd h1 (hl a)
        | err e => rw [h1] at hh; cases hh
        | panic w => rw [h1] at hh; cases hh
        | diverge => rw [h1] at hh; cases hh
      · intro hh
        cases hdd : d with
        | ok a => exact absurd hdd (hd a)
        | err e => rw [hdd] at hh; cases hh
        | panic w => rw [hdd] at hh; cases hh
        | diverge => rw [hdd] at hh; cases hh



theorem ehData_sym {e : Endian} {ehPe size size' : Nat} (h : ehSymSize ehPe size = .ok size')
    (v : Nat) :
    ehData e v (ehPe % 16) size =
      (if ehPe % 16 = 10 ∨ ehPe % 16 = 11 ∨ ehPe % 16 = 12 then Ints.writeSdata e (asI64 v) size'
       else Ints.writeUdata e v size') := by
  unfold ehSymSize at h
  simp only at h
  unfold ehData
  by_cases h0 : ehPe % 16 = 0
  · simp only [h0, if_true, Out.ok.injEq] at h; subst h; simp [h0]
  · simp only [h0, if_false] at h
    by_cases h2 : ehPe % 16 = 2 ∨ ehPe % 16 = 10
    · simp only [h2, if_true, Out.ok.injEq] at h; subst h
      rcases h2 with h2 | h2 <;> simp [h2]
    · simp only [h2, if_false] at h
      by_cases h3 : ehPe % 16 = 3 ∨ ehPe % 16 = 11
      · simp only [h3, if_true, Out.ok.injEq] at h; subst h
        rcases h3 with h3 | h3 <;> simp [h3]
      · simp only [h3, if_false] at h
        by_cases h4 : ehPe % 16 = 4 ∨ ehPe % 16 = 12
        · simp only [h4, if_true, Out.ok.injEq] at h; subst h
          rcases h4 with h4 | h4 <;> simp [h4]
        · simp [h4] at h

theorem ehConst_sym {env : Env} {e : Endian} {ehPe size size' : Nat}
    (h : ehSymSize ehPe size = .ok size') (s : Nat) (a : Int) (pos : Nat) :
    ehConst e (addWrap (env.sym s) a) ehPe size pos =
      encode env e { off := pos, size := size', target := .symbol s, addend := a, ehPe := some ehPe } := by
  unfold ehConst encode
  simp only
  cases ehApply ehPe (addWrap (env.sym s) a) pos with
  | ok v => simp only [Out.bind_ok]; exact ehData_sym h v
  | err e => rfl
  | panic w => rfl
  | diverge => rfl

/-- one call keeps the invariant -/
theorem step_inv (h : Inv env e d st) (c : Call) (st' : Bytes × List Reloc)
    (hc : CallClear st.2 c) (hs : stepR e st c = .ok st') :
    Inv env e (d >>= fun b => stepD env e b c) st' := by
  cases c with
  | write bs =>
    cases hs
    exact inv_append h bs _ (fun b _ => rfl)
  | writeAt off bs =>
    simp only [stepR] at hs
    cases hw : writeAt st.1 off bs with
    | ok b1 =>
      rw [hw] at hs; cases hs
      obtain ⟨hx, rfl⟩ := writeAt_ok_iff.mp hw
      exact inv_patch h off bs hx hc _ (fun b hb => by simp only [stepD]; exact writeAt_ok (by omega))
    | err e => rw [hw] at hs; cases hs
    | panic w => rw [hw] at hs; cases hs
    | diverge => rw [hw] at hs; cases hs
  | udata v size =>
    simp only [stepR] at hs
    cases hx : Ints.writeUdata e v size with
    | ok x =>
      rw [hx] at hs; cases hs
      exact inv_append h x _ (fun b _ => by simp only [stepD, hx]; rfl)
    | err e => rw [hx] at hs; cases hs
    | panic w => rw [hx] at hs; cases hs
    | diverge => rw [hx] at hs; cases hs
  | sdata v size =>
    simp only [stepR] at hs
    cases hx : Ints.writeSdata e v size with
    | ok x =>
      rw [hx] at hs; cases hs
      exact inv_append h x _ (fun b _ => by simp only [stepD, hx]; rfl)
    | err e => rw [hx] at hs; cases hs
    | panic w => rw [hx] at hs; cases hs
    | diverge => rw [hx] at hs; cases hs
  | udataAt off v size =>
    simp only [stepR] at hs
    cases hx : Ints.writeUdata e v size with
    | ok x =>
      rw [hx] at hs
      simp only [Out.bind_ok] at hs
      cases hw : writeAt st.1 off x with
      | ok b1 =>
        rw [hw] at hs; cases hs
        obtain ⟨hxl, rfl⟩ := writeAt_ok_iff.mp hw
        have hl := writeUdata_length hx
        exact inv_patch h off x hxl (by rw [hl]; exact hc) _
          (fun b hb => by simp only [stepD, hx, Out.bind_ok]; exact writeAt_ok (by omega))
      | err e => rw [hw] at hs; cases hs
      | panic w => rw [hw] at hs; cases hs
      | diverge => rw [hw] at hs; cases hs
    | err e => rw [hx] at hs; cases hs
    | panic w => rw [hx] at hs; cases hs
    | diverge => rw [hx] at hs; cases hs
  | uleb v =>
    cases hs
    exact inv_append h _ _ (fun b _ => rfl)
  | sleb v =>
    cases hs
    exact inv_append h _ _ (fun b _ => rfl)
  | address a size =>
    cases a with
    | const v =>
      simp only [stepR] at hs
      cases hx : Ints.writeUdata e v size with
      | ok x =>
        rw [hx] at hs; cases hs
        exact inv_append h x _ (fun b _ => by simp only [stepD, Env.resolve, hx]; rfl)
      | err e => rw [hx] at hs; cases hs
      | panic w => rw [hx] at hs; cases hs
      | diverge => rw [hx] at hs; cases hs
    | sym s a =>
      simp only [stepR] at hs
      cases hz : Ints.writeUdata e 0 size with
      | ok z =>
        rw [hz] at hs; cases hs
        refine inv_reloc_append h z _ rfl (writeUdata_length hz).symm _ (fun b _ => ?_)
        simp only [stepD, Env.resolve, encode]
        cases Ints.writeUdata e (addWrap (env.sym s) a) size <;> rfl
      | err e => rw [hz] at hs; cases hs
      | panic w => rw [hz] at hs; cases hs
      | diverge => rw [hz] at hs; cases hs
  | offset val sect size =>
    simp only [stepR] at hs
    cases hz : Ints.writeUdata e 0 size with
    | ok z =>
      rw [hz] at hs; cases hs
      refine inv_reloc_append h z _ rfl (writeUdata_length hz).symm _ (fun b _ => ?_)
      simp only [stepD, encode]
      cases Ints.writeUdata e (addWrap (env.sec sect) (asI64 val)) size <;> rfl
    | err e => rw [hz] at hs; cases hs
    | panic w => rw [hz] at hs; cases hs
    | diverge => rw [hz] at hs; cases hs
  | offsetAt off val sect size =>
    simp only [stepR] at hs
    cases hz : Ints.writeUdata e 0 size with
    | ok z =>
      rw [hz] at hs
      simp only [Out.bind_ok] at hs
      cases hw : writeAt st.1 off z with
      | ok b1 =>
        rw [hw] at hs; cases hs
        obtain ⟨hxl, rfl⟩ := writeAt_ok_iff.mp hw
        refine inv_reloc_at h z
          { off := off, size := size, target := .sect sect, addend := asI64 val, ehPe := none }
          (writeUdata_length hz).symm hxl _ (fun b _ => ?_)
        simp only [stepD, encode]
      | err e => rw [hw] at hs; cases hs
      | panic w => rw [hw] at hs; cases hs
      | diverge => rw [hw] at hs; cases hs
    | err e => rw [hz] at hs; cases hs
    | panic w => rw [hz] at hs; cases hs
    | diverge => rw [hz] at hs; cases hs
  | ehPointer a ehPe size =>
    cases a with
    | const v =>
      simp only [stepR] at hs
      cases hx : ehConst e v ehPe size st.1.length with
      | ok x =>
        rw [hx] at hs; cases hs
        exact inv_append h x _ (fun b hb => by simp only [stepD, Env.resolve, hb, hx]; rfl)
      | err e => rw [hx] at hs; cases hs
      | panic w => rw [hx] at hs; cases hs
      | diverge => rw [hx] at hs; cases hs
    | sym s a =>
      simp only [stepR] at hs
      cases hsz : ehSymSize ehPe size with
      | ok size' =>
        rw [hsz] at hs
        simp only [Out.bind_ok] at hs
        cases hz : Ints.writeUdata e 0 size' with
        | ok z =>
          rw [hz] at hs; cases hs
          refine inv_reloc_append h z _ rfl (writeUdata_length hz).symm _ (fun b hb => ?_)
          simp only [stepD, Env.resolve, hb]
          rw [ehConst_sym hsz]
          cases encode env e _ <;> rfl
        | err e => rw [hz] at hs; cases hs
        | panic w => rw [hz] at hs; cases hs
        | diverge => rw [hz] at hs; cases hs
      | err e => rw [hsz] at hs; cases hs
      | panic w => rw [hsz] at hs; cases hs
      | diverge => rw [hsz] at hs; cases hs

theorem Out.bind_ok_self (d : Out Bytes) : (d >>= fun b => Out.ok b) = d := by
  cases d <;> rfl

theorem Out.bind_assoc' {α β γ : Type} (d : Out α) (f : α → Out β) (g : β → Out γ) :
    ((d >>= f) >>= g) = (d >>= fun a => f a >>= g) := by
  cases d <;> rfl

/-- every call sequence keeps the invariant -/
theorem runR_inv : ∀ (calls : List Call) (st : Bytes × List Reloc) (d : Out Bytes),
    Inv env e d st → NoClobber e st calls → ∀ st', runR e st calls = .ok st' →
      Inv env e (d >>= fun b => runD env e b calls) st' := by
  intro calls
  induction calls with
  | nil =>
    intro st d h _ st' hs
    cases hs
    simp only [runD]
    rw [Out.bind_ok_self]
    exact h
  | cons c cs ih =>
    intro st d h hnc st' hs
    simp only [runR] at hs
    simp only [NoClobber] at hnc
    cases h1 : stepR e st c with
    | ok st1 =>
      rw [h1] at hs hnc
      simp only [Out.bind_ok] at hs
      have := ih st1 _ (step_inv h c st1 hnc.1 h1) hnc.2 st' hs
      rw [Out.bind_assoc'] at this
      exact this
    | err e => rw [h1] at hs; cases hs
    | panic w => rw [h1] at hs; cases hs
    | diverge => rw [h1] at hs; cases hs

end Gimli.Wr
