import Gimli.Model.Cfi
/-!
# Call-frame instruction decoding: consumption and termination lemmas (C06)

Every reader used by `Cfi.parse` returns a suffix of its input; `parse` itself consumes at least
the opcode byte, so `decodeAll` (fuel = input length) never runs out of fuel.
-/
namespace Gimli.Cfi
open Gimli

theorem unsignedLoop_lt (bs : Bytes) : ∀ (r s v : Nat) (rest : Bytes),
    Leb.unsignedLoop bs r s = .ok (v, rest) → rest.length < bs.length := by
  induction bs with
  | nil => intro r s v rest h; simp [Leb.unsignedLoop] at h
  | cons b tl ih =>
    intro r s v rest h
    rw [Leb.unsignedLoop] at h
    split at h
    · cases h
    · simp only at h
      split at h
      · cases h; simp
      · have := ih _ _ _ _ h
        simp only [List.length_cons]; omega

theorem unsigned_lt {bs : Bytes} {v : Nat} {rest : Bytes} (h : Leb.unsigned bs = .ok (v, rest)) :
    rest.length < bs.length := by
  cases bs with
  | nil => simp [Leb.unsigned] at h
  | cons b tl =>
    rw [Leb.unsigned] at h
    split at h
    · cases h; simp
    · have := unsignedLoop_lt _ _ _ _ _ h
      simp only [List.length_cons]; omega

theorem signedLoop_lt (bs : Bytes) : ∀ (r s v sh : Nat) (b : UInt8) (rest : Bytes),
    Leb.signedLoop bs r s = .ok (v, sh, b, rest) → rest.length < bs.length := by
  induction bs with
  | nil => intro r s v sh b rest h; simp [Leb.signedLoop] at h
  | cons b0 tl ih =>
    intro r s v sh b rest h
    rw [Leb.signedLoop] at h
    split at h
    · cases h
    · simp only at h
      split at h
      · cases h; simp
      · have := ih _ _ _ _ _ _ h
        simp only [List.length_cons]; omega

theorem signed_lt {bs : Bytes} {v : Int} {rest : Bytes} (h : Leb.signed bs = .ok (v, rest)) :
    rest.length < bs.length := by
  unfold Leb.signed at h
  cases hl : Leb.signedLoop bs 0 0 with
  | ok p =>
    obtain ⟨a, b, c, d⟩ := p
    rw [hl] at h
    simp only [Out.ok.injEq, Prod.mk.injEq] at h
    obtain ⟨_, hr⟩ := h
    subst hr
    exact signedLoop_lt _ _ _ _ _ _ _ hl
  | err e => rw [hl] at h; cases h
  | panic w => rw [hl] at h; cases h
  | diverge => rw [hl] at h; cases h

theorem take_le {n : Nat} {bs a rest : Bytes} (h : Ints.take n bs = .ok (a, rest)) :
    rest.length ≤ bs.length := by
  unfold Ints.take at h
  split at h
  · cases h; simp
  · cases h

theorem readFixed_le {e : Endian} {n : Nat} {bs : Bytes} {v : Nat} {rest : Bytes}
    (h : Ints.readFixed e n bs = .ok (v, rest)) : rest.length ≤ bs.length := by
  unfold Ints.readFixed at h
  cases ht : Ints.take n bs with
  | ok p =>
    obtain ⟨a, r⟩ := p
    rw [ht] at h
    simp only [Out.bind_ok, Out.pure_eq, Out.ok.injEq, Prod.mk.injEq] at h
    obtain ⟨_, hr⟩ := h
    subst hr
    exact take_le ht
  | err e => rw [ht] at h; cases h
  | panic w => rw [ht] at h; cases h
  | diverge => rw [ht] at h; cases h

theorem readAddress_le {e : Endian} {n : Nat} {bs : Bytes} {v : Nat} {rest : Bytes}
    (h : Ints.readAddress e n bs = .ok (v, rest)) : rest.length ≤ bs.length := by
  unfold Ints.readAddress at h
  split at h
  · exact readFixed_le h
  · cases h

/-- destructuring an `Out` bind that returned a value -/
theorem bind_eq_ok {α β : Type} {x : Out α} {f : α → Out β} {b : β} (h : (x >>= f) = .ok b) :
    ∃ a, x = .ok a ∧ f a = .ok b := by
  cases x with
  | ok a => exact ⟨a, rfl, h⟩
  | err e => cases h
  | panic w => cases h
  | diverge => cases h

theorem readReg_lt {bs : Bytes} {r : Reg} {rest : Bytes} (h : readReg bs = .ok (r, rest)) :
    rest.length < bs.length := by
  unfold readReg at h
  obtain ⟨⟨v, rest'⟩, h1, h2⟩ := bind_eq_ok h
  simp only at h2
  split at h2
  · cases h2; exact unsigned_lt h1
  · cases h2

theorem readExpr_lt {bs : Bytes} {ex rest : Bytes} (h : readExpr bs = .ok (ex, rest)) :
    rest.length < bs.length := by
  unfold readExpr at h
  obtain ⟨⟨v, rest'⟩, h1, h2⟩ := bind_eq_ok h
  simp only at h2
  split at h2
  · cases h2
    have := unsigned_lt h1
    simp only [List.length_drop]; omega
  · cases h2

theorem parseEncodedValue_le {e : Endian} {enc asz : Nat} {bs : Bytes} {v : Nat} {rest : Bytes}
    (h : parseEncodedValue e enc asz bs = .ok (v, rest)) : rest.length ≤ bs.length := by
  unfold parseEncodedValue at h
  simp only at h
  split at h
  · exact readAddress_le h
  · exact Nat.le_of_lt (unsigned_lt h)
  · exact readFixed_le h
  · exact readFixed_le h
  · exact readFixed_le h
  · obtain ⟨⟨v', r'⟩, h1, h2⟩ := bind_eq_ok h
    cases h2; exact Nat.le_of_lt (signed_lt h1)
  · obtain ⟨⟨v', r'⟩, h1, h2⟩ := bind_eq_ok h
    cases h2; exact readFixed_le h1
  · obtain ⟨⟨v', r'⟩, h1, h2⟩ := bind_eq_ok h
    cases h2; exact readFixed_le h1
  · obtain ⟨⟨v', r'⟩, h1, h2⟩ := bind_eq_ok h
    cases h2; exact readFixed_le h1
  · cases h

theorem parseEncodedPointer_le {m : Mode} {e : Endian} {enc : Nat} {p : PtrParams} {pos : Nat} {bs : Bytes}
    {v : Nat × Bool} {rest : Bytes}
    (h : parseEncodedPointer m e enc p pos bs = .ok (v, rest)) : rest.length ≤ bs.length := by
  unfold parseEncodedPointer at h
  split at h
  · cases h
  · split at h
    · cases h
    · obtain ⟨base, _, h2⟩ := bind_eq_ok h
      obtain ⟨⟨off, r1⟩, h3, h4⟩ := bind_eq_ok h2
      obtain ⟨addr, _, h6⟩ := bind_eq_ok h4
      cases h6
      exact parseEncodedValue_le h3

theorem parseEncodedPointerDirect_le {m : Mode} {e : Endian} {enc : Nat} {p : PtrParams} {pos : Nat} {bs : Bytes}
    {v : Nat} {rest : Bytes}
    (h : parseEncodedPointerDirect m e enc p pos bs = .ok (v, rest)) : rest.length ≤ bs.length := by
  unfold parseEncodedPointerDirect at h
  obtain ⟨⟨⟨a, ind⟩, r1⟩, h1, h2⟩ := bind_eq_ok h
  simp only at h2
  split at h2
  · cases h2
  · cases h2; exact parseEncodedPointer_le h1

/-- close `rest.length ≤ bs.length` from a successful reader call -/
macro "reader_le " h:ident : tactic =>
  `(tactic| first
    | exact Nat.le_of_lt (readReg_lt $h)
    | exact Nat.le_of_lt (unsigned_lt $h)
    | exact Nat.le_of_lt (signed_lt $h)
    | exact Nat.le_of_lt (readExpr_lt $h)
    | exact readFixed_le $h
    | exact readAddress_le $h
    | exact parseEncodedPointerDirect_le $h)

/-- every successfully decoded instruction consumes at least its opcode byte -/
theorem parse_lt {c : DecodeCfg} {pos : Nat} {bs : Bytes} {i : Instr} {rest : Bytes}
    (h : parse c pos bs = .ok (i, rest)) : rest.length < bs.length := by
  cases bs with
  | nil => simp [parse] at h
  | cons b tl =>
    suffices rest.length ≤ tl.length by simp only [List.length_cons]; omega
    simp only [parse] at h
    repeat' split at h
    all_goals first
      | (cases h; exact Nat.le_refl _)
      | (cases h; done)
      | (obtain ⟨⟨a, r1⟩, h1, h2⟩ := bind_eq_ok h
         first
          | (cases h2
             reader_le h1)
          | (obtain ⟨⟨b', r2⟩, h3, h4⟩ := bind_eq_ok h2
             cases h4
             have l1 : r1.length ≤ tl.length := by reader_le h1
             have l2 : r2.length ≤ r1.length := by reader_le h3
             exact Nat.le_trans l2 l1))

theorem normal_bind {α β : Type} {x : Out α} {f : α → Out β} (hx : x.Normal) (hf : ∀ a, (f a).Normal) :
    (x >>= f).Normal := by
  cases x with
  | ok a => exact hf a
  | err e => trivial
  | panic w => exact hx
  | diverge => exact hx

theorem unsignedLoop_normal (bs : Bytes) : ∀ r s, (Leb.unsignedLoop bs r s).Normal := by
  induction bs with
  | nil => intro r s; simp [Leb.unsignedLoop, Out.Normal]
  | cons b tl ih =>
    intro r s
    rw [Leb.unsignedLoop]
    split
    · simp [Out.Normal]
    · simp only; split
      · simp [Out.Normal]
      · exact ih _ _

theorem unsigned_normal (bs : Bytes) : (Leb.unsigned bs).Normal := by
  cases bs with
  | nil => simp [Leb.unsigned, Out.Normal]
  | cons b tl =>
    rw [Leb.unsigned]; split
    · simp [Out.Normal]
    · exact unsignedLoop_normal _ _ _

theorem signedLoop_normal (bs : Bytes) : ∀ r s, (Leb.signedLoop bs r s).Normal := by
  induction bs with
  | nil => intro r s; simp [Leb.signedLoop, Out.Normal]
  | cons b tl ih =>
    intro r s
    rw [Leb.signedLoop]
    split
    · simp [Out.Normal]
    · simp only; split
      · simp [Out.Normal]
      · exact ih _ _

theorem signed_normal (bs : Bytes) : (Leb.signed bs).Normal := by
  unfold Leb.signed
  have := signedLoop_normal bs 0 0
  cases h : Leb.signedLoop bs 0 0 with
  | ok p => obtain ⟨a, b, c, d⟩ := p; simp [Out.Normal]
  | err e => simp [Out.Normal]
  | panic w => rw [h] at this; simp [Out.Normal] at this
  | diverge => rw [h] at this; simp [Out.Normal] at this

theorem take_normal (n : Nat) (bs : Bytes) : (Ints.take n bs).Normal := by
  unfold Ints.take; split <;> simp [Out.Normal]

theorem readFixed_normal (e : Endian) (n : Nat) (bs : Bytes) : (Ints.readFixed e n bs).Normal := by
  unfold Ints.readFixed
  exact normal_bind (take_normal n bs) (fun _ => by simp [Out.Normal])

theorem readAddress_normal (e : Endian) (n : Nat) (bs : Bytes) : (Ints.readAddress e n bs).Normal := by
  unfold Ints.readAddress; split
  · exact readFixed_normal _ _ _
  · simp [Out.Normal]

theorem readReg_normal (bs : Bytes) : (readReg bs).Normal := by
  unfold readReg
  refine normal_bind (unsigned_normal bs) (fun a => ?_)
  simp only; split <;> simp [Out.Normal]

theorem readExpr_normal (bs : Bytes) : (readExpr bs).Normal := by
  unfold readExpr
  refine normal_bind (unsigned_normal bs) (fun a => ?_)
  simp only; split <;> simp [Out.Normal]

theorem onesSized_normal (m : Mode) (size : Nat) (hsz : 1 ≤ size ∧ size ≤ 8) : (onesSized m size).Normal := by
  simp [onesSized, hsz, Out.Normal]

theorem wrappingAddSized_normal (m : Mode) (a l size : Nat) (hsz : 1 ≤ size ∧ size ≤ 8) :
    (wrappingAddSized m a l size).Normal := by
  unfold wrappingAddSized
  exact normal_bind (onesSized_normal m size hsz) (fun _ => by simp [Out.Normal])

theorem parseEncodedValue_normal (e : Endian) (enc asz : Nat) (bs : Bytes) (hv : ehPeValid enc = true) (hne : enc ≠ 0xff) :
    (parseEncodedValue e enc asz bs).Normal := by
  unfold parseEncodedValue
  simp only
  split
  · exact readAddress_normal _ _ _
  · exact unsigned_normal _
  · exact readFixed_normal _ _ _
  · exact readFixed_normal _ _ _
  · exact readFixed_normal _ _ _
  · exact normal_bind (signed_normal _) (fun _ => by simp [Out.Normal])
  · exact normal_bind (readFixed_normal _ _ _) (fun _ => by simp [Out.Normal])
  · exact normal_bind (readFixed_normal _ _ _) (fun _ => by simp [Out.Normal])
  · exact normal_bind (readFixed_normal _ _ _) (fun _ => by simp [Out.Normal])
  · rename_i h0 h1 h2 h3 h4 h9 h10 h11 h12
    exfalso
    simp only [imp_false] at h0 h1 h2 h3 h4 h9 h10 h11 h12
    simp only [ehPeValid, hne, if_false, Bool.decide_and, Bool.decide_or, Bool.and_eq_true,
      Bool.or_eq_true, decide_eq_true_eq] at hv
    omega

theorem pointerBase_normal (m : Mode) (enc : Nat) (p : PtrParams) (pos : Nat)
    (hsz : 1 ≤ p.addressSize ∧ p.addressSize ≤ 8) (hv : ehPeValid enc = true) (hne : enc ≠ 0xff) :
    (pointerBase m enc p pos).Normal := by
  unfold pointerBase
  split
  · simp [Out.Normal]
  · split
    · exact wrappingAddSized_normal _ _ _ _ hsz
    · simp [Out.Normal]
  · split <;> simp [Out.Normal]
  · split <;> simp [Out.Normal]
  · simp [Out.Normal]
  · simp [Out.Normal]
  · rename_i h0 h1 h2 h3 h4 h5
    exfalso
    simp only [imp_false] at h0 h1 h2 h3 h4 h5
    simp only [ehPeValid, hne, if_false, Bool.decide_and, Bool.decide_or, Bool.and_eq_true,
      Bool.or_eq_true, decide_eq_true_eq] at hv
    omega

theorem parseEncodedPointer_normal (m : Mode) (e : Endian) (enc : Nat) (p : PtrParams) (pos : Nat) (bs : Bytes)
    (hsz : 1 ≤ p.addressSize ∧ p.addressSize ≤ 8) : (parseEncodedPointer m e enc p pos bs).Normal := by
  unfold parseEncodedPointer
  split
  · simp [Out.Normal]
  · rename_i hv
    split
    · simp [Out.Normal]
    · rename_i hne
      have hv' : ehPeValid enc = true := by simpa using hv
      refine normal_bind (pointerBase_normal m enc p pos hsz hv' hne) (fun base => ?_)
      refine normal_bind (parseEncodedValue_normal e enc _ bs hv' hne) (fun q => ?_)
      exact normal_bind (wrappingAddSized_normal _ _ _ _ hsz) (fun _ => by simp [Out.Normal])

theorem parseEncodedPointerDirect_normal (m : Mode) (e : Endian) (enc : Nat) (p : PtrParams) (pos : Nat) (bs : Bytes)
    (hsz : 1 ≤ p.addressSize ∧ p.addressSize ≤ 8) : (parseEncodedPointerDirect m e enc p pos bs).Normal := by
  unfold parseEncodedPointerDirect
  refine normal_bind (parseEncodedPointer_normal m e enc p pos bs hsz) (fun q => ?_)
  simp only; split <;> simp [Out.Normal]

/-- normality of a reader call followed by a continuation that is normal -/
macro "reader_normal" : tactic =>
  `(tactic| first
    | exact readReg_normal _
    | exact unsigned_normal _
    | exact signed_normal _
    | exact readExpr_normal _
    | exact readFixed_normal _ _ _
    | exact readAddress_normal _ _ _)

/-- decoding one instruction returns an instruction or an error: no panic, no divergence
(for the address sizes 1..8; other sizes can overflow `u8` arithmetic in `ones_sized`) -/
theorem parse_normal (c : DecodeCfg) (pos : Nat) (bs : Bytes)
    (hsz : 1 ≤ c.params.addressSize ∧ c.params.addressSize ≤ 8) : (parse c pos bs).Normal := by
  cases bs with
  | nil => simp [parse, Out.Normal]
  | cons b tl =>
    simp only [parse]
    repeat' split
    all_goals first
      | (simp [Out.Normal]; done)
      | (refine normal_bind (parseEncodedPointerDirect_normal _ _ _ _ _ _ hsz) (fun _ => ?_); simp [Out.Normal])
      | (refine normal_bind (by reader_normal) (fun _ => ?_)
         first
          | (simp [Out.Normal]; done)
          | (refine normal_bind (by reader_normal) (fun _ => ?_); simp [Out.Normal]))

/-- the instruction iterator, driven to its end, stops with `Ok(None)` or an error: the fuel
`bs.length` always suffices and nothing panics -/
theorem decodeFuel_normal (c : DecodeCfg) (base total : Nat)
    (hsz : 1 ≤ c.params.addressSize ∧ c.params.addressSize ≤ 8) :
    ∀ (fuel : Nat) (bs : Bytes), bs.length ≤ fuel → (decodeFuel c base total fuel bs).2.Normal := by
  intro fuel
  induction fuel with
  | zero =>
    intro bs hlen
    cases bs with
    | nil => simp [decodeFuel, Out.Normal]
    | cons b tl => simp at hlen
  | succ fuel ih =>
    intro bs hlen
    cases bs with
    | nil => simp [decodeFuel, Out.Normal]
    | cons b tl =>
      rw [decodeFuel]
      have hn := parse_normal c (base + (total - (b :: tl).length)) (b :: tl) hsz
      cases hp : parse c (base + (total - (b :: tl).length)) (b :: tl) with
      | ok p =>
        obtain ⟨i, rest⟩ := p
        have := parse_lt hp
        simp only
        exact ih rest (by simp only [List.length_cons] at this hlen; omega)
      | err e => simp [Out.Normal]
      | panic w => rw [hp] at hn; simp [Out.Normal] at hn
      | diverge => rw [hp] at hn; simp [Out.Normal] at hn

theorem decodeAll_normal (c : DecodeCfg) (base : Nat) (bs : Bytes)
    (hsz : 1 ≤ c.params.addressSize ∧ c.params.addressSize ≤ 8) : (decodeAll c base bs).2.Normal :=
  decodeFuel_normal c base bs.length hsz bs.length bs (Nat.le_refl _)

/-- at most one instruction per byte -/
theorem decodeFuel_length (c : DecodeCfg) (base total : Nat) :
    ∀ (fuel : Nat) (bs : Bytes), (decodeFuel c base total fuel bs).1.length ≤ bs.length := by
  intro fuel
  induction fuel with
  | zero => intro bs; cases bs <;> simp [decodeFuel]
  | succ fuel ih =>
    intro bs
    cases bs with
    | nil => simp [decodeFuel]
    | cons b tl =>
      rw [decodeFuel]
      cases hp : parse c (base + (total - (b :: tl).length)) (b :: tl) with
      | ok p =>
        obtain ⟨i, rest⟩ := p
        have := parse_lt hp
        have := ih rest
        simp only [List.length_cons] at *
        omega
      | err e => simp
      | panic w => simp
      | diverge => simp

end Gimli.Cfi
