import Gimli.Model.ConvFrame
import Gimli.Lemmas.WCfi
/-!
Helper lemmas for the frame-table component of C12: one step of the conversion
(`convertInstr_spec`), the simulation between the input program under C06's call-frame semantics
and the converted program under `Spec.WCfi.wExec` (`convertProg_exec`, `convertProg_cie`), the
table-level statement, ranges of converted operands, CIE parameters, totality.
-/
open Gimli Gimli.Cfi Gimli.WCfi Gimli.ConvCfi Gimli.ConvFrame Gimli.Unwind Gimli.Spec.Unwind Gimli.Spec.WCfi

namespace Gimli.ConvFrame

theorem CRes.bind_ok_inv {α β : Type} {x : CRes α} {f : α → CRes β} {b : β} (h : (x >>= f) = .ok b) :
    ∃ a, x = .ok a ∧ f a = .ok b := by
  cases x with
  | ok a => exact ⟨a, rfl, h⟩
  | fail e => cases h
  | panic w => cases h
  | diverge => cases h

theorem ofWrite_ok {α : Type} {x : Out α} {a : α} (h : CRes.ofWrite x = .ok a) : x = .ok a := by
  cases x <;> simp [CRes.ofWrite] at h
  exact congrArg _ h

theorem narrowI32_ok {v w : Int} (h : narrowI32 v = .ok w) : w = v ∧ -(2 ^ 31 : Int) ≤ v ∧ v < 2 ^ 31 := by
  unfold narrowI32 at h
  split at h
  · rename_i hi; cases h; exact ⟨rfl, hi⟩
  · cases h

theorem dataOffset_ok {daf f v : Int} (h : dataOffset daf f = .ok v) :
    v = f * daf ∧ -(2 ^ 31 : Int) ≤ v ∧ v < 2 ^ 31 := by
  unfold dataOffset at h
  split at h
  · obtain ⟨h1, h2⟩ := narrowI32_ok h
    exact ⟨h1, h1 ▸ h2⟩
  · cases h

theorem dataOffsetU_ok {daf : Int} {f : Nat} {v : Int} (h : dataOffsetU daf f = .ok v) :
    v = (f : Int) * daf ∧ -(2 ^ 31 : Int) ≤ v ∧ v < 2 ^ 31 := by
  unfold dataOffsetU narrowU64I64 at h
  split at h
  · exact dataOffset_ok h
  · cases h

theorem narrowU32_ok {n v : Nat} (h : narrowU32 n = .ok v) : v = n ∧ n < 2 ^ 32 := by
  unfold narrowU32 at h
  split at h
  · rename_i hi; cases h; exact ⟨rfl, hi⟩
  · cases h

theorem advance_ok {caf off d o : Nat} (h : advance caf off d = .ok o) :
    o = off + d * caf ∧ d * caf < 2 ^ 32 ∧ o < 2 ^ 32 := by
  unfold advance at h
  obtain ⟨f, hf, h2⟩ := bind_ok_inv h
  obtain ⟨hf1, _⟩ := narrowU32_ok hf
  subst hf1
  split at h2
  · rename_i hi; cases h2; exact ⟨rfl, hi.1, hi.2⟩
  · cases h2


/-- the expression converter returns the bytes it was given whenever it succeeds (true of the
canonical encodings the differential run uses; in general this hypothesis is to be replaced by the
meaning-equivalence that C12-expr proves for `Expression::from`) -/
def ExprIdentity (env : Env) : Prop := ∀ ex ex', env.convertExpr ex = .ok ex' → ex' = ex

/-- length of the expression operand of an instruction (0 if it has none) -/
def exprLen : Instr → Nat
  | .defCfaExpression e => e.length
  | .expression _ e => e.length
  | .valExpression _ e => e.length
  | _ => 0

theorem wrapI64_of_i32 {v : Int} (h : -(2 ^ 31 : Int) ≤ v ∧ v < 2 ^ 31) : wrapI64 v = v :=
  wrapI64_id v (by omega)

/-- **one step of the conversion**: a `Nop` disappears; an `AdvanceLoc` only moves the running
offset by `delta * code_alignment_factor` (exactly, inside `u32`); every other instruction that
converts becomes one writer instruction with in-range operands and the same meaning -/
theorem convertInstr_spec (env : Env) (hex : ExprIdentity env) (off : Nat) (i : Instr)
    (w : Option WInstr) (off' : Nat) (hl : exprLen i < 2 ^ 64)
    (h : convertInstr env off i = .ok (w, off')) :
    (i = .nop ∧ w = none ∧ off' = off) ∨
    (∃ d, i = .advanceLoc d ∧ w = none ∧ off' = off + d * env.caf ∧ d * env.caf < 2 ^ 32 ∧ off' < 2 ^ 32) ∨
    (∃ wi, w = some wi ∧ off' = off ∧ wi.InRange ∧ (wi = .negateRaState → i = .negateRaState) ∧
      ∀ (p : Params), p.dataAlign = env.daf → ∀ s : State, wStep s wi = step p s i) := by
  cases i with
  | setLoc a => simp [convertInstr] at h
  | nop =>
    simp only [convertInstr, CRes.pure_eq, CRes.ok.injEq, Prod.mk.injEq] at h
    exact Or.inl ⟨rfl, h.1.symm, h.2.symm⟩
  | advanceLoc d =>
    simp only [convertInstr] at h
    obtain ⟨o, ho, h2⟩ := CRes.bind_ok_inv h
    obtain ⟨h1, h3, h4⟩ := advance_ok (ofWrite_ok ho)
    simp only [CRes.pure_eq, CRes.ok.injEq, Prod.mk.injEq] at h2
    obtain ⟨rfl, rfl⟩ := h2
    exact Or.inr (Or.inl ⟨d, rfl, rfl, h1, h3, h4⟩)
  | defCfa r o =>
    simp only [convertInstr] at h
    obtain ⟨v, hv, h2⟩ := CRes.bind_ok_inv h
    obtain ⟨h1, h3⟩ := narrowI32_ok (ofWrite_ok hv)
    simp only [CRes.pure_eq, CRes.ok.injEq, Prod.mk.injEq] at h2
    obtain ⟨rfl, rfl⟩ := h2
    refine Or.inr (Or.inr ⟨.cfa r v, rfl, rfl, ?_, ?_, ?_⟩)
    · simp only [WInstr.InRange, isI32]; omega
    · intro hh; cases hh
    · intro p hp s; simp only [wStep, step, h1]; rw [wrapI64_of_i32 h3]
  | defCfaSf r f =>
    simp only [convertInstr] at h
    obtain ⟨v, hv, h2⟩ := CRes.bind_ok_inv h
    obtain ⟨h1, h3⟩ := dataOffset_ok (ofWrite_ok hv)
    simp only [CRes.pure_eq, CRes.ok.injEq, Prod.mk.injEq] at h2
    obtain ⟨rfl, rfl⟩ := h2
    refine Or.inr (Or.inr ⟨.cfa r v, rfl, rfl, ?_, ?_, ?_⟩)
    · simp only [WInstr.InRange, isI32]; omega
    · intro hh; cases hh
    · intro p hp s; simp only [wStep, step, factored, hp]; rw [← h1, wrapI64_of_i32 h3]
  | defCfaRegister r =>
    simp only [convertInstr, CRes.pure_eq, CRes.ok.injEq, Prod.mk.injEq] at h
    obtain ⟨rfl, rfl⟩ := h
    refine Or.inr (Or.inr ⟨.cfaRegister r, rfl, rfl, trivial, ?_, ?_⟩)
    · intro hh; cases hh
    · intro p _ s; simp only [wStep, step]
      cases s.cur.cfa <;> rfl
  | defCfaOffset o =>
    simp only [convertInstr] at h
    obtain ⟨v, hv, h2⟩ := CRes.bind_ok_inv h
    obtain ⟨h1, h3⟩ := narrowI32_ok (ofWrite_ok hv)
    simp only [CRes.pure_eq, CRes.ok.injEq, Prod.mk.injEq] at h2
    obtain ⟨rfl, rfl⟩ := h2
    refine Or.inr (Or.inr ⟨.cfaOffset v, rfl, rfl, ?_, ?_, ?_⟩)
    · simp only [WInstr.InRange, isI32]; omega
    · intro hh; cases hh
    · intro p hp s; simp only [wStep, step, h1]; rw [wrapI64_of_i32 h3]
      cases s.cur.cfa <;> rfl
  | defCfaOffsetSf f =>
    simp only [convertInstr] at h
    obtain ⟨v, hv, h2⟩ := CRes.bind_ok_inv h
    obtain ⟨h1, h3⟩ := dataOffset_ok (ofWrite_ok hv)
    simp only [CRes.pure_eq, CRes.ok.injEq, Prod.mk.injEq] at h2
    obtain ⟨rfl, rfl⟩ := h2
    refine Or.inr (Or.inr ⟨.cfaOffset v, rfl, rfl, ?_, ?_, ?_⟩)
    · simp only [WInstr.InRange, isI32]; omega
    · intro hh; cases hh
    · intro p hp s; simp only [wStep, step, factored, hp]; rw [← h1, wrapI64_of_i32 h3]
      cases s.cur.cfa <;> rfl
  | defCfaExpression ex =>
    simp only [convertInstr] at h
    obtain ⟨ex', hx, h2⟩ := CRes.bind_ok_inv h
    have he := hex ex ex' hx
    simp only [CRes.pure_eq, CRes.ok.injEq, Prod.mk.injEq] at h2
    obtain ⟨rfl, rfl⟩ := h2
    subst he
    refine Or.inr (Or.inr ⟨.cfaExpression ex', rfl, rfl, hl, ?_, ?_⟩)
    · intro hh; cases hh
    · intro p _ s; simp only [wStep, step]
  | undefined r =>
    simp only [convertInstr, CRes.pure_eq, CRes.ok.injEq, Prod.mk.injEq] at h
    obtain ⟨rfl, rfl⟩ := h
    refine Or.inr (Or.inr ⟨.undefined r, rfl, rfl, trivial, ?_, ?_⟩)
    · intro hh; cases hh
    · intro p _ s; simp only [wStep, step]
  | sameValue r =>
    simp only [convertInstr, CRes.pure_eq, CRes.ok.injEq, Prod.mk.injEq] at h
    obtain ⟨rfl, rfl⟩ := h
    refine Or.inr (Or.inr ⟨.sameValue r, rfl, rfl, trivial, ?_, ?_⟩)
    · intro hh; cases hh
    · intro p _ s; simp only [wStep, step]
  | offset r f =>
    simp only [convertInstr] at h
    obtain ⟨v, hv, h2⟩ := CRes.bind_ok_inv h
    obtain ⟨h1, h3⟩ := dataOffsetU_ok (ofWrite_ok hv)
    simp only [CRes.pure_eq, CRes.ok.injEq, Prod.mk.injEq] at h2
    obtain ⟨rfl, rfl⟩ := h2
    refine Or.inr (Or.inr ⟨.offset r v, rfl, rfl, ?_, ?_, ?_⟩)
    · simp only [WInstr.InRange, isI32]; omega
    · intro hh; cases hh
    · intro p hp s; simp only [wStep, step, factored, hp]; rw [← h1, wrapI64_of_i32 h3]
  | offsetExtendedSf r f =>
    simp only [convertInstr] at h
    obtain ⟨v, hv, h2⟩ := CRes.bind_ok_inv h
    obtain ⟨h1, h3⟩ := dataOffset_ok (ofWrite_ok hv)
    simp only [CRes.pure_eq, CRes.ok.injEq, Prod.mk.injEq] at h2
    obtain ⟨rfl, rfl⟩ := h2
    refine Or.inr (Or.inr ⟨.offset r v, rfl, rfl, ?_, ?_, ?_⟩)
    · simp only [WInstr.InRange, isI32]; omega
    · intro hh; cases hh
    · intro p hp s; simp only [wStep, step, factored, hp]; rw [← h1, wrapI64_of_i32 h3]
  | valOffset r f =>
    simp only [convertInstr] at h
    obtain ⟨v, hv, h2⟩ := CRes.bind_ok_inv h
    obtain ⟨h1, h3⟩ := dataOffsetU_ok (ofWrite_ok hv)
    simp only [CRes.pure_eq, CRes.ok.injEq, Prod.mk.injEq] at h2
    obtain ⟨rfl, rfl⟩ := h2
    refine Or.inr (Or.inr ⟨.valOffset r v, rfl, rfl, ?_, ?_, ?_⟩)
    · simp only [WInstr.InRange, isI32]; omega
    · intro hh; cases hh
    · intro p hp s; simp only [wStep, step, factored, hp]; rw [← h1, wrapI64_of_i32 h3]
  | valOffsetSf r f =>
    simp only [convertInstr] at h
    obtain ⟨v, hv, h2⟩ := CRes.bind_ok_inv h
    obtain ⟨h1, h3⟩ := dataOffset_ok (ofWrite_ok hv)
    simp only [CRes.pure_eq, CRes.ok.injEq, Prod.mk.injEq] at h2
    obtain ⟨rfl, rfl⟩ := h2
    refine Or.inr (Or.inr ⟨.valOffset r v, rfl, rfl, ?_, ?_, ?_⟩)
    · simp only [WInstr.InRange, isI32]; omega
    · intro hh; cases hh
    · intro p hp s; simp only [wStep, step, factored, hp]; rw [← h1, wrapI64_of_i32 h3]
  | register d sr =>
    simp only [convertInstr, CRes.pure_eq, CRes.ok.injEq, Prod.mk.injEq] at h
    obtain ⟨rfl, rfl⟩ := h
    refine Or.inr (Or.inr ⟨.register d sr, rfl, rfl, trivial, ?_, ?_⟩)
    · intro hh; cases hh
    · intro p _ s; simp only [wStep, step]
  | expression r ex =>
    simp only [convertInstr] at h
    obtain ⟨ex', hx, h2⟩ := CRes.bind_ok_inv h
    have he := hex ex ex' hx
    simp only [CRes.pure_eq, CRes.ok.injEq, Prod.mk.injEq] at h2
    obtain ⟨rfl, rfl⟩ := h2
    subst he
    refine Or.inr (Or.inr ⟨.expression r ex', rfl, rfl, hl, ?_, ?_⟩)
    · intro hh; cases hh
    · intro p _ s; simp only [wStep, step]
  | valExpression r ex =>
    simp only [convertInstr] at h
    obtain ⟨ex', hx, h2⟩ := CRes.bind_ok_inv h
    have he := hex ex ex' hx
    simp only [CRes.pure_eq, CRes.ok.injEq, Prod.mk.injEq] at h2
    obtain ⟨rfl, rfl⟩ := h2
    subst he
    refine Or.inr (Or.inr ⟨.valExpression r ex', rfl, rfl, hl, ?_, ?_⟩)
    · intro hh; cases hh
    · intro p _ s; simp only [wStep, step]
  | restore r =>
    simp only [convertInstr, CRes.pure_eq, CRes.ok.injEq, Prod.mk.injEq] at h
    obtain ⟨rfl, rfl⟩ := h
    refine Or.inr (Or.inr ⟨.restore r, rfl, rfl, trivial, ?_, ?_⟩)
    · intro hh; cases hh
    · intro p _ s; simp only [wStep, step]
      cases s.init <;> rfl
  | rememberState  =>
    simp only [convertInstr, CRes.pure_eq, CRes.ok.injEq, Prod.mk.injEq] at h
    obtain ⟨rfl, rfl⟩ := h
    refine Or.inr (Or.inr ⟨.rememberState, rfl, rfl, trivial, ?_, ?_⟩)
    · intro hh; cases hh
    · intro p _ s; simp only [wStep, step]
  | restoreState  =>
    simp only [convertInstr, CRes.pure_eq, CRes.ok.injEq, Prod.mk.injEq] at h
    obtain ⟨rfl, rfl⟩ := h
    refine Or.inr (Or.inr ⟨.restoreState, rfl, rfl, trivial, ?_, ?_⟩)
    · intro hh; cases hh
    · intro p _ s; simp only [wStep, step]
      cases s.stack <;> rfl
  | argsSize n =>
    simp only [convertInstr] at h
    obtain ⟨v, hv, h2⟩ := CRes.bind_ok_inv h
    obtain ⟨h1, h3⟩ := narrowU32_ok (ofWrite_ok hv)
    simp only [CRes.pure_eq, CRes.ok.injEq, Prod.mk.injEq] at h2
    obtain ⟨rfl, rfl⟩ := h2
    refine Or.inr (Or.inr ⟨.argsSize v, rfl, rfl, ?_, ?_, ?_⟩)
    · simp only [WInstr.InRange]; omega
    · intro hh; cases hh
    · intro p _ s; simp only [wStep, step, h1]
  | negateRaState =>
    simp only [convertInstr, CRes.pure_eq, CRes.ok.injEq, Prod.mk.injEq] at h
    obtain ⟨rfl, rfl⟩ := h
    refine Or.inr (Or.inr ⟨.negateRaState, rfl, rfl, trivial, fun _ => rfl, ?_⟩)
    intro p _ s; simp only [wStep, step]
    cases s.cur.regs Spec.Unwind.raSignState with
    | none => rfl
    | some v => cases v <;> rfl


/-! ## whole programs -/

/-- the rules that a list of rows assigns to an address: those of the first row that contains it
(rows that are empty, `start ≥ end`, contain nothing) -/
def rulesAt : List TableRow → Nat → Option RuleSet
  | [], _ => none
  | r :: rs, pc => if r.start ≤ pc ∧ pc < r.end_ then some r.rules else rulesAt rs pc

theorem rulesAt_merge (a b c : Nat) (r : RuleSet) (rest : List TableRow) (pc : Nat) (hab : a ≤ b) (hbc : b ≤ c) :
    rulesAt (⟨a, b, r⟩ :: ⟨b, c, r⟩ :: rest) pc = rulesAt (⟨a, c, r⟩ :: rest) pc := by
  simp only [rulesAt]
  by_cases h1 : a ≤ pc ∧ pc < b
  · rw [if_pos h1, if_pos ⟨h1.1, by omega⟩]
  · rw [if_neg h1]
    by_cases h2 : b ≤ pc ∧ pc < c
    · rw [if_pos h2, if_pos ⟨by omega, h2.2⟩]
    · rw [if_neg h2, if_neg (by omega)]

theorem rulesAt_empty (a : Nat) (r : RuleSet) (rest : List TableRow) (pc : Nat) :
    rulesAt (⟨a, a, r⟩ :: rest) pc = rulesAt rest pc := by
  simp only [rulesAt]
  rw [if_neg (by omega)]

theorem state_loc_self (s : State) : { s with loc := s.loc } = s := by cases s; rfl

/-- `step` on an instruction that is neither `set_loc` nor `advance_loc`, through its writer image -/
theorem exec_cons_plain (p : Params) (endAddr : Nat) (s s2 : State) (i : Instr) (is : List Instr)
    (h : step p s i = .ok (s2, none)) :
    exec p none none endAddr s (i :: is) none = exec p none none endAddr s2 is none := by
  rw [exec, stepB_none, h]

theorem exec_cons_error (p : Params) (endAddr : Nat) (s : State) (i : Instr) (is : List Instr) (e : Err)
    (h : step p s i = .error e) :
    exec p none none endAddr s (i :: is) none = ([], .error e) := by
  rw [exec, stepB_none, h]

/-- **simulation**: the input program from state `s` against the converted program from the state
that lags `g` bytes behind (`g` = code offset accumulated since the last emitted instruction) -/
theorem convertProg_exec (env : Env) (hex : ExprIdentity env) (p : Params)
    (hc : p.codeAlign = env.caf) (hd : p.dataAlign = env.daf) (endAddr : Nat) :
    ∀ (is : List Instr) (off prev g l' : Nat) (s : State) (ws : List (Nat × WInstr)) (last : Nat)
      (rowsIn : List TableRow) (sf : State),
      (∀ i ∈ is, exprLen i < 2 ^ 64) → prev + g = off → l' + g = s.loc →
      (g ≠ 0 → s.loc < 2 ^ (8 * p.addressSize)) →
      convertProg env off is = .ok (ws, last) →
      exec p none none endAddr s is none = (rowsIn, .ok sf) →
      ∃ rowsOut sf', wExec p endAddr { s with loc := l' } prev ws = (rowsOut, .ok sf') ∧
        sf'.cur = sf.cur ∧ sf'.stack = sf.stack ∧ sf'.init = sf.init ∧
        ∀ pc, pc < endAddr → rulesAt rowsOut pc = rulesAt (⟨l', s.loc, s.cur⟩ :: rowsIn) pc := by
  intro is
  induction is with
  | nil =>
    intro off prev g l' s ws last rowsIn sf _ _ hl _ hconv hexec
    simp only [convertProg, CRes.pure_eq, CRes.ok.injEq, Prod.mk.injEq] at hconv
    obtain ⟨rfl, _⟩ := hconv
    rw [exec] at hexec
    simp only [Prod.mk.injEq, Except.ok.injEq] at hexec
    obtain ⟨rfl, rfl⟩ := hexec
    refine ⟨_, _, rfl, rfl, rfl, rfl, ?_⟩
    intro pc hpc
    simp only [rulesAt]
    by_cases h1 : l' ≤ pc
    · rw [if_pos ⟨h1, hpc⟩]
      by_cases h2 : pc < s.loc
      · rw [if_pos ⟨h1, h2⟩]
      · rw [if_neg (by omega), if_pos ⟨by omega, hpc⟩]
    · rw [if_neg (by omega), if_neg (by omega), if_neg (by omega)]
  | cons i is ih =>
    intro off prev g l' s ws last rowsIn sf hlen hg hl hbound hconv hexec
    have hli : exprLen i < 2 ^ 64 := hlen i (by simp)
    have hlis : ∀ j ∈ is, exprLen j < 2 ^ 64 := fun j hj => hlen j (by simp [hj])
    rw [convertProg] at hconv
    obtain ⟨⟨w, off'⟩, hci, hconv2⟩ := CRes.bind_ok_inv hconv
    obtain ⟨⟨rest, last'⟩, hrest, hconv3⟩ := CRes.bind_ok_inv hconv2
    rcases convertInstr_spec env hex off i w off' hli hci with ⟨rfl, rfl, rfl⟩ | ⟨d, rfl, rfl, ho', hd32, ho32⟩ |
      ⟨wi, rfl, rfl, hir, _, hmean⟩
    · -- nop
      simp only [CRes.pure_eq, CRes.ok.injEq, Prod.mk.injEq] at hconv3
      obtain ⟨rfl, rfl⟩ := hconv3
      rw [exec_cons_plain p endAddr s s .nop is rfl] at hexec
      exact ih off' prev g l' s rest last' rowsIn sf hlis hg hl hbound hrest hexec
    · -- advance_loc
      simp only [CRes.pure_eq, CRes.ok.injEq, Prod.mk.injEq] at hconv3
      obtain ⟨rfl, rfl⟩ := hconv3
      have hmod : (d * p.codeAlign) % 2 ^ 64 = d * env.caf := by rw [hc]; omega
      rw [exec, stepB_none] at hexec
      simp only [step, hmod] at hexec
      by_cases hfit : s.loc + d * env.caf < 2 ^ (8 * p.addressSize)
      · rw [if_pos hfit] at hexec
        simp only [Prod.mk.injEq] at hexec
        obtain ⟨hrows, hfin⟩ := hexec
        subst hrows
        have hex2 : exec p none none endAddr { s with loc := s.loc + d * env.caf } is none =
            ((exec p none none endAddr { s with loc := s.loc + d * env.caf } is none).1, .ok sf) := by
          rw [← hfin]
        obtain ⟨rowsOut, sf', h1, h2, h3, h4, h5⟩ := ih off' prev (g + d * env.caf) l'
          { s with loc := s.loc + d * env.caf } rest last' _ sf hlis (by omega) (by simp only; omega)
          (fun _ => hfit) hrest hex2
        refine ⟨rowsOut, sf', h1, h2, h3, h4, ?_⟩
        intro pc hpc
        rw [h5 pc hpc]
        exact (rulesAt_merge l' s.loc (s.loc + d * env.caf) s.cur _ pc (by omega) (by omega)).symm
      · rw [if_neg hfit] at hexec
        simp at hexec
    · -- an instruction that is emitted
      simp only [CRes.pure_eq, CRes.ok.injEq, Prod.mk.injEq] at hconv3
      obtain ⟨rfl, rfl⟩ := hconv3
      have hm := hmean p hd s
      cases hstep : step p s i with
      | error e =>
        rw [exec_cons_error p endAddr s i is e hstep] at hexec
        simp at hexec
      | ok q =>
        obtain ⟨s2, row⟩ := q
        rw [hstep] at hm
        obtain ⟨hrow, hloc⟩ := wStep_row s wi s2 row hm
        subst hrow
        rw [exec_cons_plain p endAddr s s2 i is hstep] at hexec
        obtain ⟨rowsOut, sf', h1, h2, h3, h4, h5⟩ := ih off' off' 0 s2.loc s2 rest last' rowsIn sf hlis rfl rfl
          (fun h => absurd rfl h) hrest hexec
        rw [state_loc_self s2] at h1
        by_cases hg0 : g = 0
        · -- no pending advance: the instruction is supplied at the previous offset
          subst hg0
          have hpo : off' = prev := by omega
          have hl' : l' = s.loc := by omega
          subst hpo; subst hl'
          refine ⟨rowsOut, sf', ?_, h2, h3, h4, ?_⟩
          · rw [wExec, if_pos rfl, state_loc_self s, hm]
            exact h1
          · intro pc hpc
            rw [h5 pc hpc, rulesAt_empty, rulesAt_empty]
        · -- pending advance: the row built so far is completed first
          have hne : ¬ off' = prev := by omega
          have hn : l' + (off' - prev) = s.loc := by omega
          refine ⟨⟨l', s.loc, s.cur⟩ :: rowsOut, sf', ?_, h2, h3, h4, ?_⟩
          · rw [wExec, if_neg hne]
            simp only [hn]
            rw [if_pos (hbound hg0)]
            have hs : ({ ({ s with loc := l' } : State) with loc := s.loc } : State) = s := by cases s; rfl
            rw [hs, hm]
            simp only [h1]
          · intro pc hpc
            simp only [rulesAt]
            by_cases hin : l' ≤ pc ∧ pc < s.loc
            · rw [if_pos hin, if_pos hin]
            · rw [if_neg hin, if_neg hin, h5 pc hpc, rulesAt_empty]


/-- the meaning of a supplied instruction does not look at the location -/
theorem wStep_loc (s : State) (l : Nat) (wi : WInstr) :
    wStep { s with loc := l } wi =
      match wStep s wi with
      | .ok (s2, r) => .ok ({ s2 with loc := l }, r)
      | .error e => .error e := by
  obtain ⟨loc, cur, stack, init⟩ := s
  cases wi <;> simp only [wStep]
  case cfaRegister r => cases cur.cfa <;> rfl
  case cfaOffset o => cases cur.cfa <;> rfl
  case restore r => cases init <;> rfl
  case restoreState => cases stack <;> rfl
  case negateRaState =>
    cases cur.regs Spec.Unwind.raSignState with
    | none => rfl
    | some v => cases v <;> rfl
  all_goals rfl

/-- the CIE's program: the converted instructions, all supplied at offset 0 (a CIE has no code
offsets), leave the same rules, the same remembered states and the same initial rules as the input
program — whose `advance_loc`s only move the location, which the FDE resets -/
theorem convertProg_cie (env : Env) (hex : ExprIdentity env) (p : Params) (hd : p.dataAlign = env.daf)
    (endAddr endAddr' : Nat) :
    ∀ (is : List Instr) (off l' : Nat) (s : State) (ws : List (Nat × WInstr)) (last : Nat)
      (rowsIn : List TableRow) (sf : State),
      (∀ i ∈ is, exprLen i < 2 ^ 64) →
      convertProg env off is = .ok (ws, last) →
      exec p none none endAddr s is none = (rowsIn, .ok sf) →
      ∃ rowsOut, wExec p endAddr' { s with loc := l' } 0 (ws.map (fun x => (0, x.2))) =
        (rowsOut, .ok { sf with loc := l' }) := by
  intro is
  induction is with
  | nil =>
    intro off l' s ws last rowsIn sf _ hconv hexec
    simp only [convertProg, CRes.pure_eq, CRes.ok.injEq, Prod.mk.injEq] at hconv
    obtain ⟨rfl, _⟩ := hconv
    rw [exec] at hexec
    simp only [Prod.mk.injEq, Except.ok.injEq] at hexec
    obtain ⟨_, rfl⟩ := hexec
    exact ⟨_, rfl⟩
  | cons i is ih =>
    intro off l' s ws last rowsIn sf hlen hconv hexec
    have hli : exprLen i < 2 ^ 64 := hlen i (by simp)
    have hlis : ∀ j ∈ is, exprLen j < 2 ^ 64 := fun j hj => hlen j (by simp [hj])
    rw [convertProg] at hconv
    obtain ⟨⟨w, off'⟩, hci, hconv2⟩ := CRes.bind_ok_inv hconv
    obtain ⟨⟨rest, last'⟩, hrest, hconv3⟩ := CRes.bind_ok_inv hconv2
    rcases convertInstr_spec env hex off i w off' hli hci with ⟨rfl, rfl, rfl⟩ | ⟨d, rfl, rfl, ho', hd32, ho32⟩ |
      ⟨wi, rfl, rfl, hir, _, hmean⟩
    · simp only [CRes.pure_eq, CRes.ok.injEq, Prod.mk.injEq] at hconv3
      obtain ⟨rfl, rfl⟩ := hconv3
      rw [exec_cons_plain p endAddr s s .nop is rfl] at hexec
      exact ih off' l' s rest last' rowsIn sf hlis hrest hexec
    · simp only [CRes.pure_eq, CRes.ok.injEq, Prod.mk.injEq] at hconv3
      obtain ⟨rfl, rfl⟩ := hconv3
      rw [exec, stepB_none] at hexec
      simp only [step] at hexec
      by_cases hfit : s.loc + d * p.codeAlign % 2 ^ 64 < 2 ^ (8 * p.addressSize)
      · rw [if_pos hfit] at hexec
        simp only [Prod.mk.injEq] at hexec
        obtain ⟨_, hfin⟩ := hexec
        have hex2 : exec p none none endAddr { s with loc := s.loc + d * p.codeAlign % 2 ^ 64 } is none =
            ((exec p none none endAddr { s with loc := s.loc + d * p.codeAlign % 2 ^ 64 } is none).1, .ok sf) := by
          rw [← hfin]
        exact ih off' l' { s with loc := s.loc + d * p.codeAlign % 2 ^ 64 } rest last' _ sf hlis hrest hex2
      · rw [if_neg hfit] at hexec
        simp at hexec
    · simp only [CRes.pure_eq, CRes.ok.injEq, Prod.mk.injEq] at hconv3
      obtain ⟨rfl, rfl⟩ := hconv3
      have hm := hmean p hd s
      cases hstep : step p s i with
      | error e =>
        rw [exec_cons_error p endAddr s i is e hstep] at hexec
        simp at hexec
      | ok q =>
        obtain ⟨s2, row⟩ := q
        rw [hstep] at hm
        obtain ⟨hrow, _⟩ := wStep_row s wi s2 row hm
        subst hrow
        rw [exec_cons_plain p endAddr s s2 i is hstep] at hexec
        obtain ⟨rowsOut, h1⟩ := ih off' l' s2 rest last' rowsIn sf hlis hrest hexec
        refine ⟨rowsOut, ?_⟩
        rw [List.map_cons, wExec, if_pos rfl, wStep_loc, hm]
        exact h1

/-- converted programs are in the range of the writer's operand types (so that C14's
`rows_roundtrip` applies to them) -/
theorem convertProg_inRange (env : Env) (hex : ExprIdentity env) :
    ∀ (is : List Instr) (off : Nat) (ws : List (Nat × WInstr)) (last : Nat),
      (∀ i ∈ is, exprLen i < 2 ^ 64) → off < 2 ^ 32 →
      convertProg env off is = .ok (ws, last) →
      ProgInRange ws ∧ (∀ x ∈ ws, x.2.InRange) ∧
      ((∃ x ∈ ws, x.2 = WInstr.negateRaState) → Instr.negateRaState ∈ is) := by
  intro is
  induction is with
  | nil =>
    intro off ws last _ _ hconv
    simp only [convertProg, CRes.pure_eq, CRes.ok.injEq, Prod.mk.injEq] at hconv
    obtain ⟨rfl, _⟩ := hconv
    exact ⟨trivial, by simp, by simp⟩
  | cons i is ih =>
    intro off ws last hlen hoff hconv
    have hli : exprLen i < 2 ^ 64 := hlen i (by simp)
    have hlis : ∀ j ∈ is, exprLen j < 2 ^ 64 := fun j hj => hlen j (by simp [hj])
    rw [convertProg] at hconv
    obtain ⟨⟨w, off'⟩, hci, hconv2⟩ := CRes.bind_ok_inv hconv
    obtain ⟨⟨rest, last'⟩, hrest, hconv3⟩ := CRes.bind_ok_inv hconv2
    rcases convertInstr_spec env hex off i w off' hli hci with ⟨rfl, rfl, rfl⟩ | ⟨d, rfl, rfl, ho', hd32, ho32⟩ |
      ⟨wi, rfl, rfl, hir, hneg, _⟩
    · simp only [CRes.pure_eq, CRes.ok.injEq, Prod.mk.injEq] at hconv3
      obtain ⟨rfl, rfl⟩ := hconv3
      obtain ⟨h1, h2, h3⟩ := ih off' rest last' hlis hoff hrest
      exact ⟨h1, h2, fun h => List.mem_cons_of_mem _ (h3 h)⟩
    · simp only [CRes.pure_eq, CRes.ok.injEq, Prod.mk.injEq] at hconv3
      obtain ⟨rfl, rfl⟩ := hconv3
      obtain ⟨h1, h2, h3⟩ := ih off' rest last' hlis ho32 hrest
      exact ⟨h1, h2, fun h => List.mem_cons_of_mem _ (h3 h)⟩
    · simp only [CRes.pure_eq, CRes.ok.injEq, Prod.mk.injEq] at hconv3
      obtain ⟨rfl, rfl⟩ := hconv3
      obtain ⟨h1, h2, h3⟩ := ih off' rest last' hlis hoff hrest
      refine ⟨⟨hoff, hir, h1⟩, ?_, ?_⟩
      · intro x hx
        rcases List.mem_cons.mp hx with rfl | hx
        · exact hir
        · exact h2 x hx
      · rintro ⟨x, hx, hxn⟩
        rcases List.mem_cons.mp hx with rfl | hx
        · rw [hneg hxn]; simp
        · exact List.mem_cons_of_mem _ (h3 ⟨x, hx, hxn⟩)


theorem progVendorOk_of_forall (c : DecodeCfg) : ∀ (ws : List (Nat × WInstr)),
    (∀ x ∈ ws, x.2 = WInstr.negateRaState → c.vendor = .aarch64) → ProgVendorOk c ws := by
  intro ws
  induction ws with
  | nil => intro _; trivial
  | cons x ws ih =>
    obtain ⟨o, wi⟩ := x
    intro h
    exact ⟨h (o, wi) (by simp), ih (fun y hy => h y (by simp [hy]))⟩

/-- whole tables: CIE program + FDE program -/
theorem convert_rows_main (env : Env) (hex : ExprIdentity env) (p : Params)
    (hc : p.codeAlign = env.caf) (hd : p.dataAlign = env.daf)
    (ci fi : List Instr) (hlc : ∀ i ∈ ci, exprLen i < 2 ^ 64) (hlf : ∀ i ∈ fi, exprLen i < 2 ^ 64)
    (cw fw : List (Nat × WInstr)) (lastc lastf : Nat)
    (hcie : convertProg env 0 ci = .ok (cw, lastc)) (hfde : convertProg env 0 fi = .ok (fw, lastf))
    (initial len : Nat) (rowsIn : List TableRow)
    (hin : table p none none ci none fi none initial len = (rowsIn, .ok ())) :
    ∃ rowsOut, wTable p (cw.map (·.2)) fw initial len = (rowsOut, .ok ()) ∧
      ∀ pc, pc < fdeEnd p initial len → rulesAt rowsOut pc = rulesAt rowsIn pc := by
  unfold table at hin
  simp only at hin
  cases hce : exec p none none 0 { loc := 0, cur := RuleSet.initial, stack := [], init := none } ci none with
  | mk rc res =>
    rw [hce] at hin
    cases res with
    | error e => simp at hin
    | ok s1 =>
      simp only [exceeds, Bool.false_eq_true, if_false] at hin
      cases hfe : exec p none none (fdeEnd p initial len)
          { s1 with loc := initial, init := some s1.cur.regs } fi none with
      | mk rf resf =>
        rw [hfe] at hin
        cases resf with
        | error e => simp [Except.map] at hin
        | ok sf =>
          simp only [Prod.mk.injEq] at hin
          obtain ⟨hrows, _⟩ := hin
          subst hrows
          obtain ⟨rowsC, hwc⟩ := convertProg_cie env hex p hd 0 0 ci 0 0
            { loc := 0, cur := RuleSet.initial, stack := [], init := none } cw lastc rc s1 hlc hcie hce
          obtain ⟨rowsOut, sf', hwf, _, _, _, hrows⟩ := convertProg_exec env hex p hc hd (fdeEnd p initial len)
            fi 0 0 0 initial { s1 with loc := initial, init := some s1.cur.regs } fw lastf rf sf hlf rfl rfl
            (fun h => absurd rfl h) hfde hfe
          refine ⟨rowsOut, ?_, ?_⟩
          · unfold wTable
            simp only [List.map_map]
            have hmm : ((fun i => (0, i)) ∘ fun (x : Nat × WInstr) => x.2) = fun x => (0, x.2) := rfl
            rw [hmm]
            have hwc' : wExec p 0 { loc := 0, cur := RuleSet.initial, stack := [], init := none } 0
                (cw.map fun x => (0, x.2)) = (rowsC, .ok { s1 with loc := 0 }) := hwc
            rw [hwc']
            simp only
            have hwf' : wExec p (fdeEnd p initial len)
                { ({ s1 with loc := 0 } : State) with loc := initial, init := some s1.cur.regs } 0 fw =
                (rowsOut, .ok sf') := hwf
            rw [hwf']
            rfl
          · intro pc hpc
            rw [hrows pc hpc, rulesAt_empty]

/-- `convertCie`: every parameter of the input CIE arrives unchanged in the writer's CIE, the two
alignment factors only if they fit the writer's `u8` / `i8` -/
theorem convertCie_params (cx : Ctx) (cie : CfiEntry.Cie) (w : WCie) (h : convertCie cx cie = .ok w) :
    w.format = cie.format ∧ w.version = cie.version ∧ w.addressSize = cie.asz ∧
    w.codeAlign = cie.caf ∧ cie.caf < 256 ∧ w.dataAlign = cie.daf ∧ -128 ≤ cie.daf ∧ cie.daf < 128 ∧
    w.raReg = UInt16.ofNat cie.rar ∧
    w.lsdaEncoding = cie.aug.bind (·.lsda) ∧
    w.fdeAddressEncoding = (cie.aug.bind (·.fdeEnc)).getD 0 ∧
    w.signalTrampoline = (cie.aug.map (·.signal)).getD false ∧
    (match cie.aug.bind (·.personality) with
      | some (enc, ptr) => ∃ a, cx.convertAddr ptr.pointer = some a ∧ w.personality = some (enc, a)
      | none => w.personality = none) := by
  unfold convertCie at h
  obtain ⟨caf, hcaf, h2⟩ := CRes.bind_ok_inv h
  obtain ⟨daf, hdaf, h3⟩ := CRes.bind_ok_inv h2
  obtain ⟨pers, hpers, h4⟩ := CRes.bind_ok_inv h3
  obtain ⟨ws, _, h5⟩ := CRes.bind_ok_inv h4
  simp only [CRes.pure_eq, CRes.ok.injEq] at h5
  subst h5
  have hcaf' := ofWrite_ok hcaf
  have hdaf' := ofWrite_ok hdaf
  unfold narrowU8 at hcaf'
  unfold narrowI8 at hdaf'
  split at hcaf'
  · rename_i hc1
    cases hcaf'
    split at hdaf'
    · rename_i hd1
      cases hdaf'
      refine ⟨rfl, rfl, rfl, rfl, hc1, rfl, hd1.1, hd1.2, rfl, rfl, rfl, rfl, ?_⟩
      cases hp : cie.aug.bind (·.personality) with
      | none =>
        rw [hp] at hpers
        simp only [CRes.pure_eq, CRes.ok.injEq] at hpers
        simp only [hpers]
      | some ep =>
        obtain ⟨enc, ptr⟩ := ep
        rw [hp] at hpers
        simp only at hpers ⊢
        obtain ⟨a, ha, h6⟩ := CRes.bind_ok_inv hpers
        simp only [CRes.pure_eq, CRes.ok.injEq] at h6
        unfold convAddr at ha
        cases hca : cx.convertAddr ptr.pointer with
        | none => rw [hca] at ha; cases ha
        | some a' =>
          rw [hca] at ha
          simp only [CRes.ok.injEq] at ha
          subst ha
          exact ⟨a', rfl, h6.symm⟩
    · cases hdaf'
  · cases hcaf'

/-! ## totality -/

theorem ofWrite_normal {α : Type} {x : Out α} (h : x.Normal) : (CRes.ofWrite x).Normal := by
  cases x <;> simp_all [CRes.ofWrite, CRes.Normal, Out.Normal]

theorem cres_bind_normal {α β : Type} {x : CRes α} {f : α → CRes β} (hx : x.Normal) (hf : ∀ a, (f a).Normal) :
    (x >>= f).Normal := by
  cases x with
  | ok a => exact hf a
  | fail e => trivial
  | panic w => exact hx
  | diverge => exact hx

theorem narrowI32_normal (v : Int) : (narrowI32 v).Normal := by unfold narrowI32; split <;> trivial
theorem narrowU32_normal (v : Nat) : (narrowU32 v).Normal := by unfold narrowU32; split <;> trivial
theorem dataOffset_normal (d f : Int) : (dataOffset d f).Normal := by
  unfold dataOffset; split
  · exact narrowI32_normal _
  · trivial
theorem dataOffsetU_normal (d : Int) (f : Nat) : (dataOffsetU d f).Normal := by
  unfold dataOffsetU narrowU64I64; split
  · exact dataOffset_normal _ _
  · trivial
theorem advance_normal (c o d : Nat) : (advance c o d).Normal := by
  unfold advance narrowU32
  split
  · simp only [Out.bind_ok]; split <;> trivial
  · trivial

theorem normal_pure {α : Type} (a : α) : (pure a : CRes α).Normal := True.intro
theorem normal_fail {α : Type} (e : CErr) : (CRes.fail e : CRes α).Normal := True.intro

/-- `CallFrameInstruction::from` returns a value or a `ConvertError` for every instruction -/
theorem convertInstr_normal (env : Env) (hx : ∀ ex, (env.convertExpr ex).Normal) (off : Nat) (i : Instr) :
    (convertInstr env off i).Normal := by
  cases i with
  | setLoc a => rw [convertInstr]; exact normal_fail _
  | advanceLoc d => rw [convertInstr]; exact cres_bind_normal (ofWrite_normal (advance_normal _ _ _)) (fun _ => normal_pure _)
  | defCfa r o =>
    rw [convertInstr]
    generalize (o : Int) = v
    unfold narrowI32
    split <;> exact True.intro
  | defCfaSf r f => rw [convertInstr]; exact cres_bind_normal (ofWrite_normal (dataOffset_normal _ _)) (fun _ => normal_pure _)
  | defCfaRegister r => simp only [convertInstr, CRes.pure_eq, CRes.Normal]
  | defCfaOffset o =>
    rw [convertInstr]
    generalize (o : Int) = v
    unfold narrowI32
    split <;> exact True.intro
  | defCfaOffsetSf f => rw [convertInstr]; exact cres_bind_normal (ofWrite_normal (dataOffset_normal _ _)) (fun _ => normal_pure _)
  | defCfaExpression ex =>
    simp only [convertInstr]
    exact cres_bind_normal (hx ex) (fun _ => normal_pure _)
  | undefined r => rw [convertInstr]; exact normal_pure _
  | sameValue r => rw [convertInstr]; exact normal_pure _
  | offset r f => rw [convertInstr]; exact cres_bind_normal (ofWrite_normal (dataOffsetU_normal _ _)) (fun _ => normal_pure _)
  | offsetExtendedSf r f => rw [convertInstr]; exact cres_bind_normal (ofWrite_normal (dataOffset_normal _ _)) (fun _ => normal_pure _)
  | valOffset r f => rw [convertInstr]; exact cres_bind_normal (ofWrite_normal (dataOffsetU_normal _ _)) (fun _ => normal_pure _)
  | valOffsetSf r f => rw [convertInstr]; exact cres_bind_normal (ofWrite_normal (dataOffset_normal _ _)) (fun _ => normal_pure _)
  | register d sr => rw [convertInstr]; exact normal_pure _
  | expression r ex => rw [convertInstr]; exact cres_bind_normal (hx _) (fun _ => normal_pure _)
  | valExpression r ex => rw [convertInstr]; exact cres_bind_normal (hx _) (fun _ => normal_pure _)
  | restore r => rw [convertInstr]; exact normal_pure _
  | rememberState => rw [convertInstr]; exact normal_pure _
  | restoreState => rw [convertInstr]; exact normal_pure _
  | argsSize n => rw [convertInstr]; exact cres_bind_normal (ofWrite_normal (narrowU32_normal _)) (fun _ => normal_pure _)
  | negateRaState => rw [convertInstr]; exact normal_pure _
  | nop => rw [convertInstr]; exact normal_pure _

theorem convertProg_normal (env : Env) (hx : ∀ ex, (env.convertExpr ex).Normal) :
    ∀ (is : List Instr) (off : Nat), (convertProg env off is).Normal := by
  intro is
  induction is with
  | nil => intro off; exact normal_pure _
  | cons i is ih =>
    intro off
    rw [convertProg]
    refine cres_bind_normal (convertInstr_normal env hx off i) ?_
    rintro ⟨w, off'⟩
    refine cres_bind_normal (ih off') ?_
    rintro ⟨rest, last⟩
    cases w <;> exact normal_pure _

end Gimli.ConvFrame
