import Gimli.Lemmas.Eval
/-!
# C07 `stack_capacity`: a fixed-capacity `EvaluationStorage` changes nothing except by `StackFull`
-/
open Gimli Gimli.Op Gimli.Eval

namespace Gimli.Eval

/-- the same configuration with `Vec` storage everywhere -/
def Config.heap (c : Config) : Config := { c with caps := {} }

/-- `x` is what `y` is, unless a fixed-capacity `ArrayVec` was full -/
def CapRel {α} (x y : Out α) : Prop := x = .err .rStackFull ∨ x = y

theorem CapRel.refl {α} (x : Out α) : CapRel x x := Or.inr rfl

theorem CapRel.bind {α β} {x y : Out α} {f g : α → Out β} (h : CapRel x y) (hf : ∀ a, CapRel (f a) (g a)) :
    CapRel (x >>= f) (y >>= g) := by
  rcases h with h | h
  · left; rw [h]; rfl
  · subst h
    cases x with
    | ok a => exact hf a
    | err e => right; rfl
    | panic w => right; rfl
    | diverge => right; rfl

theorem push_cap (c : Config) (v : Value) (m : Mach) : CapRel (push c v m) (push c.heap v m) := by
  unfold push
  by_cases h : hasRoom c.caps.stack m.stack.length
  · right; rw [if_pos h]; rfl
  · left; rw [if_neg h]

theorem pushPiece_cap (c : Config) (p : Piece) (m : Mach) : CapRel (pushPiece c p m) (pushPiece c.heap p m) := by
  unfold pushPiece
  by_cases h : hasRoom c.caps.pieces m.result.length
  · right; rw [if_pos h]; rfl
  · left; rw [if_neg h]

/-- `StackFull` from `push` exactly when the fixed stack already holds `n` values -/
theorem push_full_iff (c : Config) (v : Value) (m : Mach) :
    push c v m = .err .rStackFull ↔ ∃ n, c.caps.stack = some n ∧ n ≤ m.stack.length := by
  unfold push hasRoom
  cases hc : c.caps.stack with
  | none => simp
  | some n => simp

theorem push_ok_of_room (c : Config) (v : Value) (m : Mach)
    (h : ∀ n, c.caps.stack = some n → m.stack.length < n) :
    push c v m = .ok { m with stack := v :: m.stack } := by
  unfold push hasRoom
  cases hc : c.caps.stack with
  | none => simp
  | some n => simp [h n hc]

macro "cap_tac" : tactic => `(tactic|
  repeat (first
    | exact CapRel.refl _
    | exact push_cap _ _ _
    | exact pushPiece_cap _ _ _
    | (refine CapRel.bind ?_ ?_)
    | split
    | (intro p; try obtain ⟨_, _⟩ := p)))

theorem binop_cap (c : Config) (f) (m : Mach) : CapRel (binop c f m) (binop c.heap f m) := by
  unfold binop; cap_tac
theorem unop_cap (c : Config) (f) (m : Mach) : CapRel (unop c f m) (unop c.heap f m) := by
  unfold unop; cap_tac

theorem execute_cap (c : Config) (op : Operation) (m : Mach) : CapRel (execute c op m) (execute c.heap op m) := by
  cases op <;> simp only [execute, Config.heap]
  all_goals first | exact binop_cap _ _ _ | exact unop_cap _ _ _ | cap_tac

theorem evaluateOneOperation_cap (c : Config) (m : Mach) :
    CapRel (evaluateOneOperation c m) (evaluateOneOperation c.heap m) := by
  unfold evaluateOneOperation
  refine CapRel.bind (CapRel.refl _) (fun ⟨op, rest⟩ => execute_cap _ _ _)

theorem finish_cap (c : Config) (m : Mach) : CapRel (finish c m) (finish c.heap m) := by
  unfold finish; simp only [Config.heap]; cap_tac

theorem afterComplete_cap (c : Config) (l : Location) (m : Mach) :
    CapRel (afterComplete c l m) (afterComplete c.heap l m) := by
  unfold afterComplete; simp only [Config.heap]
  split
  · cap_tac
  · refine CapRel.bind (CapRel.refl _) (fun ⟨op, rest⟩ => ?_)
    cases op <;> cap_tac

/-- forget the capacities in an evaluator state -/
def heapState (s : Eval) : Eval := { s with cfg := s.cfg.heap }

def heapRes (p : Request × Eval) : Request × Eval := (p.1, heapState p.2)

theorem CapRel.map {α β} {x y : Out α} (g : α → β) (h : CapRel x y) : CapRel (x.map g) (y.map g) := by
  rcases h with h | h
  · left; rw [h]; rfl
  · right; rw [h]

theorem map_bind {α β γ} (x : Out α) (f : α → Out β) (g : β → γ) :
    (x >>= f).map g = x >>= fun a => (f a).map g := by
  cases x <;> rfl

/-- continuations related by "same unless `StackFull`", on states that differ only in capacities -/
def CapK (k k' : Eval → Out (Request × Eval)) : Prop :=
  ∀ s : Eval, CapRel ((k s).map heapRes) ((k' (heapState s)).map heapRes)

theorem afterOp_cap (k k') (hk : CapK k k') (s : Eval) (res : OpResult) (mm : Mach) :
    CapRel ((afterOp k s res mm).map heapRes) ((afterOp k' (heapState s) res mm).map heapRes) := by
  cases res with
  | piece => exact hk _
  | incomplete =>
    simp only [afterOp]
    cases hb : ((endOfExpression mm).fst && !(endOfExpression mm).snd.result.isEmpty) with
    | true => right; rfl
    | false => exact hk _
  | complete loc =>
    simp only [afterOp, map_bind]
    refine CapRel.bind (afterComplete_cap _ _ _) (fun ⟨m3, extra⟩ => ?_)
    exact hk _
  | waiting w rq => right; rfl

theorem loopBody_cap (k k') (hk : CapK k k') : CapK (loopBody k) (loopBody k') := by
  intro s
  unfold loopBody
  have hm : (heapState s).m = s.m := rfl
  rw [hm]
  cases heoe : endOfExpression s.m with
  | mk b mm =>
    cases b
    · simp only []
      have ho : overLimit (heapState s).cfg.maxIterations (heapState s).iteration =
          overLimit s.cfg.maxIterations s.iteration := rfl
      rw [ho]
      cases overLimit s.cfg.maxIterations s.iteration with
      | true => right; rfl
      | false =>
        simp only [map_bind]
        refine CapRel.bind (evaluateOneOperation_cap _ _) (fun ⟨res, m2⟩ => ?_)
        exact afterOp_cap k k' hk _ res m2
    · simp only [map_bind]
      refine CapRel.bind (finish_cap _ _) (fun m1 => ?_)
      right; rfl

theorem evaluateInternal_cap (fuel : Nat) : CapK (evaluateInternal fuel) (evaluateInternal fuel) := by
  induction fuel with
  | zero => intro s; right; rfl
  | succ fuel ih => exact loopBody_cap _ _ ih

end Gimli.Eval
