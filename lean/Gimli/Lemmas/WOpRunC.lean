import Gimli.Lemmas.WOpRunB
/-!
# C15: whole evaluation runs, part C — the control loop keeps the invariant
(`end_of_expression`, `finish`, the state update of `resume_with_*`)
-/
set_option linter.unusedSimpArgs false
set_option linter.unusedVariables false
namespace Gimli.WOp
open Gimli.Op (Encoding)
open Gimli.Eval Gimli.BuiltEval

theorem keepsM_err (P) (er : Err) : KeepsM P (.err er) := ⟨by intro m' h; cases h⟩
theorem keepsM_panic (P) (w : String) : KeepsM P (.panic w) := ⟨by intro m' h; cases h⟩
theorem keepsM_ok (P : Mach → Prop) (m : Mach) (h : P m) : KeepsM P (.ok m) := ⟨by
  intro m' h'; cases h'; exact h⟩

theorem keepsM_bind_pair {α} (P : Mach → Prop) (x : Out (α × Mach)) (f : α × Mach → Out Mach)
    (hx : Keeps P x) (hf : ∀ a m1, P m1 → KeepsM P (f (a, m1))) : KeepsM P (x >>= f) := by
  refine ⟨?_⟩
  intro m' h
  cases x with
  | ok p => obtain ⟨a, m1⟩ := p; exact (hf a m1 (hx.out a m1 rfl)).out m' h
  | err _ => cases h
  | panic _ => cases h
  | diverge => cases h

theorem keepsM_bind_any {α} (P : Mach → Prop) (x : Out α) (f : α → Out Mach)
    (hf : ∀ a, KeepsM P (f a)) : KeepsM P (x >>= f) := by
  refine ⟨?_⟩
  intro m' h
  cases x with
  | ok a => exact (hf a).out m' h
  | err _ => cases h
  | panic _ => cases h
  | diverge => cases h

section
variable {e : Endian} {enc : Encoding} {uo : UnitOffs} {hasRefs : Bool} {ops : List Operation}
  {pos : Nat} {bs : Bytes} {fx : List Fixup} {offs : List Nat}

local notation "GC" => GoodCode e enc uo hasRefs ops pos bs offs
local notation "INV" => Inv e enc uo hasRefs ops pos bs offs

theorem unwind_inv : ∀ (stk : List (Bytes × Bytes)) (pc bc : Bytes),
    GC (pc, bc) → (∀ f ∈ stk, GC f) →
    GC ((unwind pc bc stk).2.1, (unwind pc bc stk).2.2.1) ∧ (∀ f ∈ (unwind pc bc stk).2.2.2, GC f) ∧
      ((unwind pc bc stk).1 = false → (unwind pc bc stk).2.1 ≠ [])
  | [], pc, bc, hg, hs => by
    cases pc with
    | nil => simp only [unwind]; exact ⟨hg, hs, by simp⟩
    | cons x xs => simp only [unwind]; exact ⟨hg, hs, by simp⟩
  | (p, b) :: rest, pc, bc, hg, hs => by
    cases pc with
    | nil =>
      simp only [unwind]
      exact unwind_inv rest p b (hs (p, b) (by simp)) (fun f hf => hs f (by simp [hf]))
    | cons x xs => simp only [unwind]; exact ⟨hg, hs, by simp⟩

theorem endOfExpression_inv (m : Mach) (hi : INV m) :
    INV (endOfExpression m).2 ∧ ((endOfExpression m).1 = false → (endOfExpression m).2.pc ≠ []) := by
  have := unwind_inv (e := e) (enc := enc) (uo := uo) (hasRefs := hasRefs) (ops := ops) (pos := pos) (bs := bs) (offs := offs)
    m.exprStack m.pc m.bytecode hi.1 hi.2
  unfold endOfExpression
  exact ⟨⟨this.1, this.2.1⟩, this.2.2⟩

theorem finish_inv (c : Config) (m m' : Mach) (hi : INV m) (h : finish c m = .ok m') : INV m' := by
  unfold finish at h
  split at h
  · simp only [bind_eq_ok, Prod.exists] at h
    obtain ⟨entry, m1, hpop, addr, _, hpp⟩ := h
    have s1 := (pop_keeps _ _ (same_refl m)).out _ _ hpop
    have s2 := (pushPiece_keeps c _ { m1 with valueResult := some entry } { m1 with valueResult := some entry } (same_refl _)).out _ hpp
    exact inv_of_same s2 (inv_of_same (m := m1) ⟨rfl, rfl, rfl⟩ (inv_of_same s1 hi))
  · simp only [Out.ok.injEq] at h; rw [← h]; exact hi

theorem applyAnswer_inv (c : Config) (w : Waiting) (a : Answer) (m m' : Mach) (hi : INV m)
    (h : applyAnswer c w a m = .ok m') : INV m' := by
  by_cases hat : ∃ bytes, w = .atLocation ∧ a = .atLocation bytes
  · obtain ⟨bytes, rfl, rfl⟩ := hat
    simp only [applyAnswer] at h
    split at h
    · simp only [Out.ok.injEq] at h; rw [← h]; exact hi
    · split at h
      · simp only [Out.ok.injEq] at h
        rw [← h]
        refine ⟨?_, ?_⟩
        · intro hb
          have hb : bytes = bs := hb
          subst hb
          exact atOp_start
        · intro f hf
          simp only [List.mem_cons] at hf
          rcases hf with rfl | hf
          · exact hi.1
          · exact hi.2 f hf
      · cases h
  · have hk : KeepsM (Same m) (applyAnswer c w a m) := by
      have h0 := same_refl m
      unfold applyAnswer
      split
      all_goals first
        | exact push_keeps _ _ _ _ h0
        | exact keepsM_panic _ _
        | (exfalso; exact hat ⟨_, rfl, rfl⟩)
        | (refine keepsM_bind_any _ _ _ (fun _ => ?_)
           refine keepsM_bind_any _ _ _ (fun _ => ?_)
           exact push_keeps _ _ _ _ h0)
        | (refine keepsM_bind_any _ _ _ (fun _ => ?_)
           exact push_keeps _ _ _ _ h0)
        | (refine keepsM_bind_pair _ _ _ (pop_keeps _ _ h0) (fun _ m1 h1 => ?_)
           refine keepsM_bind_any _ _ _ (fun _ => ?_)
           exact push_keeps _ _ _ _ h1)
    exact inv_of_same (hk.out m' h) hi
end
end Gimli.WOp
