import Gimli.Lemmas.Reader
/-! Simulation between reader kinds: related states give equal observations (C10 `kinds_bisimilar`). -/
namespace Gimli.Rd
variable {σ τ α β : Type}

/-- related outcomes: same constructor and payload, returned readers related by `R` -/
def OutRel (R : σ → τ → Prop) : Out σ → Out τ → Prop
  | .ok a, .ok b => R a b
  | .err e, .err e' => e = e'
  | .panic w, .panic w' => w = w'
  | .diverge, .diverge => True
  | _, _ => False

/-- two `&mut self` methods agree on related states: same result, related states afterwards -/
def RelM (R : σ → τ → Prop) (x : M σ α) (y : M τ α) : Prop :=
  ∀ s t, R s t → (x s).1 = (y t).1 ∧ R (x s).2 (y t).2

/-- the same for methods returning a reader -/
def RelNew (R : σ → τ → Prop) (x : M σ σ) (y : M τ τ) : Prop :=
  ∀ s t, R s t → OutRel R (x s).1 (y t).1 ∧ R (x s).2 (y t).2

variable {R : σ → τ → Prop}

theorem RelM.pure (a : α) : RelM R (M.pure a) (M.pure a) := fun _ _ h => ⟨rfl, h⟩
theorem RelM.fail (e : Err) : RelM R (M.fail e : M σ α) (M.fail e) := fun _ _ h => ⟨rfl, h⟩
theorem RelM.liftOut (o : Out α) : RelM R (M.liftOut o : M σ α) (M.liftOut o) := fun _ _ h => ⟨rfl, h⟩

theorem RelM.bind {x : M σ α} {y : M τ α} {f : α → M σ β} {g : α → M τ β} (hx : RelM R x y)
    (hf : ∀ a, RelM R (f a) (g a)) : RelM R (M.bind x f) (M.bind y g) := by
  intro s t hst
  have h1 := hx s t hst
  unfold M.bind
  rcases hxs : x s with ⟨o, s'⟩
  rcases hyt : y t with ⟨o', t'⟩
  rw [hxs, hyt] at h1
  simp only at h1
  obtain ⟨h1a, h1b⟩ := h1
  subst h1a
  cases o with
  | ok a => exact hf a s' t' h1b
  | err e => exact ⟨rfl, h1b⟩
  | panic w => exact ⟨rfl, h1b⟩
  | diverge => exact ⟨rfl, h1b⟩

theorem RelM.map {x : M σ α} {y : M τ α} (f : α → β) (hx : RelM R x y) :
    RelM R (M.map f x) (M.map f y) :=
  RelM.bind hx (fun a => RelM.pure (f a))

theorem RelM.ite {c : Prop} [Decidable c] {x x' : M σ α} {y y' : M τ α} (h : RelM R x y)
    (h' : RelM R x' y') : RelM R (if c then x else x') (if c then y else y') := by
  split <;> assumption

/-- `D` simulates `C` on `R`-related states, for every required method except `empty` -/
structure CoreSim (C : Core σ) (D : Core τ) (R : σ → τ → Prop) : Prop where
  view : ∀ s t, R s t → (C.view s).toView = (D.view t).toView
  len : ∀ s t, R s t → C.len s = D.len t
  truncate : ∀ n, RelM R (C.truncate n) (D.truncate n)
  offsetFrom : ∀ m s t s' t', R s t → R s' t' → C.offsetFrom m s s' = D.offsetFrom m t t'
  offsetId : ∀ s t, R s t → C.offsetId s = D.offsetId t
  lookupOffsetId : ∀ s t, R s t → ∀ id, C.lookupOffsetId s id = D.lookupOffsetId t id
  find : ∀ s t, R s t → ∀ b, C.find s b = D.find t b
  skip : ∀ n, RelM R (C.skip n) (D.skip n)
  split : ∀ n, RelNew R (C.split n) (D.split n)
  toSlice : ∀ s t, R s t → C.toSlice s = D.toSlice t
  toStr : ∀ v s t, R s t → C.toStr v s = D.toStr v t
  toLossy : ∀ v l s t, R s t → C.toLossy v l s = D.toLossy v l t
  readSlice : ∀ n, RelM R (C.readSlice n) (D.readSlice n)

/-- … and for the three overridable methods -/
structure Sim (I : Impl σ) (J : Impl τ) (R : σ → τ → Prop) : Prop
    extends CoreSim I.toCore J.toCore R where
  readAddress : ∀ m e n, RelM R (I.readAddress m e n) (J.readAddress m e n)
  readOffset : ∀ m e f, RelM R (I.readOffset m e f) (J.readOffset m e f)
  readSizedOffset : ∀ m e n, RelM R (I.readSizedOffset m e n) (J.readSizedOffset m e n)

namespace Dflt
variable {C : Core σ} {D : Core τ}

theorem readFixed_rel (h : CoreSim C D R) (e : Endian) (n : Nat) :
    RelM R (readFixed C e n) (readFixed D e n) :=
  RelM.bind (h.readSlice n) (fun _ => RelM.pure _)

theorem readSigned_rel (h : CoreSim C D R) (e : Endian) (n : Nat) :
    RelM R (readSigned C e n) (readSigned D e n) :=
  RelM.bind (h.readSlice n) (fun _ => RelM.pure _)

theorem readUint_rel (h : CoreSim C D R) (e : Endian) (n : Nat) :
    RelM R (readUint C e n) (readUint D e n) := by
  unfold readUint
  exact RelM.ite (RelM.liftOut _) (RelM.bind (h.readSlice n) (fun _ => RelM.pure _))

theorem readWord_rel (h : CoreSim C D R) (e : Endian) (f : Format) :
    RelM R (readWord C e f) (readWord D e f) := by
  unfold readWord
  cases f
  · exact readFixed_rel h e 4
  · exact RelM.bind (readFixed_rel h e 8) (fun _ => RelM.liftOut _)

theorem readInitialLength_rel (h : CoreSim C D R) (e : Endian) :
    RelM R (readInitialLength C e) (readInitialLength D e) := by
  unfold readInitialLength
  refine RelM.bind (readFixed_rel h e 4) (fun v => ?_)
  refine RelM.ite (RelM.pure _) (RelM.ite ?_ (RelM.fail _))
  exact RelM.bind (readFixed_rel h e 8) (fun _ => RelM.bind (RelM.liftOut _) (fun _ => RelM.pure _))

theorem readAddressSize_rel (h : CoreSim C D R) :
    RelM R (readAddressSize C) (readAddressSize D) := by
  unfold readAddressSize
  exact RelM.bind (readFixed_rel h .little 1) (fun _ => RelM.ite (RelM.pure _) (RelM.fail _))

theorem via_rel {γ : Type} (h : CoreSim C D R) (f : Bytes → Out (γ × Bytes)) (adv : Bytes → Err → Nat) :
    RelM R (via C f adv) (via D f adv) := by
  intro s t hst
  unfold via
  rw [h.toSlice s t hst]
  cases D.toSlice t with
  | ok bs =>
    simp only
    cases f bs with
    | ok p => exact ⟨rfl, (h.skip _ s t hst).2⟩
    | err e => exact ⟨rfl, (h.skip _ s t hst).2⟩
    | panic w => exact ⟨rfl, hst⟩
    | diverge => exact ⟨rfl, hst⟩
  | err e => exact ⟨rfl, hst⟩
  | panic w => exact ⟨rfl, hst⟩
  | diverge => exact ⟨rfl, hst⟩

theorem readUleb32_rel (h : CoreSim C D R) : RelM R (readUleb32 C) (readUleb32 D) := by
  unfold readUleb32
  exact RelM.bind (via_rel h _ _) (fun _ => RelM.ite (RelM.pure _) (RelM.fail _))

theorem readNts_rel (h : CoreSim C D R) : RelNew R (readNts C) (readNts D) := by
  intro s t hst
  unfold readNts
  simp only [M.bind, M.liftOut, M.pure]
  rw [h.find s t hst 0]
  cases D.find t 0 with
  | ok idx =>
    simp only
    have h1 := h.split idx s t hst
    rcases hsp : C.split idx s with ⟨o, s1⟩
    rcases hsp' : D.split idx t with ⟨o', t1⟩
    rw [hsp, hsp'] at h1
    cases o <;> cases o' <;> simp only [OutRel] at h1 <;> try exact absurd h1.1 id
    · -- ok, ok
      rename_i v v'
      simp only
      have h2 := h.skip 1 s1 t1 h1.2
      rcases hsk : C.skip 1 s1 with ⟨o2, s2⟩
      rcases hsk' : D.skip 1 t1 with ⟨o2', t2⟩
      rw [hsk, hsk'] at h2
      simp only at h2
      obtain ⟨h2a, h2b⟩ := h2
      subst h2a
      cases o2 with
      | ok u => exact ⟨h1.1, h2b⟩
      | err e => exact ⟨rfl, h2b⟩
      | panic w => exact ⟨rfl, h2b⟩
      | diverge => exact ⟨trivial, h2b⟩
    · exact ⟨h1.1, h1.2⟩
    · exact ⟨h1.1, h1.2⟩
    · exact ⟨trivial, h1.2⟩
  | err e => exact ⟨rfl, hst⟩
  | panic w => exact ⟨rfl, hst⟩
  | diverge => exact ⟨trivial, hst⟩

theorem readAddress_rel (h : CoreSim C D R) (e : Endian) (n : Nat) :
    RelM R (readAddress C e n) (readAddress D e n) := by
  unfold readAddress
  exact RelM.ite (readFixed_rel h e n) (RelM.fail _)

theorem readSizedOffset_rel (h : CoreSim C D R) (e : Endian) (n : Nat) :
    RelM R (readSizedOffset C e n) (readSizedOffset D e n) := by
  unfold readSizedOffset
  exact RelM.ite (RelM.bind (readFixed_rel h e n) (fun _ => RelM.liftOut _)) (RelM.fail _)

end Dflt

/-- kinds that override nothing simulate each other as soon as their required methods do -/
theorem CoreSim.withDefaults {C : Core σ} {D : Core τ} (h : CoreSim C D R) :
    Sim C.withDefaults D.withDefaults R where
  toCoreSim := h
  readAddress := fun _ e n => Dflt.readAddress_rel h e n
  readOffset := fun _ e f => Dflt.readWord_rel h e f
  readSizedOffset := fun _ e n => Dflt.readSizedOffset_rel h e n

def OptRel (R : σ → τ → Prop) : Option σ → Option τ → Prop
  | none, none => True
  | some s, some t => R s t
  | _, _ => False

/-- the reader tables of two runs correspond slot by slot -/
structure StRel (R : σ → τ → Prop) (st : St σ) (st' : St τ) : Prop where
  len : st.rs.length = st'.rs.length
  rs : ∀ i, OptRel R (st.get i) (st'.get i)
  ids : st.ids = st'.ids

theorem St.get_set (st : St σ) (i j : Nat) (s : σ) :
    (st.set i s).get j = if i = j ∧ i < st.rs.length then some s else st.get j := by
  unfold St.get St.set
  simp only [List.getElem?_set]
  by_cases h : i = j
  · subst h
    by_cases h2 : i < st.rs.length
    · simp [h2]
    · simp [h2]
  · simp [h]

theorem St.get_lt {st : St σ} {i : Nat} {s : σ} (h : st.get i = some s) : i < st.rs.length := by
  unfold St.get at h
  by_cases hl : i < st.rs.length
  · exact hl
  · rw [List.getElem?_eq_none (Nat.le_of_not_lt hl)] at h
    cases h

theorem St.get_push (st : St σ) (j : Nat) (s : σ) :
    (st.push s).get j = if j = st.rs.length then some s else st.get j := by
  unfold St.get St.push
  simp only [List.getElem?_append]
  by_cases h : j < st.rs.length
  · have : j ≠ st.rs.length := by omega
    simp [h, this]
  · by_cases h2 : j = st.rs.length
    · subst h2; simp
    · have : st.rs.length ≤ j := by omega
      simp [h, h2]
      have : j - st.rs.length ≠ 0 := by omega
      cases hk : j - st.rs.length with
      | zero => omega
      | succ k => simp



theorem StRel.set {st : St σ} {st' : St τ} (h : StRel R st st') (i : Nat) {s : σ} {t : τ}
    (hst : R s t) : StRel R (st.set i s) (st'.set i t) where
  len := by simp [St.set, h.len]
  ids := h.ids
  rs := by
    intro j
    rw [St.get_set, St.get_set, h.len]
    split
    · exact hst
    · exact h.rs j

theorem StRel.push {st : St σ} {st' : St τ} (h : StRel R st st') {s : σ} {t : τ}
    (hst : R s t) : StRel R (st.push s) (st'.push t) where
  len := by simp [St.push, h.len]
  ids := h.ids
  rs := by
    intro j
    rw [St.get_push, St.get_push, h.len]
    split
    · exact hst
    · exact h.rs j



section
variable {I : Impl σ} {J : Impl τ}

/-- local versions: the method pair only has to agree on the readers at slot `i` -/
theorem runM_sim' (hview : ∀ s t, R s t → (I.view s).toView = (J.view t).toView)
    {st : St σ} {st' : St τ} (h : StRel R st st') (i : Nat) {x : M σ Val} {y : M τ Val}
    (hx : ∀ s t, st.get i = some s → st'.get i = some t → R s t →
      (x s).1 = (y t).1 ∧ R (x s).2 (y t).2) :
    (runM I st i x).1 = (runM J st' i y).1 ∧ StRel R (runM I st i x).2 (runM J st' i y).2 := by
  have hr := h.rs i
  unfold runM
  cases hg : st.get i <;> cases hg' : st'.get i <;> rw [hg, hg'] at hr <;> simp only [OptRel] at hr
  · exact ⟨rfl, h⟩
  · rename_i s t
    have h1 := hx s t hg hg' hr
    simp only
    exact ⟨by rw [h1.1, hview _ _ h1.2], h.set i h1.2⟩

theorem runQ_sim' (hview : ∀ s t, R s t → (I.view s).toView = (J.view t).toView)
    {st : St σ} {st' : St τ} (h : StRel R st st') (i : Nat) {x : σ → Out Val} {y : τ → Out Val}
    (hx : ∀ s t, st.get i = some s → st'.get i = some t → R s t → x s = y t) :
    (runQ I st i x).1 = (runQ J st' i y).1 ∧ StRel R (runQ I st i x).2 (runQ J st' i y).2 := by
  have hr := h.rs i
  unfold runQ
  cases hg : st.get i <;> cases hg' : st'.get i <;> rw [hg, hg'] at hr <;> simp only [OptRel] at hr
  · exact ⟨rfl, h⟩
  · rename_i s t
    simp only
    exact ⟨by rw [hview s t hr, hx s t hg hg' hr], h⟩

theorem runNew_sim' (hview : ∀ s t, R s t → (I.view s).toView = (J.view t).toView)
    {st : St σ} {st' : St τ} (h : StRel R st st') (i : Nat) {x : M σ σ} {y : M τ τ}
    (hx : ∀ s t, st.get i = some s → st'.get i = some t → R s t →
      OutRel R (x s).1 (y t).1 ∧ R (x s).2 (y t).2) :
    (runNew I st i x).1 = (runNew J st' i y).1 ∧ StRel R (runNew I st i x).2 (runNew J st' i y).2 := by
  have hr := h.rs i
  unfold runNew
  cases hg : st.get i <;> cases hg' : st'.get i <;> rw [hg, hg'] at hr <;> simp only [OptRel] at hr
  · exact ⟨rfl, h⟩
  · rename_i s t
    have h1 := hx s t hg hg' hr
    rcases hxs : x s with ⟨o, s1⟩
    rcases hyt : y t with ⟨o', t1⟩
    rw [hxs, hyt] at h1
    simp only at h1
    obtain ⟨h1a, h1b⟩ := h1
    simp only [hxs, hyt]
    cases o <;> cases o' <;> simp only [OutRel] at h1a
    · rename_i r r'
      simp only
      exact ⟨by rw [hview s1 t1 h1b, hview r r' h1a], (h.set i h1b).push h1a⟩
    · subst h1a; simp only; exact ⟨by rw [hview s1 t1 h1b], h.set i h1b⟩
    · subst h1a; simp only; exact ⟨by rw [hview s1 t1 h1b], h.set i h1b⟩
    · simp only; exact ⟨by rw [hview s1 t1 h1b], h.set i h1b⟩

theorem runM_sim (hv : Sim I J R) {st : St σ} {st' : St τ} (h : StRel R st st') (i : Nat)
    {x : M σ Val} {y : M τ Val} (hx : RelM R x y) :
    (runM I st i x).1 = (runM J st' i y).1 ∧ StRel R (runM I st i x).2 (runM J st' i y).2 :=
  runM_sim' hv.view h i (fun s t _ _ hr => hx s t hr)

theorem runQ_sim (hv : Sim I J R) {st : St σ} {st' : St τ} (h : StRel R st st') (i : Nat)
    {x : σ → Out Val} {y : τ → Out Val} (hx : ∀ s t, R s t → x s = y t) :
    (runQ I st i x).1 = (runQ J st' i y).1 ∧ StRel R (runQ I st i x).2 (runQ J st' i y).2 :=
  runQ_sim' hv.view h i (fun s t _ _ hr => hx s t hr)

theorem runNew_sim (hv : Sim I J R) {st : St σ} {st' : St τ} (h : StRel R st st') (i : Nat)
    {x : M σ σ} {y : M τ τ} (hx : RelNew R x y) :
    (runNew I st i x).1 = (runNew J st' i y).1 ∧ StRel R (runNew I st i x).2 (runNew J st' i y).2 :=
  runNew_sim' hv.view h i (fun s t _ _ hr => hx s t hr)

/-- one operation on corresponding tables: same observation, corresponding tables afterwards
(`empty` needs the extra hypothesis that it preserves `R`) -/
theorem step_sim (hv : Sim I J R) (m : Mode) (e : Endian) (valid : Bytes → Bool)
    (lossy : Bytes → Bytes) {st : St σ} {st' : St τ} (h : StRel R st st') (op : Op)
    (hE : (∀ s t, R s t → R (I.empty s) (J.empty t)) ∨ ∀ i, op ≠ .empty i) :
    (step I m e valid lossy st op).1 = (step J m e valid lossy st' op).1 ∧
      StRel R (step I m e valid lossy st op).2 (step J m e valid lossy st' op).2 := by
  cases op with
  | fixed i n => exact runM_sim hv h i (RelM.map _ (Dflt.readFixed_rel hv.toCoreSim e n))
  | signed i n => exact runM_sim hv h i (RelM.map _ (Dflt.readSigned_rel hv.toCoreSim e n))
  | uint i n => exact runM_sim hv h i (RelM.map _ (Dflt.readUint_rel hv.toCoreSim e n))
  | slice i n => exact runM_sim hv h i (RelM.map _ (hv.readSlice n))
  | skip i n => exact runM_sim hv h i (RelM.map _ (hv.skip n))
  | split i n => exact runNew_sim hv h i (hv.split n)
  | trunc i n => exact runM_sim hv h i (RelM.map _ (hv.truncate n))
  | empty i =>
    rcases hE with hE | hE
    · exact runM_sim hv h i (fun s t hst => ⟨rfl, hE s t hst⟩)
    · exact absurd rfl (hE i)
  | find i b => exact runQ_sim hv h i (fun s t hst => by rw [hv.find s t hst])
  | clone i => exact runNew_sim hv h i (fun s t hst => ⟨hst, hst⟩)
  | drop i =>
    have hr := h.rs i
    simp only [step]
    cases hg : st.get i <;> cases hg' : st'.get i <;> rw [hg, hg'] at hr <;> simp only [OptRel] at hr
    · exact ⟨rfl, h⟩
    · refine ⟨rfl, ⟨by simp [h.len], fun j => ?_, h.ids⟩⟩
      have hj := h.rs j
      unfold St.get at hj ⊢
      simp only [List.getElem?_set, h.len]
      split
      · split <;> simp [OptRel]
      · exact hj
  | offFrom i j =>
    have hr := h.rs j
    simp only [step]
    cases hg : st.get j <;> cases hg' : st'.get j <;> rw [hg, hg'] at hr <;> simp only [OptRel] at hr
    · exact ⟨rfl, h⟩
    · rename_i b b'
      refine runQ_sim hv h i (fun s t hst => ?_)
      rw [hv.offsetFrom m s t b b' hst hr]
  | offId i =>
    have hr := h.rs i
    simp only [step]
    cases hg : st.get i <;> cases hg' : st'.get i <;> rw [hg, hg'] at hr <;> simp only [OptRel] at hr
    · exact ⟨rfl, h⟩
    · rename_i s t
      simp only
      rw [hv.view s t hr, hv.offsetId s t hr]
      exact ⟨rfl, ⟨h.len, h.rs, by simp [h.ids]⟩⟩
  | lookup i k =>
    simp only [step]
    rw [h.ids]
    cases st'.ids[k]? with
    | none => exact ⟨rfl, h⟩
    | some id => exact runQ_sim hv h i (fun s t hst => by rw [hv.lookupOffsetId s t hst])
  | len i => exact runQ_sim hv h i (fun s t hst => by rw [hv.len s t hst])
  | toSlice i => exact runQ_sim hv h i (fun s t hst => by rw [hv.toSlice s t hst])
  | toStr i => exact runQ_sim hv h i (fun s t hst => by rw [hv.toStr valid s t hst])
  | toLossy i => exact runQ_sim hv h i (fun s t hst => by rw [hv.toLossy valid lossy s t hst])
  | nts i => exact runNew_sim hv h i (Dflt.readNts_rel hv.toCoreSim)
  | uleb i => exact runM_sim hv h i (RelM.map _ (Dflt.via_rel hv.toCoreSim _ _))
  | sleb i => exact runM_sim hv h i (RelM.map _ (Dflt.via_rel hv.toCoreSim _ _))
  | uleb32 i => exact runM_sim hv h i (RelM.map _ (Dflt.readUleb32_rel hv.toCoreSim))
  | uleb16 i => exact runM_sim hv h i (RelM.map _ (Dflt.via_rel hv.toCoreSim _ _))
  | skipLeb i => exact runM_sim hv h i (RelM.map _ (Dflt.via_rel hv.toCoreSim _ _))
  | initLen i => exact runM_sim hv h i (RelM.map _ (Dflt.readInitialLength_rel hv.toCoreSim e))
  | addrSize i => exact runM_sim hv h i (RelM.map _ (Dflt.readAddressSize_rel hv.toCoreSim))
  | addr i n => exact runM_sim hv h i (RelM.map _ (hv.readAddress m e n))
  | word i f => exact runM_sim hv h i (RelM.map _ (Dflt.readWord_rel hv.toCoreSim e f))
  | offset i f => exact runM_sim hv h i (RelM.map _ (hv.readOffset m e f))
  | sizedOff i n => exact runM_sim hv h i (RelM.map _ (hv.readSizedOffset m e n))

/-- no `empty` in the history -/
def NoEmpty (ops : List Op) : Prop := ∀ op ∈ ops, ∀ i, op ≠ .empty i

/-- every history gives the same trace on corresponding tables -/
theorem runHist_sim (hv : Sim I J R) (m : Mode) (e : Endian) (valid : Bytes → Bool)
    (lossy : Bytes → Bytes) (ops : List Op)
    (hE : (∀ s t, R s t → R (I.empty s) (J.empty t)) ∨ NoEmpty ops) :
    ∀ {st : St σ} {st' : St τ}, StRel R st st' →
      (runHist I m e valid lossy st ops).1 = (runHist J m e valid lossy st' ops).1 := by
  induction ops with
  | nil => intro st st' _; rfl
  | cons op ops ih =>
    intro st st' h
    simp only [runHist]
    have hE1 : (∀ s t, R s t → R (I.empty s) (J.empty t)) ∨ ∀ i, op ≠ .empty i := by
      rcases hE with hE | hE
      · exact Or.inl hE
      · exact Or.inr (hE op (List.mem_cons_self ..))
    have hE2 : (∀ s t, R s t → R (I.empty s) (J.empty t)) ∨ NoEmpty ops := by
      rcases hE with hE | hE
      · exact Or.inl hE
      · exact Or.inr (fun o ho => hE o (List.mem_cons_of_mem _ ho))
    have h1 := step_sim hv m e valid lossy h op hE1
    rw [h1.1, ih hE2 h1.2]

theorem StRel.init {s : σ} {t : τ} (h : R s t) : StRel R (St.init s) (St.init t) where
  len := rfl
  ids := rfl
  rs := by
    intro i
    cases i with
    | zero => exact h
    | succ k => simp [St.init, St.get, OptRel]

end
end Gimli.Rd
