import Gimli.Props.C12Line
/-! Helper lemmas for the line component of C12: the simulation between the reader
(`LineRows::next_row`, C04's `execute`/`traceInstrs`) and the converter (`read_row`,
`Model/ConvLineRows.lean`) — the converter's rows are the reader's reported rows up to the offset
of the last accepted `DW_LNE_set_address`; while a refused one (a tombstone) lasts both skip the
same rows — and its composition with the writer (C13). This lifts the invariant `LInv` of
`Props/C12.lean` (`line_addresses_aux`: reader (addr, tomb, opn) / converter (rel, fa, tomb,
pending, opn) / writer prev / output reader cur) to whole rows: `Rel` (registers), `PendOk` +
`R.address = eb + fromRow.address` (pending address / writer base), `WInv` (writer, output reader,
`closed` when no row of the sequence has been reported). -/
namespace Gimli.ConvLineRows
open Gimli Gimli.Line Gimli.WLine Gimli.Props.C13

/-- the reader's row for the converter's sequence-relative row `r` when the last accepted
`DW_LNE_set_address` was `b` -/
def shift (b : Nat) (r : Row) : Row := { r with address := r.address + b }

theorem addSized_shift {a b l s x : Nat} (h : addSized (a + b) l s = some x) :
    addSized a l s = some (a + l) ∧ x = a + l + b := by
  have := addSized_some h
  unfold addSized
  have h1 : a + l < 2 ^ 64 := by
    unfold addSized at h
    split at h
    · omega
    · cases h
  have h2 : a + l ≤ onesSized s := by omega
  simp [h1, h2]
  omega

theorem applyOperationAdvance_shift (h : Params) (b : Nat) (r : Row) (adv : Nat) (hnt : r.tombstone = false)
    (R' : Row) (hx : applyOperationAdvance h (shift b r) adv = (R', none)) :
    ∃ r', applyOperationAdvance h r adv = (r', none) ∧ R' = shift b r' := by
  unfold applyOperationAdvance at hx ⊢
  have hnt' : (shift b r).tombstone = false := hnt
  rw [if_neg (by rw [hnt']; decide)] at hx
  rw [if_neg (by rw [hnt]; decide)]
  simp only at hx ⊢
  have hop : (shift b r).opIndex = r.opIndex := rfl
  have had : (shift b r).address = r.address + b := rfl
  rw [hop, had] at hx
  cases ha : addSized (r.address + b) (operationPointer h r.opIndex adv).2 h.addrSize with
  | none => rw [ha] at hx; simp at hx
  | some A =>
    rw [ha] at hx
    obtain ⟨h1, h2⟩ := addSized_shift ha
    rw [h1]
    simp only [Prod.mk.injEq, and_true] at hx
    refine ⟨_, rfl, ?_⟩
    rw [← hx, h2]
    simp [shift]

theorem applyLineAdvance_shift (b : Nat) (r : Row) (i : Int) :
    applyLineAdvance (shift b r) i = shift b (applyLineAdvance r i) := by
  unfold applyLineAdvance shift
  by_cases h1 : i < 0
  · by_cases h2 : i.natAbs ≤ r.line
    · simp [h1, h2]
    · simp [h1, h2]
  · simp [h1]

def isSetAddress : Instr → Bool
  | .setAddress _ => true
  | _ => false

/-- **`execute` commutes with the address shift** (every instruction but `DW_LNE_set_address`):
if the reader's step on the absolute row does not fail, the converter's step on the relative row
is the same step -/
theorem execute_shift (h : Params) (b : Nat) (r : Row) (ins : Instr) (hnt : r.tombstone = false)
    (hins : isSetAddress ins = false) (R' : Row) (x : Exec)
    (hx : execute h (shift b r) ins = (R', x)) (hne : ∀ e, x ≠ .err e) :
    ∃ r', execute h r ins = (r', x) ∧ R' = shift b r' := by
  cases ins with
  | setAddress a => simp [isSetAddress] at hins
  | special op =>
    simp only [execute, execSpecial] at hx ⊢
    rw [applyLineAdvance_shift] at hx
    cases hap : applyOperationAdvance h (shift b (applyLineAdvance r (h.lineBase + ↑(adjustOpcode h op % h.lineRange))))
        (adjustOpcode h op / h.lineRange) with
    | mk R1 e =>
      rw [hap] at hx
      cases e with
      | some e => simp [Exec.ofAdv] at hx; exact absurd hx.2.symm (hne e)
      | none =>
        have hnt2 : (applyLineAdvance r (h.lineBase + ↑(adjustOpcode h op % h.lineRange))).tombstone = false := by
          rw [(applyLineAdvance_inv r _).2.2.1]; exact hnt
        obtain ⟨r', hr', hR⟩ := applyOperationAdvance_shift h b _ _ hnt2 R1 hap
        rw [hr']
        simp only [Exec.ofAdv, Prod.mk.injEq] at hx ⊢
        exact ⟨r', ⟨rfl, hx.2⟩, by rw [← hx.1, hR]⟩
  | advancePc n =>
    simp only [execute] at hx ⊢
    cases hap : applyOperationAdvance h (shift b r) n with
    | mk R1 e =>
      rw [hap] at hx
      cases e with
      | some e => simp [Exec.ofAdv] at hx; exact absurd hx.2.symm (hne e)
      | none =>
        obtain ⟨r', hr', hR⟩ := applyOperationAdvance_shift h b _ _ hnt R1 hap
        rw [hr']
        simp only [Exec.ofAdv, Prod.mk.injEq] at hx ⊢
        exact ⟨r', ⟨rfl, hx.2⟩, by rw [← hx.1, hR]⟩
  | constAddPc =>
    simp only [execute] at hx ⊢
    cases hap : applyOperationAdvance h (shift b r) (adjustOpcode h 255 / h.lineRange) with
    | mk R1 e =>
      rw [hap] at hx
      cases e with
      | some e => simp [Exec.ofAdv] at hx; exact absurd hx.2.symm (hne e)
      | none =>
        obtain ⟨r', hr', hR⟩ := applyOperationAdvance_shift h b _ _ hnt R1 hap
        rw [hr']
        simp only [Exec.ofAdv, Prod.mk.injEq] at hx ⊢
        exact ⟨r', ⟨rfl, hx.2⟩, by rw [← hx.1, hR]⟩
  | fixedAddPc n =>
    simp only [execute] at hx ⊢
    have hnt' : (shift b r).tombstone = false := hnt
    rw [if_neg (by rw [hnt']; decide)] at hx
    rw [if_neg (by rw [hnt]; decide)]
    have had : (shift b r).address = r.address + b := rfl
    rw [had] at hx
    cases ha : addSized (r.address + b) n h.addrSize with
    | none => rw [ha] at hx; simp at hx; exact absurd hx.2.symm (hne _)
    | some A =>
      rw [ha] at hx
      obtain ⟨h1, h2⟩ := addSized_shift ha
      rw [h1]
      simp only [Prod.mk.injEq] at hx ⊢
      refine ⟨_, ⟨rfl, hx.2⟩, ?_⟩
      rw [← hx.1, h2]
      simp [shift]
  | advanceLine i =>
    simp only [execute, Prod.mk.injEq] at hx ⊢
    exact ⟨_, ⟨rfl, hx.2⟩, by rw [← hx.1, applyLineAdvance_shift]⟩
  | _ =>
    simp only [execute, Prod.mk.injEq] at hx ⊢
    exact ⟨_, ⟨rfl, hx.2⟩, by rw [← hx.1] <;> first | rfl | simp [shift]⟩

theorem execute_tombstone (h : Params) (r : Row) (ins : Instr) (hins : isSetAddress ins = false) :
    (execute h r ins).1.tombstone = r.tombstone := by
  cases ins with
  | setAddress a => simp [isSetAddress] at hins
  | special op =>
    simp only [execute]
    have := (execSpecial_inv h r op).2.2.2
    exact this
  | advancePc n => simp only [execute]; exact (applyOperationAdvance_inv h r n).2.2.2
  | constAddPc => simp only [execute]; exact (applyOperationAdvance_inv h r _).2.2.2
  | advanceLine i => simp only [execute]; exact (applyLineAdvance_inv r i).2.2.1
  | fixedAddPc n =>
    simp only [execute]
    split
    · rfl
    · split <;> rfl
  | _ => rfl

theorem operationPointer_one (h : Params) (hm : h.maxOps = 1) (op adv : Nat) :
    (operationPointer h op adv).1 = 0 := by
  unfold operationPointer; simp [hm]

/-- without VLIW (`maximum_operations_per_instruction = 1`) the op_index register stays 0 -/
theorem execute_opIndex (h : Params) (hm : h.maxOps = 1) (r : Row) (ins : Instr) (h0 : r.opIndex = 0) :
    (execute h r ins).1.opIndex = 0 := by
  have hadv : ∀ (r : Row) (adv : Nat), r.opIndex = 0 → (applyOperationAdvance h r adv).1.opIndex = 0 := by
    intro r adv h0
    unfold applyOperationAdvance
    split
    · exact h0
    · simp only
      split <;> simp [operationPointer_one h hm]
  cases ins with
  | special op =>
    simp only [execute, execSpecial]
    exact hadv _ _ (by rw [(applyLineAdvance_inv r _).2.2.2]; exact h0)
  | advancePc n => simp only [execute]; exact hadv r n h0
  | constAddPc => simp only [execute]; exact hadv r _ h0
  | advanceLine i => simp only [execute]; rw [(applyLineAdvance_inv r i).2.2.2]; exact h0
  | fixedAddPc n =>
    simp only [execute]
    split
    · exact h0
    · split
      · rfl
      · exact h0
  | setAddress a =>
    simp only [execute]
    split
    · exact h0
    · rfl
  | _ => exact h0

def setAddrVal : Instr → Option Nat
  | .setAddress a => some a
  | _ => none

def isDefineFile : Instr → Bool
  | .defineFile _ => true
  | _ => false

/-- the reader's row while a refused `DW_LNE_set_address` (a tombstone) lasts: the address register
is frozen at `A`, the other registers are the converter's -/
def frozen (A : Nat) (r : Row) : Row := { r with address := A }

theorem applyLineAdvance_frozen (A : Nat) (r : Row) (i : Int) :
    applyLineAdvance (frozen A r) i = frozen A (applyLineAdvance r i) := by
  unfold applyLineAdvance frozen
  by_cases h1 : i < 0
  · by_cases h2 : i.natAbs ≤ r.line
    · simp [h1, h2]
    · simp [h1, h2]
  · simp [h1]

theorem applyOperationAdvance_tomb (h : Params) (r : Row) (adv : Nat) (ht : r.tombstone = true) :
    applyOperationAdvance h r adv = (r, none) := by
  unfold applyOperationAdvance; rw [if_pos ht]

/-- **inside a tombstone `execute` does not touch the address**: the reader's step (address frozen
at `A`) and the converter's step (its stale relative address) are the same step, and it cannot
fail -/
theorem execute_frozen (h : Params) (A : Nat) (r : Row) (ins : Instr) (ht : r.tombstone = true)
    (hins : isSetAddress ins = false) :
    execute h (frozen A r) ins = (frozen A (execute h r ins).1, (execute h r ins).2) ∧
    (execute h r ins).1.address = r.address ∧ (∀ e, (execute h r ins).2 ≠ .err e) := by
  have htf : ∀ r : Row, r.tombstone = true → (frozen A r).tombstone = true := fun _ h => h
  cases ins with
  | setAddress a => simp [isSetAddress] at hins
  | special op =>
    have t1 : (applyLineAdvance r (h.lineBase + ↑(adjustOpcode h op % h.lineRange))).tombstone = true := by
      rw [(applyLineAdvance_inv r _).2.2.1]; exact ht
    simp only [execute, execSpecial, applyLineAdvance_frozen, applyOperationAdvance_tomb h _ _ t1,
      applyOperationAdvance_tomb h _ _ (htf _ t1), Exec.ofAdv]
    exact ⟨trivial, (applyLineAdvance_inv r _).1, by intro e; simp⟩
  | advancePc n =>
    simp only [execute, applyOperationAdvance_tomb h _ _ ht, applyOperationAdvance_tomb h _ _ (htf _ ht), Exec.ofAdv]
    exact ⟨trivial, trivial, by intro e; simp⟩
  | constAddPc =>
    simp only [execute, applyOperationAdvance_tomb h _ _ ht, applyOperationAdvance_tomb h _ _ (htf _ ht), Exec.ofAdv]
    exact ⟨trivial, trivial, by intro e; simp⟩
  | fixedAddPc n =>
    simp only [execute, if_pos ht, if_pos (htf _ ht)]
    exact ⟨trivial, trivial, by intro e; simp⟩
  | advanceLine i =>
    simp only [execute, applyLineAdvance_frozen]
    exact ⟨trivial, (applyLineAdvance_inv r _).1, by intro e; simp⟩
  | _ =>
    simp only [execute]
    exact ⟨by first | rfl | simp [frozen], trivial, by intro e; simp⟩

/-- **what the rows theorem assumes about the source program**, from reader registers `R` and
`in_sequence = b`: the reader runs it without an error, and every row it *reports* has a line
number below 2^63 (finding C13-3 beyond). `DW_LNE_set_address` is unrestricted: values below the
current address and tombstone values (rows the reader skips) are allowed. -/
def Tame (h : Params) : Row → Bool → List Instr → Prop
  | _, _, [] => True
  | R, b, ins :: is =>
    match execute h R ins with
    | (_, .err _) => False
    | (R', .noEmit) => Tame h R' b is
    | (R', .emit) =>
      if skipRow R' b then Tame h (reset h R') b is
      else R'.line < 2 ^ 63 ∧ Tame h (reset h R') (!R'.endSequence) is

/-- what the caller of `LineRows::next_row` sees (`run` on decoded instructions) -/
def vis (h : Params) (R : Row) (b : Bool) (is : List Instr) : List Ev :=
  (traceInstrs h R b is).filter Ev.visible

/-- `read_row` touches only the reader-side registers, the string tables, the index mappings
(append only) and the file table of the program being built -/
def Frame (st st' : CSt) : Prop :=
  st'.prog.instrs = st.prog.instrs ∧ st'.prog.prevRow = st.prog.prevRow ∧ st'.prog.row = st.prog.row ∧
  st'.prog.inSequence = st.prog.inSequence ∧ st'.prog.enc = st.prog.enc ∧ ∃ more, st'.files = st.files ++ more

theorem Frame.refl (st : CSt) : Frame st st := ⟨rfl, rfl, rfl, rfl, rfl, [], by simp⟩

theorem Frame.trans {a b c : CSt} (h1 : Frame a b) (h2 : Frame b c) : Frame a c := by
  obtain ⟨a1, a2, a3, a4, a5, m1, a6⟩ := h1
  obtain ⟨b1, b2, b3, b4, b5, m2, b6⟩ := h2
  exact ⟨b1.trans a1, b2.trans a2, b3.trans a3, b4.trans a4, b5.trans a5, m1 ++ m2, by rw [b6, a6]; simp⟩

theorem convertFile_frame (strs : Strs) (st st' : CSt) (f : FileEntry) (h : convertFile strs st f = .ok st') :
    Frame st st' ∧ st'.fromRow = st.fromRow ∧ st'.fromAddress = st.fromAddress ∧ st'.inSeq = st.inSeq := by
  unfold convertFile at h
  dsimp only at h
  cases hn : convertString strs st.prog.enc.version st.tabs f.path with
  | err e => rw [hn] at h; simp at h
  | panic w => rw [hn] at h; simp at h
  | ok v1 =>
    rw [hn] at h
    simp only [CRes.bind_ok] at h
    split at h
    · cases h
    split at h
    · cases h
    have fin : ∀ (tabs2 : Tabs) (source : Option LineStr),
        (do let __x_1 ← ofWrite (addFile st.prog v1.2 (st.dirs.getD f.dirIndex 0)
                (some { timestamp := f.timestamp, size := f.size, md5 := f.md5, source }))
            pure ({ prog := __x_1.1, tabs := tabs2, files := st.files ++ [__x_1.2], dirs := st.dirs,
                    fromRow := st.fromRow, fromAddress := st.fromAddress, inSeq := st.inSeq } : CSt)) = CRes.ok st' →
        Frame st st' ∧ st'.fromRow = st.fromRow ∧ st'.fromAddress = st.fromAddress ∧ st'.inSeq = st.inSeq := by
      intro tabs2 source h
      cases haf : addFile st.prog v1.2 (st.dirs.getD f.dirIndex 0)
          (some { timestamp := f.timestamp, size := f.size, md5 := f.md5, source }) with
      | ok v3 =>
        rw [haf] at h
        simp only [ofWrite, CRes.bind_ok, CRes.pure_eq, CRes.ok.injEq] at h
        subst h
        have hp : v3.1.instrs = st.prog.instrs ∧ v3.1.prevRow = st.prog.prevRow ∧ v3.1.row = st.prog.row ∧
            v3.1.inSequence = st.prog.inSequence ∧ v3.1.enc = st.prog.enc := by
          rcases addFile_unfold _ _ _ _ _ _ haf with ⟨_, hp⟩ | ⟨_, _, hp⟩ <;> rw [hp] <;> exact ⟨rfl, rfl, rfl, rfl, rfl⟩
        exact ⟨⟨hp.1, hp.2.1, hp.2.2.1, hp.2.2.2.1, hp.2.2.2.2, [v3.2], rfl⟩, rfl, rfl, rfl⟩
      | err e => rw [haf] at h; simp [ofWrite] at h
      | panic w => rw [haf] at h; simp [ofWrite] at h
      | diverge => rw [haf] at h; simp [ofWrite] at h
    cases hsrc : f.source with
    | none =>
      rw [hsrc] at h
      simp only [CRes.pure_eq, CRes.bind_ok] at h
      exact fin _ _ h
    | some s =>
      rw [hsrc] at h
      dsimp only at h
      cases hs : convertString strs st.prog.enc.version v1.1 s with
      | err e => rw [hs] at h; simp at h
      | panic w => rw [hs] at h; simp at h
      | ok v2 =>
        rw [hs] at h
        simp only [CRes.bind_ok, CRes.pure_eq] at h
        exact fin _ _ h

theorem readRowLoop_other (strs : Strs) (h : Params) (tomb : Bool) (p : Option Nat) (st : CSt)
    (ins : Instr) (rest : List Instr) (h1 : setAddrVal ins = none) (h2 : isDefineFile ins = false) :
    readRowLoop strs h tomb p st (ins :: rest) =
      match execute h st.fromRow ins with
      | (_, .err e) => .err (.read e)
      | (row, .noEmit) => readRowLoop strs h tomb p { st with fromRow := row } rest
      | (row, .emit) =>
        if tomb && !(row.endSequence && st.inSeq) then
          if row.endSequence then
            readRowLoop strs h false none { st with fromRow := reset h row, fromAddress := 0 } rest
          else readRowLoop strs h tomb p { st with fromRow := reset h row } rest
        else if row.endSequence then
          if row.address % h.minInstLen ≠ 0 then .err .unsupportedLineInstruction
          else .ok (some (.endSeq p row.address), { st with fromRow := row, inSeq := false }, rest)
        else
          let st := { st with fromRow := row, inSeq := true }
          match convertRow st with
          | .ok r => .ok (some (.row p r), st, rest)
          | .err e => .err e
          | .panic w => .panic w := by
  cases ins
  case setAddress a => simp [setAddrVal] at h1
  case defineFile f => simp [isDefineFile] at h2
  all_goals rfl

/-- the converter's registers and the reader's: same row up to the offset `fromAddress` -/
def RowRel (h : Params) (st : CSt) (R : Row) : Prop :=
  st.fromRow.tombstone = false ∧ R = shift st.fromAddress st.fromRow ∧ st.fromRow.opIndex = 0 ∧
  R.address ≤ onesSized h.addrSize

/-- the same inside `read_row`'s loop, where the local `tombstone` can be set: then the reader's
address is frozen and `from_address` holds it -/
def Rel (h : Params) (st : CSt) : Bool → Row → Prop
  | false, R => RowRel h st R
  | true, R => st.fromRow.tombstone = true ∧ R = frozen st.fromAddress st.fromRow ∧ st.fromRow.opIndex = 0 ∧
      R.address ≤ onesSized h.addrSize

theorem Rel.facts {h : Params} {st : CSt} {tomb : Bool} {R : Row} (hr : Rel h st tomb R) :
    st.fromRow.tombstone = tomb ∧ st.fromRow.opIndex = 0 ∧ R.address ≤ onesSized h.addrSize ∧
    R = frozen R.address st.fromRow ∧
    R.address = (if tomb then st.fromAddress else st.fromRow.address + st.fromAddress) := by
  cases tomb with
  | false =>
    obtain ⟨a, b, c, d⟩ := hr
    refine ⟨a, c, d, ?_, ?_⟩
    · rw [b]; rfl
    · rw [b]; rfl
  | true =>
    obtain ⟨a, b, c, d⟩ := hr
    refine ⟨a, c, d, ?_, ?_⟩
    · rw [b]; rfl
    · rw [b]; rfl

theorem Rel.congr {h : Params} {st st1 : CSt} {tomb : Bool} {R : Row} (e1 : st1.fromRow = st.fromRow)
    (e2 : st1.fromAddress = st.fromAddress) (hr : Rel h st tomb R) : Rel h st1 tomb R := by
  cases tomb with
  | false => unfold Rel RowRel at hr ⊢; rw [e1, e2]; exact hr
  | true => unfold Rel at hr ⊢; rw [e1, e2]; exact hr

/-- the pending `set_address` (if any) is the new base, not below the writer's previous row and
not a tombstone; without one the base is unchanged -/
def PendOk (p' : Option Nat) (base wbase prevOff mt : Nat) : Prop :=
  match p' with
  | some a => a = base ∧ wbase + prevOff ≤ a ∧ a < mt
  | none => base = wbase

/-- what `read_row` returned, related to the reader's next reported row (`wbase + prevOff` is the
address of the last row handed to the writer) -/
def RowSpec (h : Params) (st : CSt) (R : Row) (b : Bool) (is : List Instr) (wbase prevOff : Nat) :
    CRes (Option RowEv × CSt × List Instr) → Prop
  | .ok (none, st', _) => vis h R b is = [] ∧ Frame st st'
  | .ok (some (.row p' w), st', rest) =>
    ∃ R1, vis h R b is = Ev.row R1 :: vis h (reset h R1) true rest ∧
      R1.endSequence = false ∧ RowRel h st' R1 ∧ st'.inSeq = true ∧ Tame h (reset h R1) true rest ∧
      R1.line < 2 ^ 63 ∧ wbase + prevOff ≤ R1.address ∧ convertRow st' = .ok w ∧ Frame st st' ∧
      PendOk p' st'.fromAddress wbase prevOff (minTombstone h.addrSize)
  | .ok (some (.endSeq p' off), st', rest) =>
    ∃ R1 eb, vis h R b is = Ev.row R1 :: vis h (Row.new h) false rest ∧
      R1.endSequence = true ∧ st'.fromRow.endSequence = true ∧ st'.inSeq = false ∧
      Tame h (Row.new h) false rest ∧ wbase + prevOff ≤ R1.address ∧ R1.address = eb + off ∧
      R1.address ≤ onesSized h.addrSize ∧ off % h.minInstLen = 0 ∧ Frame st st' ∧
      PendOk p' eb wbase prevOff (minTombstone h.addrSize)
  | .err _ => True
  | .panic _ => True

theorem setAddrVal_some {ins : Instr} {a : Nat} (h : setAddrVal ins = some a) : ins = .setAddress a := by
  cases ins <;> simp [setAddrVal] at h
  subst h; rfl

theorem isDefineFile_true {ins : Instr} (h : isDefineFile ins = true) : ∃ f, ins = .defineFile f := by
  cases ins <;> simp [isDefineFile] at h
  exact ⟨_, rfl⟩

theorem RowSpec.lift {h : Params} {st st1 : CSt} {R R1 : Row} {b b1 : Bool} {is : List Instr} {ins : Instr}
    {wbase prevOff : Nat} {res : CRes (Option RowEv × CSt × List Instr)}
    (htr : vis h R b (ins :: is) = vis h R1 b1 is) (hf : Frame st st1)
    (hs : RowSpec h st1 R1 b1 is wbase prevOff res) : RowSpec h st R b (ins :: is) wbase prevOff res := by
  cases res with
  | err e => trivial
  | panic w => trivial
  | ok v =>
    obtain ⟨ev, st', rest⟩ := v
    cases ev with
    | none => simp only [RowSpec] at hs ⊢; rw [htr]; exact ⟨hs.1, hf.trans hs.2⟩
    | some ev =>
      cases ev with
      | row p' w =>
        simp only [RowSpec] at hs ⊢
        obtain ⟨Rr, h1, h2, h3, h4, h5, h6, h7, h8, h9, h10⟩ := hs
        exact ⟨Rr, by rw [htr]; exact h1, h2, h3, h4, h5, h6, h7, h8, hf.trans h9, h10⟩
      | endSeq p' off =>
        simp only [RowSpec] at hs ⊢
        obtain ⟨Rr, eb, h1, h2, h3, h4, h5, h6, h7, h8, h9, h10, h11⟩ := hs
        exact ⟨Rr, eb, by rw [htr]; exact h1, h2, h3, h4, h5, h6, h7, h8, h9, hf.trans h10, h11⟩

theorem minTombstone_lt (size : Nat) : minTombstone size < 2 ^ 64 := by
  unfold minTombstone
  by_cases hs : 8 * size < 64
  · have : 2 ^ (8 * size) ≤ 2 ^ 64 := Nat.pow_le_pow_right (by decide) (by omega)
    have := Nat.mod_lt (2 ^ 64 - 2) (Nat.two_pow_pos (8 * size))
    omega
  · have : 2 ^ 64 ≤ 2 ^ (8 * size) := Nat.pow_le_pow_right (by decide) (by omega)
    have : (2 ^ 64 - 2) % 2 ^ (8 * size) = 2 ^ 64 - 2 := Nat.mod_eq_of_lt (by omega)
    omega

theorem vis_noEmit {h : Params} {R R' : Row} {b : Bool} {ins : Instr} {is : List Instr}
    (hE : execute h R ins = (R', .noEmit)) : vis h R b (ins :: is) = vis h R' b is := by
  rw [vis, traceInstrs, hE]; rfl

theorem vis_hidden {h : Params} {R R' : Row} {b : Bool} {ins : Instr} {is : List Instr}
    (hE : execute h R ins = (R', .emit)) (hs : skipRow R' b = true) :
    vis h R b (ins :: is) = vis h (reset h R') b is := by
  rw [vis, traceInstrs, hE]
  simp only [hs, ↓reduceIte, List.filter_cons, Ev.visible, Bool.false_eq_true]
  rfl

theorem vis_row {h : Params} {R R' : Row} {b : Bool} {ins : Instr} {is : List Instr}
    (hE : execute h R ins = (R', .emit)) (hs : skipRow R' b = false) :
    vis h R b (ins :: is) = Ev.row R' :: vis h (reset h R') (!R'.endSequence) is := by
  rw [vis, traceInstrs, hE]
  simp only [hs, Bool.false_eq_true, ↓reduceIte, List.filter_cons, Ev.visible]
  rfl

/-- **one `read_row` against the reader's next reported row**, tombstones included: from related
registers (`Rel`, `in_sequence` equal) the loop of `read_row` either fails, or returns nothing
exactly when the reader reports nothing more, or returns the row / end of sequence the reader
reports next — the rows the reader skips (inside a tombstone, `skipRow`) are skipped, a sequence
that has already reported rows still gets its end, at the reader's (frozen) address -/
theorem readRowLoop_sim (strs : Strs) (h : Params) (hm : h.maxOps = 1) (hsz : h.addrSize ≤ 8)
    (wbase prevOff : Nat) :
    ∀ (is : List Instr) (tomb : Bool) (p : Option Nat) (st : CSt) (R : Row) (b : Bool) (eb : Nat),
    Rel h st tomb R → st.inSeq = b → Tame h R b is → wbase + prevOff ≤ R.address →
    PendOk p eb wbase prevOff (minTombstone h.addrSize) → R.address = eb + st.fromRow.address →
    (b = false → wbase = 0 ∧ prevOff = 0) →
    st.prog.enc.minInstLen = h.minInstLen →
    RowSpec h st R b is wbase prevOff (readRowLoop strs h tomb p st is) := by
  intro is
  induction is with
  | nil =>
    intro tomb p st R b eb _ _ _ _ _ _ _ _
    simp [readRowLoop, RowSpec, vis, traceInstrs, Frame.refl]
  | cons ins is ih =>
    intro tomb p st R b eb hrel hinseq htame hlo hp hbase hclosed hmin
    obtain ⟨hnt, hop, hones, hRf, hRa⟩ := hrel.facts
    have hones64 := onesSized_lt h.addrSize hsz
    rw [Tame] at htame
    cases hv : setAddrVal ins with
    | some a =>
      -- DW_LNE_set_address
      have hins := setAddrVal_some hv
      subst hins
      have hlt64 := minTombstone_lt h.addrSize
      have hfa : (if tomb = true then st.fromAddress else (st.fromAddress + st.fromRow.address) % 2 ^ 64) =
          R.address := by
        rw [hRa]
        cases tomb with
        | true => rfl
        | false =>
          simp only [Bool.false_eq_true, ↓reduceIte] at hRa ⊢
          rw [Nat.add_comm]; apply Nat.mod_eq_of_lt; omega
      rw [readRowLoop]
      simp only [hfa]
      cases htomb : (decide (a < R.address) || decide (a ≥ minTombstone h.addrSize)) with
      | true =>
        -- refused: the reader's address freezes, `from_address` takes it
        have hexec : execute h R (.setAddress a) = ({ R with tombstone := true }, .noEmit) := by
          simp only [execute, htomb, ↓reduceIte]
        rw [hexec] at htame
        simp only [↓reduceIte]
        refine RowSpec.lift (R1 := { R with tombstone := true }) (b1 := b) (vis_noEmit hexec)
          ⟨rfl, rfl, rfl, rfl, rfl, [], by simp⟩
          (ih true p _ _ b eb ?_ hinseq htame hlo hp hbase hclosed hmin)
        refine ⟨rfl, ?_, hop, hones⟩
        rw [hRf]; rfl
      | false =>
        -- accepted
        have hacc : R.address ≤ a ∧ a < minTombstone h.addrSize := by
          simp only [Bool.or_eq_false_iff, decide_eq_false_iff_not, Nat.not_lt, ge_iff_le, Nat.not_le] at htomb
          exact htomb
        have hexec : execute h R (.setAddress a) =
            ({ R with tombstone := false, address := a, opIndex := 0 }, .noEmit) := by
          simp only [execute, htomb]; rfl
        rw [hexec] at htame
        simp only [Bool.false_eq_true, ↓reduceIte]
        refine RowSpec.lift (R1 := { R with tombstone := false, address := a, opIndex := 0 }) (b1 := b)
          (vis_noEmit hexec) ⟨rfl, rfl, rfl, rfl, rfl, [], by simp⟩
          (ih false (some a) _ _ b a ?_ hinseq htame ?_ ?_ ?_ hclosed hmin)
        · refine ⟨rfl, ?_, rfl, ?_⟩
          · rw [hRf]; simp [shift, frozen]
          · show a ≤ onesSized h.addrSize
            have := minTombstone_le h.addrSize; omega
        · show wbase + prevOff ≤ a; omega
        · exact ⟨rfl, by omega, hacc.2⟩
        · show a = a + 0; rfl
    | none =>
      by_cases hdf : isDefineFile ins = true
      · -- DW_LNE_define_file
        obtain ⟨f, hf⟩ := isDefineFile_true hdf
        subst hf
        have hexec : execute h R (.defineFile f) = (R, .noEmit) := rfl
        rw [hexec] at htame
        rw [readRowLoop]
        cases hc : convertFile strs st f with
        | err e => simp [RowSpec]
        | panic w => simp [RowSpec]
        | ok st1 =>
          simp only
          obtain ⟨hfr, e1, e2, e3⟩ := convertFile_frame strs st st1 f hc
          exact RowSpec.lift (R1 := R) (b1 := b) (vis_noEmit hexec) hfr
            (ih tomb p st1 R b eb (hrel.congr e1 e2) (by rw [e3]; exact hinseq) htame hlo hp
              (by rw [e1]; exact hbase) hclosed (by rw [hfr.2.2.2.2.1]; exact hmin))
      · -- every other instruction: the same `execute` step on both sides
        have hdf' : isDefineFile ins = false := by simpa using hdf
        have hsa' : isSetAddress ins = false := by
          cases ins <;> first | rfl | (simp [setAddrVal] at hv)
        rw [readRowLoop_other strs h tomb p st ins is hv hdf']
        have hop' : (execute h st.fromRow ins).1.opIndex = 0 := execute_opIndex h hm st.fromRow ins hop
        have hnt' : (execute h st.fromRow ins).1.tombstone = tomb := by
          rw [execute_tombstone h st.fromRow ins hsa']; exact hnt
        cases tomb with
        | false =>
          obtain ⟨_, hR, _, _⟩ := hrel
          simp only [Bool.false_eq_true, ↓reduceIte] at hRa
          cases hE : execute h R ins with
          | mk R' x =>
            rw [hE] at htame
            have hmono : R.address ≤ R'.address := by
              have := (execute_inv h R ins).1
              rw [hE] at this; exact this
            have hones' : R'.address ≤ onesSized h.addrSize := by
              have := (execute_inv h R ins).2.1 hones
              rw [hE] at this; exact this
            cases x with
            | err e => exact absurd htame (by simp)
            | noEmit =>
              simp only at htame
              obtain ⟨r', hr', hRr⟩ := execute_shift h st.fromAddress st.fromRow ins hnt hsa' R' .noEmit
                (by rw [← hR]; exact hE) (by intro e; simp)
              rw [hr'] at hop' hnt' ⊢
              simp only at hop' hnt' ⊢
              refine RowSpec.lift (R1 := R') (b1 := b) (vis_noEmit hE) ⟨rfl, rfl, rfl, rfl, rfl, [], by simp⟩
                (ih false p _ R' b eb ⟨hnt', hRr, hop', hones'⟩ hinseq htame (by omega) hp ?_ hclosed hmin)
              show R'.address = eb + r'.address
              rw [hRr]; show r'.address + st.fromAddress = eb + r'.address; omega
            | emit =>
              simp only at htame
              obtain ⟨r', hr', hRr⟩ := execute_shift h st.fromAddress st.fromRow ins hnt hsa' R' .emit
                (by rw [← hR]; exact hE) (by intro e; simp)
              rw [hr'] at hop' hnt' ⊢
              simp only at hop' hnt'
              simp only [Bool.false_and, Bool.false_eq_true, ↓reduceIte]
              have hntR : R'.tombstone = false := by rw [hRr]; exact hnt'
              have hsk : skipRow R' b = false := by simp [skipRow, hntR]
              rw [hsk] at htame
              simp only [Bool.false_eq_true, ↓reduceIte] at htame
              obtain ⟨hline, htame'⟩ := htame
              have hend : R'.endSequence = r'.endSequence := by rw [hRr]; rfl
              have hR'a : R'.address = r'.address + st.fromAddress := by rw [hRr]; rfl
              have hfa : st.fromAddress = eb := by omega
              have htr := vis_row (is := is) hE hsk
              by_cases he : r'.endSequence = true
              · rw [if_pos he]
                by_cases hal : r'.address % h.minInstLen ≠ 0
                · rw [if_pos hal]; trivial
                · rw [if_neg hal]
                  simp only [RowSpec]
                  have hres : reset h R' = Row.new h := by
                    unfold reset; rw [hend, he]; rfl
                  rw [hend, he, hres] at htr htame'
                  exact ⟨R', eb, htr, by rw [hend]; exact he, he, by first | rfl | trivial, htame', by omega,
                    by show R'.address = eb + r'.address; omega, hones', by omega,
                    ⟨rfl, rfl, rfl, rfl, rfl, [], by simp⟩, hp⟩
              · rw [if_neg he]
                cases hc : convertRow { st with fromRow := r', inSeq := true } with
                | err e => trivial
                | panic w => trivial
                | ok w =>
                  simp only [RowSpec]
                  have he' : r'.endSequence = false := by simpa using he
                  rw [hend, he'] at htr htame'
                  exact ⟨R', htr, by rw [hend]; exact he', ⟨hnt', hRr, hop', hones'⟩, by first | rfl | trivial, htame', hline,
                    by omega, hc, ⟨rfl, rfl, rfl, rfl, rfl, [], by simp⟩,
                    by show PendOk p st.fromAddress _ _ _; rw [hfa]; exact hp⟩
        | true =>
          -- inside a tombstone: nothing moves the address; rows are skipped, except the end of a
          -- sequence that has already reported rows
          obtain ⟨_, hR, _, _⟩ := hrel
          simp only [↓reduceIte] at hRa
          obtain ⟨hstep, haddr, hnoerr⟩ := execute_frozen h st.fromAddress st.fromRow ins hnt hsa'
          rw [← hR] at hstep
          cases hr' : execute h st.fromRow ins with
          | mk r' x =>
            rw [hr'] at hstep haddr hnoerr hop' hnt'
            simp only at hstep haddr hnoerr hop' hnt'
            rw [hstep] at htame
            have hR'a : (frozen st.fromAddress r').address = R.address := hRa.symm
            have hrel' : ∀ r'' : Row, r''.tombstone = true → r''.opIndex = 0 →
                Rel h { st with fromRow := r'' } true (frozen st.fromAddress r'') :=
              fun r'' t o => ⟨t, rfl, o, by show st.fromAddress ≤ _; rw [← hRa]; exact hones⟩
            cases x with
            | err e => exact absurd rfl (hnoerr e)
            | noEmit =>
              simp only at htame ⊢
              exact RowSpec.lift (R1 := frozen st.fromAddress r') (b1 := b) (vis_noEmit hstep)
                ⟨rfl, rfl, rfl, rfl, rfl, [], by simp⟩
                (ih true p _ _ b eb (hrel' r' hnt' hop') hinseq htame (by rw [hR'a]; exact hlo) hp
                  (by rw [hR'a]; show R.address = eb + r'.address; rw [haddr]; exact hbase) hclosed hmin)
            | emit =>
              simp only at htame ⊢
              have hskeq : skipRow (frozen st.fromAddress r') b = (true && !(r'.endSequence && st.inSeq)) := by
                rw [hinseq]; simp [skipRow, frozen, hnt']
              rw [← hskeq]
              cases hsk : skipRow (frozen st.fromAddress r') b with
              | true =>
                rw [hsk] at htame
                simp only [↓reduceIte] at htame ⊢
                by_cases he : r'.endSequence = true
                · -- the whole sequence was a tombstone: nothing was written for it
                  rw [if_pos he]
                  have hb : b = false := skipRow_end hsk he
                  obtain ⟨hw0, hp0⟩ := hclosed hb
                  have hres : reset h (frozen st.fromAddress r') = Row.new h := by
                    unfold reset; rw [if_pos (show (frozen st.fromAddress r').endSequence = true from he)]
                  have hres' : reset h r' = Row.new h := by unfold reset; rw [if_pos he]
                  rw [hres] at htame
                  rw [hres']
                  refine RowSpec.lift (R1 := Row.new h) (b1 := b) (by rw [vis_hidden hstep hsk, hres])
                    ⟨rfl, rfl, rfl, rfl, rfl, [], by simp⟩
                    (ih false none _ _ b 0 ?_ hinseq htame ?_ ?_ ?_ hclosed hmin)
                  · exact ⟨rfl, by simp [shift, Row.new], rfl, by simp [Row.new]⟩
                  · rw [hw0, hp0]; exact Nat.zero_le _
                  · show 0 = wbase; omega
                  · simp [Row.new]
                · rw [if_neg he]
                  have he' : r'.endSequence = false := by simpa using he
                  have hres : reset h (frozen st.fromAddress r') = frozen st.fromAddress (reset h r') := by
                    simp [reset, frozen, he']
                  have hresa : (reset h r').address = r'.address := by rw [reset_address, he']; rfl
                  rw [hres] at htame
                  refine RowSpec.lift (R1 := frozen st.fromAddress (reset h r')) (b1 := b)
                    (by rw [vis_hidden hstep hsk, hres]) ⟨rfl, rfl, rfl, rfl, rfl, [], by simp⟩
                    (ih true p _ _ b eb (hrel' _ (by simp [reset, he', hnt']) (by simp [reset, he', hop']))
                      hinseq htame (by show wbase + prevOff ≤ st.fromAddress; rw [← hRa]; exact hlo) hp ?_ hclosed hmin)
                  show st.fromAddress = eb + (reset h r').address
                  rw [hresa, haddr, ← hRa]; exact hbase
              | false =>
                -- not skipped: the end of a sequence that has reported rows
                rw [hsk] at htame
                simp only [Bool.false_eq_true, ↓reduceIte] at htame ⊢
                obtain ⟨_, htame'⟩ := htame
                have he : r'.endSequence = true := by
                  cases hx : r'.endSequence with
                  | true => rfl
                  | false => simp [skipRow, frozen, hnt', hx] at hsk
                have hres : reset h (frozen st.fromAddress r') = Row.new h := by
                  unfold reset; rw [if_pos (show (frozen st.fromAddress r').endSequence = true from he)]
                have htr := vis_row (is := is) hstep hsk
                rw [hres, show (frozen st.fromAddress r').endSequence = true from he] at htr htame'
                rw [if_pos he]
                by_cases hal : r'.address % h.minInstLen ≠ 0
                · rw [if_pos hal]; trivial
                · rw [if_neg hal]
                  simp only [RowSpec]
                  exact ⟨frozen st.fromAddress r', eb, htr, he, he, by first | rfl | trivial, htame', by rw [hR'a]; exact hlo,
                    by rw [hR'a, haddr]; exact hbase, by rw [hR'a]; exact hones, by omega,
                    ⟨rfl, rfl, rfl, rfl, rfl, [], by simp⟩, hp⟩

/-- what relates the converter's registers to the reader's last reported row between two
`read_row` calls: after a row, `RowRel`; after the end of a sequence both reset to the initial
registers whatever they hold -/
def LastRel (h : Params) (st : CSt) (Rlast : Row) : Prop :=
  (Rlast.endSequence = true ∧ st.fromRow.endSequence = true) ∨ RowRel h st Rlast

theorem LastRel.endEq {h : Params} {st : CSt} {R : Row} (hr : LastRel h st R) :
    R.endSequence = st.fromRow.endSequence := by
  rcases hr with ⟨a, b⟩ | ⟨_, hR, _, _⟩
  · rw [a, b]
  · rw [hR]; rfl

theorem RowRel_reset (h : Params) (st : CSt) (R : Row) (hr : LastRel h st R) :
    RowRel h { st with fromAddress := if st.fromRow.endSequence then 0 else st.fromAddress,
                       fromRow := reset h st.fromRow } (reset h R) := by
  have hend := hr.endEq
  by_cases he : st.fromRow.endSequence = true
  · have e1 : reset h R = Row.new h := by unfold reset; rw [hend, he]; rfl
    have e2 : reset h st.fromRow = Row.new h := by unfold reset; rw [he]; rfl
    rw [e1, e2]
    simp only [he, ↓reduceIte]
    exact ⟨rfl, by simp [shift, Row.new], rfl, by simp [Row.new]⟩
  · have he' : st.fromRow.endSequence = false := by simpa using he
    have hendR : R.endSequence = false := by rw [hend, he']
    rcases hr with ⟨a, _⟩ | ⟨hnt, hR, hop, hones⟩
    · rw [a] at hendR; cases hendR
    refine ⟨?_, ?_, ?_, ?_⟩
    · simp [reset, he', hnt]
    · rw [hR]; simp [reset, shift, he']
    · simp [reset, he', hop]
    · simp [reset, hendR]; exact hones

/-- what a caller compares between the source rows and the rows read back: every register of a
row; of an `end_sequence` row — which only says where the sequence ends — its address -/
inductive Obs where
  | row (r : Row)
  | endAt (address : Nat)
  | other
  deriving DecidableEq

/-- a source row, its file register mapped through the index mapping `fm` -/
def obsIn (fm : Nat → Nat) : Ev → Obs
  | .row r => if r.endSequence then .endAt r.address else .row { r with file := fm r.file }
  | _ => .other

/-- a row read back from the converted program -/
def obsOut : Ev → Obs
  | .row r => if r.endSequence then .endAt r.address else .row r
  | _ => .other

/-- the converted row, read back at base `fa`, is the source row with the file mapped -/
theorem rowOf_convertRow (h : Params) (st : CSt) (R : Row) (w : WRow) (hr : RowRel h st R)
    (hend : R.endSequence = false) (hc : convertRow st = .ok w) :
    rowOf st.prog.enc.version st.fromAddress w =
      { R with file := fileRaw st.prog.enc.version (st.files.getD R.file 0) } ∧
    w.addressOffset = st.fromRow.address ∧ w.opIndex = 0 ∧ w.line = R.line ∧
    st.fromRow.address % st.prog.enc.minInstLen = 0 ∧ R.file < st.files.length := by
  obtain ⟨hnt, hR, hop, _⟩ := hr
  unfold convertRow at hc
  dsimp only at hc
  split at hc
  · cases hc
  · split at hc
    · cases hc
    · split at hc
      · cases hc
      · rename_i h1 h2 h3
        simp only [CRes.ok.injEq] at hc
        subst hc
        have hend' : st.fromRow.endSequence = false := by rw [hR] at hend; exact hend
        refine ⟨?_, rfl, hop, by rw [hR]; rfl, by omega, by rw [hR]; show st.fromRow.file < _; omega⟩
        rw [hR]
        simp [rowOf, shift, hnt, hend', Nat.add_comm]

/-- the previous row the writer compares with, after an optional `set_address` -/
def prevAfter (p' : Option Nat) (prev : WRow) : WRow :=
  match p' with
  | some _ => { prev with addressOffset := 0, opIndex := 0 }
  | none => prev

/-- the driver's step for a row event, read back -/
theorem applyEv_row_sim (m : Mode) (en : Endian) (format : Format) (addrSize : Nat) (st' : CSt)
    (p' : Option Nat) (w : WRow) (wbase base : Nat)
    (henc : EncOk st'.prog.enc) (hasz : addrSize = 1 ∨ addrSize = 2 ∨ addrSize = 4 ∨ addrSize = 8)
    (hcl : st'.prog.prevRow.cleared = st'.prog.prevRow)
    (hp : PendOk p' base wbase st'.prog.prevRow.addressOffset (minTombstone addrSize))
    (hstep : StepOk st'.prog.enc addrSize base (prevAfter p' st'.prog.prevRow) w) :
    ∃ is1, applyEv m st' (.row p' w) =
        .ok { st' with prog := { st'.prog with inSequence := true, instrs := st'.prog.instrs ++ is1,
                                               prevRow := w.cleared, row := w.cleared } } ∧
      ∀ (inSeq : Bool) (rest : List Instr),
        traceInstrs (readerParams en format addrSize st'.prog.enc)
            (rowOf st'.prog.enc.version wbase st'.prog.prevRow) inSeq
            (is1.map (WInstr.toInstr st'.prog.enc.version) ++ rest) =
          Ev.row (rowOf st'.prog.enc.version base w) ::
            traceInstrs (readerParams en format addrSize st'.prog.enc)
              (rowOf st'.prog.enc.version base w.cleared) true rest := by
  cases p' with
  | none =>
    simp only [PendOk] at hp
    subst hp
    obtain ⟨is1, hg, htr⟩ := generate_row_correct m en format addrSize st'.prog.enc base st'.prog.prevRow w
      henc hasz hcl hstep
    refine ⟨is1, ?_, htr⟩
    simp only [applyEv, Prog.generateRow, hg, ofWrite, Out.bind_ok, Out.pure_eq, CRes.bind_ok, CRes.pure_eq]
  | some a =>
    obtain ⟨ha, hlo, hlt⟩ := hp
    subst ha
    have hcl' : (prevAfter (some a) st'.prog.prevRow).cleared = prevAfter (some a) st'.prog.prevRow := by
      simp only [prevAfter]
      rw [← hcl]; rfl
    obtain ⟨is1, hg, htr⟩ := generate_row_correct m en format addrSize st'.prog.enc a
      (prevAfter (some a) st'.prog.prevRow) w henc hasz hcl' hstep
    refine ⟨WInstr.setAddress (some a) :: is1, ?_, ?_⟩
    · simp only [applyEv, Prog.generateRow, Prog.setAddress, prevAfter] at hg ⊢
      simp only [hg, ofWrite, Out.bind_ok, Out.pure_eq, CRes.bind_ok, CRes.pure_eq, List.append_assoc,
        List.cons_append, List.nil_append]
    · intro inSeq rest
      obtain ⟨_, _, _, _, hs⟩ := set_address_correct en format addrSize st'.prog wbase a inSeq
        (is1.map (WInstr.toInstr st'.prog.enc.version) ++ rest) hlo hlt
      simp only [List.map_cons, List.cons_append]
      rw [hs]
      exact htr inSeq rest

/-- the driver's step for the end of a sequence, read back -/
theorem applyEv_end_sim (m : Mode) (en : Endian) (format : Format) (addrSize : Nat) (st' : CSt)
    (p' : Option Nat) (off : Nat) (wbase base : Nat)
    (henc : EncOk st'.prog.enc) (hasz : addrSize = 1 ∨ addrSize = 2 ∨ addrSize = 4 ∨ addrSize = 8)
    (hp : PendOk p' base wbase st'.prog.prevRow.addressOffset (minTombstone addrSize))
    (hend : EndOk st'.prog.enc addrSize base (prevAfter p' st'.prog.prevRow) st'.prog.row off) :
    ∃ is1, applyEv m st' (.endSeq p' off) =
        .ok { st' with prog := { st'.prog with inSequence := false, instrs := st'.prog.instrs ++ is1,
                                               prevRow := WRow.initial st'.prog.enc,
                                               row := WRow.initial st'.prog.enc } } ∧
      ∀ (inSeq : Bool) (rest : List Instr),
        traceInstrs (readerParams en format addrSize st'.prog.enc)
            (rowOf st'.prog.enc.version wbase st'.prog.prevRow) inSeq
            (is1.map (WInstr.toInstr st'.prog.enc.version) ++ rest) =
          Ev.row { rowOf st'.prog.enc.version base (prevAfter p' st'.prog.prevRow) with
                     address := base + off, opIndex := st'.prog.row.opIndex, endSequence := true } ::
            traceInstrs (readerParams en format addrSize st'.prog.enc)
              (Row.new (readerParams en format addrSize st'.prog.enc)) false rest := by
  obtain ⟨_, _, _, _, hmin, hmax⟩ := henc
  cases p' with
  | none =>
    simp only [PendOk] at hp
    subst hp
    obtain ⟨is1, hg, htr⟩ := end_sequence_correct m en format addrSize st'.prog.enc base st'.prog.prevRow
      st'.prog.row off hmin hmax hasz hend
    refine ⟨is1, ?_, htr⟩
    simp only [applyEv, Prog.endSequence, hg, ofWrite, Out.bind_ok, Out.pure_eq, CRes.bind_ok, CRes.pure_eq]
  | some a =>
    obtain ⟨ha, hlo, hlt⟩ := hp
    subst ha
    obtain ⟨is1, hg, htr⟩ := end_sequence_correct m en format addrSize st'.prog.enc a
      (prevAfter (some a) st'.prog.prevRow) st'.prog.row off hmin hmax hasz hend
    refine ⟨WInstr.setAddress (some a) :: is1, ?_, ?_⟩
    · simp only [applyEv, Prog.endSequence, Prog.setAddress, prevAfter] at hg ⊢
      simp only [hg, ofWrite, Out.bind_ok, Out.pure_eq, CRes.bind_ok, CRes.pure_eq, List.append_assoc,
        List.cons_append, List.nil_append]
    · intro inSeq rest
      obtain ⟨_, _, _, _, hs⟩ := set_address_correct en format addrSize st'.prog wbase a inSeq
        (is1.map (WInstr.toInstr st'.prog.enc.version) ++ rest) hlo hlt
      simp only [List.map_cons, List.cons_append]
      rw [hs]
      exact htr inSeq rest

/-- the source header's parameters, the encoding of the program being built, and the address size
of the reader that reads the result agree (the converter copies them) -/
def Agree (h : Params) (addrSize : Nat) (e : Enc) : Prop :=
  h.addrSize = addrSize ∧ h.minInstLen = e.minInstLen ∧ h.maxOps = e.maxOps ∧
  h.defaultIsStmt = e.defaultIsStmt

/-- the writer's state and the registers `Rout` of a reader of its output, between two events;
`Rlast` is the last source row, `wbase` the base address of the writer's current segment -/
def WInv (h : Params) (st : CSt) (Rlast : Row) (wbase : Nat) (Rout : Row) : Prop :=
  Rout = rowOf st.prog.enc.version wbase st.prog.prevRow ∧
  st.prog.prevRow.cleared = st.prog.prevRow ∧ st.prog.prevRow.opIndex = 0 ∧ st.prog.row.opIndex = 0 ∧
  st.prog.prevRow.line < 2 ^ 63 ∧ st.prog.prevRow.addressOffset % st.prog.enc.minInstLen = 0 ∧
  wbase + st.prog.prevRow.addressOffset ≤ (reset h Rlast).address ∧
  wbase = (if Rlast.endSequence then 0 else st.fromAddress) ∧
  (st.inSeq = false → wbase = 0 ∧ st.prog.prevRow.addressOffset = 0)

theorem rowNew_agree (h : Params) (en : Endian) (format : Format) (addrSize : Nat) (e : Enc)
    (ha : Agree h addrSize e) : Row.new (readerParams en format addrSize e) = Row.new h := by
  simp [Row.new, readerParams, ha.2.2.2]

/-- **the whole conversion loop, written and read back, against the reader on the source** — any
`DW_LNE_set_address` (accepted, lower than the current address, tombstone values), `max_ops = 1` -/
theorem convLoop_sim (m : Mode) (en : Endian) (format : Format) (addrSize : Nat) (strs : Strs) (h : Params)
    (hm : h.maxOps = 1) (hasz : addrSize = 1 ∨ addrSize = 2 ∨ addrSize = 4 ∨ addrSize = 8) :
    ∀ (fuel : Nat) (is : List Instr) (st stf : CSt) (Rlast : Row) (wbase : Nat) (Rout : Row),
    is.length < fuel → convLoop m strs h fuel st is = .ok stf →
    Agree h addrSize st.prog.enc → EncOk st.prog.enc → st.prog.enc.version ≤ 5 →
    LastRel h st Rlast → Tame h (reset h Rlast) st.inSeq is → WInv h st Rlast wbase Rout →
    ∃ new more, stf.prog.instrs = st.prog.instrs ++ new ∧ stf.files = st.files ++ more ∧
      stf.prog.enc = st.prog.enc ∧
      ∀ bout, (traceInstrs (readerParams en format addrSize st.prog.enc) Rout bout
          (new.map (WInstr.toInstr st.prog.enc.version))).map obsOut =
        (vis h (reset h Rlast) st.inSeq is).map
          (obsIn (fun i => fileRaw st.prog.enc.version (stf.files.getD i 0))) := by
  intro fuel
  induction fuel with
  | zero => intro is _ _ _ _ _ hf; omega
  | succ fuel ih =>
    intro is st stf Rlast wbase Rout hfuel hconv hag henc hv hrel htame hw
    rw [convLoop] at hconv
    unfold readRow at hconv
    -- read_row's prologue
    have hrel0 := RowRel_reset h st Rlast hrel
    obtain ⟨hRout, hcl, hpop, hrop, hpline, hpal, hlo, hwb, hclosed⟩ := hw
    have hminEq : st.prog.enc.minInstLen = h.minInstLen := hag.2.1.symm
    have hendEq : Rlast.endSequence = st.fromRow.endSequence := hrel.endEq
    have hsz8 : addrSize ≤ 8 := by omega
    have hsz8' : h.addrSize ≤ 8 := by rw [hag.1]; exact hsz8
    have hones64 := onesSized_lt addrSize hsz8
    have hspec := readRowLoop_sim strs h hm hsz8' wbase st.prog.prevRow.addressOffset is false none
      { st with fromAddress := if st.fromRow.endSequence then 0 else st.fromAddress,
                fromRow := reset h st.fromRow }
      (reset h Rlast) st.inSeq wbase hrel0 rfl htame hlo rfl
      (by
        have := hrel0.2.1
        rw [this]; show _ + _ = wbase + _
        rw [hwb, hendEq]; exact Nat.add_comm _ _)
      hclosed hminEq
    generalize hst0 : ({ st with fromAddress := if st.fromRow.endSequence then 0 else st.fromAddress,
                                 fromRow := reset h st.fromRow } : CSt) = st0 at hconv hspec hrel0
    have e_prog : st0.prog = st.prog := by rw [← hst0]
    have e_files : st0.files = st.files := by rw [← hst0]
    cases hres : readRowLoop strs h false none st0 is with
    | err e => rw [hres] at hconv; simp at hconv
    | panic w => rw [hres] at hconv; simp at hconv
    | ok v =>
      obtain ⟨ev, st', rest⟩ := v
      rw [hres] at hconv hspec
      cases ev with
      | none =>
        simp only [CRes.ok.injEq] at hconv
        subst hconv
        simp only [RowSpec] at hspec
        obtain ⟨htr, hfr⟩ := hspec
        obtain ⟨f1, _, _, _, f5, more, f6⟩ := hfr
        refine ⟨[], more, by rw [f1, e_prog]; simp, by rw [f6, e_files], by rw [f5, e_prog], fun bout => ?_⟩
        rw [htr]; simp [traceInstrs]
      | some ev =>
        have hcons : rest.length < is.length := by
          cases ev with
          | row a r => exact Gimli.Props.C12.line_read_row_consumes strs h is false none st0 st' _ rest hres
          | endSeq a o => exact Gimli.Props.C12.line_read_row_consumes strs h is false none st0 st' _ rest hres
        cases ev with
        | row p' w =>
          simp only [RowSpec] at hspec
          obtain ⟨R1, htrIn, hR1end, hrel1, hinseq1, htame1, hline1, hlo1, hcr, hfr, hpcond0⟩ := hspec
          obtain ⟨f1, f2, f3, f4, f5, more1, f6⟩ := hfr
          have henc' : st'.prog.enc = st.prog.enc := by rw [f5, e_prog]
          have hprev' : st'.prog.prevRow = st.prog.prevRow := by rw [f2, e_prog]
          obtain ⟨hrow, hwoff, hwop, hwline, hwal, hfile⟩ := rowOf_convertRow h st' R1 w hrel1 hR1end hcr
          have hR1addr : R1.address = st'.fromRow.address + st'.fromAddress := by rw [hrel1.2.1]; rfl
          have hR1ones : R1.address ≤ onesSized addrSize := by rw [← hag.1]; exact hrel1.2.2.2
          have hmax1 : st'.prog.enc.maxOps = 1 := by rw [henc', ← hag.2.2.1]; exact hm
          -- the writer's step
          have hpcond : PendOk p' st'.fromAddress wbase st'.prog.prevRow.addressOffset (minTombstone addrSize) := by
            rw [hprev', ← hag.1]; exact hpcond0
          have hstep : StepOk st'.prog.enc addrSize st'.fromAddress (prevAfter p' st'.prog.prevRow) w := by
            have hdiv : (w.addressOffset - (prevAfter p' st'.prog.prevRow).addressOffset) / st'.prog.enc.minInstLen ≤
                w.addressOffset := Nat.le_trans (Nat.div_le_self _ _) (Nat.sub_le _ _)
            cases p' with
            | some a =>
              simp only [prevAfter]
              refine ⟨by simp, by rw [hwoff]; exact hwal, by rw [hmax1]; exact Nat.zero_lt_one, by rw [hmax1, hwop]; exact Nat.zero_lt_one,
                Nat.zero_le _, fun _ => Nat.zero_le _, ?_, by rw [hprev']; exact hpline, by rw [hwline]; exact hline1, ?_⟩
              · rw [hmax1, hwop]; simp only [prevAfter] at hdiv
                simp only [Nat.mul_one, Nat.add_zero]
                exact Nat.lt_of_le_of_lt hdiv (by rw [hwoff]; omega)
              · rw [hwoff]; omega
            | none =>
              simp only [prevAfter] at hdiv ⊢
              have hb : st'.fromAddress = wbase := hpcond
              refine ⟨by rw [hprev', henc']; exact hpal, by rw [hwoff]; exact hwal, by rw [hmax1, hprev', hpop]; exact Nat.zero_lt_one,
                by rw [hmax1, hwop]; exact Nat.zero_lt_one, ?_, fun _ => by rw [hprev', hpop]; exact Nat.zero_le _, ?_,
                by rw [hprev']; exact hpline, by rw [hwline]; exact hline1, ?_⟩
              · rw [hprev', hwoff]; omega
              · rw [hmax1, hwop]
                simp only [Nat.mul_one, Nat.add_zero]
                exact Nat.lt_of_le_of_lt hdiv (by rw [hwoff]; omega)
              · rw [hwoff]; omega
          obtain ⟨is1, happ, htr1⟩ := applyEv_row_sim m en format addrSize st' p' w wbase st'.fromAddress
            (by rw [henc']; exact henc) hasz (by rw [hprev']; exact hcl) hpcond hstep
          dsimp only at hconv
          rw [happ] at hconv
          dsimp only at hconv
          -- the rest of the program
          obtain ⟨new2, more2, g1, g2, g3, g4⟩ := ih rest _ stf R1 st'.fromAddress
            (rowOf st'.prog.enc.version st'.fromAddress w.cleared) (by omega) hconv
            (by show Agree h addrSize st'.prog.enc; rw [henc']; exact hag)
            (by show EncOk st'.prog.enc; rw [henc']; exact henc)
            (by show st'.prog.enc.version ≤ 5; rw [henc']; exact hv)
            (Or.inr hrel1) (by show Tame h (reset h R1) st'.inSeq rest; rw [hinseq1]; exact htame1)
            ⟨rfl, rfl, hwop, hwop, by show w.line < 2 ^ 63; rw [hwline]; exact hline1,
              by show w.addressOffset % st'.prog.enc.minInstLen = 0; rw [hwoff]; exact hwal,
              by rw [reset_address, hR1end]; simp only [Bool.false_eq_true, ↓reduceIte]
                 show st'.fromAddress + w.addressOffset ≤ R1.address; rw [hwoff]; omega,
              by rw [hR1end]; rfl,
              by intro hx; rw [show st'.inSeq = true from hinseq1] at hx; cases hx⟩
          dsimp only at g1 g2 g3 g4
          rw [show st'.inSeq = true from hinseq1] at g4
          refine ⟨is1 ++ new2, more1 ++ more2, ?_, ?_, ?_, fun bout => ?_⟩
          · rw [g1, f1, e_prog]; simp
          · rw [g2, f6, e_files]; simp
          · rw [g3]; exact henc'
          · rw [htrIn, hRout]
            have h1 := htr1 bout (new2.map (WInstr.toInstr st'.prog.enc.version))
            have h2 := g4 true
            rw [henc'] at h1 h2 hrow
            rw [hprev'] at h1
            rw [List.map_append, h1]
            simp only [List.map_cons]
            congr 1
            · have hfd : stf.files.getD R1.file 0 = st'.files.getD R1.file 0 := by
                rw [g2]
                simp [List.getD, List.getElem?_append_left hfile]
              simp only [obsOut, obsIn, hR1end, hfd]
              rw [hrow]
              simp [hR1end]
        | endSeq p' off =>
          simp only [RowSpec] at hspec
          obtain ⟨R1, eb, htrIn, hR1end, hfrend, hinseq1, htame1, hlo1, hR1addr, hR1ones0, hal, hfr, hpcond0⟩ := hspec
          obtain ⟨f1, f2, f3, f4, f5, more1, f6⟩ := hfr
          have henc' : st'.prog.enc = st.prog.enc := by rw [f5, e_prog]
          have hprev' : st'.prog.prevRow = st.prog.prevRow := by rw [f2, e_prog]
          have hrow' : st'.prog.row = st.prog.row := by rw [f3, e_prog]
          have hR1ones : R1.address ≤ onesSized addrSize := by rw [← hag.1]; exact hR1ones0
          have hmax1 : st'.prog.enc.maxOps = 1 := by rw [henc', ← hag.2.2.1]; exact hm
          have hminE : st'.prog.enc.minInstLen = h.minInstLen := by rw [henc']; exact hminEq
          have hpcond : PendOk p' eb wbase st'.prog.prevRow.addressOffset (minTombstone addrSize) := by
            rw [hprev', ← hag.1]; exact hpcond0
          have hendok : EndOk st'.prog.enc addrSize eb (prevAfter p' st'.prog.prevRow) st'.prog.row off := by
            have hdiv : (off - (prevAfter p' st'.prog.prevRow).addressOffset) / st'.prog.enc.minInstLen ≤ off :=
              Nat.le_trans (Nat.div_le_self _ _) (Nat.sub_le _ _)
            cases p' with
            | some a =>
              simp only [prevAfter] at hdiv ⊢
              refine ⟨by simp, by rw [hminE]; exact hal, by rw [hmax1]; exact Nat.zero_lt_one,
                by rw [hmax1, hrow', hrop]; exact Nat.zero_lt_one, Nat.zero_le _, fun _ => Nat.zero_le _, ?_, ?_⟩
              · rw [hmax1, hrow', hrop]
                simp only [Nat.mul_one, Nat.add_zero]
                exact Nat.lt_of_le_of_lt hdiv (by omega)
              · omega
            | none =>
              simp only [prevAfter] at hdiv ⊢
              have hb : eb = wbase := hpcond
              refine ⟨by rw [hprev', henc']; exact hpal, by rw [hminE]; exact hal,
                by rw [hmax1, hprev', hpop]; exact Nat.zero_lt_one,
                by rw [hmax1, hrow', hrop]; exact Nat.zero_lt_one, ?_,
                fun _ => by rw [hprev', hpop]; exact Nat.zero_le _, ?_, ?_⟩
              · rw [hprev']; omega
              · rw [hmax1, hrow', hrop]
                simp only [Nat.mul_one, Nat.add_zero]
                exact Nat.lt_of_le_of_lt hdiv (by omega)
              · omega
          obtain ⟨is1, happ, htr1⟩ := applyEv_end_sim m en format addrSize st' p' off wbase eb
            (by rw [henc']; exact henc) hasz hpcond hendok
          dsimp only at hconv
          rw [happ] at hconv
          dsimp only at hconv
          have hres1 : reset h R1 = Row.new h := by unfold reset; rw [hR1end]; rfl
          obtain ⟨new2, more2, g1, g2, g3, g4⟩ := ih rest _ stf R1 0
            (Row.new (readerParams en format addrSize st'.prog.enc)) (by omega) hconv
            (by show Agree h addrSize st'.prog.enc; rw [henc']; exact hag)
            (by show EncOk st'.prog.enc; rw [henc']; exact henc)
            (by show st'.prog.enc.version ≤ 5; rw [henc']; exact hv)
            (Or.inl ⟨hR1end, hfrend⟩)
            (by show Tame h (reset h R1) st'.inSeq rest; rw [hres1, hinseq1]; exact htame1)
            ⟨(rowOf_initial en format addrSize st'.prog.enc (by rw [henc']; exact hv)).symm, rfl, rfl, rfl,
              by show (1 : Nat) < 2 ^ 63; decide, Nat.zero_mod _, Nat.zero_le _, by rw [hR1end]; rfl,
              fun _ => ⟨rfl, rfl⟩⟩
          dsimp only at g1 g2 g3 g4
          rw [show st'.inSeq = false from hinseq1] at g4
          refine ⟨is1 ++ new2, more1 ++ more2, ?_, ?_, ?_, fun bout => ?_⟩
          · rw [g1, f1, e_prog]; simp
          · rw [g2, f6, e_files]; simp
          · rw [g3]; exact henc'
          · rw [htrIn, hRout]
            have h1 := htr1 bout (new2.map (WInstr.toInstr st'.prog.enc.version))
            have h2 := g4 false
            rw [hres1] at h2
            rw [henc'] at h1 h2
            rw [hprev'] at h1
            rw [List.map_append, h1]
            simp only [List.map_cons]
            congr 1
            simp only [obsOut, obsIn, hR1end, ↓reduceIte]
            congr 1
            omega

/-- the row-encoder state of the program is untouched -/
def PF (p p' : Prog) : Prop :=
  p'.instrs = p.instrs ∧ p'.prevRow = p.prevRow ∧ p'.row = p.row ∧ p'.inSequence = p.inSequence ∧
  p'.enc = p.enc

theorem PF.refl (p : Prog) : PF p p := ⟨rfl, rfl, rfl, rfl, rfl⟩
theorem PF.trans {a b c : Prog} (h1 : PF a b) (h2 : PF b c) : PF a c :=
  ⟨h2.1.trans h1.1, h2.2.1.trans h1.2.1, h2.2.2.1.trans h1.2.2.1, h2.2.2.2.1.trans h1.2.2.2.1,
    h2.2.2.2.2.trans h1.2.2.2.2⟩

theorem addDirectory_PF (p p' : Prog) (d : LineStr) (id : Nat) (h : addDirectory p d = .ok (p', id)) : PF p p' := by
  unfold addDirectory at h
  split at h
  · cases h
  · split at h
    · cases h
    · split at h
      · simp only [Out.ok.injEq, Prod.mk.injEq] at h; rw [← h.1]; exact PF.refl p
      · simp only [Out.ok.injEq, Prod.mk.injEq] at h; rw [← h.1]; exact ⟨rfl, rfl, rfl, rfl, rfl⟩

theorem addFile_PF (p p' : Prog) (n : LineStr) (d : Nat) (i : Option FileInfo) (id : Nat)
    (h : addFile p n d i = .ok (p', id)) : PF p p' := by
  rcases addFile_unfold _ _ _ _ _ _ h with ⟨_, hp⟩ | ⟨_, _, hp⟩ <;> rw [hp] <;> exact ⟨rfl, rfl, rfl, rfl, rfl⟩

theorem progNew_spec (m : Mode) (format : Format) (addrSize : Nat) (e : Enc) (wd : LineStr)
    (sd : Option LineStr) (sf : LineStr) (si : Option FileInfo) (p : Prog)
    (h : Prog.new m format addrSize e wd sd sf si = .ok p) :
    p.instrs = [] ∧ p.prevRow = WRow.initial e ∧ p.row = WRow.initial e ∧ p.inSequence = false ∧ p.enc = e := by
  unfold Prog.new at h
  cases hc : newCheck m e.lineBase e.lineRange with
  | ok u =>
    rw [hc] at h
    simp only [Out.bind_ok] at h
    generalize hp0 : Prog.mk format addrSize e [] [] false false false false (WRow.initial e) (WRow.initial e) [] false = p0 at h
    have q0 : p0.instrs = [] ∧ p0.prevRow = WRow.initial e ∧ p0.row = WRow.initial e ∧ p0.inSequence = false ∧
        p0.enc = e := by rw [← hp0]; exact ⟨rfl, rfl, rfl, rfl, rfl⟩
    cases h1 : addDirectory p0 wd with
    | ok v1 =>
      rw [h1] at h
      simp only [Out.bind_ok] at h
      have pf1 := addDirectory_PF _ _ _ _ h1
      by_cases hv : e.version ≥ 5
      · rw [if_pos hv] at h
        cases sd with
        | none =>
          simp only [Out.pure_eq, Out.bind_ok] at h
          cases h3 : addFile v1.1 sf v1.2 si with
          | ok v3 =>
            rw [h3] at h
            simp only [Out.bind_ok, Out.ok.injEq] at h
            subst h
            have pf := pf1.trans (addFile_PF _ _ _ _ _ _ h3)
            exact ⟨pf.1.trans q0.1, pf.2.1.trans q0.2.1, pf.2.2.1.trans q0.2.2.1, pf.2.2.2.1.trans q0.2.2.2.1, pf.2.2.2.2.trans q0.2.2.2.2⟩
          | err x => rw [h3] at h; simp at h
          | panic x => rw [h3] at h; simp at h
          | diverge => rw [h3] at h; simp at h
        | some d =>
          simp only at h
          cases h2 : addDirectory v1.1 d with
          | ok v2 =>
            rw [h2] at h
            simp only [Out.bind_ok] at h
            cases h3 : addFile v2.1 sf v2.2 si with
            | ok v3 =>
              rw [h3] at h
              simp only [Out.bind_ok, Out.pure_eq, Out.ok.injEq] at h
              subst h
              have pf := (pf1.trans (addDirectory_PF _ _ _ _ h2)).trans (addFile_PF _ _ _ _ _ _ h3)
              exact ⟨pf.1.trans q0.1, pf.2.1.trans q0.2.1, pf.2.2.1.trans q0.2.2.1, pf.2.2.2.1.trans q0.2.2.2.1, pf.2.2.2.2.trans q0.2.2.2.2⟩
            | err x => rw [h3] at h; simp at h
            | panic x => rw [h3] at h; simp at h
            | diverge => rw [h3] at h; simp at h
          | err x => rw [h2] at h; simp at h
          | panic x => rw [h2] at h; simp at h
          | diverge => rw [h2] at h; simp at h
      · rw [if_neg hv] at h
        simp only [Out.pure_eq, Out.ok.injEq] at h
        subst h
        exact ⟨pf1.1.trans q0.1, pf1.2.1.trans q0.2.1, pf1.2.2.1.trans q0.2.2.1, pf1.2.2.2.1.trans q0.2.2.2.1, pf1.2.2.2.2.trans q0.2.2.2.2⟩
    | err x => rw [h1] at h; simp at h
    | panic x => rw [h1] at h; simp at h
    | diverge => rw [h1] at h; simp at h
  | err x => rw [hc] at h; simp at h
  | panic x => rw [hc] at h; simp at h
  | diverge => rw [hc] at h; simp at h

/-- the converter's own registers and the row-encoder state of the program are untouched -/
def SF (st st' : CSt) : Prop :=
  PF st.prog st'.prog ∧ st'.fromRow = st.fromRow ∧ st'.fromAddress = st.fromAddress ∧ st'.inSeq = st.inSeq

theorem SF.refl (st : CSt) : SF st st := ⟨PF.refl _, rfl, rfl, rfl⟩
theorem SF.trans {a b c : CSt} (h1 : SF a b) (h2 : SF b c) : SF a c :=
  ⟨h1.1.trans h2.1, h2.2.1.trans h1.2.1, h2.2.2.1.trans h1.2.2.1, h2.2.2.2.trans h1.2.2.2⟩

theorem convertFiles_SF (strs : Strs) : ∀ (fs : List FileEntry) (st st' : CSt),
    convertFiles strs st fs = .ok st' → SF st st' := by
  intro fs
  induction fs with
  | nil => intro st st' h; simp only [convertFiles, CRes.ok.injEq] at h; subst h; exact SF.refl _
  | cons f fs ih =>
    intro st st' h
    rw [convertFiles] at h
    cases hc : convertFile strs st f with
    | ok st1 =>
      rw [hc] at h
      simp only [CRes.bind_ok] at h
      obtain ⟨⟨f1, f2, f3, f4, f5, _⟩, e1, e2, e3⟩ := convertFile_frame strs st st1 f hc
      exact SF.trans ⟨⟨f1, f2, f3, f4, f5⟩, e1, e2, e3⟩ (ih st1 st' h)
    | err e => rw [hc] at h; simp at h
    | panic w => rw [hc] at h; simp at h

theorem convertDirs_SF (strs : Strs) : ∀ (ds : List AttrVal) (st st' : CSt),
    convertDirs strs st ds = .ok st' → SF st st' := by
  intro ds
  induction ds with
  | nil => intro st st' h; simp only [convertDirs, CRes.ok.injEq] at h; subst h; exact SF.refl _
  | cons d ds ih =>
    intro st st' h
    rw [convertDirs] at h
    cases hc : convertString strs st.prog.enc.version st.tabs d with
    | ok v =>
      rw [hc] at h
      simp only [CRes.bind_ok] at h
      cases ha : addDirectory st.prog v.2 with
      | ok v2 =>
        rw [ha] at h
        simp only [ofWrite, CRes.bind_ok] at h
        exact SF.trans (b := { st with prog := v2.1, tabs := v.1, dirs := st.dirs ++ [v2.2] })
          ⟨addDirectory_PF st.prog v2.1 v.2 v2.2 ha, rfl, rfl, rfl⟩ (ih _ st' h)
      | err e => rw [ha] at h; simp [ofWrite] at h
      | panic w => rw [ha] at h; simp [ofWrite] at h
      | diverge => rw [ha] at h; simp [ofWrite] at h
    | err e => rw [hc] at h; simp at h
    | panic w => rw [hc] at h; simp at h

theorem convNew_spec (m : Mode) (strs : Strs) (hd : Header) (tabs : Tabs) (st : CSt)
    (h : convNew m strs hd tabs = .ok st) :
    ¬ (hd.p.lineBase > 0 ∨ hd.p.lineBase + (hd.p.lineRange : Int) ≤ 0) ∧
    st.prog.instrs = [] ∧ st.prog.prevRow = WRow.initial (encOf hd.p) ∧ st.prog.row = WRow.initial (encOf hd.p) ∧
    st.prog.inSequence = false ∧ st.prog.enc = encOf hd.p ∧ st.fromRow = Row.new hd.p ∧ st.fromAddress = 0 ∧
    st.inSeq = false := by
  unfold convNew at h
  dsimp only at h
  cases h1 : workingDir strs hd tabs with
  | err e => rw [h1] at h; simp at h
  | panic w => rw [h1] at h; simp at h
  | ok v1 =>
    rw [h1] at h
    simp only [CRes.bind_ok] at h
    cases h2 : sourceFile strs hd v1.1 with
    | err e => rw [h2] at h; simp at h
    | panic w => rw [h2] at h; simp at h
    | ok v2 =>
      rw [h2] at h
      simp only [CRes.bind_ok] at h
      by_cases hlb : hd.p.lineBase > 0 ∨ hd.p.lineBase + (hd.p.lineRange : Int) ≤ 0
      · rw [if_pos hlb] at h; cases h
      · rw [if_neg hlb] at h
        cases h3 : Prog.new m hd.p.format hd.p.addrSize (encOf hd.p) v1.2 v2.2.1 v2.2.2 none with
        | ok prog =>
          rw [h3] at h
          simp only [ofWrite, CRes.bind_ok] at h
          obtain ⟨q1, q2, q3, q4, q5⟩ := progNew_spec _ _ _ _ _ _ _ _ _ h3
          cases h4 : convertDirs strs { prog := prog, tabs := v2.1, files := if hd.p.version ≤ 4 then [0] else [], dirs := if hd.p.version ≤ 4 then [0] else [], fromRow := Row.new hd.p, fromAddress := 0, inSeq := false } hd.dirs with
          | ok st1 =>
            rw [h4] at h
            simp only [CRes.bind_ok] at h
            obtain ⟨⟨a1, a2, a3, a4, a5⟩, a6, a7, a8⟩ := convertDirs_SF strs _ _ _ h4
            obtain ⟨⟨b1, b2, b3, b4, b5⟩, b6, b7, b8⟩ := convertFiles_SF strs _ _ _ h
            exact ⟨hlb, by rw [b1]; show st1.prog.instrs = []; rw [a1]; exact q1,
              by rw [b2]; show st1.prog.prevRow = _; rw [a2]; exact q2,
              by rw [b3]; show st1.prog.row = _; rw [a3]; exact q3,
              by rw [b4]; show st1.prog.inSequence = _; rw [a4]; exact q4,
              by rw [b5]; show st1.prog.enc = _; rw [a5]; exact q5,
              by rw [b6]; show st1.fromRow = _; rw [a6],
              by rw [b7]; show st1.fromAddress = _; rw [a7],
              by rw [b8]; show st1.inSeq = _; rw [a8]⟩
          | err e => rw [h4] at h; simp at h
          | panic w => rw [h4] at h; simp at h
        | err e => rw [h3] at h; simp [ofWrite] at h
        | panic w => rw [h3] at h; simp [ofWrite] at h
        | diverge => rw [h3] at h; simp [ofWrite] at h
end Gimli.ConvLineRows
