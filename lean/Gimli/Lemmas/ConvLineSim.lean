import Gimli.Props.C12Line
/-! Helper lemmas for the line component of C12: the simulation between the reader
(`LineRows::next_row`, C04's `execute`/`traceInstrs`) and the converter (`read_row`,
`Model/ConvLineRows.lean`) — the converter's rows are the reader's rows up to the offset of the
last accepted `DW_LNE_set_address` — and its composition with the writer (C13). -/
namespace Gimli.ConvLineRows
open Gimli Gimli.Line Gimli.WLine Gimli.Props.C13

/-- the reader's row for the converter's sequence-relative row `r` when the last accepted
`DW_LNE_set_address` was `b` -/
def shift (b : Nat) (r : Row) : Row := { r with address := r.address + b }

theorem addSized_shift {a b l s x : Nat} (h : addSized (a + b) l s = some x) :
    addSized a l s = some (a + l) ∧ x = a + l + b := by
  have := addSized_some h
  unfold addSized
  have h1 : a + l < 2 ^ 64 := by
    unfold addSized at h
    split at h
    · omega
    · cases h
  have h2 : a + l ≤ onesSized s := by omega
  simp [h1, h2]
  omega

theorem applyOperationAdvance_shift (h : Params) (b : Nat) (r : Row) (adv : Nat) (hnt : r.tombstone = false)
    (R' : Row) (hx : applyOperationAdvance h (shift b r) adv = (R', none)) :
    ∃ r', applyOperationAdvance h r adv = (r', none) ∧ R' = shift b r' := by
  unfold applyOperationAdvance at hx ⊢
  have hnt' : (shift b r).tombstone = false := hnt
  rw [if_neg (by rw [hnt']; decide)] at hx
  rw [if_neg (by rw [hnt]; decide)]
  simp only at hx ⊢
  have hop : (shift b r).opIndex = r.opIndex := rfl
  have had : (shift b r).address = r.address + b := rfl
  rw [hop, had] at hx
  cases ha : addSized (r.address + b) (operationPointer h r.opIndex adv).2 h.addrSize with
  | none => rw [ha] at hx; simp at hx
  | some A =>
    rw [ha] at hx
    obtain ⟨h1, h2⟩ := addSized_shift ha
    rw [h1]
    simp only [Prod.mk.injEq, and_true] at hx
    refine ⟨_, rfl, ?_⟩
    rw [← hx, h2]
    simp [shift]

theorem applyLineAdvance_shift (b : Nat) (r : Row) (i : Int) :
    applyLineAdvance (shift b r) i = shift b (applyLineAdvance r i) := by
  unfold applyLineAdvance shift
  by_cases h1 : i < 0
  · by_cases h2 : i.natAbs ≤ r.line
    · simp [h1, h2]
    · simp [h1, h2]
  · simp [h1]

def isSetAddress : Instr → Bool
  | .setAddress _ => true
  | _ => false

/-- **`execute` commutes with the address shift** (every instruction but `DW_LNE_set_address`):
if the reader's step on the absolute row does not fail, the converter's step on the relative row
is the same step -/
theorem execute_shift (h : Params) (b : Nat) (r : Row) (ins : Instr) (hnt : r.tombstone = false)
    (hins : isSetAddress ins = false) (R' : Row) (x : Exec)
    (hx : execute h (shift b r) ins = (R', x)) (hne : ∀ e, x ≠ .err e) :
    ∃ r', execute h r ins = (r', x) ∧ R' = shift b r' := by
  cases ins with
  | setAddress a => simp [isSetAddress] at hins
  | special op =>
    simp only [execute, execSpecial] at hx ⊢
    rw [applyLineAdvance_shift] at hx
    cases hap : applyOperationAdvance h (shift b (applyLineAdvance r (h.lineBase + ↑(adjustOpcode h op % h.lineRange))))
        (adjustOpcode h op / h.lineRange) with
    | mk R1 e =>
      rw [hap] at hx
      cases e with
      | some e => simp [Exec.ofAdv] at hx; exact absurd hx.2.symm (hne e)
      | none =>
        have hnt2 : (applyLineAdvance r (h.lineBase + ↑(adjustOpcode h op % h.lineRange))).tombstone = false := by
          rw [(applyLineAdvance_inv r _).2.2.1]; exact hnt
        obtain ⟨r', hr', hR⟩ := applyOperationAdvance_shift h b _ _ hnt2 R1 hap
        rw [hr']
        simp only [Exec.ofAdv, Prod.mk.injEq] at hx ⊢
        exact ⟨r', ⟨rfl, hx.2⟩, by rw [← hx.1, hR]⟩
  | advancePc n =>
    simp only [execute] at hx ⊢
    cases hap : applyOperationAdvance h (shift b r) n with
    | mk R1 e =>
      rw [hap] at hx
      cases e with
      | some e => simp [Exec.ofAdv] at hx; exact absurd hx.2.symm (hne e)
      | none =>
        obtain ⟨r', hr', hR⟩ := applyOperationAdvance_shift h b _ _ hnt R1 hap
        rw [hr']
        simp only [Exec.ofAdv, Prod.mk.injEq] at hx ⊢
        exact ⟨r', ⟨rfl, hx.2⟩, by rw [← hx.1, hR]⟩
  | constAddPc =>
    simp only [execute] at hx ⊢
    cases hap : applyOperationAdvance h (shift b r) (adjustOpcode h 255 / h.lineRange) with
    | mk R1 e =>
      rw [hap] at hx
      cases e with
      | some e => simp [Exec.ofAdv] at hx; exact absurd hx.2.symm (hne e)
      | none =>
        obtain ⟨r', hr', hR⟩ := applyOperationAdvance_shift h b _ _ hnt R1 hap
        rw [hr']
        simp only [Exec.ofAdv, Prod.mk.injEq] at hx ⊢
        exact ⟨r', ⟨rfl, hx.2⟩, by rw [← hx.1, hR]⟩
  | fixedAddPc n =>
    simp only [execute] at hx ⊢
    have hnt' : (shift b r).tombstone = false := hnt
    rw [if_neg (by rw [hnt']; decide)] at hx
    rw [if_neg (by rw [hnt]; decide)]
    have had : (shift b r).address = r.address + b := rfl
    rw [had] at hx
    cases ha : addSized (r.address + b) n h.addrSize with
    | none => rw [ha] at hx; simp at hx; exact absurd hx.2.symm (hne _)
    | some A =>
      rw [ha] at hx
      obtain ⟨h1, h2⟩ := addSized_shift ha
      rw [h1]
      simp only [Prod.mk.injEq] at hx ⊢
      refine ⟨_, ⟨rfl, hx.2⟩, ?_⟩
      rw [← hx.1, h2]
      simp [shift]
  | advanceLine i =>
    simp only [execute, Prod.mk.injEq] at hx ⊢
    exact ⟨_, ⟨rfl, hx.2⟩, by rw [← hx.1, applyLineAdvance_shift]⟩
  | _ =>
    simp only [execute, Prod.mk.injEq] at hx ⊢
    exact ⟨_, ⟨rfl, hx.2⟩, by rw [← hx.1] <;> first | rfl | simp [shift]⟩

theorem execute_tombstone (h : Params) (r : Row) (ins : Instr) (hins : isSetAddress ins = false) :
    (execute h r ins).1.tombstone = r.tombstone := by
  cases ins with
  | setAddress a => simp [isSetAddress] at hins
  | special op =>
    simp only [execute]
    have := (execSpecial_inv h r op).2.2.2
    exact this
  | advancePc n => simp only [execute]; exact (applyOperationAdvance_inv h r n).2.2.2
  | constAddPc => simp only [execute]; exact (applyOperationAdvance_inv h r _).2.2.2
  | advanceLine i => simp only [execute]; exact (applyLineAdvance_inv r i).2.2.1
  | fixedAddPc n =>
    simp only [execute]
    split
    · rfl
    · split <;> rfl
  | _ => rfl

theorem operationPointer_one (h : Params) (hm : h.maxOps = 1) (op adv : Nat) :
    (operationPointer h op adv).1 = 0 := by
  unfold operationPointer; simp [hm]

/-- without VLIW (`maximum_operations_per_instruction = 1`) the op_index register stays 0 -/
theorem execute_opIndex (h : Params) (hm : h.maxOps = 1) (r : Row) (ins : Instr) (h0 : r.opIndex = 0) :
    (execute h r ins).1.opIndex = 0 := by
  have hadv : ∀ (r : Row) (adv : Nat), r.opIndex = 0 → (applyOperationAdvance h r adv).1.opIndex = 0 := by
    intro r adv h0
    unfold applyOperationAdvance
    split
    · exact h0
    · simp only
      split <;> simp [operationPointer_one h hm]
  cases ins with
  | special op =>
    simp only [execute, execSpecial]
    exact hadv _ _ (by rw [(applyLineAdvance_inv r _).2.2.2]; exact h0)
  | advancePc n => simp only [execute]; exact hadv r n h0
  | constAddPc => simp only [execute]; exact hadv r _ h0
  | advanceLine i => simp only [execute]; rw [(applyLineAdvance_inv r i).2.2.2]; exact h0
  | fixedAddPc n =>
    simp only [execute]
    split
    · exact h0
    · split
      · rfl
      · exact h0
  | setAddress a =>
    simp only [execute]
    split
    · exact h0
    · rfl
  | _ => exact h0

def setAddrVal : Instr → Option Nat
  | .setAddress a => some a
  | _ => none

def isDefineFile : Instr → Bool
  | .defineFile _ => true
  | _ => false

/-- **what the rows theorem assumes about the source program**, from reader registers `R`: the
reader runs it without an error; every `DW_LNE_set_address` is accepted (not below the current
address, below the tombstone values of the address size) — no tombstones; every row's line number
is below 2^63 (finding C13-3 beyond) -/
def Tame (h : Params) : Row → List Instr → Prop
  | _, [] => True
  | R, ins :: is =>
    (∀ a, setAddrVal ins = some a → R.address ≤ a ∧ a < minTombstone h.addrSize) ∧
    match execute h R ins with
    | (_, .err _) => False
    | (R', .noEmit) => Tame h R' is
    | (R', .emit) => R'.line < 2 ^ 63 ∧ Tame h (reset h R') is

/-- `read_row` touches only the reader-side registers, the string tables, the index mappings
(append only) and the file table of the program being built -/
def Frame (st st' : CSt) : Prop :=
  st'.prog.instrs = st.prog.instrs ∧ st'.prog.prevRow = st.prog.prevRow ∧ st'.prog.row = st.prog.row ∧
  st'.prog.inSequence = st.prog.inSequence ∧ st'.prog.enc = st.prog.enc ∧ ∃ more, st'.files = st.files ++ more

theorem Frame.refl (st : CSt) : Frame st st := ⟨rfl, rfl, rfl, rfl, rfl, [], by simp⟩

theorem Frame.trans {a b c : CSt} (h1 : Frame a b) (h2 : Frame b c) : Frame a c := by
  obtain ⟨a1, a2, a3, a4, a5, m1, a6⟩ := h1
  obtain ⟨b1, b2, b3, b4, b5, m2, b6⟩ := h2
  exact ⟨b1.trans a1, b2.trans a2, b3.trans a3, b4.trans a4, b5.trans a5, m1 ++ m2, by rw [b6, a6]; simp⟩

theorem convertFile_frame (strs : Strs) (st st' : CSt) (f : FileEntry) (h : convertFile strs st f = .ok st') :
    Frame st st' ∧ st'.fromRow = st.fromRow ∧ st'.fromAddress = st.fromAddress ∧ st'.inSeq = st.inSeq := by
  unfold convertFile at h
  dsimp only at h
  cases hn : convertString strs st.prog.enc.version st.tabs f.path with
  | err e => rw [hn] at h; simp at h
  | panic w => rw [hn] at h; simp at h
  | ok v1 =>
    rw [hn] at h
    simp only [CRes.bind_ok] at h
    split at h
    · cases h
    split at h
    · cases h
    have fin : ∀ (tabs2 : Tabs) (source : Option LineStr),
        (do let __x_1 ← ofWrite (addFile st.prog v1.2 (st.dirs.getD f.dirIndex 0)
                (some { timestamp := f.timestamp, size := f.size, md5 := f.md5, source }))
            pure ({ prog := __x_1.1, tabs := tabs2, files := st.files ++ [__x_1.2], dirs := st.dirs,
                    fromRow := st.fromRow, fromAddress := st.fromAddress, inSeq := st.inSeq } : CSt)) = CRes.ok st' →
        Frame st st' ∧ st'.fromRow = st.fromRow ∧ st'.fromAddress = st.fromAddress ∧ st'.inSeq = st.inSeq := by
      intro tabs2 source h
      cases haf : addFile st.prog v1.2 (st.dirs.getD f.dirIndex 0)
          (some { timestamp := f.timestamp, size := f.size, md5 := f.md5, source }) with
      | ok v3 =>
        rw [haf] at h
        simp only [ofWrite, CRes.bind_ok, CRes.pure_eq, CRes.ok.injEq] at h
        subst h
        have hp : v3.1.instrs = st.prog.instrs ∧ v3.1.prevRow = st.prog.prevRow ∧ v3.1.row = st.prog.row ∧
            v3.1.inSequence = st.prog.inSequence ∧ v3.1.enc = st.prog.enc := by
          rcases addFile_unfold _ _ _ _ _ _ haf with ⟨_, hp⟩ | ⟨_, _, hp⟩ <;> rw [hp] <;> exact ⟨rfl, rfl, rfl, rfl, rfl⟩
        exact ⟨⟨hp.1, hp.2.1, hp.2.2.1, hp.2.2.2.1, hp.2.2.2.2, [v3.2], rfl⟩, rfl, rfl, rfl⟩
      | err e => rw [haf] at h; simp [ofWrite] at h
      | panic w => rw [haf] at h; simp [ofWrite] at h
      | diverge => rw [haf] at h; simp [ofWrite] at h
    cases hsrc : f.source with
    | none =>
      rw [hsrc] at h
      simp only [CRes.pure_eq, CRes.bind_ok] at h
      exact fin _ _ h
    | some s =>
      rw [hsrc] at h
      dsimp only at h
      cases hs : convertString strs st.prog.enc.version v1.1 s with
      | err e => rw [hs] at h; simp at h
      | panic w => rw [hs] at h; simp at h
      | ok v2 =>
        rw [hs] at h
        simp only [CRes.bind_ok, CRes.pure_eq] at h
        exact fin _ _ h

theorem readRowLoop_other (strs : Strs) (h : Params) (tomb : Bool) (p : Option Nat) (st : CSt)
    (ins : Instr) (rest : List Instr) (h1 : setAddrVal ins = none) (h2 : isDefineFile ins = false) :
    readRowLoop strs h tomb p st (ins :: rest) =
      match execute h st.fromRow ins with
      | (_, .err e) => .err (.read e)
      | (row, .noEmit) => readRowLoop strs h tomb p { st with fromRow := row } rest
      | (row, .emit) =>
        if tomb && !(row.endSequence && st.inSeq) then
          if row.endSequence then
            readRowLoop strs h false none { st with fromRow := reset h row, fromAddress := 0 } rest
          else readRowLoop strs h tomb p { st with fromRow := reset h row } rest
        else if row.endSequence then
          if row.address % h.minInstLen ≠ 0 then .err .unsupportedLineInstruction
          else .ok (some (.endSeq p row.address), { st with fromRow := row, inSeq := false }, rest)
        else
          let st := { st with fromRow := row, inSeq := true }
          match convertRow st with
          | .ok r => .ok (some (.row p r), st, rest)
          | .err e => .err e
          | .panic w => .panic w := by
  cases ins
  case setAddress a => simp [setAddrVal] at h1
  case defineFile f => simp [isDefineFile] at h2
  all_goals rfl

/-- the converter's registers and the reader's: same row up to the offset `fromAddress` -/
def RowRel (h : Params) (st : CSt) (R : Row) : Prop :=
  st.fromRow.tombstone = false ∧ R = shift st.fromAddress st.fromRow ∧ st.fromRow.opIndex = 0 ∧
  R.address ≤ onesSized h.addrSize

/-- what `read_row` returned, related to the reader's next row -/
def RowSpec (h : Params) (st : CSt) (R : Row) (b : Bool) (is : List Instr) (lo : Nat) (p : Option Nat) :
    CRes (Option RowEv × CSt × List Instr) → Prop
  | .ok (none, st', _) => traceInstrs h R b is = [] ∧ Frame st st'
  | .ok (some (.row p' w), st', rest) =>
    ∃ R1, traceInstrs h R b is = Ev.row R1 :: traceInstrs h (reset h R1) true rest ∧
      R1.endSequence = false ∧ RowRel h st' R1 ∧ Tame h (reset h R1) rest ∧ R1.line < 2 ^ 63 ∧
      lo ≤ R1.address ∧ convertRow st' = .ok w ∧ Frame st st' ∧
      (∀ a, p' = some a → a = st'.fromAddress ∧ lo ≤ a ∧ a < minTombstone h.addrSize) ∧
      (p' = none → p = none ∧ st'.fromAddress = st.fromAddress)
  | .ok (some (.endSeq p' off), st', rest) =>
    ∃ R1, traceInstrs h R b is = Ev.row R1 :: traceInstrs h (Row.new h) false rest ∧
      R1.endSequence = true ∧ RowRel h st' R1 ∧ Tame h (Row.new h) rest ∧
      lo ≤ R1.address ∧ off = st'.fromRow.address ∧ off % h.minInstLen = 0 ∧ Frame st st' ∧
      (∀ a, p' = some a → a = st'.fromAddress ∧ lo ≤ a ∧ a < minTombstone h.addrSize) ∧
      (p' = none → p = none ∧ st'.fromAddress = st.fromAddress)
  | .err _ => True
  | .panic _ => True

theorem setAddrVal_some {ins : Instr} {a : Nat} (h : setAddrVal ins = some a) : ins = .setAddress a := by
  cases ins <;> simp [setAddrVal] at h
  subst h; rfl

theorem isDefineFile_true {ins : Instr} (h : isDefineFile ins = true) : ∃ f, ins = .defineFile f := by
  cases ins <;> simp [isDefineFile] at h
  exact ⟨_, rfl⟩

theorem RowSpec.lift {h : Params} {st st1 : CSt} {R R1 : Row} {b : Bool} {is : List Instr} {ins : Instr}
    {lo : Nat} {p p1 : Option Nat} {res : CRes (Option RowEv × CSt × List Instr)}
    (htr : traceInstrs h R b (ins :: is) = traceInstrs h R1 b is) (hf : Frame st st1)
    (hp : p1 = none → p = none ∧ st1.fromAddress = st.fromAddress)
    (hs : RowSpec h st1 R1 b is lo p1 res) : RowSpec h st R b (ins :: is) lo p res := by
  cases res with
  | err e => trivial
  | panic w => trivial
  | ok v =>
    obtain ⟨ev, st', rest⟩ := v
    cases ev with
    | none => simp only [RowSpec] at hs ⊢; rw [htr]; exact ⟨hs.1, hf.trans hs.2⟩
    | some ev =>
      cases ev with
      | row p' w =>
        simp only [RowSpec] at hs ⊢
        obtain ⟨Rr, h1, h2, h3, h4, h5, h6, h7, h8, h9, h10⟩ := hs
        refine ⟨Rr, by rw [htr]; exact h1, h2, h3, h4, h5, h6, h7, hf.trans h8, h9, fun hn => ?_⟩
        obtain ⟨e1, e2⟩ := h10 hn
        obtain ⟨e3, e4⟩ := hp e1
        exact ⟨e3, e2.trans e4⟩
      | endSeq p' off =>
        simp only [RowSpec] at hs ⊢
        obtain ⟨Rr, h1, h2, h3, h4, h5, h6, h7, h8, h9, h10⟩ := hs
        refine ⟨Rr, by rw [htr]; exact h1, h2, h3, h4, h5, h6, h7, hf.trans h8, h9, fun hn => ?_⟩
        obtain ⟨e1, e2⟩ := h10 hn
        obtain ⟨e3, e4⟩ := hp e1
        exact ⟨e3, e2.trans e4⟩

theorem minTombstone_lt (size : Nat) : minTombstone size < 2 ^ 64 := by
  unfold minTombstone
  by_cases hs : 8 * size < 64
  · have : 2 ^ (8 * size) ≤ 2 ^ 64 := Nat.pow_le_pow_right (by decide) (by omega)
    have := Nat.mod_lt (2 ^ 64 - 2) (Nat.two_pow_pos (8 * size))
    omega
  · have : 2 ^ 64 ≤ 2 ^ (8 * size) := Nat.pow_le_pow_right (by decide) (by omega)
    have : (2 ^ 64 - 2) % 2 ^ (8 * size) = 2 ^ 64 - 2 := Nat.mod_eq_of_lt (by omega)
    omega

theorem readRowLoop_sim (strs : Strs) (h : Params) (hm : h.maxOps = 1) :
    ∀ (is : List Instr) (p : Option Nat) (st : CSt) (R : Row) (b : Bool) (lo : Nat),
    RowRel h st R → Tame h R is → lo ≤ R.address →
    (∀ a, p = some a → a = st.fromAddress ∧ lo ≤ a ∧ a < minTombstone h.addrSize) →
    st.prog.enc.minInstLen = h.minInstLen →
    RowSpec h st R b is lo p (readRowLoop strs h false p st is) := by
  intro is
  induction is with
  | nil =>
    intro p st R b lo _ _ _ _ _
    simp [readRowLoop, RowSpec, traceInstrs, Frame.refl]
  | cons ins is ih =>
    intro p st R b lo hrel htame hlo hp hmin
    obtain ⟨hnt, hR, hop, hones⟩ := hrel
    rw [Tame] at htame
    obtain ⟨hsa, hex⟩ := htame
    cases hv : setAddrVal ins with
    | some a =>
      -- DW_LNE_set_address, accepted
      have hins := setAddrVal_some hv
      subst hins
      obtain ⟨hge, hlt⟩ := hsa a rfl
      have hlt64 := minTombstone_lt h.addrSize
      have hRa : R.address = st.fromRow.address + st.fromAddress := by rw [hR]; rfl
      have hfa : (st.fromAddress + st.fromRow.address) % 2 ^ 64 = R.address := by
        rw [hRa, Nat.add_comm]; apply Nat.mod_eq_of_lt; omega
      have hexec : execute h R (.setAddress a) =
          ({ R with tombstone := false, address := a, opIndex := 0 }, .noEmit) := by
        simp only [execute]
        have : (decide (a < R.address) || decide (a ≥ minTombstone h.addrSize)) = false := by
          simp; omega
        rw [this]; rfl
      rw [hexec] at hex
      rw [readRowLoop]
      simp only [Bool.false_eq_true, ↓reduceIte, hfa]
      have htomb : (decide (a < R.address) || decide (a ≥ minTombstone h.addrSize)) = false := by
        simp; omega
      rw [htomb]
      simp only [Bool.false_eq_true, ↓reduceIte]
      refine RowSpec.lift (R1 := { R with tombstone := false, address := a, opIndex := 0 }) ?_ ?_ ?_
        (ih (some a) _ _ b lo ?_ hex ?_ ?_ hmin)
      · rw [traceInstrs, hexec]
      · exact ⟨rfl, rfl, rfl, rfl, rfl, [], by simp⟩
      · intro hn; cases hn
      · refine ⟨rfl, ?_, rfl, ?_⟩
        · rw [hR]; simp [shift]
        · show a ≤ onesSized h.addrSize
          have := minTombstone_le h.addrSize; omega
      · show lo ≤ a; omega
      · intro a' ha'; cases ha'; exact ⟨rfl, by omega, hlt⟩
    | none =>
      by_cases hdf : isDefineFile ins = true
      · -- DW_LNE_define_file
        obtain ⟨f, hf⟩ := isDefineFile_true hdf
        subst hf
        have hexec : execute h R (.defineFile f) = (R, .noEmit) := rfl
        rw [hexec] at hex
        rw [readRowLoop]
        cases hc : convertFile strs st f with
        | err e => simp [RowSpec]
        | panic w => simp [RowSpec]
        | ok st1 =>
          simp only
          obtain ⟨hfr, e1, e2, _⟩ := convertFile_frame strs st st1 f hc
          refine RowSpec.lift (R1 := R) ?_ hfr (fun hn => ⟨hn, e2⟩)
            (ih p st1 R b lo ⟨by rw [e1]; exact hnt, by rw [e1, e2]; exact hR, by rw [e1]; exact hop, hones⟩ hex hlo
              (by rw [e2]; exact hp) (by rw [hfr.2.2.2.2.1]; exact hmin))
          · rw [traceInstrs, hexec]
      · -- every other instruction: the same `execute` step on both sides
        have hdf' : isDefineFile ins = false := by simpa using hdf
        have hsa' : isSetAddress ins = false := by
          cases ins <;> first | rfl | (simp [setAddrVal] at hv)
        rw [readRowLoop_other strs h false p st ins is hv hdf']
        cases hE : execute h R ins with
        | mk R' x =>
          rw [hE] at hex
          cases x with
          | err e => exact absurd hex (by simp)
          | noEmit =>
            simp only at hex
            obtain ⟨r', hr', hRr⟩ := execute_shift h st.fromAddress st.fromRow ins hnt hsa' R' .noEmit
              (by rw [← hR]; exact hE) (by intro e; simp)
            rw [hr']
            simp only
            have hnt' : r'.tombstone = false := by
              have := execute_tombstone h st.fromRow ins hsa'
              rw [hr'] at this; rw [this]; exact hnt
            have hop' : r'.opIndex = 0 := by
              have := execute_opIndex h hm st.fromRow ins hop
              rw [hr'] at this; exact this
            have hmono : R.address ≤ R'.address := by
              have := (execute_inv h R ins).1
              rw [hE] at this; exact this
            have hones' : R'.address ≤ onesSized h.addrSize := by
              have := (execute_inv h R ins).2.1 hones
              rw [hE] at this; exact this
            refine RowSpec.lift (R1 := R') ?_ ⟨rfl, rfl, rfl, rfl, rfl, [], by simp⟩ (fun hn => ⟨hn, rfl⟩)
              (ih p _ R' b lo ⟨hnt', hRr, hop', hones'⟩ hex (by omega) hp hmin)
            rw [traceInstrs, hE]
          | emit =>
            simp only at hex
            obtain ⟨hline, htame'⟩ := hex
            obtain ⟨r', hr', hRr⟩ := execute_shift h st.fromAddress st.fromRow ins hnt hsa' R' .emit
              (by rw [← hR]; exact hE) (by intro e; simp)
            rw [hr']
            simp only [Bool.false_and, Bool.false_eq_true, ↓reduceIte]
            have hnt' : r'.tombstone = false := by
              have := execute_tombstone h st.fromRow ins hsa'
              rw [hr'] at this; rw [this]; exact hnt
            have hntR : R'.tombstone = false := by rw [hRr]; exact hnt'
            have hop' : r'.opIndex = 0 := by
              have := execute_opIndex h hm st.fromRow ins hop
              rw [hr'] at this; exact this
            have hmono : R.address ≤ R'.address := by
              have := (execute_inv h R ins).1
              rw [hE] at this; exact this
            have hones' : R'.address ≤ onesSized h.addrSize := by
              have := (execute_inv h R ins).2.1 hones
              rw [hE] at this; exact this
            have hend : R'.endSequence = r'.endSequence := by rw [hRr]; rfl
            have htr : traceInstrs h R b (ins :: is) =
                Ev.row R' :: traceInstrs h (reset h R') (!R'.endSequence) is := by
              rw [traceInstrs, hE]
              simp [skipRow, hntR]
            by_cases he : r'.endSequence = true
            · rw [if_pos he]
              by_cases hal : r'.address % h.minInstLen ≠ 0
              · rw [if_pos hal]; trivial
              · rw [if_neg hal]
                simp only [RowSpec]
                have hres : reset h R' = Row.new h := by
                  unfold reset; rw [hend, he]; rfl
                refine ⟨R', ?_, by rw [hend]; exact he, ⟨hnt', hRr, hop', hones'⟩, by rw [← hres]; exact htame', by omega,
                  by first | rfl | trivial, by omega, ⟨rfl, rfl, rfl, rfl, rfl, [], by simp⟩, hp,
                  fun hn => ⟨hn, by first | rfl | trivial⟩⟩
                rw [htr, hres, hend, he]; rfl
            · rw [if_neg he]
              cases hc : convertRow { st with fromRow := r', inSeq := true } with
              | err e => trivial
              | panic w => trivial
              | ok w =>
                simp only [RowSpec]
                have he' : r'.endSequence = false := by simpa using he
                refine ⟨R', ?_, by rw [hend]; exact he', ⟨hnt', hRr, hop', hones'⟩, htame', hline, by omega, hc,
                  ⟨rfl, rfl, rfl, rfl, rfl, [], by simp⟩, hp, fun hn => ⟨hn, by first | rfl | trivial⟩⟩
                rw [htr, hend, he']; rfl

theorem RowRel_reset (h : Params) (st : CSt) (R : Row) (hr : RowRel h st R) :
    RowRel h { st with fromAddress := if st.fromRow.endSequence then 0 else st.fromAddress,
                       fromRow := reset h st.fromRow } (reset h R) := by
  obtain ⟨hnt, hR, hop, hones⟩ := hr
  have hend : R.endSequence = st.fromRow.endSequence := by rw [hR]; rfl
  by_cases he : st.fromRow.endSequence = true
  · have e1 : reset h R = Row.new h := by unfold reset; rw [hend, he]; rfl
    have e2 : reset h st.fromRow = Row.new h := by unfold reset; rw [he]; rfl
    rw [e1, e2]
    simp only [he, ↓reduceIte]
    exact ⟨rfl, by simp [shift, Row.new], rfl, by simp [Row.new]⟩
  · have he' : st.fromRow.endSequence = false := by simpa using he
    have hendR : R.endSequence = false := by rw [hend, he']
    refine ⟨?_, ?_, ?_, ?_⟩
    · simp [reset, he', hnt]
    · rw [hR]; simp [reset, shift, he']
    · simp [reset, he', hop]
    · simp [reset, hendR]; exact hones

/-- what a caller compares between the source rows and the rows read back: every register of a
row; of an `end_sequence` row — which only says where the sequence ends — its address -/
inductive Obs where
  | row (r : Row)
  | endAt (address : Nat)
  | other
  deriving DecidableEq

/-- a source row, its file register mapped through the index mapping `fm` -/
def obsIn (fm : Nat → Nat) : Ev → Obs
  | .row r => if r.endSequence then .endAt r.address else .row { r with file := fm r.file }
  | _ => .other

/-- a row read back from the converted program -/
def obsOut : Ev → Obs
  | .row r => if r.endSequence then .endAt r.address else .row r
  | _ => .other

/-- the converted row, read back at base `fa`, is the source row with the file mapped -/
theorem rowOf_convertRow (h : Params) (st : CSt) (R : Row) (w : WRow) (hr : RowRel h st R)
    (hend : R.endSequence = false) (hc : convertRow st = .ok w) :
    rowOf st.prog.enc.version st.fromAddress w =
      { R with file := fileRaw st.prog.enc.version (st.files.getD R.file 0) } ∧
    w.addressOffset = st.fromRow.address ∧ w.opIndex = 0 ∧ w.line = R.line ∧
    st.fromRow.address % st.prog.enc.minInstLen = 0 ∧ R.file < st.files.length := by
  obtain ⟨hnt, hR, hop, _⟩ := hr
  unfold convertRow at hc
  dsimp only at hc
  split at hc
  · cases hc
  · split at hc
    · cases hc
    · split at hc
      · cases hc
      · rename_i h1 h2 h3
        simp only [CRes.ok.injEq] at hc
        subst hc
        have hend' : st.fromRow.endSequence = false := by rw [hR] at hend; exact hend
        refine ⟨?_, rfl, hop, by rw [hR]; rfl, by omega, by rw [hR]; show st.fromRow.file < _; omega⟩
        rw [hR]
        simp [rowOf, shift, hnt, hend', Nat.add_comm]

/-- the previous row the writer compares with, after an optional `set_address` -/
def prevAfter (p' : Option Nat) (prev : WRow) : WRow :=
  match p' with
  | some _ => { prev with addressOffset := 0, opIndex := 0 }
  | none => prev

/-- the pending `set_address` (if any) is the new base, not below the writer's previous row and
not a tombstone; without one the base is unchanged -/
def PendOk (p' : Option Nat) (base wbase prevOff mt : Nat) : Prop :=
  match p' with
  | some a => a = base ∧ wbase + prevOff ≤ a ∧ a < mt
  | none => base = wbase

/-- the driver's step for a row event, read back -/
theorem applyEv_row_sim (m : Mode) (en : Endian) (format : Format) (addrSize : Nat) (st' : CSt)
    (p' : Option Nat) (w : WRow) (wbase base : Nat)
    (henc : EncOk st'.prog.enc) (hasz : addrSize = 1 ∨ addrSize = 2 ∨ addrSize = 4 ∨ addrSize = 8)
    (hcl : st'.prog.prevRow.cleared = st'.prog.prevRow)
    (hp : PendOk p' base wbase st'.prog.prevRow.addressOffset (minTombstone addrSize))
    (hstep : StepOk st'.prog.enc addrSize base (prevAfter p' st'.prog.prevRow) w) :
    ∃ is1, applyEv m st' (.row p' w) =
        .ok { st' with prog := { st'.prog with inSequence := true, instrs := st'.prog.instrs ++ is1,
                                               prevRow := w.cleared, row := w.cleared } } ∧
      ∀ (inSeq : Bool) (rest : List Instr),
        traceInstrs (readerParams en format addrSize st'.prog.enc)
            (rowOf st'.prog.enc.version wbase st'.prog.prevRow) inSeq
            (is1.map (WInstr.toInstr st'.prog.enc.version) ++ rest) =
          Ev.row (rowOf st'.prog.enc.version base w) ::
            traceInstrs (readerParams en format addrSize st'.prog.enc)
              (rowOf st'.prog.enc.version base w.cleared) true rest := by
  cases p' with
  | none =>
    simp only [PendOk] at hp
    subst hp
    obtain ⟨is1, hg, htr⟩ := generate_row_correct m en format addrSize st'.prog.enc base st'.prog.prevRow w
      henc hasz hcl hstep
    refine ⟨is1, ?_, htr⟩
    simp only [applyEv, Prog.generateRow, hg, ofWrite, Out.bind_ok, Out.pure_eq, CRes.bind_ok, CRes.pure_eq]
  | some a =>
    obtain ⟨ha, hlo, hlt⟩ := hp
    subst ha
    have hcl' : (prevAfter (some a) st'.prog.prevRow).cleared = prevAfter (some a) st'.prog.prevRow := by
      simp only [prevAfter]
      rw [← hcl]; rfl
    obtain ⟨is1, hg, htr⟩ := generate_row_correct m en format addrSize st'.prog.enc a
      (prevAfter (some a) st'.prog.prevRow) w henc hasz hcl' hstep
    refine ⟨WInstr.setAddress (some a) :: is1, ?_, ?_⟩
    · simp only [applyEv, Prog.generateRow, Prog.setAddress, prevAfter] at hg ⊢
      simp only [hg, ofWrite, Out.bind_ok, Out.pure_eq, CRes.bind_ok, CRes.pure_eq, List.append_assoc,
        List.cons_append, List.nil_append]
    · intro inSeq rest
      obtain ⟨_, _, _, _, hs⟩ := set_address_correct en format addrSize st'.prog wbase a inSeq
        (is1.map (WInstr.toInstr st'.prog.enc.version) ++ rest) hlo hlt
      simp only [List.map_cons, List.cons_append]
      rw [hs]
      exact htr inSeq rest

/-- the driver's step for the end of a sequence, read back -/
theorem applyEv_end_sim (m : Mode) (en : Endian) (format : Format) (addrSize : Nat) (st' : CSt)
    (p' : Option Nat) (off : Nat) (wbase base : Nat)
    (henc : EncOk st'.prog.enc) (hasz : addrSize = 1 ∨ addrSize = 2 ∨ addrSize = 4 ∨ addrSize = 8)
    (hp : PendOk p' base wbase st'.prog.prevRow.addressOffset (minTombstone addrSize))
    (hend : EndOk st'.prog.enc addrSize base (prevAfter p' st'.prog.prevRow) st'.prog.row off) :
    ∃ is1, applyEv m st' (.endSeq p' off) =
        .ok { st' with prog := { st'.prog with inSequence := false, instrs := st'.prog.instrs ++ is1,
                                               prevRow := WRow.initial st'.prog.enc,
                                               row := WRow.initial st'.prog.enc } } ∧
      ∀ (inSeq : Bool) (rest : List Instr),
        traceInstrs (readerParams en format addrSize st'.prog.enc)
            (rowOf st'.prog.enc.version wbase st'.prog.prevRow) inSeq
            (is1.map (WInstr.toInstr st'.prog.enc.version) ++ rest) =
          Ev.row { rowOf st'.prog.enc.version base (prevAfter p' st'.prog.prevRow) with
                     address := base + off, opIndex := st'.prog.row.opIndex, endSequence := true } ::
            traceInstrs (readerParams en format addrSize st'.prog.enc)
              (Row.new (readerParams en format addrSize st'.prog.enc)) false rest := by
  obtain ⟨_, _, _, _, hmin, hmax⟩ := henc
  cases p' with
  | none =>
    simp only [PendOk] at hp
    subst hp
    obtain ⟨is1, hg, htr⟩ := end_sequence_correct m en format addrSize st'.prog.enc base st'.prog.prevRow
      st'.prog.row off hmin hmax hasz hend
    refine ⟨is1, ?_, htr⟩
    simp only [applyEv, Prog.endSequence, hg, ofWrite, Out.bind_ok, Out.pure_eq, CRes.bind_ok, CRes.pure_eq]
  | some a =>
    obtain ⟨ha, hlo, hlt⟩ := hp
    subst ha
    obtain ⟨is1, hg, htr⟩ := end_sequence_correct m en format addrSize st'.prog.enc a
      (prevAfter (some a) st'.prog.prevRow) st'.prog.row off hmin hmax hasz hend
    refine ⟨WInstr.setAddress (some a) :: is1, ?_, ?_⟩
    · simp only [applyEv, Prog.endSequence, Prog.setAddress, prevAfter] at hg ⊢
      simp only [hg, ofWrite, Out.bind_ok, Out.pure_eq, CRes.bind_ok, CRes.pure_eq, List.append_assoc,
        List.cons_append, List.nil_append]
    · intro inSeq rest
      obtain ⟨_, _, _, _, hs⟩ := set_address_correct en format addrSize st'.prog wbase a inSeq
        (is1.map (WInstr.toInstr st'.prog.enc.version) ++ rest) hlo hlt
      simp only [List.map_cons, List.cons_append]
      rw [hs]
      exact htr inSeq rest

/-- the source header's parameters, the encoding of the program being built, and the address size
of the reader that reads the result agree (the converter copies them) -/
def Agree (h : Params) (addrSize : Nat) (e : Enc) : Prop :=
  h.addrSize = addrSize ∧ h.minInstLen = e.minInstLen ∧ h.maxOps = e.maxOps ∧
  h.defaultIsStmt = e.defaultIsStmt

/-- the writer's state and the registers `Rout` of a reader of its output, between two events;
`Rlast` is the last source row, `wbase` the base address of the writer's current segment -/
def WInv (h : Params) (st : CSt) (Rlast : Row) (wbase : Nat) (Rout : Row) : Prop :=
  Rout = rowOf st.prog.enc.version wbase st.prog.prevRow ∧
  st.prog.prevRow.cleared = st.prog.prevRow ∧ st.prog.prevRow.opIndex = 0 ∧ st.prog.row.opIndex = 0 ∧
  st.prog.prevRow.line < 2 ^ 63 ∧ st.prog.prevRow.addressOffset % st.prog.enc.minInstLen = 0 ∧
  wbase + st.prog.prevRow.addressOffset ≤ (reset h Rlast).address ∧
  wbase = (if Rlast.endSequence then 0 else st.fromAddress)

theorem rowNew_agree (h : Params) (en : Endian) (format : Format) (addrSize : Nat) (e : Enc)
    (ha : Agree h addrSize e) : Row.new (readerParams en format addrSize e) = Row.new h := by
  simp [Row.new, readerParams, ha.2.2.2]

theorem convLoop_sim (m : Mode) (en : Endian) (format : Format) (addrSize : Nat) (strs : Strs) (h : Params)
    (hm : h.maxOps = 1) (hasz : addrSize = 1 ∨ addrSize = 2 ∨ addrSize = 4 ∨ addrSize = 8) :
    ∀ (fuel : Nat) (is : List Instr) (st stf : CSt) (Rlast : Row) (bin : Bool) (wbase : Nat) (Rout : Row),
    is.length < fuel → convLoop m strs h fuel st is = .ok stf →
    Agree h addrSize st.prog.enc → EncOk st.prog.enc → st.prog.enc.version ≤ 5 →
    RowRel h st Rlast → Tame h (reset h Rlast) is → WInv h st Rlast wbase Rout →
    ∃ new more, stf.prog.instrs = st.prog.instrs ++ new ∧ stf.files = st.files ++ more ∧
      stf.prog.enc = st.prog.enc ∧
      ∀ bout, (traceInstrs (readerParams en format addrSize st.prog.enc) Rout bout
          (new.map (WInstr.toInstr st.prog.enc.version))).map obsOut =
        (traceInstrs h (reset h Rlast) bin is).map
          (obsIn (fun i => fileRaw st.prog.enc.version (stf.files.getD i 0))) := by
  intro fuel
  induction fuel with
  | zero => intro is _ _ _ _ _ _ hf; omega
  | succ fuel ih =>
    intro is st stf Rlast bin wbase Rout hfuel hconv hag henc hv hrel htame hw
    rw [convLoop] at hconv
    unfold readRow at hconv
    -- read_row's prologue
    have hrel0 := RowRel_reset h st Rlast hrel
    obtain ⟨hRout, hcl, hpop, hrop, hpline, hpal, hlo, hwb⟩ := hw
    have hminEq : st.prog.enc.minInstLen = h.minInstLen := hag.2.1.symm
    have hspec := readRowLoop_sim strs h hm is none
      { st with fromAddress := if st.fromRow.endSequence then 0 else st.fromAddress,
                fromRow := reset h st.fromRow }
      (reset h Rlast) bin (wbase + st.prog.prevRow.addressOffset) hrel0 htame hlo
      (by intro a ha; cases ha) hminEq
    generalize hst0 : ({ st with fromAddress := if st.fromRow.endSequence then 0 else st.fromAddress,
                                 fromRow := reset h st.fromRow } : CSt) = st0 at hconv hspec hrel0
    have e_prog : st0.prog = st.prog := by rw [← hst0]
    have e_files : st0.files = st.files := by rw [← hst0]
    have e_fa : st0.fromAddress = (if st.fromRow.endSequence then 0 else st.fromAddress) := by rw [← hst0]
    have hendEq : Rlast.endSequence = st.fromRow.endSequence := by rw [hrel.2.1]; rfl
    have hsz8 : addrSize ≤ 8 := by omega
    have hones64 := onesSized_lt addrSize hsz8
    cases hres : readRowLoop strs h false none st0 is with
    | err e => rw [hres] at hconv; simp at hconv
    | panic w => rw [hres] at hconv; simp at hconv
    | ok v =>
      obtain ⟨ev, st', rest⟩ := v
      rw [hres] at hconv hspec
      cases ev with
      | none =>
        simp only [CRes.ok.injEq] at hconv
        subst hconv
        simp only [RowSpec] at hspec
        obtain ⟨htr, hfr⟩ := hspec
        obtain ⟨f1, _, _, _, f5, more, f6⟩ := hfr
        refine ⟨[], more, by rw [f1, e_prog]; simp, by rw [f6, e_files], by rw [f5, e_prog], fun bout => ?_⟩
        rw [htr]; simp [traceInstrs]
      | some ev =>
        have hcons : rest.length < is.length := by
          cases ev with
          | row a r => exact Gimli.Props.C12.line_read_row_consumes strs h is false none st0 st' _ rest hres
          | endSeq a o => exact Gimli.Props.C12.line_read_row_consumes strs h is false none st0 st' _ rest hres
        cases ev with
        | row p' w =>
          simp only [RowSpec] at hspec
          obtain ⟨R1, htrIn, hR1end, hrel1, htame1, hline1, hlo1, hcr, hfr, hp', hpn⟩ := hspec
          obtain ⟨f1, f2, f3, f4, f5, more1, f6⟩ := hfr
          have henc' : st'.prog.enc = st.prog.enc := by rw [f5, e_prog]
          have hprev' : st'.prog.prevRow = st.prog.prevRow := by rw [f2, e_prog]
          obtain ⟨hrow, hwoff, hwop, hwline, hwal, hfile⟩ := rowOf_convertRow h st' R1 w hrel1 hR1end hcr
          have hR1addr : R1.address = st'.fromRow.address + st'.fromAddress := by rw [hrel1.2.1]; rfl
          have hR1ones : R1.address ≤ onesSized addrSize := by rw [← hag.1]; exact hrel1.2.2.2
          have hmax1 : st'.prog.enc.maxOps = 1 := by rw [henc', ← hag.2.2.1]; exact hm
          -- the writer's step
          have hpcond : PendOk p' st'.fromAddress wbase st'.prog.prevRow.addressOffset (minTombstone addrSize) := by
            cases p' with
            | some a =>
              obtain ⟨a1, a2, a3⟩ := hp' a rfl
              exact ⟨a1, by rw [hprev']; exact a2, by rw [← hag.1]; exact a3⟩
            | none =>
              obtain ⟨_, a2⟩ := hpn rfl
              show st'.fromAddress = wbase
              rw [a2, e_fa, hwb, hendEq]
          have hstep : StepOk st'.prog.enc addrSize st'.fromAddress (prevAfter p' st'.prog.prevRow) w := by
            have hdiv : (w.addressOffset - (prevAfter p' st'.prog.prevRow).addressOffset) / st'.prog.enc.minInstLen ≤
                w.addressOffset := Nat.le_trans (Nat.div_le_self _ _) (Nat.sub_le _ _)
            cases p' with
            | some a =>
              simp only [prevAfter]
              refine ⟨by simp, by rw [hwoff]; exact hwal, by rw [hmax1]; exact Nat.zero_lt_one, by rw [hmax1, hwop]; exact Nat.zero_lt_one,
                Nat.zero_le _, fun _ => Nat.zero_le _, ?_, by rw [hprev']; exact hpline, by rw [hwline]; exact hline1, ?_⟩
              · rw [hmax1, hwop]; simp only [prevAfter] at hdiv
                simp only [Nat.mul_one, Nat.add_zero]
                exact Nat.lt_of_le_of_lt hdiv (by rw [hwoff]; omega)
              · rw [hwoff]; omega
            | none =>
              simp only [prevAfter] at hdiv ⊢
              have hb : st'.fromAddress = wbase := hpcond
              refine ⟨by rw [hprev', henc']; exact hpal, by rw [hwoff]; exact hwal, by rw [hmax1, hprev', hpop]; exact Nat.zero_lt_one,
                by rw [hmax1, hwop]; exact Nat.zero_lt_one, ?_, fun _ => by rw [hprev', hpop]; exact Nat.zero_le _, ?_,
                by rw [hprev']; exact hpline, by rw [hwline]; exact hline1, ?_⟩
              · rw [hprev', hwoff]; omega
              · rw [hmax1, hwop]
                simp only [Nat.mul_one, Nat.add_zero]
                exact Nat.lt_of_le_of_lt hdiv (by rw [hwoff]; omega)
              · rw [hwoff]; omega
          obtain ⟨is1, happ, htr1⟩ := applyEv_row_sim m en format addrSize st' p' w wbase st'.fromAddress
            (by rw [henc']; exact henc) hasz (by rw [hprev']; exact hcl) hpcond hstep
          dsimp only at hconv
          rw [happ] at hconv
          dsimp only at hconv
          -- the rest of the program
          obtain ⟨new2, more2, g1, g2, g3, g4⟩ := ih rest _ stf R1 true st'.fromAddress
            (rowOf st'.prog.enc.version st'.fromAddress w.cleared) (by omega) hconv
            (by show Agree h addrSize st'.prog.enc; rw [henc']; exact hag)
            (by show EncOk st'.prog.enc; rw [henc']; exact henc)
            (by show st'.prog.enc.version ≤ 5; rw [henc']; exact hv)
            hrel1 htame1
            ⟨rfl, rfl, hwop, hwop, by show w.line < 2 ^ 63; rw [hwline]; exact hline1,
              by show w.addressOffset % st'.prog.enc.minInstLen = 0; rw [hwoff]; exact hwal,
              by rw [reset_address, hR1end]; simp only [Bool.false_eq_true, ↓reduceIte]
                 show st'.fromAddress + w.addressOffset ≤ R1.address; rw [hwoff]; omega,
              by rw [hR1end]; rfl⟩
          dsimp only at g1 g2 g3 g4
          refine ⟨is1 ++ new2, more1 ++ more2, ?_, ?_, ?_, fun bout => ?_⟩
          · rw [g1, f1, e_prog]; simp
          · rw [g2, f6, e_files]; simp
          · rw [g3]; exact henc'
          · rw [htrIn, hRout]
            have h1 := htr1 bout (new2.map (WInstr.toInstr st'.prog.enc.version))
            have h2 := g4 true
            rw [henc'] at h1 h2 hrow
            rw [hprev'] at h1
            rw [List.map_append, h1]
            simp only [List.map_cons]
            congr 1
            · have hfd : stf.files.getD R1.file 0 = st'.files.getD R1.file 0 := by
                rw [g2]
                simp [List.getD, List.getElem?_append_left hfile]
              simp only [obsOut, obsIn, hR1end, hfd]
              rw [hrow]
              simp [hR1end]
        | endSeq p' off =>
          simp only [RowSpec] at hspec
          obtain ⟨R1, htrIn, hR1end, hrel1, htame1, hlo1, hoff, hal, hfr, hp', hpn⟩ := hspec
          obtain ⟨f1, f2, f3, f4, f5, more1, f6⟩ := hfr
          have henc' : st'.prog.enc = st.prog.enc := by rw [f5, e_prog]
          have hprev' : st'.prog.prevRow = st.prog.prevRow := by rw [f2, e_prog]
          have hrow' : st'.prog.row = st.prog.row := by rw [f3, e_prog]
          have hR1addr : R1.address = st'.fromRow.address + st'.fromAddress := by rw [hrel1.2.1]; rfl
          have hR1ones : R1.address ≤ onesSized addrSize := by rw [← hag.1]; exact hrel1.2.2.2
          have hmax1 : st'.prog.enc.maxOps = 1 := by rw [henc', ← hag.2.2.1]; exact hm
          have hminE : st'.prog.enc.minInstLen = h.minInstLen := by rw [henc']; exact hminEq
          have hpcond : PendOk p' st'.fromAddress wbase st'.prog.prevRow.addressOffset (minTombstone addrSize) := by
            cases p' with
            | some a =>
              obtain ⟨a1, a2, a3⟩ := hp' a rfl
              exact ⟨a1, by rw [hprev']; exact a2, by rw [← hag.1]; exact a3⟩
            | none =>
              obtain ⟨_, a2⟩ := hpn rfl
              show st'.fromAddress = wbase
              rw [a2, e_fa, hwb, hendEq]
          have hendok : EndOk st'.prog.enc addrSize st'.fromAddress (prevAfter p' st'.prog.prevRow) st'.prog.row off := by
            have hdiv : (off - (prevAfter p' st'.prog.prevRow).addressOffset) / st'.prog.enc.minInstLen ≤ off :=
              Nat.le_trans (Nat.div_le_self _ _) (Nat.sub_le _ _)
            cases p' with
            | some a =>
              simp only [prevAfter] at hdiv ⊢
              refine ⟨by simp, by rw [hminE]; exact hal, by rw [hmax1]; exact Nat.zero_lt_one,
                by rw [hmax1, hrow', hrop]; exact Nat.zero_lt_one, Nat.zero_le _, fun _ => Nat.zero_le _, ?_, ?_⟩
              · rw [hmax1, hrow', hrop]
                simp only [Nat.mul_one, Nat.add_zero]
                exact Nat.lt_of_le_of_lt hdiv (by omega)
              · omega
            | none =>
              simp only [prevAfter] at hdiv ⊢
              have hb : st'.fromAddress = wbase := hpcond
              refine ⟨by rw [hprev', henc']; exact hpal, by rw [hminE]; exact hal,
                by rw [hmax1, hprev', hpop]; exact Nat.zero_lt_one,
                by rw [hmax1, hrow', hrop]; exact Nat.zero_lt_one, ?_,
                fun _ => by rw [hprev', hpop]; exact Nat.zero_le _, ?_, ?_⟩
              · rw [hprev']; omega
              · rw [hmax1, hrow', hrop]
                simp only [Nat.mul_one, Nat.add_zero]
                exact Nat.lt_of_le_of_lt hdiv (by omega)
              · omega
          obtain ⟨is1, happ, htr1⟩ := applyEv_end_sim m en format addrSize st' p' off wbase st'.fromAddress
            (by rw [henc']; exact henc) hasz hpcond hendok
          dsimp only at hconv
          rw [happ] at hconv
          dsimp only at hconv
          have hres1 : reset h R1 = Row.new h := by unfold reset; rw [hR1end]; rfl
          obtain ⟨new2, more2, g1, g2, g3, g4⟩ := ih rest _ stf R1 false 0
            (Row.new (readerParams en format addrSize st'.prog.enc)) (by omega) hconv
            (by show Agree h addrSize st'.prog.enc; rw [henc']; exact hag)
            (by show EncOk st'.prog.enc; rw [henc']; exact henc)
            (by show st'.prog.enc.version ≤ 5; rw [henc']; exact hv)
            hrel1 (by rw [hres1]; exact htame1)
            ⟨(rowOf_initial en format addrSize st'.prog.enc (by rw [henc']; exact hv)).symm, rfl, rfl, rfl,
              by show (1 : Nat) < 2 ^ 63; decide, Nat.zero_mod _, Nat.zero_le _, by rw [hR1end]; rfl⟩
          dsimp only at g1 g2 g3 g4
          refine ⟨is1 ++ new2, more1 ++ more2, ?_, ?_, ?_, fun bout => ?_⟩
          · rw [g1, f1, e_prog]; simp
          · rw [g2, f6, e_files]; simp
          · rw [g3]; exact henc'
          · rw [htrIn, hRout]
            have h1 := htr1 bout (new2.map (WInstr.toInstr st'.prog.enc.version))
            have h2 := g4 false
            rw [hres1] at h2
            rw [henc'] at h1 h2
            rw [hprev'] at h1
            rw [List.map_append, h1]
            simp only [List.map_cons]
            congr 1
            simp only [obsOut, obsIn, hR1end, ↓reduceIte]
            congr 1
            omega

/-- the row-encoder state of the program is untouched -/
def PF (p p' : Prog) : Prop :=
  p'.instrs = p.instrs ∧ p'.prevRow = p.prevRow ∧ p'.row = p.row ∧ p'.inSequence = p.inSequence ∧
  p'.enc = p.enc

theorem PF.refl (p : Prog) : PF p p := ⟨rfl, rfl, rfl, rfl, rfl⟩
theorem PF.trans {a b c : Prog} (h1 : PF a b) (h2 : PF b c) : PF a c :=
  ⟨h2.1.trans h1.1, h2.2.1.trans h1.2.1, h2.2.2.1.trans h1.2.2.1, h2.2.2.2.1.trans h1.2.2.2.1,
    h2.2.2.2.2.trans h1.2.2.2.2⟩

theorem addDirectory_PF (p p' : Prog) (d : LineStr) (id : Nat) (h : addDirectory p d = .ok (p', id)) : PF p p' := by
  unfold addDirectory at h
  split at h
  · cases h
  · split at h
    · cases h
    · split at h
      · simp only [Out.ok.injEq, Prod.mk.injEq] at h; rw [← h.1]; exact PF.refl p
      · simp only [Out.ok.injEq, Prod.mk.injEq] at h; rw [← h.1]; exact ⟨rfl, rfl, rfl, rfl, rfl⟩

theorem addFile_PF (p p' : Prog) (n : LineStr) (d : Nat) (i : Option FileInfo) (id : Nat)
    (h : addFile p n d i = .ok (p', id)) : PF p p' := by
  rcases addFile_unfold _ _ _ _ _ _ h with ⟨_, hp⟩ | ⟨_, _, hp⟩ <;> rw [hp] <;> exact ⟨rfl, rfl, rfl, rfl, rfl⟩

theorem progNew_spec (m : Mode) (format : Format) (addrSize : Nat) (e : Enc) (wd : LineStr)
    (sd : Option LineStr) (sf : LineStr) (si : Option FileInfo) (p : Prog)
    (h : Prog.new m format addrSize e wd sd sf si = .ok p) :
    p.instrs = [] ∧ p.prevRow = WRow.initial e ∧ p.row = WRow.initial e ∧ p.inSequence = false ∧ p.enc = e := by
  unfold Prog.new at h
  cases hc : newCheck m e.lineBase e.lineRange with
  | ok u =>
    rw [hc] at h
    simp only [Out.bind_ok] at h
    generalize hp0 : Prog.mk format addrSize e [] [] false false false false (WRow.initial e) (WRow.initial e) [] false = p0 at h
    have q0 : p0.instrs = [] ∧ p0.prevRow = WRow.initial e ∧ p0.row = WRow.initial e ∧ p0.inSequence = false ∧
        p0.enc = e := by rw [← hp0]; exact ⟨rfl, rfl, rfl, rfl, rfl⟩
    cases h1 : addDirectory p0 wd with
    | ok v1 =>
      rw [h1] at h
      simp only [Out.bind_ok] at h
      have pf1 := addDirectory_PF _ _ _ _ h1
      by_cases hv : e.version ≥ 5
      · rw [if_pos hv] at h
        cases sd with
        | none =>
          simp only [Out.pure_eq, Out.bind_ok] at h
          cases h3 : addFile v1.1 sf v1.2 si with
          | ok v3 =>
            rw [h3] at h
            simp only [Out.bind_ok, Out.ok.injEq] at h
            subst h
            have pf := pf1.trans (addFile_PF _ _ _ _ _ _ h3)
            exact ⟨pf.1.trans q0.1, pf.2.1.trans q0.2.1, pf.2.2.1.trans q0.2.2.1, pf.2.2.2.1.trans q0.2.2.2.1, pf.2.2.2.2.trans q0.2.2.2.2⟩
          | err x => rw [h3] at h; simp at h
          | panic x => rw [h3] at h; simp at h
          | diverge => rw [h3] at h; simp at h
        | some d =>
          simp only at h
          cases h2 : addDirectory v1.1 d with
          | ok v2 =>
            rw [h2] at h
            simp only [Out.bind_ok] at h
            cases h3 : addFile v2.1 sf v2.2 si with
            | ok v3 =>
              rw [h3] at h
              simp only [Out.bind_ok, Out.pure_eq, Out.ok.injEq] at h
              subst h
              have pf := (pf1.trans (addDirectory_PF _ _ _ _ h2)).trans (addFile_PF _ _ _ _ _ _ h3)
              exact ⟨pf.1.trans q0.1, pf.2.1.trans q0.2.1, pf.2.2.1.trans q0.2.2.1, pf.2.2.2.1.trans q0.2.2.2.1, pf.2.2.2.2.trans q0.2.2.2.2⟩
            | err x => rw [h3] at h; simp at h
            | panic x => rw [h3] at h; simp at h
            | diverge => rw [h3] at h; simp at h
          | err x => rw [h2] at h; simp at h
          | panic x => rw [h2] at h; simp at h
          | diverge => rw [h2] at h; simp at h
      · rw [if_neg hv] at h
        simp only [Out.pure_eq, Out.ok.injEq] at h
        subst h
        exact ⟨pf1.1.trans q0.1, pf1.2.1.trans q0.2.1, pf1.2.2.1.trans q0.2.2.1, pf1.2.2.2.1.trans q0.2.2.2.1, pf1.2.2.2.2.trans q0.2.2.2.2⟩
    | err x => rw [h1] at h; simp at h
    | panic x => rw [h1] at h; simp at h
    | diverge => rw [h1] at h; simp at h
  | err x => rw [hc] at h; simp at h
  | panic x => rw [hc] at h; simp at h
  | diverge => rw [hc] at h; simp at h

/-- the converter's own registers and the row-encoder state of the program are untouched -/
def SF (st st' : CSt) : Prop :=
  PF st.prog st'.prog ∧ st'.fromRow = st.fromRow ∧ st'.fromAddress = st.fromAddress

theorem SF.refl (st : CSt) : SF st st := ⟨PF.refl _, rfl, rfl⟩
theorem SF.trans {a b c : CSt} (h1 : SF a b) (h2 : SF b c) : SF a c :=
  ⟨h1.1.trans h2.1, h2.2.1.trans h1.2.1, h2.2.2.trans h1.2.2⟩

theorem convertFiles_SF (strs : Strs) : ∀ (fs : List FileEntry) (st st' : CSt),
    convertFiles strs st fs = .ok st' → SF st st' := by
  intro fs
  induction fs with
  | nil => intro st st' h; simp only [convertFiles, CRes.ok.injEq] at h; subst h; exact SF.refl _
  | cons f fs ih =>
    intro st st' h
    rw [convertFiles] at h
    cases hc : convertFile strs st f with
    | ok st1 =>
      rw [hc] at h
      simp only [CRes.bind_ok] at h
      obtain ⟨⟨f1, f2, f3, f4, f5, _⟩, e1, e2, _⟩ := convertFile_frame strs st st1 f hc
      exact SF.trans ⟨⟨f1, f2, f3, f4, f5⟩, e1, e2⟩ (ih st1 st' h)
    | err e => rw [hc] at h; simp at h
    | panic w => rw [hc] at h; simp at h

theorem convertDirs_SF (strs : Strs) : ∀ (ds : List AttrVal) (st st' : CSt),
    convertDirs strs st ds = .ok st' → SF st st' := by
  intro ds
  induction ds with
  | nil => intro st st' h; simp only [convertDirs, CRes.ok.injEq] at h; subst h; exact SF.refl _
  | cons d ds ih =>
    intro st st' h
    rw [convertDirs] at h
    cases hc : convertString strs st.prog.enc.version st.tabs d with
    | ok v =>
      rw [hc] at h
      simp only [CRes.bind_ok] at h
      cases ha : addDirectory st.prog v.2 with
      | ok v2 =>
        rw [ha] at h
        simp only [ofWrite, CRes.bind_ok] at h
        exact SF.trans (b := { st with prog := v2.1, tabs := v.1, dirs := st.dirs ++ [v2.2] })
          ⟨addDirectory_PF st.prog v2.1 v.2 v2.2 ha, rfl, rfl⟩ (ih _ st' h)
      | err e => rw [ha] at h; simp [ofWrite] at h
      | panic w => rw [ha] at h; simp [ofWrite] at h
      | diverge => rw [ha] at h; simp [ofWrite] at h
    | err e => rw [hc] at h; simp at h
    | panic w => rw [hc] at h; simp at h

theorem convNew_spec (m : Mode) (strs : Strs) (hd : Header) (tabs : Tabs) (st : CSt)
    (h : convNew m strs hd tabs = .ok st) :
    ¬ (hd.p.lineBase > 0 ∨ hd.p.lineBase + (hd.p.lineRange : Int) ≤ 0) ∧
    st.prog.instrs = [] ∧ st.prog.prevRow = WRow.initial (encOf hd.p) ∧ st.prog.row = WRow.initial (encOf hd.p) ∧
    st.prog.inSequence = false ∧ st.prog.enc = encOf hd.p ∧ st.fromRow = Row.new hd.p ∧ st.fromAddress = 0 := by
  unfold convNew at h
  dsimp only at h
  cases h1 : workingDir strs hd tabs with
  | err e => rw [h1] at h; simp at h
  | panic w => rw [h1] at h; simp at h
  | ok v1 =>
    rw [h1] at h
    simp only [CRes.bind_ok] at h
    cases h2 : sourceFile strs hd v1.1 with
    | err e => rw [h2] at h; simp at h
    | panic w => rw [h2] at h; simp at h
    | ok v2 =>
      rw [h2] at h
      simp only [CRes.bind_ok] at h
      by_cases hlb : hd.p.lineBase > 0 ∨ hd.p.lineBase + (hd.p.lineRange : Int) ≤ 0
      · rw [if_pos hlb] at h; cases h
      · rw [if_neg hlb] at h
        cases h3 : Prog.new m hd.p.format hd.p.addrSize (encOf hd.p) v1.2 v2.2.1 v2.2.2 none with
        | ok prog =>
          rw [h3] at h
          simp only [ofWrite, CRes.bind_ok] at h
          obtain ⟨q1, q2, q3, q4, q5⟩ := progNew_spec _ _ _ _ _ _ _ _ _ h3
          cases h4 : convertDirs strs { prog := prog, tabs := v2.1, files := if hd.p.version ≤ 4 then [0] else [], dirs := if hd.p.version ≤ 4 then [0] else [], fromRow := Row.new hd.p, fromAddress := 0, inSeq := false } hd.dirs with
          | ok st1 =>
            rw [h4] at h
            simp only [CRes.bind_ok] at h
            obtain ⟨⟨a1, a2, a3, a4, a5⟩, a6, a7⟩ := convertDirs_SF strs _ _ _ h4
            obtain ⟨⟨b1, b2, b3, b4, b5⟩, b6, b7⟩ := convertFiles_SF strs _ _ _ h
            exact ⟨hlb, by rw [b1]; show st1.prog.instrs = []; rw [a1]; exact q1,
              by rw [b2]; show st1.prog.prevRow = _; rw [a2]; exact q2,
              by rw [b3]; show st1.prog.row = _; rw [a3]; exact q3,
              by rw [b4]; show st1.prog.inSequence = _; rw [a4]; exact q4,
              by rw [b5]; show st1.prog.enc = _; rw [a5]; exact q5,
              by rw [b6]; show st1.fromRow = _; rw [a6],
              by rw [b7]; show st1.fromAddress = _; rw [a7]⟩
          | err e => rw [h4] at h; simp at h
          | panic w => rw [h4] at h; simp at h
        | err e => rw [h3] at h; simp [ofWrite] at h
        | panic w => rw [h3] at h; simp [ofWrite] at h
        | diverge => rw [h3] at h; simp [ofWrite] at h
end Gimli.ConvLineRows
