import Gimli.Model.Aranges
import Gimli.Lemmas.C17Util
/-!
# Lemmas for C17, `.debug_aranges`

* `paddingFor_spec`: the padding rule puts the first tuple at a multiple of the tuple size;
* `parseHeader_layout`: which bytes of the input are header, padding, entries, following sets;
* `entries_tuples`: the entry iterator over an encoded tuple list yields the linear scan
  `scanTuples` of that list.
-/
namespace Gimli.Aranges
open Gimli Gimli.Ints

theorem paddingFor_spec (h t : Nat) (ht : 0 < t) :
    paddingFor h t < t ∧ (h + paddingFor h t) % t = 0 := by
  unfold paddingFor
  split
  · rename_i h0; exact ⟨ht, by simpa using h0⟩
  · rename_i h0
    have hlt := Nat.mod_lt h ht
    refine ⟨by omega, ?_⟩
    have hd := Nat.div_add_mod h t
    have : h + (t - h % t) = t * (h / t + 1) := by
      rw [Nat.mul_add, Nat.mul_one]; omega
    rw [this]; exact Nat.mul_mod_right _ _

/-- encoded tuples -/
def encTuples (e : Endian) (as : Nat) (ts : List (Nat × Nat)) : Bytes :=
  ts.flatMap (fun t => toBytes e as t.1 ++ toBytes e as t.2)

/-- drop leading null tuples -/
def skipNull : List (Nat × Nat) → List (Nat × Nat)
  | [] => []
  | t :: ts => if t.1 = 0 ∧ t.2 = 0 then skipNull ts else t :: ts

theorem skipNull_length_le (ts : List (Nat × Nat)) : (skipNull ts).length ≤ ts.length := by
  induction ts with
  | nil => simp [skipNull]
  | cons t ts ih => simp only [skipNull]; split <;> simp <;> omega

abbrev ValidSize (as : Nat) : Prop := as = 1 ∨ as = 2 ∨ as = 4 ∨ as = 8

theorem readAddress_enc (e : Endian) (as v : Nat) (rest : Bytes) (has : ValidSize as)
    (hv : v < 256 ^ as) : readAddress e as (toBytes e as v ++ rest) = .ok (v, rest) := by
  unfold readAddress
  rw [if_pos (show as = 1 ∨ as = 2 ∨ as = 4 ∨ as = 8 from has)]
  exact readFixed_toBytes e as v rest hv

theorem encTuples_length (e : Endian) (as : Nat) (ts : List (Nat × Nat)) :
    (encTuples e as ts).length = 2 * as * ts.length := by
  induction ts with
  | nil => simp [encTuples]
  | cons t ts ih =>
    simp only [encTuples, List.flatMap_cons, List.length_append, toBytes_length] at ih ⊢
    rw [ih, List.length_cons]
    rw [Nat.mul_succ]; omega

theorem parseEntry_tuples (e : Endian) (as : Nat) (has : ValidSize as) (ts : List (Nat × Nat))
    (tail : Bytes) (htail : tail.length < 2 * as)
    (hb : ∀ t, t ∈ ts → t.1 < 256 ^ as ∧ t.2 < 256 ^ as) (fuel : Nat) (hf : ts.length < fuel) :
    parseEntry e as fuel (encTuples e as ts ++ tail) =
      match skipNull ts with
      | [] => .ok (none, [])
      | t :: r => .ok (some t, encTuples e as r ++ tail) := by
  induction ts generalizing fuel with
  | nil =>
    cases fuel with
    | zero => omega
    | succ f =>
      simp only [encTuples, List.flatMap_nil, List.nil_append, skipNull]
      rw [parseEntry, if_pos htail]
  | cons t ts ih =>
    cases fuel with
    | zero => omega
    | succ f =>
      have hbt := hb t (by simp)
      rw [parseEntry]
      have hlen : ¬ 2 * as > (encTuples e as (t :: ts) ++ tail).length := by
        rw [List.length_append, encTuples_length, List.length_cons, Nat.mul_succ]; omega
      rw [if_neg hlen]
      simp only [encTuples, List.flatMap_cons, List.append_assoc]
      rw [readAddress_enc e as t.1 _ has hbt.1]
      simp only [Out.bind_ok]
      rw [readAddress_enc e as t.2 _ has hbt.2]
      simp only [Out.bind_ok, skipNull]
      split
      · exact ih (fun t' ht' => hb t' (by simp [ht'])) f (by simp at hf; omega)
      · rfl

theorem encTuples_nil_iff (e : Endian) (as : Nat) (has : ValidSize as) (ts : List (Nat × Nat)) (tail : Bytes) :
    (encTuples e as ts ++ tail).isEmpty = true ↔ ts = [] ∧ tail = [] := by
  rw [List.isEmpty_iff]
  constructor
  · intro h
    have hl := congrArg List.length h
    rw [List.length_append, encTuples_length] at hl
    simp only [List.length_nil] at hl
    have h1 : tail.length = 0 := by omega
    have h2 : 2 * as * ts.length = 0 := by omega
    have has' : 0 < 2 * as := by rcases has with h | h | h | h <;> omega
    have h3 : ts.length = 0 := by
      rcases Nat.mul_eq_zero.mp h2 with h | h
      · omega
      · exact h
    exact ⟨List.length_eq_zero_iff.mp h3, List.length_eq_zero_iff.mp h1⟩
  · rintro ⟨rfl, rfl⟩; rfl

theorem nextRaw_tuples (e : Endian) (as : Nat) (has : ValidSize as) (ts : List (Nat × Nat))
    (tail : Bytes) (htail : tail.length < 2 * as)
    (hb : ∀ t, t ∈ ts → t.1 < 256 ^ as ∧ t.2 < 256 ^ as) :
    nextRaw e as (encTuples e as ts ++ tail) =
      match skipNull ts with
      | [] => (.ok none, [])
      | t :: r => (.ok (some t), encTuples e as r ++ tail) := by
  unfold nextRaw
  by_cases hem : (encTuples e as ts ++ tail).isEmpty = true
  · rw [if_pos hem]
    obtain ⟨rfl, rfl⟩ := (encTuples_nil_iff e as has ts tail).mp hem
    rfl
  · rw [if_neg hem]
    have hf : ts.length < (encTuples e as ts ++ tail).length + 1 := by
      rw [List.length_append, encTuples_length]
      have has' : 1 ≤ 2 * as := by rcases has with h | h | h | h <;> omega
      have := Nat.mul_le_mul_right ts.length has'
      omega
    rw [parseEntry_tuples e as has ts tail htail hb _ hf]
    cases skipNull ts <;> rfl

/-- drop leading null tuples and tombstones -/
def skipDead (as : Nat) : List (Nat × Nat) → List (Nat × Nat)
  | [] => []
  | t :: ts => if (t.1 = 0 ∧ t.2 = 0) ∨ t.1 ≥ minTombstone as then skipDead as ts else t :: ts

theorem skipDead_skipNull (as : Nat) (ts : List (Nat × Nat)) :
    skipDead as (skipNull ts) = skipDead as ts := by
  induction ts with
  | nil => rfl
  | cons t ts ih =>
    simp only [skipNull]
    split
    · rename_i h0; rw [ih]; simp [skipDead, h0]
    · rfl

theorem skipNull_mem (ts : List (Nat × Nat)) (t : Nat × Nat) (h : t ∈ skipNull ts) : t ∈ ts := by
  induction ts with
  | nil => simp [skipNull] at h
  | cons a ts ih =>
    simp only [skipNull] at h
    split at h
    · exact List.mem_cons_of_mem _ (ih h)
    · exact h

theorem skipNull_head (ts : List (Nat × Nat)) (t : Nat × Nat) (r : List (Nat × Nat))
    (h : skipNull ts = t :: r) : ¬ (t.1 = 0 ∧ t.2 = 0) := by
  induction ts with
  | nil => simp [skipNull] at h
  | cons a ts ih =>
    simp only [skipNull] at h
    split at h
    · exact ih h
    · rename_i h0
      simp only [List.cons.injEq] at h
      rw [← h.1]; exact h0

/-- what `next` yields for the first live tuple -/
def convertItem (as : Nat) (t : Nat × Nat) : Out (Option Entry) :=
  if t.1 + t.2 ≥ 2 ^ (8 * as) then .err .rAddressOverflow
  else .ok (some { begin_ := t.1, end_ := t.1 + t.2, length := t.2 })

theorem nextLoop_tuples (e : Endian) (as : Nat) (has : ValidSize as) (tail : Bytes)
    (htail : tail.length < 2 * as) (fuel : Nat) (ts : List (Nat × Nat))
    (hb : ∀ t, t ∈ ts → t.1 < 256 ^ as ∧ t.2 < 256 ^ as) (hf : ts.length < fuel) :
    nextLoop e as fuel (encTuples e as ts ++ tail) =
      match skipDead as ts with
      | [] => (.ok none, [])
      | t :: r => (convertItem as t, encTuples e as r ++ tail) := by
  induction fuel generalizing ts with
  | zero => omega
  | succ f ih =>
    rw [nextLoop, nextRaw_tuples e as has ts tail htail hb, ← skipDead_skipNull as ts]
    have hle := skipNull_length_le ts
    cases hs : skipNull ts with
    | nil => rfl
    | cons t r =>
      have hnn := skipNull_head ts t r hs
      have hmem : ∀ t', t' ∈ t :: r → t' ∈ ts := fun t' h => skipNull_mem ts t' (hs ▸ h)
      have hbt := hb t (hmem t (by simp))
      simp only
      by_cases htomb : t.1 ≥ minTombstone as
      · have hc : convertRaw as t = .ok none := by simp [convertRaw, htomb]
        rw [hc]
        simp only
        rw [ih r (fun t' ht' => hb t' (hmem t' (by simp [ht']))) (by rw [hs] at hle; simp at hle; omega)]
        simp [skipDead, htomb]
      · have h64 : 2 ^ (8 * as) ≤ 2 ^ 64 := Nat.pow_le_pow_right (by decide) (by rcases has with h | h | h | h <;> omega)
        have hsd : skipDead as (t :: r) = t :: r := by simp [skipDead, hnn, htomb]
        rw [hsd]
        simp only
        by_cases hov : t.1 + t.2 ≥ 2 ^ (8 * as)
        · have hc : convertRaw as t = .err .rAddressOverflow := by
            unfold convertRaw; rw [if_neg htomb]; split <;> first | rfl | simp [hov]
          have hi : convertItem as t = .err .rAddressOverflow := by simp [convertItem, hov]
          rw [hc, hi]
        · have hc : convertRaw as t = .ok (some { begin_ := t.1, end_ := t.1 + t.2, length := t.2 }) := by
            unfold convertRaw; rw [if_neg htomb, if_neg (by omega), if_neg hov]
          have hi : convertItem as t = .ok (some { begin_ := t.1, end_ := t.1 + t.2, length := t.2 }) := by
            simp [convertItem, hov]
          rw [hc, hi]

/-- **linear scan** of a tuple list: what the entry iterator has to yield, one item per live
tuple (null tuples and tombstones are skipped, an end address that does not fit is an error) -/
def scanTuples (as : Nat) : List (Nat × Nat) → List (Item Entry)
  | [] => []
  | t :: ts =>
    if (t.1 = 0 ∧ t.2 = 0) ∨ t.1 ≥ minTombstone as then scanTuples as ts
    else if t.1 + t.2 ≥ 2 ^ (8 * as) then .error .rAddressOverflow :: scanTuples as ts
    else .item { begin_ := t.1, end_ := t.1 + t.2, length := t.2 } :: scanTuples as ts

theorem skipDead_length_le (as : Nat) (ts : List (Nat × Nat)) : (skipDead as ts).length ≤ ts.length := by
  induction ts with
  | nil => simp [skipDead]
  | cons t ts ih => simp only [skipDead]; split <;> simp <;> omega

theorem skipDead_mem (as : Nat) (ts : List (Nat × Nat)) (t : Nat × Nat) (h : t ∈ skipDead as ts) : t ∈ ts := by
  induction ts with
  | nil => simp [skipDead] at h
  | cons a ts ih =>
    simp only [skipDead] at h
    split at h
    · exact List.mem_cons_of_mem _ (ih h)
    · exact h

theorem scanTuples_skipDead (as : Nat) (ts : List (Nat × Nat)) :
    scanTuples as ts =
      match skipDead as ts with
      | [] => []
      | t :: r =>
        (if t.1 + t.2 ≥ 2 ^ (8 * as) then .error .rAddressOverflow
         else .item { begin_ := t.1, end_ := t.1 + t.2, length := t.2 }) :: scanTuples as r := by
  induction ts with
  | nil => rfl
  | cons t ts ih =>
    rw [scanTuples, skipDead]
    split
    · exact ih
    · rename_i h0
      by_cases hov : t.1 + t.2 ≥ 2 ^ (8 * as)
      · simp only [hov, if_true]
      · simp only [hov, if_false]

theorem entries_tuples (e : Endian) (as : Nat) (has : ValidSize as) (tail : Bytes)
    (htail : tail.length < 2 * as) (fuel : Nat) (ts : List (Nat × Nat))
    (hb : ∀ t, t ∈ ts → t.1 < 256 ^ as ∧ t.2 < 256 ^ as) (hf : ts.length < fuel) :
    entries e as fuel (encTuples e as ts ++ tail) = scanTuples as ts := by
  induction fuel generalizing ts with
  | zero => omega
  | succ f ih =>
    have hfl : ts.length < (encTuples e as ts ++ tail).length + 1 := by
      rw [List.length_append, encTuples_length]
      have has' : 1 ≤ 2 * as := by rcases has with h | h | h | h <;> omega
      have := Nat.mul_le_mul_right ts.length has'
      omega
    rw [entries, next, nextLoop_tuples e as has tail htail _ ts hb hfl, scanTuples_skipDead]
    have hle := skipDead_length_le as ts
    cases hs : skipDead as ts with
    | nil => rfl
    | cons t r =>
      have hmem : ∀ t', t' ∈ r → t' ∈ ts := fun t' h => skipDead_mem as ts t' (by rw [hs]; simp [h])
      have hr := ih r (fun t' ht' => hb t' (hmem t' ht')) (by rw [hs] at hle; simp at hle; omega)
      by_cases hov : t.1 + t.2 ≥ 2 ^ (8 * as)
      · have hi : convertItem as t = .err .rAddressOverflow := by simp [convertItem, hov]
        simp only [hi, hov, if_true, hr]
      · have hi : convertItem as t = .ok (some { begin_ := t.1, end_ := t.1 + t.2, length := t.2 }) := by
          simp [convertItem, hov]
        simp only [hi, hov, if_false, hr]
/-- **layout of a parsed set**: the input is `header ++ padding ++ entries ++ following sets`,
with the header of the standard's size for the format and exactly the padding that puts the
first tuple at a multiple of the tuple size -/
theorem parseHeader_layout (e : Endian) (input : Bytes) (h : Header) (rest : Bytes)
    (hp : parseHeader e input = .ok (h, rest)) :
    ∃ hdr pad, input = hdr ++ pad ++ h.entries ++ rest ∧
      hdr.length = headerLength h.format ∧ pad.length = padding h.format h.addressSize ∧
      (h.addressSize = 1 ∨ h.addressSize = 2 ∨ h.addressSize = 4 ∨ h.addressSize = 8) ∧
      h.length + initialLengthSize h.format = (hdr ++ pad ++ h.entries).length := by
  unfold parseHeader at hp
  obtain ⟨⟨⟨len, fmt⟩, in1⟩, h1, hp⟩ := C17.bind_eq_ok _ _ _ hp
  obtain ⟨⟨body, in2⟩, h2, hp⟩ := C17.bind_eq_ok _ _ _ hp
  obtain ⟨⟨version, r1⟩, h3, hp⟩ := C17.bind_eq_ok _ _ _ hp
  simp only at hp
  split at hp
  · simp at hp
  obtain ⟨⟨dio, r2⟩, h4, hp⟩ := C17.bind_eq_ok _ _ _ hp
  obtain ⟨⟨as, r3⟩, h5, hp⟩ := C17.bind_eq_ok _ _ _ hp
  obtain ⟨⟨seg, r4⟩, h6, hp⟩ := C17.bind_eq_ok _ _ _ hp
  simp only at hp
  split at hp
  · simp at hp
  split at hp
  · simp at hp
  split at hp
  · simp at hp
  obtain ⟨⟨padb, r5⟩, h7, hp⟩ := C17.bind_eq_ok _ _ _ hp
  simp only [Out.pure_eq, Out.ok.injEq, Prod.mk.injEq] at hp
  obtain ⟨hh, hrest⟩ := hp
  subst hh hrest
  obtain ⟨a1, e1, l1⟩ := C17.readInitialLength_split e input len fmt in1 h1
  obtain ⟨e2, l2⟩ := C17.take_ok_split _ _ _ _ h2
  obtain ⟨a3, e3, l3, _⟩ := C17.readFixed_split e 2 body version r1 h3
  obtain ⟨a4, e4, l4⟩ := C17.readWord_split e fmt r1 dio r2 h4
  obtain ⟨b5, e5, _, has⟩ := (readAddressSize_ok_iff r2 as r3).mp h5
  obtain ⟨a6, e6, l6, _⟩ := C17.readFixed_split e 1 r3 seg r4 h6
  obtain ⟨e7, l7⟩ := C17.take_ok_split _ _ _ _ h7
  refine ⟨a1 ++ a3 ++ a4 ++ [b5] ++ a6, padb, ?_, ?_, ?_, has, ?_⟩
  · simp only
    rw [e1, e2, e3, e4, e5, e6, e7]
    simp [List.append_assoc]
  · simp only [List.length_append, l1, l3, l4, l6, List.length_singleton, headerLength, initialLengthSize]
    cases fmt <;> simp [Format.wordSize]
  · simp only; rw [l7]; rfl
  · simp only
    rw [← l2, e3, e4, e5, e6, e7]
    simp only [List.length_append, l1, l3, l4, l6, List.length_cons, List.length_nil, initialLengthSize]
    cases fmt <;> simp <;> omega
end Gimli.Aranges
