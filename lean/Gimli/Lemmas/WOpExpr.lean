import Gimli.Lemmas.WOpDecode
import Gimli.Model.Eval
/-!
# C15: expression-level lemmas — the offsets vector, sequential decoding, branch landing
-/
set_option linter.unusedSimpArgs false
namespace Gimli.WOp
open Gimli.Op (Encoding)

section
variable (e : Endian) (enc : Encoding) (uo : UnitOffs) (hasRefs : Bool)

theorem exprSize_cons (op : Operation) (rest : List Operation) (n : Nat) :
    exprSize enc uo (op :: rest) = .ok n ↔
      ∃ a b, opSize enc uo op = .ok a ∧ exprSize enc uo rest = .ok b ∧ n = a + b := by
  simp only [exprSize, bind_eq_ok, Out.pure_eq, Out.ok.injEq]
  constructor
  · rintro ⟨a, ha, b, hb, h⟩; exact ⟨a, b, ha, hb, h.symm⟩
  · rintro ⟨a, b, ha, hb, h⟩; exact ⟨a, ha, b, hb, h.symm⟩

theorem exprSize_append (pre suf : List Operation) (n : Nat) :
    exprSize enc uo (pre ++ suf) = .ok n ↔
      ∃ a b, exprSize enc uo pre = .ok a ∧ exprSize enc uo suf = .ok b ∧ n = a + b := by
  induction pre generalizing n with
  | nil => simp [exprSize]
  | cons op pre ih =>
    simp only [List.cons_append, exprSize_cons, ih]
    constructor
    · rintro ⟨a, b, ha, ⟨c, d, hc, hd, rfl⟩, rfl⟩
      exact ⟨a + c, d, ⟨a, c, ha, hc, rfl⟩, hd, by omega⟩
    · rintro ⟨x, d, ⟨a, c, ha, hc, rfl⟩, hd, rfl⟩
      exact ⟨a, c + d, ha, ⟨c, d, hc, hd, rfl⟩, by omega⟩

/-- the offsets vector starts with the start position -/
theorem exprOffsets_head (ops : List Operation) (pos : Nat) (offs : List Nat)
    (h : exprOffsets enc uo ops pos = .ok offs) : ∃ tl, offs = pos :: tl := by
  cases ops with
  | nil => simp only [exprOffsets, Out.ok.injEq] at h; exact ⟨[], h.symm⟩
  | cons op rest =>
    simp only [exprOffsets, bind_eq_ok, Out.pure_eq, Out.ok.injEq] at h
    obtain ⟨s, _, r, _, h⟩ := h
    exact ⟨r, h.symm⟩

theorem exprOffsets_length (ops : List Operation) (pos : Nat) (offs : List Nat)
    (h : exprOffsets enc uo ops pos = .ok offs) : offs.length = ops.length + 1 := by
  induction ops generalizing pos offs with
  | nil => simp only [exprOffsets, Out.ok.injEq] at h; simp [← h]
  | cons op rest ih =>
    simp only [exprOffsets, bind_eq_ok, Out.pure_eq, Out.ok.injEq] at h
    obtain ⟨s, _, r, hr, h⟩ := h
    simp [← h, ih _ _ hr]

/-- entry `|pre|` of the offsets vector is the start plus the predicted size of `pre` -/
theorem exprOffsets_get (pre suf : List Operation) (pos : Nat) (offs : List Nat)
    (h : exprOffsets enc uo (pre ++ suf) pos = .ok offs) :
    ∃ n, exprSize enc uo pre = .ok n ∧ offs[pre.length]? = some (pos + n) ∧
      ∃ o2, exprOffsets enc uo suf (pos + n) = .ok o2 := by
  induction pre generalizing pos offs with
  | nil =>
    obtain ⟨tl, rfl⟩ := exprOffsets_head enc uo _ _ _ h
    exact ⟨0, by simp [exprSize], by simp, _, h⟩
  | cons op pre ih =>
    simp only [List.cons_append, exprOffsets, bind_eq_ok, Out.pure_eq, Out.ok.injEq] at h
    obtain ⟨s, hs, r, hr, h⟩ := h
    obtain ⟨n, hn, hg, o2, ho2⟩ := ih _ _ hr
    refine ⟨s + n, ?_, ?_, o2, ?_⟩
    · rw [exprSize_cons]; exact ⟨s, n, hs, hn, rfl⟩
    · rw [← h]; simpa [Nat.add_assoc] using hg
    · simpa [Nat.add_assoc] using ho2

/-- the second loop, split at any point -/
theorem exprWriteOps_append (offs : List Nat) (pre suf : List Operation) (pos : Nat) (bs : Bytes) (fx : List Fixup) :
    exprWriteOps e enc uo hasRefs offs pos (pre ++ suf) = .ok (bs, fx) ↔
      ∃ b1 f1 b2 f2, exprWriteOps e enc uo hasRefs offs pos pre = .ok (b1, f1) ∧
        exprWriteOps e enc uo hasRefs offs (pos + b1.length) suf = .ok (b2, f2) ∧
        bs = b1 ++ b2 ∧ fx = f1 ++ f2 := by
  induction pre generalizing pos bs fx with
  | nil =>
    simp only [List.nil_append, exprWriteOps, Out.ok.injEq, Prod.mk.injEq]
    constructor
    · intro h; exact ⟨[], [], bs, fx, ⟨rfl, rfl⟩, by simpa using h, by simp, by simp⟩
    · rintro ⟨b1, f1, b2, f2, ⟨rfl, rfl⟩, h2, rfl, rfl⟩; simpa using h2
  | cons op pre ih =>
    simp only [List.cons_append, exprWriteOps, bind_eq_ok, Out.pure_eq, Out.ok.injEq, Prod.mk.injEq, Prod.exists, ih]
    constructor
    · rintro ⟨a, fa, ha, b, fb, ⟨b1, f1, b2, f2, h1, h2, rfl, rfl⟩, rfl, rfl⟩
      refine ⟨a ++ b1, fa ++ f1, b2, f2, ⟨a, fa, ha, b1, f1, h1, rfl, rfl⟩, ?_, by simp, by simp⟩
      simpa [Nat.add_assoc] using h2
    · rintro ⟨x, fx', b2, f2, ⟨a, fa, ha, b1, f1, h1, rfl, rfl⟩, h2, rfl, rfl⟩
      refine ⟨a, fa, ha, b1 ++ b2, f1 ++ f2, ⟨b1, f1, b2, f2, h1, ?_, rfl, rfl⟩, by simp, by simp⟩
      simpa [Nat.add_assoc] using h2

/-- **`debug_assert_eq!(w.len(), offset)` never fires**: in `Expression::write` every operation is
written exactly at its entry of the offsets vector, and the last entry is the end. -/
theorem exprWrite_at_offsets (pre suf : List Operation) (pos : Nat) (bs : Bytes) (fx : List Fixup) (offs : List Nat)
    (ho : exprOffsets enc uo (pre ++ suf) pos = .ok offs)
    (hw : exprWriteOps e enc uo hasRefs offs pos (pre ++ suf) = .ok (bs, fx)) :
    ∃ b1 f1 b2 f2, exprWriteOps e enc uo hasRefs offs pos pre = .ok (b1, f1) ∧
      exprWriteOps e enc uo hasRefs offs (pos + b1.length) suf = .ok (b2, f2) ∧
      bs = b1 ++ b2 ∧ fx = f1 ++ f2 ∧ offs[pre.length]? = some (pos + b1.length) := by
  obtain ⟨b1, f1, b2, f2, h1, h2, hb, hf⟩ := (exprWriteOps_append e enc uo hasRefs offs pre suf pos bs fx).mp hw
  obtain ⟨n, hn, hg, _⟩ := exprOffsets_get enc uo pre suf pos offs ho
  have := exprWriteOps_length e enc uo hasRefs pre _ _ _ _ h1
  rw [hn] at this
  simp only [Out.ok.injEq] at this
  exact ⟨b1, f1, b2, f2, h1, h2, hb, hf, by rw [hg, this]⟩
end

theorem computePc_lands (bs rest : Bytes) (A k : Nat) (hA : rest.length + A = bs.length)
    (hk : k ≤ bs.length) (hL : bs.length < 2 ^ 64) :
    Eval.computePc rest bs ((k : Int) - (A : Int)) = .ok (bs.drop k) := by
  unfold Eval.computePc
  have hpc : bs.length - rest.length = A := by omega
  have hp : (A + Value.pat 64 ((k : Int) - (A : Int))) % 2 ^ 64 = k := by
    unfold Value.pat
    have h64 : (2 : Int) ^ 64 = 18446744073709551616 := by decide
    have h64n : (2 : Nat) ^ 64 = 18446744073709551616 := by decide
    rw [h64, h64n] at *
    omega
  simp only [hpc, hp]
  simp [Nat.not_lt.mpr hk]

section
variable (e : Endian) (enc : Encoding) (uo : UnitOffs) (hasRefs : Bool)

theorem iterAll_nil (L fuel : Nat) : Op.iterAll e enc L fuel [] = ([], none) := by
  cases fuel <;> simp [Op.iterAll]

/-- `OperationIter` over the bytes the second loop emitted yields the expected images and ends -/
theorem iterAll_emit (offs : List Nat)
    (hoffs : ∀ f, uo = some f → ∀ en o, f en = some o → o < 2 ^ 64) :
    ∀ (ops : List Operation) (pos : Nat) (bs : Bytes) (fx : List Fixup) (L fuel : Nat),
      exprWriteOps e enc uo hasRefs offs pos ops = .ok (bs, fx) → (∀ op ∈ ops, OpWf op) →
      bs.length ≤ L → L < 2 ^ 64 → ops.length ≤ fuel →
      Op.iterAll e enc L fuel bs = (expectedDecode e enc uo hasRefs offs pos (L - bs.length) ops, none)
  | [], pos, bs, fx, L, fuel, hw, _, _, _, _ => by
    simp only [exprWriteOps, Out.ok.injEq, Prod.mk.injEq] at hw
    rw [← hw.1, iterAll_nil]; rfl
  | op :: rest, pos, bs, fx, L, fuel, hw, hwf, hL, hL64, hfuel => by
    simp only [exprWriteOps, bind_eq_ok, Out.pure_eq, Out.ok.injEq, Prod.mk.injEq, Prod.exists] at hw
    obtain ⟨b1, f1, h1, b2, f2, h2, rfl, rfl⟩ := hw
    have hwf1 : OpWf op := hwf op (by simp)
    have hl1 : b1.length < 2 ^ 64 := by simp at hL; omega
    obtain ⟨img, himg, hparse⟩ := opWrite_decode e enc uo hasRefs op offs pos b1 f1 b2 hoffs hl1 h1 hwf1
    have hn : opLen enc uo op = b1.length := by
      simp [opLen, opWrite_length e enc uo hasRefs op offs pos b1 f1 h1]
    cases fuel with
    | zero => simp at hfuel
    | succ fuel =>
      have ih := iterAll_emit offs hoffs rest (pos + b1.length) b2 f2 L fuel h2
        (fun o ho => hwf o (by simp [ho])) (by simp at hL; omega) hL64 (by simp at hfuel; omega)
      cases hin : b1 ++ b2 with
      | nil => rw [hin] at hparse; simp [Op.parse] at hparse
      | cons x xs =>
        rw [hin] at hparse
        simp only [Op.iterAll, hparse, ih]
        simp only [expectedDecode, himg, hn, Option.getD_some]
        have e1 : L - (b1 ++ b2).length + b1.length = L - b2.length := by
          simp at hL ⊢; omega
        rw [← hin, e1]
end

section
variable (e : Endian) (enc : Encoding) (uo : UnitOffs) (hasRefs : Bool)

theorem writeBranch_ok (offs : List Nat) (t wlen : Nat) (d rest : Bytes)
    (hd : writeBranch e offs t wlen = .ok d) :
    ∃ tt, offs[t]? = some tt ∧ d.length = 2 ∧
      Op.rdI e 2 (d ++ rest) = .ok ((tt : Int) - ((wlen : Int) + 2), rest) ∧
      -(2 : Int) ^ 15 ≤ (tt : Int) - ((wlen : Int) + 2) ∧ (tt : Int) - ((wlen : Int) + 2) < 2 ^ 15 := by
  have hdl := writeBranch_length _ _ _ _ _ hd
  unfold writeBranch at hd
  cases hg : offs[t]? with
  | none => simp [hg] at hd
  | some tt =>
    simp only [hg] at hd
    obtain ⟨hrt, hlo, hhi⟩ := rdI2_writeSdata e _ d rest hd
    exact ⟨tt, rfl, hdl, hrt, hlo, hhi⟩

/-- what a branch emits: opcode and the two displacement bytes; decoding gives back the
displacement `offsets[t] - (pos + 3)`, which fits `i16` -/
theorem opWrite_branch (op : Operation) (t : Nat) (hb : isBranchTo op t) (offs : List Nat) (pos : Nat)
    (bs : Bytes) (fx : List Fixup) (rest : Bytes)
    (hw : opWrite e enc uo hasRefs offs pos op = .ok (bs, fx)) :
    ∃ tt, offs[t]? = some tt ∧ bs.length = 3 ∧
      Op.parse e enc (bs ++ rest) = .ok (branchImage op ((tt : Int) - ((pos : Int) + 3)), rest) ∧
      -(2 : Int) ^ 15 ≤ (tt : Int) - ((pos : Int) + 3) ∧ (tt : Int) - ((pos : Int) + 3) < 2 ^ 15 := by
  rcases hb with rfl | rfl
  · simp only [opWrite, bind_eq_ok, Out.pure_eq, Out.ok.injEq, Prod.mk.injEq] at hw
    obtain ⟨d, hd, h2, _⟩ := hw
    obtain ⟨tt, htt, hdl, hrt, hlo, hhi⟩ := writeBranch_ok e offs t (pos + 1) d rest hd
    have e3 : ((tt : Nat) : Int) - ((pos : Int) + 3) = (tt : Int) - (((pos + 1 : Nat) : Int) + 2) := by omega
    refine ⟨tt, htt, by simp [← h2, hdl], ?_, by rw [e3]; exact hlo, by rw [e3]; exact hhi⟩
    rw [← h2]
    simp only [List.cons_append, parse_cons, branchImage]
    show Op.parseOperands e enc 0x2f _ = _
    simp [po_2f, e3, hrt]
  · simp only [opWrite, bind_eq_ok, Out.pure_eq, Out.ok.injEq, Prod.mk.injEq] at hw
    obtain ⟨d, hd, h2, _⟩ := hw
    obtain ⟨tt, htt, hdl, hrt, hlo, hhi⟩ := writeBranch_ok e offs t (pos + 1) d rest hd
    have e3 : ((tt : Nat) : Int) - ((pos : Int) + 3) = (tt : Int) - (((pos + 1 : Nat) : Int) + 2) := by omega
    refine ⟨tt, htt, by simp [← h2, hdl], ?_, by rw [e3]; exact hlo, by rw [e3]; exact hhi⟩
    rw [← h2]
    simp only [List.cons_append, parse_cons, branchImage]
    show Op.parseOperands e enc 0x28 _ = _
    simp [po_28, e3, hrt]

/-- **Branches land on the intended operation.** -/
theorem branch_lands_aux (pre suf : List Operation) (op : Operation) (t : Nat) (hb : isBranchTo op t)
    (pos : Nat) (bs : Bytes) (fx : List Fixup) (hL : bs.length < 2 ^ 64)
    (hw : exprWrite e enc uo hasRefs pos (pre ++ op :: suf) = .ok (bs, fx)) :
    t ≤ (pre ++ op :: suf).length ∧
    ∃ (offs : List Nat) (b1 : Bytes) (f1 : List Fixup) (d : Int) (after : Bytes) (bt : Bytes) (ft : List Fixup) (btail : Bytes) (ftail : List Fixup),
      exprOffsets enc uo (pre ++ op :: suf) pos = .ok offs ∧
      -- the operations before the branch emitted `b1`; at that offset the reader finds the branch
      exprWriteOps e enc uo hasRefs offs pos pre = .ok (b1, f1) ∧
      Op.parse e enc (bs.drop b1.length) = .ok (branchImage op d, after) ∧
      -- the operations before the target emitted `bt`; what remains after them is what the target
      -- and its successors emitted
      exprWriteOps e enc uo hasRefs offs pos ((pre ++ op :: suf).take t) = .ok (bt, ft) ∧
      exprWriteOps e enc uo hasRefs offs (pos + bt.length) ((pre ++ op :: suf).drop t) = .ok (btail, ftail) ∧
      bs = bt ++ btail ∧
      -- and that is where the evaluator's `compute_pc` puts the pc
      Eval.computePc after bs d = .ok btail := by
  simp only [exprWrite, bind_eq_ok] at hw
  obtain ⟨offs, ho, hw⟩ := hw
  obtain ⟨b1, f1, b2, f2, h1, h2, hbs, _, hg1⟩ := exprWrite_at_offsets e enc uo hasRefs pre (op :: suf) pos bs fx offs ho hw
  simp only [exprWriteOps, bind_eq_ok, Out.pure_eq, Out.ok.injEq, Prod.mk.injEq, Prod.exists] at h2
  obtain ⟨bo, fo, hop, b3, f3, h3, rfl, _⟩ := h2
  obtain ⟨tt, htt, hl3, hparse, hlo, hhi⟩ := opWrite_branch e enc uo hasRefs op t hb offs (pos + b1.length) bo fo b3 hop
  have hlen := exprOffsets_length enc uo _ _ _ ho
  have htle : t ≤ (pre ++ op :: suf).length := by
    have : t < offs.length := by
      rcases Nat.lt_or_ge t offs.length with h | h
      · exact h
      · rw [List.getElem?_eq_none h] at htt; simp at htt
    rw [hlen] at this
    omega
  refine ⟨htle, ?_⟩
  -- split the expression at the target
  have hsplit : (pre ++ op :: suf) = (pre ++ op :: suf).take t ++ (pre ++ op :: suf).drop t := (List.take_append_drop t _).symm
  have ho' := ho
  have hw' := hw
  rw [hsplit] at ho' hw'
  obtain ⟨bt, ft, btail, ftail, ht1, ht2, hbs2, _, hg2⟩ :=
    exprWrite_at_offsets e enc uo hasRefs _ _ pos bs fx offs ho' hw'
  have htl : ((pre ++ op :: suf).take t).length = t := by rw [List.length_take]; omega
  rw [htl, htt] at hg2
  simp only [Option.some.injEq] at hg2
  refine ⟨offs, b1, f1, ((tt : Int) - (((pos + b1.length : Nat) : Int) + 3)), b3, bt, ft, btail, ftail, ho, h1, ?_, ht1, ht2, hbs2, ?_⟩
  · rw [hbs, List.drop_left' rfl]; exact hparse
  · subst hg2
    have hk : bt.length ≤ bs.length := by rw [hbs2]; simp
    have hA : b3.length + (b1.length + 3) = bs.length := by rw [hbs]; simp; omega
    have := computePc_lands bs b3 (b1.length + 3) bt.length hA hk hL
    have hd : ((pos + bt.length : Nat) : Int) - (((pos + b1.length : Nat) : Int) + 3) = (bt.length : Int) - ((b1.length + 3 : Nat) : Int) := by
      omega
    rw [hd, this, hbs2, List.drop_left' rfl]
end
/-! ## displacements that do not fit; references without an offset -/
section
variable (e : Endian) (enc : Encoding) (uo : UnitOffs) (hasRefs : Bool)

theorem toSigned2_range (p : Nat) : -(2:Int)^15 ≤ Ints.toSigned 2 p ∧ Ints.toSigned 2 p < 2^15 := by
  unfold Ints.toSigned
  have h1 : (2:Nat) ^ (8 * 2) = 65536 := by decide
  have h2 : (2:Nat) ^ (8 * 2 - 1) = 32768 := by decide
  have h3 : (2:Int) ^ (8 * 2) = 65536 := by decide
  have h4 : (2:Int) ^ 15 = 32768 := by decide
  rw [h1, h2, h3, h4]
  split <;> omega

/-- a displacement that does not fit `i16` is `ValueTooLarge`, whatever else -/
theorem branch_too_far (op : Operation) (t : Nat) (hb : isBranchTo op t) (offs : List Nat) (pos tt : Nat)
    (hg : offs[t]? = some tt)
    (hfar : (tt : Int) - ((pos : Int) + 3) < -(2:Int)^15 ∨ (2:Int)^15 ≤ (tt : Int) - ((pos : Int) + 3)) :
    opWrite e enc uo hasRefs offs pos op = .err .wValueTooLarge := by
  have key : writeBranch e offs t (pos + 1) = .err .wValueTooLarge := by
    unfold writeBranch
    simp only [hg]
    unfold Ints.writeSdata
    simp only [Nat.reduceEqDiff, true_or, or_true, if_true]
    have e3 : ((tt : Nat) : Int) - ((pos : Int) + 3) = (tt : Int) - (((pos + 1 : Nat) : Int) + 2) := by omega
    rw [e3] at hfar
    have hr := toSigned2_range ((((tt : Int) - (((pos + 1 : Nat) : Int) + 2)) % 2 ^ (8 * 2)).toNat)
    have : Ints.toSigned 2 ((((tt : Int) - (((pos + 1 : Nat) : Int) + 2)) % 2 ^ (8 * 2)).toNat) ≠ (tt : Int) - (((pos + 1 : Nat) : Int) + 2) := by
      intro h; rw [h] at hr; omega
    exact if_pos this
  rcases hb with rfl | rfl <;> simp [opWrite, key]

/-- a direct reference to an entry without an offset is the specific error -/
theorem directRef_unknown (op : Operation) (en : Nat) (hd : directRef op = some en)
    (offs : Nat → Option Nat) (hn : offs en = none) (offsets : List Nat) (pos : Nat) :
    opWrite e enc (some offs) hasRefs offsets pos op = .err .wUnsupportedExpressionForwardReference := by
  cases op <;> simp only [directRef, Option.some.injEq] at hd <;> try (simp at hd)
  all_goals try (subst hd; simp [opWrite, entryOffset, hn])
  all_goals
    rename_i base
    cases base <;> simp only [directRef, Option.some.injEq] at hd <;> try (simp at hd)
    subst hd; simp [opWrite, entryOffset, hn]

theorem directRef_cfi (op : Operation) (en : Nat) (hd : directRef op = some en)
    (offsets : List Nat) (pos : Nat) :
    opWrite e enc none hasRefs offsets pos op = .err .wUnsupportedCfiExpressionReference := by
  cases op <;> simp only [directRef, Option.some.injEq] at hd <;> try (simp at hd)
  all_goals try (simp [opWrite, entryOffset])
  all_goals
    rename_i base
    cases base <;> simp only [directRef, Option.some.injEq] at hd <;> try (simp at hd)
    simp [opWrite, entryOffset]

theorem entryOffset_isSome (offs : Nat → Option Nat) (en o : Nat) (h : entryOffset (some offs) en = .ok o) :
    (offs en).isSome = true := by
  obtain ⟨f, hf, hfe⟩ := entryOffset_some _ _ _ h
  simp only [Option.some.injEq] at hf
  subst hf; simp [hfe]

mutual
/-- a successful write had an offset for every entry it refers to, at any nesting depth -/
theorem opWrite_refsKnown (offs : Nat → Option Nat) :
    ∀ (op : Operation) (offsets : List Nat) (pos : Nat) (bs : Bytes) (fx : List Fixup),
      opWrite e enc (some offs) hasRefs offsets pos op = .ok (bs, fx) → refsKnown offs op = true
  | .constantType base value, offsets, pos, bs, fx, h => by
    simp only [opWrite, bind_eq_ok] at h
    obtain ⟨o, ho, _⟩ := h
    simp [refsKnown, entryOffset_isSome offs _ _ ho]
  | .registerType r base, offsets, pos, bs, fx, h => by
    simp only [opWrite, bind_eq_ok] at h
    obtain ⟨o, ho, _⟩ := h
    simp [refsKnown, entryOffset_isSome offs _ _ ho]
  | .derefType sp sz base, offsets, pos, bs, fx, h => by
    simp only [opWrite, bind_eq_ok] at h
    obtain ⟨o, ho, _⟩ := h
    simp [refsKnown, entryOffset_isSome offs _ _ ho]
  | .call en, offsets, pos, bs, fx, h => by
    simp only [opWrite, bind_eq_ok] at h
    obtain ⟨o, ho, _⟩ := h
    simp [refsKnown, entryOffset_isSome offs _ _ ho]
  | .parameterRef en, offsets, pos, bs, fx, h => by
    simp only [opWrite, bind_eq_ok] at h
    obtain ⟨o, ho, _⟩ := h
    simp [refsKnown, entryOffset_isSome offs _ _ ho]
  | .convert (some b), offsets, pos, bs, fx, h => by
    simp only [opWrite, bind_eq_ok] at h
    obtain ⟨o, ho, _⟩ := h
    simp [refsKnown, entryOffset_isSome offs _ _ ho]
  | .reinterpret (some b), offsets, pos, bs, fx, h => by
    simp only [opWrite, bind_eq_ok] at h
    obtain ⟨o, ho, _⟩ := h
    simp [refsKnown, entryOffset_isSome offs _ _ ho]
  | .entryValue body, offsets, pos, bs, fx, h => by
    simp only [opWrite, bind_eq_ok, Prod.exists] at h
    obtain ⟨len, _, o2, _, b, f, hw, _⟩ := h
    simp [refsKnown, exprWriteOps_refsKnown offs body _ _ _ _ hw]
  | .convert none, _, _, _, _, _ => by simp [refsKnown]
  | .reinterpret none, _, _, _, _, _ => by simp [refsKnown]
  | .raw _, _, _, _, _, _ => by simp [refsKnown]
  | .simple _, _, _, _, _, _ => by simp [refsKnown]
  | .address _, _, _, _, _, _ => by simp [refsKnown]
  | .unsignedConstant _, _, _, _, _, _ => by simp [refsKnown]
  | .signedConstant _, _, _, _, _, _ => by simp [refsKnown]
  | .frameOffset _, _, _, _, _, _ => by simp [refsKnown]
  | .registerOffset _ _, _, _, _, _, _ => by simp [refsKnown]
  | .pick _, _, _, _, _, _ => by simp [refsKnown]
  | .deref _, _, _, _, _, _ => by simp [refsKnown]
  | .derefSize _ _, _, _, _, _, _ => by simp [refsKnown]
  | .plusConstant _, _, _, _, _, _ => by simp [refsKnown]
  | .skip _, _, _, _, _, _ => by simp [refsKnown]
  | .branch _, _, _, _, _, _ => by simp [refsKnown]
  | .callRef _, _, _, _, _, _ => by simp [refsKnown]
  | .variableValue _, _, _, _, _, _ => by simp [refsKnown]
  | .register _, _, _, _, _, _ => by simp [refsKnown]
  | .implicitValue _, _, _, _, _, _ => by simp [refsKnown]
  | .implicitPointer _ _, _, _, _, _, _ => by simp [refsKnown]
  | .piece _, _, _, _, _, _ => by simp [refsKnown]
  | .bitPiece _ _, _, _, _, _, _ => by simp [refsKnown]
  | .wasmLocal _, _, _, _, _, _ => by simp [refsKnown]
  | .wasmGlobal _, _, _, _, _, _ => by simp [refsKnown]
  | .wasmStack _, _, _, _, _, _ => by simp [refsKnown]

theorem exprWriteOps_refsKnown (offs : Nat → Option Nat) :
    ∀ (ops : List Operation) (offsets : List Nat) (pos : Nat) (bs : Bytes) (fx : List Fixup),
      exprWriteOps e enc (some offs) hasRefs offsets pos ops = .ok (bs, fx) → refsKnownAll offs ops = true
  | [], _, _, _, _, _ => by simp [refsKnownAll]
  | op :: rest, offsets, pos, bs, fx, h => by
    simp only [exprWriteOps, bind_eq_ok, Prod.exists] at h
    obtain ⟨b1, f1, h1, b2, f2, h2, _⟩ := h
    simp [refsKnownAll, opWrite_refsKnown offs op _ _ _ _ h1, exprWriteOps_refsKnown offs rest _ _ _ _ h2]
end
end

theorem expr_size_eq_emit' (e : Endian) (enc : Encoding) (uo : UnitOffs) (hasRefs : Bool)
    (ops : List Operation) (pos : Nat) (bs : Bytes) (fx : List Fixup)
    (h : exprWrite e enc uo hasRefs pos ops = .ok (bs, fx)) :
    exprSize enc uo ops = .ok bs.length := by
  simp only [exprWrite, bind_eq_ok] at h
  obtain ⟨offs, _, hw⟩ := h
  exact exprWriteOps_length e enc uo hasRefs ops offs pos bs fx hw

/-! ## length prefixes -/
section
variable (e : Endian) (enc : Encoding) (uo : UnitOffs)

theorem writeExprloc_prefix (pos : Nat) (ops : List Operation) (bs : Bytes) (fx : List Fixup)
    (h : writeExprloc e enc uo pos ops = .ok (bs, fx)) (hL : bs.length < 2 ^ 64) :
    ∃ body, exprWrite e enc uo true (pos + (Leb.encodeU body.length).length) ops = .ok (body, fx) ∧
      bs = Leb.encodeU body.length ++ body ∧
      ∀ rest, Leb.unsigned (bs ++ rest) = .ok (body.length, body ++ rest) := by
  simp only [writeExprloc, bind_eq_ok, Out.pure_eq, Out.ok.injEq, Prod.mk.injEq, Prod.exists] at h
  obtain ⟨size, hs, body, f, hw, rfl, rfl⟩ := h
  have := expr_size_eq_emit' e enc uo true ops _ body f hw
  rw [hs] at this
  simp only [Out.ok.injEq] at this
  subst this
  refine ⟨body, hw, rfl, fun rest => ?_⟩
  rw [List.append_assoc]
  exact Leb.unsigned_roundtrip _ (by simp at hL; omega) _

theorem writeCfiExpr_prefix (pos : Nat) (ops : List Operation) (bs : Bytes) (fx : List Fixup)
    (h : writeCfiExpr e enc pos ops = .ok (bs, fx)) (hL : bs.length < 2 ^ 64) :
    ∃ body, exprWrite e enc none false (pos + (Leb.encodeU body.length).length) ops = .ok (body, fx) ∧
      bs = Leb.encodeU body.length ++ body ∧
      ∀ rest, Leb.unsigned (bs ++ rest) = .ok (body.length, body ++ rest) := by
  simp only [writeCfiExpr, bind_eq_ok, Out.pure_eq, Out.ok.injEq, Prod.mk.injEq, Prod.exists] at h
  obtain ⟨size, hs, body, f, hw, rfl, rfl⟩ := h
  have := expr_size_eq_emit' e enc none false ops _ body f hw
  rw [hs] at this
  simp only [Out.ok.injEq] at this
  subst this
  refine ⟨body, hw, rfl, fun rest => ?_⟩
  rw [List.append_assoc]
  exact Leb.unsigned_roundtrip _ (by simp at hL; omega) _

theorem writeLocExpr_prefix (pos : Nat) (ops : List Operation) (bs : Bytes) (fx : List Fixup)
    (h : writeLocExpr e enc uo pos ops = .ok (bs, fx)) (hL : bs.length < 2 ^ 64) :
    ∃ pre body, exprWrite e enc uo true (pos + pre.length) ops = .ok (body, fx) ∧ bs = pre ++ body ∧
      ∀ rest,
        (if enc.version ≤ 4 then Op.rdU e 2 (bs ++ rest) else Leb.unsigned (bs ++ rest)) =
          .ok (body.length, body ++ rest) := by
  simp only [writeLocExpr, bind_eq_ok, Out.pure_eq, Out.ok.injEq, Prod.mk.injEq, Prod.exists] at h
  obtain ⟨size, hs, pre, hpre, body, f, hw, rfl, rfl⟩ := h
  have := expr_size_eq_emit' e enc uo true ops _ body f hw
  rw [hs] at this
  simp only [Out.ok.injEq] at this
  subst this
  refine ⟨pre, body, hw, rfl, fun rest => ?_⟩
  have h64 : body.length < 2 ^ 64 := by simp at hL; omega
  rw [List.append_assoc]
  by_cases hv : enc.version ≤ 4
  · simp only [locPrefix, hv, if_true] at hpre ⊢
    exact rdU_writeUdata e _ 2 pre _ hpre h64
  · simp only [locPrefix, hv, if_false, Out.ok.injEq] at hpre ⊢
    rw [← hpre]
    exact Leb.unsigned_roundtrip _ h64 _
end
/-! ## section references and their fix-ups -/

section
variable (e : Endian) (enc : Encoding) (uo : UnitOffs)

theorem rdOffset_writeUdata (f : Format) (o : Nat) (p rest : Bytes)
    (h : Ints.writeUdata e o f.wordSize = .ok p) (ho : o < 2 ^ 64) :
    Op.rdOffset e f (p ++ rest) = .ok (o, rest) := by
  have rt := (Ints.writeUdata_roundtrip e o _ p rest h ho).2
  cases f with
  | dwarf32 => simpa [Op.rdOffset, Ints.readWord, Format.wordSize] using rt
  | dwarf64 =>
    simp only [Format.wordSize] at rt
    simp [Op.rdOffset, Ints.readWord, rt, Ints.offsetFromU64, ho]

theorem patchAt_one (b : UInt8) (z p tail : Bytes) (h : z.length = p.length) :
    patchAt (b :: (z ++ tail)) 1 p = b :: (p ++ tail) := by
  unfold patchAt
  simp only [List.take_succ_cons, List.take_zero, List.cons_append, List.nil_append]
  congr 1
  congr 1
  rw [show 1 + p.length = (z.length) + 1 by omega]
  simp [List.drop_left']

/-- **Section references resolve to the intended entry.** An operation with a `.debug_info`
reference to entry `(unit, entry)` records exactly one fix-up, at the reference field; once
`write_debug_info_fixups` has patched it with that entry's `.debug_info` offset `o`, the reader
decodes the operation with reference value `o`. An entry without offset makes the fix-up pass fail
with `InvalidReference`. -/
theorem sectionRef_fixed (hasRefs : Bool) (op : Operation) (r : DRef) (size : Nat)
    (hs : sectionRef enc op = some (r, size))
    (offsets : List Nat) (pos : Nat) (bs : Bytes) (fx : List Fixup) (rest : Bytes)
    (hw : opWrite e enc uo hasRefs offsets pos op = .ok (bs, fx)) (hwf : OpWf op)
    (info : Nat → Nat → Option Nat) :
    ∃ u en, r = .entry u en ∧ fx = [⟨pos + 1, size, u, en⟩] ∧
      (info u en = none → applyFixups e info pos bs fx = .err .wInvalidReference) ∧
      ∀ o, info u en = some o → o < 2 ^ 64 → ∀ bs', applyFixups e info pos bs fx = .ok bs' →
        Op.parse e enc (bs' ++ rest) = .ok ((image enc (fun _ => none) 0 [] o op).getD .nop, rest) := by
  cases op <;> simp only [sectionRef, Option.some.injEq, Prod.mk.injEq] at hs <;> try (simp at hs)
  case callRef r0 =>
    obtain ⟨rfl, rfl⟩ := hs
    simp only [opWrite, bind_eq_ok, Out.pure_eq, Out.ok.injEq, Prod.mk.injEq, Prod.exists] at hw
    obtain ⟨z, f, hz, rfl, rfl⟩ := hw
    obtain ⟨hz0, u, en, rfl, rfl⟩ := writeDRef_entry _ _ _ _ _ _ _ hz
    have hzl := writeUdata_length _ _ _ _ hz0
    refine ⟨u, en, rfl, rfl, ?_, ?_⟩
    · intro hn; simp [applyFixups, hn]
    · intro o ho ho64 bs' hap
      simp only [applyFixups, ho, bind_eq_ok, Out.ok.injEq] at hap
      obtain ⟨p, hp, hap⟩ := hap
      have hpl := writeUdata_length _ _ _ _ hp
      have := patchAt_one 0x9a z p [] (by omega)
      simp only [List.append_nil, Nat.add_sub_cancel_left] at this hap
      rw [this] at hap
      rw [← hap]
      simp only [List.cons_append, parse_cons, image, Option.getD_some]
      show Op.parseOperands e enc 0x9a _ = _
      simp [po_9a, rdOffset_writeUdata e enc.format o p rest hp ho64]
  case variableValue r0 =>
    obtain ⟨rfl, rfl⟩ := hs
    simp only [opWrite, bind_eq_ok, Out.pure_eq, Out.ok.injEq, Prod.mk.injEq, Prod.exists] at hw
    obtain ⟨z, f, hz, rfl, rfl⟩ := hw
    obtain ⟨hz0, u, en, rfl, rfl⟩ := writeDRef_entry _ _ _ _ _ _ _ hz
    have hzl := writeUdata_length _ _ _ _ hz0
    refine ⟨u, en, rfl, rfl, ?_, ?_⟩
    · intro hn; simp [applyFixups, hn]
    · intro o ho ho64 bs' hap
      simp only [applyFixups, ho, bind_eq_ok, Out.ok.injEq] at hap
      obtain ⟨p, hp, hap⟩ := hap
      have hpl := writeUdata_length _ _ _ _ hp
      have := patchAt_one 0xfd z p [] (by omega)
      simp only [List.append_nil, Nat.add_sub_cancel_left] at this hap
      rw [this] at hap
      rw [← hap]
      simp only [List.cons_append, parse_cons, image, Option.getD_some]
      show Op.parseOperands e enc 0xfd _ = _
      simp [po_fd, rdOffset_writeUdata e enc.format o p rest hp ho64]
  case implicitPointer r0 bo =>
    obtain ⟨rfl, rfl⟩ := hs
    simp only [opWrite, bind_eq_ok, Out.pure_eq, Out.ok.injEq, Prod.mk.injEq, Prod.exists] at hw
    obtain ⟨z, f, hz, rfl, rfl⟩ := hw
    obtain ⟨hz0, u, en, rfl, rfl⟩ := writeDRef_entry _ _ _ _ _ _ _ hz
    have hzl := writeUdata_length _ _ _ _ hz0
    refine ⟨u, en, rfl, rfl, ?_, ?_⟩
    · intro hn; simp [applyFixups, hn]
    · intro o ho ho64 bs' hap
      simp only [applyFixups, ho, bind_eq_ok, Out.ok.injEq] at hap
      obtain ⟨p, hp, hap⟩ := hap
      have hpl := writeUdata_length _ _ _ _ hp
      have := patchAt_one (vOp enc 0xa0 0xf2) z p (Leb.encodeS bo) (by omega)
      simp only [Nat.add_sub_cancel_left] at this hap
      rw [this] at hap
      rw [← hap]
      simp only [List.cons_append, List.append_assoc, parse_cons, image, Option.getD_some]
      have key : poImplicitPointer e enc (p ++ (Leb.encodeS bo ++ rest)) = .ok (.implicitPointer o bo, rest) := by
        unfold poImplicitPointer
        unfold implicitPointerRefSize at hp
        by_cases h2v : enc.version = 2
        · simp only [h2v, if_true] at hp ⊢
          simp [readAddress_writeUdata e o _ p _ hp ho64, Leb.signed_roundtrip bo hwf.1 hwf.2]
        · simp only [h2v, if_false] at hp ⊢
          simp [rdOffset_writeUdata e enc.format o p _ hp ho64, Leb.signed_roundtrip bo hwf.1 hwf.2]
      rcases vOp_cases enc 0xa0 0xf2 with ⟨_, hv⟩ | ⟨_, hv⟩ <;> rw [hv]
      · show Op.parseOperands e enc 0xa0 _ = _
        rw [po_a0]; exact key
      · show Op.parseOperands e enc 0xf2 _ = _
        rw [po_f2]; exact key
end
end Gimli.WOp
