import Gimli.Lemmas.WLine
/-! Helper lemmas for C13: the unit header `LineProgram::write` emits for versions 2–4 (inline
strings) is parsed back by C04's `parseHeader`. -/
namespace Gimli.WLine
open Gimli Gimli.Line

theorem readCStr_append (s : Bytes) (hs : ∀ b ∈ s, b ≠ 0) (rest : Bytes) :
    readCStr (s ++ 0 :: rest) = .ok (s, rest) := by
  induction s with
  | nil => simp [readCStr]
  | cons b s ih =>
    have hb : b ≠ 0 := hs b (by simp)
    simp only [List.cons_append, readCStr, hb, ↓reduceIte]
    rw [ih (fun c hc => hs c (by simp [hc]))]

theorem readFixed_one (e : Endian) (b : UInt8) (rest : Bytes) :
    Ints.readFixed e 1 (b :: rest) = .ok (b.toNat, rest) := by
  unfold Ints.readFixed Ints.take
  cases e <;> simp [Ints.fromBytes, Ints.leVal]

/-- a `LineString::String` that `add_directory`/`add_file` accept for versions ≤ 4 -/
def InlineOk (s : LineStr) : Prop := s.form = .string ∧ s.val ≠ [] ∧ ∀ b ∈ s.val, b ≠ 0

theorem writeStr_inline (en : Endian) (format : Format) (version : Nat) (m : Mode) (tabs : Tabs)
    (s : LineStr) (hs : InlineOk s) :
    writeStr en format version m tabs .string s = .ok (s.val ++ [0]) := by
  obtain ⟨hf, hne, _⟩ := hs
  unfold writeStr
  rw [if_neg (by rw [hf]; simp)]
  rw [hf]
  simp only
  have : s.val.isEmpty = false := by
    cases hv : s.val with
    | nil => exact absurd hv hne
    | cons => rfl
  rw [if_neg (by simp [this])]

/-- the concatenation `LineProgram::write` emits for the include directories of versions ≤ 4 -/
def dirBytes : List LineStr → Bytes
  | [] => []
  | d :: ds => d.val ++ 0 :: dirBytes ds

theorem writeStrs_inline (en : Endian) (format : Format) (version : Nat) (m : Mode) (tabs : Tabs) :
    ∀ (ds : List LineStr), (∀ d ∈ ds, InlineOk d) →
      writeStrs en format version m tabs .string ds = .ok (dirBytes ds) := by
  intro ds
  induction ds with
  | nil => intro _; rfl
  | cons d ds ih =>
    intro h
    rw [writeStrs, writeStr_inline en format version m tabs d (h d (by simp)),
      ih (fun x hx => h x (by simp [hx]))]
    simp [dirBytes]


theorem parseDirsV4_written : ∀ (ds : List LineStr) (fuel : Nat) (rest : Bytes),
    (∀ d ∈ ds, InlineOk d) → (dirBytes ds).length + rest.length + 1 < fuel + 1 + 0 →
    parseDirsV4 (fuel + 1) (dirBytes ds ++ 0 :: rest) = .ok (ds.map (fun d => AttrVal.string d.val), rest) := by
  intro ds
  induction ds with
  | nil =>
    intro fuel rest _ _
    simp [dirBytes, parseDirsV4, readCStr]
  | cons d ds ih =>
    intro fuel rest h hf
    obtain ⟨_, hne, hnz⟩ := h d (by simp)
    have hstep : dirBytes (d :: ds) ++ 0 :: rest = d.val ++ 0 :: (dirBytes ds ++ 0 :: rest) := by
      simp [dirBytes]
    rw [hstep, parseDirsV4]
    simp only [readCStr_append d.val hnz, Out.bind_ok]
    have hemp : d.val.isEmpty = false := by
      cases hv : d.val with
      | nil => exact absurd hv hne
      | cons => rfl
    simp only [hemp, Bool.false_eq_true, ↓reduceIte]
    cases fuel with
    | zero => simp [dirBytes] at hf
    | succ f =>
      rw [ih f rest (fun x hx => h x (by simp [hx])) (by simp [dirBytes] at hf ⊢; omega)]
      simp


/-- the file entries `LineProgram::write` emits for versions ≤ 4 -/
def fileBytes : List FileEnt → Bytes
  | [] => []
  | f :: fs => f.name.val ++ 0 :: (Leb.encodeU f.dir ++ (Leb.encodeU f.info.timestamp ++
      (Leb.encodeU f.info.size ++ fileBytes fs)))

/-- the reader's view of a version ≤ 4 file entry -/
def FileEnt.toEntry (f : FileEnt) : FileEntry :=
  { path := .string f.name.val, dirIndex := f.dir, timestamp := f.info.timestamp, size := f.info.size,
    md5 := List.replicate 16 0, source := none }

def FileFits (f : FileEnt) : Prop := f.dir < 2 ^ 64 ∧ f.info.timestamp < 2 ^ 64 ∧ f.info.size < 2 ^ 64

theorem parseFilesV4_written : ∀ (fs : List FileEnt) (fuel : Nat) (rest : Bytes),
    (∀ f ∈ fs, InlineOk f.name ∧ FileFits f) → (fileBytes fs).length + rest.length + 1 < fuel + 1 →
    parseFilesV4 (fuel + 1) (fileBytes fs ++ 0 :: rest) = .ok (fs.map FileEnt.toEntry, rest) := by
  intro fs
  induction fs with
  | nil =>
    intro fuel rest _ _
    simp [fileBytes, parseFilesV4, readCStr]
  | cons f fs ih =>
    intro fuel rest h hf
    obtain ⟨⟨_, hne, hnz⟩, hd, ht, hs⟩ := h f (by simp)
    have hstep : fileBytes (f :: fs) ++ 0 :: rest = f.name.val ++ 0 :: (Leb.encodeU f.dir ++
        (Leb.encodeU f.info.timestamp ++ (Leb.encodeU f.info.size ++ (fileBytes fs ++ 0 :: rest)))) := by
      simp [fileBytes]
    rw [hstep, parseFilesV4]
    simp only [readCStr_append f.name.val hnz, Out.bind_ok]
    have hemp : f.name.val.isEmpty = false := by
      cases hv : f.name.val with
      | nil => exact absurd hv hne
      | cons => rfl
    simp only [hemp, Bool.false_eq_true, ↓reduceIte, parseFileEntryV4, Leb.unsigned_roundtrip _ hd,
      Leb.unsigned_roundtrip _ ht, Leb.unsigned_roundtrip _ hs, Out.bind_ok, Out.pure_eq]
    cases fuel with
    | zero => simp [fileBytes] at hf
    | succ k =>
      rw [ih k rest (fun x hx => h x (by simp [hx])) (by simp [fileBytes] at hf ⊢; omega)]
      simp [FileEnt.toEntry]

theorem take_append (a b : Bytes) : Ints.take a.length (a ++ b) = .ok (a, b) := by
  rw [Ints.take_ok _ _ (by simp)]
  simp

theorem ofNat_toNat'' (n : Nat) (h : n < 256) : (UInt8.ofNat n).toNat = n := by
  simp [Nat.mod_eq_of_lt h]

theorem toI8_ofI64 (lb : Int) (h1 : -128 ≤ lb) (h2 : lb ≤ 127) :
    toI8 (UInt8.ofNat (Leb.ofI64 lb % 256)).toNat = lb := by
  rw [ofNat_toNat'' _ (Nat.mod_lt _ (by decide))]
  unfold toI8 Leb.ofI64
  split <;> omega

theorem readWord_written (e : Endian) (format : Format) (len : Nat) (hl : Bytes) (rest : Bytes)
    (hlen : len < 2 ^ 64) (hw : Ints.writeUdata e len format.wordSize = .ok hl) :
    Ints.readWord e 64 format (hl ++ rest) = .ok (len, rest) := by
  obtain ⟨_, hr⟩ := Ints.writeUdata_roundtrip e len format.wordSize hl rest hw hlen
  cases format with
  | dwarf32 => exact hr
  | dwarf64 =>
    unfold Ints.readWord
    simp only [Format.wordSize] at hr
    simp only [hr, Out.bind_ok, Ints.offsetFromU64, hlen, ↓reduceIte, Out.pure_eq]

/-- the parameter block of a version 2–4 header as `LineProgram::write` lays it out, followed by
`tables` -/
def headerBodyV4 (e : Enc) (tables : Bytes) : Bytes :=
  [UInt8.ofNat e.minInstLen] ++ (if e.version ≥ 4 then [UInt8.ofNat e.maxOps] else []) ++
    [UInt8.ofNat (b2n e.defaultIsStmt), UInt8.ofNat (Leb.ofI64 e.lineBase % 256),
     UInt8.ofNat e.lineRange, UInt8.ofNat opcodeBase] ++ stdLens ++ tables

/-- what a reader accepts: byte-sized, non-zero parameters -/
def EncReadable (e : Enc) : Prop :=
  2 ≤ e.version ∧ e.version ≤ 4 ∧ 1 ≤ e.minInstLen ∧ e.minInstLen ≤ 255 ∧ 1 ≤ e.maxOps ∧ e.maxOps ≤ 255 ∧
  (e.version ≤ 3 → e.maxOps = 1) ∧ -128 ≤ e.lineBase ∧ e.lineBase ≤ 127 ∧ 1 ≤ e.lineRange ∧ e.lineRange ≤ 255

/-- the reader's parameter block for `e` -/
def paramsOf (en : Endian) (format : Format) (addrSize : Nat) (e : Enc) : Params :=
  { endian := en, format, version := e.version, addrSize, minInstLen := e.minInstLen,
    maxOps := e.maxOps, defaultIsStmt := e.defaultIsStmt, lineBase := e.lineBase,
    lineRange := e.lineRange, opcodeBase := 13, stdLens := WLine.stdLens }


theorem b2n_ne (b : Bool) : ((UInt8.ofNat (b2n b)).toNat != 0) = b := by cases b <;> decide

/-- `LineProgramHeader::parse` on a version 2–4 unit laid out as `LineProgram::write` does -/
theorem parseHeader_v4_layout (en : Endian) (format : Format) (addrSize : Nat) (cd cn : Option Bytes)
    (e : Enc) (he : EncReadable e) (ds : List LineStr) (fs : List FileEnt) (prog il hl : Bytes)
    (hds : ∀ d ∈ ds, InlineOk d) (hfs : ∀ f ∈ fs, InlineOk f.name ∧ FileFits f)
    (hhl : Ints.writeUdata en (headerBodyV4 e (dirBytes ds ++ 0 :: (fileBytes fs ++ [0]))).length
      format.wordSize = .ok hl)
    (hil : Ints.writeInitialLength en format
      (Ints.toBytes en 2 e.version ++ hl ++ headerBodyV4 e (dirBytes ds ++ 0 :: (fileBytes fs ++ [0])) ++ prog).length
      = .ok il)
    (hsmall : (Ints.toBytes en 2 e.version ++ hl ++
      headerBodyV4 e (dirBytes ds ++ 0 :: (fileBytes fs ++ [0])) ++ prog).length < 2 ^ 64) :
    parseHeader en addrSize cd cn
      (il ++ (Ints.toBytes en 2 e.version ++ hl ++
        headerBodyV4 e (dirBytes ds ++ 0 :: (fileBytes fs ++ [0])) ++ prog)) =
    .ok { p := paramsOf en format addrSize e,
          unitLength := (Ints.toBytes en 2 e.version ++ hl ++
            headerBodyV4 e (dirBytes ds ++ 0 :: (fileBytes fs ++ [0])) ++ prog).length,
          headerLength := (headerBodyV4 e (dirBytes ds ++ 0 :: (fileBytes fs ++ [0]))).length,
          dirFormat := [], dirs := ds.map (fun d => AttrVal.string d.val), fileFormat := [],
          files := fs.map FileEnt.toEntry, program := prog, compDir := cd,
          compFile := cn.map fun n => { path := .string n, dirIndex := 0, timestamp := 0, size := 0,
                                         md5 := List.replicate 16 0, source := none } } := by
  obtain ⟨hv2, hv4, hm1, hm2, ho1, ho2, hv3, hb1, hb2, hr1, hr2⟩ := he
  generalize htab : dirBytes ds ++ 0 :: (fileBytes fs ++ [0]) = tables at *
  generalize hbody : Ints.toBytes en 2 e.version ++ hl ++ headerBodyV4 e tables ++ prog = body at *
  unfold parseHeader
  obtain ⟨hril, _⟩ := Ints.writeInitialLength_roundtrip en format body.length il body hsmall hil
  simp only [hril, Out.bind_ok]
  have htake : Ints.take body.length body = .ok (body, []) := by
    have := take_append body []
    simpa using this
  simp only [htake, Out.bind_ok]
  subst hbody
  have hver : Ints.readFixed en 2 (Ints.toBytes en 2 e.version ++ hl ++ headerBodyV4 e tables ++ prog) =
      .ok (e.version, hl ++ (headerBodyV4 e tables ++ prog)) := by
    rw [List.append_assoc, List.append_assoc]
    exact Ints.readFixed_toBytes en 2 e.version _ (by omega)
  simp only [hver, Out.bind_ok]
  rw [if_neg (by omega)]
  have h5 : ¬ e.version ≥ 5 := by omega
  simp only [h5, ↓reduceIte, Out.pure_eq, Out.bind_ok]
  have hhlen : (headerBodyV4 e tables).length < 2 ^ 64 := by
    have : (headerBodyV4 e tables).length ≤
        (Ints.toBytes en 2 e.version ++ hl ++ headerBodyV4 e tables ++ prog).length := by
      simp; omega
    omega
  simp only [readWord_written en format _ hl _ hhlen hhl, Out.bind_ok, take_append]
  -- the parameter block
  unfold headerBodyV4
  have hob : (UInt8.ofNat opcodeBase).toNat = 13 := by decide
  have hsl : stdLens.length = 12 := rfl
  have htk : Ints.take (13 - 1) (stdLens ++ tables) = .ok (stdLens, tables) := by
    have := take_append stdLens tables
    rw [hsl] at this
    exact this
  have hd := parseDirsV4_written ds (dirBytes ds ++ 0 :: (fileBytes fs ++ [0])).length (fileBytes fs ++ [0]) hds
    (by simp)
  have hf := parseFilesV4_written fs (fileBytes fs ++ [0]).length [] hfs (by simp)
  rw [htab] at hd
  by_cases h4 : e.version ≥ 4
  · simp only [h4, ↓reduceIte, List.cons_append, List.nil_append, List.append_assoc, readFixed_one,
      Out.bind_ok, ofNat_toNat'' _ (by omega : e.minInstLen < 256), ofNat_toNat'' _ (by omega : e.maxOps < 256),
      ofNat_toNat'' _ (by omega : e.lineRange < 256)]
    rw [if_neg (by omega), if_neg (by omega), if_neg (by omega), hob, if_neg (by omega)]
    simp only [htk, Out.bind_ok, hv4, ↓reduceIte, hd, hf, b2n_ne, toI8_ofI64 e.lineBase hb1 hb2, paramsOf]
  · have hmo : e.maxOps = 1 := hv3 (by omega)
    simp only [h4, ↓reduceIte, List.cons_append, List.nil_append, List.append_assoc, readFixed_one,
      Out.bind_ok, ofNat_toNat'' _ (by omega : e.minInstLen < 256), Out.pure_eq,
      ofNat_toNat'' _ (by omega : e.lineRange < 256)]
    rw [if_neg (by omega), if_neg (by omega), if_neg (by omega), hob, if_neg (by omega)]
    simp only [htk, Out.bind_ok, hv4, ↓reduceIte, hd, hf, b2n_ne, toI8_ofI64 e.lineBase hb1 hb2, paramsOf, hmo]
theorem writeFilesV4_inline (en : Endian) (format : Format) (version : Nat) (m : Mode) (tabs : Tabs) :
    ∀ (fs : List FileEnt), (∀ f ∈ fs, InlineOk f.name) →
      writeFilesV4 en format version m tabs fs = .ok (fileBytes fs) := by
  intro fs
  induction fs with
  | nil => intro _; rfl
  | cons f fs ih =>
    intro h
    rw [writeFilesV4, writeStr_inline en format version m tabs f.name (h f (by simp)),
      ih (fun x hx => h x (by simp [hx]))]
    simp [fileBytes]

/-- `LineProgram::write` for versions 2–4 with inline strings: the layout of the unit -/
theorem write_v4_layout (en : Endian) (m : Mode) (p : Prog) (uver uasz : Nat) (tabs : Tabs)
    (hv2 : 2 ≤ p.enc.version) (hv4 : p.enc.version ≤ 4) (hasz : uasz = p.addrSize)
    (hmo : p.enc.version < 4 → p.enc.maxOps = 1)
    (hds : ∀ d ∈ p.dirs.drop 1, InlineOk d) (hfs : ∀ f ∈ p.files, InlineOk f.name)
    (prog hl il : Bytes) (hprog : writeInstrs en p.enc.version p.addrSize p.instrs = .ok prog)
    (hhl : Ints.writeUdata en
      (headerBodyV4 p.enc (dirBytes (p.dirs.drop 1) ++ 0 :: (fileBytes p.files ++ [0]))).length
      p.format.wordSize = .ok hl)
    (hil : Ints.writeInitialLength en p.format
      (Ints.toBytes en 2 p.enc.version ++ hl ++
        headerBodyV4 p.enc (dirBytes (p.dirs.drop 1) ++ 0 :: (fileBytes p.files ++ [0])) ++ prog).length = .ok il) :
    p.write en m uver uasz tabs =
      .ok (il ++ (Ints.toBytes en 2 p.enc.version ++ hl ++
        headerBodyV4 p.enc (dirBytes (p.dirs.drop 1) ++ 0 :: (fileBytes p.files ++ [0])) ++ prog), tabs) := by
  unfold Prog.write
  have c1 : ¬ ((uver < 5 ∧ p.enc.version ≥ 5) ∨ uasz ≠ p.addrSize) := by omega
  have c2 : ¬ (p.enc.version < 2 ∨ p.enc.version > 5) := by omega
  have c3 : ¬ (p.enc.version < 4 ∧ p.enc.maxOps ≠ 1) := by
    intro h; exact h.2 (hmo h.1)
  have c5 : ¬ p.enc.version ≥ 5 := by omega
  simp only [c1, c2, c3, c5, ↓reduceIte, hv4, writeStrs_inline en p.format p.enc.version m tabs _ hds,
    writeFilesV4_inline en p.format p.enc.version m tabs _ hfs, Out.bind_ok, Out.pure_eq, List.append_nil]
  have hbody : ([UInt8.ofNat p.enc.minInstLen] ++ (if p.enc.version ≥ 4 then [UInt8.ofNat p.enc.maxOps] else []) ++
      [UInt8.ofNat (b2n p.enc.defaultIsStmt), UInt8.ofNat (Leb.ofI64 p.enc.lineBase % 256),
        UInt8.ofNat p.enc.lineRange, UInt8.ofNat opcodeBase] ++ stdLens ++
      (dirBytes (List.drop 1 p.dirs) ++ [0] ++ fileBytes p.files ++ [0])) =
      headerBodyV4 p.enc (dirBytes (p.dirs.drop 1) ++ 0 :: (fileBytes p.files ++ [0])) := by
    unfold headerBodyV4; simp
  rw [hbody, hhl]
  simp only [Out.bind_ok, hprog]
  rw [if_neg (by rw [hasz]; simp), hil]
  rfl
end Gimli.WLine
