import Gimli.Model.Leb
import Gimli.Spec.Leb
namespace Gimli.Leb
open Gimli.Spec

theorem ulebVal_lt (bs : Bytes) : ulebVal bs < 2 ^ (7 * bs.length) := by
  induction bs with
  | nil => simp [ulebVal]
  | cons b rest ih =>
    simp only [ulebVal, List.length_cons]
    have : 2 ^ (7 * (rest.length + 1)) = 128 * 2 ^ (7 * rest.length) := by
      rw [Nat.mul_add, Nat.pow_add]; omega
    omega

theorem ulebVal_append (a b : Bytes) :
    ulebVal (a ++ b) = ulebVal a + 2 ^ (7 * a.length) * ulebVal b := by
  induction a with
  | nil => simp [ulebVal]
  | cons x a ih =>
    simp only [List.cons_append, ulebVal, List.length_cons, ih]
    have : 2 ^ (7 * (a.length + 1)) = 128 * 2 ^ (7 * a.length) := by
      rw [Nat.mul_add, Nat.pow_add]; omega
    rw [this, Nat.mul_add, Nat.mul_assoc]; omega

/-- the `|=` of the loop body is an addition because the bit ranges are disjoint -/
theorem or_step (result low s : Nat) (hr : result < 2 ^ s) (hfit : low * 2 ^ s < 2 ^ 64) :
    result ||| ((low <<< s) % 2 ^ 64) = result + 2 ^ s * low := by
  rw [Nat.shiftLeft_eq, Nat.mod_eq_of_lt hfit, Nat.or_comm, ← Nat.shiftLeft_eq,
    ← Nat.shiftLeft_add_eq_or_of_lt hr, Nat.shiftLeft_eq]
  rw [Nat.mul_comm]; omega


theorem unsignedLoop_complete (pre : Bytes) : ∀ (rest acc : Bytes),
    IsLebEnc pre → acc.length + pre.length ≤ 10 →
    ulebVal (acc ++ pre) < 2 ^ 64 →
    unsignedLoop (pre ++ rest) (ulebVal acc) (7 * acc.length) = .ok (ulebVal (acc ++ pre), rest) := by
  induction pre with
  | nil => intro _ _ h; simp [IsLebEnc] at h
  | cons b tl ih =>
    intro rest acc henc hlen hfit
    have hs := ulebVal_lt acc
    rw [ulebVal_append] at hfit ⊢
    cases tl with
    | nil =>
      simp only [IsLebEnc] at henc
      simp only [ulebVal, Nat.mul_zero, Nat.add_zero] at hfit ⊢
      have hlow : b.toNat % 128 = b.toNat := Nat.mod_eq_of_lt henc
      have hfit' : b.toNat % 128 * 2 ^ (7 * acc.length) < 2 ^ 64 := by
        rw [Nat.mul_comm]; omega
      simp only [List.cons_append, List.nil_append, unsignedLoop]
      rw [or_step _ _ _ hs hfit']
      have hc : ¬ (7 * acc.length = 63 ∧ b.toNat ≠ 0 ∧ b.toNat ≠ 1) := by
        rintro ⟨h63, h0, h1⟩
        rw [h63] at hfit
        omega
      simp [hc, henc]
    | cons c tl =>
      simp only [IsLebEnc] at henc
      obtain ⟨hb, henc'⟩ := henc
      simp only [List.length_cons] at hlen
      have hc : ¬ (7 * acc.length = 63 ∧ b.toNat ≠ 0 ∧ b.toNat ≠ 1) := by omega
      have hfit' : b.toNat % 128 * 2 ^ (7 * acc.length) < 2 ^ 64 := by
        simp only [ulebVal] at hfit
        rw [Nat.mul_add] at hfit
        rw [Nat.mul_comm]; omega
      have hnb : ¬ b.toNat < 128 := by omega
      rw [List.cons_append, unsignedLoop]
      simp only [hc, if_false, hnb]
      rw [or_step _ _ _ hs hfit']
      have hacc' : ulebVal (acc ++ [b]) = ulebVal acc + 2 ^ (7 * acc.length) * (b.toNat % 128) := by
        rw [ulebVal_append]; simp [ulebVal]
      have := ih rest (acc ++ [b]) henc' (by simp; omega)
        (by rw [List.append_assoc]; simpa [ulebVal_append] using hfit)
      rw [hacc'] at this
      simp only [List.length_append, List.length_cons, List.length_nil] at this
      rw [show 7 * (acc.length + (0+1)) = 7 * acc.length + 7 by omega] at this
      rw [this, List.append_assoc, ulebVal_append]
      simp

theorem low_fit (low k : Nat) (hlow : low < 128) (hk : k ≤ 8) : low * 2 ^ (7 * k) < 2 ^ 63 := by
  have h1 : 2 ^ (7 * k) ≤ 2 ^ 56 := Nat.pow_le_pow_right (by omega) (by omega)
  calc low * 2 ^ (7 * k) ≤ 127 * 2 ^ 56 := Nat.mul_le_mul (by omega) h1
    _ < 2 ^ 63 := by decide

theorem pow7_le (k : Nat) (hk : k ≤ 8) : 2 ^ (7 * k) * 128 ≤ 2 ^ 63 := by
  have : 2 ^ (7 * k) * 128 = 2 ^ (7 * k + 7) := by rw [Nat.pow_add]
  rw [this]; exact Nat.pow_le_pow_right (by omega) (by omega)

theorem unsignedLoop_sound (bs : Bytes) : ∀ (acc : Bytes) (v : Nat) (rest : Bytes),
    acc.length ≤ 9 →
    unsignedLoop bs (ulebVal acc) (7 * acc.length) = .ok (v, rest) →
    ∃ pre, bs = pre ++ rest ∧ IsLebEnc pre ∧ acc.length + pre.length ≤ 10 ∧
      v = ulebVal (acc ++ pre) ∧ v < 2 ^ 64 := by
  induction bs with
  | nil => intro acc v rest _ h; simp [unsignedLoop] at h
  | cons b tl ih =>
    intro acc v rest hk h
    have hs := ulebVal_lt acc
    rw [unsignedLoop] at h
    split at h
    · simp at h
    · rename_i hc
      have hfit' : b.toNat % 128 * 2 ^ (7 * acc.length) < 2 ^ 64 := by
        by_cases h9 : acc.length = 9
        · have : b.toNat % 128 ≤ 1 := by omega
          rw [h9]
          calc b.toNat % 128 * 2 ^ 63 ≤ 1 * 2 ^ 63 := Nat.mul_le_mul_right _ this
            _ < 2 ^ 64 := by decide
        · have := low_fit (b.toNat % 128) acc.length (Nat.mod_lt _ (by decide)) (by omega)
          omega
      simp only at h
      rw [or_step _ _ _ hs hfit'] at h
      have hacc' : ulebVal (acc ++ [b]) = ulebVal acc + 2 ^ (7 * acc.length) * (b.toNat % 128) := by
        rw [ulebVal_append]; simp [ulebVal]
      split at h
      · rename_i hb
        simp only [Out.ok.injEq, Prod.mk.injEq] at h
        refine ⟨[b], by simp [h.2], by simpa [IsLebEnc] using hb, by simp; omega, ?_, ?_⟩
        · rw [hacc']; exact h.1.symm
        · rw [← h.1]
          by_cases h9 : acc.length = 9
          · have : b.toNat % 128 ≤ 1 := by omega
            rw [h9] at hs ⊢
            have : 2 ^ 63 * (b.toNat % 128) ≤ 2 ^ 63 * 1 := Nat.mul_le_mul_left _ this
            omega
          · have h1 := low_fit (b.toNat % 128) acc.length (Nat.mod_lt _ (by decide)) (by omega)
            have h2 : 2 ^ (7 * acc.length) ≤ 2 ^ 56 := Nat.pow_le_pow_right (by omega) (by omega)
            rw [Nat.mul_comm]; omega
      · rename_i hb
        have hk8 : acc.length ≤ 8 := by omega
        rw [← hacc'] at h
        have := ih (acc ++ [b]) v rest (by simp; omega)
          (by simpa [Nat.mul_add] using h)
        obtain ⟨pre, hbs, henc, hlen, hv, hlt⟩ := this
        refine ⟨b :: pre, by simp [hbs], ?_, by simp at hlen ⊢; omega, by simpa using hv, hlt⟩
        cases pre with
        | nil => simp [IsLebEnc] at henc
        | cons c pre => exact ⟨by omega, henc⟩

theorem isLebEnc_unique (pre : Bytes) : ∀ (pre' rest rest' : Bytes), IsLebEnc pre → IsLebEnc pre' →
    pre ++ rest = pre' ++ rest' → pre = pre' ∧ rest = rest' := by
  induction pre with
  | nil => intro _ _ _ h; simp [IsLebEnc] at h
  | cons b tl ih =>
    intro pre' rest rest' h h' heq
    cases pre' with
    | nil => simp [IsLebEnc] at h'
    | cons b' tl' =>
      simp only [List.cons_append, List.cons.injEq] at heq
      obtain ⟨rfl, heq⟩ := heq
      cases tl with
      | nil =>
        cases tl' with
        | nil => simpa using heq
        | cons c' tl' => simp only [IsLebEnc] at h h'; omega
      | cons c tl =>
        cases tl' with
        | nil => simp only [IsLebEnc] at h h'; omega
        | cons c' tl' =>
          have := ih (c' :: tl') rest rest' h.2 h'.2 heq
          simp [this.1, this.2]

theorem unsigned_sound (bs : Bytes) (v : Nat) (rest : Bytes) (h : unsigned bs = .ok (v, rest)) :
    ∃ pre, bs = pre ++ rest ∧ IsLebEnc pre ∧ pre.length ≤ 10 ∧ v = ulebVal pre ∧ v < 2 ^ 64 := by
  cases bs with
  | nil => simp [unsigned] at h
  | cons b tl =>
    rw [unsigned] at h
    split at h
    · rename_i hb
      simp only [Out.ok.injEq, Prod.mk.injEq] at h
      refine ⟨[b], by simp [h.2], by simpa [IsLebEnc] using hb, by simp, ?_, by omega⟩
      simp only [ulebVal]; omega
    · rename_i hb
      have h1 : ulebVal [b] = b.toNat % 128 := by simp [ulebVal]
      rw [← h1] at h
      obtain ⟨pre, hbs, henc, hlen, hv, hlt⟩ := unsignedLoop_sound tl [b] v rest (by simp) (by simpa using h)
      refine ⟨b :: pre, by simp [hbs], ?_, by simp at hlen ⊢; omega, by simpa using hv, hlt⟩
      cases pre with
      | nil => simp [IsLebEnc] at henc
      | cons c pre => exact ⟨by omega, henc⟩

theorem unsigned_complete (pre rest : Bytes) (henc : IsLebEnc pre) (hlen : pre.length ≤ 10)
    (hfit : ulebVal pre < 2 ^ 64) : unsigned (pre ++ rest) = .ok (ulebVal pre, rest) := by
  cases pre with
  | nil => simp [IsLebEnc] at henc
  | cons b tl =>
    cases tl with
    | nil =>
      simp only [IsLebEnc] at henc
      simp [unsigned, henc, ulebVal, Nat.mod_eq_of_lt henc]
    | cons c tl =>
      simp only [IsLebEnc] at henc
      have hnb : ¬ b.toNat < 128 := by omega
      rw [List.cons_append, unsigned]
      simp only [hnb, if_false]
      have h1 : ulebVal [b] = b.toNat % 128 := by simp [ulebVal]
      rw [← h1]
      have := unsignedLoop_complete (c :: tl) rest [b] henc.2 (by simp at hlen ⊢; omega) (by simpa using hfit)
      simpa using this

/-- a complete LEB128 number is never reported as truncated -/
theorem unsignedLoop_enc (pre : Bytes) : ∀ (rest : Bytes) (r s : Nat), IsLebEnc pre →
    (∃ v, unsignedLoop (pre ++ rest) r s = .ok (v, rest)) ∨
      unsignedLoop (pre ++ rest) r s = .err .rBadUnsignedLeb128 := by
  induction pre with
  | nil => intro _ _ _ h; simp [IsLebEnc] at h
  | cons b tl ih =>
    intro rest r s henc
    rw [List.cons_append, unsignedLoop]
    split
    · right; rfl
    · cases tl with
      | nil =>
        simp only [IsLebEnc] at henc
        left; simp [henc]
      | cons c tl =>
        simp only [IsLebEnc] at henc
        have hnb : ¬ b.toNat < 128 := by omega
        simp only [hnb, if_false]
        exact ih rest _ _ henc.2

theorem unsigned_enc (pre rest : Bytes) (henc : IsLebEnc pre) :
    (∃ v, unsigned (pre ++ rest) = .ok (v, rest)) ∨
      unsigned (pre ++ rest) = .err .rBadUnsignedLeb128 := by
  cases pre with
  | nil => simp [IsLebEnc] at henc
  | cons b tl =>
    rw [List.cons_append, unsigned]
    cases tl with
    | nil => simp only [IsLebEnc] at henc; left; simp [henc]
    | cons c tl =>
      simp only [IsLebEnc] at henc
      have hnb : ¬ b.toNat < 128 := by omega
      simp only [hnb, if_false]
      exact unsignedLoop_enc (c :: tl) rest _ _ henc.2

theorem unsigned_reject (pre rest : Bytes) (henc : IsLebEnc pre)
    (hbad : 10 < pre.length ∨ 2 ^ 64 ≤ ulebVal pre) :
    unsigned (pre ++ rest) = .err .rBadUnsignedLeb128 := by
  rcases unsigned_enc pre rest henc with ⟨v, hv⟩ | h
  · obtain ⟨pre', hbs, henc', hlen, hval, hlt⟩ := unsigned_sound _ _ _ hv
    obtain ⟨rfl, _⟩ := isLebEnc_unique pre pre' rest rest henc henc' hbs
    omega
  · exact h


theorem encodeUFuel_spec (fuel : Nat) : ∀ (v : Nat), v < 128 ^ (fuel + 1) →
    IsLebEnc (encodeUFuel (fuel + 1) v) ∧ ulebVal (encodeUFuel (fuel + 1) v) = v ∧
    (encodeUFuel (fuel + 1) v).length ≤ fuel + 1 ∧ 1 ≤ (encodeUFuel (fuel + 1) v).length ∧
    (encodeUFuel (fuel + 1) v).length = sizeUFuel (fuel + 1) v := by
  induction fuel with
  | zero =>
    intro v hv
    have h0 : v / 128 = 0 := by omega
    have : (UInt8.ofNat (v % 128)).toNat = v % 128 := by simp; omega
    simp [encodeUFuel, sizeUFuel, h0, IsLebEnc, ulebVal, this]; omega
  | succ n ih =>
    intro v hv
    rw [encodeUFuel, sizeUFuel]
    by_cases h0 : v / 128 = 0
    · have : (UInt8.ofNat (v % 128)).toNat = v % 128 := by simp; omega
      simp [h0, IsLebEnc, ulebVal, this]; omega
    · have hv' : v / 128 < 128 ^ (n + 1) := by
        rw [Nat.div_lt_iff_lt_mul (by decide)]; rw [Nat.pow_succ] at hv; exact hv
      obtain ⟨henc, hval, hlen, hlen1, hsz⟩ := ih (v / 128) hv'
      have hb : (UInt8.ofNat (v % 128 + 128)).toNat = v % 128 + 128 := by
        simp; omega
      simp only [ne_eq, h0, not_false_eq_true, if_true, if_false, List.length_cons, ulebVal, hb, hval]
      refine ⟨?_, by omega, by omega, by omega, by omega⟩
      generalize hrec : encodeUFuel (n + 1) (v / 128) = tl at *
      cases tl with
      | nil => simp at hlen1
      | cons c tl => exact ⟨by omega, henc⟩

theorem encodeU_spec (v : Nat) (hv : v < 2 ^ 64) :
    IsLebEnc (encodeU v) ∧ ulebVal (encodeU v) = v ∧ (encodeU v).length ≤ 10 ∧
      1 ≤ (encodeU v).length ∧ (encodeU v).length = sizeU v :=
  encodeUFuel_spec 9 v (by have : (2:Nat) ^ 64 ≤ 128 ^ (9 + 1) := by decide
                           omega)

theorem unsigned_roundtrip (v : Nat) (hv : v < 2 ^ 64) (rest : Bytes) :
    unsigned (encodeU v ++ rest) = .ok (v, rest) := by
  obtain ⟨henc, hval, hlen, _, _⟩ := encodeU_spec v hv
  have := unsigned_complete (encodeU v) rest henc hlen (by omega)
  rw [hval] at this; exact this


theorem or_step' (result low s M : Nat) (hr : result < 2 ^ s) (hfit : low * 2 ^ s < M) :
    result ||| ((low <<< s) % M) = result + 2 ^ s * low := by
  rw [Nat.shiftLeft_eq, Nat.mod_eq_of_lt hfit, Nat.or_comm, ← Nat.shiftLeft_eq,
    ← Nat.shiftLeft_add_eq_or_of_lt hr, Nat.shiftLeft_eq]
  rw [Nat.mul_comm]; omega

theorem u16_two (b0 b1 : UInt8) :
    (b0.toNat % 128) ||| (((b1.toNat % 128) <<< 7) % 2 ^ 16) = b0.toNat % 128 + 128 * (b1.toNat % 128) := by
  have := or_step' (b0.toNat % 128) (b1.toNat % 128) 7 (2 ^ 16) (by omega) (by omega)
  simpa using this

theorem u16_sound (bs : Bytes) (v : Nat) (rest : Bytes) (h : u16 bs = .ok (v, rest)) :
    ∃ pre, bs = pre ++ rest ∧ IsLebEnc pre ∧ pre.length ≤ 3 ∧ v = ulebVal pre ∧ v < 2 ^ 16 := by
  unfold u16 at h
  split at h
  · simp at h
  · rename_i b0 r0
    split at h
    · rename_i hb0
      simp only [Out.ok.injEq, Prod.mk.injEq] at h
      refine ⟨[b0], by simp [h.2], by simpa [IsLebEnc] using hb0, by simp, ?_, by omega⟩
      simp only [ulebVal]; omega
    · rename_i hb0
      split at h
      · simp at h
      · rename_i b1 r1
        simp only [u16_two] at h
        split at h
        · rename_i hb1
          simp only [Out.ok.injEq, Prod.mk.injEq] at h
          refine ⟨[b0, b1], by simp [h.2], ⟨by omega, by simpa [IsLebEnc] using hb1⟩, by simp, ?_, by omega⟩
          simp only [ulebVal]; omega
        · rename_i hb1
          split at h
          · simp at h
          · rename_i b2 r2
            split at h
            · simp at h
            · rename_i hb2
              simp only [Out.ok.injEq, Prod.mk.injEq] at h
              have hsh : (b2.toNat <<< 14) % 2 ^ 16 = b2.toNat * 16384 := by
                rw [Nat.shiftLeft_eq]; exact Nat.mod_eq_of_lt (by omega)
              rw [hsh] at h
              refine ⟨[b0, b1, b2], by simp [h.2], ⟨by omega, by omega, by simp [IsLebEnc]; omega⟩, by simp, ?_, by omega⟩
              simp only [ulebVal]; omega

theorem u16_complete (pre rest : Bytes) (henc : IsLebEnc pre) (hlen : pre.length ≤ 3)
    (hfit : ulebVal pre < 2 ^ 16) : u16 (pre ++ rest) = .ok (ulebVal pre, rest) := by
  match pre, henc, hlen, hfit with
  | [b0], henc, _, _ =>
    simp only [IsLebEnc] at henc
    simp [u16, henc, ulebVal, Nat.mod_eq_of_lt henc]
  | [b0, b1], henc, _, _ =>
    simp only [IsLebEnc] at henc
    have h0 : ¬ b0.toNat < 128 := by omega
    simp only [List.cons_append, List.nil_append, u16, h0, if_false, u16_two, henc.2, if_true, ulebVal]
    have : b1.toNat % 128 = b1.toNat := Nat.mod_eq_of_lt henc.2
    simp [this]
  | [b0, b1, b2], henc, _, hfit =>
    simp only [IsLebEnc] at henc
    have h0 : ¬ b0.toNat < 128 := by omega
    have h1 : ¬ b1.toNat < 128 := by omega
    simp only [ulebVal] at hfit
    have h2 : ¬ b2.toNat > 3 := by omega
    have hsh : (b2.toNat <<< 14) % 2 ^ 16 = b2.toNat * 16384 := by
      rw [Nat.shiftLeft_eq]; exact Nat.mod_eq_of_lt (by omega)
    simp only [List.cons_append, List.nil_append, u16, h0, h1, h2, if_false, u16_two, hsh, ulebVal]
    have : b2.toNat % 128 = b2.toNat := Nat.mod_eq_of_lt henc.2.2
    simp only [this, Out.ok.injEq, Prod.mk.injEq, and_true]; omega

theorem u16_reject (pre rest : Bytes) (henc : IsLebEnc pre)
    (hbad : 3 < pre.length ∨ 2 ^ 16 ≤ ulebVal pre) :
    u16 (pre ++ rest) = .err .rBadUnsignedLeb128 := by
  match pre, henc, hbad with
  | [b0], henc, hbad =>
    simp only [IsLebEnc] at henc; simp [ulebVal] at hbad; omega
  | [b0, b1], henc, hbad =>
    simp only [IsLebEnc] at henc; simp [ulebVal] at hbad; omega
  | [b0, b1, b2], henc, hbad =>
    simp only [IsLebEnc] at henc
    have h0 : ¬ b0.toNat < 128 := by omega
    have h1 : ¬ b1.toNat < 128 := by omega
    simp only [ulebVal, List.length_cons, List.length_nil] at hbad
    have h2 : b2.toNat > 3 := by omega
    simp [u16, h0, h1, h2]
  | b0 :: b1 :: b2 :: b3 :: tl, henc, _ =>
    simp only [IsLebEnc] at henc
    have h0 : ¬ b0.toNat < 128 := by omega
    have h1 : ¬ b1.toNat < 128 := by omega
    have h2 : b2.toNat > 3 := by omega
    simp [u16, h0, h1, h2]


/-- last element with a default -/
def lastB : Bytes → UInt8
  | [] => 0
  | [b] => b
  | _ :: c :: tl => lastB (c :: tl)

theorem lastB_append_cons (a : Bytes) (b : UInt8) (tl : Bytes) : lastB (a ++ b :: tl) = lastB (b :: tl) := by
  induction a with
  | nil => rfl
  | cons x a ih =>
    cases a with
    | nil => simp [lastB]
    | cons y a => simpa [lastB] using ih

/-- the condition under which the 64-bit signed reader accepts a complete number `full` -/
def SFits (full : Bytes) : Prop :=
  full.length ≤ 10 ∧ (full.length = 10 → (lastB full).toNat = 0 ∨ (lastB full).toNat = 0x7f)

theorem signedLoop_complete (pre : Bytes) : ∀ (rest acc : Bytes),
    IsLebEnc pre → SFits (acc ++ pre) →
    signedLoop (pre ++ rest) (ulebVal acc) (7 * acc.length) =
      .ok (ulebVal (acc ++ pre) % 2 ^ 64, 7 * (acc ++ pre).length, lastB pre, rest) := by
  induction pre with
  | nil => intro _ _ h; simp [IsLebEnc] at h
  | cons b tl ih =>
    intro rest acc henc hfits
    have hs := ulebVal_lt acc
    obtain ⟨hlen, hlast⟩ := hfits
    simp only [List.length_append, List.length_cons] at hlen hlast
    rw [List.cons_append, signedLoop]
    cases tl with
    | nil =>
      simp only [IsLebEnc] at henc
      simp only [List.length_nil] at hlen hlast
      have hlast' : acc.length = 9 → b.toNat = 0 ∨ b.toNat = 0x7f := by
        intro h9
        have := hlast (by omega)
        rwa [lastB_append_cons] at this
      have hc : ¬ (7 * acc.length = 63 ∧ b.toNat ≠ 0 ∧ b.toNat ≠ 0x7f) := by
        rintro ⟨h63, h0, h1⟩
        rcases hlast' (by omega) with h | h <;> omega
      simp only [hc, if_false, henc, if_true, List.nil_append, lastB]
      have hval : ulebVal acc ||| ((b.toNat % 128) <<< (7 * acc.length)) % 2 ^ 64 =
          ulebVal (acc ++ [b]) % 2 ^ 64 := by
        rw [ulebVal_append]
        simp only [ulebVal, Nat.mul_zero, Nat.add_zero]
        by_cases h9 : acc.length = 9
        · rw [h9] at hs ⊢
          rcases hlast' h9 with h | h
          · simp [h]; exact (Nat.mod_eq_of_lt (by omega)).symm
          · have e1 : (b.toNat % 128) <<< (7 * 9) % 2 ^ 64 = 2 ^ 63 := by rw [h]; decide
            rw [e1, h]
            have e2 : ulebVal acc ||| 2 ^ 63 = ulebVal acc + 2 ^ 63 := by
              have := or_step' (ulebVal acc) 1 63 (2 ^ 64) hs (by decide)
              simpa [Nat.shiftLeft_eq] using this
            rw [e2]
            omega
        · have hk : acc.length ≤ 8 := by omega
          have hfit := low_fit (b.toNat % 128) acc.length (Nat.mod_lt _ (by decide)) hk
          rw [or_step _ _ _ hs (by omega)]
          have : ulebVal acc + 2 ^ (7 * acc.length) * (b.toNat % 128) < 2 ^ 64 := by
            have h2 : 2 ^ (7 * acc.length) ≤ 2 ^ 56 := Nat.pow_le_pow_right (by omega) (by omega)
            rw [Nat.mul_comm]; omega
          exact (Nat.mod_eq_of_lt this).symm
      rw [hval]
      simp [Nat.mul_add]
    | cons c tl =>
      simp only [IsLebEnc] at henc
      obtain ⟨hb, henc'⟩ := henc
      simp only [List.length_cons] at hlen
      have hc : ¬ (7 * acc.length = 63 ∧ b.toNat ≠ 0 ∧ b.toNat ≠ 0x7f) := by omega
      have hnb : ¬ b.toNat < 128 := by omega
      have hk : acc.length ≤ 8 := by omega
      have hfit := low_fit (b.toNat % 128) acc.length (Nat.mod_lt _ (by decide)) hk
      simp only [hc, if_false, hnb]
      rw [or_step _ _ _ hs (by omega)]
      have hacc' : ulebVal (acc ++ [b]) = ulebVal acc + 2 ^ (7 * acc.length) * (b.toNat % 128) := by
        rw [ulebVal_append]; simp [ulebVal]
      have := ih rest (acc ++ [b]) henc' (by
        refine ⟨by simp; omega, ?_⟩
        intro h10
        have := hlast (by simp at h10 ⊢; omega)
        rw [List.append_assoc]; simpa using this)
      rw [hacc'] at this
      simp only [List.length_append, List.length_cons, List.length_nil] at this
      rw [show 7 * (acc.length + (0 + 1)) = 7 * acc.length + 7 by omega] at this
      rw [this]
      simp [lastB, Nat.add_assoc]
      omega


theorem lastB_concat (init : Bytes) (l : UInt8) : lastB (init ++ [l]) = l := by
  cases init with
  | nil => rfl
  | cons x xs => rw [List.cons_append, ← List.cons_append, lastB_append_cons]; rfl

theorem pow7_succ (k : Nat) : (2 : Nat) ^ (7 * (k + 1)) = 128 * 2 ^ (7 * k) := by
  rw [Nat.mul_add, Nat.pow_add]; omega

/-- relation between the signed and the unsigned value -/
theorem slebVal_concat (init : Bytes) (l : UInt8) (hl : l.toNat < 128) :
    slebVal (init ++ [l]) =
      (ulebVal (init ++ [l]) : Int) - (if 64 ≤ l.toNat then (2 : Int) ^ (7 * (init.length + 1)) else 0) := by
  induction init with
  | nil =>
    simp only [List.nil_append, slebVal, ulebVal, Nat.mod_eq_of_lt hl, List.length_nil]
    split <;> simp <;> omega
  | cons b tl ih =>
    cases tl with
    | nil =>
      simp only [List.cons_append, List.nil_append, slebVal, ulebVal, Nat.mod_eq_of_lt hl,
        List.length_cons, List.length_nil] at ih ⊢
      split <;> simp <;> omega
    | cons c tl =>
      rw [List.cons_append, List.cons_append, slebVal, ← List.cons_append, ih]
      simp only [ulebVal, List.cons_append, List.length_cons]
      have hp : (2 : Int) ^ (7 * (tl.length + 1 + 1 + 1)) = 128 * 2 ^ (7 * (tl.length + 1 + 1)) := by
        have := pow7_succ (tl.length + 1 + 1)
        exact_mod_cast this
      split
      · rw [hp]; push_cast; omega
      · push_cast; omega


theorem isLebEnc_concat (pre : Bytes) (h : IsLebEnc pre) :
    ∃ init l, pre = init ++ [l] ∧ l.toNat < 128 := by
  induction pre with
  | nil => simp [IsLebEnc] at h
  | cons b tl ih =>
    cases tl with
    | nil => exact ⟨[], b, rfl, by simpa [IsLebEnc] using h⟩
    | cons c tl =>
      obtain ⟨init, l, he, hl⟩ := ih h.2
      exact ⟨b :: init, l, by rw [he]; rfl, hl⟩

theorem signext_aux (U s c : Nat) (hU : U < 2 ^ s) (hc : ((2 ^ 64 - 1) <<< s) % 2 ^ 64 = c <<< s)
    (hc2 : c <<< s = 2 ^ 64 - 2 ^ s) (hs : 2 ^ s ≤ 2 ^ 64) :
    U ||| ((2 ^ 64 - 1) <<< s % 2 ^ 64) = U + 2 ^ 64 - 2 ^ s := by
  rw [hc, Nat.or_comm, ← Nat.shiftLeft_add_eq_or_of_lt hU, hc2]; omega

theorem signext (n U : Nat) (h1 : 1 ≤ n) (h9 : n ≤ 9) (hU : U < 2 ^ (7 * n)) :
    U ||| ((2 ^ 64 - 1) <<< (7 * n) % 2 ^ 64) = U + 2 ^ 64 - 2 ^ (7 * n) := by
  have : n = 1 ∨ n = 2 ∨ n = 3 ∨ n = 4 ∨ n = 5 ∨ n = 6 ∨ n = 7 ∨ n = 8 ∨ n = 9 := by omega
  rcases this with rfl | rfl | rfl | rfl | rfl | rfl | rfl | rfl | rfl
  · exact signext_aux U _ (2 ^ 57 - 1) hU (by decide) (by decide) (by decide)
  · exact signext_aux U _ (2 ^ 50 - 1) hU (by decide) (by decide) (by decide)
  · exact signext_aux U _ (2 ^ 43 - 1) hU (by decide) (by decide) (by decide)
  · exact signext_aux U _ (2 ^ 36 - 1) hU (by decide) (by decide) (by decide)
  · exact signext_aux U _ (2 ^ 29 - 1) hU (by decide) (by decide) (by decide)
  · exact signext_aux U _ (2 ^ 22 - 1) hU (by decide) (by decide) (by decide)
  · exact signext_aux U _ (2 ^ 15 - 1) hU (by decide) (by decide) (by decide)
  · exact signext_aux U _ (2 ^ 8 - 1) hU (by decide) (by decide) (by decide)
  · exact signext_aux U _ (2 ^ 1 - 1) hU (by decide) (by decide) (by decide)

theorem pow7_le63 (n : Nat) (h : n ≤ 9) : (2 : Nat) ^ (7 * n) ≤ 2 ^ 63 :=
  Nat.pow_le_pow_right (by omega) (by omega)

theorem signed_complete (pre rest : Bytes) (henc : IsLebEnc pre) (hfits : SFits pre) :
    signed (pre ++ rest) = .ok (slebVal pre, rest) := by
  obtain ⟨init, l, rfl, hl⟩ := isLebEnc_concat pre henc
  have hloop := signedLoop_complete (init ++ [l]) rest [] henc (by simpa using hfits)
  simp only [ulebVal, List.length_nil, Nat.mul_zero, List.nil_append] at hloop
  unfold signed
  rw [hloop]
  simp only [lastB_concat]
  rw [slebVal_concat init l hl]
  have hU := ulebVal_lt (init ++ [l])
  obtain ⟨hlen, hlast⟩ := hfits
  simp only [List.length_append, List.length_cons, List.length_nil, Nat.zero_add, lastB_concat] at hlen hlast hU ⊢
  have hsign : (l.toNat / 64) % 2 = 1 ↔ 64 ≤ l.toNat := by omega
  generalize hUdef : ulebVal (init ++ [l]) = U at *
  by_cases h10 : init.length + 1 = 10
  · -- ten bytes: no sign extension step, the last group is 0 or 0x7f
    have hnot : ¬ (7 * (init.length + 1) < 64 ∧ (l.toNat / 64) % 2 = 1) := by omega
    simp only [hnot, if_false]
    have hdec : U = ulebVal init + 2 ^ (7 * init.length) * (l.toNat % 128) := by
      rw [← hUdef, ulebVal_append]; simp [ulebVal]
    have hi := ulebVal_lt init
    have h9 : init.length = 9 := by omega
    rw [h9] at hdec hi
    rw [show init.length + 1 = 10 by omega] at *
    rcases hlast (by omega) with h0 | h7f
    · have : U = ulebVal init := by rw [hdec, h0]; simp
      simp only [toI64, Out.ok.injEq, Prod.mk.injEq, and_true]
      have h64 : ¬ 64 ≤ l.toNat := by omega
      simp only [h64, if_false]
      have : U % 2 ^ 64 = U := Nat.mod_eq_of_lt (by omega)
      rw [Nat.mod_mod, this]; simp; omega
    · have hU' : U = ulebVal init + 2 ^ 63 * 127 := by rw [hdec, h7f]
      simp only [toI64, Out.ok.injEq, Prod.mk.injEq, and_true]
      have h64 : 64 ≤ l.toNat := by omega
      simp only [h64, if_true]
      have : U % 2 ^ 64 = ulebVal init + 2 ^ 63 := by rw [hU']; omega
      rw [Nat.mod_mod, this]
      have hnl : ¬ ulebVal init + 2 ^ 63 < 2 ^ 63 := by omega
      rw [if_neg hnl]
      have h70 : (2 : Int) ^ (7 * 10) = 128 * 2 ^ 63 := by decide
      rw [h70]
      omega
  · have hn9 : init.length + 1 ≤ 9 := by omega
    have hp := pow7_le63 (init.length + 1) hn9
    have hUm : U % 2 ^ 64 = U := Nat.mod_eq_of_lt (by omega)
    rw [hUm]
    by_cases h64 : 64 ≤ l.toNat
    · have hcond : 7 * (init.length + 1) < 64 ∧ (l.toNat / 64) % 2 = 1 := by omega
      simp only [hcond, and_self, if_true, h64]
      rw [signext (init.length + 1) U (by omega) hn9 hU]
      simp only [toI64, Out.ok.injEq, Prod.mk.injEq, and_true]
      have hpos : 0 < 2 ^ (7 * (init.length + 1)) := Nat.pow_pos (by decide)
      have hm : (U + 2 ^ 64 - 2 ^ (7 * (init.length + 1))) % 2 ^ 64 =
          U + 2 ^ 64 - 2 ^ (7 * (init.length + 1)) := Nat.mod_eq_of_lt (by omega)
      rw [hm]
      have hlo : 2 ^ (7 * (init.length + 1) - 1) ≤ U := by
        -- the sign bit is set, so U ≥ 64·128^(n-1)
        have hdec : U = ulebVal init + 2 ^ (7 * init.length) * (l.toNat % 128) := by
          rw [← hUdef, ulebVal_append]; simp [ulebVal]
        have : 7 * (init.length + 1) - 1 = 7 * init.length + 6 := by omega
        rw [this, Nat.pow_add, hdec]
        have : 2 ^ (7 * init.length) * 2 ^ 6 ≤ 2 ^ (7 * init.length) * (l.toNat % 128) :=
          Nat.mul_le_mul_left _ (by omega)
        omega
      have hge : ¬ U + 2 ^ 64 - 2 ^ (7 * (init.length + 1)) < 2 ^ 63 := by omega
      simp only [hge, if_false]
      have : (2 : Int) ^ (7 * (init.length + 1)) = ((2 ^ (7 * (init.length + 1)) : Nat) : Int) := by
        push_cast; rfl
      rw [this]
      omega
    · have hcond : ¬ (7 * (init.length + 1) < 64 ∧ (l.toNat / 64) % 2 = 1) := by omega
      simp only [hcond, if_false, h64]
      simp only [toI64, Out.ok.injEq, Prod.mk.injEq, and_true, hUm]
      have : U < 2 ^ 63 := by omega
      simp [this]


theorem signedLoop_sound (bs : Bytes) : ∀ (acc : Bytes) (R r s : Nat) (byte : UInt8) (rest : Bytes),
    acc.length ≤ 9 →
    signedLoop bs R (7 * acc.length) = .ok (r, s, byte, rest) →
    ∃ pre, bs = pre ++ rest ∧ IsLebEnc pre ∧ SFits (acc ++ pre) := by
  induction bs with
  | nil => intro acc R r s byte rest _ h; simp [signedLoop] at h
  | cons b tl ih =>
    intro acc R r s byte rest hk h
    rw [signedLoop] at h
    split at h
    · simp at h
    · rename_i hc
      simp only at h
      split at h
      · rename_i hb
        simp only [Out.ok.injEq, Prod.mk.injEq] at h
        refine ⟨[b], by simp [h.2.2.2], by simpa [IsLebEnc] using hb, by simp; omega, ?_⟩
        intro h10
        simp only [List.length_append, List.length_cons, List.length_nil] at h10
        rw [lastB_concat]
        omega
      · rename_i hb
        have hk8 : acc.length ≤ 8 := by omega
        have := ih (acc ++ [b]) _ r s byte rest (by simp; omega)
          (by simpa [Nat.mul_add] using h)
        obtain ⟨pre, hbs, henc, hfits⟩ := this
        refine ⟨b :: pre, by simp [hbs], ?_, by simpa using hfits⟩
        cases pre with
        | nil => simp [IsLebEnc] at henc
        | cons c pre => exact ⟨by omega, henc⟩

theorem toI64_range (n : Nat) : -(2 : Int) ^ 63 ≤ toI64 n ∧ toI64 n < 2 ^ 63 := by
  unfold toI64
  have := Nat.mod_lt n (show 0 < 2 ^ 64 by decide)
  split <;> omega

theorem signed_sound (bs : Bytes) (v : Int) (rest : Bytes) (h : signed bs = .ok (v, rest)) :
    ∃ pre, bs = pre ++ rest ∧ IsLebEnc pre ∧ pre.length ≤ 10 ∧ v = slebVal pre ∧
      -(2 : Int) ^ 63 ≤ v ∧ v < 2 ^ 63 := by
  have hrange : -(2 : Int) ^ 63 ≤ v ∧ v < 2 ^ 63 := by
    unfold signed at h
    cases hl : signedLoop bs 0 0 with
    | ok p =>
      obtain ⟨a, b, c, d⟩ := p
      rw [hl] at h
      simp only [Out.ok.injEq, Prod.mk.injEq] at h
      rw [← h.1]; exact toI64_range _
    | err e => rw [hl] at h; simp at h
    | panic w => rw [hl] at h; simp at h
    | diverge => rw [hl] at h; simp at h
  have hex : ∃ r s byte, signedLoop bs 0 (7 * ([] : Bytes).length) = .ok (r, s, byte, rest) := by
    unfold signed at h
    cases hl : signedLoop bs 0 0 with
    | ok p =>
      obtain ⟨a, b, c, d⟩ := p
      rw [hl] at h
      simp only [Out.ok.injEq, Prod.mk.injEq] at h
      exact ⟨a, b, c, by simp [h.2]⟩
    | err e => rw [hl] at h; simp at h
    | panic w => rw [hl] at h; simp at h
    | diverge => rw [hl] at h; simp at h
  obtain ⟨r, s, byte, hloop⟩ := hex
  obtain ⟨pre, hbs, henc, hfits⟩ := signedLoop_sound bs [] 0 r s byte rest (by simp) hloop
  have hc := signed_complete pre rest henc (by simpa using hfits)
  rw [← hbs, h] at hc
  simp only [Out.ok.injEq, Prod.mk.injEq, and_true] at hc
  exact ⟨pre, hbs, henc, by simpa using hfits.1, hc, hrange⟩

/-- a complete number is never reported as truncated -/
theorem signedLoop_enc (pre : Bytes) : ∀ (rest : Bytes) (r s : Nat), IsLebEnc pre →
    (∃ a b c, signedLoop (pre ++ rest) r s = .ok (a, b, c, rest)) ∨
      signedLoop (pre ++ rest) r s = .err .rBadSignedLeb128 := by
  induction pre with
  | nil => intro _ _ _ h; simp [IsLebEnc] at h
  | cons b tl ih =>
    intro rest r s henc
    rw [List.cons_append, signedLoop]
    split
    · right; rfl
    · cases tl with
      | nil =>
        simp only [IsLebEnc] at henc
        left; simp [henc]
      | cons c tl =>
        simp only [IsLebEnc] at henc
        have hnb : ¬ b.toNat < 128 := by omega
        simp only [hnb, if_false]
        exact ih rest _ _ henc.2

theorem signed_enc (pre rest : Bytes) (henc : IsLebEnc pre) :
    (∃ v, signed (pre ++ rest) = .ok (v, rest)) ∨ signed (pre ++ rest) = .err .rBadSignedLeb128 := by
  unfold signed
  rcases signedLoop_enc pre rest 0 0 henc with ⟨a, b, c, h⟩ | h
  · left; rw [h]; exact ⟨_, rfl⟩
  · right; rw [h]

/-- among encodings of at most 10 bytes, `SFits` is exactly "the value fits in an i64" -/
theorem sfits_of_range (pre : Bytes) (henc : IsLebEnc pre) (hlen : pre.length ≤ 10)
    (hlo : -(2 : Int) ^ 63 ≤ slebVal pre) (hhi : slebVal pre < 2 ^ 63) : SFits pre := by
  refine ⟨hlen, ?_⟩
  intro h10
  obtain ⟨init, l, rfl, hl⟩ := isLebEnc_concat pre henc
  rw [lastB_concat]
  rw [slebVal_concat init l hl] at hlo hhi
  have hi := ulebVal_lt init
  have h9 : init.length = 9 := by simpa using h10
  rw [ulebVal_append] at hlo hhi
  simp only [ulebVal, Nat.mul_zero, Nat.add_zero, Nat.mod_eq_of_lt hl] at hlo hhi
  rw [h9] at hi hlo hhi
  have h70 : (2 : Int) ^ (7 * (9 + 1)) = 128 * 2 ^ 63 := by decide
  rw [h70] at hlo hhi
  by_cases h64 : 64 ≤ l.toNat
  · simp only [h64, if_true] at hlo hhi
    right; omega
  · simp only [h64, if_false] at hlo hhi
    left; omega

theorem signed_reject (pre rest : Bytes) (henc : IsLebEnc pre)
    (hbad : 10 < pre.length ∨ slebVal pre < -(2 : Int) ^ 63 ∨ 2 ^ 63 ≤ slebVal pre) :
    signed (pre ++ rest) = .err .rBadSignedLeb128 := by
  rcases signed_enc pre rest henc with ⟨v, hv⟩ | h
  · obtain ⟨pre', hbs, henc', hlen, hval, hlo, hhi⟩ := signed_sound _ _ _ hv
    obtain ⟨rfl, _⟩ := isLebEnc_unique pre pre' rest rest henc henc' hbs
    omega
  · exact h


theorem encodeSFuel_spec (fuel : Nat) : ∀ (v : Int),
    -(64 * (128 : Int) ^ fuel) ≤ v → v < 64 * (128 : Int) ^ fuel →
    IsLebEnc (encodeSFuel (fuel + 1) v) ∧ slebVal (encodeSFuel (fuel + 1) v) = v ∧
    (encodeSFuel (fuel + 1) v).length ≤ fuel + 1 ∧ 1 ≤ (encodeSFuel (fuel + 1) v).length ∧
    (encodeSFuel (fuel + 1) v).length = sizeSFuel (fuel + 1) v := by
  induction fuel with
  | zero =>
    intro v hlo hhi
    simp only [Int.pow_zero, Int.mul_one] at hlo hhi
    have hd : v / 64 = 0 ∨ v / 64 = -1 := by omega
    have hb : (UInt8.ofNat ((v % 256).toNat % 128)).toNat = (v % 256).toNat % 128 := by simp; omega
    simp only [encodeSFuel, sizeSFuel, hd, if_true, IsLebEnc, slebVal, hb, List.length_cons, List.length_nil]
    refine ⟨by omega, ?_, by omega, by omega, by trivial⟩
    split <;> omega
  | succ n ih =>
    intro v hlo hhi
    rw [encodeSFuel, sizeSFuel]
    by_cases hd : v / 64 = 0 ∨ v / 64 = -1
    · have hb : (UInt8.ofNat ((v % 256).toNat % 128)).toNat = (v % 256).toNat % 128 := by simp; omega
      simp only [hd, if_true, IsLebEnc, slebVal, hb, List.length_cons, List.length_nil]
      refine ⟨by omega, ?_, by omega, by omega, by trivial⟩
      split <;> omega
    · rw [Int.pow_succ] at hlo hhi
      have hP : (0 : Int) < 128 ^ n := Int.pow_pos (by decide)
      generalize (128 : Int) ^ n = P at *
      obtain ⟨henc, hval, hlen, hlen1, hsz⟩ := ih (v / 64 / 2) (by omega) (by omega)
      have hb : (UInt8.ofNat ((v % 256).toNat % 128 + 128)).toNat = (v % 256).toNat % 128 + 128 := by
        simp; omega
      simp only [hd, if_false, List.length_cons]
      generalize hrec : encodeSFuel (n + 1) (v / 64 / 2) = tl at *
      cases tl with
      | nil => simp at hlen1
      | cons c tl =>
        refine ⟨⟨by omega, henc⟩, ?_, by simp at hlen ⊢; omega, by omega, by simp at hsz ⊢; omega⟩
        rw [slebVal, hval, hb]
        omega

theorem encodeS_spec (v : Int) (hlo : -(2 : Int) ^ 63 ≤ v) (hhi : v < 2 ^ 63) :
    IsLebEnc (encodeS v) ∧ slebVal (encodeS v) = v ∧ (encodeS v).length ≤ 10 ∧
      1 ≤ (encodeS v).length ∧ (encodeS v).length = sizeS v := by
  have h : (64 : Int) * 128 ^ 9 = 2 ^ 69 := by decide
  exact encodeSFuel_spec 9 v (by rw [h]; omega) (by rw [h]; omega)

theorem signed_roundtrip (v : Int) (hlo : -(2 : Int) ^ 63 ≤ v) (hhi : v < 2 ^ 63) (rest : Bytes) :
    signed (encodeS v ++ rest) = .ok (v, rest) := by
  obtain ⟨henc, hval, hlen, _, _⟩ := encodeS_spec v hlo hhi
  have hf := sfits_of_range (encodeS v) henc hlen (by rw [hval]; exact hlo) (by rw [hval]; exact hhi)
  have := signed_complete (encodeS v) rest henc hf
  rw [hval] at this; exact this

end Gimli.Leb
