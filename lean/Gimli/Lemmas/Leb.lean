import Gimli.Model.Leb
import Gimli.Spec.Leb
namespace Gimli.Leb
open Gimli.Spec

theorem ulebVal_lt (bs : Bytes) : ulebVal bs < 2 ^ (7 * bs.length) := by
  induction bs with
  | nil => simp [ulebVal]
  | cons b rest ih =>
    simp only [ulebVal, List.length_cons]
    have : 2 ^ (7 * (rest.length + 1)) = 128 * 2 ^ (7 * rest.length) := by
      rw [Nat.mul_add, Nat.pow_add]; omega
    omega

theorem ulebVal_append (a b : Bytes) :
    ulebVal (a ++ b) = ulebVal a + 2 ^ (7 * a.length) * ulebVal b := by
  induction a with
  | nil => simp [ulebVal]
  | cons x a ih =>
    simp only [List.cons_append, ulebVal, List.length_cons, ih]
    have : 2 ^ (7 * (a.length + 1)) = 128 * 2 ^ (7 * a.length) := by
      rw [Nat.mul_add, Nat.pow_add]; omega
    rw [this, Nat.mul_add, Nat.mul_assoc]; omega

/-- the `|=` of the loop body is an addition because the bit ranges are disjoint -/
theorem or_step (result low s : Nat) (hr : result < 2 ^ s) (hfit : low * 2 ^ s < 2 ^ 64) :
    result ||| ((low <<< s) % 2 ^ 64) = result + 2 ^ s * low := by
  rw [Nat.shiftLeft_eq, Nat.mod_eq_of_lt hfit, Nat.or_comm, ← Nat.shiftLeft_eq,
    ← Nat.shiftLeft_add_eq_or_of_lt hr, Nat.shiftLeft_eq]
  rw [Nat.mul_comm]; omega


theorem unsignedLoop_complete (pre : Bytes) : ∀ (rest acc : Bytes),
    IsLebEnc pre → acc.length + pre.length ≤ 10 →
    ulebVal (acc ++ pre) < 2 ^ 64 →
    unsignedLoop (pre ++ rest) (ulebVal acc) (7 * acc.length) = .ok (ulebVal (acc ++ pre), rest) := by
  induction pre with
  | nil => intro _ _ h; simp [IsLebEnc] at h
  | cons b tl ih =>
    intro rest acc henc hlen hfit
    have hs := ulebVal_lt acc
    rw [ulebVal_append] at hfit ⊢
    cases tl with
    | nil =>
      simp only [IsLebEnc] at henc
      simp only [ulebVal, Nat.mul_zero, Nat.add_zero] at hfit ⊢
      have hlow : b.toNat % 128 = b.toNat := Nat.mod_eq_of_lt henc
      have hfit' : b.toNat % 128 * 2 ^ (7 * acc.length) < 2 ^ 64 := by
        rw [Nat.mul_comm]; omega
      simp only [List.cons_append, List.nil_append, unsignedLoop]
      rw [or_step _ _ _ hs hfit']
      have hc : ¬ (7 * acc.length = 63 ∧ b.toNat ≠ 0 ∧ b.toNat ≠ 1) := by
        rintro ⟨h63, h0, h1⟩
        rw [h63] at hfit
        omega
      simp [hc, henc]
    | cons c tl =>
      simp only [IsLebEnc] at henc
      obtain ⟨hb, henc'⟩ := henc
      simp only [List.length_cons] at hlen
      have hc : ¬ (7 * acc.length = 63 ∧ b.toNat ≠ 0 ∧ b.toNat ≠ 1) := by omega
      have hfit' : b.toNat % 128 * 2 ^ (7 * acc.length) < 2 ^ 64 := by
        simp only [ulebVal] at hfit
        rw [Nat.mul_add] at hfit
        rw [Nat.mul_comm]; omega
      have hnb : ¬ b.toNat < 128 := by omega
      rw [List.cons_append, unsignedLoop]
      simp only [hc, if_false, hnb]
      rw [or_step _ _ _ hs hfit']
      have hacc' : ulebVal (acc ++ [b]) = ulebVal acc + 2 ^ (7 * acc.length) * (b.toNat % 128) := by
        rw [ulebVal_append]; simp [ulebVal]
      have := ih rest (acc ++ [b]) henc' (by simp; omega)
        (by rw [List.append_assoc]; simpa [ulebVal_append] using hfit)
      rw [hacc'] at this
      simp only [List.length_append, List.length_cons, List.length_nil] at this
      rw [show 7 * (acc.length + (0+1)) = 7 * acc.length + 7 by omega] at this
      rw [this, List.append_assoc, ulebVal_append]
      simp

theorem low_fit (low k : Nat) (hlow : low < 128) (hk : k ≤ 8) : low * 2 ^ (7 * k) < 2 ^ 63 := by
  have h1 : 2 ^ (7 * k) ≤ 2 ^ 56 := Nat.pow_le_pow_right (by omega) (by omega)
  calc low * 2 ^ (7 * k) ≤ 127 * 2 ^ 56 := Nat.mul_le_mul (by omega) h1
    _ < 2 ^ 63 := by decide

theorem pow7_le (k : Nat) (hk : k ≤ 8) : 2 ^ (7 * k) * 128 ≤ 2 ^ 63 := by
  have : 2 ^ (7 * k) * 128 = 2 ^ (7 * k + 7) := by rw [Nat.pow_add]
  rw [this]; exact Nat.pow_le_pow_right (by omega) (by omega)

theorem unsignedLoop_sound (bs : Bytes) : ∀ (acc : Bytes) (v : Nat) (rest : Bytes),
    acc.length ≤ 9 →
    unsignedLoop bs (ulebVal acc) (7 * acc.length) = .ok (v, rest) →
    ∃ pre, bs = pre ++ rest ∧ IsLebEnc pre ∧ acc.length + pre.length ≤ 10 ∧
      v = ulebVal (acc ++ pre) ∧ v < 2 ^ 64 := by
  induction bs with
  | nil => intro acc v rest _ h; simp [unsignedLoop] at h
  | cons b tl ih =>
    intro acc v rest hk h
    have hs := ulebVal_lt acc
    rw [unsignedLoop] at h
    split at h
    · simp at h
    · rename_i hc
      have hfit' : b.toNat % 128 * 2 ^ (7 * acc.length) < 2 ^ 64 := by
        by_cases h9 : acc.length = 9
        · have : b.toNat % 128 ≤ 1 := by omega
          rw [h9]
          calc b.toNat % 128 * 2 ^ 63 ≤ 1 * 2 ^ 63 := Nat.mul_le_mul_right _ this
            _ < 2 ^ 64 := by decide
        · have := low_fit (b.toNat % 128) acc.length (Nat.mod_lt _ (by decide)) (by omega)
          omega
      simp only at h
      rw [or_step _ _ _ hs hfit'] at h
      have hacc' : ulebVal (acc ++ [b]) = ulebVal acc + 2 ^ (7 * acc.length) * (b.toNat % 128) := by
        rw [ulebVal_append]; simp [ulebVal]
      split at h
      · rename_i hb
        simp only [Out.ok.injEq, Prod.mk.injEq] at h
        refine ⟨[b], by simp [h.2], by simpa [IsLebEnc] using hb, by simp; omega, ?_, ?_⟩
        · rw [hacc']; exact h.1.symm
        · rw [← h.1]
          by_cases h9 : acc.length = 9
          · have : b.toNat % 128 ≤ 1 := by omega
            rw [h9] at hs ⊢
            have : 2 ^ 63 * (b.toNat % 128) ≤ 2 ^ 63 * 1 := Nat.mul_le_mul_left _ this
            omega
          · have h1 := low_fit (b.toNat % 128) acc.length (Nat.mod_lt _ (by decide)) (by omega)
            have h2 : 2 ^ (7 * acc.length) ≤ 2 ^ 56 := Nat.pow_le_pow_right (by omega) (by omega)
            rw [Nat.mul_comm]; omega
      · rename_i hb
        have hk8 : acc.length ≤ 8 := by omega
        rw [← hacc'] at h
        have := ih (acc ++ [b]) v rest (by simp; omega)
          (by simpa [Nat.mul_add] using h)
        obtain ⟨pre, hbs, henc, hlen, hv, hlt⟩ := this
        refine ⟨b :: pre, by simp [hbs], ?_, by simp at hlen ⊢; omega, by simpa using hv, hlt⟩
        cases pre with
        | nil => simp [IsLebEnc] at henc
        | cons c pre => exact ⟨by omega, henc⟩

theorem isLebEnc_unique (pre : Bytes) : ∀ (pre' rest rest' : Bytes), IsLebEnc pre → IsLebEnc pre' →
    pre ++ rest = pre' ++ rest' → pre = pre' ∧ rest = rest' := by
  induction pre with
  | nil => intro _ _ _ h; simp [IsLebEnc] at h
  | cons b tl ih =>
    intro pre' rest rest' h h' heq
    cases pre' with
    | nil => simp [IsLebEnc] at h'
    | cons b' tl' =>
      simp only [List.cons_append, List.cons.injEq] at heq
      obtain ⟨rfl, heq⟩ := heq
      cases tl with
      | nil =>
        cases tl' with
        | nil => simpa using heq
        | cons c' tl' => simp only [IsLebEnc] at h h'; omega
      | cons c tl =>
        cases tl' with
        | nil => simp only [IsLebEnc] at h h'; omega
        | cons c' tl' =>
          have := ih (c' :: tl') rest rest' h.2 h'.2 heq
          simp [this.1, this.2]

theorem unsigned_sound (bs : Bytes) (v : Nat) (rest : Bytes) (h : unsigned bs = .ok (v, rest)) :
    ∃ pre, bs = pre ++ rest ∧ IsLebEnc pre ∧ pre.length ≤ 10 ∧ v = ulebVal pre ∧ v < 2 ^ 64 := by
  cases bs with
  | nil => simp [unsigned] at h
  | cons b tl =>
    rw [unsigned] at h
    split at h
    · rename_i hb
      simp only [Out.ok.injEq, Prod.mk.injEq] at h
      refine ⟨[b], by simp [h.2], by simpa [IsLebEnc] using hb, by simp, ?_, by omega⟩
      simp only [ulebVal]; omega
    · rename_i hb
      have h1 : ulebVal [b] = b.toNat % 128 := by simp [ulebVal]
      rw [← h1] at h
      obtain ⟨pre, hbs, henc, hlen, hv, hlt⟩ := unsignedLoop_sound tl [b] v rest (by simp) (by simpa using h)
      refine ⟨b :: pre, by simp [hbs], ?_, by simp at hlen ⊢; omega, by simpa using hv, hlt⟩
      cases pre with
      | nil => simp [IsLebEnc] at henc
      | cons c pre => exact ⟨by omega, henc⟩

theorem unsigned_complete (pre rest : Bytes) (henc : IsLebEnc pre) (hlen : pre.length ≤ 10)
    (hfit : ulebVal pre < 2 ^ 64) : unsigned (pre ++ rest) = .ok (ulebVal pre, rest) := by
  cases pre with
  | nil => simp [IsLebEnc] at henc
  | cons b tl =>
    cases tl with
    | nil =>
      simp only [IsLebEnc] at henc
      simp [unsigned, henc, ulebVal, Nat.mod_eq_of_lt henc]
    | cons c tl =>
      simp only [IsLebEnc] at henc
      have hnb : ¬ b.toNat < 128 := by omega
      rw [List.cons_append, unsigned]
      simp only [hnb, if_false]
      have h1 : ulebVal [b] = b.toNat % 128 := by simp [ulebVal]
      rw [← h1]
      have := unsignedLoop_complete (c :: tl) rest [b] henc.2 (by simp at hlen ⊢; omega) (by simpa using hfit)
      simpa using this

/-- a complete LEB128 number is never reported as truncated -/
theorem unsignedLoop_enc (pre : Bytes) : ∀ (rest : Bytes) (r s : Nat), IsLebEnc pre →
    (∃ v, unsignedLoop (pre ++ rest) r s = .ok (v, rest)) ∨
      unsignedLoop (pre ++ rest) r s = .err .rBadUnsignedLeb128 := by
  induction pre with
  | nil => intro _ _ _ h; simp [IsLebEnc] at h
  | cons b tl ih =>
    intro rest r s henc
    rw [List.cons_append, unsignedLoop]
    split
    · right; rfl
    · cases tl with
      | nil =>
        simp only [IsLebEnc] at henc
        left; simp [henc]
      | cons c tl =>
        simp only [IsLebEnc] at henc
        have hnb : ¬ b.toNat < 128 := by omega
        simp only [hnb, if_false]
        exact ih rest _ _ henc.2

theorem unsigned_enc (pre rest : Bytes) (henc : IsLebEnc pre) :
    (∃ v, unsigned (pre ++ rest) = .ok (v, rest)) ∨
      unsigned (pre ++ rest) = .err .rBadUnsignedLeb128 := by
  cases pre with
  | nil => simp [IsLebEnc] at henc
  | cons b tl =>
    rw [List.cons_append, unsigned]
    cases tl with
    | nil => simp only [IsLebEnc] at henc; left; simp [henc]
    | cons c tl =>
      simp only [IsLebEnc] at henc
      have hnb : ¬ b.toNat < 128 := by omega
      simp only [hnb, if_false]
      exact unsignedLoop_enc (c :: tl) rest _ _ henc.2

theorem unsigned_reject (pre rest : Bytes) (henc : IsLebEnc pre)
    (hbad : 10 < pre.length ∨ 2 ^ 64 ≤ ulebVal pre) :
    unsigned (pre ++ rest) = .err .rBadUnsignedLeb128 := by
  rcases unsigned_enc pre rest henc with ⟨v, hv⟩ | h
  · obtain ⟨pre', hbs, henc', hlen, hval, hlt⟩ := unsigned_sound _ _ _ hv
    obtain ⟨rfl, _⟩ := isLebEnc_unique pre pre' rest rest henc henc' hbs
    omega
  · exact h


theorem encodeUFuel_spec (fuel : Nat) : ∀ (v : Nat), v < 128 ^ (fuel + 1) →
    IsLebEnc (encodeUFuel (fuel + 1) v) ∧ ulebVal (encodeUFuel (fuel + 1) v) = v ∧
    (encodeUFuel (fuel + 1) v).length ≤ fuel + 1 ∧ 1 ≤ (encodeUFuel (fuel + 1) v).length ∧
    (encodeUFuel (fuel + 1) v).length = sizeUFuel (fuel + 1) v := by
  induction fuel with
  | zero =>
    intro v hv
    have h0 : v / 128 = 0 := by omega
    have : (UInt8.ofNat (v % 128)).toNat = v % 128 := by simp; omega
    simp [encodeUFuel, sizeUFuel, h0, IsLebEnc, ulebVal, this]; omega
  | succ n ih =>
    intro v hv
    rw [encodeUFuel, sizeUFuel]
    by_cases h0 : v / 128 = 0
    · have : (UInt8.ofNat (v % 128)).toNat = v % 128 := by simp; omega
      simp [h0, IsLebEnc, ulebVal, this]; omega
    · have hv' : v / 128 < 128 ^ (n + 1) := by
        rw [Nat.div_lt_iff_lt_mul (by decide)]; rw [Nat.pow_succ] at hv; exact hv
      obtain ⟨henc, hval, hlen, hlen1, hsz⟩ := ih (v / 128) hv'
      have hb : (UInt8.ofNat (v % 128 + 128)).toNat = v % 128 + 128 := by
        simp; omega
      simp only [ne_eq, h0, not_false_eq_true, if_true, if_false, List.length_cons, ulebVal, hb, hval]
      refine ⟨?_, by omega, by omega, by omega, by omega⟩
      generalize hrec : encodeUFuel (n + 1) (v / 128) = tl at *
      cases tl with
      | nil => simp at hlen1
      | cons c tl => exact ⟨by omega, henc⟩

theorem encodeU_spec (v : Nat) (hv : v < 2 ^ 64) :
    IsLebEnc (encodeU v) ∧ ulebVal (encodeU v) = v ∧ (encodeU v).length ≤ 10 ∧
      1 ≤ (encodeU v).length ∧ (encodeU v).length = sizeU v :=
  encodeUFuel_spec 9 v (by have : (2:Nat) ^ 64 ≤ 128 ^ (9 + 1) := by decide
                           omega)

theorem unsigned_roundtrip (v : Nat) (hv : v < 2 ^ 64) (rest : Bytes) :
    unsigned (encodeU v ++ rest) = .ok (v, rest) := by
  obtain ⟨henc, hval, hlen, _, _⟩ := encodeU_spec v hv
  have := unsigned_complete (encodeU v) rest henc hlen (by omega)
  rw [hval] at this; exact this

end Gimli.Leb
