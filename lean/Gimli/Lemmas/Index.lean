import Gimli.Spec.Index
import Gimli.Model.Index
import Gimli.Lemmas.Ints
import Gimli.Lemmas.C17Util
import Mathlib.Data.Fintype.EquivFin
import Mathlib.Data.Nat.GCD.Basic
import Mathlib.Data.Nat.ModEq
/-!
# Lemmas for C17, package hash index

1. number theory: an odd stride visits every slot of a `2^k` table (`probe_inj`, `probe_surj`);
2. the insertion invariant of a table built with the standard's probe sequence (`Inv`,
   `insert_inv`, `buildFrom_spec`) and "insertion succeeds while there is room"
   (`buildFrom_succeeds`, the only place where 1. is needed);
3. the standard's lookup on such a table returns exactly what is stored (`lookup_iff`);
4. `UnitIndex::find` on the encoded table *is* that lookup (`find_eq_lookup`).
-/
namespace Gimli.Spec.Index

theorem probe_lt (k id i : Nat) : probe k id i < 2 ^ k := Nat.mod_lt _ (Nat.pow_pos (by decide))

theorem stride_odd (k id : Nat) : stride k id % 2 = 1 := by
  unfold stride
  rw [Nat.or_mod_two_eq_one]; right; rfl


/-- an odd stride is coprime to a power of two -/
theorem coprime_of_odd (s k : Nat) (hs : s % 2 = 1) : Nat.Coprime s (2 ^ k) := by
  apply Nat.Coprime.pow_right
  rw [Nat.coprime_comm, Nat.Coprime, Nat.gcd_rec, hs]; rfl

/-- **An odd stride visits every slot of a `2^k` table**, injectivity half: two different probe
numbers below `2^k` land in different slots. -/
theorem probe_inj (k a s i j : Nat) (hs : s % 2 = 1) (hi : i < 2 ^ k) (hj : j < 2 ^ k)
    (h : (a + i * s) % 2 ^ k = (a + j * s) % 2 ^ k) : i = j := by
  have hc := coprime_of_odd s k hs
  have h1 : i * s ≡ j * s [MOD 2 ^ k] := Nat.ModEq.add_left_cancel' a h
  have h2 : i ≡ j [MOD 2 ^ k] := Nat.ModEq.cancel_right_of_coprime (by rwa [Nat.coprime_comm, Nat.Coprime] at hc) h1
  have := Nat.ModEq.eq_of_lt_of_lt h2 hi hj
  exact this

/-- surjectivity half (pigeonhole) -/
theorem probe_surj (k a s p : Nat) (hs : s % 2 = 1) (hp : p < 2 ^ k) :
    ∃ i, i < 2 ^ k ∧ (a + i * s) % 2 ^ k = p := by
  let f : Fin (2 ^ k) → Fin (2 ^ k) := fun i => ⟨(a + i.1 * s) % 2 ^ k, Nat.mod_lt _ (Nat.pow_pos (by decide))⟩
  have hinj : Function.Injective f := by
    intro x y hxy
    have := congrArg Fin.val hxy
    exact Fin.ext (probe_inj k a s x.1 y.1 hs x.2 y.2 this)
  obtain ⟨i, hi⟩ := (Finite.injective_iff_surjective.mp hinj) ⟨p, hp⟩
  exact ⟨i.1, i.2, congrArg Fin.val hi⟩

theorem probe_surj' (k id p : Nat) (hp : p < 2 ^ k) : ∃ i, i < 2 ^ k ∧ probe k id i = p :=
  probe_surj k (id % 2 ^ k) (stride k id) p (stride_odd k id) hp

theorem slot_set (t : Table) (p q : Nat) (kv : Nat × Nat) (hp : p < t.length) :
    slot (t.set p kv) q = if q = p then kv else slot t q := by
  unfold slot
  simp only [List.getD_eq_getElem?_getD, List.getElem?_set]
  by_cases h : p = q
  · subst h; simp [hp]
  · have : ¬ q = p := fun h' => h h'.symm
    simp [h, this]

theorem slotId_set (t : Table) (p q : Nat) (kv : Nat × Nat) (hp : p < t.length) :
    slotId (t.set p kv) q = if q = p then kv.1 else slotId t q := by
  unfold slotId; rw [slot_set _ _ _ _ hp]; split <;> rfl

/-- what `firstFree` returns: the first unused slot on the probe sequence -/
theorem firstFree_some (k id : Nat) (t : Table) (fuel i p : Nat)
    (h : firstFree k id t fuel i = some p) :
    ∃ n, n < fuel ∧ p = probe k id (i + n) ∧ slotId t p = 0 ∧
      ∀ j, i ≤ j → j < i + n → slotId t (probe k id j) ≠ 0 := by
  induction fuel generalizing i with
  | zero => simp [firstFree] at h
  | succ f ih =>
    rw [firstFree] at h
    split at h
    · rename_i h0
      simp only [Option.some.injEq] at h
      subst h
      exact ⟨0, by omega, rfl, h0, fun j h1 h2 => by omega⟩
    · rename_i h0
      obtain ⟨n, hn, hp, hz, hall⟩ := ih (i + 1) h
      refine ⟨n + 1, by omega, by rw [hp]; congr 1; omega, hz, ?_⟩
      intro j h1 h2
      by_cases hj : j = i
      · subst hj; exact h0
      · exact hall j (by omega) (by omega)

theorem firstFree_exists (k id : Nat) (t : Table) (fuel i n : Nat) (hn : n < fuel)
    (h0 : slotId t (probe k id (i + n)) = 0) : ∃ p, firstFree k id t fuel i = some p := by
  induction fuel generalizing i n with
  | zero => omega
  | succ f ih =>
    rw [firstFree]
    split
    · exact ⟨_, rfl⟩
    · rename_i hne
      cases n with
      | zero => exact absurd h0 hne
      | succ m => exact ih (i + 1) m (by omega) (by rwa [show i + 1 + m = i + (m + 1) by omega])

/-- the invariant of a table built by insertion -/
structure Inv (k : Nat) (t : Table) : Prop where
  len : t.length = 2 ^ k
  chain : ∀ p, p < 2 ^ k → slotId t p ≠ 0 →
    ∃ i, i < 2 ^ k ∧ probe k (slotId t p) i = p ∧
      ∀ j, j < i → slotId t (probe k (slotId t p) j) ≠ 0 ∧
        slotId t (probe k (slotId t p) j) ≠ slotId t p
  distinct : ∀ p q, p < 2 ^ k → q < 2 ^ k → slotId t p ≠ 0 → slotId t p = slotId t q → p = q

theorem slot_replicate (n p : Nat) : slot (List.replicate n (0, 0)) p = (0, 0) := by
  unfold slot
  rw [List.getD_eq_getElem?_getD, List.getElem?_replicate]
  split <;> rfl

theorem inv_empty (k : Nat) : Inv k (emptyTable k) := by
  refine ⟨by simp [emptyTable], ?_, ?_⟩
  · intro p _ h; exact absurd (by simp [slotId, emptyTable, slot_replicate]) h
  · intro p q _ _ h; exact absurd (by simp [slotId, emptyTable, slot_replicate]) h

/-- insertion keeps the invariant and adds exactly the new pair -/
theorem insert_inv (k : Nat) (t t' : Table) (kv : Nat × Nat) (hinv : Inv k t)
    (hnew : ∀ p, p < 2 ^ k → slotId t p ≠ kv.1) (h : insert k t kv = some t') :
    Inv k t' ∧ ∃ p, p < 2 ^ k ∧ slotId t p = 0 ∧ ∀ q, slot t' q = if q = p then kv else slot t q := by
  unfold insert at h
  cases hf : firstFree k kv.1 t (2 ^ k) 0 with
  | none => rw [hf] at h; simp at h
  | some p =>
    rw [hf] at h
    simp only [Option.map_some, Option.some.injEq] at h
    subst h
    obtain ⟨n, hn, hp, hz, hall⟩ := firstFree_some _ _ _ _ _ _ hf
    have hplt : p < 2 ^ k := by rw [hp]; exact probe_lt _ _ _
    have hpl : p < t.length := by rw [hinv.len]; exact hplt
    have hs : ∀ q, slot (t.set p kv) q = if q = p then kv else slot t q := fun q => slot_set t p q kv hpl
    have hsi : ∀ q, slotId (t.set p kv) q = if q = p then kv.1 else slotId t q := fun q => slotId_set t p q kv hpl
    refine ⟨⟨by simp [hinv.len], ?_, ?_⟩, p, hplt, hz, hs⟩
    · intro q hq hqnz
      rw [hsi] at hqnz ⊢
      by_cases hqp : q = p
      · subst hqp
        simp only [if_true]
        refine ⟨n, hn, by rw [hp]; simp, ?_⟩
        intro j hj
        have hj0 := hall j (by omega) (by omega)
        have hne : probe k kv.1 j ≠ q := by
          intro he; rw [he] at hj0; exact hj0 hz
        rw [hsi, if_neg hne]
        exact ⟨hj0, hnew _ (probe_lt _ _ _)⟩
      · simp only [if_neg hqp] at hqnz ⊢
        obtain ⟨i, hi, hpi, hch⟩ := hinv.chain q hq hqnz
        refine ⟨i, hi, hpi, ?_⟩
        intro j hj
        obtain ⟨c1, c2⟩ := hch j hj
        have hne : probe k (slotId t q) j ≠ p := by
          intro he; rw [he] at c1; exact c1 hz
        rw [hsi, if_neg hne]
        exact ⟨c1, c2⟩
    · intro a b ha hb hanz hab
      rw [hsi] at hanz
      rw [hsi, hsi] at hab
      by_cases hap : a = p <;> by_cases hbp : b = p
      · omega
      · simp only [if_pos hap, if_neg hbp] at hab
        exact absurd hab.symm (hnew b hb)
      · simp only [if_neg hap, if_pos hbp] at hab
        exact absurd hab (hnew a ha)
      · simp only [if_neg hap, if_neg hbp] at hab hanz
        exact hinv.distinct a b ha hb hanz hab

theorem lookupFrom_absent (k id : Nat) (t : Table) (fuel i : Nat)
    (h : ∀ p, p < 2 ^ k → slotId t p ≠ id) : lookupFrom k id t fuel i = none := by
  induction fuel generalizing i with
  | zero => rfl
  | succ f ih =>
    rw [lookupFrom, if_neg (h _ (probe_lt _ _ _))]
    split
    · rfl
    · exact ih (i + 1)

theorem lookupFrom_chain (k id : Nat) (t : Table) (i : Nat)
    (hhit : slotId t (probe k id i) = id)
    (hch : ∀ j, j < i → slotId t (probe k id j) ≠ 0 ∧ slotId t (probe k id j) ≠ id)
    (d n fuel : Nat) (hd : n + d = i) (hf : d < fuel) :
    lookupFrom k id t fuel n = some (slot t (probe k id i)).2 := by
  induction d generalizing n fuel with
  | zero =>
    have : n = i := by omega
    subst this
    cases fuel with
    | zero => omega
    | succ f => rw [lookupFrom, if_pos hhit]
  | succ d ih =>
    cases fuel with
    | zero => omega
    | succ f =>
      obtain ⟨c1, c2⟩ := hch n (by omega)
      rw [lookupFrom, if_neg c2, if_neg c1]
      exact ih (n + 1) f (by omega) (by omega)

/-- on a table with the insertion invariant the standard's lookup finds exactly what is stored -/
theorem lookup_present (k : Nat) (t : Table) (hinv : Inv k t) (p : Nat) (hp : p < 2 ^ k)
    (hnz : slotId t p ≠ 0) : lookup k (slotId t p) t = some (slot t p).2 := by
  obtain ⟨i, hi, hpi, hch⟩ := hinv.chain p hp hnz
  have := lookupFrom_chain k (slotId t p) t i (by rw [hpi]) hch i 0 (2 ^ k) (by omega) hi
  rw [hpi] at this
  exact this

theorem lookup_iff (k : Nat) (t : Table) (hinv : Inv k t) (id : Nat) (hid : id ≠ 0) (row : Nat) :
    lookup k id t = some row ↔ ∃ p, p < 2 ^ k ∧ slot t p = (id, row) := by
  constructor
  · intro h
    by_cases hex : ∃ p, p < 2 ^ k ∧ slotId t p = id
    · obtain ⟨p, hp, hpid⟩ := hex
      have := lookup_present k t hinv p hp (by rw [hpid]; exact hid)
      rw [hpid, h] at this
      refine ⟨p, hp, ?_⟩
      simp only [Option.some.injEq] at this
      rw [← hpid, this]; rfl
    · have : lookup k id t = none := lookupFrom_absent k id t _ _ (fun p hp he => hex ⟨p, hp, he⟩)
      rw [this] at h; simp at h
  · rintro ⟨p, hp, hs⟩
    have hpid : slotId t p = id := by simp [slotId, hs]
    have := lookup_present k t hinv p hp (by rw [hpid]; exact hid)
    rw [hpid, hs] at this
    exact this
theorem exists_free (t : Table) (h : used t < t.length) : ∃ p, p < t.length ∧ slotId t p = 0 := by
  induction t with
  | nil => simp at h
  | cons a t ih =>
    by_cases ha : a.1 = 0
    · exact ⟨0, by simp, by simp [slotId, slot, ha]⟩
    · have : used t < t.length := by
        simp only [used, ha, if_false, List.length_cons] at h
        omega
      obtain ⟨p, hp, hz⟩ := ih this
      exact ⟨p + 1, by simp; omega, by simpa [slotId, slot] using hz⟩

theorem used_set_le (t : Table) (p : Nat) (kv : Nat × Nat) : used (t.set p kv) ≤ used t + 1 := by
  induction t generalizing p with
  | nil => simp [used]
  | cons a t ih =>
    cases p with
    | zero =>
      simp only [used, List.set_cons_zero]
      split <;> split <;> omega
    | succ p =>
      have := ih p
      simp only [used, List.set_cons_succ]
      omega

theorem insert_succeeds (k : Nat) (t : Table) (kv : Nat × Nat) (hlen : t.length = 2 ^ k)
    (hroom : used t < 2 ^ k) : ∃ t', insert k t kv = some t' ∧ t'.length = 2 ^ k ∧ used t' ≤ used t + 1 := by
  obtain ⟨p, hp, hz⟩ := exists_free t (by omega)
  obtain ⟨i, hi, hpi⟩ := probe_surj' k kv.1 p (by omega)
  obtain ⟨q, hq⟩ := firstFree_exists k kv.1 t (2 ^ k) 0 i hi (by rw [Nat.zero_add, hpi]; exact hz)
  refine ⟨t.set q kv, by simp [insert, hq], by simp [hlen], used_set_le _ _ _⟩

/-- **insertion never fails while the table has room**: any list of at most `2^k - used` pairs
can be inserted (this is where "an odd stride visits every slot" is needed) -/
theorem buildFrom_succeeds (k : Nat) (kvs : List (Nat × Nat)) (t : Table) (hlen : t.length = 2 ^ k)
    (hroom : used t + kvs.length ≤ 2 ^ k) : ∃ t', buildFrom k kvs t = some t' := by
  induction kvs generalizing t with
  | nil => exact ⟨t, rfl⟩
  | cons kv kvs ih =>
    simp only [List.length_cons] at hroom
    obtain ⟨t1, h1, hl1, hu1⟩ := insert_succeeds k t kv hlen (by omega)
    obtain ⟨t', h'⟩ := ih t1 hl1 (by omega)
    exact ⟨t', by simp [buildFrom, h1, h']⟩

theorem buildFrom_spec (k : Nat) (kvs : List (Nat × Nat)) (t t' : Table) (hinv : Inv k t)
    (hd : kvs.Pairwise (fun a b => a.1 ≠ b.1))
    (hfresh : ∀ kv, kv ∈ kvs → ∀ p, p < 2 ^ k → slotId t p ≠ kv.1)
    (h : buildFrom k kvs t = some t') :
    Inv k t' ∧ ∀ id row, id ≠ 0 → ((∃ p, p < 2 ^ k ∧ slot t' p = (id, row)) ↔
      (∃ p, p < 2 ^ k ∧ slot t p = (id, row)) ∨ (id, row) ∈ kvs) := by
  induction kvs generalizing t with
  | nil =>
    simp only [buildFrom, Option.some.injEq] at h
    subst h
    exact ⟨hinv, fun id row _ => by simp⟩
  | cons kv kvs ih =>
    rw [buildFrom] at h
    cases h1 : insert k t kv with
    | none => rw [h1] at h; simp at h
    | some t1 =>
      rw [h1] at h
      simp only [Option.bind_some] at h
      obtain ⟨hinv1, p0, hp0, hz0, hs⟩ := insert_inv k t t1 kv hinv
        (hfresh kv (by simp)) h1
      have hd' := List.pairwise_cons.mp hd
      have hfresh1 : ∀ kv', kv' ∈ kvs → ∀ p, p < 2 ^ k → slotId t1 p ≠ kv'.1 := by
        intro kv' hkv' p hp
        unfold slotId
        rw [hs]
        split
        · exact hd'.1 kv' hkv'
        · exact hfresh kv' (by simp [hkv']) p hp
      obtain ⟨hinv', hc⟩ := ih t1 hinv1 hd'.2 hfresh1 h
      refine ⟨hinv', fun id row hid => ?_⟩
      rw [hc id row hid]
      constructor
      · rintro (⟨p, hp, hsp⟩ | hmem)
        · rw [hs] at hsp
          split at hsp
          · right; simp [hsp]
          · left; exact ⟨p, hp, hsp⟩
        · right; simp [hmem]
      · rintro (⟨p, hp, hsp⟩ | hmem)
        · left
          refine ⟨p, hp, ?_⟩
          rw [hs]
          have : p ≠ p0 := by
            intro he; subst he
            simp only [slotId, hsp] at hz0
            exact hid hz0
          simp [this, hsp]
        · rcases List.mem_cons.mp hmem with he | hm
          · left; exact ⟨p0, hp0, by rw [hs]; simp [he]⟩
          · right; exact hm
/-- with pairwise distinct signatures the exhaustive scan returns `row` exactly for the listed pairs -/
theorem scan_iff (kvs : List (Nat × Nat)) (hd : kvs.Pairwise (fun a b => a.1 ≠ b.1)) (id row : Nat) :
    scan kvs id = some row ↔ (id, row) ∈ kvs := by
  induction kvs with
  | nil => simp [scan]
  | cons kv kvs ih =>
    have hd' := List.pairwise_cons.mp hd
    unfold scan at ih ⊢
    rw [List.find?_cons]
    by_cases h : kv.1 = id
    · simp only [h, decide_true, Option.map_some, Option.some.injEq, List.mem_cons]
      constructor
      · intro hr; left; rw [← h, ← hr]
      · rintro (he | hm)
        · rw [← he]
        · exact absurd h (by have := hd'.1 (id, row) hm; simpa using this)
    · simp only [h, decide_false]
      rw [ih hd'.2, List.mem_cons]
      constructor
      · intro hm; right; exact hm
      · rintro (he | hm)
        · exact absurd (by rw [← he]) h
        · exact hm

/-! ### provenance of the slots of a built table -/

theorem insert_slots (k : Nat) (t t' : Table) (kv : Nat × Nat) (hlen : t.length = 2 ^ k)
    (h : insert k t kv = some t') : t'.length = 2 ^ k ∧ ∀ q, slot t' q = slot t q ∨ slot t' q = kv := by
  unfold insert at h
  cases hf : firstFree k kv.1 t (2 ^ k) 0 with
  | none => rw [hf] at h; simp at h
  | some p =>
    rw [hf] at h
    simp only [Option.map_some, Option.some.injEq] at h
    subst h
    obtain ⟨n, _, hp, _, _⟩ := firstFree_some _ _ _ _ _ _ hf
    have hpl : p < t.length := by rw [hlen, hp]; exact probe_lt _ _ _
    refine ⟨by simp [hlen], fun q => ?_⟩
    rw [slot_set t p q kv hpl]
    split
    · right; rfl
    · left; rfl

theorem buildFrom_slots (k : Nat) (kvs : List (Nat × Nat)) (t t' : Table) (hlen : t.length = 2 ^ k)
    (h : buildFrom k kvs t = some t') :
    t'.length = 2 ^ k ∧ ∀ q, slot t' q = slot t q ∨ slot t' q ∈ kvs := by
  induction kvs generalizing t with
  | nil =>
    simp only [buildFrom, Option.some.injEq] at h
    subst h
    exact ⟨hlen, fun q => Or.inl rfl⟩
  | cons kv kvs ih =>
    rw [buildFrom] at h
    cases h1 : insert k t kv with
    | none => rw [h1] at h; simp at h
    | some t1 =>
      rw [h1] at h
      simp only [Option.bind_some] at h
      obtain ⟨hl1, hs1⟩ := insert_slots k t t1 kv hlen h1
      obtain ⟨hl', hs'⟩ := ih t1 hl1 h
      refine ⟨hl', fun q => ?_⟩
      rcases hs' q with h2 | h2
      · rcases hs1 q with h3 | h3
        · left; rw [h2, h3]
        · right; rw [h2, h3]; simp
      · right; simp [h2]
end Gimli.Spec.Index

namespace Gimli.Index
open Gimli Gimli.Ints Gimli.Spec.Index

theorem flatMap_length_const {α : Type} (f : α → Bytes) (n : Nat) (hf : ∀ a, (f a).length = n)
    (t : List α) : (t.flatMap f).length = n * t.length := by
  induction t with
  | nil => simp
  | cons a t ih => simp [List.flatMap_cons, hf, ih, Nat.mul_succ, Nat.add_comm]

theorem drop_flatMap_const {α : Type} (f : α → Bytes) (n : Nat) (hf : ∀ a, (f a).length = n)
    (t : List α) (p : Nat) : (t.flatMap f).drop (p * n) = (t.drop p).flatMap f := by
  induction p generalizing t with
  | zero => simp
  | succ p ih =>
    cases t with
    | nil => simp
    | cons a t =>
      rw [List.flatMap_cons, Nat.succ_mul, Nat.add_comm, ← List.drop_drop]
      rw [List.drop_left' (hf a)]
      simpa using ih t

/-- the bytes of `hash_ids` / `hash_rows` for a slot table -/
def encIds (e : Endian) (t : Table) : Bytes := t.flatMap (fun kv => toBytes e 8 kv.1)
def encRows (e : Endian) (t : Table) : Bytes := t.flatMap (fun kv => toBytes e 4 kv.2)

/-- `ix` is a parsed index whose hash arrays hold the slot table `t` of `2^k` slots -/
structure Encodes (e : Endian) (k : Nat) (t : Table) (ix : UnitIndex) : Prop where
  slots : ix.slotCount = 2 ^ k
  len : t.length = 2 ^ k
  ids : ix.hashIds = encIds e t
  rows : ix.hashRows = encRows e t
  bound : ∀ kv, kv ∈ t → kv.1 < 2 ^ 64 ∧ kv.2 < 2 ^ 32

theorem readAt_chunks {α : Type} (e : Endian) (n : Nat) (g : α → Nat) (t : List α) (p : Nat)
    (hp : p < t.length) (hb : g t[p] < 256 ^ n) :
    readAt e n (t.flatMap (fun a => toBytes e n (g a))) (p * n) = some (g t[p]) := by
  have hf : ∀ a : α, (toBytes e n (g a)).length = n := fun a => toBytes_length e n (g a)
  unfold readAt
  have hl := flatMap_length_const (fun a => toBytes e n (g a)) n hf t
  have : p * n ≤ (t.flatMap (fun a => toBytes e n (g a))).length := by
    rw [hl, Nat.mul_comm]; exact Nat.mul_le_mul_left n (by omega)
  rw [if_pos this, drop_flatMap_const _ n hf, List.drop_eq_getElem_cons hp, List.flatMap_cons,
    readFixed_toBytes e n _ _ hb]

theorem slot_eq_getElem (t : Table) (p : Nat) (hp : p < t.length) : slot t p = t[p] := by
  simp [slot, List.getD_eq_getElem?_getD, hp]

theorem probe_step (k id i : Nat) :
    (probe k id i + stride k id) &&& (2 ^ k - 1) = probe k id (i + 1) := by
  rw [Nat.and_two_pow_sub_one_eq_mod]
  unfold probe
  rw [Nat.succ_mul, ← Nat.add_assoc, Nat.mod_add_mod]

theorem findLoop_eq_lookupFrom (e : Endian) (k : Nat) (t : Table) (ix : UnitIndex)
    (henc : Encodes e k t ix) (id fuel i : Nat) :
    (findLoop e ix id (2 ^ k - 1) (stride k id) fuel (probe k id i)).1 = lookupFrom k id t fuel i := by
  induction fuel generalizing i with
  | zero => rfl
  | succ f ih =>
    have hp : probe k id i < t.length := by
      rw [henc.len]; exact Nat.mod_lt _ (Nat.pow_pos (by decide))
    have hb := henc.bound t[probe k id i] (List.getElem_mem hp)
    have h1 : readAt e 8 ix.hashIds (probe k id i * 8) = some (slotId t (probe k id i)) := by
      rw [henc.ids, encIds, readAt_chunks e 8 (fun kv => kv.1) t _ hp (by simpa using hb.1)]
      simp [slotId, slot_eq_getElem t _ hp]
    have h2 : readAt e 4 ix.hashRows (probe k id i * 4) = some (slot t (probe k id i)).2 := by
      rw [henc.rows, encRows, readAt_chunks e 4 (fun kv => kv.2) t _ hp (by simpa using hb.2)]
      simp [slot_eq_getElem t _ hp]
    rw [findLoop, lookupFrom, h1]
    simp only
    split
    · exact h2
    · split
      · rfl
      · simp only
        rw [probe_step]
        exact ih (i + 1)

/-- on an encoded table `UnitIndex::find` is the standard's lookup -/
theorem find_zero (e : Endian) (ix : UnitIndex) : find e ix 0 = none := by
  simp [find, findN]

theorem find_eq_lookup (e : Endian) (k : Nat) (t : Table) (ix : UnitIndex)
    (henc : Encodes e k t ix) (id : Nat) (hid : id ≠ 0) : find e ix id = lookup k id t := by
  unfold find findN lookup
  have hpos : 0 < 2 ^ k := Nat.pow_pos (by decide)
  rw [if_neg (by rw [henc.slots]; omega)]
  simp only [henc.slots]
  have h1 : id &&& (2 ^ k - 1) = probe k id 0 := by
    rw [Nat.and_two_pow_sub_one_eq_mod]; simp [probe]
  have h2 : ((id >>> 32) &&& (2 ^ k - 1)) ||| 1 = stride k id := by
    rw [Nat.and_two_pow_sub_one_eq_mod, Nat.shiftRight_eq_div_pow]; rfl
  rw [h1, h2]
  exact findLoop_eq_lookupFrom e k t ix henc id (2 ^ k) 0

/-- `find` never probes more than `slot_count` slots, whatever the bytes are -/
theorem findLoop_probes_le (e : Endian) (ix : UnitIndex) (id mask hash2 fuel h1 : Nat) :
    (findLoop e ix id mask hash2 fuel h1).2 ≤ fuel := by
  induction fuel generalizing h1 with
  | zero => simp [findLoop]
  | succ f ih =>
    rw [findLoop]
    split
    · simp
    · split
      · simp
      · split
        · simp
        · simp only; have := ih ((h1 + hash2) &&& mask); omega

/-! ### `sections(row)`: row/column arithmetic -/

theorem flatMap_length_mem {α : Type} (f : α → Bytes) (n : Nat) (t : List α)
    (hf : ∀ a, a ∈ t → (f a).length = n) : (t.flatMap f).length = n * t.length := by
  induction t with
  | nil => simp
  | cons a t ih =>
    rw [List.flatMap_cons, List.length_append, hf a (by simp), ih (fun b hb => hf b (by simp [hb]))]
    simp [Nat.mul_succ, Nat.add_comm]

theorem drop_flatMap_mem {α : Type} (f : α → Bytes) (n : Nat) (t : List α)
    (hf : ∀ a, a ∈ t → (f a).length = n) (p : Nat) :
    (t.flatMap f).drop (p * n) = (t.drop p).flatMap f := by
  induction p generalizing t with
  | zero => simp
  | succ p ih =>
    cases t with
    | nil => simp
    | cons a t =>
      rw [List.flatMap_cons, Nat.succ_mul, Nat.add_comm, ← List.drop_drop]
      rw [List.drop_left' (hf a (by simp))]
      simpa using ih t (fun b hb => hf b (by simp [hb]))

/-- a row of `u32`s -/
def encRow (e : Endian) (r : List Nat) : Bytes := r.flatMap (toBytes e 4)
/-- a row-major matrix of `u32`s (the `offsets` / `sizes` arrays of the index) -/
def encMatrix (e : Endian) (m : List (List Nat)) : Bytes := m.flatMap (encRow e)

theorem encRow_length (e : Endian) (r : List Nat) : (encRow e r).length = 4 * r.length :=
  flatMap_length_const _ 4 (fun a => toBytes_length e 4 a) r

theorem sectionIter_rows (e : Endian) (ks : List SecKind) (os ss : List Nat) (t1 t2 : Bytes)
    (ho : os.length = ks.length) (hs : ss.length = ks.length)
    (hbo : ∀ v, v ∈ os → v < 2 ^ 32) (hbs : ∀ v, v ∈ ss → v < 2 ^ 32) :
    sectionIter e ks (encRow e os ++ t1) (encRow e ss ++ t2) = ks.zip (os.zip ss) := by
  induction ks generalizing os ss with
  | nil => simp [sectionIter]
  | cons k ks ih =>
    cases os with
    | nil => simp at ho
    | cons o os =>
      cases ss with
      | nil => simp at hs
      | cons s ss =>
        simp only [encRow, List.flatMap_cons, List.append_assoc]
        rw [sectionIter, readFixed_toBytes e 4 o _ (by have := hbo o (by simp); omega)]
        simp only
        rw [readFixed_toBytes e 4 s _ (by have := hbs s (by simp); omega)]
        simp only [List.zip_cons_cons, List.cons.injEq, true_and]
        exact ih os ss (by simpa using ho) (by simpa using hs)
          (fun v hv => hbo v (by simp [hv])) (fun v hv => hbs v (by simp [hv]))

theorem sections_matrix (e : Endian) (ix : UnitIndex) (offs szs : List (List Nat)) (row : Nat)
    (hk : ix.sections.length = ix.sectionCount)
    (hro : offs.length = ix.unitCount) (hrs : szs.length = ix.unitCount)
    (hco : ∀ r, r ∈ offs → r.length = ix.sectionCount ∧ ∀ v, v ∈ r → v < 2 ^ 32)
    (hcs : ∀ r, r ∈ szs → r.length = ix.sectionCount ∧ ∀ v, v ∈ r → v < 2 ^ 32)
    (hoff : ix.offsets = encMatrix e offs) (hsz : ix.sizes = encMatrix e szs)
    (h1 : 1 ≤ row) (h2 : row ≤ ix.unitCount) :
    sections e ix row =
      .ok (ix.sections.zip ((offs.getD (row - 1) []).zip (szs.getD (row - 1) []))) := by
  have hlo : ∀ r, r ∈ offs → (encRow e r).length = ix.sectionCount * 4 := fun r hr => by
    rw [encRow_length, (hco r hr).1, Nat.mul_comm]
  have hls : ∀ r, r ∈ szs → (encRow e r).length = ix.sectionCount * 4 := fun r hr => by
    rw [encRow_length, (hcs r hr).1, Nat.mul_comm]
  have hpo : row - 1 < offs.length := by omega
  have hps : row - 1 < szs.length := by omega
  unfold sections
  rw [if_neg (by omega)]
  simp only
  have e1 : (row - 1) * ix.sectionCount * 4 = (row - 1) * (ix.sectionCount * 4) := Nat.mul_assoc _ _ _
  rw [e1, hoff, hsz, encMatrix, encMatrix,
    flatMap_length_mem _ _ offs hlo, flatMap_length_mem _ _ szs hls]
  rw [if_neg (by rw [Nat.mul_comm]; exact Nat.not_lt.mpr (Nat.mul_le_mul_left _ (by omega)))]
  rw [if_neg (by rw [Nat.mul_comm]; exact Nat.not_lt.mpr (Nat.mul_le_mul_left _ (by omega)))]
  rw [drop_flatMap_mem _ _ offs hlo, drop_flatMap_mem _ _ szs hls,
    List.drop_eq_getElem_cons hpo, List.drop_eq_getElem_cons hps, List.flatMap_cons, List.flatMap_cons]
  have ho := hco _ (List.getElem_mem hpo)
  have hs := hcs _ (List.getElem_mem hps)
  rw [sectionIter_rows e ix.sections _ _ _ _ (by rw [ho.1, hk]) (by rw [hs.1, hk]) ho.2 hs.2]
  simp [List.getD_eq_getElem?_getD, hpo, hps]
/-! ### `UnitIndex::parse`: accepted slot counts, layout -/

open Gimli.C17

theorem parse_ok_slotCount (e : Endian) (input : Bytes) (ix : UnitIndex)
    (h : parse e input = .ok ix) :
    ix.slotCount = 0 ∨ ((∃ k, ix.slotCount = 2 ^ k) ∧ ix.unitCount < ix.slotCount) := by
  unfold parse at h
  split at h
  · simp only [Out.ok.injEq] at h; subst h; left; rfl
  · obtain ⟨⟨version, r0⟩, h0, h⟩ := bind_eq_ok _ _ _ h
    obtain ⟨⟨sc, r1⟩, h1, h⟩ := bind_eq_ok _ _ _ h
    obtain ⟨⟨uc, r2⟩, h2, h⟩ := bind_eq_ok _ _ _ h
    obtain ⟨⟨slots, r3⟩, h3, h⟩ := bind_eq_ok _ _ _ h
    simp only at h
    split at h
    · simp at h
    · rename_i hcheck
      obtain ⟨⟨ids, r4⟩, h4, h⟩ := bind_eq_ok _ _ _ h
      obtain ⟨⟨rows, r5⟩, h5, h⟩ := bind_eq_ok _ _ _ h
      simp only at h
      split at h
      · simp at h
      · obtain ⟨⟨kinds, r6⟩, h6, h⟩ := bind_eq_ok _ _ _ h
        obtain ⟨⟨offs, r7⟩, h7, h⟩ := bind_eq_ok _ _ _ h
        obtain ⟨⟨szs, r8⟩, h8, h⟩ := bind_eq_ok _ _ _ h
        simp only [Out.pure_eq, Out.ok.injEq] at h
        subst h
        simp only
        by_cases hz : slots = 0
        · left; exact hz
        · right
          have hc : ¬ (slots &&& (slots - 1) ≠ 0 ∨ slots ≤ uc) := fun hh => hcheck ⟨hz, hh⟩
          have h1' : slots &&& (slots - 1) = 0 := by
            by_contra hne; exact hc (Or.inl hne)
          have h2' : uc < slots := by
            by_contra hle; exact hc (Or.inr (by omega))
          exact ⟨(Nat.and_sub_one_eq_zero_iff_isPowerOfTwo hz).mp h1', h2'⟩

theorem readKinds_split (e : Endian) (version n : Nat) (bs : Bytes) (ks : List SecKind) (r : Bytes)
    (h : readKinds e version n bs = .ok (ks, r)) :
    ∃ a, bs = a ++ r ∧ a.length = 4 * n ∧ ks.length = n := by
  induction n generalizing bs ks r with
  | zero =>
    simp only [readKinds, Out.ok.injEq, Prod.mk.injEq] at h
    exact ⟨[], by simp [h.2], rfl, by simp [← h.1]⟩
  | succ n ih =>
    rw [readKinds] at h
    obtain ⟨⟨s, r1⟩, h1, h⟩ := bind_eq_ok _ _ _ h
    obtain ⟨k, _, h⟩ := bind_eq_ok _ _ _ h
    obtain ⟨⟨ks', r2⟩, h2, h⟩ := bind_eq_ok _ _ _ h
    simp only [Out.pure_eq, Out.ok.injEq, Prod.mk.injEq] at h
    obtain ⟨a1, e1, l1, _⟩ := readFixed_split e 4 bs s r1 h1
    obtain ⟨a2, e2, l2, l3⟩ := ih r1 ks' r2 h2
    refine ⟨a1 ++ a2, by rw [e1, e2, h.2, List.append_assoc], by simp [l1, l2]; omega, by rw [← h.1]; simp [l3]⟩

theorem parseVersion_split (e : Endian) (input : Bytes) (v : Nat) (r : Bytes)
    (h : parseVersion e input = .ok (v, r)) :
    ∃ a, input = a ++ r ∧ a.length = 4 ∧ (v = 2 ∨ v = 5) := by
  unfold parseVersion at h
  obtain ⟨⟨v32, r0⟩, h0, h⟩ := bind_eq_ok _ _ _ h
  obtain ⟨a, e1, l1, _⟩ := readFixed_split e 4 input v32 r0 h0
  simp only at h
  split at h
  · simp only [Out.pure_eq, Out.ok.injEq, Prod.mk.injEq] at h
    exact ⟨a, by rw [e1, h.2], l1, Or.inl h.1.symm⟩
  · obtain ⟨⟨v16, r9⟩, _, h⟩ := bind_eq_ok _ _ _ h
    simp only at h
    split at h
    · simp at h
    · rename_i h5
      simp only [Out.pure_eq, Out.ok.injEq, Prod.mk.injEq] at h
      exact ⟨a, by rw [e1, h.2], l1, Or.inr (by rw [← h.1]; simpa using h5)⟩

/-- **layout of a parsed index**: a 16-byte header, then `slot_count` 8-byte signatures, then
`slot_count` 4-byte row numbers, then `section_count` column kinds, then the two row-major
`unit_count × section_count` matrices of offsets and sizes -/
theorem parse_layout (e : Endian) (input : Bytes) (ix : UnitIndex) (hne : input ≠ [])
    (h : parse e input = .ok ix) :
    ∃ hdr kindsB trailing,
      input = hdr ++ ix.hashIds ++ ix.hashRows ++ kindsB ++ ix.offsets ++ ix.sizes ++ trailing ∧
      hdr.length = 16 ∧ ix.hashIds.length = ix.slotCount * 8 ∧ ix.hashRows.length = ix.slotCount * 4 ∧
      kindsB.length = 4 * ix.sectionCount ∧ ix.sections.length = ix.sectionCount ∧
      ix.sectionCount ≤ 8 ∧ (ix.version = 2 ∨ ix.version = 5) ∧
      ix.offsets.length = ix.unitCount * ix.sectionCount * 4 ∧
      ix.sizes.length = ix.unitCount * ix.sectionCount * 4 := by
  unfold parse at h
  rw [if_neg (by simpa [List.isEmpty_iff] using hne)] at h
  obtain ⟨⟨version, r0⟩, h0, h⟩ := bind_eq_ok _ _ _ h
  obtain ⟨⟨sc, r1⟩, h1, h⟩ := bind_eq_ok _ _ _ h
  obtain ⟨⟨uc, r2⟩, h2, h⟩ := bind_eq_ok _ _ _ h
  obtain ⟨⟨slots, r3⟩, h3, h⟩ := bind_eq_ok _ _ _ h
  simp only at h
  split at h
  · simp at h
  obtain ⟨⟨ids, r4⟩, h4, h⟩ := bind_eq_ok _ _ _ h
  obtain ⟨⟨rows, r5⟩, h5, h⟩ := bind_eq_ok _ _ _ h
  simp only at h
  split at h
  · simp at h
  rename_i hsc
  obtain ⟨⟨kinds, r6⟩, h6, h⟩ := bind_eq_ok _ _ _ h
  obtain ⟨⟨offs, r7⟩, h7, h⟩ := bind_eq_ok _ _ _ h
  obtain ⟨⟨szs, r8⟩, h8, h⟩ := bind_eq_ok _ _ _ h
  simp only [Out.pure_eq, Out.ok.injEq] at h
  subst h
  obtain ⟨a0, e0, l0, hv⟩ := parseVersion_split e input version r0 h0
  obtain ⟨a1, e1, l1, _⟩ := readFixed_split e 4 r0 sc r1 h1
  obtain ⟨a2, e2, l2, _⟩ := readFixed_split e 4 r1 uc r2 h2
  obtain ⟨a3, e3, l3, _⟩ := readFixed_split e 4 r2 slots r3 h3
  obtain ⟨e4, l4⟩ := take_ok_split _ _ _ _ h4
  obtain ⟨e5, l5⟩ := take_ok_split _ _ _ _ h5
  obtain ⟨a6, e6, l6, l6'⟩ := readKinds_split e version sc r5 kinds r6 h6
  obtain ⟨e7, l7⟩ := take_ok_split _ _ _ _ h7
  obtain ⟨e8, l8⟩ := take_ok_split _ _ _ _ h8
  simp only at e5 e7 e8
  refine ⟨a0 ++ a1 ++ a2 ++ a3, a6, r8, ?_, by simp [l0, l1, l2, l3], l4, l5, l6, l6', Nat.not_lt.mp hsc, hv, l7, l8⟩
  simp only
  rw [e0, e1, e2, e3, e4, e5, e6, e7, e8]
  simp [List.append_assoc]
/-! ### from parsed bytes to `Encodes` -/

theorem encIds_length (e : Endian) (t : Table) : (encIds e t).length = 8 * t.length :=
  flatMap_length_const (fun kv : Nat × Nat => toBytes e 8 kv.1) 8 (fun a => toBytes_length e 8 a.1) t
theorem encRows_length (e : Endian) (t : Table) : (encRows e t).length = 4 * t.length :=
  flatMap_length_const (fun kv : Nat × Nat => toBytes e 4 kv.2) 4 (fun a => toBytes_length e 4 a.2) t

/-- the hash arrays of a parsed index are the bytes that follow the 16-byte header -/
theorem encodes_of_parse (e : Endian) (input : Bytes) (ix : UnitIndex) (hp : parse e input = .ok ix)
    (k : Nat) (t : Table) (hlen : t.length = 2 ^ k) (hslots : ix.slotCount = 2 ^ k)
    (hb : ∀ kv, kv ∈ t → kv.1 < 2 ^ 64 ∧ kv.2 < 2 ^ 32)
    (hdr tail : Bytes) (hhdr : hdr.length = 16)
    (hin : input = hdr ++ encIds e t ++ encRows e t ++ tail) : Encodes e k t ix := by
  have hne : input ≠ [] := by
    intro h0; rw [h0] at hin
    have := congrArg List.length hin
    simp [hhdr] at this
    omega
  obtain ⟨hdr', kindsB, trailing, hlay, hl16, hlids, hlrows, _⟩ := parse_layout e input ix hne hp
  rw [hin] at hlay
  simp only [List.append_assoc] at hlay
  obtain ⟨_, h1⟩ := List.append_inj hlay (by rw [hhdr, hl16])
  obtain ⟨hids, h2⟩ := List.append_inj h1 (by rw [encIds_length, hlids, hslots, hlen, Nat.mul_comm])
  obtain ⟨hrows, _⟩ := List.append_inj h2 (by rw [encRows_length, hlrows, hslots, hlen, Nat.mul_comm])
  exact ⟨hslots, hlen, hids.symm, hrows.symm, hb⟩
end Gimli.Index
