import Gimli.Lemmas.Eval
/-!
# C07: the `u32` iteration counter at `max_iterations = u32::MAX` (finding C07-2)

`self.iteration += 1` in `evaluate_internal` is an unchecked `u32` addition. With the largest
limit the test `iteration > max_iterations` can never succeed, so on an endless loop the counter
reaches `u32::MAX` and the next increment overflows: a panic with overflow checks, a wrap to 0 (and
an evaluation that never ends) without. Reproduced on the real crate: 27 s to the panic at
`src/read/op.rs:2024` in an overflow-checked build; still running after 5 x that time otherwise.
-/
open Gimli Gimli.Op Gimli.Eval
namespace Gimli.Eval
def selfLoop : Bytes := [0x2f, 0xfd, 0xff]
def lcfg (mode : Mode) : Config :=
  { endian := .little, encoding := ⟨4, .dwarf32, 4⟩, caps := {}, mode := mode, objectAddress := none,
    maxIterations := some (2 ^ 32 - 1), addrMask := 2 ^ 32 - 1 }
def lm : Mach := { bytecode := selfLoop, pc := selfLoop }
theorem step1 (mode : Mode) : evaluateOneOperation (lcfg mode) lm = .ok (.incomplete, lm) := by
  unfold evaluateOneOperation
  have : parse .little ⟨4, .dwarf32, 4⟩ selfLoop = .ok (.skip (-3), []) := by decide
  show (parse .little ⟨4, .dwarf32, 4⟩ selfLoop >>= _) = _
  rw [this]
  simp only [Out.bind_ok, execute]
  have h2 : computePc [] selfLoop (-3) = .ok selfLoop := by decide
  show (computePc [] selfLoop (-3) >>= _) = _
  rw [h2]
  rfl

def loopState (mode : Mode) (it dec : Nat) : Eval :=
  { cfg := lcfg mode, m := lm, iteration := it, state := .ready, decodes := dec }

theorem selfLoop_step (mode : Mode) (k : Eval → Out (Request × Eval)) (it dec : Nat) :
    loopBody k (loopState mode it dec) =
      (bumpIteration mode it >>= fun it' =>
        match overLimit (some (2 ^ 32 - 1)) it' with
        | true => .err .rTooManyIterations
        | false => k (loopState mode it' (dec + 1))) := by
  unfold loopBody
  have h1 : endOfExpression (loopState mode it dec).m = (false, lm) := rfl
  rw [h1]
  simp only []
  apply bind_congr'
  intro it'
  show (match overLimit (some (2 ^ 32 - 1)) it' with
        | true => _
        | false => _) = _
  cases overLimit (some (2 ^ 32 - 1)) it' with
  | true => rfl
  | false =>
    simp only []
    show (evaluateOneOperation (lcfg mode) lm >>= _) = _
    rw [step1]
    simp only [Out.bind_ok, afterOp]
    have h2 : endOfExpression lm = (false, lm) := rfl
    rw [h2]
    rfl

/-- release build: the counter wraps from `u32::MAX` to 0, the limit error never comes -/
theorem selfLoop_release_never_stops : ∀ (fuel it dec : Nat), it < 2 ^ 32 →
    evaluateInternal fuel (loopState .release it dec) = .diverge := by
  intro fuel
  induction fuel with
  | zero => intro it dec _; rfl
  | succ fuel ih =>
    intro it dec hit
    rw [evaluateInternal, selfLoop_step]
    unfold bumpIteration
    by_cases h : it + 1 < 2 ^ 32
    · rw [if_pos h]
      simp only [Out.bind_ok]
      have : overLimit (some (2 ^ 32 - 1)) (it + 1) = false := by simp [overLimit]; omega
      rw [this]
      exact ih _ _ h
    · rw [if_neg h]
      simp only [Out.bind_ok]
      have : overLimit (some (2 ^ 32 - 1)) 0 = false := by simp [overLimit]
      rw [this]
      exact ih _ _ (by omega)

/-- debug build: after `u32::MAX` iterations the increment panics -/
theorem selfLoop_debug_panics : ∀ (n it dec : Nat), it + n = 2 ^ 32 - 1 →
    evaluateInternal (n + 1) (loopState .debug it dec) = .panic "attempt to add with overflow" := by
  intro n
  induction n with
  | zero =>
    intro it dec h
    rw [evaluateInternal, selfLoop_step]
    unfold bumpIteration
    rw [if_neg (by omega)]
    rfl
  | succ n ih =>
    intro it dec h
    rw [evaluateInternal, selfLoop_step]
    unfold bumpIteration
    rw [if_pos (by omega)]
    simp only [Out.bind_ok]
    have : overLimit (some (2 ^ 32 - 1)) (it + 1) = false := by simp [overLimit]; omega
    rw [this]
    exact ih _ _ (by omega)


end Gimli.Eval
