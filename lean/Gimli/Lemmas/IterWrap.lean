import Gimli.Lemmas.Eval
/-!
# C07: the `u32` iteration counter at its extremes (regression for finding C07-2)

Before the `fix:` ("expression iteration counter overflow") `evaluate_internal` did
`self.iteration += 1` *before* comparing with the limit: with `max_iterations = u32::MAX` the test
could never succeed and the increment overflowed after `2^32` iterations (panic with overflow
checks at `src/read/op.rs:2024`, a wrap to 0 and an evaluation that never ended without; both
reproduced on the real crate). Now the comparison `iteration >= max` comes first and the increment
saturates. These theorems pin the repaired behaviour on the endless loop `DW_OP_skip -3`.
-/
open Gimli Gimli.Op Gimli.Eval
namespace Gimli.Eval

/-- `DW_OP_skip -3`: a one-operation endless loop -/
def selfLoop : Bytes := [0x2f, 0xfd, 0xff]

def loopCfg (mode : Mode) (mx : Option Nat) : Config :=
  { endian := .little, encoding := ⟨4, .dwarf32, 4⟩, caps := {}, mode := mode, objectAddress := none,
    maxIterations := mx, addrMask := 2 ^ 32 - 1 }

def loopMach : Mach := { bytecode := selfLoop, pc := selfLoop }

/-- the evaluator inside that loop after `it` iterations -/
def loopState (mode : Mode) (mx : Option Nat) (it dec : Nat) : Eval :=
  { cfg := loopCfg mode mx, m := loopMach, iteration := it, state := .ready, decodes := dec }

theorem selfLoop_op (mode : Mode) (mx : Option Nat) :
    evaluateOneOperation (loopCfg mode mx) loopMach = .ok (.incomplete, loopMach) := by
  unfold evaluateOneOperation
  have : parse .little ⟨4, .dwarf32, 4⟩ selfLoop = .ok (.skip (-3), []) := by decide
  show (parse .little ⟨4, .dwarf32, 4⟩ selfLoop >>= _) = _
  rw [this]
  simp only [Out.bind_ok, execute]
  have h2 : computePc [] selfLoop (-3) = .ok selfLoop := by decide
  show (computePc [] selfLoop (-3) >>= _) = _
  rw [h2]
  rfl

/-- one trip round the loop: the limit test on the current counter, then the same machine with the
counter incremented (saturating) -/
theorem selfLoop_step (mode : Mode) (mx : Option Nat) (k : Eval → Out (Request × Eval)) (it dec : Nat) :
    loopBody k (loopState mode mx it dec) =
      (match overLimit mx it with
       | true => .err .rTooManyIterations
       | false => k (loopState mode mx (saturatingInc it) (dec + 1))) := by
  unfold loopBody
  have h1 : endOfExpression (loopState mode mx it dec).m = (false, loopMach) := rfl
  rw [h1]
  show (match overLimit mx it with
        | true => _
        | false => _) = _
  cases overLimit mx it with
  | true => rfl
  | false =>
    simp only []
    show (evaluateOneOperation (loopCfg mode mx) loopMach >>= _) = _
    rw [selfLoop_op]
    simp only [Out.bind_ok, afterOp]
    have h2 : endOfExpression loopMach = (false, loopMach) := rfl
    rw [h2]
    rfl

/-- with the largest limit the endless loop is stopped by `TooManyIterations` after exactly
`u32::MAX` operations (it used to overflow the counter instead) -/
theorem selfLoop_u32_max_limit (mode : Mode) : ∀ (n it dec : Nat), it + n = 2 ^ 32 - 1 →
    evaluateInternal (n + 1) (loopState mode (some (2 ^ 32 - 1)) it dec) = .err .rTooManyIterations := by
  intro n
  induction n with
  | zero =>
    intro it dec h
    rw [evaluateInternal, selfLoop_step]
    have : overLimit (some (2 ^ 32 - 1)) it = true := by simp [overLimit]; omega
    rw [this]
  | succ n ih =>
    intro it dec h
    rw [evaluateInternal, selfLoop_step]
    have : overLimit (some (2 ^ 32 - 1)) it = false := by simp [overLimit]; omega
    rw [this]
    simp only []
    have hs : saturatingInc it = it + 1 := by unfold saturatingInc; rw [if_pos (by omega)]
    rw [hs]
    exact ih _ _ (by omega)

/-- without a limit the counter saturates: however long the loop runs there is no panic (in either
build mode) — only fuel runs out -/
theorem selfLoop_no_limit_never_panics (mode : Mode) : ∀ (fuel it dec : Nat),
    evaluateInternal fuel (loopState mode none it dec) = .diverge := by
  intro fuel
  induction fuel with
  | zero => intro it dec; rfl
  | succ fuel ih =>
    intro it dec
    rw [evaluateInternal, selfLoop_step]
    exact ih _ _

end Gimli.Eval
