import Gimli.Model.Reader
/-!
Helper lemmas for C10: invariant preservation of `&mut self` methods (`Pres`), safety of a reader
kind (`Impl.Safe`), preservation along histories.
-/
namespace Gimli.Rd
variable {σ τ α β : Type}

/-! ## state predicates preserved by `&mut self` methods -/

/-- `m` preserves the state predicate `P` (whatever it returns) -/
def Pres (P : σ → Prop) (m : M σ α) : Prop := ∀ s, P s → P (m s).2

/-- `m` preserves `P` and a reader it returns satisfies `P` -/
def PresNew (P : σ → Prop) (m : M σ σ) : Prop :=
  ∀ s, P s → P (m s).2 ∧ ∀ r, (m s).1 = .ok r → P r

theorem Pres.pure (P : σ → Prop) (a : α) : Pres P (M.pure a) := fun _ h => h
theorem Pres.fail (P : σ → Prop) (e : Err) : Pres P (M.fail e : M σ α) := fun _ h => h
theorem Pres.liftOut (P : σ → Prop) (o : Out α) : Pres P (M.liftOut o : M σ α) := fun _ h => h

theorem Pres.bind {P : σ → Prop} {x : M σ α} {f : α → M σ β} (hx : Pres P x)
    (hf : ∀ a, Pres P (f a)) : Pres P (M.bind x f) := by
  intro s hs
  have h1 := hx s hs
  unfold M.bind
  rcases hxs : x s with ⟨o, s'⟩
  rw [hxs] at h1
  cases o with
  | ok a => exact hf a s' h1
  | err e => exact h1
  | panic w => exact h1
  | diverge => exact h1

theorem Pres.map {P : σ → Prop} {x : M σ α} (f : α → β) (hx : Pres P x) : Pres P (M.map f x) :=
  Pres.bind hx (fun a => Pres.pure P (f a))

theorem Pres.ite {P : σ → Prop} {c : Prop} [Decidable c] {x y : M σ α} (hx : Pres P x)
    (hy : Pres P y) : Pres P (if c then x else y) := by
  split <;> assumption

/-- the state-changing required methods other than `empty` preserve `P` -/
structure Core.SafeNE (C : Core σ) (P : σ → Prop) : Prop where
  truncate : ∀ n, Pres P (C.truncate n)
  skip : ∀ n, Pres P (C.skip n)
  split : ∀ n, PresNew P (C.split n)
  readSlice : ∀ n, Pres P (C.readSlice n)

/-- a reader kind all of whose state-changing methods other than `empty` preserve `P` -/
structure Impl.SafeNE (I : Impl σ) (P : σ → Prop) : Prop extends toCoreSafeNE : Core.SafeNE I.toCore P where
  readAddress : ∀ m e n, Pres P (I.readAddress m e n)
  readOffset : ∀ m e f, Pres P (I.readOffset m e f)
  readSizedOffset : ∀ m e n, Pres P (I.readSizedOffset m e n)

/-- … and `empty` too -/
structure Impl.Safe (I : Impl σ) (P : σ → Prop) : Prop extends toImplSafeNE : Impl.SafeNE I P where
  empty : ∀ s, P s → P (I.empty s)

namespace Dflt
variable {C : Core σ} {P : σ → Prop}

theorem readFixed_pres (h : C.SafeNE P) (e : Endian) (n : Nat) : Pres P (readFixed C e n) :=
  Pres.bind (h.readSlice n) (fun _ => Pres.pure P _)

theorem readSigned_pres (h : C.SafeNE P) (e : Endian) (n : Nat) : Pres P (readSigned C e n) :=
  Pres.bind (h.readSlice n) (fun _ => Pres.pure P _)

theorem readUint_pres (h : C.SafeNE P) (e : Endian) (n : Nat) : Pres P (readUint C e n) := by
  unfold readUint
  exact Pres.ite (Pres.liftOut P _) (Pres.bind (h.readSlice n) (fun _ => Pres.pure P _))

theorem readAddress_pres (h : C.SafeNE P) (e : Endian) (n : Nat) : Pres P (readAddress C e n) := by
  unfold readAddress
  exact Pres.ite (readFixed_pres h e n) (Pres.fail P _)

theorem readWord_pres (h : C.SafeNE P) (e : Endian) (f : Format) : Pres P (readWord C e f) := by
  unfold readWord
  cases f
  · exact readFixed_pres h e 4
  · exact Pres.bind (readFixed_pres h e 8) (fun _ => Pres.liftOut P _)

theorem readSizedOffset_pres (h : C.SafeNE P) (e : Endian) (n : Nat) :
    Pres P (readSizedOffset C e n) := by
  unfold readSizedOffset
  exact Pres.ite (Pres.bind (readFixed_pres h e n) (fun _ => Pres.liftOut P _)) (Pres.fail P _)

theorem readInitialLength_pres (h : C.SafeNE P) (e : Endian) : Pres P (readInitialLength C e) := by
  unfold readInitialLength
  refine Pres.bind (readFixed_pres h e 4) (fun v => ?_)
  refine Pres.ite (Pres.pure P _) (Pres.ite ?_ (Pres.fail P _))
  exact Pres.bind (readFixed_pres h e 8) (fun _ => Pres.bind (Pres.liftOut P _) (fun _ => Pres.pure P _))

theorem readAddressSize_pres (h : C.SafeNE P) : Pres P (readAddressSize C) := by
  unfold readAddressSize
  exact Pres.bind (readFixed_pres h .little 1) (fun _ => Pres.ite (Pres.pure P _) (Pres.fail P _))

theorem via_pres {γ : Type} (h : C.SafeNE P) (f : Bytes → Out (γ × Bytes)) (adv : Bytes → Err → Nat) :
    Pres P (via C f adv) := by
  intro s hs
  unfold via
  cases C.toSlice s with
  | ok bs =>
    simp only
    cases f bs with
    | ok p => exact h.skip _ s hs
    | err e => exact h.skip _ s hs
    | panic w => exact hs
    | diverge => exact hs
  | err e => exact hs
  | panic w => exact hs
  | diverge => exact hs

theorem readUleb32_pres (h : C.SafeNE P) : Pres P (readUleb32 C) := by
  unfold readUleb32
  exact Pres.bind (via_pres h _ _) (fun _ => Pres.ite (Pres.pure P _) (Pres.fail P _))

theorem readNts_presNew (h : C.SafeNE P) : PresNew P (readNts C) := by
  intro s hs
  unfold readNts
  simp only [M.bind, M.liftOut, M.pure]
  cases C.find s 0 with
  | ok idx =>
    simp only
    have h1 := h.split idx s hs
    rcases hsp : C.split idx s with ⟨o, s1⟩
    rw [hsp] at h1
    cases o with
    | ok v =>
      simp only
      have h2 := h.skip 1 s1 h1.1
      rcases hsk : C.skip 1 s1 with ⟨o2, s2⟩
      rw [hsk] at h2
      cases o2 with
      | ok u => exact ⟨h2, fun r hr => by cases hr; exact h1.2 v rfl⟩
      | err e => exact ⟨h2, fun r hr => by cases hr⟩
      | panic w => exact ⟨h2, fun r hr => by cases hr⟩
      | diverge => exact ⟨h2, fun r hr => by cases hr⟩
    | err e => exact ⟨h1.1, fun r hr => by cases hr⟩
    | panic w => exact ⟨h1.1, fun r hr => by cases hr⟩
    | diverge => exact ⟨h1.1, fun r hr => by cases hr⟩
  | err e => exact ⟨hs, fun r hr => by cases hr⟩
  | panic w => exact ⟨hs, fun r hr => by cases hr⟩
  | diverge => exact ⟨hs, fun r hr => by cases hr⟩

end Dflt

/-- a kind that overrides nothing is safe as soon as its required methods are -/
theorem Core.SafeNE.withDefaults {C : Core σ} {P : σ → Prop} (h : C.SafeNE P) :
    C.withDefaults.SafeNE P where
  toCoreSafeNE := h
  readAddress := fun _ e n => Dflt.readAddress_pres h e n
  readOffset := fun _ e f => Dflt.readWord_pres h e f
  readSizedOffset := fun _ e n => Dflt.readSizedOffset_pres h e n

/-! ## histories -/

/-- every live reader of the table (and the section reader) satisfies `P` -/
def St.All (P : σ → Prop) (st : St σ) : Prop :=
  P st.sect ∧ ∀ s, some s ∈ st.rs → P s

theorem St.All.get {P : σ → Prop} {st : St σ} (h : st.All P) {i : Nat} {s : σ}
    (hg : st.get i = some s) : P s := by
  apply h.2
  unfold St.get at hg
  cases hi : st.rs[i]? with
  | none => rw [hi] at hg; cases hg
  | some o =>
    rw [hi] at hg
    cases o with
    | none => cases hg
    | some s' =>
      cases hg
      exact List.mem_of_getElem? hi

theorem St.All.set {P : σ → Prop} {st : St σ} (h : st.All P) (i : Nat) {s : σ} (hs : P s) :
    (st.set i s).All P := by
  refine ⟨h.1, fun s' hm => ?_⟩
  rcases List.mem_or_eq_of_mem_set hm with h1 | h1
  · exact h.2 s' h1
  · cases h1; exact hs

theorem St.All.push {P : σ → Prop} {st : St σ} (h : st.All P) {s : σ} (hs : P s) :
    (st.push s).All P := by
  refine ⟨h.1, fun s' hm => ?_⟩
  rcases List.mem_append.mp hm with h1 | h1
  · exact h.2 s' h1
  · simp at h1; cases h1; exact hs

theorem St.All.init {P : σ → Prop} {s : σ} (hs : P s) : (St.init s).All P := by
  refine ⟨hs, fun s' hm => ?_⟩
  simp [St.init] at hm
  cases hm; exact hs

section
variable {I : Impl σ} {P : σ → Prop}

theorem runM_all (st : St σ) (i : Nat) (m : M σ Val) (h : st.All P) (hm : Pres P m) :
    (runM I st i m).2.All P := by
  unfold runM
  cases hg : st.get i with
  | none => exact h
  | some s => exact h.set i (hm s (h.get hg))

theorem runNew_all (st : St σ) (i : Nat) (m : M σ σ) (h : st.All P) (hm : PresNew P m) :
    (runNew I st i m).2.All P := by
  unfold runNew
  cases hg : st.get i with
  | none => exact h
  | some s =>
    have h1 := hm s (h.get hg)
    simp only
    rcases hms : m s with ⟨o, s'⟩
    rw [hms] at h1
    cases o with
    | ok r => exact (h.set i h1.1).push (h1.2 r rfl)
    | err e => exact h.set i h1.1
    | panic w => exact h.set i h1.1
    | diverge => exact h.set i h1.1

theorem runQ_all (st : St σ) (i : Nat) (q : σ → Out Val) (h : st.All P) :
    (runQ I st i q).2.All P := by
  unfold runQ
  cases st.get i <;> exact h

/-- one operation of a history keeps every live reader inside `P` -/
theorem step_all (hI : I.Safe P) (m : Mode) (e : Endian) (valid : Bytes → Bool)
    (lossy : Bytes → Bytes) (st : St σ) (op : Op) (h : st.All P) :
    (step I m e valid lossy st op).2.All P := by
  have hC : I.toCore.SafeNE P := hI.toImplSafeNE.toCoreSafeNE
  cases op with
  | fixed i n => exact runM_all st i _ h (Pres.map _ (Dflt.readFixed_pres hC e n))
  | signed i n => exact runM_all st i _ h (Pres.map _ (Dflt.readSigned_pres hC e n))
  | uint i n => exact runM_all st i _ h (Pres.map _ (Dflt.readUint_pres hC e n))
  | slice i n => exact runM_all st i _ h (Pres.map _ (hC.readSlice n))
  | skip i n => exact runM_all st i _ h (Pres.map _ (hC.skip n))
  | split i n => exact runNew_all st i _ h (hC.split n)
  | trunc i n => exact runM_all st i _ h (Pres.map _ (hC.truncate n))
  | empty i => exact runM_all st i _ h (fun s hs => hI.empty s hs)
  | find i b => exact runQ_all st i _ h
  | clone i => exact runNew_all st i _ h (fun s hs => ⟨hs, fun r hr => by cases hr; exact hs⟩)
  | drop i =>
    simp only [step]
    cases st.get i with
    | none => exact h
    | some s =>
      refine ⟨h.1, fun s' hm => ?_⟩
      rcases List.mem_or_eq_of_mem_set hm with h1 | h1
      · exact h.2 s' h1
      · cases h1
  | offFrom i j =>
    simp only [step]
    cases st.get j with
    | none => exact h
    | some b => exact runQ_all st i _ h
  | offId i =>
    simp only [step]
    cases st.get i with
    | none => exact h
    | some s => exact h
  | lookup i k =>
    simp only [step]
    cases st.ids[k]? with
    | none => exact h
    | some id => exact runQ_all st i _ h
  | len i => exact runQ_all st i _ h
  | toSlice i => exact runQ_all st i _ h
  | toStr i => exact runQ_all st i _ h
  | toLossy i => exact runQ_all st i _ h
  | nts i => exact runNew_all st i _ h (Dflt.readNts_presNew hC)
  | uleb i => exact runM_all st i _ h (Pres.map _ (Dflt.via_pres hC _ _))
  | sleb i => exact runM_all st i _ h (Pres.map _ (Dflt.via_pres hC _ _))
  | uleb32 i => exact runM_all st i _ h (Pres.map _ (Dflt.readUleb32_pres hC))
  | uleb16 i => exact runM_all st i _ h (Pres.map _ (Dflt.via_pres hC _ _))
  | skipLeb i => exact runM_all st i _ h (Pres.map _ (Dflt.via_pres hC _ _))
  | initLen i => exact runM_all st i _ h (Pres.map _ (Dflt.readInitialLength_pres hC e))
  | addrSize i => exact runM_all st i _ h (Pres.map _ (Dflt.readAddressSize_pres hC))
  | addr i n => exact runM_all st i _ h (Pres.map _ (hI.readAddress m e n))
  | word i f => exact runM_all st i _ h (Pres.map _ (Dflt.readWord_pres hC e f))
  | offset i f => exact runM_all st i _ h (Pres.map _ (hI.readOffset m e f))
  | sizedOff i n => exact runM_all st i _ h (Pres.map _ (hI.readSizedOffset m e n))

/-- … and so does every history -/
theorem runHist_all (hI : I.Safe P) (m : Mode) (e : Endian) (valid : Bytes → Bool)
    (lossy : Bytes → Bytes) (ops : List Op) : ∀ (st : St σ), st.All P →
    (runHist I m e valid lossy st ops).2.All P := by
  induction ops with
  | nil => intro st h; exact h
  | cons op ops ih =>
    intro st h
    simp only [runHist]
    exact ih _ (step_all hI m e valid lossy st op h)

end

/-! ## `SubRange` pointer arithmetic computes the same windows as safe slicing -/

theorem Shared.truncate_eq (n : Nat) (c : Cur) : Shared.truncate n c = Slice.truncate n c := by
  unfold Shared.truncate Slice.truncate SubRange.truncate
  by_cases h : c.len < n
  · simp [h]
  · have h' : n ≤ c.len := by omega
    simp [h, h', commit]

theorem Shared.skip_eq (n : Nat) (c : Cur) : Shared.skip n c = Slice.skip n c := by
  unfold Shared.skip Slice.skip SubRange.skip
  by_cases h : c.len < n
  · simp [h]
  · have h' : n ≤ c.len := by omega
    simp [h, h', commit]

theorem Shared.split_eq (n : Nat) (c : Cur) : Shared.split n c = Slice.split n c := by
  unfold Shared.split Slice.split Slice.readSliceRaw SubRange.truncate SubRange.skip
  by_cases h : c.len < n
  · simp [h]
  · have h' : n ≤ c.len := by omega
    simp [h, h']

theorem Shared.readSlice_eq (n : Nat) (c : Cur) : Shared.readSlice n c = Slice.readSlice n c := by
  unfold Shared.readSlice Slice.readSlice Slice.readSliceRaw SubRange.readSlice SubRange.skip M.bind M.pure
  by_cases h : c.len < n
  · simp [h]
  · have h' : n ≤ c.len := by omega
    simp [h, h', Cur.bytes]

theorem Shared.empty_eq (c : Cur) : Shared.empty c = { c with len := 0 } := by
  simp [Shared.empty, SubRange.truncate]

/-- `c` is a window of the section `sec`, inside its bounds -/
def Win (sec : Bytes) (c : Cur) : Prop := c.sec = sec ∧ c.off + c.len ≤ sec.length

theorem Win.ofSec (sec : Bytes) : Win sec (Cur.ofSec sec) := by
  simp [Win, Cur.ofSec]

theorem sliceCore_safe (sec : Bytes) : sliceCore.SafeNE (Win sec) where
  truncate := by
    intro n s hs
    simp only [sliceCore, Slice.truncate]
    split
    · exact hs
    · exact ⟨hs.1, by have := hs.2; simp only; omega⟩
  skip := by
    intro n s hs
    simp only [sliceCore, Slice.skip]
    split
    · exact hs
    · exact ⟨hs.1, by have := hs.2; simp only; omega⟩
  split := by
    intro n s hs
    simp only [sliceCore, Slice.split, Slice.readSliceRaw]
    split
    · exact ⟨hs, fun r hr => by cases hr⟩
    · refine ⟨⟨hs.1, by have := hs.2; simp only; omega⟩, fun r hr => ?_⟩
      cases hr
      exact ⟨hs.1, by have := hs.2; simp only; omega⟩
  readSlice := by
    intro n
    have hraw : Pres (Win sec) (Slice.readSliceRaw n) := by
      intro s hs
      simp only [Slice.readSliceRaw]
      split
      · exact hs
      · exact ⟨hs.1, by have := hs.2; simp only; omega⟩
    exact Pres.bind hraw (fun _ => Pres.pure _ _)

theorem sharedCore_safe (sec : Bytes) : sharedCore.SafeNE (Win sec) where
  truncate := by
    intro n s hs
    simp only [sharedCore, Shared.truncate_eq]
    exact (sliceCore_safe sec).truncate n s hs
  skip := by
    intro n s hs
    simp only [sharedCore, Shared.skip_eq]
    exact (sliceCore_safe sec).skip n s hs
  split := by
    intro n s hs
    simp only [sharedCore, Shared.split_eq]
    exact (sliceCore_safe sec).split n s hs
  readSlice := by
    intro n s hs
    simp only [sharedCore, Shared.readSlice_eq]
    exact (sliceCore_safe sec).readSlice n s hs

/-- `EndianSlice`: every method keeps the window inside the section -/
theorem sliceImpl_safe (sec : Bytes) : sliceImpl.Safe (Win sec) where
  toImplSafeNE := (sliceCore_safe sec).withDefaults
  empty := by
    intro s hs
    exact ⟨hs.1, by have := hs.2; simp only [sliceImpl, Core.withDefaults, sliceCore, Slice.empty]; omega⟩

/-- `EndianReader` (`SubRange`): every method keeps `ptr .. ptr+len` inside the buffer -/
theorem sharedImpl_safe (sec : Bytes) : sharedImpl.Safe (Win sec) where
  toImplSafeNE := (sharedCore_safe sec).withDefaults
  empty := by
    intro s hs
    simp only [sharedImpl, Core.withDefaults, sharedCore, Shared.empty_eq]
    exact ⟨hs.1, by have := hs.2; simp only; omega⟩

/-! ## `RelocateReader` is as safe as the reader it wraps -/

/-- the `reader` field satisfies `P`, the `section` field (which no method assigns) `Q` -/
def RWin (P Q : σ → Prop) (s : RCur σ) : Prop := P s.rdr ∧ Q s.sect

theorem onReader_pres {P Q : σ → Prop} {m : M σ α} (hm : Pres P m) :
    Pres (RWin P Q) (Reloc.onReader m) := fun s hs => ⟨hm s.rdr hs.1, hs.2⟩

theorem relocated_pres {I : Impl σ} {P Q : σ → Prop} (m : Mode) {read : M σ Nat}
    (hread : Pres P read) (rel : Nat → Nat → Out Nat) :
    Pres (RWin P Q) (Reloc.relocated I m read rel) := by
  intro s hs
  unfold Reloc.relocated
  cases I.offsetFrom m s.rdr s.sect with
  | ok o => exact Pres.bind (onReader_pres hread) (fun _ => Pres.liftOut _ _) s hs
  | err e => exact hs
  | panic w => exact hs
  | diverge => exact hs

theorem relocSplit_presNew {I : Impl σ} {P Q : σ → Prop} (hI : I.SafeNE P) (n : Nat) :
    PresNew (RWin P Q) (Reloc.split I n) := by
  intro s hs
  have ht := hI.truncate n s.rdr hs.1
  have hk := hI.skip n s.rdr hs.1
  unfold Reloc.split M.bind M.pure Reloc.onReader
  generalize I.truncate n s.rdr = tr at ht ⊢
  generalize I.skip n s.rdr = sk at hk ⊢
  rcases tr with ⟨o1, r1⟩
  rcases sk with ⟨o2, r2⟩
  cases o1 with
  | ok u =>
    cases o2 with
    | ok u2 => exact ⟨⟨hk, hs.2⟩, fun r hr => by cases hr; exact ⟨ht, hs.2⟩⟩
    | err e => exact ⟨⟨hk, hs.2⟩, fun r hr => by cases hr⟩
    | panic w => exact ⟨⟨hk, hs.2⟩, fun r hr => by cases hr⟩
    | diverge => exact ⟨⟨hk, hs.2⟩, fun r hr => by cases hr⟩
  | err e => exact ⟨hs, fun r hr => by cases hr⟩
  | panic w => exact ⟨hs, fun r hr => by cases hr⟩
  | diverge => exact ⟨hs, fun r hr => by cases hr⟩

theorem relocImpl_safeNE {I : Impl σ} {P Q : σ → Prop} (hI : I.SafeNE P) (rel : Rel) :
    (relocImpl I rel).SafeNE (RWin P Q) where
  truncate := fun n => onReader_pres (hI.truncate n)
  skip := fun n => onReader_pres (hI.skip n)
  split := relocSplit_presNew hI
  readSlice := fun n => onReader_pres (hI.readSlice n)
  readAddress := fun m e n => relocated_pres m (hI.readAddress m e n) _
  readOffset := fun m e f => relocated_pres m (hI.readOffset m e f) _
  readSizedOffset := fun m e n => relocated_pres m (hI.readSizedOffset m e n) _

theorem relocImpl_safe {I : Impl σ} {P Q : σ → Prop} (hI : I.Safe P) (rel : Rel) :
    (relocImpl I rel).Safe (RWin P Q) where
  toImplSafeNE := relocImpl_safeNE hI.toImplSafeNE rel
  empty := fun s hs => ⟨hI.empty s.rdr hs.1, hs.2⟩

end Gimli.Rd
