import Gimli.Lemmas.Rules
import Gimli.Spec.Unwind
/-!
# The unwind machine refines the DWARF call-frame semantics: lemmas (C06)

`Sim g c s`: the Model context `c` (row stack with capacities, association vectors, the
`initial_rule` shortcut) represents the Spec state `s` (functions, unbounded stack, initial map).
`evaluate_refines`: one `UnwindTable::evaluate` step against one `Spec.stepB` step.
-/
namespace Gimli.Unwind

theorem wrapI64_mul_wrap (a b : Int) : wrapI64 (wrapI64 a * b) = wrapI64 (a * b) := by
  unfold wrapI64
  have h : (a + 2^63) % 2^64 - 2^63 = a - 2^64 * ((a + 2^63) / 2^64) := by
    have := Int.emod_def (a + 2^63) (2^64); omega
  rw [h]
  have h2 : (a - 2^64 * ((a + 2^63)/2^64)) * b + 2^63 = (a * b + 2^63) + 2^64 * (-(((a+2^63)/2^64) * b)) := by
    grind
  rw [h2, Int.add_mul_emod_self_left]

theorem wrapI64_range (x : Int) : -2^63 ≤ wrapI64 x ∧ wrapI64 x < 2^63 := by
  unfold wrapI64; omega

theorem wrapI64_of_range (x : Int) (h : -2^63 ≤ x ∧ x < 2^63) : wrapI64 x = x := by
  unfold wrapI64; omega


end Gimli.Unwind

namespace Gimli.Spec.Unwind
open Gimli Gimli.Cfi Gimli.Unwind

theorem mem_allRegs (r : Reg) : r ∈ allRegs := by
  unfold allRegs
  rw [List.mem_map]
  refine ⟨r.toNat, ?_, ?_⟩
  · rw [List.mem_range]; exact r.toNat_lt
  · simp

theorem nodup_allRegs : allRegs.Nodup := by
  unfold allRegs
  rw [List.Nodup, List.pairwise_map]
  have h := List.nodup_range (n := 65536)
  rw [List.Nodup] at h
  refine List.Pairwise.imp_of_mem ?_ h
  intro a b ha hb hab e
  rw [List.mem_range] at ha hb
  have := congrArg UInt16.toNat e
  simp only [UInt16.toNat_ofNat'] at this
  omega

/-- a duplicate-free association vector has exactly as many entries as its extensional map has
explicit rules -/
theorem ruleCount_eq_length {m : Rules} (hn : Rules.NodupKeys m) {f : RegMap}
    (hf : ∀ r, Rules.get m r = f r) : ruleCount f = m.length := by
  unfold ruleCount
  have hperm : (allRegs.filter (fun r => (f r).isSome)).Perm (Rules.keys m) := by
    rw [List.perm_ext_iff_of_nodup (List.Nodup.sublist List.filter_sublist nodup_allRegs) hn]
    intro r
    simp only [List.mem_filter, mem_allRegs, true_and]
    rw [← hf r]
    cases hg : Rules.get m r with
    | none => simp [(Rules.get_eq_none_iff m r).mp hg]
    | some v =>
      have : ¬ (r ∉ Rules.keys m) := fun hh => by rw [(Rules.get_eq_none_iff m r).mpr hh] at hg; cases hg
      simp [Classical.not_not.mp this]
  rw [hperm.length_eq]
  simp [Rules.keys]

theorem ruleCount_empty : ruleCount RegMap.empty = 0 :=
  ruleCount_eq_length (m := []) (by simp [Rules.NodupKeys]) (fun _ => rfl)


end Gimli.Spec.Unwind

namespace Gimli.Unwind
open Gimli Gimli.Cfi Gimli.Spec.Unwind

theorem exceeds_eq_false_iff (c : Cap) (n : Nat) : exceeds c n = false ↔ c.fits n := by
  cases c <;> simp [exceeds, Cap.fits]

theorem exceeds_eq_true_iff (c : Cap) (n : Nat) : exceeds c n = true ↔ ¬ c.fits n := by
  cases c <;> simp [exceeds, Cap.fits]

/-- the Spec parameters of a Model configuration -/
def Cfg.params (g : Cfg) : Params := ⟨g.codeAlign, g.dataAlign, g.addressSize⟩

/-- a Model row represents a Spec rule set (addresses aside) -/
structure RowRel (m : Row) (s : RuleSet) : Prop where
  cfa : m.cfa = s.cfa
  args : m.savedArgsSize = s.argsSize
  regs : ∀ r, Rules.get m.rules r = s.regs r
  nodup : Rules.NodupKeys m.rules

/-- how `initial_rule` / `is_initialized` / the saved row `stack[0]` represent the Spec's initial
rules -/
inductive InitRel : Option (Option (Reg × Rule)) → Bool → List Row → Option RegMap → Prop
  | cie : InitRel none false [] none
  | zero {im : RegMap} : (∀ r, im r = none) → InitRel (some none) true [] (some im)
  | one {im : RegMap} {r0 : Reg} {rule : Rule} :
      (∀ r, im r = if r = r0 then some rule else none) → InitRel (some (some (r0, rule))) true [] (some im)
  | saved {im : RegMap} {row : Row} : Rules.NodupKeys row.rules → 2 ≤ row.rules.length →
      (∀ r, Rules.get row.rules r = im r) → InitRel none true [row] (some im)

/-- remembered rows, most recent first -/
inductive StackRel : List Row → List RuleSet → Prop
  | nil : StackRel [] []
  | cons {m s ms ss} : RowRel m s → StackRel ms ss → StackRel (m :: ms) (s :: ss)

theorem StackRel.length_eq {ms ss} (h : StackRel ms ss) : ms.length = ss.length := by
  induction h with
  | nil => rfl
  | cons _ _ ih => simp [ih]

/-- the Model context `c` represents the Spec state `s` within the capacities of `g` -/
def Sim (g : Cfg) (c : Ctx) (s : State) : Prop :=
  ∃ top below saved, c.stack = top :: (below ++ saved) ∧ RowRel top s.cur ∧ top.startAddress = s.loc ∧
    StackRel below s.stack ∧ InitRel c.initialRule c.isInitialized saved s.init ∧
    Cap.fits g.R c.stack.length ∧ (∀ row ∈ c.stack, Cap.fits g.N row.rules.length)

theorem RowRel.count {m : Row} {s : RuleSet} (h : RowRel m s) : ruleCount s.regs = m.rules.length :=
  ruleCount_eq_length h.nodup h.regs

theorem InitRel.rows {ir ii saved init} (h : InitRel ir ii saved init) :
    saved.length = initRowsNeeded init := by
  unfold initRowsNeeded
  cases h with
  | cie => rfl
  | zero h0 =>
    rename_i im
    have : ruleCount im = 0 := ruleCount_eq_length (m := []) (by simp [Rules.NodupKeys]) (fun r => by simp [h0 r])
    simp [this]
  | one h1 =>
    rename_i im r0 rule
    have : ruleCount im = 1 :=
      ruleCount_eq_length (m := [(r0, rule)]) (by simp [Rules.NodupKeys]) (fun r => by simp [h1 r, Rules.get_cons, eq_comm])
    simp [this]
  | saved hn h2 hg =>
    rename_i im row
    have : ruleCount im = row.rules.length := ruleCount_eq_length hn hg
    simp [this, h2]

theorem Sim.rows_eq {g c s} (h : Sim g c s) : rowsNeeded s = c.stack.length := by
  obtain ⟨top, below, saved, hst, _, _, hbelow, hinit, _, _⟩ := h
  unfold Spec.Unwind.rowsNeeded
  rw [hst, ← hinit.rows, ← hbelow.length_eq]
  simp; omega

/-- a represented state is within both storage limits -/
theorem Sim.within {g c s} (h : Sim g c s) :
    exceeds g.R (rowsNeeded s) = false ∧ exceeds g.N (ruleCount s.cur.regs) = false := by
  have hr := h.rows_eq
  obtain ⟨top, below, saved, hst, htop, _, _, _, hR, hN⟩ := h
  rw [exceeds_eq_false_iff, exceeds_eq_false_iff, hr, htop.count]
  exact ⟨hR, hN top (by simp [hst])⟩

/-- outcome of one Model step against one (capacity-instrumented) Spec step -/
def StepRel (g : Cfg) : Out (Ctx × Option Nat) → Except Err (State × Option TableRow) → Prop
  | .err e, .error e' => e = e'
  | .ok (c', none), .ok (s', none) => Sim g c' s'
  | .ok (c', some next), .ok (s', some row) =>
    ∃ top rest, c'.stack = top :: rest ∧ top.startAddress = row.start ∧ top.endAddress = row.end_ ∧
      RowRel top row.rules ∧ next = row.end_ ∧ next = s'.loc ∧
      Sim g { c' with stack := { top with startAddress := next } :: rest } s'
  | _, _ => False

/-- a Spec step that succeeds into a represented state passes both capacity checks -/
theorem stepB_ok {g : Cfg} {s s' : State} {i : Instr} {row : Option TableRow} {c' : Ctx}
    (hstep : step g.params s i = .ok (s', row)) (hsim : Sim g c' s') :
    stepB g.params g.R g.N s i = .ok (s', row) := by
  unfold stepB
  rw [hstep]
  simp only [hsim.within.1, hsim.within.2]
  simp

theorem stepB_error {g : Cfg} {s : State} {i : Instr} {e : Err}
    (hstep : step g.params s i = .error e) : stepB g.params g.R g.N s i = .error e := by
  unfold stepB
  rw [hstep]

/-- changing only the current row -/
theorem Sim.modify_cur {g : Cfg} {c : Ctx} {s : State} (h : Sim g c s) (f : Row → Row) (cur' : RuleSet) (loc' : Nat)
    (hrel : ∀ top, RowRel top s.cur → RowRel (f top) cur')
    (hloc : ∀ top, top.startAddress = s.loc → (f top).startAddress = loc')
    (hlen : ∀ top, RowRel top s.cur → (f top).rules.length ≤ top.rules.length) :
    ∃ c', c.modifyTop f = .ok c' ∧ Sim g c' { s with cur := cur', loc := loc' } ∧
      ∃ top rest, c.stack = top :: rest ∧ c'.stack = f top :: rest := by
  obtain ⟨top, below, saved, hst, htop, hstart, hbelow, hinit, hR, hN⟩ := h
  refine ⟨{ c with stack := f top :: (below ++ saved) }, by simp [Ctx.modifyTop, hst], ?_, top, below ++ saved, hst, rfl⟩
  refine ⟨f top, below, saved, rfl, hrel top htop, hloc top hstart, hbelow, hinit, ?_, ?_⟩
  · simpa [hst] using hR
  · intro row hrow
    simp only [List.mem_cons] at hrow
    rcases hrow with e | hrow
    · subst e
      exact Cap.fits_mono (hlen top htop) (hN top (by simp [hst]))
    · exact hN row (by simp [hst]; exact Or.inr (by simpa using hrow))


theorem State.eta_cur (s : State) (cur' : RuleSet) : ({ s with cur := cur', loc := s.loc } : State) = { s with cur := cur' } := rfl

/-- an instruction that only rewrites the current row (no address, no capacity) -/
theorem evaluate_modify {g : Cfg} {c : Ctx} {s : State} (h : Sim g c s) (i : Instr) (f : Row → Row) (cur' : RuleSet)
    (hev : evaluate g c i = (do let c ← c.modifyTop f; pure (c, none)))
    (hstep : step g.params s i = .ok ({ s with cur := cur' }, none))
    (hrel : ∀ top, RowRel top s.cur → RowRel (f top) cur')
    (hloc : ∀ top : Row, (f top).startAddress = top.startAddress)
    (hlen : ∀ top, (f top).rules.length ≤ top.rules.length) :
    StepRel g (evaluate g c i) (stepB g.params g.R g.N s i) := by
  obtain ⟨c', hc', hsim, _⟩ := h.modify_cur f cur' s.loc hrel (fun top ht => by rw [hloc, ht]) (fun top _ => hlen top)
  rw [State.eta_cur] at hsim
  rw [stepB_ok hstep hsim, hev, hc']
  exact hsim

theorem Sim.top {g : Cfg} {c : Ctx} {s : State} (h : Sim g c s) :
    ∃ top rest, c.stack = top :: rest ∧ c.top = .ok top ∧ RowRel top s.cur ∧ top.startAddress = s.loc := by
  obtain ⟨top, below, saved, hst, htop, hstart, _⟩ := h
  exact ⟨top, below ++ saved, hst, by simp [Ctx.top, hst], htop, hstart⟩

theorem rowsNeeded_setReg (s : State) (r : Reg) (v : Option Rule) : rowsNeeded (setReg s r v) = rowsNeeded s := rfl

/-- `set_register_rule` against the Spec's function update, with the rule-capacity check -/
theorem setRule_refines {g : Cfg} {c : Ctx} {s : State} (h : Sim g c s) (r : Reg) (rule : Rule) :
    (exceeds g.N (ruleCount (setReg s r (some rule)).cur.regs) = true ∧
      c.setRule g.N r rule = .err .rTooManyRegisterRules) ∨
    (exceeds g.N (ruleCount (setReg s r (some rule)).cur.regs) = false ∧
      ∃ c', c.setRule g.N r rule = .ok c' ∧ Sim g c' (setReg s r (some rule))) := by
  obtain ⟨top, below, saved, hst, htop, hstart, hbelow, hinit, hR, hN⟩ := h
  have hfit : g.N.fits top.rules.length := hN top (by simp [hst])
  rcases Rules.set_eq_err (N := g.N) (m := top.rules) (r := r) (v := rule) with ⟨m', hm'⟩ | ⟨herr, hnone, hroom⟩
  · right
    obtain ⟨hget, hnd, hlen, hfits⟩ := Rules.set_ok hm'
    have hrel : RowRel { top with rules := m' } (setReg s r (some rule)).cur := by
      refine ⟨htop.cfa, htop.args, fun x => ?_, hnd htop.nodup⟩
      simp only [hget x, setReg, RegMap.update, htop.regs x]
    have hsim : Sim g { c with stack := { top with rules := m' } :: (below ++ saved) } (setReg s r (some rule)) := by
      refine ⟨_, below, saved, rfl, hrel, hstart, hbelow, hinit, by simpa [hst] using hR, ?_⟩
      intro row hrow
      simp only [List.mem_cons] at hrow
      rcases hrow with e | hrow
      · subst e; exact hfits hfit
      · exact hN row (by simp [hst]; exact Or.inr (by simpa using hrow))
    exact ⟨hsim.within.2, _, by simp [Ctx.setRule, hst, hm'], hsim⟩
  · left
    refine ⟨?_, by simp [Ctx.setRule, hst, herr]⟩
    have hnot := (Rules.get_eq_none_iff top.rules r).mp hnone
    have hcount : ruleCount (setReg s r (some rule)).cur.regs = top.rules.length + 1 := by
      have := ruleCount_eq_length (m := top.rules ++ [(r, rule)]) (f := (setReg s r (some rule)).cur.regs) ?_ ?_
      · simpa using this
      · have hk : Rules.keys (top.rules ++ [(r, rule)]) = Rules.keys top.rules ++ [r] := by simp
        rw [Rules.NodupKeys, hk, List.nodup_append]
        refine ⟨htop.nodup, by simp, fun a ha b hb => ?_⟩
        simp only [List.mem_cons, List.not_mem_nil, or_false] at hb
        subst hb
        exact fun e => hnot (e ▸ ha)
      · intro x
        rw [Rules.get_append_single _ _ _ hnot]
        simp only [setReg, RegMap.update, htop.regs x]
    rw [exceeds_eq_true_iff, hcount, ← Cap.hasRoom_iff]
    simp [hroom]

/-- an instruction that sets one register rule -/
theorem evaluate_setRule {g : Cfg} {c : Ctx} {s : State} (h : Sim g c s) (i : Instr) (r : Reg) (rule : Rule)
    (hev : evaluate g c i = (do let c ← c.setRule g.N r rule; pure (c, none)))
    (hstep : step g.params s i = .ok (setReg s r (some rule), none)) :
    StepRel g (evaluate g c i) (stepB g.params g.R g.N s i) := by
  unfold stepB
  rw [hstep, hev]
  simp only [rowsNeeded_setReg, h.within.1]
  rcases setRule_refines h r rule with ⟨hx, herr⟩ | ⟨hx, c', hc', hsim⟩
  · simp [hx, herr, StepRel]
  · simp only [hx, hc']
    exact hsim

theorem getInitialRule_sim {g : Cfg} {c : Ctx} {s : State} (h : Sim g c s) (r : Reg) :
    c.getInitialRule r = .ok (s.init.map (fun im => im r)) := by
  obtain ⟨top, below, saved, hst, _, _, _, hinit, _, _⟩ := h
  obtain ⟨stack, ir, ii⟩ := c
  obtain ⟨loc, cur, sstack, init⟩ := s
  simp only at hst hinit
  unfold Ctx.getInitialRule
  simp only
  cases hinit with
  | cie => simp
  | @zero im h0 => simp [h0 r]
  | @one im r0 rule h1 =>
    simp only [Bool.not_true, Bool.false_eq_true, if_false, Option.map_some, h1 r]
    by_cases hr : r0 = r
    · simp [hr]
    · simp [hr, Ne.symm hr]
  | @saved im row hn h2 hg =>
    have hl : stack.getLast? = some row := by
      rw [hst, show top :: (below ++ [row]) = (top :: below) ++ [row] by simp]
      exact List.getLast?_concat
    simp [hl, hg r]

theorem clearRule_refines {g : Cfg} {c : Ctx} {s : State} (h : Sim g c s) (r : Reg) :
    ∃ c', c.clearRule r = .ok c' ∧ Sim g c' (setReg s r none) := by
  obtain ⟨c', hc', hsim, _⟩ := h.modify_cur (fun top => { top with rules := Rules.clear top.rules r })
    (setReg s r none).cur s.loc
    (fun top ht => ⟨ht.cfa, ht.args, fun x => by
      simp only [Rules.clear_get ht.nodup, setReg, RegMap.update, ht.regs x], Rules.clear_nodup ht.nodup r⟩)
    (fun top ht => ht) (fun top ht => Rules.clear_length_le ht.nodup r)
  exact ⟨c', hc', hsim⟩

theorem addSized_eq (m : Mode) (a len size : Nat) (hsz : 1 ≤ size ∧ size ≤ 8) :
    addSized m a len size = if a + len < 2 ^ (8 * size) then .ok (a + len) else .err .rAddressOverflow := by
  have hpow : 2 ^ (8 * size) ≤ 2 ^ 64 := Nat.pow_le_pow_right (by omega) (by omega)
  have hpos : 0 < 2 ^ (8 * size) := Nat.pow_pos (by omega)
  unfold addSized onesSized
  simp only [hsz, and_self, if_true]
  by_cases h1 : a + len ≥ 2 ^ 64
  · have : ¬ (a + len < 2 ^ (8 * size)) := by omega
    simp [h1, this]
  · simp only [h1, if_false, Out.bind_ok]
    by_cases h2 : a + len < 2 ^ (8 * size)
    · have : ¬ (a + len > 2 ^ (8 * size) - 1) := by omega
      simp [h2, this]
    · have : a + len > 2 ^ (8 * size) - 1 := by omega
      simp [h2, this]

theorem evaluate_refines {g : Cfg} (hsz : 1 ≤ g.addressSize ∧ g.addressSize ≤ 8) {c : Ctx} {s : State}
    (h : Sim g c s) (i : Instr) :
    StepRel g (evaluate g c i) (stepB g.params g.R g.N s i) := by
  cases i with
  | defCfa r o =>
    exact evaluate_modify h _ (fun t => { t with cfa := .registerAndOffset r (u64AsI64 o) })
      { s.cur with cfa := .registerAndOffset r (wrapI64 o) } rfl rfl
      (fun top ht => ⟨rfl, ht.args, ht.regs, ht.nodup⟩) (fun _ => rfl) (fun _ => Nat.le_refl _)
  | defCfaSf r o =>
    exact evaluate_modify h _ (fun t => { t with cfa := .registerAndOffset r (wrapI64 (o * g.dataAlign)) })
      { s.cur with cfa := .registerAndOffset r (factored g.params o) } rfl rfl
      (fun top ht => ⟨rfl, ht.args, ht.regs, ht.nodup⟩) (fun _ => rfl) (fun _ => Nat.le_refl _)
  | defCfaExpression e =>
    exact evaluate_modify h _ (fun t => { t with cfa := .expression e })
      { s.cur with cfa := .expression e } rfl rfl
      (fun top ht => ⟨rfl, ht.args, ht.regs, ht.nodup⟩) (fun _ => rfl) (fun _ => Nat.le_refl _)
  | argsSize n =>
    exact evaluate_modify h _ (fun t => { t with savedArgsSize := n })
      { s.cur with argsSize := n } rfl rfl
      (fun top ht => ⟨ht.cfa, rfl, ht.regs, ht.nodup⟩) (fun _ => rfl) (fun _ => Nat.le_refl _)
  | nop =>
    have hstep : step g.params s .nop = .ok (s, none) := rfl
    rw [stepB_ok hstep h]
    exact h
  | defCfaRegister r =>
    obtain ⟨top, rest, hst, htop, hrel, _⟩ := h.top
    cases hcfa : s.cur.cfa with
    | registerAndOffset r0 off =>
      have hc : top.cfa = .registerAndOffset r0 off := hrel.cfa.trans hcfa
      exact evaluate_modify h _ (fun t => { t with cfa := .registerAndOffset r off })
        { s.cur with cfa := .registerAndOffset r off } (by simp [evaluate, htop, hc]) (by simp [step, hcfa, setCfa])
        (fun top ht => ⟨rfl, ht.args, ht.regs, ht.nodup⟩) (fun _ => rfl) (fun _ => Nat.le_refl _)
    | expression e =>
      have hc : top.cfa = .expression e := hrel.cfa.trans hcfa
      have hstep : step g.params s (.defCfaRegister r) = .error .rCfiInstructionInInvalidContext := by
        simp [step, hcfa]
      rw [stepB_error hstep]
      simp [evaluate, htop, hc, StepRel]
  | defCfaOffset o =>
    obtain ⟨top, rest, hst, htop, hrel, _⟩ := h.top
    cases hcfa : s.cur.cfa with
    | registerAndOffset r0 off =>
      have hc : top.cfa = .registerAndOffset r0 off := hrel.cfa.trans hcfa
      exact evaluate_modify h _ (fun t => { t with cfa := .registerAndOffset r0 (u64AsI64 o) })
        { s.cur with cfa := .registerAndOffset r0 (wrapI64 o) } (by simp [evaluate, htop, hc]) (by simp [step, hcfa, setCfa])
        (fun top ht => ⟨rfl, ht.args, ht.regs, ht.nodup⟩) (fun _ => rfl) (fun _ => Nat.le_refl _)
    | expression e =>
      have hc : top.cfa = .expression e := hrel.cfa.trans hcfa
      have hstep : step g.params s (.defCfaOffset o) = .error .rCfiInstructionInInvalidContext := by
        simp [step, hcfa]
      rw [stepB_error hstep]
      simp [evaluate, htop, hc, StepRel]
  | defCfaOffsetSf o =>
    obtain ⟨top, rest, hst, htop, hrel, _⟩ := h.top
    cases hcfa : s.cur.cfa with
    | registerAndOffset r0 off =>
      have hc : top.cfa = .registerAndOffset r0 off := hrel.cfa.trans hcfa
      exact evaluate_modify h _ (fun t => { t with cfa := .registerAndOffset r0 (wrapI64 (o * g.dataAlign)) })
        { s.cur with cfa := .registerAndOffset r0 (factored g.params o) } (by simp [evaluate, htop, hc]) (by simp [step, hcfa, setCfa])
        (fun top ht => ⟨rfl, ht.args, ht.regs, ht.nodup⟩) (fun _ => rfl) (fun _ => Nat.le_refl _)
    | expression e =>
      have hc : top.cfa = .expression e := hrel.cfa.trans hcfa
      have hstep : step g.params s (.defCfaOffsetSf o) = .error .rCfiInstructionInInvalidContext := by
        simp [step, hcfa]
      rw [stepB_error hstep]
      simp [evaluate, htop, hc, StepRel]
  | undefined r => exact evaluate_setRule h _ r .undefined rfl rfl
  | sameValue r => exact evaluate_setRule h _ r .sameValue rfl rfl
  | offset r o =>
    exact evaluate_setRule h _ r (.offset (wrapI64 (u64AsI64 o * g.dataAlign))) rfl
      (by simp [step, factored, u64AsI64, wrapI64_mul_wrap, Cfg.params])
  | offsetExtendedSf r o => exact evaluate_setRule h _ r (.offset (wrapI64 (o * g.dataAlign))) rfl rfl
  | valOffset r o =>
    exact evaluate_setRule h _ r (.valOffset (wrapI64 (u64AsI64 o * g.dataAlign))) rfl
      (by simp [step, factored, u64AsI64, wrapI64_mul_wrap, Cfg.params])
  | valOffsetSf r o => exact evaluate_setRule h _ r (.valOffset (wrapI64 (o * g.dataAlign))) rfl rfl
  | register d src => exact evaluate_setRule h _ d (.register src) rfl rfl
  | expression r e => exact evaluate_setRule h _ r (.expression e) rfl rfl
  | valExpression r e => exact evaluate_setRule h _ r (.valExpression e) rfl rfl
  | restore r =>
    have hget := getInitialRule_sim h r
    cases hinit : s.init with
    | none =>
      have hstep : step g.params s (.restore r) = .error .rCfiInstructionInInvalidContext := by
        simp [step, hinit]
      rw [stepB_error hstep]
      simp [evaluate, hget, hinit, StepRel]
    | some im =>
      cases him : im r with
      | none =>
        obtain ⟨c', hc', hsim⟩ := clearRule_refines h r
        have hstep : step g.params s (.restore r) = .ok (setReg s r none, none) := by
          simp [step, hinit, him]
        rw [stepB_ok hstep hsim]
        simp only [evaluate, hget, hinit, Option.map_some, him, Out.bind_ok, hc', Out.pure_eq]
        exact hsim
      | some rule =>
        exact evaluate_setRule h _ r rule (by simp [evaluate, hget, hinit, him])
          (by simp [step, hinit, him])
  | negateRaState =>
    obtain ⟨top, rest, hst, htop, hrel, _⟩ := h.top
    have hreg : Rules.get top.rules 34 = s.cur.regs 34 := hrel.regs _
    cases hra : s.cur.regs 34 with
    | none =>
      exact evaluate_setRule h _ raSignState (.constant 1)
        (by simp [evaluate, htop, raSignState, hreg, hra]) (by simp [step, hra, raSignState, Spec.Unwind.raSignState])
    | some rule =>
      cases rule with
      | constant v =>
        exact evaluate_setRule h _ raSignState (.constant (v ^^^ 1))
          (by simp [evaluate, htop, raSignState, hreg, hra]) (by simp [step, hra, raSignState, Spec.Unwind.raSignState])
      | _ =>
        have hstep : step g.params s .negateRaState = .error .rCfiInstructionInInvalidContext := by
          simp [step, Spec.Unwind.raSignState, hra]
        rw [stepB_error hstep]
        simp [evaluate, htop, raSignState, hreg, hra, StepRel]
  | rememberState =>
    have hrows0 := h.rows_eq
    obtain ⟨top, below, saved, hst, htop, hstart, hbelow, hinit, hR, hN⟩ := h
    obtain ⟨stack, ir, ii⟩ := c
    simp only at hst hinit hR hN hrows0
    subst hst
    have hrows : rowsNeeded { s with stack := s.cur :: s.stack } = (top :: (below ++ saved)).length + 1 := by
      simp only [rowsNeeded, List.length_cons] at hrows0 ⊢
      omega
    have hstep : step g.params s .rememberState = .ok ({ s with stack := s.cur :: s.stack }, none) := rfl
    by_cases hroom : g.R.hasRoom (top :: (below ++ saved)).length = true
    · have hsim : Sim g { stack := top :: top :: (below ++ saved), initialRule := ir, isInitialized := ii }
          { s with stack := s.cur :: s.stack } := by
        refine ⟨top, top :: below, saved, rfl, htop, hstart, .cons htop hbelow, hinit, ?_, ?_⟩
        · exact (Cap.hasRoom_iff _ _).mp hroom
        · intro row hrow
          apply hN row
          simp only [List.mem_cons] at hrow ⊢
          rcases hrow with e | e | e
          · exact Or.inl e
          · exact Or.inl e
          · exact Or.inr e
      rw [stepB_ok hstep hsim]
      simp only [evaluate, Ctx.pushRow, hroom, if_true, Out.bind_ok, Out.pure_eq]
      exact hsim
    · have hx : exceeds g.R (rowsNeeded { s with stack := s.cur :: s.stack }) = true := by
        rw [hrows, exceeds_eq_true_iff, ← Cap.hasRoom_iff]; exact hroom
      unfold stepB
      rw [hstep]
      simp only [hx, if_true]
      simp only [evaluate, Ctx.pushRow, hroom]
      simp [StepRel]
  | restoreState =>
    obtain ⟨top, below, saved, hst, htop, hstart, hbelow, hinit, hR, hN⟩ := h
    obtain ⟨stack, ir, ii⟩ := c
    obtain ⟨loc, cur, sstack, init⟩ := s
    simp only at hst hinit hR hN hstart hbelow htop
    subst hst
    -- `min_size` is the number of rows that are not remembered rule sets
    have hmin : (if ii = true ∧ ir.isNone = true then 2 else 1) = 1 + saved.length := by
      cases hinit <;> simp
    cases hbelow with
    | nil =>
      have hstep : step g.params ⟨loc, cur, [], init⟩ .restoreState = .error .rPopWithEmptyStack := rfl
      rw [stepB_error hstep]
      have : (top :: ([] ++ saved)).length ≤ (if ii = true ∧ ir.isNone = true then 2 else 1) := by
        rw [hmin]; simp; omega
      simp only [evaluate, Ctx.top, Out.bind_ok, Ctx.popRow, this, if_true]
      simp [StepRel]
    | @cons b sb bs ss hb hbs =>
      have hstep : step g.params ⟨loc, cur, sb :: ss, init⟩ .restoreState = .ok (⟨loc, sb, ss, init⟩, none) := rfl
      have hsim : Sim g { stack := { b with startAddress := top.startAddress } :: (bs ++ saved), initialRule := ir, isInitialized := ii }
          ⟨loc, sb, ss, init⟩ := by
        refine ⟨_, bs, saved, rfl, ⟨hb.cfa, hb.args, hb.regs, hb.nodup⟩, hstart, hbs, hinit, ?_, ?_⟩
        · refine Cap.fits_mono ?_ hR
          simp
        · intro row hrow
          simp only [List.mem_cons] at hrow
          rcases hrow with e | e
          · subst e
            exact hN b (by simp)
          · exact hN row (by simp only [List.cons_append, List.mem_cons]; exact Or.inr (Or.inr e))
      rw [stepB_ok hstep hsim]
      have : ¬ ((top :: b :: (bs ++ saved)).length ≤ (if ii = true ∧ ir.isNone = true then 2 else 1)) := by
        rw [hmin]; simp; omega
      simp only [evaluate, Ctx.top, Out.bind_ok, Ctx.popRow, List.cons_append]
      rw [if_neg this]
      simp only [Out.bind_ok, List.tail_cons, Ctx.modifyTop, Out.pure_eq]
      exact hsim
  | setLoc a =>
    obtain ⟨top, rest, hst, htop, hrel, hstart⟩ := h.top
    by_cases hlt : a < s.loc
    · have hstep : step g.params s (.setLoc a) = .error .rInvalidCfiSetLoc := by simp [step, hlt]
      rw [stepB_error hstep]
      simp [evaluate, htop, hstart, hlt, StepRel]
    · have hstep : step g.params s (.setLoc a) = .ok ({ s with loc := a }, some ⟨s.loc, a, s.cur⟩) := by
        simp [step, hlt]
      obtain ⟨c', hc', hsim, top', rest', hst', hst''⟩ := h.modify_cur
        (fun t => { t with endAddress := a, startAddress := a }) s.cur a
        (fun t ht => ⟨ht.cfa, ht.args, ht.regs, ht.nodup⟩) (fun _ _ => rfl) (fun _ _ => Nat.le_refl _)
      have hsim' : Sim g c' { s with loc := a } := hsim
      rw [stepB_ok hstep hsim']
      rw [hst] at hst'
      obtain ⟨e1, e2⟩ := List.cons.inj hst'
      subst e1; subst e2
      simp only [evaluate, htop, Out.bind_ok, hstart, hlt, if_false, Ctx.modifyTop, hst, Out.pure_eq]
      refine ⟨_, rest, rfl, rfl, rfl, ⟨hrel.cfa, hrel.args, hrel.regs, hrel.nodup⟩, rfl, rfl, ?_⟩
      have : c' = { c with stack := { top with endAddress := a, startAddress := a } :: rest } := by
        simp only [Ctx.modifyTop, hst, Out.ok.injEq] at hc'
        exact hc'.symm
      rw [this] at hsim'
      exact hsim'
  | advanceLoc d =>
    obtain ⟨top, rest, hst, htop, hrel, hstart⟩ := h.top
    have hadd := addSized_eq g.mode top.startAddress ((d * g.codeAlign) % 2 ^ 64) g.addressSize hsz
    rw [hstart] at hadd
    by_cases hlt : s.loc + (d * g.codeAlign) % 2 ^ 64 < 2 ^ (8 * g.addressSize)
    · have hstep : step g.params s (.advanceLoc d) =
          .ok ({ s with loc := s.loc + (d * g.codeAlign) % 2 ^ 64 }, some ⟨s.loc, s.loc + (d * g.codeAlign) % 2 ^ 64, s.cur⟩) := by
        simp [step, Cfg.params, hlt]
      generalize s.loc + (d * g.codeAlign) % 2 ^ 64 = a at *
      obtain ⟨c', hc', hsim, top', rest', hst', hst''⟩ := h.modify_cur
        (fun t => { t with endAddress := a, startAddress := a }) s.cur a
        (fun t ht => ⟨ht.cfa, ht.args, ht.regs, ht.nodup⟩) (fun _ _ => rfl) (fun _ _ => Nat.le_refl _)
      have hsim' : Sim g c' { s with loc := a } := hsim
      rw [stepB_ok hstep hsim']
      simp only [evaluate, htop, Out.bind_ok, hstart, hadd, hlt, if_true, Ctx.modifyTop, hst, Out.pure_eq]
      refine ⟨_, rest, rfl, rfl, rfl, ⟨hrel.cfa, hrel.args, hrel.regs, hrel.nodup⟩, rfl, rfl, ?_⟩
      have : c' = { c with stack := { top with endAddress := a, startAddress := a } :: rest } := by
        simp only [Ctx.modifyTop, hst, Out.ok.injEq] at hc'
        exact hc'.symm
      rw [this] at hsim'
      exact hsim'
    · have hstep : step g.params s (.advanceLoc d) = .error .rAddressOverflow := by
        simp [step, Cfg.params, hlt]
      rw [stepB_error hstep]
      simp [evaluate, htop, hstart, hadd, hlt, StepRel]

/-- a row returned by `next_row` represents a row of the Spec table -/
structure TableRowRel (m : Row) (t : TableRow) : Prop where
  start : m.startAddress = t.start
  end_ : m.endAddress = t.end_
  rel : RowRel m t.rules

/-- row lists related pointwise -/
inductive RowsRel : List Row → List TableRow → Prop
  | nil : RowsRel [] []
  | cons {m t ms ts} : TableRowRel m t → RowsRel ms ts → RowsRel (m :: ms) (t :: ts)

/-- how a run ended: both finished normally (in related states) or both with the same error -/
def EndRel (g : Cfg) : Out Ctx → Except Err State → Prop
  | .ok c, .ok s => Sim g c s
  | .err e, .error e' => e = e'
  | _, _ => False

/-- a Model run against a Spec run -/
def RunRel (g : Cfg) (m : Run Ctx) (s : List TableRow × Except Err State) : Prop :=
  RowsRel m.1 s.1 ∧ EndRel g m.2 s.2

/-- the Model's view of "decoding ends with error `e`" -/
def tailOf : Option Err → Out Unit
  | none => .ok ()
  | some e => .err e

theorem rowsLoop_refines {g : Cfg} (hsz : 1 ≤ g.addressSize ∧ g.addressSize ≤ 8) (lastEnd : Nat)
    (is : List Instr) (malformed : Option Err) :
    ∀ {c : Ctx} {s : State}, Sim g c s →
      RunRel g (rowsLoop g lastEnd is (tailOf malformed) c) (exec g.params g.R g.N lastEnd s is malformed) := by
  induction is with
  | nil =>
    intro c s h
    cases malformed with
    | some e => exact ⟨.nil, rfl⟩
    | none =>
      obtain ⟨c', hc', hsim, top, rest, hst, hst'⟩ := h.modify_cur (fun t => { t with endAddress := lastEnd }) s.cur s.loc
        (fun t ht => ⟨ht.cfa, ht.args, ht.regs, ht.nodup⟩) (fun _ ht => ht) (fun _ _ => Nat.le_refl _)
      obtain ⟨top0, rest0, hst0, htop0, hrel0, hstart0⟩ := h.top
      rw [hst0] at hst
      obtain ⟨e1, e2⟩ := List.cons.inj hst
      subst e1; subst e2
      simp only [rowsLoop, tailOf, Run.bind, hc', Ctx.top, hst', exec]
      exact ⟨.cons ⟨hstart0, rfl, ⟨hrel0.cfa, hrel0.args, hrel0.regs, hrel0.nodup⟩⟩ .nil, hsim⟩
  | cons i is ih =>
    intro c s h
    have hstep := evaluate_refines hsz h i
    rw [rowsLoop, exec]
    cases hB : stepB g.params g.R g.N s i with
    | error e =>
      rw [hB] at hstep
      cases hE : evaluate g c i with
      | err e' => rw [hE] at hstep; simp only [StepRel] at hstep; subst hstep; exact ⟨.nil, rfl⟩
      | ok p => rw [hE] at hstep; obtain ⟨c', o⟩ := p; cases o <;> simp [StepRel] at hstep
      | panic w => rw [hE] at hstep; simp [StepRel] at hstep
      | diverge => rw [hE] at hstep; simp [StepRel] at hstep
    | ok q =>
      obtain ⟨s', orow⟩ := q
      rw [hB] at hstep
      cases hE : evaluate g c i with
      | err e' => rw [hE] at hstep; cases orow <;> simp [StepRel] at hstep
      | panic w => rw [hE] at hstep; cases orow <;> simp [StepRel] at hstep
      | diverge => rw [hE] at hstep; cases orow <;> simp [StepRel] at hstep
      | ok p =>
        obtain ⟨c', o⟩ := p
        rw [hE] at hstep
        cases orow with
        | none =>
          cases o with
          | none =>
            simp only [StepRel] at hstep
            simp only [Run.bind]
            exact ih hstep
          | some n => simp [StepRel] at hstep
        | some row =>
          cases o with
          | none => simp [StepRel] at hstep
          | some next =>
            simp only [StepRel] at hstep
            obtain ⟨top, rest, hst, hs, he, hrel, hn, hl, hsim⟩ := hstep
            have := ih hsim
            simp only [Run.bind, Ctx.top, hst, Ctx.modifyTop]
            exact ⟨.cons ⟨hs, he, hrel⟩ this.1, this.2⟩

theorem runTable_refines {g : Cfg} (hsz : 1 ≤ g.addressSize ∧ g.addressSize ≤ 8) (start lastEnd : Nat)
    (is : List Instr) (malformed : Option Err) {c : Ctx} {s : State} (h : Sim g c s) :
    RunRel g (runTable g start lastEnd is (tailOf malformed) c)
      (exec g.params g.R g.N lastEnd { s with loc := start } is malformed) := by
  obtain ⟨c', hc', hsim, _⟩ := h.modify_cur (fun t => { t with startAddress := start }) s.cur start
    (fun t ht => ⟨ht.cfa, ht.args, ht.regs, ht.nodup⟩) (fun _ _ => rfl) (fun _ _ => Nat.le_refl _)
  simp only [runTable, Run.bind, hc']
  exact rowsLoop_refines hsz lastEnd is malformed hsim

theorem reset_sim (g : Cfg) (hR : g.R.fits 1) :
    ∃ c0, reset g.R = .ok c0 ∧ Sim g c0 { loc := 0, cur := RuleSet.initial, stack := [], init := none } := by
  have hroom : g.R.hasRoom 0 = true := (Cap.hasRoom_iff _ _).mpr hR
  refine ⟨{ stack := [{}], initialRule := none, isInitialized := false }, by simp [reset, hroom],
    ({} : Row), [], [], rfl, ?_, rfl, .nil, .cie, by simpa using hR, ?_⟩
  · exact ⟨rfl, rfl, fun r => rfl, by simp [Rules.NodupKeys]⟩
  · intro row hrow
    simp only [List.mem_cons, List.not_mem_nil, or_false] at hrow
    subst hrow
    cases g.N <;> simp [Cap.fits]

/-- `save_initial_rules` against "the initial rules are the register columns after the CIE" -/
theorem saveInitialRules_refines {g : Cfg} {c : Ctx} {s : State} (h : Sim g c s) (hcie : s.init = none) :
    (exceeds g.R (rowsNeeded { s with init := some s.cur.regs }) = true ∧ saveInitialRules g.R c = .err .rStackFull) ∨
    (exceeds g.R (rowsNeeded { s with init := some s.cur.regs }) = false ∧
      ∃ c', saveInitialRules g.R c = .ok c' ∧ Sim g c' { s with init := some s.cur.regs }) := by
  have hrows0 := h.rows_eq
  obtain ⟨top, below, saved, hst, htop, hstart, hbelow, hinit, hR, hN⟩ := h
  obtain ⟨stack, ir, ii⟩ := c
  obtain ⟨loc, cur, sstack, init⟩ := s
  simp only at hst hinit hR hN hstart hbelow htop hcie hrows0
  subst hcie
  subst hst
  cases hinit
  simp only [List.append_nil] at *
  have hcount : ruleCount cur.regs = top.rules.length := htop.count
  simp only [rowsNeeded, initRowsNeeded, hcount] at hrows0 ⊢
  unfold saveInitialRules
  simp only
  match hrules : top.rules with
  | [] =>
    right
    have hsim : Sim g { stack := top :: below, initialRule := some none, isInitialized := true }
        { loc := loc, cur := cur, stack := sstack, init := some cur.regs } :=
      ⟨top, below, [], by simp, htop, hstart, hbelow,
        .zero (fun r => by rw [← htop.regs r, hrules]; rfl), by simpa using hR, by simpa using hN⟩
    refine ⟨?_, _, rfl, hsim⟩
    simp only [List.length_nil] at hrows0 ⊢
    rw [exceeds_eq_false_iff]
    simp only [Nat.not_le_of_lt (by omega : 0 < 2), if_false, Nat.add_zero] at hrows0 ⊢
    rw [hrows0]; exact hR
  | [rule] =>
    right
    obtain ⟨r0, v0⟩ := rule
    have hsim : Sim g { stack := top :: below, initialRule := some (some (r0, v0)), isInitialized := true }
        { loc := loc, cur := cur, stack := sstack, init := some cur.regs } :=
      ⟨top, below, [], by simp, htop, hstart, hbelow,
        .one (fun r => by rw [← htop.regs r, hrules]; simp [Rules.get_cons, eq_comm]), by simpa using hR, by simpa using hN⟩
    refine ⟨?_, _, rfl, hsim⟩
    simp only [List.length_cons, List.length_nil] at hrows0 ⊢
    rw [exceeds_eq_false_iff]
    simp only [Nat.not_le_of_lt (by omega : 0 + 1 < 2), if_false, Nat.add_zero] at hrows0 ⊢
    rw [hrows0]; exact hR
  | r1 :: r2 :: rs =>
    have h2 : 2 ≤ top.rules.length := by rw [hrules]; simp
    simp only [List.length_cons] at hrows0 ⊢
    have hge : 2 ≤ rs.length + 1 + 1 := by omega
    simp only [hge, if_true] at hrows0 ⊢
    by_cases hroom : g.R.hasRoom (below.length + 1) = true
    · right
      have hsim : Sim g { stack := (top :: below) ++ [top], initialRule := none, isInitialized := true }
          { loc := loc, cur := cur, stack := sstack, init := some cur.regs } := by
        refine ⟨top, below, [top], by simp, htop, hstart, hbelow, .saved htop.nodup h2 htop.regs, ?_, ?_⟩
        · have := (Cap.hasRoom_iff _ _).mp hroom
          simpa using this
        · intro row hrow
          simp only [List.cons_append, List.mem_cons, List.mem_append, List.not_mem_nil, or_false] at hrow
          rcases hrow with e | e | e
          · exact hN row (by simp [e])
          · exact hN row (by simp [e])
          · exact hN row (by simp [e])
      refine ⟨?_, _, by simp [hroom], hsim⟩
      rw [exceeds_eq_false_iff]
      have := (Cap.hasRoom_iff _ _).mp hroom
      have e : sstack.length + 1 + 1 = below.length + 1 + 1 := by omega
      rw [e]; exact this
    · left
      refine ⟨?_, by simp [hroom]⟩
      rw [exceeds_eq_true_iff]
      intro hfit
      apply hroom
      rw [Cap.hasRoom_iff]
      have e : sstack.length + 1 + 1 = below.length + 1 + 1 := by omega
      rw [← e]; exact hfit

theorem fdeEndAddress_eq (g : Cfg) (hsz : 1 ≤ g.addressSize ∧ g.addressSize ≤ 8) (initial len : Nat) :
    fdeEndAddress g initial len = .ok (fdeEnd g.params initial len) := by
  have hpos : 0 < 2 ^ (8 * g.addressSize) := Nat.pow_pos (by omega)
  unfold fdeEndAddress wrappingAddSized onesSized fdeEnd
  simp only [hsz, and_self, if_true, Out.bind_ok, Out.pure_eq, Cfg.params]
  rw [Nat.sub_add_cancel hpos]

theorem step_init {p : Params} {s s' : State} {i : Instr} {r : Option TableRow}
    (h : step p s i = .ok (s', r)) : s'.init = s.init := by
  cases i <;> simp only [step] at h
  all_goals (repeat' split at h)
  all_goals (first | (cases h; rfl) | (simp at h))

theorem stepB_init {p : Params} {R N : Cap} {s s' : State} {i : Instr} {r : Option TableRow}
    (h : stepB p R N s i = .ok (s', r)) : s'.init = s.init := by
  unfold stepB at h
  cases hs : step p s i with
  | error e => rw [hs] at h; simp at h
  | ok q =>
    obtain ⟨s1, r1⟩ := q
    rw [hs] at h
    simp only at h
    split at h
    · simp at h
    · split at h
      · simp at h
      · cases h; exact step_init hs

theorem exec_init (p : Params) (R N : Cap) (e : Nat) (is : List Instr) (bad : Option Err) :
    ∀ (s s' : State), (exec p R N e s is bad).2 = .ok s' → s'.init = s.init := by
  induction is with
  | nil =>
    intro s s' h
    cases bad with
    | none => simp only [exec] at h; cases h; rfl
    | some e => simp [exec] at h
  | cons i is ih =>
    intro s s' h
    rw [exec] at h
    cases hB : stepB p R N s i with
    | error e => rw [hB] at h; simp at h
    | ok q =>
      obtain ⟨s1, r1⟩ := q
      rw [hB] at h
      cases r1 with
      | none => exact (ih _ _ h).trans (stepB_init hB)
      | some row => exact (ih _ _ h).trans (stepB_init hB)

/-- how a whole unwind ended: both completed, or both with the same error -/
def FinalRel : Out Unit → Except Err Unit → Prop
  | .ok _, .ok _ => True
  | .err e, .error e' => e = e'
  | _, _ => False

theorem unwind_refines_main (g : Cfg) (hsz : 1 ≤ g.addressSize ∧ g.addressSize ≤ 8) (hR : g.R.fits 1)
    (cie fde : List Instr) (cieBad fdeBad : Option Err) (initial len : Nat) :
    RowsRel (unwind g cie (tailOf cieBad) fde (tailOf fdeBad) initial len).1
        (table g.params g.R g.N cie cieBad fde fdeBad initial len).1 ∧
    FinalRel (unwind g cie (tailOf cieBad) fde (tailOf fdeBad) initial len).2
        (table g.params g.R g.N cie cieBad fde fdeBad initial len).2 := by
  obtain ⟨c0, hc0, hsim0⟩ := reset_sim g hR
  have hcie := runTable_refines hsz 0 0 cie cieBad hsim0
  have hinit0 := exec_init g.params g.R g.N 0 cie cieBad { loc := 0, cur := RuleSet.initial, stack := [], init := none }
  unfold unwind initializeCtx table
  simp only [hc0, Out.bind_ok]
  generalize runTable g 0 0 cie (tailOf cieBad) c0 = mrun at hcie
  generalize exec g.params g.R g.N 0 { loc := 0, cur := RuleSet.initial, stack := [], init := none } cie cieBad = srun at hcie hinit0
  obtain ⟨mrows, mend⟩ := mrun
  obtain ⟨srows, send⟩ := srun
  obtain ⟨_, hend⟩ := hcie
  simp only at hend hinit0 ⊢
  cases send with
  | error e =>
    cases mend with
    | err e' => simp only [EndRel] at hend; subst hend; exact ⟨.nil, rfl⟩
    | ok c => simp [EndRel] at hend
    | panic w => simp [EndRel] at hend
    | diverge => simp [EndRel] at hend
  | ok s1 =>
    cases mend with
    | err e' => simp [EndRel] at hend
    | panic w => simp [EndRel] at hend
    | diverge => simp [EndRel] at hend
    | ok c1 =>
      simp only [EndRel] at hend
      have hs1 : s1.init = none := hinit0 s1 rfl
      simp only [Out.bind_ok]
      rcases saveInitialRules_refines hend hs1 with ⟨hx, herr⟩ | ⟨hx, c2, hc2, hsim2⟩
      · have hx' : exceeds g.R (rowsNeeded { s1 with loc := initial, init := some s1.cur.regs }) = true := hx
        simp only [herr, hx', if_true, Run.bind]
        exact ⟨.nil, rfl⟩
      · have hx' : exceeds g.R (rowsNeeded { s1 with loc := initial, init := some s1.cur.regs }) = false := hx
        simp only [hc2, hx', Run.bind, fdeEndAddress_eq g hsz]
        have hfde := runTable_refines hsz initial (fdeEnd g.params initial len) fde fdeBad hsim2
        have hst : ({ s1 with init := some s1.cur.regs, loc := initial } : State) =
            { s1 with loc := initial, init := some s1.cur.regs } := rfl
        simp only [Bool.false_eq_true, if_false]
        generalize runTable g initial (fdeEnd g.params initial len) fde (tailOf fdeBad) c2 = mrun at hfde
        generalize exec g.params g.R g.N (fdeEnd g.params initial len) { s1 with loc := initial, init := some s1.cur.regs } fde fdeBad = srun at hfde
        obtain ⟨hrows, hend2⟩ := hfde
        refine ⟨hrows, ?_⟩
        obtain ⟨mr, me⟩ := mrun
        obtain ⟨sr, se⟩ := srun
        simp only at hend2 ⊢
        cases se <;> cases me <;> simp_all [EndRel, FinalRel, Out.map, Except.map]

end Gimli.Unwind

namespace Gimli.Spec.Unwind
open Gimli Gimli.Cfi Gimli.Unwind

/-- the validity errors of the call-frame semantics -/
def IsInvalid (e : Err) : Prop :=
  e = .rInvalidCfiSetLoc ∨ e = .rAddressOverflow ∨ e = .rCfiInstructionInInvalidContext ∨ e = .rPopWithEmptyStack

theorem step_error_invalid {p : Params} {s : State} {i : Instr} {e : Err}
    (h : step p s i = .error e) : IsInvalid e := by
  unfold IsInvalid
  cases i <;> simp only [step] at h
  all_goals (repeat' split at h)
  all_goals (first | (cases h; simp) | (simp at h))

/-- a row-creating instruction: the row spans from the old to the new location, never backwards -/
theorem step_emit {p : Params} {s s' : State} {i : Instr} {row : TableRow}
    (h : step p s i = .ok (s', some row)) :
    row.start = s.loc ∧ row.end_ = s'.loc ∧ s.loc ≤ s'.loc ∧ row.rules = s.cur := by
  cases i <;> simp only [step] at h
  all_goals (repeat' split at h)
  all_goals (first | (cases h; refine ⟨rfl, rfl, ?_, rfl⟩; simp only; omega) | (simp at h) | (cases h))

theorem step_quiet {p : Params} {s s' : State} {i : Instr}
    (h : step p s i = .ok (s', none)) : s'.loc = s.loc := by
  cases i <;> simp only [step] at h
  all_goals (repeat' split at h)
  all_goals (first | (cases h; rfl) | (simp at h) | (cases h))

theorem stepB_ok_step {p : Params} {R N : Cap} {s s' : State} {i : Instr} {r : Option TableRow}
    (h : stepB p R N s i = .ok (s', r)) : step p s i = .ok (s', r) := by
  unfold stepB at h
  cases hs : step p s i with
  | error e => rw [hs] at h; simp at h
  | ok q =>
    obtain ⟨s1, r1⟩ := q
    rw [hs] at h
    simp only at h
    split at h
    · simp at h
    · split at h
      · simp at h
      · cases h; rfl

/-- `rows` tile the addresses from `a` on: every row starts where the previous one ended, and every
row that has a successor is not backwards -/
def Tiles : Nat → List (Nat × Nat) → Prop
  | _, [] => True
  | a, [(s, _)] => s = a
  | a, (s, e) :: r :: rest => s = a ∧ s ≤ e ∧ Tiles e (r :: rest)

def spans (rows : List TableRow) : List (Nat × Nat) := rows.map (fun r => (r.start, r.end_))

theorem Tiles.cons {a e : Nat} {rest : List (Nat × Nat)} (h : a ≤ e) (ht : Tiles e rest) :
    Tiles a ((a, e) :: rest) := by
  cases rest with
  | nil => rfl
  | cons r rest => exact ⟨rfl, h, ht⟩

/-- rows of a Spec run tile the addresses from the current location; a clean end closes the table
at `endAddr`; a run that ends with an error has only forward rows -/
theorem exec_tiles (p : Params) (R N : Cap) (endAddr : Nat) (is : List Instr) (bad : Option Err) :
    ∀ (s : State),
      Tiles s.loc (spans (exec p R N endAddr s is bad).1) ∧
      (∀ s', (exec p R N endAddr s is bad).2 = .ok s' →
        ∃ last, (exec p R N endAddr s is bad).1.getLast? = some last ∧ last.end_ = endAddr) ∧
      (∀ e, (exec p R N endAddr s is bad).2 = .error e →
        ∀ r ∈ (exec p R N endAddr s is bad).1, r.start ≤ r.end_) := by
  induction is with
  | nil =>
    intro s
    cases bad with
    | none => simp [exec, spans, Tiles]
    | some e => simp [exec, spans, Tiles]
  | cons i is ih =>
    intro s
    rw [exec]
    cases hB : stepB p R N s i with
    | error e => simp [spans, Tiles]
    | ok q =>
      obtain ⟨s1, r1⟩ := q
      have hstep := stepB_ok_step hB
      cases r1 with
      | none =>
        have := ih s1
        rw [step_quiet hstep] at this
        exact this
      | some row =>
        obtain ⟨h1, h2, h3, _⟩ := step_emit hstep
        obtain ⟨t1, t2, t3⟩ := ih s1
        simp only
        refine ⟨?_, ?_, ?_⟩
        · simp only [spans, List.map_cons, h1, h2]
          exact Tiles.cons h3 t1
        · intro s' hs'
          obtain ⟨last, hl, he⟩ := t2 s' hs'
          refine ⟨last, ?_, he⟩
          rw [List.getLast?_cons, hl]; rfl
        · intro e he r hr
          simp only [List.mem_cons] at hr
          rcases hr with e1 | hr
          · subst e1; omega
          · exact t3 e he r hr

end Gimli.Spec.Unwind

namespace Gimli.Spec.Unwind
open Gimli Gimli.Cfi Gimli.Unwind

theorem table_tiles (p : Params) (R N : Cap) (cie fde : List Instr) (cieBad fdeBad : Option Err) (initial len : Nat) :
    Tiles initial (spans (table p R N cie cieBad fde fdeBad initial len).1) ∧
    ((table p R N cie cieBad fde fdeBad initial len).2 = .ok () →
      ∃ last, (table p R N cie cieBad fde fdeBad initial len).1.getLast? = some last ∧ last.end_ = fdeEnd p initial len) ∧
    (∀ e, (table p R N cie cieBad fde fdeBad initial len).2 = .error e →
      ∀ r ∈ (table p R N cie cieBad fde fdeBad initial len).1, r.start ≤ r.end_) := by
  unfold table
  simp only
  cases h1 : (exec p R N 0 { loc := 0, cur := RuleSet.initial, stack := [], init := none } cie cieBad).2 with
  | error e => simp [spans, Tiles]
  | ok s1 =>
    simp only
    split
    · simp [spans, Tiles]
    · obtain ⟨t1, t2, t3⟩ := exec_tiles p R N (fdeEnd p initial len) fde fdeBad
        { s1 with loc := initial, init := some s1.cur.regs }
      refine ⟨t1, ?_, ?_⟩
      · intro hok
        cases h2 : (exec p R N (fdeEnd p initial len) { s1 with loc := initial, init := some s1.cur.regs } fde fdeBad).2 with
        | error e => rw [h2] at hok; simp [Except.map] at hok
        | ok s' => exact t2 s' h2
      · intro e he
        cases h2 : (exec p R N (fdeEnd p initial len) { s1 with loc := initial, init := some s1.cur.regs } fde fdeBad).2 with
        | error e' => exact t3 e' h2
        | ok s' => rw [h2] at he; simp [Except.map] at he

end Gimli.Spec.Unwind

namespace Gimli.Unwind
open Gimli Gimli.Cfi Gimli.Spec.Unwind

/-- the address ranges of returned rows -/
def rowSpans (rows : List Row) : List (Nat × Nat) := rows.map (fun r => (r.startAddress, r.endAddress))

theorem RowsRel.spans {m : List Row} {s : List TableRow} (h : RowsRel m s) : rowSpans m = spans s := by
  induction h with
  | nil => rfl
  | cons hr _ ih =>
    simp only [rowSpans, Spec.Unwind.spans, List.map_cons, hr.start, hr.end_] at ih ⊢
    rw [ih]

theorem RowsRel.getLast {m : List Row} {s : List TableRow} (h : RowsRel m s) {t : TableRow}
    (ht : s.getLast? = some t) : ∃ r, m.getLast? = some r ∧ TableRowRel r t := by
  induction h with
  | nil => simp at ht
  | @cons m0 t0 ms ts hr hrest ih =>
    cases hrest with
    | nil =>
      simp only [List.getLast?_singleton, Option.some.injEq] at ht ⊢
      subst ht
      exact ⟨m0, rfl, hr⟩
    | @cons m1 t1 ms' ts' hr1 hrest' =>
      rw [List.getLast?_cons_cons] at ht ⊢
      exact ih ht

theorem RowsRel.forall {m : List Row} {s : List TableRow} (h : RowsRel m s)
    (hs : ∀ t ∈ s, t.start ≤ t.end_) : ∀ r ∈ m, r.startAddress ≤ r.endAddress := by
  induction h with
  | nil => simp
  | cons hr _ ih =>
    intro r hmem
    simp only [List.mem_cons] at hmem hs
    rcases hmem with e | hmem
    · subst e
      rw [hr.start, hr.end_]
      exact hs _ (Or.inl rfl)
    · exact ih (fun t ht => hs t (Or.inr ht)) r hmem

theorem rows_contiguous_main (g : Cfg) (hsz : 1 ≤ g.addressSize ∧ g.addressSize ≤ 8) (hR : g.R.fits 1)
    (cie fde : List Instr) (cieBad fdeBad : Option Err) (initial len : Nat) :
    Tiles initial (rowSpans (unwind g cie (tailOf cieBad) fde (tailOf fdeBad) initial len).1) ∧
    ((unwind g cie (tailOf cieBad) fde (tailOf fdeBad) initial len).2 = .ok () →
      ∃ last, (unwind g cie (tailOf cieBad) fde (tailOf fdeBad) initial len).1.getLast? = some last ∧
        last.endAddress = fdeEnd g.params initial len) ∧
    (∀ e, (unwind g cie (tailOf cieBad) fde (tailOf fdeBad) initial len).2 = .err e →
      ∀ r ∈ (unwind g cie (tailOf cieBad) fde (tailOf fdeBad) initial len).1, r.startAddress ≤ r.endAddress) := by
  obtain ⟨hrows, hfin⟩ := unwind_refines_main g hsz hR cie fde cieBad fdeBad initial len
  obtain ⟨t1, t2, t3⟩ := table_tiles g.params g.R g.N cie fde cieBad fdeBad initial len
  generalize unwind g cie (tailOf cieBad) fde (tailOf fdeBad) initial len = m at hrows hfin
  generalize table g.params g.R g.N cie cieBad fde fdeBad initial len = s at hrows hfin t1 t2 t3
  obtain ⟨mr, me⟩ := m
  obtain ⟨sr, se⟩ := s
  simp only at hrows hfin t1 t2 t3 ⊢
  refine ⟨by rw [hrows.spans]; exact t1, ?_, ?_⟩
  · intro hok
    subst hok
    cases se with
    | error e => simp [FinalRel] at hfin
    | ok u =>
      obtain ⟨last, hl, he⟩ := t2 rfl
      obtain ⟨r, hr, hrel⟩ := hrows.getLast hl
      exact ⟨r, hr, by rw [hrel.end_, he]⟩
  · intro e he
    subst he
    cases se with
    | ok u => simp [FinalRel] at hfin
    | error e' => exact hrows.forall (t3 e' rfl)

/-- after `save_initial_rules`, `get_initial_rule` answers from the register rules the current
row had at that moment — through the 0-rule shortcut, the 1-rule shortcut, or the saved row -/
theorem saveInitialRules_getInitialRule {R : Cap} {c c' : Ctx} {top : Row} {rest : List Row}
    (hst : c.stack = top :: rest) (h : saveInitialRules R c = .ok c') (r : Reg) :
    c'.getInitialRule r = .ok (some (Rules.get top.rules r)) := by
  unfold saveInitialRules at h
  rw [hst] at h
  simp only at h
  match hrules : top.rules with
  | [] =>
    rw [hrules] at h
    simp only [Out.ok.injEq] at h
    subst h
    simp [Ctx.getInitialRule]
  | [rule] =>
    rw [hrules] at h
    simp only [Out.ok.injEq] at h
    subst h
    obtain ⟨r0, v0⟩ := rule
    simp only [Ctx.getInitialRule, Bool.not_true, Bool.false_eq_true, if_false, Rules.get_cons, Rules.get_nil]
    by_cases hr : r0 = r <;> simp [hr]
  | r1 :: r2 :: rs =>
    rw [hrules] at h
    simp only at h
    split at h
    · simp only [Out.ok.injEq] at h
      subst h
      have : (top :: (rest ++ [top])).getLast? = some top := by
        rw [← List.cons_append]; exact List.getLast?_concat
      simp [Ctx.getInitialRule, this, hrules]
    · cases h

/-- `impl PartialEq for RegisterRuleMap` decides extensional equality (of duplicate-free maps) -/
theorem Rules.eq_iff_ext {a b : Rules} (ha : Rules.NodupKeys a) (hb : Rules.NodupKeys b) :
    Rules.eq a b = true ↔ ∀ r, Rules.get a r = Rules.get b r := by
  have half : ∀ (x y : Rules), Rules.NodupKeys x →
      ((x.all (fun kv => decide (some kv.2 = Rules.get y kv.1)) = true) ↔
      (∀ r v, Rules.get x r = some v → Rules.get y r = some v)) := by
    intro x y hx
    simp only [List.all_eq_true, decide_eq_true_eq, Prod.forall]
    constructor
    · intro h r v hm; exact (h r v ((Rules.get_some_iff_mem hx r v).mp hm)).symm
    · intro h r v hm; exact (h r v ((Rules.get_some_iff_mem hx r v).mpr hm)).symm
  unfold Rules.eq
  rw [Bool.and_eq_true, half a b ha, half b a hb]
  constructor
  · rintro ⟨h1, h2⟩ r
    apply Option.ext
    intro v
    exact ⟨h1 r v, h2 r v⟩
  · intro h
    exact ⟨fun r v hv => by rw [← h r]; exact hv, fun r v hv => by rw [h r]; exact hv⟩

end Gimli.Unwind

namespace Gimli.Spec.Unwind
open Gimli Gimli.Cfi Gimli.Unwind

/-- the errors a capacity-instrumented step can raise -/
def IsStepError (e : Err) : Prop := IsInvalid e ∨ e = .rStackFull ∨ e = .rTooManyRegisterRules

theorem stepB_error_kinds {p : Params} {R N : Cap} {s : State} {i : Instr} {e : Err}
    (h : stepB p R N s i = .error e) : IsStepError e := by
  unfold stepB at h
  cases hs : step p s i with
  | error e' =>
    rw [hs] at h
    cases h
    exact Or.inl (step_error_invalid hs)
  | ok q =>
    obtain ⟨s1, r1⟩ := q
    rw [hs] at h
    simp only at h
    split at h
    · cases h; exact Or.inr (Or.inl rfl)
    · split at h
      · cases h; exact Or.inr (Or.inr rfl)
      · cases h

theorem exec_error_kinds (p : Params) (R N : Cap) (endAddr : Nat) (is : List Instr) (bad : Option Err) :
    ∀ (s : State) (e : Err), (exec p R N endAddr s is bad).2 = .error e → IsStepError e ∨ bad = some e := by
  induction is with
  | nil =>
    intro s e h
    cases bad with
    | none => simp [exec] at h
    | some e' => simp only [exec] at h; cases h; exact Or.inr rfl
  | cons i is ih =>
    intro s e h
    rw [exec] at h
    cases hB : stepB p R N s i with
    | error e' => rw [hB] at h; cases h; exact Or.inl (stepB_error_kinds hB)
    | ok q =>
      obtain ⟨s1, r1⟩ := q
      rw [hB] at h
      cases r1 with
      | none => exact ih _ _ h
      | some row => exact ih _ _ h

/-- every way a Spec table can fail: an invalid instruction, a storage limit, or an undecodable
instruction at the end of the CIE's or the FDE's stream -/
theorem table_error_kinds (p : Params) (R N : Cap) (cie fde : List Instr) (cieBad fdeBad : Option Err)
    (initial len : Nat) (e : Err) (h : (table p R N cie cieBad fde fdeBad initial len).2 = .error e) :
    IsStepError e ∨ cieBad = some e ∨ fdeBad = some e := by
  unfold table at h
  simp only at h
  cases h1 : (exec p R N 0 { loc := 0, cur := RuleSet.initial, stack := [], init := none } cie cieBad).2 with
  | error e' =>
    rw [h1] at h
    cases h
    rcases exec_error_kinds p R N 0 cie cieBad _ _ h1 with h | h
    · exact Or.inl h
    · exact Or.inr (Or.inl h)
  | ok s1 =>
    rw [h1] at h
    simp only at h
    split at h
    · cases h; exact Or.inl (Or.inr (Or.inl rfl))
    · cases h2 : (exec p R N (fdeEnd p initial len) { s1 with loc := initial, init := some s1.cur.regs } fde fdeBad).2 with
      | error e' =>
        rw [h2] at h
        simp only [Except.map] at h
        cases h
        rcases exec_error_kinds p R N _ fde fdeBad _ _ h2 with h | h
        · exact Or.inl h
        · exact Or.inr (Or.inr h)
      | ok s' => rw [h2] at h; simp [Except.map] at h

/-- `remember_state` then `restore_state` is the identity on rule sets -/
theorem remember_restore (p : Params) (s : State) :
    ∃ s1, step p s .rememberState = .ok (s1, none) ∧ step p s1 .restoreState = .ok (s, none) :=
  ⟨{ s with stack := s.cur :: s.stack }, rfl, rfl⟩

/-- `DW_CFA_restore r` in an FDE puts the column back to what the CIE left, whatever happened since -/
theorem restore_is_initial (p : Params) (s : State) (im : RegMap) (r : Reg) (h : s.init = some im) :
    ∃ s1, step p s (.restore r) = .ok (s1, none) ∧ s1.cur.regs r = im r ∧
      (∀ x, x ≠ r → s1.cur.regs x = s.cur.regs x) ∧ s1.cur.cfa = s.cur.cfa := by
  refine ⟨setReg s r (im r), by simp [step, h], by simp [setReg, RegMap.update], ?_, rfl⟩
  intro x hx
  simp [setReg, RegMap.update, hx]

end Gimli.Spec.Unwind

namespace Gimli.Spec.Unwind
open Gimli Gimli.Cfi Gimli.Unwind

/-- capacity order: whatever fits in `c` fits in `c'` -/
def CapLe (c c' : Cap) : Prop := ∀ n, exceeds c' n = true → exceeds c n = true

theorem CapLe.none (c : Cap) : CapLe c none := by
  intro n h; simp [exceeds] at h

theorem CapLe.some {a b : Nat} (h : a ≤ b) : CapLe (some a) (some b) := by
  intro n hn
  simp only [exceeds, decide_eq_true_eq] at hn ⊢
  omega

theorem stepB_mono {p : Params} {R N R' N' : Cap} (hR : CapLe R R') (hN : CapLe N N') {s : State} {i : Instr}
    {r : State × Option TableRow} (h : stepB p R N s i = .ok r) : stepB p R' N' s i = .ok r := by
  unfold stepB at h ⊢
  cases hs : step p s i with
  | error e => rw [hs] at h; cases h
  | ok q =>
    obtain ⟨s1, r1⟩ := q
    rw [hs] at h
    simp only at h ⊢
    by_cases hx : exceeds R (rowsNeeded s1) = true
    · simp [hx] at h
    · by_cases hn : exceeds N (ruleCount s1.cur.regs) = true
      · simp [hx, hn] at h
      · have hx' : ¬ exceeds R' (rowsNeeded s1) = true := fun h' => hx (hR _ h')
        have hn' : ¬ exceeds N' (ruleCount s1.cur.regs) = true := fun h' => hn (hN _ h')
        simp only [hx, hn, hx', hn'] at h ⊢
        exact h

theorem exec_mono (p : Params) {R N R' N' : Cap} (hR : CapLe R R') (hN : CapLe N N') (endAddr : Nat)
    (is : List Instr) (bad : Option Err) :
    ∀ (s s' : State), (exec p R N endAddr s is bad).2 = .ok s' →
      exec p R' N' endAddr s is bad = exec p R N endAddr s is bad := by
  induction is with
  | nil => intro s s' _; cases bad <;> rfl
  | cons i is ih =>
    intro s s' h
    rw [exec] at h ⊢
    rw [exec]
    cases hB : stepB p R N s i with
    | error e => rw [hB] at h; cases h
    | ok q =>
      rw [hB] at h
      rw [stepB_mono hR hN hB]
      obtain ⟨s1, r1⟩ := q
      cases r1 with
      | none => exact ih s1 s' h
      | some row => simp only at h ⊢; rw [ih s1 s' h]

/-- **More storage never changes a table that fits**: if the Spec table completes within
capacities `(R, N)`, it is the same table within any larger capacities -/
theorem table_mono (p : Params) {R N R' N' : Cap} (hR : CapLe R R') (hN : CapLe N N')
    (cie fde : List Instr) (cieBad fdeBad : Option Err) (initial len : Nat)
    (h : (table p R N cie cieBad fde fdeBad initial len).2 = .ok ()) :
    table p R' N' cie cieBad fde fdeBad initial len = table p R N cie cieBad fde fdeBad initial len := by
  unfold table at h ⊢
  simp only at h ⊢
  cases h1 : (exec p R N 0 { loc := 0, cur := RuleSet.initial, stack := [], init := none } cie cieBad).2 with
  | error e => rw [h1] at h; cases h
  | ok s1 =>
    rw [h1] at h
    rw [exec_mono p hR hN 0 cie cieBad _ s1 h1, h1]
    simp only at h ⊢
    by_cases hx : exceeds R (rowsNeeded { s1 with loc := initial, init := some s1.cur.regs }) = true
    · simp [hx] at h
    · have hx' : ¬ exceeds R' (rowsNeeded { s1 with loc := initial, init := some s1.cur.regs }) = true :=
        fun h' => hx (hR _ h')
      simp only [hx, hx'] at h ⊢
      cases h2 : (exec p R N (fdeEnd p initial len) { s1 with loc := initial, init := some s1.cur.regs } fde fdeBad).2 with
      | error e => rw [h2] at h; simp [Except.map] at h
      | ok s2 => rw [exec_mono p hR hN _ fde fdeBad _ s2 h2]; simp [h2]

end Gimli.Spec.Unwind

namespace Gimli.Unwind
open Gimli Gimli.Cfi Gimli.Spec.Unwind

theorem storage_monotone_main (g : Cfg) (R' N' : Cap) (hsz : 1 ≤ g.addressSize ∧ g.addressSize ≤ 8)
    (hR1 : g.R.fits 1) (hR : CapLe g.R R') (hN : CapLe g.N N')
    (cie fde : List Instr) (cieBad fdeBad : Option Err) (initial len : Nat)
    (hok : (unwind g cie (tailOf cieBad) fde (tailOf fdeBad) initial len).2 = .ok ()) :
    (unwind { g with R := R', N := N' } cie (tailOf cieBad) fde (tailOf fdeBad) initial len).2 = .ok () ∧
    ∃ rows : List TableRow,
      RowsRel (unwind g cie (tailOf cieBad) fde (tailOf fdeBad) initial len).1 rows ∧
      RowsRel (unwind { g with R := R', N := N' } cie (tailOf cieBad) fde (tailOf fdeBad) initial len).1 rows := by
  obtain ⟨hrows, hfin⟩ := unwind_refines_main g hsz hR1 cie fde cieBad fdeBad initial len
  have hR1' : Cap.fits R' 1 := by
    rw [← exceeds_eq_false_iff]
    cases hx : exceeds R' 1 with
    | false => rfl
    | true =>
      have := hR 1 hx
      rw [(exceeds_eq_false_iff g.R 1).mpr hR1] at this
      cases this
  obtain ⟨hrows', hfin'⟩ := unwind_refines_main { g with R := R', N := N' } hsz hR1' cie fde cieBad fdeBad initial len
  have hp : ({ g with R := R', N := N' } : Cfg).params = g.params := rfl
  simp only [hp] at hrows' hfin'
  rw [hok] at hfin
  have htab : (table g.params g.R g.N cie cieBad fde fdeBad initial len).2 = .ok () := by
    cases ht : (table g.params g.R g.N cie cieBad fde fdeBad initial len).2 with
    | ok u => rfl
    | error e => rw [ht] at hfin; simp [FinalRel] at hfin
  have hmono := table_mono g.params hR hN cie fde cieBad fdeBad initial len htab
  rw [hmono] at hrows' hfin'
  rw [htab] at hfin'
  refine ⟨?_, _, hrows, hrows'⟩
  generalize (unwind { g with R := R', N := N' } cie (tailOf cieBad) fde (tailOf fdeBad) initial len).2 = m at hfin'
  cases m with
  | ok u => rfl
  | err e => simp [FinalRel] at hfin'
  | panic w => simp [FinalRel] at hfin'
  | diverge => simp [FinalRel] at hfin'

end Gimli.Unwind
