import Gimli.Lemmas.ReaderKinds
import Gimli.Lemmas.ReaderViews
/-! C10: no operation of the shared-buffer reader panics, API misuse apart. -/
namespace Gimli.Rd
open Gimli
variable {σ α β : Type}

/-- `x` never panics -/
def NoPanic (x : M σ α) : Prop := ∀ s w, (x s).1 ≠ .panic w

theorem NoPanic.pure (a : α) : NoPanic (M.pure a : M σ α) := fun _ _ h => by cases h
theorem NoPanic.fail (e : Err) : NoPanic (M.fail e : M σ α) := fun _ _ h => by cases h
theorem NoPanic.liftOut {o : Out α} (ho : ∀ w, o ≠ .panic w) : NoPanic (M.liftOut o : M σ α) :=
  fun _ w h => ho w h

theorem NoPanic.bind {x : M σ α} {f : α → M σ β} (hx : NoPanic x) (hf : ∀ a, NoPanic (f a)) :
    NoPanic (M.bind x f) := by
  intro s w
  have h1 := hx s
  unfold M.bind
  rcases hxs : x s with ⟨o, s'⟩
  rw [hxs] at h1
  cases o with
  | ok a => exact hf a s' w
  | err e => intro h; cases h
  | panic w' => exact absurd rfl (h1 w')
  | diverge => intro h; cases h

theorem NoPanic.map {x : M σ α} (f : α → β) (hx : NoPanic x) : NoPanic (M.map f x) :=
  NoPanic.bind hx (fun a => NoPanic.pure (f a))

theorem NoPanic.ite {c : Prop} [Decidable c] {x y : M σ α} (hx : NoPanic x) (hy : NoPanic y) :
    NoPanic (if c then x else y) := by
  split <;> assumption

theorem shared_readSlice_np (n : Nat) : NoPanic (sharedCore.readSlice n) := by
  intro c w
  have := (Props_aux n c w)
  exact this
where
  Props_aux (n : Nat) (c : Cur) (w : String) : (Shared.readSlice n c).1 ≠ .panic w := by
    rw [Shared.readSlice_eq]
    unfold Slice.readSlice Slice.readSliceRaw M.bind M.pure
    by_cases h : c.len < n <;> simp [h]

theorem shared_skip_np (n : Nat) : NoPanic (sharedCore.skip n) := by
  intro c w
  show (Shared.skip n c).1 ≠ _
  rw [Shared.skip_eq]; unfold Slice.skip
  by_cases h : c.len < n <;> simp [h]

theorem shared_truncate_np (n : Nat) : NoPanic (sharedCore.truncate n) := by
  intro c w
  show (Shared.truncate n c).1 ≠ _
  rw [Shared.truncate_eq]; unfold Slice.truncate
  by_cases h : c.len < n <;> simp [h]

theorem shared_split_np (n : Nat) : NoPanic (sharedCore.split n) := by
  intro c w
  show (Shared.split n c).1 ≠ _
  rw [Shared.split_eq]; unfold Slice.split Slice.readSliceRaw
  by_cases h : c.len < n <;> simp [h]

theorem offsetFromU64_np (v : Nat) (w : String) : Ints.offsetFromU64 64 v ≠ .panic w := by
  unfold Ints.offsetFromU64; split <;> intro h <;> cases h

theorem unsignedLoop_np (bs : Bytes) : ∀ r s w, Leb.unsignedLoop bs r s ≠ .panic w := by
  induction bs with
  | nil => intro r s w h; simp [Leb.unsignedLoop] at h
  | cons b tl ih =>
    intro r s w
    rw [Leb.unsignedLoop]
    split
    · intro h; cases h
    · simp only; split
      · intro h; cases h
      · exact ih _ _ w

theorem unsigned_np (bs : Bytes) (w : String) : Leb.unsigned bs ≠ .panic w := by
  cases bs with
  | nil => intro h; simp [Leb.unsigned] at h
  | cons b tl =>
    rw [Leb.unsigned]; split
    · intro h; cases h
    · exact unsignedLoop_np _ _ _ w

theorem signedLoop_np (bs : Bytes) : ∀ r s w, Leb.signedLoop bs r s ≠ .panic w := by
  induction bs with
  | nil => intro r s w h; simp [Leb.signedLoop] at h
  | cons b tl ih =>
    intro r s w
    rw [Leb.signedLoop]
    split
    · intro h; cases h
    · simp only; split
      · intro h; cases h
      · exact ih _ _ w

theorem signed_np (bs : Bytes) (w : String) : Leb.signed bs ≠ .panic w := by
  unfold Leb.signed
  have := signedLoop_np bs 0 0
  cases h : Leb.signedLoop bs 0 0 with
  | ok p => obtain ⟨a, b, c, d⟩ := p; intro h'; cases h'
  | err e => intro h'; cases h'
  | panic w' => exact absurd h (this w')
  | diverge => intro h'; cases h'

theorem skip_np (bs : Bytes) (w : String) : Leb.skip bs ≠ .panic w := by
  induction bs with
  | nil => intro h; simp [Leb.skip] at h
  | cons b tl ih =>
    rw [Leb.skip]; split
    · intro h; cases h
    · exact ih

theorem u16_np (bs : Bytes) (w : String) : Leb.u16 bs ≠ .panic w := by
  unfold Leb.u16
  repeat (first | split | (intro h; cases h))

theorem via_np {γ : Type} (f : Bytes → Out (γ × Bytes)) (adv : Bytes → Err → Nat)
    (hf : ∀ bs w, f bs ≠ .panic w) : NoPanic (Dflt.via sharedCore f adv) := by
  intro c w
  unfold Dflt.via
  simp only [sharedCore, Shared.toSlice]
  cases h : f (SubRange.bytes c) with
  | ok p => intro h'; cases h'
  | err e => intro h'; cases h'
  | panic w' => exact absurd h (hf _ w')
  | diverge => intro h'; cases h'



theorem readFixed_np (e : Endian) (n : Nat) : NoPanic (Dflt.readFixed sharedCore e n) :=
  NoPanic.bind (shared_readSlice_np n) (fun _ => NoPanic.pure _)

theorem readSigned_np (e : Endian) (n : Nat) : NoPanic (Dflt.readSigned sharedCore e n) :=
  NoPanic.bind (shared_readSlice_np n) (fun _ => NoPanic.pure _)

theorem readUint_np (e : Endian) (n : Nat) (hn : ¬ n > 8) : NoPanic (Dflt.readUint sharedCore e n) := by
  unfold Dflt.readUint
  rw [if_neg hn]
  exact NoPanic.bind (shared_readSlice_np n) (fun _ => NoPanic.pure _)

theorem readAddress_np (e : Endian) (n : Nat) : NoPanic (Dflt.readAddress sharedCore e n) := by
  unfold Dflt.readAddress
  exact NoPanic.ite (readFixed_np e n) (NoPanic.fail _)

theorem readWord_np (e : Endian) (f : Format) : NoPanic (Dflt.readWord sharedCore e f) := by
  unfold Dflt.readWord
  cases f
  · exact readFixed_np e 4
  · exact NoPanic.bind (readFixed_np e 8) (fun v => NoPanic.liftOut (offsetFromU64_np v))

theorem readSizedOffset_np (e : Endian) (n : Nat) : NoPanic (Dflt.readSizedOffset sharedCore e n) := by
  unfold Dflt.readSizedOffset
  exact NoPanic.ite (NoPanic.bind (readFixed_np e n) (fun v => NoPanic.liftOut (offsetFromU64_np v)))
    (NoPanic.fail _)

theorem readInitialLength_np (e : Endian) : NoPanic (Dflt.readInitialLength sharedCore e) := by
  unfold Dflt.readInitialLength
  refine NoPanic.bind (readFixed_np e 4) (fun v => ?_)
  refine NoPanic.ite (NoPanic.pure _) (NoPanic.ite ?_ (NoPanic.fail _))
  exact NoPanic.bind (readFixed_np e 8)
    (fun v => NoPanic.bind (NoPanic.liftOut (offsetFromU64_np v)) (fun _ => NoPanic.pure _))

theorem readAddressSize_np : NoPanic (Dflt.readAddressSize sharedCore) := by
  unfold Dflt.readAddressSize
  exact NoPanic.bind (readFixed_np .little 1) (fun _ => NoPanic.ite (NoPanic.pure _) (NoPanic.fail _))

theorem readUleb32_np : NoPanic (Dflt.readUleb32 sharedCore) := by
  unfold Dflt.readUleb32
  exact NoPanic.bind (via_np _ _ unsigned_np) (fun _ => NoPanic.ite (NoPanic.pure _) (NoPanic.fail _))

theorem find_np (c : Cur) (b : UInt8) (w : String) : Shared.find c b ≠ .panic w := by
  unfold Shared.find; split <;> intro h <;> cases h

theorem readNts_np : NoPanic (Dflt.readNts sharedCore) := by
  intro c w
  unfold Dflt.readNts
  exact NoPanic.bind (NoPanic.liftOut (fun w => find_np c 0 w))
    (fun idx => NoPanic.bind (shared_split_np idx) (fun v => NoPanic.bind (shared_skip_np 1) (fun _ => NoPanic.pure v))) c w

/-- API misuse that panics by contract: `read_uint(n)` with `n > 8` (documented), and
`offset_from` with a base the reader does not lie in (`debug_assert!`, debug builds only) -/
def Op.misuse (m : Mode) : Op → Bool
  | .uint _ n => decide (n > 8)
  | .offFrom _ _ => decide (m = .debug)
  | _ => false

theorem runM_np (st : St Cur) (i : Nat) {x : M Cur Val} (hx : NoPanic x) (w : String) :
    (runM sharedImpl st i x).1.res ≠ .panic w := by
  unfold runM
  cases st.get i with
  | none => intro h; cases h
  | some s => exact hx s w

theorem runNew_np (st : St Cur) (i : Nat) {x : M Cur Cur} (hx : NoPanic x) (w : String) :
    (runNew sharedImpl st i x).1.res ≠ .panic w := by
  unfold runNew
  cases st.get i with
  | none => intro h; cases h
  | some s =>
    simp only
    have := hx s
    rcases hxs : x s with ⟨o, s'⟩
    rw [hxs] at this
    cases o with
    | ok r => intro h; cases h
    | err e => intro h; cases h
    | panic w' => exact absurd rfl (this w')
    | diverge => intro h; cases h

theorem runQ_np (st : St Cur) (i : Nat) {q : Cur → Out Val} (hq : ∀ s w, q s ≠ .panic w) (w : String) :
    (runQ sharedImpl st i q).1.res ≠ .panic w := by
  unfold runQ
  cases st.get i with
  | none => intro h; cases h
  | some s => exact hq s w

theorem map_ne_panic {o : Out α} (f : α → β) (h : ∀ w, o ≠ .panic w) (w : String) :
    o.map f ≠ .panic w := by
  cases o with
  | ok a => intro h'; cases h'
  | err e => intro h'; cases h'
  | panic w' => exact absurd rfl (h w')
  | diverge => intro h'; cases h'

/-- **No operation of a history on the shared-buffer reader panics, API misuse apart** — in
particular none of `SubRange`'s `assert!`s, which guard its pointer arithmetic, can fire. -/
theorem step_no_panic (m : Mode) (e : Endian) (valid : Bytes → Bool) (lossy : Bytes → Bytes)
    (st : St Cur) (op : Op) (h : Op.misuse m op = false) (w : String) :
    (step sharedImpl m e valid lossy st op).1.res ≠ .panic w := by
  cases op with
  | fixed i n => exact runM_np st i (NoPanic.map _ (readFixed_np e n)) w
  | signed i n => exact runM_np st i (NoPanic.map _ (readSigned_np e n)) w
  | uint i n =>
    have hn : ¬ n > 8 := by simpa [Op.misuse] using h
    exact runM_np st i (NoPanic.map _ (readUint_np e n hn)) w
  | slice i n => exact runM_np st i (NoPanic.map _ (shared_readSlice_np n)) w
  | skip i n => exact runM_np st i (NoPanic.map _ (shared_skip_np n)) w
  | split i n => exact runNew_np st i (shared_split_np n) w
  | trunc i n => exact runM_np st i (NoPanic.map _ (shared_truncate_np n)) w
  | empty i => exact runM_np st i (fun s w h => by cases h) w
  | find i b => exact runQ_np st i (fun s w => map_ne_panic _ (fun w => find_np s b w) w) w
  | clone i => exact runNew_np st i (fun s w h => by cases h) w
  | drop i =>
    simp only [step]
    cases st.get i <;> (intro h'; cases h')
  | offFrom i j =>
    have hm : m = .release := by
      cases m
      · simp [Op.misuse] at h
      · rfl
    subst hm
    simp only [step]
    cases st.get j with
    | none => intro h'; cases h'
    | some b =>
      refine runQ_np st i (fun s w => ?_) w
      refine map_ne_panic _ (fun w => ?_) w
      show ptrOffsetFrom .release s b ≠ _
      unfold ptrOffsetFrom
      simp only
      split <;> intro h' <;> cases h'
  | offId i =>
    simp only [step]
    cases st.get i <;> (intro h'; cases h')
  | lookup i k =>
    simp only [step]
    cases st.ids[k]? with
    | none => intro h'; cases h'
    | some id => exact runQ_np st i (fun s w h' => by cases h') w
  | len i => exact runQ_np st i (fun s w h' => by cases h') w
  | toSlice i => exact runQ_np st i (fun s w h' => by cases h') w
  | toStr i =>
    refine runQ_np st i (fun s w => map_ne_panic _ (fun w => ?_) w) w
    show Shared.toStr valid s ≠ _
    unfold Shared.toStr; split <;> intro h' <;> cases h'
  | toLossy i =>
    refine runQ_np st i (fun s w => map_ne_panic _ (fun w => ?_) w) w
    show Shared.toLossy valid lossy s ≠ _
    unfold Shared.toLossy; split <;> intro h' <;> cases h'
  | nts i => exact runNew_np st i readNts_np w
  | uleb i => exact runM_np st i (NoPanic.map _ (via_np _ _ unsigned_np)) w
  | sleb i => exact runM_np st i (NoPanic.map _ (via_np _ _ signed_np)) w
  | uleb32 i => exact runM_np st i (NoPanic.map _ readUleb32_np) w
  | uleb16 i => exact runM_np st i (NoPanic.map _ (via_np _ _ u16_np)) w
  | skipLeb i =>
    refine runM_np st i (NoPanic.map _ (via_np _ _ (fun bs w => ?_))) w
    exact map_ne_panic _ (fun w => skip_np bs w) w
  | initLen i => exact runM_np st i (NoPanic.map _ (readInitialLength_np e)) w
  | addrSize i => exact runM_np st i (NoPanic.map _ readAddressSize_np) w
  | addr i n => exact runM_np st i (NoPanic.map _ (readAddress_np e n)) w
  | word i f => exact runM_np st i (NoPanic.map _ (readWord_np e f)) w
  | offset i f => exact runM_np st i (NoPanic.map _ (readWord_np e f)) w
  | sizedOff i n => exact runM_np st i (NoPanic.map _ (readSizedOffset_np e n)) w

end Gimli.Rd
