import Gimli.Lemmas.LineEncode
import Gimli.Spec.LineHeader
/-! `parseHeader ∘ encodeHeaderV4 = id` (versions 2–4). -/
namespace Gimli.Line
open Gimli Gimli.Spec Gimli.Spec.Line

theorem readCStr_encode' (p rest : Bytes) (hp : (0 : UInt8) ∉ p) :
    readCStr (p ++ 0 :: rest) = .ok (p, rest) := readCStr_encode p rest hp

theorem parseDirsV4_encode (dirs : List Bytes) (hd : ∀ d ∈ dirs, d ≠ [] ∧ (0 : UInt8) ∉ d) :
    ∀ (rest : Bytes) (fuel : Nat), dirs.length < fuel →
      parseDirsV4 fuel (encodeDirs dirs ++ rest) = .ok (dirs.map .string, rest) := by
  induction dirs with
  | nil =>
    intro rest fuel hf
    cases fuel with
    | zero => omega
    | succ fuel => simp [parseDirsV4, encodeDirs, readCStr]
  | cons d ds ih =>
    intro rest fuel hf
    cases fuel with
    | zero => omega
    | succ fuel =>
      obtain ⟨hne, h0⟩ := hd d List.mem_cons_self
      rw [parseDirsV4]
      simp only [encodeDirs, List.append_assoc, List.cons_append]
      rw [readCStr_encode d _ h0]
      simp only [Out.bind_ok]
      have : d.isEmpty = false := by cases d <;> simp_all
      simp only [this, Bool.false_eq_true, ↓reduceIte]
      rw [ih (fun x hx => hd x (List.mem_cons_of_mem _ hx)) rest fuel (by simp at hf; omega)]
      simp


def fileOf (x : Bytes × Nat × Nat × Nat) : FileEntry :=
  { path := .string x.1, dirIndex := x.2.1, timestamp := x.2.2.1, size := x.2.2.2,
    md5 := List.replicate 16 0, source := none }

theorem parseFilesV4_encode (files : List (Bytes × Nat × Nat × Nat))
    (hf : ∀ f ∈ files, f.1 ≠ [] ∧ (0 : UInt8) ∉ f.1 ∧ f.2.1 < 2 ^ 64 ∧ f.2.2.1 < 2 ^ 64 ∧ f.2.2.2 < 2 ^ 64) :
    ∀ (rest : Bytes) (fuel : Nat), files.length < fuel →
      parseFilesV4 fuel (encodeFiles files ++ rest) = .ok (files.map fileOf, rest) := by
  induction files with
  | nil =>
    intro rest fuel hfu
    cases fuel with
    | zero => omega
    | succ fuel => simp [parseFilesV4, encodeFiles, readCStr]
  | cons x fs ih =>
    intro rest fuel hfu
    cases fuel with
    | zero => omega
    | succ fuel =>
      obtain ⟨n, d, t, s⟩ := x
      obtain ⟨hne, h0, hd, ht, hs⟩ := hf (n, d, t, s) List.mem_cons_self
      simp only at hne h0 hd ht hs
      rw [parseFilesV4]
      simp only [encodeFiles, List.append_assoc, List.cons_append]
      rw [readCStr_encode n _ h0]
      simp only [Out.bind_ok]
      have : n.isEmpty = false := by cases n <;> simp_all
      simp only [this, Bool.false_eq_true, ↓reduceIte]
      have hfe : ∀ tail, parseFileEntryV4 n (Leb.encodeU d ++ (Leb.encodeU t ++ (Leb.encodeU s ++ tail))) =
          .ok (fileOf (n, d, t, s), tail) := by
        intro tail
        unfold parseFileEntryV4
        rw [Leb.unsigned_roundtrip _ hd]
        simp only [Out.bind_ok]
        rw [Leb.unsigned_roundtrip _ ht]
        simp only [Out.bind_ok]
        rw [Leb.unsigned_roundtrip _ hs]
        rfl
      rw [hfe]
      simp only [Out.bind_ok]
      rw [ih (fun x hx => hf x (List.mem_cons_of_mem _ hx)) rest fuel (by simp at hfu; omega)]
      simp

theorem toI8_encode (i : Int) (h1 : -128 ≤ i) (h2 : i ≤ 127) : toI8 (i % 256).toNat = i := by
  unfold toI8; split <;> omega

theorem readWord_encode (e : Endian) (f : Format) (v : Nat) (rest : Bytes)
    (h32 : f = .dwarf32 → v < 2 ^ 32) (h64 : v < 2 ^ 64) :
    Ints.readWord e 64 f (wordBytes e f v ++ rest) = .ok (v, rest) := by
  cases f with
  | dwarf32 =>
    simp only [Ints.readWord, wordBytes]
    exact Ints.readFixed_toBytes e 4 v rest (by have := h32 rfl; omega)
  | dwarf64 =>
    simp only [Ints.readWord, wordBytes]
    rw [Ints.readFixed_toBytes e 8 v rest (by omega)]
    simp [Ints.offsetFromU64, h64]


theorem rf1 (e : Endian) (v : Nat) (rest : Bytes) (hv : v < 256) :
    Ints.readFixed e 1 (Ints.toBytes e 1 v ++ rest) = .ok (v, rest) :=
  Ints.readFixed_toBytes e 1 v rest (by omega)

/-- **Header round trip, versions 2–4.** -/
theorem parseHeader_encodeV4 (hs : HeaderV4) (hwf : hs.WF) (cd cn : Option Bytes) (bytes trailing : Bytes)
    (henc : encodeHeaderV4 hs = .ok bytes) :
    parseHeader hs.p.endian hs.p.addrSize cd cn (bytes ++ trailing) = .ok (hs.expected cd cn) := by
  obtain ⟨hv, hver4, hdirs, hfiles, hblen, hflen⟩ := hwf
  obtain ⟨hver2, _, hsz, hmin1, hmin2, hmax1, hmax2, hlb1, hlb2, hlr1, hlr2, hob1, hob2, hstd, hmaxv⟩ := hv
  unfold encodeHeaderV4 at henc
  simp only [bind_eq_ok] at henc
  obtain ⟨il, hil, henc⟩ := henc
  simp only [Out.pure_eq, Out.ok.injEq] at henc
  subst henc
  have hrt := (Ints.writeInitialLength_roundtrip hs.p.endian hs.p.format _ il
    (encodeBody hs ++ trailing) hblen hil).1
  unfold parseHeader
  rw [List.append_assoc, hrt]
  simp only [Out.bind_ok]
  rw [take_append_ok]
  simp only [Out.bind_ok]
  -- version
  have hbody : encodeBody hs = Ints.toBytes hs.p.endian 2 hs.p.version ++
      (wordBytes hs.p.endian hs.p.format (encodeFields hs).length ++ (encodeFields hs ++ hs.program)) := by
    simp [encodeBody]
  rw [hbody, Ints.readFixed_toBytes _ 2 _ _ (by omega)]
  simp only [Out.bind_ok]
  rw [if_neg (by omega), if_neg (by omega)]
  simp only [Out.pure_eq, Out.bind_ok]
  rw [readWord_encode _ _ _ _ hflen (by
    have : (encodeFields hs).length ≤ (encodeBody hs).length := by
      rw [hbody]; simp only [List.length_append]; omega
    omega)]
  simp only [Out.bind_ok]
  rw [take_append_ok]
  simp only [Out.bind_ok]
  have hstmt : ∀ b : Bool, ((if b then 1 else 0 : Nat) != 0) = b := by intro b; cases b <;> rfl
  have hstmtlt : ∀ b : Bool, (if b then 1 else 0 : Nat) < 256 := by intro b; cases b <;> decide
  have hlb : (hs.p.lineBase % 256).toNat < 256 := by omega
  have hdl : hs.dirs.length < (encodeDirs hs.dirs ++ encodeFiles hs.files).length + 1 := by
    have : ∀ ds : List Bytes, ds.length < (encodeDirs ds).length := by
      intro ds; induction ds with
      | nil => simp [encodeDirs]
      | cons d ds ih => simp only [encodeDirs, List.length_append, List.length_cons]; omega
    have := this hs.dirs
    simp only [List.length_append]; omega
  have hfl : hs.files.length < (encodeFiles hs.files).length + 1 := by
    have : ∀ fs : List (Bytes × Nat × Nat × Nat), fs.length < (encodeFiles fs).length := by
      intro fs; induction fs with
      | nil => simp [encodeFiles]
      | cons f fs ih =>
        obtain ⟨n, d, t, s⟩ := f
        simp only [encodeFiles, List.length_append, List.length_cons]; omega
    have := this hs.files
    omega
  have hfinal : ∀ maxOps', maxOps' = hs.p.maxOps →
      ({ endian := hs.p.endian, format := hs.p.format, version := hs.p.version, addrSize := hs.p.addrSize,
         minInstLen := hs.p.minInstLen, maxOps := maxOps',
         defaultIsStmt := (if hs.p.defaultIsStmt then 1 else 0 : Nat) != 0,
         lineBase := toI8 (hs.p.lineBase % 256).toNat, lineRange := hs.p.lineRange,
         opcodeBase := hs.p.opcodeBase, stdLens := hs.p.stdLens } : Params) = hs.p := by
    intro m hm
    rw [hm, hstmt, toI8_encode _ hlb1 hlb2]
  have hstdtake : ∀ tail, Ints.take (hs.p.opcodeBase - 1) (hs.p.stdLens ++ tail) = .ok (hs.p.stdLens, tail) := by
    intro tail; rw [← hstd]; exact take_append_ok _ _
  have hfilesmap : hs.files.map fileOf = hs.files.map fun (n, d, t, s) =>
      ({ path := .string n, dirIndex := d, timestamp := t, size := s,
         md5 := List.replicate 16 0, source := none } : FileEntry) := by
    apply List.map_congr_left; intro x _; rfl
  by_cases hv4 : hs.p.version ≥ 4
  · simp only [encodeFields, hv4, ↓reduceIte, List.append_assoc]
    rw [rf1 _ _ _ (by omega)]
    simp only [Out.bind_ok]
    rw [if_neg (by omega)]
    rw [rf1 _ _ _ (by omega)]
    simp only [Out.bind_ok]
    rw [if_neg (by omega)]
    rw [rf1 _ _ _ (hstmtlt _)]
    simp only [Out.bind_ok]
    rw [rf1 _ _ _ hlb]
    simp only [Out.bind_ok]
    rw [rf1 _ _ _ (by omega)]
    simp only [Out.bind_ok]
    rw [if_neg (by omega)]
    rw [rf1 _ _ _ (by omega)]
    simp only [Out.bind_ok]
    rw [if_neg (by omega)]
    rw [hstdtake]
    simp only [Out.bind_ok]
    rw [if_pos hver4]
    rw [parseDirsV4_encode hs.dirs hdirs _ _ hdl]
    simp only [Out.bind_ok]
    have := parseFilesV4_encode hs.files hfiles [] _ hfl
    simp only [List.append_nil] at this
    rw [this]
    simp only [Out.bind_ok, Out.pure_eq, HeaderV4.expected, hfinal _ rfl, hfilesmap, hbody, encodeFields,
      hv4, ↓reduceIte, List.append_assoc]
  · simp only [encodeFields, hv4, ↓reduceIte, List.append_assoc, List.nil_append]
    rw [rf1 _ _ _ (by omega)]
    simp only [Out.bind_ok]
    rw [if_neg (by omega)]
    rw [if_neg (by decide)]
    rw [rf1 _ _ _ (hstmtlt _)]
    simp only [Out.bind_ok]
    rw [rf1 _ _ _ hlb]
    simp only [Out.bind_ok]
    rw [rf1 _ _ _ (by omega)]
    simp only [Out.bind_ok]
    rw [if_neg (by omega)]
    rw [rf1 _ _ _ (by omega)]
    simp only [Out.bind_ok]
    rw [if_neg (by omega)]
    rw [hstdtake]
    simp only [Out.bind_ok]
    rw [if_pos hver4]
    rw [parseDirsV4_encode hs.dirs hdirs _ _ hdl]
    simp only [Out.bind_ok]
    have := parseFilesV4_encode hs.files hfiles [] _ hfl
    simp only [List.append_nil] at this
    rw [this]
    simp only [Out.bind_ok, Out.pure_eq, HeaderV4.expected, hfinal 1 (by have := hmaxv (by omega); omega),
      hfilesmap, hbody, encodeFields, hv4, ↓reduceIte, List.append_assoc, List.nil_append]

end Gimli.Line
