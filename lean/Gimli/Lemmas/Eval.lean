import Gimli.Lemmas.OpTotal
import Gimli.Model.Eval
/-!
# Helper lemmas for C07 about the evaluator loop (`Model/Eval.lean`)

branch targets (`computePc_spec`), the iteration counter (`evalInternal_bound`), totality of every
`Value` operation / `execute` / the loop body, and termination under an iteration limit
(`evalInternal_terminates`).
-/
open Gimli Gimli.Op Gimli.Eval

theorem computePc_spec (pc bc : Bytes) (off : Int) (hoff : -2 ^ 15 ≤ off ∧ off < 2 ^ 15)
    (hlen : bc.length < 2 ^ 63) (hpc : pc.length ≤ bc.length) :
    computePc pc bc off =
      (let t : Int := ((bc.length - pc.length : Nat) : Int) + off
       if 0 ≤ t ∧ t ≤ bc.length then .ok (bc.drop t.toNat) else .err .rBadBranchTarget) := by
  unfold computePc Value.pat
  simp only []
  split
  · next h => rw [if_neg (by omega)]
  · next h =>
    rw [if_pos (by omega)]
    congr 2
    omega

theorem bind_eq_ok {α β} {x : Out α} {f : α → Out β} {b : β} (h : (x >>= f) = .ok b) :
    ∃ a, x = .ok a ∧ f a = .ok b := by
  cases x with
  | ok a => exact ⟨a, rfl, h⟩
  | err e => cases h
  | panic w => cases h
  | diverge => cases h

theorem saturatingInc_lt (it m : Nat) (hm : m < 2 ^ 32) (hit : it < m) : saturatingInc it = it + 1 := by
  unfold saturatingInc
  rw [if_pos (by omega)]

theorem saturatingInc_le (it : Nat) : saturatingInc it ≤ it + 1 := by
  unfold saturatingInc; split <;> omega

theorem overLimit_false (m it : Nat) (h : overLimit (some m) it = false) : it < m := by
  simp [overLimit] at h; exact h

/-- the bound a continuation must satisfy / the loop satisfies (limit `m`) -/
def Bounded (m : Nat) (k : Eval → Out (Request × Eval)) : Prop :=
  ∀ (s : Eval) (r : Request) (s' : Eval), s.cfg.maxIterations = some m → s.iteration ≤ m →
    k s = .ok (r, s') →
    s'.cfg = s.cfg ∧ s.iteration ≤ s'.iteration ∧ s'.iteration ≤ m ∧
      s'.decodes + 2 * s.iteration ≤ s.decodes + 2 * s'.iteration

theorem afterOp_bound (m : Nat) (k) (hk : Bounded m k) (s : Eval) (res : OpResult) (mm : Mach)
    (r : Request) (s' : Eval) (hmax : s.cfg.maxIterations = some m) (hit : s.iteration ≤ m)
    (h : afterOp k s res mm = .ok (r, s')) :
    s'.cfg = s.cfg ∧ s.iteration ≤ s'.iteration ∧ s'.iteration ≤ m ∧
      s'.decodes + 2 * s.iteration ≤ s.decodes + 1 + 2 * s'.iteration := by
  cases res with
  | piece =>
    have := hk _ _ _ (by simpa using hmax) (by simpa using hit) h
    simp only [] at this
    refine ⟨this.1, ?_, ?_, ?_⟩ <;> omega
  | incomplete =>
    simp only [afterOp] at h
    split at h
    · cases h
    · have := hk _ _ _ (by simpa using hmax) (by simpa using hit) h
      simp only [] at this
      refine ⟨this.1, ?_, ?_, ?_⟩ <;> omega
  | complete loc =>
    obtain ⟨⟨m3, extra⟩, _, h⟩ := bind_eq_ok h
    have := hk _ _ _ (by simpa using hmax) (by simpa using hit) h
    simp only [] at this
    have hx : (if extra = true then 1 else 0) ≤ 1 := by split <;> omega
    refine ⟨this.1, ?_, ?_, ?_⟩ <;> omega
  | waiting w rq =>
    cases h
    refine ⟨rfl, ?_, ?_, ?_⟩ <;> simp only [] <;> omega

theorem loopBody_bound (m : Nat) (hm : m < 2 ^ 32) (k) (hk : Bounded m k) : Bounded m (loopBody k) := by
  intro s r s' hmax hit h
  unfold loopBody at h
  split at h
  · obtain ⟨m1, _, h2⟩ := bind_eq_ok h
    cases h2
    exact ⟨rfl, Nat.le_refl _, hit, Nat.le_refl _⟩
  · next mm heq =>
    split at h
    · cases h
    · next hol =>
      rw [hmax] at hol
      have hlt : s.iteration < m := overLimit_false m _ hol
      have hinc := saturatingInc_lt s.iteration m hm hlt
      obtain ⟨⟨res, m2⟩, _, h⟩ := bind_eq_ok h
      have := afterOp_bound m k hk _ res m2 r s' (by simpa using hmax) (by simp only [hinc]; omega) h
      simp only [hinc] at this
      refine ⟨this.1, ?_, ?_, ?_⟩ <;> omega

theorem evalInternal_bound (m : Nat) (hm : m < 2 ^ 32) (fuel : Nat) : Bounded m (evaluateInternal fuel) := by
  induction fuel with
  | zero => intro s r s' _ _ h; simp [evaluateInternal] at h
  | succ fuel ih => exact loopBody_bound m hm _ ih

macro "norm_tac" : tactic => `(tactic|
  repeat (first | trivial | assumption | (refine bind_normal _ _ ?_ ?_) | split | (intro _)))

namespace Gimli.Value
theorem toU64_normal (v : Value) (mask : Nat) : (v.toU64 mask).Normal := by unfold toU64; norm_tac
theorem fromU64_normal (t : ValueType) (n : Nat) : (fromU64 t n).Normal := by unfold fromU64; norm_tac
theorem fromF32_normal (t : ValueType) (f : Float32) : (fromF32 t f).Normal := by unfold fromF32; norm_tac
theorem fromF64_normal (t : ValueType) (f : Float) : (fromF64 t f).Normal := by unfold fromF64; norm_tac
theorem convert_normal (v : Value) (t : ValueType) (mask : Nat) : (v.convert t mask).Normal := by
  unfold convert
  split
  · exact fromF32_normal _ _
  · exact fromF64_normal _ _
  · exact bind_normal _ _ (toU64_normal _ _) (fun _ => fromU64_normal _ _)
theorem reinterpret_normal (v : Value) (t : ValueType) (mask : Nat) : (v.reinterpret t mask).Normal := by
  unfold reinterpret; norm_tac
theorem abs_normal (v : Value) (mask : Nat) : (v.abs mask).Normal := by unfold abs; norm_tac
theorem neg_normal (v : Value) (mask : Nat) : (v.neg mask).Normal := by unfold neg; norm_tac
theorem not_normal (v : Value) (mask : Nat) : (v.not mask).Normal := by
  unfold Value.not; exact bind_normal _ _ (toU64_normal _ _) (fun _ => fromU64_normal _ _)
theorem arith_normal (g f32 f64) (a b : Value) (mask : Nat) : (arith g f32 f64 a b mask).Normal := by
  unfold arith; norm_tac
theorem div_normal (a b : Value) (mask : Nat) : (a.div b mask).Normal := by unfold div; norm_tac
theorem rem_normal (a b : Value) (mask : Nat) : (a.rem b mask).Normal := by unfold rem; norm_tac
theorem bitwise_normal (f) (a b : Value) (mask : Nat) : (bitwise f a b mask).Normal := by
  unfold bitwise
  split
  · trivial
  · exact bind_normal _ _ (toU64_normal _ _) (fun _ => bind_normal _ _ (toU64_normal _ _) (fun _ => fromU64_normal _ _))
theorem shiftLength_normal (v : Value) (mask : Nat) : (v.shiftLength mask).Normal := by unfold shiftLength; norm_tac
theorem shl_normal (a b : Value) (mask : Nat) : (a.shl b mask).Normal := by
  unfold shl; refine bind_normal _ _ (shiftLength_normal _ _) (fun _ => ?_); norm_tac
theorem shr_normal (a b : Value) (mask : Nat) : (a.shr b mask).Normal := by
  unfold shr; refine bind_normal _ _ (shiftLength_normal _ _) (fun _ => ?_); norm_tac
theorem shra_normal (a b : Value) (mask : Nat) : (a.shra b mask).Normal := by
  unfold shra; refine bind_normal _ _ (shiftLength_normal _ _) (fun _ => ?_); norm_tac
theorem compare_normal (ri rf32 rf64) (a b : Value) (mask : Nat) : (compare ri rf32 rf64 a b mask).Normal := by
  unfold compare; norm_tac
theorem parse_normal (e : Endian) (t : ValueType) (bs : Bytes) : (Value.parse e t bs).Normal := by
  unfold Value.parse
  split
  · trivial
  · exact bind_normal _ _ (Gimli.Props.C01.fixed_total e _ bs) (fun ⟨_, _⟩ => trivial)
end Gimli.Value

namespace Gimli.Eval
open Gimli.Value

theorem pop_normal (m : Mach) : (pop m).Normal := by unfold pop; norm_tac
theorem push_normal (c : Config) (v : Value) (m : Mach) : (push c v m).Normal := by unfold push; norm_tac
theorem pushPiece_normal (c : Config) (p : Piece) (m : Mach) : (pushPiece c p m).Normal := by
  unfold pushPiece; norm_tac
theorem computePc_normal (pc bc : Bytes) (off : Int) : (computePc pc bc off).Normal := by
  unfold computePc; simp only []; norm_tac

theorem binop_normal (c : Config) (f : Value → Value → Nat → Out Value) (hf : ∀ a b k, (f a b k).Normal)
    (m : Mach) : (binop c f m).Normal := by
  unfold binop
  refine bind_normal _ _ (pop_normal _) (fun ⟨_, _⟩ => ?_)
  refine bind_normal _ _ (pop_normal _) (fun ⟨_, _⟩ => ?_)
  refine bind_normal _ _ (hf _ _ _) (fun _ => ?_)
  exact bind_normal _ _ (push_normal _ _ _) (fun _ => trivial)

theorem unop_normal (c : Config) (f : Value → Nat → Out Value) (hf : ∀ a k, (f a k).Normal)
    (m : Mach) : (unop c f m).Normal := by
  unfold unop
  refine bind_normal _ _ (pop_normal _) (fun ⟨_, _⟩ => ?_)
  refine bind_normal _ _ (hf _ _) (fun _ => ?_)
  exact bind_normal _ _ (push_normal _ _ _) (fun _ => trivial)

macro "ev_norm" : tactic => `(tactic|
  repeat (first
    | trivial
    | exact pop_normal _
    | exact push_normal _ _ _
    | exact pushPiece_normal _ _ _
    | exact computePc_normal _ _ _
    | exact toU64_normal _ _
    | exact fromU64_normal _ _
    | exact arith_normal _ _ _ _ _ _
    | (refine bind_normal _ _ ?_ ?_)
    | split
    | (intro p; try obtain ⟨_, _⟩ := p)))

theorem execute_normal (c : Config) (op : Operation) (m : Mach) : (execute c op m).Normal := by
  cases op <;> simp only [execute]
  case abs => exact unop_normal _ _ abs_normal _
  case neg => exact unop_normal _ _ neg_normal _
  case not => exact unop_normal _ _ not_normal _
  case and => exact binop_normal _ _ (bitwise_normal _) _
  case or => exact binop_normal _ _ (bitwise_normal _) _
  case xor => exact binop_normal _ _ (bitwise_normal _) _
  case div => exact binop_normal _ _ div_normal _
  case mod => exact binop_normal _ _ rem_normal _
  case minus => exact binop_normal _ _ (arith_normal _ _ _) _
  case mul => exact binop_normal _ _ (arith_normal _ _ _) _
  case plus => exact binop_normal _ _ (arith_normal _ _ _) _
  case shl => exact binop_normal _ _ shl_normal _
  case shr => exact binop_normal _ _ shr_normal _
  case shra => exact binop_normal _ _ shra_normal _
  case eq => exact binop_normal _ _ (compare_normal _ _ _) _
  case ge => exact binop_normal _ _ (compare_normal _ _ _) _
  case gt => exact binop_normal _ _ (compare_normal _ _ _) _
  case le => exact binop_normal _ _ (compare_normal _ _ _) _
  case lt => exact binop_normal _ _ (compare_normal _ _ _) _
  case ne => exact binop_normal _ _ (compare_normal _ _ _) _
  all_goals ev_norm

theorem evaluateOneOperation_normal (c : Config) (m : Mach) : (evaluateOneOperation c m).Normal := by
  unfold evaluateOneOperation
  exact bind_normal _ _ (_root_.parse_normal _ _ _) (fun ⟨_, _⟩ => execute_normal _ _ _)

theorem finish_normal (c : Config) (m : Mach) : (finish c m).Normal := by
  unfold finish; ev_norm

theorem afterComplete_normal (c : Config) (l : Location) (m : Mach) : (afterComplete c l m).Normal := by
  unfold afterComplete
  split
  · ev_norm
  · refine bind_normal _ _ (_root_.parse_normal _ _ _) (fun ⟨op, _⟩ => ?_)
    cases op <;> ev_norm

/-- with a limit `m` (a `u32`) and `m + 2` fuel counted from the current iteration,
`evaluate_internal` returns: no panic, no fuel exhaustion -/
theorem evalInternal_terminates (m : Nat) (hm : m < 2 ^ 32) :
    ∀ (fuel : Nat) (s : Eval), s.cfg.maxIterations = some m → s.iteration ≤ m →
      m + 2 ≤ fuel + s.iteration → (evaluateInternal fuel s).Normal := by
  intro fuel
  induction fuel with
  | zero => intro s _ h1 h2; omega
  | succ fuel ih =>
    intro s hmax hit hf
    rw [evaluateInternal]
    unfold loopBody
    split
    · exact bind_normal _ _ (finish_normal _ _) (fun _ => trivial)
    · next mm heq =>
      split
      · trivial
      · next hol =>
        rw [hmax] at hol
        have hlt : s.iteration < m := overLimit_false m _ hol
        have hinc := saturatingInc_lt s.iteration m hm hlt
        refine bind_normal _ _ (evaluateOneOperation_normal _ _) (fun ⟨res, m2⟩ => ?_)
        cases res with
        | piece => exact ih _ (by simpa using hmax) (by simp only [hinc]; omega) (by simp only [hinc]; omega)
        | incomplete =>
          simp only [afterOp]
          split
          · trivial
          · exact ih _ (by simpa using hmax) (by simp only [hinc]; omega) (by simp only [hinc]; omega)
        | complete loc =>
          refine bind_normal _ _ (afterComplete_normal _ _ _) (fun ⟨m3, extra⟩ => ?_)
          exact ih _ (by simpa using hmax) (by simp only [hinc]; omega) (by simp only [hinc]; omega)
        | waiting w rq => trivial

end Gimli.Eval
