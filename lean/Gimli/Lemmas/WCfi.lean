import Gimli.Spec.WCfi
import Gimli.Lemmas.Leb
import Gimli.Lemmas.Ints
import Gimli.Lemmas.Cfi
/-!
Helper lemmas for C14 (written frame tables): exactness of the two factoring functions, the
decoder (`Cfi.parse`, C06's Model) inverts every opcode form the writer chooses, and each supplied
instruction means the same as its decoded image (`Spec.Unwind.step` vs `Spec.WCfi.wStep`).
-/
open Gimli Gimli.WCfi Gimli.Cfi Gimli.Unwind Gimli.Spec.Unwind Gimli.Spec.WCfi

namespace Gimli.WCfi

/-! ## factoring -/

theorem code_ok_iff (prev off factor : Nat) (q : Nat) :
    factoredCodeDelta prev off factor = .ok q ↔ (prev ≤ off ∧ factor ≠ 0 ∧ off - prev = q * factor) := by
  unfold factoredCodeDelta
  by_cases h1 : off < prev
  · simp [h1]; omega
  · by_cases h2 : factor = 0
    · simp [h1, h2]
    · have hpos := Nat.pos_of_ne_zero h2
      by_cases h3 : off - prev = (off - prev) / factor * factor
      · simp only [h1, h2, if_false, ne_eq]
        rw [if_neg (by simpa using h3)]
        constructor
        · intro h
          have : (off - prev) / factor = q := by injection h
          subst this
          exact ⟨by omega, by simp, h3⟩
        · rintro ⟨_, _, h⟩
          rw [h, Nat.mul_div_cancel _ hpos]
      · simp only [h1, h2, if_false, ne_eq]
        rw [if_pos (by simpa using h3)]
        constructor
        · intro h; cases h
        · rintro ⟨_, _, h⟩
          exfalso; apply h3
          rw [h, Nat.mul_div_cancel _ hpos]

theorem code_err_iff (prev off factor : Nat) :
    factoredCodeDelta prev off factor = .err .wInvalidFrameCodeOffset ↔
      (off < prev ∨ factor = 0 ∨ (off - prev) % factor ≠ 0) := by
  unfold factoredCodeDelta
  by_cases h1 : off < prev
  · simp [h1]
  · by_cases h2 : factor = 0
    · simp [h1, h2]
    · simp only [h1, h2, if_false, ne_eq, false_or]
      have hd := Nat.div_add_mod (off - prev) factor
      have hc : (off - prev) / factor * factor = factor * ((off - prev) / factor) := Nat.mul_comm _ _
      by_cases h3 : (off - prev) % factor = 0
      · rw [if_neg (by omega)]; simp [h3]
      · rw [if_pos (by omega)]; simp [h3]

theorem data_ok_iff (offset factor q : Int) :
    factoredDataOffset offset factor = .ok q ↔
      (factor ≠ 0 ∧ ¬(offset = -(2 ^ 31) ∧ factor = -1) ∧ offset = q * factor) := by
  unfold factoredDataOffset
  by_cases h0 : factor = 0 ∨ (offset = -(2 ^ 31) ∧ factor = -1)
  · rw [if_pos h0]
    constructor
    · intro h; cases h
    · rintro ⟨h1, h2, _⟩
      rcases h0 with h0 | h0
      · exact absurd h0 h1
      · exact absurd h0 h2
  · rw [if_neg h0]
    have hf : factor ≠ 0 := fun h => h0 (Or.inl h)
    have hm : ¬(offset = -(2 ^ 31) ∧ factor = -1) := fun h => h0 (Or.inr h)
    by_cases h3 : offset = Int.tdiv offset factor * factor
    · simp only [ne_eq]
      rw [if_neg (by simpa using h3)]
      constructor
      · intro h
        have : Int.tdiv offset factor = q := by injection h
        subst this
        exact ⟨hf, hm, h3⟩
      · rintro ⟨_, _, h⟩
        rw [h, Int.mul_tdiv_cancel _ hf]
    · simp only [ne_eq]
      rw [if_pos (by simpa using h3)]
      constructor
      · intro h; cases h
      · rintro ⟨_, _, h⟩
        exfalso; apply h3
        rw [h, Int.mul_tdiv_cancel _ hf]

theorem data_err_iff (offset factor : Int) :
    factoredDataOffset offset factor = .err .wInvalidFrameDataOffset ↔
      (factor = 0 ∨ (offset = -(2 ^ 31) ∧ factor = -1) ∨ ¬ factor ∣ offset) := by
  unfold factoredDataOffset
  by_cases h0 : factor = 0 ∨ (offset = -(2 ^ 31) ∧ factor = -1)
  · rw [if_pos h0]
    simp only [true_iff]
    rcases h0 with h | h
    · exact Or.inl h
    · exact Or.inr (Or.inl h)
  · rw [if_neg h0]
    have hf : factor ≠ 0 := fun h => h0 (Or.inl h)
    have hm : ¬(offset = -(2 ^ 31) ∧ factor = -1) := fun h => h0 (Or.inr h)
    by_cases hd : factor ∣ offset
    · simp only [ne_eq]
      rw [if_neg (by rw [Int.tdiv_mul_cancel hd]; simp)]
      constructor
      · intro h; cases h
      · rintro (h | h | h)
        · exact absurd h hf
        · exact absurd h hm
        · exact absurd hd h
    · simp only [ne_eq]
      rw [if_pos]
      · simp only [true_iff]; exact Or.inr (Or.inr hd)
      · intro h
        exact hd ⟨Int.tdiv offset factor, by rw [Int.mul_comm]; exact h⟩

/-- a factored `i32` offset is an `i32`-sized number (its absolute value does not grow) -/
theorem factored_range {offset factor q : Int} (h : factoredDataOffset offset factor = .ok q)
    (ho : isI32 offset) : -(2 ^ 31 : Int) ≤ q ∧ q ≤ 2 ^ 31 := by
  unfold factoredDataOffset at h
  split at h
  · cases h
  · simp only [ne_eq] at h
    split at h
    · cases h
    · have : Int.tdiv offset factor = q := by injection h
      subst this
      have := Int.natAbs_tdiv_le_natAbs offset factor
      unfold isI32 at ho
      omega


/-! ## decoding what was written -/

theorem readReg_regU (r : Reg) (rest : Bytes) : readReg (regU r ++ rest) = .ok (r, rest) := by
  unfold readReg regU
  have hr : r.toNat < 2 ^ 16 := r.toNat_lt
  rw [Leb.unsigned_roundtrip r.toNat (by omega) rest]
  simp only [Out.bind_ok]
  rw [if_pos hr]
  simp

theorem readExpr_exprW (ex rest : Bytes) (h : ex.length < 2 ^ 64) :
    readExpr (exprW ex ++ rest) = .ok (ex, rest) := by
  unfold readExpr exprW
  rw [List.append_assoc, Leb.unsigned_roundtrip ex.length h]
  simp
theorem parse_fixed (c : DecodeCfg) (pos : Nat) (op : UInt8) (n delta : Nat) (rest : Bytes)
    (hop : (op = 2 ∧ n = 1) ∨ (op = 3 ∧ n = 2) ∨ (op = 4 ∧ n = 4)) (hd : delta < 256 ^ n) :
    parse c pos (op :: (Ints.toBytes c.endian n delta ++ rest)) = .ok (.advanceLoc delta, rest) := by
  rw [parse]
  rcases hop with ⟨rfl, rfl⟩ | ⟨rfl, rfl⟩ | ⟨rfl, rfl⟩
  · simp only [show (2 : UInt8).toNat = 2 from rfl]
    rw [if_neg (by decide), if_neg (by decide), if_neg (by decide)]
    show (do let (d, rest) ← Ints.readFixed c.endian 1 _; pure (Instr.advanceLoc d, rest)) = _
    rw [Ints.readFixed_toBytes c.endian 1 delta rest hd]
    rfl
  · simp only [show (3 : UInt8).toNat = 3 from rfl]
    rw [if_neg (by decide), if_neg (by decide), if_neg (by decide)]
    show (do let (d, rest) ← Ints.readFixed c.endian 2 _; pure (Instr.advanceLoc d, rest)) = _
    rw [Ints.readFixed_toBytes c.endian 2 delta rest hd]
    rfl
  · simp only [show (4 : UInt8).toNat = 4 from rfl]
    rw [if_neg (by decide), if_neg (by decide), if_neg (by decide)]
    show (do let (d, rest) ← Ints.readFixed c.endian 4 _; pure (Instr.advanceLoc d, rest)) = _
    rw [Ints.readFixed_toBytes c.endian 4 delta rest hd]
    rfl

theorem parse_adv (c : DecodeCfg) (pos delta : Nat) (rest : Bytes) (h : delta < 2 ^ 32) :
    parse c pos (advanceLocBytes c.endian delta ++ rest) = .ok (.advanceLoc delta, rest) := by
  unfold advanceLocBytes
  by_cases h1 : delta < 0x40
  · rw [if_pos h1]
    have hb : (UInt8.ofNat (0x40 + delta)).toNat = 0x40 + delta := by
      simp; omega
    generalize UInt8.ofNat (0x40 + delta) = b at hb
    simp only [List.cons_append, List.nil_append]
    rw [parse]
    simp only [hb]
    rw [if_pos (by omega : (64 + delta) / 64 = 1)]
    have : (64 + delta) % 64 = delta := by omega
    rw [this]
  · rw [if_neg h1]
    by_cases h2 : delta < 0x100
    · rw [if_pos h2, List.cons_append]
      exact parse_fixed c pos 2 1 delta rest (Or.inl ⟨rfl, rfl⟩) (by omega)
    · rw [if_neg h2]
      by_cases h3 : delta < 0x10000
      · rw [if_pos h3, List.cons_append]
        exact parse_fixed c pos 3 2 delta rest (Or.inr (Or.inl ⟨rfl, rfl⟩)) (by omega)
      · rw [if_neg h3, List.cons_append]
        exact parse_fixed c pos 4 4 delta rest (Or.inr (Or.inr ⟨rfl, rfl⟩)) (by omega)


theorem wrapI64_id (x : Int) (h : -(2 ^ 63 : Int) ≤ x ∧ x < 2 ^ 63) : wrapI64 x = x := by
  unfold wrapI64; omega

theorem bind_ok_inv {α β : Type} {x : Out α} {f : α → Out β} {b : β} (h : (x >>= f) = .ok b) :
    ∃ a, x = .ok a ∧ f a = .ok b := by
  cases x with
  | ok a => exact ⟨a, rfl, h⟩
  | err e => cases h
  | panic w => cases h
  | diverge => cases h

/-- opcode byte with an embedded register (`DW_CFA_offset | r`, `DW_CFA_restore | r`) -/
theorem hi_byte (base r : Nat) (hr : r < 64) (hb : base = 0x80 ∨ base = 0xc0) :
    (UInt8.ofNat (base + r)).toNat = base + r := by
  rcases hb with rfl | rfl <;> simp <;> omega

macro "parse_lit" n:num : tactic => `(tactic| (
  simp only [List.cons_append, List.nil_append, List.append_assoc]
  rw [parse]
  simp only [show ($n : UInt8).toNat = $n from rfl]
  rw [if_neg (by decide), if_neg (by decide), if_neg (by decide)]))

theorem instr_roundtrip_main (c : DecodeCfg) (p : Params)
    (wi : WInstr) (hv : wi = .negateRaState → c.vendor = .aarch64) (hr : wi.InRange) (bs : Bytes)
    (h : instrWrite p.dataAlign wi = .ok bs) :
    ∃ i, (∀ (pos : Nat) (rest : Bytes), parse c pos (bs ++ rest) = .ok (i, rest)) ∧
      ∀ s : State, step p s i = wStep s wi := by
  cases wi with
  | cfa r off =>
    simp only [WInstr.InRange, isI32] at hr
    rw [instrWrite] at h
    by_cases hneg : off < 0
    · rw [if_pos hneg] at h
      obtain ⟨f, hf, hb⟩ := bind_ok_inv h
      have hrange := factored_range hf (by unfold isI32; exact hr)
      obtain ⟨_, _, hmul⟩ := (data_ok_iff _ _ _).mp hf
      cases hb
      refine ⟨.defCfaSf r f, ?_, ?_⟩
      · intro pos rest
        parse_lit 0x12
        simp only [readReg_regU, Out.bind_ok, Leb.signed_roundtrip f (by omega) (by omega), Out.pure_eq]
      · intro s
        simp only [step, wStep, factored]
        rw [← hmul, wrapI64_id off (by omega)]
    · rw [if_neg hneg] at h
      cases h
      refine ⟨.defCfa r off.toNat, ?_, ?_⟩
      · intro pos rest
        parse_lit 0x0c
        simp only [readReg_regU, Out.bind_ok, Leb.unsigned_roundtrip off.toNat (by omega), Out.pure_eq]
      · intro s
        have hto : ((off.toNat : Nat) : Int) = off := Int.toNat_of_nonneg (by omega)
        simp only [step, wStep, hto]
        rw [wrapI64_id off (by omega)]
  | cfaRegister r =>
    rw [instrWrite] at h; cases h
    refine ⟨.defCfaRegister r, ?_, ?_⟩
    · intro pos rest
      parse_lit 0x0d
      simp only [readReg_regU, Out.bind_ok, Out.pure_eq]
    · intro s
      simp only [step, wStep]
      cases s.cur.cfa <;> rfl
  | cfaOffset off =>
    simp only [WInstr.InRange, isI32] at hr
    rw [instrWrite] at h
    by_cases hneg : off < 0
    · rw [if_pos hneg] at h
      obtain ⟨f, hf, hb⟩ := bind_ok_inv h
      have hrange := factored_range hf (by unfold isI32; exact hr)
      obtain ⟨_, _, hmul⟩ := (data_ok_iff _ _ _).mp hf
      cases hb
      refine ⟨.defCfaOffsetSf f, ?_, ?_⟩
      · intro pos rest
        parse_lit 0x13
        simp only [Out.bind_ok, Leb.signed_roundtrip f (by omega) (by omega), Out.pure_eq]
      · intro s
        simp only [step, wStep, factored]
        rw [← hmul, wrapI64_id off (by omega)]
        cases s.cur.cfa <;> rfl
    · rw [if_neg hneg] at h
      cases h
      refine ⟨.defCfaOffset off.toNat, ?_, ?_⟩
      · intro pos rest
        parse_lit 0x0e
        simp only [Out.bind_ok, Leb.unsigned_roundtrip off.toNat (by omega), Out.pure_eq]
      · intro s
        have hto : ((off.toNat : Nat) : Int) = off := Int.toNat_of_nonneg (by omega)
        simp only [step, wStep, hto]
        rw [wrapI64_id off (by omega)]
        cases s.cur.cfa <;> rfl
  | cfaExpression ex =>
    simp only [WInstr.InRange] at hr
    rw [instrWrite] at h; cases h
    refine ⟨.defCfaExpression ex, ?_, ?_⟩
    · intro pos rest
      parse_lit 0x0f
      simp only [readExpr_exprW ex rest hr, Out.bind_ok, Out.pure_eq]
    · intro s
      simp only [step, wStep]
  | restore r =>
    rw [instrWrite] at h
    by_cases hlow : r.toNat < 0x40
    · rw [if_pos hlow] at h; cases h
      refine ⟨.restore r, ?_, ?_⟩
      · intro pos rest
        have hb := hi_byte 0xc0 r.toNat hlow (Or.inr rfl)
        generalize UInt8.ofNat (0xc0 + r.toNat) = b at hb
        simp only [List.cons_append, List.nil_append]
        rw [parse]
        simp only [hb]
        rw [if_neg (by omega), if_neg (by omega), if_pos (by omega)]
        have : UInt16.ofNat ((192 + r.toNat) % 64) = r := by
          have : (192 + r.toNat) % 64 = r.toNat := by omega
          rw [this]; simp
        rw [this]
      · intro s
        simp only [step, wStep]
        cases s.init <;> rfl
    · rw [if_neg hlow] at h; cases h
      refine ⟨.restore r, ?_, ?_⟩
      · intro pos rest
        parse_lit 0x06
        simp only [readReg_regU, Out.bind_ok, Out.pure_eq]
      · intro s
        simp only [step, wStep]
        cases s.init <;> rfl
  | undefined r =>
    rw [instrWrite] at h; cases h
    refine ⟨.undefined r, ?_, ?_⟩
    · intro pos rest
      parse_lit 0x07
      simp only [readReg_regU, Out.bind_ok, Out.pure_eq]
    · intro s
      simp only [step, wStep]
  | sameValue r =>
    rw [instrWrite] at h; cases h
    refine ⟨.sameValue r, ?_, ?_⟩
    · intro pos rest
      parse_lit 0x08
      simp only [readReg_regU, Out.bind_ok, Out.pure_eq]
    · intro s
      simp only [step, wStep]
  | offset r off =>
    simp only [WInstr.InRange, isI32] at hr
    rw [instrWrite] at h
    obtain ⟨f, hf, hb⟩ := bind_ok_inv h
    have hrange := factored_range hf (by unfold isI32; exact hr)
    obtain ⟨_, _, hmul⟩ := (data_ok_iff _ _ _).mp hf
    by_cases hneg : f < 0
    · simp only [if_pos hneg] at hb
      cases hb
      refine ⟨.offsetExtendedSf r f, ?_, ?_⟩
      · intro pos rest
        parse_lit 0x11
        simp only [readReg_regU, Out.bind_ok, Leb.signed_roundtrip f (by omega) (by omega), Out.pure_eq]
      · intro s
        simp only [step, wStep, factored]
        rw [← hmul, wrapI64_id off (by omega)]
    · simp only [if_neg hneg] at hb
      have hto : ((f.toNat : Nat) : Int) = f := Int.toNat_of_nonneg (by omega)
      by_cases hlow : r.toNat < 0x40
      · simp only [if_pos hlow] at hb
        cases hb
        refine ⟨.offset r f.toNat, ?_, ?_⟩
        · intro pos rest
          have hb := hi_byte 0x80 r.toNat hlow (Or.inl rfl)
          generalize UInt8.ofNat (0x80 + r.toNat) = b at hb
          simp only [List.cons_append, List.nil_append]
          rw [parse]
          simp only [hb]
          rw [if_neg (by omega), if_pos (by omega)]
          have : UInt16.ofNat ((128 + r.toNat) % 64) = r := by
            have : (128 + r.toNat) % 64 = r.toNat := by omega
            rw [this]; simp
          rw [this]
          simp only [Out.bind_ok, Leb.unsigned_roundtrip f.toNat (by omega), Out.pure_eq]
        · intro s
          simp only [step, wStep, factored, hto]
          rw [← hmul, wrapI64_id off (by omega)]
      · simp only [if_neg hlow] at hb
        cases hb
        refine ⟨.offset r f.toNat, ?_, ?_⟩
        · intro pos rest
          parse_lit 0x05
          simp only [readReg_regU, Out.bind_ok, Leb.unsigned_roundtrip f.toNat (by omega), Out.pure_eq]
        · intro s
          simp only [step, wStep, factored, hto]
          rw [← hmul, wrapI64_id off (by omega)]
  | valOffset r off =>
    simp only [WInstr.InRange, isI32] at hr
    rw [instrWrite] at h
    obtain ⟨f, hf, hb⟩ := bind_ok_inv h
    have hrange := factored_range hf (by unfold isI32; exact hr)
    obtain ⟨_, _, hmul⟩ := (data_ok_iff _ _ _).mp hf
    by_cases hneg : f < 0
    · simp only [if_pos hneg] at hb
      cases hb
      refine ⟨.valOffsetSf r f, ?_, ?_⟩
      · intro pos rest
        parse_lit 0x15
        simp only [readReg_regU, Out.bind_ok, Leb.signed_roundtrip f (by omega) (by omega), Out.pure_eq]
      · intro s
        simp only [step, wStep, factored]
        rw [← hmul, wrapI64_id off (by omega)]
    · simp only [if_neg hneg] at hb
      have hto : ((f.toNat : Nat) : Int) = f := Int.toNat_of_nonneg (by omega)
      cases hb
      refine ⟨.valOffset r f.toNat, ?_, ?_⟩
      · intro pos rest
        parse_lit 0x14
        simp only [readReg_regU, Out.bind_ok, Leb.unsigned_roundtrip f.toNat (by omega), Out.pure_eq]
      · intro s
        simp only [step, wStep, factored, hto]
        rw [← hmul, wrapI64_id off (by omega)]
  | register r1 r2 =>
    rw [instrWrite] at h; cases h
    refine ⟨.register r1 r2, ?_, ?_⟩
    · intro pos rest
      parse_lit 0x09
      simp only [readReg_regU, Out.bind_ok, Out.pure_eq]
    · intro s
      simp only [step, wStep]
  | expression r ex =>
    simp only [WInstr.InRange] at hr
    rw [instrWrite] at h; cases h
    refine ⟨.expression r ex, ?_, ?_⟩
    · intro pos rest
      parse_lit 0x10
      simp only [readReg_regU, readExpr_exprW ex rest hr, Out.bind_ok, Out.pure_eq]
    · intro s
      simp only [step, wStep]
  | valExpression r ex =>
    simp only [WInstr.InRange] at hr
    rw [instrWrite] at h; cases h
    refine ⟨.valExpression r ex, ?_, ?_⟩
    · intro pos rest
      parse_lit 0x16
      simp only [readReg_regU, readExpr_exprW ex rest hr, Out.bind_ok, Out.pure_eq]
    · intro s
      simp only [step, wStep]
  | rememberState =>
    rw [instrWrite] at h; cases h
    refine ⟨.rememberState, ?_, ?_⟩
    · intro pos rest
      parse_lit 0x0a
    · intro s
      simp only [step, wStep]
  | restoreState =>
    rw [instrWrite] at h; cases h
    refine ⟨.restoreState, ?_, ?_⟩
    · intro pos rest
      parse_lit 0x0b
    · intro s
      simp only [step, wStep]
      cases s.stack <;> rfl
  | argsSize n =>
    simp only [WInstr.InRange] at hr
    rw [instrWrite] at h; cases h
    refine ⟨.argsSize n, ?_, ?_⟩
    · intro pos rest
      parse_lit 0x2e
      simp only [Out.bind_ok, Leb.unsigned_roundtrip n (by omega), Out.pure_eq]
    · intro s
      simp only [step, wStep]
  | negateRaState =>
    rw [instrWrite] at h; cases h
    refine ⟨.negateRaState, ?_, ?_⟩
    · intro pos rest
      parse_lit 0x2d
      simp only [hv rfl, if_true]
    · intro s
      simp only [step, wStep]
      cases s.cur.regs Spec.Unwind.raSignState with
      | none => rfl
      | some v => cases v <;> rfl



/-! ## whole programs -/

/-- `bs` is a concatenation of chunks, each of which the decoder reads as one instruction wherever
it stands and whatever follows -/
inductive DecodesTo (c : DecodeCfg) : Bytes → List Instr → Prop
  | nil : DecodesTo c [] []
  | cons (chunk : Bytes) (i : Instr) (bs : Bytes) (is : List Instr) :
      (∀ (pos : Nat) (rest : Bytes), parse c pos (chunk ++ rest) = .ok (i, rest)) →
      DecodesTo c bs is → DecodesTo c (chunk ++ bs) (i :: is)

theorem DecodesTo.append {c : DecodeCfg} {a b : Bytes} {la lb : List Instr}
    (ha : DecodesTo c a la) (hb : DecodesTo c b lb) : DecodesTo c (a ++ b) (la ++ lb) := by
  induction ha with
  | nil => simpa using hb
  | cons chunk i bs is hp _ ih =>
    rw [List.append_assoc, List.cons_append]
    exact DecodesTo.cons chunk i _ _ hp ih

theorem DecodesTo.single {c : DecodeCfg} {chunk : Bytes} {i : Instr}
    (hp : ∀ (pos : Nat) (rest : Bytes), parse c pos (chunk ++ rest) = .ok (i, rest)) :
    DecodesTo c chunk [i] := by
  have := DecodesTo.cons chunk i [] [] hp DecodesTo.nil
  simpa using this

theorem DecodesTo.nops (c : DecodeCfg) (n : Nat) :
    DecodesTo c (List.replicate n 0) (List.replicate n .nop) := by
  induction n with
  | zero => exact DecodesTo.nil
  | succ n ih =>
    rw [List.replicate_succ, List.replicate_succ]
    have : (0 : UInt8) :: List.replicate n 0 = [0] ++ List.replicate n 0 := rfl
    rw [this]
    refine DecodesTo.cons [0] .nop _ _ ?_ ih
    intro pos rest
    simp only [List.cons_append, List.nil_append]
    rw [parse]
    simp only [show (0 : UInt8).toNat = 0 from rfl]
    rw [if_neg (by decide), if_neg (by decide), if_neg (by decide)]

/-- the instruction iterator on such a concatenation yields exactly the instructions and ends
with `Ok(None)` -/
theorem DecodesTo.decodeFuel {c : DecodeCfg} {bs : Bytes} {is : List Instr} (h : DecodesTo c bs is) :
    ∀ (base total fuel : Nat), bs.length ≤ fuel → decodeFuel c base total fuel bs = (is, .ok ()) := by
  induction h with
  | nil => intro base total fuel _; cases fuel <;> rfl
  | cons chunk i bs is hp _ ih =>
    intro base total fuel hfuel
    have hp0 := hp (base + (total - (chunk ++ bs).length)) bs
    have hlt := parse_lt hp0
    cases hcb : chunk ++ bs with
    | nil => rw [hcb] at hlt; simp at hlt
    | cons b tl =>
      rw [hcb] at hp0 hlt hfuel
      cases fuel with
      | zero => simp at hfuel
      | succ fuel =>
        rw [Cfi.decodeFuel, hp0]
        simp only
        rw [ih base total fuel (by simp only [List.length_cons] at hlt hfuel; omega)]

theorem DecodesTo.decodeAll {c : DecodeCfg} {bs : Bytes} {is : List Instr} (h : DecodesTo c bs is)
    (base : Nat) : decodeAll c base bs = (is, .ok ()) :=
  h.decodeFuel base bs.length bs.length (Nat.le_refl _)




theorem stepB_none (p : Params) (s : State) (i : Instr) : stepB p none none s i = step p s i := by
  unfold stepB
  cases step p s i with
  | error e => rfl
  | ok q => obtain ⟨s', row⟩ := q; simp [exceeds]

theorem wStep_row (s : State) (wi : WInstr) (s' : State) (row : Option TableRow)
    (h : wStep s wi = .ok (s', row)) : row = none ∧ s'.loc = s.loc := by
  cases wi <;> simp only [wStep] at h
  all_goals first
    | (cases h; exact ⟨rfl, rfl⟩)
    | (split at h
       all_goals first
         | (cases h; done)
         | (cases h; exact ⟨rfl, rfl⟩))

theorem exec_nops (p : Params) (endAddr : Nat) (n : Nat) (s : State) :
    exec p none none endAddr s (List.replicate n .nop) none = exec p none none endAddr s [] none := by
  induction n with
  | zero => rfl
  | succ n ih =>
    rw [List.replicate_succ]
    conv => lhs; rw [exec, stepB_none]
    simp only [step]
    exact ih

theorem program_roundtrip_main (c : DecodeCfg) (p : Params) :
    ∀ (is : List (Nat × WInstr)) (prev : Nat) (bs : Bytes), prev < 2 ^ 32 →
      ProgInRange is → ProgVendorOk c is →
      fdeInstrsWrite c.endian p.codeAlign p.dataAlign prev is = .ok bs →
      ∃ L, DecodesTo c bs L ∧
        ∀ (s : State) (endAddr n : Nat),
          exec p none none endAddr s (L ++ List.replicate n .nop) none = wExec p endAddr s prev is := by
  intro is
  induction is with
  | nil =>
    intro prev bs _ _ _ h
    rw [fdeInstrsWrite] at h
    cases h
    refine ⟨[], DecodesTo.nil, ?_⟩
    intro s endAddr n
    rw [List.nil_append, exec_nops]
    rfl
  | cons oi is ih =>
    obtain ⟨o, wi⟩ := oi
    intro prev bs hprev hrange hvend h
    obtain ⟨ho, hwi, hrest⟩ := hrange
    obtain ⟨hv, hvrest⟩ := hvend
    rw [fdeInstrsWrite] at h
    obtain ⟨adv, hadv, h⟩ := bind_ok_inv h
    obtain ⟨a, ha, h⟩ := bind_ok_inv h
    obtain ⟨b, hb, h⟩ := bind_ok_inv h
    cases h
    obtain ⟨L', hL', hexec'⟩ := ih o b ho hrest hvrest hb
    obtain ⟨i, hparse, hstep⟩ := instr_roundtrip_main c p wi hv hwi a ha
    unfold writeAdvanceLoc at hadv
    by_cases heq : o = prev
    · rw [if_pos heq] at hadv
      cases hadv
      refine ⟨i :: L', ?_, ?_⟩
      · have := DecodesTo.cons a i b L' hparse hL'
        simpa using this
      · intro s endAddr n
        rw [List.cons_append, exec, stepB_none, hstep s, wExec, if_pos heq]
        cases hw : wStep s wi with
        | error e => rfl
        | ok q =>
          obtain ⟨s', row⟩ := q
          obtain ⟨hrow, _⟩ := wStep_row s wi s' row hw
          subst hrow
          simp only
          exact hexec' s' endAddr n
    · rw [if_neg heq] at hadv
      obtain ⟨d, hd, hadv⟩ := bind_ok_inv hadv
      cases hadv
      obtain ⟨hle, hf, hmul⟩ := (code_ok_iff _ _ _ _).mp hd
      have hdlt : d < 2 ^ 32 := by
        have : d ≤ d * p.codeAlign := Nat.le_mul_of_pos_right d (Nat.pos_of_ne_zero hf)
        omega
      refine ⟨.advanceLoc d :: i :: L', ?_, ?_⟩
      · have h1 : DecodesTo c (advanceLocBytes c.endian d) [.advanceLoc d] :=
          DecodesTo.single (fun pos rest => parse_adv c pos d rest hdlt)
        have h2 := DecodesTo.cons a i b L' hparse hL'
        have := h1.append h2
        simpa [List.append_assoc] using this
      · intro s endAddr n
        have hmod : (d * p.codeAlign) % 2 ^ 64 = o - prev := by
          rw [← hmul]; omega
        rw [List.cons_append, exec, stepB_none]
        simp only [step, hmod]
        rw [wExec, if_neg heq]
        simp only
        by_cases hfit : s.loc + (o - prev) < 2 ^ (8 * p.addressSize)
        · rw [if_pos hfit, if_pos hfit]
          simp only
          rw [List.cons_append, exec, stepB_none, hstep]
          cases hw : wStep { s with loc := s.loc + (o - prev) } wi with
          | error e => rfl
          | ok q =>
            obtain ⟨s', row⟩ := q
            obtain ⟨hrow, _⟩ := wStep_row _ wi s' row hw
            subst hrow
            simp only
            rw [hexec' s' endAddr n]
        · rw [if_neg hfit, if_neg hfit]


theorem instrsWrite_eq (e : Endian) (caf : Nat) (daf : Int) (is : List WInstr) :
    instrsWrite daf is = fdeInstrsWrite e caf daf 0 (is.map (fun i => (0, i))) := by
  induction is with
  | nil => rfl
  | cons i is ih =>
    rw [instrsWrite, List.map_cons, fdeInstrsWrite, ih]
    have : writeAdvanceLoc e caf 0 0 = .ok [] := by unfold writeAdvanceLoc; rfl
    rw [this]
    simp only [Out.bind_ok, List.nil_append]

theorem progInRange_map (is : List WInstr) (h : ∀ i ∈ is, i.InRange) :
    ProgInRange (is.map (fun i => (0, i))) := by
  induction is with
  | nil => trivial
  | cons i is ih =>
    exact ⟨by decide, h i (by simp), ih (fun j hj => h j (by simp [hj]))⟩

theorem progVendorOk_map (c : DecodeCfg) (is : List WInstr)
    (h : ∀ i ∈ is, i = .negateRaState → c.vendor = .aarch64) :
    ProgVendorOk c (is.map (fun i => (0, i))) := by
  induction is with
  | nil => trivial
  | cons i is ih =>
    exact ⟨h i (by simp), ih (fun j hj => h j (by simp [hj]))⟩

/-- the rows of a written table: what the decoder + the call-frame semantics (both C06) make of the
bytes is the meaning of the instructions supplied -/
theorem rows_roundtrip_main (cc fc : DecodeCfg) (p : Params)
    (cie : List WInstr) (fde : List (Nat × WInstr))
    (hcr : ∀ i ∈ cie, i.InRange) (hcv : ∀ i ∈ cie, i = .negateRaState → cc.vendor = .aarch64)
    (hfr : ProgInRange fde) (hfv : ProgVendorOk fc fde)
    (cb fb : Bytes) (n1 n2 ciePos fdePos initial len : Nat)
    (hc : instrsWrite p.dataAlign cie = .ok cb)
    (hf : fdeInstrsWrite fc.endian p.codeAlign p.dataAlign 0 fde = .ok fb) :
    (decodeAll cc ciePos (cb ++ List.replicate n1 0)).2 = .ok () ∧
    (decodeAll fc fdePos (fb ++ List.replicate n2 0)).2 = .ok () ∧
    table p none none (decodeAll cc ciePos (cb ++ List.replicate n1 0)).1 none
        (decodeAll fc fdePos (fb ++ List.replicate n2 0)).1 none initial len =
      wTable p cie fde initial len := by
  rw [instrsWrite_eq cc.endian p.codeAlign] at hc
  obtain ⟨Lc, hLc, hexc⟩ := program_roundtrip_main cc p _ 0 cb (by decide)
    (progInRange_map cie hcr) (progVendorOk_map cc cie hcv) hc
  obtain ⟨Lf, hLf, hexf⟩ := program_roundtrip_main fc p fde 0 fb (by decide) hfr hfv hf
  have hdc := (hLc.append (DecodesTo.nops cc n1)).decodeAll ciePos
  have hdf := (hLf.append (DecodesTo.nops fc n2)).decodeAll fdePos
  rw [hdc, hdf]
  refine ⟨rfl, rfl, ?_⟩
  unfold table wTable
  simp only [hexc, hexf, exceeds]
  cases (wExec p 0 { loc := 0, cur := RuleSet.initial, stack := [], init := none } 0
      (cie.map (fun i => (0, i)))).2 with
  | error e => rfl
  | ok s1 => simp

end Gimli.WCfi
