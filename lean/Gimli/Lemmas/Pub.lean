import Gimli.Model.Pub
import Gimli.Lemmas.Package
/-!
# Lemmas for C17, `.debug_pubnames` / `.debug_pubtypes`

`items_sets`: draining `LookupEntryIter` over the encoding of a list of well-formed sets yields
the exhaustive scan `scanSets` — every entry of every set, in order, each with its own set's unit
offset; sets without entries are skipped, the zero offset ends a set.
-/
namespace Gimli.Pub
open Gimli Gimli.Ints
open Gimli.Aranges (Item)
open Gimli.Indexed (readWord_enc)

/-- one set of a `.debug_pubnames` / `.debug_pubtypes` section -/
structure PubSet where
  format : Format
  unitOffset : Nat
  unitLength : Nat
  entries : List (Nat × Bytes)

def encWord (e : Endian) (f : Format) (v : Nat) : Bytes := toBytes e f.wordSize v

def encEntry (e : Endian) (f : Format) (p : Nat × Bytes) : Bytes := encWord e f p.1 ++ p.2 ++ [0]

def encEntries (e : Endian) (f : Format) (es : List (Nat × Bytes)) : Bytes :=
  es.flatMap (encEntry e f) ++ encWord e f 0

def encBody (e : Endian) (s : PubSet) : Bytes :=
  toBytes e 2 2 ++ encWord e s.format s.unitOffset ++ encWord e s.format s.unitLength ++
    encEntries e s.format s.entries

/-- the initial length field for a body of `n` bytes -/
def initLen (e : Endian) (f : Format) (n : Nat) : Bytes :=
  match f with
  | .dwarf32 => toBytes e 4 n
  | .dwarf64 => toBytes e 4 0xffff_ffff ++ toBytes e 8 n

def encSet (e : Endian) (s : PubSet) : Bytes := initLen e s.format (encBody e s).length ++ encBody e s

def headerOf (e : Endian) (s : PubSet) : Header :=
  { format := s.format, length := (encBody e s).length, version := 2, unitOffset := s.unitOffset,
    unitLength := s.unitLength }

/-- well-formed set: non-zero die offsets and header words that fit the format, names without
NUL, a body whose length can be written in the format -/
structure PubSet.Valid (e : Endian) (s : PubSet) : Prop where
  entries : ∀ p, p ∈ s.entries → p.1 ≠ 0 ∧ p.1 < 256 ^ s.format.wordSize ∧ ∀ b, b ∈ p.2 → b ≠ 0
  unitOffset : s.unitOffset < 256 ^ s.format.wordSize
  unitLength : s.unitLength < 256 ^ s.format.wordSize
  length : match s.format with
    | .dwarf32 => (encBody e s).length < 0xffff_fff0
    | .dwarf64 => (encBody e s).length < 2 ^ 64

theorem readInitialLength_initLen (e : Endian) (f : Format) (n : Nat) (rest : Bytes)
    (h : match f with | .dwarf32 => n < 0xffff_fff0 | .dwarf64 => n < 2 ^ 64) :
    readInitialLength e 64 (initLen e f n ++ rest) = .ok ((n, f), rest) := by
  cases f with
  | dwarf32 =>
    simp only at h
    simp only [initLen, readInitialLength]
    rw [readFixed_toBytes e 4 n rest (by omega)]
    simp [h]
  | dwarf64 =>
    simp only at h
    simp only [initLen, readInitialLength, List.append_assoc]
    rw [readFixed_toBytes e 4 0xffff_ffff _ (by decide)]
    simp only [Out.bind_ok]
    rw [readFixed_toBytes e 8 n rest (by omega)]
    have : n < 18446744073709551616 := h
    simp [offsetFromU64, this]

theorem readCStr_name (n rest : Bytes) (h : ∀ b, b ∈ n → b ≠ 0) :
    readCStr (n ++ 0 :: rest) = .ok (n, rest) := by
  induction n with
  | nil => simp [readCStr]
  | cons b n ih =>
    simp only [List.cons_append, readCStr]
    rw [if_neg (h b (by simp)), ih (fun b' hb' => h b' (by simp [hb']))]
    rfl

theorem parseEntry_entry (e : Endian) (hdr : Header) (p : Nat × Bytes) (more : Bytes)
    (h0 : p.1 ≠ 0) (hlt : p.1 < 256 ^ hdr.format.wordSize) (hn : ∀ b, b ∈ p.2 → b ≠ 0) :
    parseEntry e hdr (encEntry e hdr.format p ++ more) =
      .ok (some { dieOffset := p.1, name := p.2, unitHeaderOffset := hdr.unitOffset }, more) := by
  unfold parseEntry encEntry encWord
  rw [List.append_assoc, List.append_assoc, readWord_enc e hdr.format p.1 _ hlt]
  simp only [Out.bind_ok, h0, if_false]
  rw [List.singleton_append, readCStr_name p.2 more hn]
  rfl

theorem parseEntry_term (e : Endian) (hdr : Header) (more : Bytes) :
    parseEntry e hdr (encWord e hdr.format 0 ++ more) = .ok (none, []) := by
  unfold parseEntry encWord
  rw [readWord_enc e hdr.format 0 _ (Nat.pow_pos (by decide))]
  simp

theorem parseHeader_set (e : Endian) (s : PubSet) (hv : s.Valid e) (more : Bytes) :
    parseHeader e (encSet e s ++ more) =
      .ok ((encEntries e s.format s.entries, headerOf e s), more) := by
  unfold parseHeader encSet
  rw [List.append_assoc, readInitialLength_initLen e s.format _ _ hv.length]
  simp only [Out.bind_ok]
  rw [take_ok _ _ (by simp)]
  simp only [Out.bind_ok, List.take_left', List.drop_left']
  unfold headerOf
  generalize (encBody e s).length = L
  unfold encBody
  rw [List.append_assoc, List.append_assoc, readFixed_toBytes e 2 2 _ (by decide)]
  simp only [Out.bind_ok, ne_eq, not_true_eq_false, if_false]
  unfold encWord
  rw [readWord_enc e s.format s.unitOffset _ hv.unitOffset]
  simp only [Out.bind_ok]
  rw [readWord_enc e s.format s.unitLength _ hv.unitLength]
  rfl

def encSets (e : Endian) (sets : List PubSet) : Bytes := sets.flatMap (encSet e)

/-- iterator state in the middle of a set: `es` entries (and the terminator) still to come, then
the sets `rest` -/
def stOf (e : Endian) (es : List (Nat × Bytes)) (hdr : Header) (rest : List PubSet) : State :=
  { current := some (encEntries e hdr.format es, hdr), remaining := encSets e rest }

def entryOf (hdr : Header) (p : Nat × Bytes) : Entry :=
  { dieOffset := p.1, name := p.2, unitHeaderOffset := hdr.unitOffset }

/-- what `next` does once the current set is exhausted: skip sets without entries -/
def nextAfter (e : Endian) : List PubSet → Out (Option Entry) × State
  | [] => (.ok none, { current := none, remaining := [] })
  | s :: rest =>
    match s.entries with
    | p :: es => (.ok (some (entryOf (headerOf e s) p)), stOf e es (headerOf e s) rest)
    | [] => nextAfter e rest

theorem encWord_ne_nil (e : Endian) (f : Format) (v : Nat) : encWord e f v ≠ [] := by
  intro h
  have := congrArg List.length h
  simp only [encWord, toBytes_length, List.length_nil] at this
  cases f <;> simp [Format.wordSize] at this

theorem encEntries_cons (e : Endian) (f : Format) (p : Nat × Bytes) (es : List (Nat × Bytes)) :
    encEntries e f (p :: es) = encEntry e f p ++ encEntries e f es := by
  simp [encEntries]

theorem encEntries_ne_nil (e : Endian) (f : Format) (es : List (Nat × Bytes)) :
    (encEntries e f es).isEmpty = false := by
  cases es with
  | nil =>
    simp only [encEntries, List.flatMap_nil, List.nil_append]
    cases h : encWord e f 0 with
    | nil => exact absurd h (encWord_ne_nil e f 0)
    | cons a t => rfl
  | cons p es =>
    rw [encEntries_cons, encEntry, encWord]
    cases h : toBytes e f.wordSize p.1 with
    | nil => exact absurd h (encWord_ne_nil e f p.1)
    | cons a t => rfl

theorem encSets_cons (e : Endian) (s : PubSet) (rest : List PubSet) :
    encSets e (s :: rest) = encSet e s ++ encSets e rest := by simp [encSets]

theorem encSet_ne_nil (e : Endian) (s : PubSet) (rest : Bytes) : (encSet e s ++ rest).isEmpty = false := by
  unfold encSet initLen
  cases s.format with
  | dwarf32 =>
    cases h : toBytes e 4 (encBody e s).length with
    | nil => have := congrArg List.length h; simp [toBytes_length] at this
    | cons a t => rfl
  | dwarf64 =>
    cases h : toBytes e 4 0xffff_ffff with
    | nil => have := congrArg List.length h; simp [toBytes_length] at this
    | cons a t => rfl

def AllValid (e : Endian) (sets : List PubSet) : Prop := ∀ s, s ∈ sets → s.Valid e

/-- the second half of a loop iteration, when the current set (if any) has nothing left -/
theorem nextLoop_after (e : Endian) (rest : List PubSet) (hv : AllValid e rest) (fuel : Nat)
    (hf : rest.length < fuel) (cur : Option (Bytes × Header))
    (hcur : cur = none ∨ ∃ hdr, cur = some (encEntries e hdr.format [], hdr) ∨ cur = some ([], hdr)) :
    nextLoop e fuel { current := cur, remaining := encSets e rest } = nextAfter e rest := by
  induction rest generalizing fuel cur with
  | nil =>
    cases fuel with
    | zero => simp at hf
    | succ f =>
      rw [nextLoop]
      rcases hcur with rfl | ⟨hdr, rfl | rfl⟩
      · simp [entryStep, encSets, nextAfter]
      · simp only [entryStep, encEntries_ne_nil, Bool.false_eq_true, if_false]
        have : encEntries e hdr.format [] = encWord e hdr.format 0 ++ [] := by simp [encEntries]
        rw [this, parseEntry_term]
        simp [encSets, nextAfter]
      · simp [entryStep, encSets, nextAfter]
  | cons s rest ih =>
    cases fuel with
    | zero => simp at hf
    | succ f =>
      have hvs := hv s (by simp)
      have hstep : ∃ c', (c' = cur ∨ ∃ hdr, c' = some ([], hdr)) ∧
          entryStep e { current := cur, remaining := encSets e (s :: rest) } =
            .goOn { current := c', remaining := encSets e (s :: rest) } := by
        rcases hcur with rfl | ⟨hdr, rfl | rfl⟩
        · exact ⟨none, Or.inl rfl, by simp [entryStep]⟩
        · refine ⟨some ([], hdr), Or.inr ⟨hdr, rfl⟩, ?_⟩
          simp only [entryStep, encEntries_ne_nil, Bool.false_eq_true, if_false]
          have : encEntries e hdr.format [] = encWord e hdr.format 0 ++ [] := by simp [encEntries]
          rw [this, parseEntry_term]
        · exact ⟨some ([], hdr), Or.inl rfl, by simp [entryStep]⟩
      obtain ⟨c', _, hst⟩ := hstep
      rw [nextLoop, hst]
      simp only
      rw [encSets_cons, encSet_ne_nil]
      simp only [Bool.false_eq_true, if_false]
      rw [parseHeader_set e s hvs]
      simp only
      rw [nextAfter]
      cases hes : s.entries with
      | nil =>
        simp only
        have := ih (fun s' hs' => hv s' (by simp [hs'])) f (by simpa using hf)
          (some (encEntries e (headerOf e s).format [], headerOf e s))
          (Or.inr ⟨headerOf e s, Or.inl rfl⟩)
        simpa [headerOf] using this
      | cons p es =>
        simp only
        -- one more iteration returns the first entry of the new set
        cases f with
        | zero => simp at hf
        | succ f' =>
          have hp := hvs.entries p (by rw [hes]; simp)
          rw [nextLoop]
          simp only [entryStep, encEntries_ne_nil, Bool.false_eq_true, if_false]
          rw [encEntries_cons]
          have := parseEntry_entry e (headerOf e s) p (encEntries e s.format es) hp.1 hp.2.1 hp.2.2
          simp only [headerOf] at this ⊢
          rw [this]
          rfl

theorem encSets_length_ge (e : Endian) (rest : List PubSet) : rest.length ≤ (encSets e rest).length := by
  induction rest with
  | nil => simp [encSets]
  | cons s rest ih =>
    rw [encSets_cons, List.length_append, List.length_cons]
    have : 1 ≤ (encSet e s).length := by
      have := encSet_ne_nil e s []
      cases h : encSet e s with
      | nil => rw [h] at this; simp at this
      | cons a t => simp
    omega

/-- one call of `next` in the middle of a set -/
theorem next_stOf (e : Endian) (es : List (Nat × Bytes)) (hdr : Header) (rest : List PubSet)
    (hv : AllValid e rest)
    (hes : ∀ p, p ∈ es → p.1 ≠ 0 ∧ p.1 < 256 ^ hdr.format.wordSize ∧ ∀ b, b ∈ p.2 → b ≠ 0) :
    next e (stOf e es hdr rest) =
      match es with
      | p :: es' => (.ok (some (entryOf hdr p)), stOf e es' hdr rest)
      | [] => nextAfter e rest := by
  unfold next
  cases es with
  | nil =>
    exact nextLoop_after e rest hv _ (by have := encSets_length_ge e rest; simp [stOf]; omega) _
      (Or.inr ⟨hdr, Or.inl rfl⟩)
  | cons p es' =>
    have hp := hes p (by simp)
    simp only [stOf]
    rw [nextLoop]
    simp only [entryStep, encEntries_ne_nil, Bool.false_eq_true, if_false]
    rw [encEntries_cons, parseEntry_entry e hdr p _ hp.1 hp.2.1 hp.2.2]
    rfl

/-- **exhaustive scan** of the abstract sets: every entry of every set, in order, with its set's
unit offset -/
def scanSets (e : Endian) (sets : List PubSet) : List (Item Entry) :=
  sets.flatMap fun s => s.entries.map fun p => .item (entryOf (headerOf e s) p)

def totalEntries (sets : List PubSet) : Nat := (sets.map (·.entries.length)).sum

theorem items_stOf (e : Endian) (fuel : Nat) (es : List (Nat × Bytes)) (hdr : Header)
    (rest : List PubSet) (hv : AllValid e rest)
    (hes : ∀ p, p ∈ es → p.1 ≠ 0 ∧ p.1 < 256 ^ hdr.format.wordSize ∧ ∀ b, b ∈ p.2 → b ≠ 0)
    (hf : es.length + totalEntries rest < fuel) :
    items e fuel (stOf e es hdr rest) = es.map (fun p => .item (entryOf hdr p)) ++ scanSets e rest := by
  induction fuel generalizing es hdr rest with
  | zero => omega
  | succ f ih =>
    rw [items, next_stOf e es hdr rest hv hes]
    cases es with
    | cons p es' =>
      simp only [List.map_cons, List.cons_append]
      congr 1
      exact ih es' hdr rest hv (fun p' hp' => hes p' (by simp [hp'])) (by simp at hf; omega)
    | nil =>
      simp only [List.map_nil, List.nil_append]
      -- skip the sets without entries
      clear hes
      induction rest with
      | nil => simp [nextAfter, scanSets]
      | cons s rest ihr =>
        have hvs := hv s (by simp)
        rw [nextAfter]
        cases hse : s.entries with
        | nil =>
          simp only
          have : scanSets e (s :: rest) = scanSets e rest := by simp [scanSets, hse]
          rw [this]
          exact ihr (fun s' hs' => hv s' (by simp [hs'])) (by simp [totalEntries, hse] at hf ⊢; exact hf)
        | cons p es' =>
          simp only
          have hsc : scanSets e (s :: rest) =
              (.item (entryOf (headerOf e s) p)) :: ((es'.map fun p => .item (entryOf (headerOf e s) p)) ++ scanSets e rest) := by
            simp [scanSets, hse]
          rw [hsc]
          congr 1
          exact ih es' (headerOf e s) rest (fun s' hs' => hv s' (by simp [hs']))
            (fun p' hp' => hvs.entries p' (by rw [hse]; simp [hp']))
            (by simp [totalEntries, hse] at hf ⊢; omega)

/-- **`pubnames`/`pubtypes` iteration returns exactly the entries present** -/
theorem items_sets (e : Endian) (sets : List PubSet) (hv : AllValid e sets) (fuel : Nat)
    (hf : totalEntries sets < fuel) :
    items e fuel (start (encSets e sets)) = scanSets e sets := by
  cases fuel with
  | zero => omega
  | succ f =>
    rw [items]
    have hn : next e (start (encSets e sets)) = nextAfter e sets := by
      unfold next start
      exact nextLoop_after e sets hv _ (by have := encSets_length_ge e sets; simp; omega) none (Or.inl rfl)
    rw [hn]
    -- same skipping argument as in `items_stOf`
    induction sets with
    | nil => simp [nextAfter, scanSets]
    | cons s rest ihr =>
      have hvs := hv s (by simp)
      rw [nextAfter]
      cases hse : s.entries with
      | nil =>
        simp only
        have : scanSets e (s :: rest) = scanSets e rest := by simp [scanSets, hse]
        rw [this]
        exact ihr (fun s' hs' => hv s' (by simp [hs'])) (by simp [totalEntries, hse] at hf ⊢; exact hf)
          (by
            unfold next start
            exact nextLoop_after e rest (fun s' hs' => hv s' (by simp [hs'])) _
              (by have := encSets_length_ge e rest; simp; omega) none (Or.inl rfl))
      | cons p es' =>
        simp only
        have hsc : scanSets e (s :: rest) =
            (.item (entryOf (headerOf e s) p)) :: ((es'.map fun p => .item (entryOf (headerOf e s) p)) ++ scanSets e rest) := by
          simp [scanSets, hse]
        rw [hsc]
        congr 1
        exact items_stOf e f es' (headerOf e s) rest (fun s' hs' => hv s' (by simp [hs']))
          (fun p' hp' => hvs.entries p' (by rw [hse]; simp [hp']))
          (by simp [totalEntries, hse] at hf ⊢; omega)
end Gimli.Pub
