import Gimli.Lemmas.WCfiTable
import Gimli.Lemmas.Cfi
/-!
Helper lemmas for C14 about the layout of entries: `write_eh_pointer(_data)` is inverted by C06's
Model of `parse_encoded_pointer` / `parse_encoded_value`, and the CIE / FDE the writer emits is read
back field by field by the small Spec reader of `Gimli/Spec/WCfi.lean`.
-/
open Gimli Gimli.WCfi Gimli.Cfi

namespace Gimli.WCfi
open Gimli.Spec.WCfi

theorem toBytes_one (e : Endian) (v : Nat) (h : v < 256) : Ints.toBytes e 1 v = [UInt8.ofNat v] := by
  cases e <;> simp [Ints.toBytes, Ints.leBytes, Nat.mod_eq_of_lt h]

theorem readFixed_byte (e : Endian) (v : Nat) (h : v < 256) (r : Bytes) :
    Ints.readFixed e 1 (UInt8.ofNat v :: r) = .ok (v, r) := by
  have := Ints.readFixed_toBytes e 1 v r (by omega)
  rw [toBytes_one e v h] at this
  exact this

theorem readCStr_roundtrip (s r : Bytes) (h : ∀ b ∈ s, b ≠ 0) : readCStr (s ++ 0 :: r) = .ok (s, r) := by
  induction s with
  | nil => simp [readCStr]
  | cons b s ih =>
    rw [List.cons_append, readCStr, if_neg (h b (by simp)), ih (fun x hx => h x (by simp [hx]))]
    rfl

theorem augString_nonzero (c : WCie) : ∀ b ∈ c.augString, b ≠ 0 := by
  intro b hb
  unfold WCie.augString at hb
  split at hb
  · simp only [List.mem_append, List.mem_singleton] at hb
    rcases hb with (((hb | hb) | hb) | hb) | hb
    · subst hb; decide
    · split at hb
      · simp only [List.mem_singleton] at hb; subst hb; decide
      · simp at hb
    · split at hb
      · simp only [List.mem_singleton] at hb; subst hb; decide
      · simp at hb
    · split at hb
      · simp only [List.mem_singleton] at hb; subst hb; decide
      · simp at hb
    · split at hb
      · simp only [List.mem_singleton] at hb; subst hb; decide
      · simp at hb
  · simp at hb

theorem augString_head (c : WCie) :
    c.augString.head? = some 0x7a ↔ c.hasAugmentation = true := by
  unfold WCie.augString
  split
  · rename_i h; simp [h]
  · rename_i h; simp [h]

theorem encodeU_small (v : Nat) (h : v < 128) : Leb.encodeU v = [UInt8.ofNat v] := by
  unfold Leb.encodeU
  rw [Leb.encodeUFuel]
  have h0 : v / 128 = 0 := by omega
  have h1 : v % 128 = v := by omega
  simp [h0, h1]

theorem unsigned_small (n : Nat) (h : n < 128) (r : Bytes) :
    Leb.unsigned (UInt8.ofNat n :: r) = .ok (n, r) := by
  have hb : (UInt8.ofNat n).toNat = n := by simp; omega
  rw [Leb.unsigned, if_pos (by omega), hb]

theorem encodeSFuel_length (fuel : Nat) : ∀ v : Int, (Leb.encodeSFuel fuel v).length ≤ fuel := by
  induction fuel with
  | zero => intro v; simp [Leb.encodeSFuel]
  | succ f ih =>
    intro v
    rw [Leb.encodeSFuel]
    split
    · simp
    · have := ih (v / 64 / 2)
      simp only [List.length_cons]; omega

theorem writeSdata_length (e : Endian) (x : Int) (size : Nat) (bs : Bytes)
    (h : Ints.writeSdata e x size = .ok bs) : bs.length = size := by
  unfold Ints.writeSdata at h
  split at h
  · dsimp only at h
    split at h
    · cases h
    · cases h; exact Ints.toBytes_length _ _ _
  · split at h
    · cases h; rename_i h8; rw [h8]; exact Ints.toBytes_length _ _ _
    · cases h

theorem ehPointerData_length (e : Endian) (w f size : Nat) (bs : Bytes) (hw : w < 2 ^ 64)
    (h : ehPointerData e w f size = .ok bs) : bs.length ≤ 10 := by
  unfold ehPointerData at h
  split at h
  · have := writeUdata_length _ _ _ _ h
    have := (Ints.writeUdata_ok_iff e w size hw).mp ⟨bs, h⟩
    omega
  · cases h; exact (Leb.encodeU_spec w hw).2.2.1
  · have := writeUdata_length _ _ _ _ h; omega
  · have := writeUdata_length _ _ _ _ h; omega
  · have := writeUdata_length _ _ _ _ h; omega
  · cases h; exact encodeSFuel_length 10 _
  · exact Nat.le_trans (Nat.le_of_eq (writeSdata_length _ _ _ _ h)) (by decide)
  · exact Nat.le_trans (Nat.le_of_eq (writeSdata_length _ _ _ _ h)) (by decide)
  · exact Nat.le_trans (Nat.le_of_eq (writeSdata_length _ _ _ _ h)) (by decide)
  · cases h


theorem ehPointer_length (e : Endian) (pos : Nat) (a : Addr) (enc size : Nat) (bs : Bytes)
    (ha : ∀ v, a = .const v → v < 2 ^ 64) (h : ehPointer e pos a enc size = .ok bs) : bs.length ≤ 10 := by
  unfold ehPointer at h
  cases a with
  | symbol => cases h
  | const v =>
    simp only at h
    split at h
    · exact ehPointerData_length _ _ _ _ _ (ha v rfl) h
    · exact ehPointerData_length _ _ _ _ _ (Nat.mod_lt _ (by decide)) h
    · cases h

/-- the augmentation data of a CIE: a length byte below 0x80 followed by that many bytes -/
theorem cieAugData_shape (e : Endian) (c : WCie) (pos : Nat) (aug : Bytes) (hr : c.InRange)
    (h : cieAugData e c pos = .ok aug) :
    (c.hasAugmentation = true → ∃ data, aug = UInt8.ofNat data.length :: data ∧ data.length < 128) ∧
    (c.hasAugmentation = false → aug = []) := by
  unfold cieAugData at h
  cases hh : c.hasAugmentation with
  | false => rw [hh] at h; simp at h; exact ⟨by simp, fun _ => h⟩
  | true =>
    rw [hh] at h
    simp only [if_true] at h
    refine ⟨fun _ => ?_, by simp⟩
    have hrl : (if c.fdeAddressEncoding != 0 then [UInt8.ofNat c.fdeAddressEncoding] else ([] : Bytes)).length ≤ 1 := by
      split <;> simp
    cases hls : c.lsdaEncoding <;> rw [hls] at h <;> simp only at h <;>
    (cases hpers : c.personality with
    | none =>
      rw [hpers] at h
      simp only [Out.pure_eq, Out.bind_ok] at h
      cases h
      refine ⟨_, rfl, ?_⟩
      simp only [List.length_append, List.length_nil, List.length_cons]
      omega
    | some ea =>
      obtain ⟨enc, a⟩ := ea
      rw [hpers] at h
      simp only at h
      obtain ⟨ptr, hptr, h⟩ := bind_ok_inv h
      simp only [Out.pure_eq, Out.bind_ok] at h
      cases h
      refine ⟨_, rfl, ?_⟩
      have := ehPointer_length _ _ _ _ _ _ (hr.2.2.2.2.1 enc a hpers).2 hptr
      simp only [List.length_append, List.length_cons, List.length_nil]
      omega)


theorem versionOk_cases {eh : Bool} {v : Nat} (h : versionOk eh v = true) :
    (eh = true → v = 1) ∧ (v = 1 ∨ v = 3 ∨ v = 4) := by
  unfold versionOk at h
  cases eh with
  | true => simp at h; exact ⟨fun _ => h, Or.inl h⟩
  | false => simp at h; exact ⟨by simp, by omega⟩

theorem readId (e : Endian) (eh : Bool) (f : Format) (r : Bytes) :
    Ints.readFixed e (if eh then 4 else f.wordSize) (cieIdBytes e eh f ++ r) =
      .ok ((if eh then 0 else 2 ^ (8 * (if eh then 4 else f.wordSize)) - 1), r) := by
  unfold cieIdBytes
  cases eh with
  | true => exact Ints.readFixed_toBytes e 4 0 r (by decide)
  | false =>
    cases f with
    | dwarf32 => exact Ints.readFixed_toBytes e 4 0xffff_ffff r (by decide)
    | dwarf64 => exact Ints.readFixed_toBytes e 8 0xffff_ffff_ffff_ffff r (by decide)

/-- the return address register field reads back: one byte in version 1, ULEB128 otherwise -/
theorem readRa (e : Endian) (c : WCie) (ra r : Bytes)
    (h : raBytes c.version c.raReg = .ok ra) :
    (if c.version = 1 then Ints.readFixed e 1 (ra ++ r) else Leb.unsigned (ra ++ r)) = .ok (c.raReg.toNat, r) := by
  have hlt : c.raReg.toNat < 2 ^ 16 := c.raReg.toNat_lt
  unfold raBytes at h
  by_cases h1 : c.version = 1
  · rw [if_pos h1]
    rw [if_pos h1] at h
    split at h
    · cases h
    · cases h
      exact readFixed_byte e _ (by omega) r
  · rw [if_neg h1]
    rw [if_neg h1] at h
    cases h
    exact Leb.unsigned_roundtrip _ (by omega) r

theorem take_all (n : Nat) (l : Bytes) (h : n = l.length) : Ints.take n l = .ok (l, []) := by
  subst h
  rw [Ints.take_ok _ _ (Nat.le_refl _)]
  simp

theorem take_prefix (a b : Bytes) : Ints.take a.length (a ++ b) = .ok (a, b) := by
  rw [Ints.take_ok _ _ (by simp)]
  simp

theorem cie_header_roundtrip_main (m : Mode) (e : Endian) (eh : Bool) (c : WCie) (off : Nat) (bs : Bytes)
    (hr : c.InRange) (hlen : bs.length < 2 ^ 64)
    (h : cieWrite m e eh c off = .ok bs) :
    ∃ aug ins n pos, cieAugData e c pos = .ok aug ∧ instrsWrite c.dataAlign c.instructions = .ok ins ∧
      readCieHeader e eh bs = .ok
        { format := c.format, length := bs.length - lenFieldSize c.format, version := c.version,
          augmentation := c.augString,
          addressSize := if c.version = 4 then some c.addressSize else none,
          codeAlign := c.codeAlign, dataAlign := c.dataAlign, raReg := c.raReg.toNat,
          augData := if c.hasAugmentation then some aug.tail else none,
          instructions := ins ++ List.replicate n 0 } := by
  unfold cieWrite at h
  split at h
  · cases h
  · rename_i hver
    have hver : versionOk eh c.version = true := by simpa using hver
    obtain ⟨hv1, hv⟩ := versionOk_cases hver
    obtain ⟨ra, hraB, h⟩ := bind_ok_inv h
    obtain ⟨aug, haug, h⟩ := bind_ok_inv h
    obtain ⟨ins, hins, h⟩ := bind_ok_inv h
    obtain ⟨n, hn, h⟩ := bind_ok_inv h
    obtain ⟨lf, hlf, h⟩ := bind_ok_inv h
    cases h
    refine ⟨aug, ins, n, _, haug, hins, ?_⟩
    obtain ⟨hAsz, hCaf, hDaf1, hDaf2, _, _, _⟩ := hr
    have hlfl := writeInitialLength_length _ _ _ _ hlf
    simp only [List.length_append, List.length_replicate] at hlen
    -- the body, right-nested
    have hbody : lf ++ (cieIdBytes e eh c.format ++ cieFixed c ++ ra ++ aug ++ ins) ++ List.replicate n 0 =
        lf ++ (cieIdBytes e eh c.format ++ (UInt8.ofNat c.version :: (c.augString ++ 0 ::
          ((if c.version ≥ 4 then [UInt8.ofNat c.addressSize, 0] else []) ++ (Leb.encodeU c.codeAlign ++
            (Leb.encodeS c.dataAlign ++ (ra ++ (aug ++ (ins ++ List.replicate n 0))))))))) := by
      unfold cieFixed
      simp only [List.append_assoc, List.cons_append, List.nil_append]
    rw [hbody]
    have hlen2 : (cieIdBytes e eh c.format ++ cieFixed c ++ ra ++ aug ++ ins).length + n =
        (cieIdBytes e eh c.format ++ (UInt8.ofNat c.version :: (c.augString ++ 0 ::
          ((if c.version ≥ 4 then [UInt8.ofNat c.addressSize, 0] else []) ++ (Leb.encodeU c.codeAlign ++
            (Leb.encodeS c.dataAlign ++ (ra ++ (aug ++ (ins ++ List.replicate n 0))))))))).length := by
      unfold cieFixed
      simp only [List.length_append, List.length_cons, List.length_nil, List.length_replicate]
      omega
    have hL : (cieIdBytes e eh c.format ++ cieFixed c ++ ra ++ aug ++ ins).length + n < 2 ^ 64 := by
      simp only [List.length_append] at hlen ⊢; omega
    unfold readCieHeader
    rw [(Ints.writeInitialLength_roundtrip e c.format _ lf _ hL hlf).1]
    simp only [Out.bind_ok]
    rw [take_all _ _ hlen2]
    simp only [Out.bind_ok]
    rw [readId e eh c.format]
    simp only [Out.bind_ok, ne_eq, not_true_eq_false, if_false]
    rw [readFixed_byte e c.version (by omega)]
    simp only [Out.bind_ok]
    rw [readCStr_roundtrip _ _ (augString_nonzero c)]
    simp only [Out.bind_ok]
    -- the tail after the version-dependent fields is the same in both cases
    have htail : ∀ (asz : Option Nat),
        (do
          let (caf', r) ← Leb.unsigned (Leb.encodeU c.codeAlign ++
            (Leb.encodeS c.dataAlign ++ (ra ++ (aug ++ (ins ++ List.replicate n 0)))))
          let (daf', r) ← Leb.signed r
          let (ra', r) ← (if c.version = 1 then Ints.readFixed e 1 r else Leb.unsigned r)
          let (augData, r) ← (if c.augString.head? = some 0x7a then do
              let (k, r) ← Leb.unsigned r
              let (d, r) ← Ints.take k r
              pure (some d, r)
            else pure (none, r) : Out (Option Bytes × Bytes))
          pure ({ format := c.format,
                  length := (cieIdBytes e eh c.format ++ cieFixed c ++ ra ++ aug ++ ins).length + n,
                  version := c.version, augmentation := c.augString, addressSize := asz,
                  codeAlign := caf', dataAlign := daf', raReg := ra', augData := augData,
                  instructions := r } : CieHeader)) =
        .ok { format := c.format,
              length := (cieIdBytes e eh c.format ++ cieFixed c ++ ra ++ aug ++ ins).length + n,
              version := c.version, augmentation := c.augString, addressSize := asz,
              codeAlign := c.codeAlign, dataAlign := c.dataAlign, raReg := c.raReg.toNat,
              augData := if c.hasAugmentation then some aug.tail else none,
              instructions := ins ++ List.replicate n 0 } := by
      intro asz
      rw [Leb.unsigned_roundtrip c.codeAlign (by omega)]
      simp only [Out.bind_ok]
      rw [Leb.signed_roundtrip c.dataAlign (by omega) (by omega)]
      simp only [Out.bind_ok]
      rw [readRa e c ra _ hraB]
      simp only [Out.bind_ok]
      obtain ⟨hs1, hs2⟩ := cieAugData_shape e c _ aug ⟨hAsz, hCaf, hDaf1, hDaf2, ‹_›, ‹_›, ‹_›⟩ haug
      cases hh : c.hasAugmentation with
      | true =>
        obtain ⟨data, hd, hdl⟩ := hs1 hh
        subst hd
        rw [if_pos ((augString_head c).mpr hh)]
        simp only [List.cons_append]
        rw [unsigned_small _ hdl]
        simp only [Out.bind_ok]
        rw [take_prefix]
        simp
      | false =>
        have := hs2 hh
        subst this
        have hne : ¬ c.augString.head? = some 0x7a := by
          rw [augString_head c, hh]; simp
        rw [if_neg hne]
        simp
    have hlenEq : (lf ++ (cieIdBytes e eh c.format ++ (UInt8.ofNat c.version :: (c.augString ++ 0 ::
          ((if c.version ≥ 4 then [UInt8.ofNat c.addressSize, 0] else []) ++ (Leb.encodeU c.codeAlign ++
            (Leb.encodeS c.dataAlign ++ (ra ++ (aug ++ (ins ++ List.replicate n 0)))))))))).length -
          lenFieldSize c.format =
        (cieIdBytes e eh c.format ++ cieFixed c ++ ra ++ aug ++ ins).length + n := by
      rw [List.length_append, hlfl, ← hlen2]; omega
    rw [hlenEq]
    by_cases h4 : c.version = 4
    · have hsel : (if c.version = 4 then some c.addressSize else none) = some c.addressSize := if_pos h4
      rw [hsel, if_pos h4, if_pos (by omega : c.version ≥ 4)]
      simp only [List.cons_append, List.nil_append]
      rw [readFixed_byte e c.addressSize hAsz]
      simp only [Out.bind_ok]
      have hz : ∀ r : Bytes, Ints.readFixed e 1 (0 :: r) = .ok (0, r) := fun r => readFixed_byte e 0 (by decide) r
      rw [hz]
      simp only [Out.bind_ok, not_true_eq_false, if_false, Out.pure_eq]
      exact htail _
    · have hsel : (if c.version = 4 then some c.addressSize else none) = none := if_neg h4
      rw [hsel, if_neg h4, if_neg (by omega : ¬ c.version ≥ 4)]
      simp only [List.nil_append, Out.pure_eq, Out.bind_ok]
      exact htail _

theorem ofI64_toI64 (v : Nat) (h : v < 2 ^ 64) : Leb.ofI64 (Leb.toI64 v) = v := by
  unfold Leb.ofI64 Leb.toI64
  split <;> omega

theorem toI64_range (v : Nat) : -(2 ^ 63 : Int) ≤ Leb.toI64 v ∧ Leb.toI64 v < 2 ^ 63 := by
  unfold Leb.toI64
  split <;> omega

/-- `write_sdata` then a signed fixed-width read with sign extension gives the value back -/
theorem writeSdata_roundtrip (e : Endian) (x : Int) (k : Nat) (hk : k = 2 ∨ k = 4 ∨ k = 8)
    (hx : -(2 ^ 63 : Int) ≤ x ∧ x < 2 ^ 63) (bs rest : Bytes)
    (h : Ints.writeSdata e x k = .ok bs) :
    ∃ pat, Ints.readFixed e k (bs ++ rest) = .ok (pat, rest) ∧ Ints.toSigned k pat = x := by
  unfold Ints.writeSdata at h
  rcases hk with rfl | rfl | rfl
  · rw [if_pos (by decide : (2 = 1 ∨ 2 = 2 ∨ 2 = 4))] at h
    dsimp only at h
    split at h
    · cases h
    · rename_i hfit
      cases h
      refine ⟨(x % 2 ^ (8 * 2)).toNat, ?_, by simpa using hfit⟩
      exact Ints.readFixed_toBytes e 2 _ rest (by omega)
  · rw [if_pos (by decide : (4 = 1 ∨ 4 = 2 ∨ 4 = 4))] at h
    dsimp only at h
    split at h
    · cases h
    · rename_i hfit
      cases h
      refine ⟨(x % 2 ^ (8 * 4)).toNat, ?_, by simpa using hfit⟩
      exact Ints.readFixed_toBytes e 4 _ rest (by omega)
  · rw [if_neg (by decide : ¬(8 = 1 ∨ 8 = 2 ∨ 8 = 4)), if_pos rfl] at h
    cases h
    refine ⟨(x % 2 ^ 64).toNat, ?_, ?_⟩
    · exact Ints.readFixed_toBytes e 8 _ rest (by omega)
    · unfold Ints.toSigned
      split <;> omega


/-- the value formats of `write_eh_pointer_data` read back through `parse_encoded_value` -/
theorem ehPointerData_roundtrip (e : Endian) (w enc size : Nat) (bs rest : Bytes)
    (hw : w < 2 ^ 64) (hs : size = 1 ∨ size = 2 ∨ size = 4 ∨ size = 8)
    (h : ehPointerData e w (enc % 16) size = .ok bs) :
    parseEncodedValue e enc size (bs ++ rest) = .ok (w, rest) := by
  unfold ehPointerData at h
  unfold parseEncodedValue
  have hr := toI64_range w
  split at h
  · -- absptr
    rename_i hf; rw [hf]
    have := (Ints.writeUdata_roundtrip e w size bs rest h hw).2
    simp only
    unfold Ints.readAddress
    rw [if_pos hs]
    exact this
  · rename_i hf; rw [hf]
    cases h
    exact Leb.unsigned_roundtrip w hw rest
  · rename_i hf; rw [hf]
    exact (Ints.writeUdata_roundtrip e w 2 bs rest h hw).2
  · rename_i hf; rw [hf]
    exact (Ints.writeUdata_roundtrip e w 4 bs rest h hw).2
  · rename_i hf; rw [hf]
    exact (Ints.writeUdata_roundtrip e w 8 bs rest h hw).2
  · rename_i hf; rw [hf]
    cases h
    simp only
    rw [Leb.signed_roundtrip _ hr.1 hr.2 rest]
    simp only [Out.bind_ok, Out.pure_eq, ofI64_toI64 w hw]
  · rename_i hf; rw [hf]
    obtain ⟨pat, h1, h2⟩ := writeSdata_roundtrip e _ 2 (Or.inl rfl) hr bs rest h
    simp only [h1, Out.bind_ok, Out.pure_eq, h2, ofI64_toI64 w hw]
  · rename_i hf; rw [hf]
    obtain ⟨pat, h1, h2⟩ := writeSdata_roundtrip e _ 4 (Or.inr (Or.inl rfl)) hr bs rest h
    simp only [h1, Out.bind_ok, Out.pure_eq, h2, ofI64_toI64 w hw]
  · rename_i hf; rw [hf]
    obtain ⟨pat, h1, h2⟩ := writeSdata_roundtrip e _ 8 (Or.inr (Or.inr rfl)) hr bs rest h
    simp only [h1, Out.bind_ok, Out.pure_eq, h2, ofI64_toI64 w hw]
  · cases h


theorem ehPointerData_valid (e : Endian) (w f size : Nat) (bs : Bytes) (h : ehPointerData e w f size = .ok bs) :
    f = 0 ∨ f = 1 ∨ f = 2 ∨ f = 3 ∨ f = 4 ∨ f = 9 ∨ f = 10 ∨ f = 11 ∨ f = 12 := by
  unfold ehPointerData at h
  split at h <;> first | omega | cases h

/-- **pointers**: what `write_eh_pointer` emits for a constant address that fits the address size is
read back by `parse_encoded_pointer` (C06's Model; section base 0 as the writer assumes for
`DW_EH_PE_pcrel`) as the same address, with the indirect flag of the encoding -/
theorem ehPointer_roundtrip (m : Mode) (e : Endian) (pos v enc size : Nat) (p : PtrParams) (bs rest : Bytes)
    (hs : size = 1 ∨ size = 2 ∨ size = 4 ∨ size = 8) (hv : v < 2 ^ (8 * size))
    (hp : p.addressSize = size) (hb : p.sectionBase = some 0)
    (h : ehPointer e pos (.const v) enc size = .ok bs) :
    parseEncodedPointer m e enc p pos (bs ++ rest) = .ok ((v, enc / 128 % 2 = 1), rest) := by
  unfold ehPointer at h
  simp only at h
  have hv64 : v < 2 ^ 64 := by
    rcases hs with rfl | rfl | rfl | rfl <;> omega
  have hones : onesSized m size = .ok (2 ^ (8 * size) - 1) := by
    unfold onesSized; rw [if_pos (by omega)]
  unfold parseEncodedPointer
  split at h
  · -- absptr
    rename_i happ
    have hf := ehPointerData_valid _ _ _ _ _ h
    have hvalid : ehPeValid enc = true := by
      unfold ehPeValid
      rw [if_neg (by omega)]
      simp only [decide_eq_true_eq]
      exact ⟨hf, by omega⟩
    rw [hvalid]
    simp only [Bool.not_true, Bool.false_eq_true, if_false]
    rw [if_neg (by omega)]
    have hbase : pointerBase m enc p pos = .ok 0 := by
      unfold pointerBase; rw [happ]; rfl
    rw [hbase, Out.bind_ok, hp, ehPointerData_roundtrip e v enc size bs rest hv64 hs h, Out.bind_ok]
    simp only
    unfold wrappingAddSized
    rw [hones, Out.bind_ok]
    have : (0 + v) % 2 ^ 64 % (2 ^ (8 * size) - 1 + 1) = v := by
      rcases hs with rfl | rfl | rfl | rfl <;> omega
    simp only [Out.pure_eq, this, Out.bind_ok]
  · -- pcrel
    rename_i happ
    have hf := ehPointerData_valid _ _ _ _ _ h
    have hvalid : ehPeValid enc = true := by
      unfold ehPeValid
      rw [if_neg (by omega)]
      simp only [decide_eq_true_eq]
      exact ⟨hf, by omega⟩
    rw [hvalid]
    simp only [Bool.not_true, Bool.false_eq_true, if_false]
    rw [if_neg (by omega)]
    have hw : (v + 2 ^ 64 - pos % 2 ^ 64) % 2 ^ 64 < 2 ^ 64 := Nat.mod_lt _ (by decide)
    have hbase : pointerBase m enc p pos = .ok (pos % 2 ^ 64 % 2 ^ (8 * size)) := by
      unfold pointerBase; rw [happ]
      simp only [hb]
      unfold wrappingAddSized
      rw [hp, hones, Out.bind_ok]
      have : 2 ^ (8 * size) - 1 + 1 = 2 ^ (8 * size) := by
        rcases hs with rfl | rfl | rfl | rfl <;> rfl
      simp only [Out.pure_eq, this, Nat.zero_add]
    rw [hbase, Out.bind_ok, hp, ehPointerData_roundtrip e _ enc size bs rest hw hs h, Out.bind_ok]
    simp only
    unfold wrappingAddSized
    rw [hones, Out.bind_ok]
    have : (pos % 2 ^ 64 % 2 ^ (8 * size) + (v + 2 ^ 64 - pos % 2 ^ 64) % 2 ^ 64) % 2 ^ 64 %
        (2 ^ (8 * size) - 1 + 1) = v := by
      rcases hs with rfl | rfl | rfl | rfl <;> omega
    simp only [Out.pure_eq, this, Out.bind_ok]
  · cases h


theorem fdeCiePointer_roundtrip (e : Endian) (eh : Bool) (f : Format) (base cieOff : Nat) (ptr r : Bytes)
    (hc : cieOff ≤ base) (hb : base < 2 ^ 64) (h : fdeCiePointer e eh f base cieOff = .ok ptr) :
    ptr.length = (if eh then 4 else f.wordSize) ∧
    ∃ p, Ints.readFixed e (if eh then 4 else f.wordSize) (ptr ++ r) = .ok (p, r) ∧
      (if eh then base - p else p) = cieOff := by
  unfold fdeCiePointer at h
  cases eh with
  | true =>
    simp only [if_true] at h ⊢
    obtain ⟨h1, h2⟩ := Ints.writeUdata_roundtrip e _ 4 ptr r h (by omega)
    exact ⟨h1, _, h2, by omega⟩
  | false =>
    simp only [Bool.false_eq_true, if_false] at h ⊢
    obtain ⟨h1, h2⟩ := Ints.writeUdata_roundtrip e _ _ ptr r h (by omega)
    exact ⟨h1, _, h2, rfl⟩


theorem fdeAddrs_roundtrip (m : Mode) (e : Endian) (c : WCie) (f : WFde) (pos a : Nat) (addrs r : Bytes)
    (hs : c.addressSize = 1 ∨ c.addressSize = 2 ∨ c.addressSize = 4 ∨ c.addressSize = 8)
    (ha : f.address = .const a) (hav : a < 2 ^ (8 * c.addressSize)) (hl : f.length < 2 ^ 32)
    (h : fdeAddrs e c f pos = .ok addrs) :
    readFdeAddrs m e c.info pos (addrs ++ r) = .ok (a, f.length, r) := by
  unfold fdeAddrs at h
  unfold readFdeAddrs WCie.info
  simp only
  by_cases henc : (c.fdeAddressEncoding != 0) = true
  · rw [if_pos henc] at h ⊢
    obtain ⟨ab, hab, h⟩ := bind_ok_inv h
    obtain ⟨lb, hlb, h⟩ := bind_ok_inv h
    cases h
    rw [ha] at hab
    simp only
    rw [List.append_assoc,
      ehPointer_roundtrip m e pos a c.fdeAddressEncoding c.addressSize
        { addressSize := c.addressSize, sectionBase := some 0 } ab (lb ++ r) hs hav rfl rfl hab]
    simp only [Out.bind_ok]
    rw [ehPointerData_roundtrip e f.length c.fdeAddressEncoding c.addressSize lb r (by omega) hs hlb]
    rfl
  · rw [if_neg henc] at h ⊢
    obtain ⟨ab, hab, h⟩ := bind_ok_inv h
    obtain ⟨lb, hlb, h⟩ := bind_ok_inv h
    cases h
    rw [ha] at hab
    unfold writeAddress at hab
    simp only at hab ⊢
    have hav64 : a < 2 ^ 64 := by rcases hs with h | h | h | h <;> rw [h] at hav <;> omega
    unfold Ints.readAddress
    rw [if_pos hs, List.append_assoc, (Ints.writeUdata_roundtrip e a _ ab (lb ++ r) hab hav64).2]
    simp only [Out.bind_ok]
    rw [(Ints.writeUdata_roundtrip e f.length _ lb r hlb (by omega)).2, if_pos hs]
    rfl


theorem fdeAug_roundtrip (m : Mode) (e : Endian) (c : WCie) (f : WFde) (pos : Nat) (aug tail : Bytes)
    (g : Bytes → Nat)
    (hs : c.addressSize = 1 ∨ c.addressSize = 2 ∨ c.addressSize = 4 ∨ c.addressSize = 8)
    (hmatch : f.lsda.isSome = c.lsdaEncoding.isSome)
    (hlsda : ∀ l, f.lsda = some l → ∃ v, l = .const v ∧ v < 2 ^ (8 * c.addressSize))
    (hg : ∀ data : Bytes, aug = UInt8.ofNat data.length :: data → g (data ++ tail) = pos + 1)
    (h : fdeAugData m e c f pos = .ok aug) :
    readFdeAug m e c.info g (aug ++ tail) = .ok (expectedLsda c f, tail) := by
  unfold fdeAugData at h
  unfold readFdeAug WCie.info expectedLsda
  simp only
  cases hh : c.hasAugmentation with
  | false =>
    rw [hh] at h
    simp only [Bool.false_eq_true, if_false, Out.pure_eq] at h ⊢
    cases h
    cases hl : f.lsda with
    | none => rfl
    | some l =>
      cases he : c.lsdaEncoding with
      | none => cases l <;> rfl
      | some enc =>
        -- an LSDA encoding alone makes `has_augmentation` true
        exfalso
        unfold WCie.hasAugmentation at hh
        rw [he] at hh
        simp at hh
  | true =>
    rw [hh] at h
    simp only [if_true] at h ⊢
    rw [if_neg (fun hc => hc.2 hmatch)] at h
    cases hl : f.lsda with
    | none =>
      have he : c.lsdaEncoding = none := by
        rw [hl] at hmatch
        cases hce : c.lsdaEncoding with
        | none => rfl
        | some x => rw [hce] at hmatch; cases hmatch
      rw [hl, he] at h
      simp only [Out.pure_eq, Out.bind_ok] at h
      cases h
      rw [he]
      simp only [List.length_nil, List.cons_append, List.nil_append]
      rw [unsigned_small 0 (by decide)]
      simp only [Out.bind_ok]
      rw [show Ints.take 0 tail = .ok ([], tail) from by rw [Ints.take_ok _ _ (Nat.zero_le _)]; simp]
      rfl
    | some l =>
      obtain ⟨v, hv, hvlt⟩ := hlsda l hl
      subst hv
      cases he : c.lsdaEncoding with
      | none => rw [hl, he] at hmatch; cases hmatch
      | some enc =>
        rw [hl, he] at h
        simp only at h
        obtain ⟨data, hdata, h⟩ := bind_ok_inv h
        cases h
        have hdl := ehPointer_length e _ _ _ _ _ (fun w hw => by
          cases hw
          rcases hs with h' | h' | h' | h' <;> rw [h'] at hvlt <;> omega) hdata
        simp only [List.cons_append]
        rw [unsigned_small _ (by omega)]
        simp only [Out.bind_ok]
        rw [take_prefix]
        simp only [Out.bind_ok]
        rw [hg data rfl]
        have := ehPointer_roundtrip m e (pos + 1) v enc c.addressSize
          { addressSize := c.addressSize, sectionBase := some 0 } data [] hs hvlt rfl rfl hdata
        rw [List.append_nil] at this
        rw [this]
        rfl


theorem fde_header_roundtrip_main (m : Mode) (e : Endian) (eh : Bool) (off cieOff : Nat) (c : WCie) (f : WFde)
    (bs : Bytes) (a : Nat)
    (hs : c.addressSize = 1 ∨ c.addressSize = 2 ∨ c.addressSize = 4 ∨ c.addressSize = 8)
    (ha : f.address = .const a) (hav : a < 2 ^ (8 * c.addressSize)) (hl : f.length < 2 ^ 32)
    (hmatch : f.lsda.isSome = c.lsdaEncoding.isSome)
    (hlsda : ∀ l, f.lsda = some l → ∃ v, l = .const v ∧ v < 2 ^ (8 * c.addressSize))
    (hcie : cieOff ≤ off) (hend : off + bs.length < 2 ^ 64)
    (h : fdeWrite m e eh off cieOff c f = .ok bs) :
    ∃ ins n, fdeInstrsWrite e c.codeAlign c.dataAlign 0 f.instructions = .ok ins ∧
      readFdeHeader m e eh c.info off bs = .ok
        { format := c.format, length := bs.length - lenFieldSize c.format, cieOffset := cieOff,
          initialLocation := a, addressRange := f.length, lsda := expectedLsda c f,
          instructions := ins ++ List.replicate n 0 } := by
  unfold fdeWrite at h
  obtain ⟨ptr, hptr, h⟩ := bind_ok_inv h
  obtain ⟨addrs, haddrs, h⟩ := bind_ok_inv h
  obtain ⟨aug, haug, h⟩ := bind_ok_inv h
  obtain ⟨ins, hins, h⟩ := bind_ok_inv h
  obtain ⟨n, hn, h⟩ := bind_ok_inv h
  obtain ⟨lf, hlf, h⟩ := bind_ok_inv h
  cases h
  refine ⟨ins, n, hins, ?_⟩
  have hlfl := writeInitialLength_length _ _ _ _ hlf
  simp only [List.length_append, List.length_replicate] at hend
  have hbody : lf ++ (ptr ++ addrs ++ aug ++ ins) ++ List.replicate n 0 =
      lf ++ (ptr ++ (addrs ++ (aug ++ (ins ++ List.replicate n 0)))) := by
    simp only [List.append_assoc]
  rw [hbody]
  have hlen2 : (ptr ++ addrs ++ aug ++ ins).length + n =
      (ptr ++ (addrs ++ (aug ++ (ins ++ List.replicate n 0)))).length := by
    simp only [List.length_append, List.length_replicate]; omega
  have hL : (ptr ++ addrs ++ aug ++ ins).length + n < 2 ^ 64 := by
    simp only [List.length_append]; omega
  obtain ⟨hpl, p, hpr, hpc⟩ := fdeCiePointer_roundtrip e eh c.format (off + lenFieldSize c.format) cieOff ptr
    (addrs ++ (aug ++ (ins ++ List.replicate n 0))) (by omega) (by omega) hptr
  have hlenEq : (lf ++ (ptr ++ (addrs ++ (aug ++ (ins ++ List.replicate n 0))))).length - lenFieldSize c.format =
      (ptr ++ addrs ++ aug ++ ins).length + n := by
    rw [List.length_append, hlfl, ← hlen2]; omega
  rw [hlenEq]
  unfold readFdeHeader
  rw [(Ints.writeInitialLength_roundtrip e c.format _ lf _ hL hlf).1]
  simp only [Out.bind_ok]
  rw [take_all _ _ hlen2]
  simp only [Out.bind_ok]
  rw [hpr]
  simp only [Out.bind_ok]
  rw [← hpl, fdeAddrs_roundtrip m e c f _ a addrs _ hs ha hav hl haddrs]
  simp only [Out.bind_ok]
  have hkey := fdeAug_roundtrip m e c f (off + lenFieldSize c.format + ptr.length + addrs.length) aug
    (ins ++ List.replicate n (0 : UInt8))
    (fun (r1 : Bytes) => off + lenFieldSize c.format +
      ((ptr ++ (addrs ++ (aug ++ (ins ++ List.replicate n (0 : UInt8))))).length - r1.length))
    hs hmatch hlsda ?_ haug
  · rw [hkey]
    simp only [Out.bind_ok, Out.pure_eq]
    congr 2
  · intro data hd
    subst hd
    simp only [List.length_append, List.length_cons, List.length_replicate]
    omega

end Gimli.WCfi
