import Gimli.Lemmas.ReaderKinds
namespace Gimli.Rd

theorem Cur.bytes_eq_extract (c : Cur) : c.bytes = c.sec.extract c.off (c.off + c.len) := by
  simp [Cur.bytes, List.extract_eq_take_drop]

theorem Cur.bytes_length {c : Cur} (h : c.Inv) : c.bytes.length = c.len := by
  unfold Cur.Inv at h
  simp [Cur.bytes]; omega

/-- closed form of `split` (both concrete kinds) -/
theorem Slice.split_ok {n : Nat} {c r c' : Cur} (h : Slice.split n c = (.ok r, c')) :
    n ≤ c.len ∧ r = { c with len := n } ∧ c' = { c with off := c.off + n, len := c.len - n } := by
  unfold Slice.split Slice.readSliceRaw at h
  by_cases hl : c.len < n
  · simp [hl] at h
  · simp only [hl, if_false, Prod.mk.injEq, Out.ok.injEq] at h
    exact ⟨by omega, h.1.symm, h.2.symm⟩

theorem Slice.split_bytes {n : Nat} {c r c' : Cur} (h : Slice.split n c = (.ok r, c')) :
    r.bytes = c.bytes.take n ∧ c'.bytes = c.bytes.drop n ∧ r.bytes ++ c'.bytes = c.bytes := by
  obtain ⟨hn, rfl, rfl⟩ := Slice.split_ok h
  have h1 : ({ c with len := n } : Cur).bytes = c.bytes.take n := by
    simp only [Cur.bytes, List.take_take, Nat.min_eq_left hn]
  have h2 : ({ c with off := c.off + n, len := c.len - n } : Cur).bytes = c.bytes.drop n := by
    simp only [Cur.bytes, List.drop_take, List.drop_drop]
  exact ⟨h1, h2, by rw [h1, h2, List.take_append_drop]⟩

theorem Slice.readSlice_ok {n : Nat} {c c' : Cur} {bs : Bytes}
    (h : Slice.readSlice n c = (.ok bs, c')) :
    n ≤ c.len ∧ bs = c.sec.extract c.off (c.off + n) ∧ bs = c.bytes.take n ∧
      c' = { c with off := c.off + n, len := c.len - n } := by
  unfold Slice.readSlice Slice.readSliceRaw M.bind M.pure at h
  by_cases hl : c.len < n
  · simp [hl] at h
  · simp only [hl, if_false, Prod.mk.injEq, Out.ok.injEq] at h
    have hn : n ≤ c.len := by omega
    refine ⟨hn, ?_, ?_, h.2.symm⟩
    · rw [← h.1]; simp [Cur.bytes, List.extract_eq_take_drop]
    · rw [← h.1]; simp only [Cur.bytes, List.take_take, Nat.min_eq_left hn]

theorem position_spec {bs : Bytes} {b : UInt8} {i : Nat} (h : position bs b = some i) :
    ∃ hi : i < bs.length, bs[i] = b ∧ ∀ j (hj : j < i), bs[j]'(by omega) ≠ b := by
  unfold position at h
  obtain ⟨hi, h1, h2⟩ := List.findIdx?_eq_some_iff_getElem.mp h
  refine ⟨hi, by simpa using h1, fun j hj => ?_⟩
  have := h2 j hj
  simpa using this

/-- closed form of `read_null_terminated_slice` on a slice reader -/
theorem Slice.readNts_ok {c r c' : Cur} (h : Dflt.readNts sliceCore c = (.ok r, c')) :
    ∃ idx, position c.bytes 0 = some idx ∧ idx + 1 ≤ c.len ∧ r = { c with len := idx } ∧
      c' = { c with off := c.off + idx + 1, len := c.len - idx - 1 } := by
  unfold Dflt.readNts at h
  simp only [M.bind, M.liftOut, M.pure, sliceCore, Slice.find] at h
  cases hp : position c.bytes 0 with
  | none => rw [hp] at h; simp at h
  | some idx =>
    rw [hp] at h
    simp only at h
    refine ⟨idx, rfl, ?_⟩
    unfold Slice.split Slice.readSliceRaw Slice.skip at h
    by_cases hl : c.len < idx
    · simp [hl] at h
    · simp only [hl, if_false] at h
      by_cases hl2 : c.len - idx < 1
      · simp [hl2] at h
      · simp only [hl2, if_false, Prod.mk.injEq, Out.ok.injEq] at h
        refine ⟨by omega, h.1.symm, ?_⟩
        rw [← h.2]

/-! ## offset ids -/

theorem ptrLookup_offsetId {s r : Cur} (h1 : s.off ≤ r.off) (h2 : r.off ≤ s.off + s.len) :
    ptrLookup s (.inSec r.off) = some (r.off - s.off) := by
  simp [ptrLookup, h1, h2]

theorem ptrLookup_some {s : Cur} {id : Addr} {k : Nat} (h : ptrLookup s id = some k) :
    id = .inSec (s.off + k) ∧ k ≤ s.len := by
  unfold ptrLookup at h
  cases id with
  | inSec n =>
    simp only at h
    split at h
    · cases h
      rename_i hh
      exact ⟨by congr 1; omega, by omega⟩
    · cases h

theorem ptrOffsetFrom_within (m : Mode) {s r : Cur} (h1 : s.off ≤ r.off)
    (h2 : r.off + r.len ≤ s.off + s.len) : ptrOffsetFrom m r s = .ok (r.off - s.off) := by
  cases m <;> simp [ptrOffsetFrom, h1, h2]

/-- a decoder of C09 run through `via` on a window inside the section: the reader returns exactly
what the decoder returns on the window's bytes and continues on exactly the bytes it left -/
theorem via_ok {α : Type} (f : Bytes → Out (α × Bytes)) (adv : Bytes → Err → Nat) (c c' : Cur)
    (v : α) (hinv : c.Inv)
    (hsuffix : ∀ v rest, f c.bytes = .ok (v, rest) → ∃ pre, c.bytes = pre ++ rest)
    (h : Dflt.via sharedCore f adv c = (.ok v, c')) :
    ∃ rest, f c.bytes = .ok (v, rest) ∧ c'.sec = c.sec ∧ c'.bytes = rest ∧
      c'.off = c.off + (c.len - rest.length) ∧ c'.len = rest.length := by
  unfold Dflt.via at h
  simp only [sharedCore, Shared.toSlice, SubRange.bytes] at h
  cases hf : f c.bytes with
  | ok p =>
    obtain ⟨v', rest⟩ := p
    rw [hf] at h
    simp only [Prod.mk.injEq, Out.ok.injEq] at h
    obtain ⟨hv, hc'⟩ := h
    subst hv
    obtain ⟨pre, hpre⟩ := hsuffix v' rest hf
    have hl : c.bytes.length = c.len := Cur.bytes_length hinv
    have hlen : pre.length + rest.length = c.len := by
      rw [← hl, hpre]; simp
    have hk : c.bytes.length - rest.length = pre.length := by omega
    rw [hk, Shared.skip_eq] at hc'
    unfold Slice.skip at hc'
    have : ¬ c.len < pre.length := by omega
    simp only [this, if_false] at hc'
    subst hc'
    refine ⟨rest, rfl, rfl, ?_, by simp only; omega, by simp only; omega⟩
    -- the bytes of the advanced window are the decoder's rest
    have hb : c.bytes = (c.sec.drop c.off).take c.len := rfl
    simp only [Cur.bytes]
    have h1 : (c.sec.drop (c.off + pre.length)).take (c.len - pre.length) = c.bytes.drop pre.length := by
      rw [hb, List.drop_take, List.drop_drop]
    rw [h1, hpre]
    simp
  | err x => rw [hf] at h; simp at h
  | panic w => rw [hf] at h; simp at h
  | diverge => rw [hf] at h; simp at h

end Gimli.Rd
