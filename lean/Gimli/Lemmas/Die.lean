import Gimli.Lemmas.Attr
import Gimli.Lemmas.AttrNormal
import Gimli.Model.Die
/-! Helper lemmas for C02, part 1 (no forest yet): every read leaves at most what it was given
and `read_entry` consumes at least one byte; the cursor's `next_entry` loop is the raw loop;
`next_dfs` is `next_entry` minus the null entries — for every input. -/
namespace Gimli.Die
open Gimli Gimli.Attr Gimli.Abbrev Gimli.Ints

/-! ### nothing grows: every read leaves at most what it was given -/

theorem unsigned_shrinks {bs : Bytes} {v : Nat} {rest : Bytes} (h : Leb.unsigned bs = .ok (v, rest)) :
    rest.length < bs.length := by
  obtain ⟨pre, hbs, henc, _, _, _⟩ := Leb.unsigned_sound bs v rest h
  subst hbs
  cases pre with
  | nil => simp [Spec.IsLebEnc] at henc
  | cons b tl => simp only [List.cons_append, List.length_cons, List.length_append]; omega

theorem skip_le (bs : Bytes) : ∀ rest, Leb.skip bs = .ok rest → rest.length < bs.length := by
  induction bs with
  | nil => intro rest h; simp [Leb.skip] at h
  | cons b tl ih =>
    intro rest h
    rw [Leb.skip] at h
    split at h
    · simp only [Out.ok.injEq] at h; subst h; simp
    · have := ih rest h; simp only [List.length_cons]; omega

theorem consumes_le {n : Nat} {bs rest : Bytes} (h : Consumes n bs rest) : rest.length ≤ bs.length := by
  rw [h.2]; simp

theorem readCStr_le (bs : Bytes) : ∀ s rest, readCStr bs = .ok (s, rest) → rest.length < bs.length := by
  induction bs with
  | nil => intro s rest h; simp [readCStr] at h
  | cons b tl ih =>
    intro s rest h
    rw [readCStr] at h
    split at h
    · simp only [Out.ok.injEq, Prod.mk.injEq] at h; rw [← h.2]; simp
    · obtain ⟨⟨s', r'⟩, h1, h2⟩ := bind_ok_inv h
      simp only [Out.pure_eq, Out.ok.injEq, Prod.mk.injEq] at h2
      have := ih s' r' h1
      rw [← h2.2]; simp only [List.length_cons]; omega

theorem blockV_le {k : Kind} {r : Out (Nat × Bytes)} {bs : Bytes} {v : Value} {rest : Bytes}
    (hr : ∀ x r1, r = .ok (x, r1) → r1.length ≤ bs.length)
    (h : blockV k r = .ok (v, rest)) : rest.length ≤ bs.length := by
  unfold blockV at h
  obtain ⟨⟨len, r1⟩, h1, h2⟩ := bind_ok_inv h
  obtain ⟨⟨b, r2⟩, h3, h4⟩ := bind_ok_inv h2
  simp only [Out.pure_eq, Out.ok.injEq, Prod.mk.injEq] at h4
  have := consumes_le (take_consumes h3)
  have := hr len r1 h1
  rw [← h4.2]; omega

theorem parseDirect_le {enc : Encoding} {spec : Spec} {form : Form} {bs : Bytes} {v : Value}
    {rest : Bytes} (h : parseDirect enc spec form bs = .ok (v, rest)) : rest.length ≤ bs.length := by
  cases hsz : getAttributeSize form enc with
  | some n => exact consumes_le (parseDirect_fixed hsz h)
  | none =>
    cases form <;> simp only [getAttributeSize, reduceCtorEq] at hsz <;> simp only [parseDirect] at h
    case indirect => simp at h
    case unknown c => simp at h
    case string =>
      obtain ⟨⟨s, r⟩, h1, h2⟩ := bind_ok_inv h
      simp only [Out.pure_eq, Out.ok.injEq, Prod.mk.injEq] at h2
      have := readCStr_le _ _ _ h1
      rw [← h2.2]; omega
    case sdata =>
      obtain ⟨⟨s, r⟩, h1, h2⟩ := bind_ok_inv h
      simp only [Out.pure_eq, Out.ok.injEq, Prod.mk.injEq] at h2
      have := skip_le _ _ (skip_of_signed h1)
      rw [← h2.2]; omega
    all_goals first
      | (refine blockV_le (bs := bs) ?_ h
         intro x r1 hx
         first
          | exact consumes_le (readFixed_consumes hx)
          | exact Nat.le_of_lt (unsigned_shrinks hx))
      | (refine Exists.elim (numV_ok h) ?_
         intro x hx
         exact Nat.le_of_lt (unsigned_shrinks hx.1))

theorem parseLoop_le (enc : Encoding) (spec : Spec) : ∀ (fuel : Nat) (form : Form) (bs : Bytes) (v : Value)
    (rest : Bytes), Attr.parseLoop enc spec fuel form bs = .ok (v, rest) → rest.length ≤ bs.length := by
  intro fuel
  induction fuel with
  | zero => intro form bs v rest h; simp [Attr.parseLoop] at h
  | succ fuel ih =>
    intro form bs v rest h
    by_cases hi : form = .indirect
    · subst hi
      rw [parseLoop_succ_indirect] at h
      obtain ⟨⟨c, r1⟩, h1, h2⟩ := bind_ok_inv h
      have := u16_shrinks h1
      have := ih _ _ _ _ h2
      simp only at this; omega
    · rw [parseLoop_succ_direct _ _ _ _ _ hi] at h
      exact parseDirect_le h

theorem readAttributes_le (enc : Encoding) (specs : List Spec) : ∀ (bs : Bytes) (vs : List Value)
    (rest : Bytes), readAttributes enc specs bs = .ok (vs, rest) → rest.length ≤ bs.length := by
  induction specs with
  | nil =>
    intro bs vs rest h
    simp only [readAttributes, Out.ok.injEq, Prod.mk.injEq] at h; rw [h.2]; exact Nat.le_refl _
  | cons s ss ih =>
    intro bs vs rest h
    rw [readAttributes] at h
    obtain ⟨⟨v, r1⟩, h1, h2⟩ := bind_ok_inv h
    obtain ⟨⟨vs', r2⟩, h3, h4⟩ := bind_ok_inv h2
    simp only [Out.pure_eq, Out.ok.injEq, Prod.mk.injEq] at h4
    have := parseLoop_le _ _ _ _ _ _ _ h1
    have := ih _ _ _ h3
    rw [← h4.2]; omega

/-- `read_abbreviation` consumes at least one byte and leaves `end_offset` alone -/
theorem readAbbreviation_shrinks {ctx : Ctx} {r r' : Raw} {a : Option Abbreviation}
    (h : r.readAbbreviation ctx = .ok (a, r')) :
    r'.input.length < r.input.length ∧ r'.endOffset = r.endOffset := by
  unfold Raw.readAbbreviation at h
  obtain ⟨⟨code, rest⟩, h1, h2⟩ := bind_ok_inv h
  have hs := unsigned_shrinks h1
  simp only at h2
  split at h2
  · simp only [Out.pure_eq, Out.ok.injEq, Prod.mk.injEq] at h2
    rw [← h2.2]; exact ⟨hs, rfl⟩
  · split at h2
    · simp at h2
    · simp only [Out.pure_eq, Out.ok.injEq, Prod.mk.injEq] at h2
      rw [← h2.2]; exact ⟨hs, rfl⟩

/-- `read_entry` consumes at least one byte and leaves `end_offset` alone -/
theorem readEntry_shrinks {ctx : Ctx} {r r' : Raw} {e : Entry} (h : r.readEntry ctx = .ok (e, r')) :
    r'.input.length < r.input.length ∧ r'.endOffset = r.endOffset := by
  unfold Raw.readEntry at h
  obtain ⟨⟨a, r1⟩, h1, h2⟩ := bind_ok_inv h
  obtain ⟨hs, he⟩ := readAbbreviation_shrinks h1
  simp only at h2
  split at h2
  · simp only [Out.pure_eq, Out.ok.injEq, Prod.mk.injEq] at h2
    rw [← h2.2]; exact ⟨hs, he⟩
  · obtain ⟨⟨vs, rest⟩, h3, h4⟩ := bind_ok_inv h2
    simp only [Out.pure_eq, Out.ok.injEq, Prod.mk.injEq] at h4
    have := readAttributes_le _ _ _ _ _ h3
    rw [← h4.2]; simp only
    exact ⟨by omega, he⟩


/-! ### the cursor's `next_entry` loop is the raw loop -/

theorem nextEntry_empty {ctx : Ctx} {c : Cursor} (h : c.raw.input.isEmpty = true) :
    c.nextEntry ctx = .ok (false, { c with cur := c.cur.setNull }) := by
  simp [Cursor.nextEntry, h]

theorem nextEntry_read {ctx : Ctx} {c : Cursor} (h : c.raw.input.isEmpty = false) :
    c.nextEntry ctx = (c.raw.readEntry ctx >>= fun x => pure (true, { raw := x.2, cur := x.1 })) := by
  simp [Cursor.nextEntry, h]

theorem entryAll_eq_rawAll (ctx : Ctx) : ∀ (fuel : Nat) (c : Cursor),
    entryAll ctx fuel c = rawAll ctx fuel c.raw := by
  intro fuel
  induction fuel with
  | zero => intro c; rfl
  | succ fuel ih =>
    intro c
    rw [entryAll, rawAll]
    cases he : c.raw.input.isEmpty with
    | true => simp [nextEntry_empty he]
    | false =>
      rw [nextEntry_read he]
      cases hr : c.raw.readEntry ctx with
      | ok p =>
        obtain ⟨e, r⟩ := p
        simp only [Out.bind_ok, Out.pure_eq, Bool.false_eq_true, if_false]
        rw [ih]
      | err x => simp [Trace.fail]
      | panic w => simp [Trace.fail]
      | diverge => simp [Trace.fail]


/-! ### `next_dfs` is `next_entry` skipping null entries -/

theorem nextDfs_succ (ctx : Ctx) (g : Nat) (c : Cursor) :
    Cursor.nextDfs ctx (g + 1) c =
      (c.nextEntry ctx >>= fun x =>
        if x.1 then (if !x.2.cur.isNull then pure (some x.2.cur, x.2) else Cursor.nextDfs ctx g x.2)
        else pure (none, x.2)) := by
  rw [Cursor.nextDfs]

theorem nextDfs_empty {ctx : Ctx} {c : Cursor} (g : Nat) (h : c.raw.input.isEmpty = true) :
    Cursor.nextDfs ctx (g + 1) c = .ok (none, { c with cur := c.cur.setNull }) := by
  rw [nextDfs_succ, nextEntry_empty h]; rfl

theorem nextDfs_read {ctx : Ctx} {c : Cursor} (g : Nat) (h : c.raw.input.isEmpty = false) :
    Cursor.nextDfs ctx (g + 1) c =
      (c.raw.readEntry ctx >>= fun x =>
        if !x.1.isNull then pure (some x.1, { raw := x.2, cur := x.1 })
        else Cursor.nextDfs ctx g { raw := x.2, cur := x.1 }) := by
  rw [nextDfs_succ, nextEntry_read h]
  cases c.raw.readEntry ctx <;> simp

theorem nextDfs_fuel (ctx : Ctx) : ∀ (g g' : Nat) (c : Cursor), c.raw.input.length < g →
    c.raw.input.length < g' → Cursor.nextDfs ctx g c = Cursor.nextDfs ctx g' c := by
  intro g
  induction g with
  | zero => intro g' c h; omega
  | succ g ih =>
    intro g' c h h'
    obtain ⟨g', rfl⟩ : ∃ k, g' = k + 1 := ⟨g' - 1, by omega⟩
    cases he : c.raw.input.isEmpty with
    | true => rw [nextDfs_empty _ he, nextDfs_empty _ he]
    | false =>
      rw [nextDfs_read _ he, nextDfs_read _ he]
      cases hr : c.raw.readEntry ctx with
      | ok p =>
        obtain ⟨e, r⟩ := p
        simp only [Out.bind_ok]
        split
        · rfl
        · have := (readEntry_shrinks hr).1
          exact ih g' _ (by simp only; omega) (by simp only; omega)
      | err x => rfl
      | panic w => rfl
      | diverge => rfl

/-- **the depth-first cursor reports the raw listing without its null entries** — for every
input, well formed or not, and also when the listing ends in an error -/
theorem dfsAll_of_rawAll (ctx : Ctx) : ∀ (n : Nat) (r : Raw) (es : List Entry) (en : Out Unit),
    rawAll ctx n r = (es, en) → en ≠ .diverge → ∀ (m : Nat) (cur : Entry), n ≤ m →
    dfsAll ctx m ⟨r, cur⟩ = (es.filter (fun e => !e.isNull), en) := by
  intro n
  induction n with
  | zero => intro r es en h hd; simp [rawAll] at h; exact absurd h.2.symm hd
  | succ n ih =>
    intro r es en h hd m cur hm
    obtain ⟨m, rfl⟩ : ∃ k, m = k + 1 := ⟨m - 1, by omega⟩
    rw [rawAll] at h
    rw [dfsAll]
    cases he : r.input.isEmpty with
    | true =>
      simp only [he, if_true, Prod.mk.injEq] at h
      rw [nextDfs_empty (c := ⟨r, cur⟩) _ he]
      simp [← h.1, ← h.2]
    | false =>
      simp only [he, Bool.false_eq_true, if_false] at h
      rw [nextDfs_read (c := ⟨r, cur⟩) _ he]
      cases hr : r.readEntry ctx with
      | ok p =>
        obtain ⟨e, r'⟩ := p
        rw [hr] at h
        simp only [Trace.cons, Prod.mk.injEq] at h
        obtain ⟨h1, h2⟩ := h
        have hrec : rawAll ctx n r' = ((rawAll ctx n r').1, en) := by rw [← h2]
        simp only [Out.bind_ok]
        cases hn : e.isNull with
        | false =>
          simp only [Bool.not_false, if_true, Out.pure_eq]
          rw [ih r' _ en hrec hd m e (by omega)]
          simp [Trace.cons, ← h1, hn]
        | true =>
          simp only [Bool.not_true, Bool.false_eq_true, if_false]
          have hlt := (readEntry_shrinks hr).1
          rw [nextDfs_fuel ctx _ (r'.input.length + 1) ⟨r', e⟩ (by simp only; omega) (by simp only; omega)]
          have := ih r' _ en hrec hd (m + 1) e (by omega)
          rw [dfsAll] at this
          simp only at this
          rw [this]
          simp [← h1, hn]
      | err x =>
        rw [hr] at h
        simp only [Trace.fail, Prod.mk.injEq] at h
        simp [Trace.fail, ← h.1, ← h.2]
      | panic w =>
        rw [hr] at h
        simp only [Trace.fail, Prod.mk.injEq] at h
        simp [Trace.fail, ← h.1, ← h.2]
      | diverge =>
        rw [hr] at h
        simp only [Trace.fail, Prod.mk.injEq] at h
        simp [Trace.fail, ← h.1, ← h.2]

end Gimli.Die
