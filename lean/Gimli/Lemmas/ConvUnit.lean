import Gimli.Spec.ConvUnit
/-! Helper lemmas for the unit / attribute component of C12. -/
namespace Gimli.ConvUnit
open Gimli Gimli.Attr Gimli.WUnit

/-- the structural part of `convertEntries`: (id, parent, tag) of every created entry and the
stack afterwards -/
def runStack (ids : Nat → Option Nat) : List RItem → List (Int × Nat) → List (Nat × Nat × Nat) × List (Int × Nat)
  | [], st => ([], st)
  | it :: rest, st =>
    let st1 := popParents it.depth st
    let parent := match st1 with | (_, p) :: _ => p | [] => 0
    match ids it.off with
    | some i =>
      let st2 := if it.children then (it.depth, i) :: st1 else st1
      let r := runStack ids rest st2
      ((i, parent, it.tag) :: r.1, r.2)
    | none => runStack ids rest st1

theorem runStack_append (ids : Nat → Option Nat) : ∀ (l1 l2 : List RItem) (st : List (Int × Nat)),
    runStack ids (l1 ++ l2) st =
      ((runStack ids l1 st).1 ++ (runStack ids l2 (runStack ids l1 st).2).1,
       (runStack ids l2 (runStack ids l1 st).2).2)
  | [], l2, st => by simp [runStack]
  | it :: rest, l2, st => by
    simp only [List.cons_append, runStack]
    cases h : ids it.off with
    | none => simp only; exact runStack_append ids rest l2 _
    | some i => simp only; rw [runStack_append ids rest l2 _]; simp

def AllGe (d : Int) (x : List (Int × Nat)) : Prop := ∀ e ∈ x, d ≤ e.1

theorem popParents_append_ge (d : Int) : ∀ (x st : List (Int × Nat)), AllGe d x →
    popParents d (x ++ st) = popParents d st
  | [], st, _ => rfl
  | (e, i) :: x, st, h => by
    have he : d ≤ e := h (e, i) (List.mem_cons_self ..)
    have hn : ¬ e < d := by omega
    simp only [List.cons_append, popParents, hn, if_false]
    exact popParents_append_ge d x st (fun y hy => h y (List.mem_cons_of_mem _ hy))

theorem popParents_idem (d e : Int) (hde : d ≤ e) : ∀ (st : List (Int × Nat)),
    popParents e (popParents d st) = popParents d st
  | [] => rfl
  | (x, i) :: rest => by
    by_cases hx : x < d
    · have : x < e := by omega
      simp [popParents, hx, this]
    · simp only [popParents, hx, if_false]
      exact popParents_idem d e hde rest

theorem popParents_split (d : Int) : ∀ (st : List (Int × Nat)),
    ∃ x, st = x ++ popParents d st ∧ AllGe d x
  | [] => ⟨[], rfl, fun _ h => by cases h⟩
  | (e, i) :: rest => by
    by_cases he : e < d
    · exact ⟨[], by simp [popParents, he], fun _ h => by cases h⟩
    · obtain ⟨x, hx, hg⟩ := popParents_split d rest
      refine ⟨(e, i) :: x, by simp only [popParents, he, if_false, List.cons_append]; rw [← hx], ?_⟩
      intro y hy
      simp only [List.mem_cons] at hy
      rcases hy with hy | hy
      · subst hy; simp only; omega
      · exact hg y hy

theorem AllGe.mono {d e : Int} {x : List (Int × Nat)} (h : AllGe e x) (hde : d ≤ e) : AllGe d x :=
  fun y hy => Int.le_trans hde (h y hy)

def top (st : List (Int × Nat)) : Nat := match st with | (_, p) :: _ => p | [] => 0

/-- **The stack algorithm of `read_entry` reconstructs the forest.** -/
theorem runStack_forest (ids : Nat → Option Nat) : ∀ (f : IForest) (d : Int) (st : List (Int × Nat)),
    f.WF → f.HasIds ids →
    (runStack ids (f.items d) st).1 = f.flatten (top (popParents d st)) ∧
    ∃ x, (runStack ids (f.items d) st).2 = x ++ popParents d st ∧ AllGe d x
  | .nil, d, st, _, _ => by
    simp only [IForest.items, runStack, IForest.flatten, true_and]
    exact popParents_split d st
  | .node id tag ch off attrs kids sibs, d, st, hwf, hid => by
    obtain ⟨hch, hwk, hws⟩ := hwf
    obtain ⟨hi, hik, his⟩ := hid
    simp only [IForest.items, runStack, hi]
    rw [runStack_append]
    simp only [IForest.flatten]
    -- the stack after this entry
    cases ch with
    | true =>
      simp only [if_true]
      obtain ⟨k1, x1, hx1, hg1⟩ := runStack_forest ids kids (d + 1) ((d, id) :: popParents d st) hwk hik
      have hpk : popParents (d + 1) ((d, id) :: popParents d st) = (d, id) :: popParents d st := by
        have : d < d + 1 := by omega
        simp only [popParents, this, if_true]
      rw [hpk] at k1 hx1
      obtain ⟨s1, x2, hx2, hg2⟩ := runStack_forest ids sibs d
        (runStack ids (kids.items (d + 1)) ((d, id) :: popParents d st)).2 hws his
      have hps : popParents d (runStack ids (kids.items (d + 1)) ((d, id) :: popParents d st)).2 = popParents d st := by
        rw [hx1, popParents_append_ge d x1 _ (hg1.mono (by omega))]
        simp only [popParents, Int.lt_irrefl, if_false]
        exact popParents_idem d d (Int.le_refl _) st
      rw [hps] at s1 hx2
      refine ⟨?_, x2, hx2, hg2⟩
      rw [k1, s1]
      rfl
    | false =>
      simp only [Bool.false_eq_true, if_false]
      have hk : kids = .nil := hch rfl
      subst hk
      simp only [IForest.items, runStack, IForest.flatten, List.nil_append]
      obtain ⟨s1, x2, hx2, hg2⟩ := runStack_forest ids sibs d (popParents d st) hws his
      rw [popParents_idem d d (Int.le_refl _) st] at s1 hx2
      exact ⟨by rw [s1]; rfl, x2, hx2, hg2⟩

/-- (id, parent, tag) of a created entry -/
def Created.shape (c : Created) : Nat × Nat × Nat := (c.id, c.parent, c.tag)

theorem except_bind_ok {ε α β : Type} {x : Except ε α} {f : α → Except ε β} {b : β}
    (h : (x >>= f) = .ok b) : ∃ a, x = .ok a ∧ f a = .ok b := by
  cases x with
  | error e => cases h
  | ok a => exact ⟨a, rfl, h⟩

theorem except_bind_error {ε α β : Type} {x : Except ε α} {f : α → Except ε β} {e : ε}
    (h : (x >>= f) = .error e) : x = .error e ∨ ∃ a, x = .ok a ∧ f a = .error e := by
  cases x with
  | error e' => left; cases h; rfl
  | ok a => right; exact ⟨a, rfl, h⟩

/-- `convertEntries` creates exactly the entries `runStack` describes (when it succeeds) -/
theorem convertEntries_shape (cx : Ctx) (ids : Nat → Option Nat) : ∀ (l : List RItem) (st : List (Int × Nat))
    (cs : List Created), convertEntries cx ids l st = .ok cs → cs.map Created.shape = (runStack ids l st).1
  | [], st, cs, h => by
    simp only [convertEntries, Except.ok.injEq] at h
    subst h; rfl
  | it :: rest, st, cs, h => by
    rw [convertEntries] at h
    simp only [runStack]
    cases hid : ids it.off with
    | none =>
      simp only [hid] at h ⊢
      exact convertEntries_shape cx ids rest _ cs h
    | some i =>
      simp only [hid] at h ⊢
      obtain ⟨as, _, h⟩ := except_bind_ok h
      obtain ⟨more, hm, h⟩ := except_bind_ok h
      simp only [pure, Except.pure, Except.ok.injEq] at h
      subst h
      simp only [List.map_cons, Created.shape]
      rw [← convertEntries_shape cx ids rest _ more hm]
      rfl

/-- `convertAttrs` fails only with the error of one of the attributes it was given -/
theorem convertAttrs_error (cx : Ctx) : ∀ (l : List RAttr) (acc : List (Nat × AttrVal)) (e : CErr),
    convertAttrs cx l acc = .error e → ∃ a ∈ l, convertValue cx a = .error e
  | [], acc, e, h => by simp [convertAttrs] at h
  | a :: rest, acc, e, h => by
    rw [convertAttrs] at h
    by_cases hn : a.name = DW_AT_GNU_locviews
    · simp only [hn, if_true] at h
      obtain ⟨b, hb, he⟩ := convertAttrs_error cx rest acc e h
      exact ⟨b, List.mem_cons_of_mem _ hb, he⟩
    · simp only [hn, if_false] at h
      rcases except_bind_error h with h | ⟨v, _, h⟩
      · exact ⟨a, List.mem_cons_self .., h⟩
      · obtain ⟨b, hb, he⟩ := convertAttrs_error cx rest _ e h
        exact ⟨b, List.mem_cons_of_mem _ hb, he⟩

/-- `convertEntries` fails only with the error of an attribute of one of the entries -/
theorem convertEntries_error (cx : Ctx) (ids : Nat → Option Nat) : ∀ (l : List RItem) (st : List (Int × Nat))
    (e : CErr), convertEntries cx ids l st = .error e →
    ∃ it ∈ l, ∃ a ∈ it.attrs, convertValue cx a = .error e
  | [], st, e, h => by simp [convertEntries] at h
  | it :: rest, st, e, h => by
    rw [convertEntries] at h
    cases hid : ids it.off with
    | none =>
      simp only [hid] at h
      obtain ⟨j, hj, r⟩ := convertEntries_error cx ids rest _ e h
      exact ⟨j, List.mem_cons_of_mem _ hj, r⟩
    | some i =>
      simp only [hid] at h
      rcases except_bind_error h with h | ⟨as, _, h⟩
      · obtain ⟨a, ha, he⟩ := convertAttrs_error cx _ _ e h
        simp only [filterAttrs, List.mem_filter] at ha
        exact ⟨it, List.mem_cons_self .., a, ha.1, he⟩
      · rcases except_bind_error h with h | ⟨more, _, h⟩
        · obtain ⟨j, hj, r⟩ := convertEntries_error cx ids rest _ e h
          exact ⟨j, List.mem_cons_of_mem _ hj, r⟩
        · simp [pure, Except.pure] at h

end Gimli.ConvUnit
