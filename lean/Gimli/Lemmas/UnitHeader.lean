import Gimli.Lemmas.AttrRoundtrip
import Gimli.Spec.Unit
/-! Helper lemmas for C02, part 4: parsing the encoding of a unit header gives back its fields. -/
namespace Gimli.Die
open Gimli Gimli.Attr Gimli.Ints Gimli.Spec.Unit

theorem parseUnitType_rt (e : Endian) (f : Format) (ut : UnitType) (rest : Bytes)
    (hv : match ut with
      | .compilation | .partialUnit => True
      | .typeUnit sig off | .splitType sig off => sig < 2 ^ 64 ∧ off < 2 ^ (8 * f.wordSize)
      | .skeleton id | .splitCompilation id => id < 2 ^ 64) :
    parseUnitType e f (unitTypeCode ut) (typeSpecific e f ut ++ rest) = .ok (ut, rest) := by
  cases ut <;> simp only [unitTypeCode, typeSpecific, parseUnitType] <;> simp only at hv
  case compilation => simp
  case partialUnit => simp
  case typeUnit sig off =>
    simp only [List.append_assoc, readFixed_rt e 8 sig _ hv.1]
    simp only [Out.bind_ok]
    rw [readWord_rt e f off rest hv.2]
    simp
  case splitType sig off =>
    simp only [List.append_assoc, readFixed_rt e 8 sig _ hv.1]
    simp only [Out.bind_ok]
    rw [readWord_rt e f off rest hv.2]
    simp
  case skeleton id =>
    simp only [readFixed_rt e 8 id _ hv]
    simp
  case splitCompilation id =>
    simp only [readFixed_rt e 8 id _ hv]
    simp

theorem readInitialLength_rt (e : Endian) (f : Format) (len : Nat) (rest : Bytes)
    (hl : match f with | .dwarf32 => len < 0xffff_fff0 | .dwarf64 => len < 2 ^ 64) :
    readInitialLength e 64 (encodeLength e f len ++ rest) = .ok ((len, f), rest) := by
  cases f with
  | dwarf32 =>
    simp only at hl
    simp only [encodeLength, readInitialLength]
    rw [readFixed_rt e 4 len rest (by omega)]
    simp [hl]
  | dwarf64 =>
    simp only at hl
    simp only [encodeLength, readInitialLength, List.append_assoc]
    rw [readFixed_rt e 4 0xffff_ffff _ (by decide)]
    simp only [Out.bind_ok]
    rw [readFixed_rt e 8 len rest hl]
    simp [offsetFromU64, hl]

theorem readAddressSize_rt (n : Nat) (rest : Bytes) (hn : n = 1 ∨ n = 2 ∨ n = 4 ∨ n = 8) :
    readAddressSize (UInt8.ofNat n :: rest) = .ok (n, rest) := by
  rcases hn with rfl | rfl | rfl | rfl <;> simp [readAddressSize]


/-- the header of every valid unit parses back to its fields; the entries buffer is exactly the
entries and the input is left exactly behind the unit -/
theorem parseUnitHeader_rt (e : Endian) (sect : Sect) (off : Nat) (h : Header) (entries after : Bytes)
    (hv : Valid h sect (unitLength e h entries)) :
    parseUnitHeader e sect off (encodeUnit e h entries ++ after) =
      .ok ({ enc := { endian := e, addressSize := h.addressSize, format := h.format, version := h.version },
             unitLength := unitLength e h entries, unitType := h.unitType,
             abbrevOffset := h.abbrevOffset, sect := sect, unitOffset := off, entriesBuf := entries },
           after) := by
  obtain ⟨⟨hv2, hv5⟩, hasz, hao, hut, hsect, hlen⟩ := hv
  unfold parseUnitHeader encodeUnit
  rw [List.append_assoc, readInitialLength_rt e h.format _ _ hlen]
  simp only [Out.bind_ok]
  have htake : Ints.take (unitLength e h entries) ((encodeBody e h ++ entries) ++ after)
      = .ok (encodeBody e h ++ entries, after) := by
    have := take_rt (encodeBody e h ++ entries) after
    simpa [unitLength] using this
  rw [htake]
  simp only [Out.bind_ok, encodeBody, List.append_assoc]
  rw [readFixed_rt e 2 h.version _ (by omega)]
  simp only [Out.bind_ok]
  by_cases h5 : h.version = 5
  · have hn24 : ¬ (2 ≤ h.version ∧ h.version ≤ 4) := by omega
    simp only [h5, if_true, List.cons_append]
    have hcode : (UInt8.ofNat (unitTypeCode h.unitType)).toNat = unitTypeCode h.unitType := by
      cases h.unitType <;> simp [unitTypeCode]
    rw [readFixed_one]
    simp only [show ¬ ((2 : Nat) ≤ 5 ∧ (5 : Nat) ≤ 4) by omega, if_false, Out.bind_ok]
    rw [readAddressSize_rt _ _ hasz]
    simp only [Out.bind_ok]
    rw [readWord_rt e h.format h.abbrevOffset _ hao]
    simp only [Out.bind_ok, Out.pure_eq, hcode]
    rw [parseUnitType_rt e h.format h.unitType entries hut]
    simp
  · have h24 : 2 ≤ h.version ∧ h.version ≤ 4 := by omega
    simp only [h24, and_self, h5, if_true, if_false, List.append_assoc, List.cons_append, List.nil_append]
    rw [readWord_rt e h.format h.abbrevOffset _ hao]
    simp only [Out.bind_ok]
    rw [readAddressSize_rt _ _ hasz]
    simp only [Out.bind_ok, Out.pure_eq]
    rcases hsect (by omega) with ⟨hs, hu⟩ | ⟨hs, s, o, hu⟩
    · subst hs
      rw [hu]
      simp [parseUnitType, typeSpecific]
    · subst hs
      rw [hu] at hut ⊢
      have := parseUnitType_rt e h.format (.typeUnit s o) entries hut
      simp only [unitTypeCode] at this
      simp only
      rw [this]
      simp


theorem encodeLength_length (e : Endian) (f : Format) (len : Nat) :
    (encodeLength e f len).length = initialLengthSize f := by
  cases f <;> simp [encodeLength, initialLengthSize, toBytes_length]

theorem typeSpecific_length (e : Endian) (f : Format) (ut : UnitType) :
    (typeSpecific e f ut).length =
      (match ut with
       | .compilation | .partialUnit => 0
       | .typeUnit _ _ | .splitType _ _ => 8 + f.wordSize
       | .skeleton _ | .splitCompilation _ => 8) := by
  cases ut <;> simp [typeSpecific, toBytes_length]

theorem encodeBody_length (e : Endian) (h : Header) :
    (encodeBody e h).length =
      2 + h.format.wordSize + 1 + (if h.version = 5 then 1 else 0) +
        (match h.unitType with
         | .compilation | .partialUnit => 0
         | .typeUnit _ _ | .splitType _ _ => 8 + h.format.wordSize
         | .skeleton _ | .splitCompilation _ => 8) := by
  unfold encodeBody
  simp only [List.length_append, toBytes_length, typeSpecific_length]
  split <;> simp [toBytes_length] <;> omega

end Gimli.Die
