import Gimli.Model.Names
import Gimli.Lemmas.Ints
import Gimli.Lemmas.C17Util
/-!
# Lemmas for C17, `.debug_names`

* `new_layout`: the layout arithmetic of `NameIndex::new`;
* a *well-formed hash table* (`WellFormed`, `EncodesTable`): names grouped by
  `hash % bucket_count`, the bucket array pointing at the 1-based start of each non-empty group;
* `bucket_scan` / `findByHash_scan`: on such a table the bucket iterator and the hash iterator
  return exactly what an exhaustive scan of the whole hash array returns
  (`scanBucket`, `scanHash`), and they stop by the modulo rule.
-/
namespace Gimli.Names
open Gimli Gimli.Ints
open Gimli.Aranges (Item)

/-- an array of `u32`s -/
def enc32 (e : Endian) (vs : List Nat) : Bytes := vs.flatMap (fun v => toBytes e 4 v)

/-- pair every hash with its name-table index, counting from `s` -/
def indexFrom : Nat → List Nat → List (Nat × Nat)
  | _, [] => []
  | s, h :: hs => (s, h) :: indexFrom (s + 1) hs

/-- the bucket array of a table whose names are grouped by bucket: the 1-based index of the
group's first name, 0 for an empty group (`s` = number of names before the first group) -/
def bucketArray : List (List Nat) → Nat → List Nat
  | [], _ => []
  | g :: gs, s => (if g = [] then 0 else s + 1) :: bucketArray gs (s + g.length)

theorem enc32_cons (e : Endian) (v : Nat) (vs : List Nat) :
    enc32 e (v :: vs) = toBytes e 4 v ++ enc32 e vs := by simp [enc32]

theorem enc32_length (e : Endian) (vs : List Nat) : (enc32 e vs).length = 4 * vs.length := by
  induction vs with
  | nil => rfl
  | cons v vs ih => rw [enc32_cons, List.length_append, toBytes_length, ih, List.length_cons]; omega

theorem skipTo_enc32 (e : Endian) (vs : List Nat) (i : Nat) (hi : i ≤ vs.length) :
    skipTo (enc32 e vs) (i * 4) = .ok (enc32 e (vs.drop i)) := by
  unfold skipTo
  rw [if_pos (by rw [enc32_length]; omega)]
  congr 1
  induction i generalizing vs with
  | zero => simp
  | succ i ih =>
    cases vs with
    | nil => simp at hi
    | cons v vs =>
      rw [enc32_cons, Nat.succ_mul, Nat.add_comm, ← List.drop_drop,
        List.drop_left' (toBytes_length e 4 v), List.drop_succ_cons]
      exact ih vs (by simpa using hi)

theorem readFixed_enc32 (e : Endian) (v : Nat) (vs : List Nat) (rest : Bytes) (hv : v < 2 ^ 32) :
    readFixed e 4 (enc32 e (v :: vs) ++ rest) = .ok (v, enc32 e vs ++ rest) := by
  rw [enc32_cons, List.append_assoc]
  exact readFixed_toBytes e 4 v _ (by omega)

/-- one group being drained: `g` are the remaining hashes of the bucket, `rest` the hashes of the
later names -/
theorem drain_group (e : Endian) (ix : Index) (b : Nat) (hbc : ix.bucketCount ≠ 0)
    (g rest : List Nat) (s fuel : Nat)
    (hn : ix.nameCount = s + g.length + rest.length)
    (hg : ∀ h, h ∈ g → h % ix.bucketCount = b ∧ h < 2 ^ 32)
    (hrest : rest = [] ∨ ∃ h r, rest = h :: r ∧ h % ix.bucketCount ≠ b ∧ h < 2 ^ 32)
    (hf : g.length < fuel) :
    BucketIter.drain e ix fuel { reader := enc32 e (g ++ rest), index := s, bucketIndex := b } =
      (indexFrom s g).map .item := by
  induction g generalizing s fuel with
  | nil =>
    cases fuel with
    | zero => simp at hf
    | succ f =>
      rw [BucketIter.drain, BucketIter.next]
      simp only [List.nil_append, indexFrom, List.map_nil]
      rcases hrest with hr | ⟨h, r, hr, hmod, hlt⟩
      · subst hr
        rw [if_pos (by simp at hn; simp; omega)]
      · subst hr
        rw [if_neg (by simp at hn; simp; omega)]
        have := readFixed_enc32 e h r [] hlt
        simp only [List.append_nil] at this
        rw [this]
        simp only [hbc, if_false, hmod, ne_eq, not_false_eq_true, if_true]
  | cons h g ih =>
    cases fuel with
    | zero => simp at hf
    | succ f =>
      have hh := hg h (by simp)
      rw [BucketIter.drain, BucketIter.next]
      rw [if_neg (by simp at hn; simp; omega)]
      have := readFixed_enc32 e h (g ++ rest) [] hh.2
      simp only [List.append_nil] at this
      simp only [List.cons_append]
      rw [this]
      simp only [hbc, if_false, hh.1, ne_eq, not_true_eq_false, indexFrom, List.map_cons]
      congr 1
      exact ih (s + 1) f (by simp at hn; omega) (fun h' hh' => hg h' (by simp [hh']))
        (by simpa using hf)

theorem bucketArray_length (gs : List (List Nat)) (s : Nat) : (bucketArray gs s).length = gs.length := by
  induction gs generalizing s with
  | nil => rfl
  | cons g gs ih => simp [bucketArray, ih]

theorem bucketArray_drop (gs : List (List Nat)) (s b : Nat) (hb : b < gs.length) :
    (bucketArray gs s).drop b =
      (if gs[b] = [] then 0 else s + (gs.take b).flatten.length + 1) ::
        bucketArray (gs.drop (b + 1)) (s + (gs.take (b + 1)).flatten.length) := by
  induction gs generalizing s b with
  | nil => simp at hb
  | cons g gs ih =>
    cases b with
    | zero => simp [bucketArray]
    | succ b =>
      simp only [bucketArray, List.drop_succ_cons, List.getElem_cons_succ, List.take_succ_cons,
        List.flatten_cons, List.length_append]
      rw [ih (s + g.length) b (by simpa using hb)]
      simp only [Nat.add_assoc]

/-- a well-formed hash table: `groups[b]` are the hashes of bucket `b`, in name-table order -/
structure WellFormed (bc : Nat) (groups : List (List Nat)) : Prop where
  len : groups.length = bc
  mod : ∀ j (hj : j < groups.length) h, h ∈ groups[j] → h % bc = j ∧ h < 2 ^ 32
  small : groups.flatten.length < 2 ^ 32

/-- `ix` holds the hash table of `groups` -/
structure EncodesTable (e : Endian) (groups : List (List Nat)) (ix : Index) : Prop where
  bucketCount : ix.bucketCount = groups.length
  nameCount : ix.nameCount = groups.flatten.length
  buckets : ix.bucketData = enc32 e (bucketArray groups 0)
  hashes : ix.hashTableData = enc32 e groups.flatten

theorem flatten_split (gs : List (List Nat)) (b : Nat) (hb : b < gs.length) :
    gs.flatten = (gs.take b).flatten ++ gs[b] ++ (gs.drop (b + 1)).flatten := by
  conv => lhs; rw [← List.take_append_drop b gs]
  rw [List.flatten_append, List.drop_eq_getElem_cons hb, List.flatten_cons, List.append_assoc]

theorem later_groups_mod (bc : Nat) (gs : List (List Nat)) (hwf : WellFormed bc gs) (b : Nat) :
    ∀ h, h ∈ (gs.drop (b + 1)).flatten → h % bc ≠ b ∧ h < 2 ^ 32 := by
  intro h hh
  obtain ⟨g, hg, hhg⟩ := List.mem_flatten.mp hh
  obtain ⟨i, hi, hgi⟩ := List.getElem_of_mem hg
  have hi' : b + 1 + i < gs.length := by simp at hi; omega
  rw [List.getElem_drop] at hgi
  have := hwf.mod (b + 1 + i) hi' h (by rw [hgi]; exact hhg)
  exact ⟨by omega, this.2⟩

/-- `NameBucketIter::new` lands on the first name of the group -/
theorem bucketIter_new (e : Endian) (bc : Nat) (gs : List (List Nat)) (ix : Index)
    (hwf : WellFormed bc gs) (henc : EncodesTable e gs ix) (b : Nat) (hb : b < bc) :
    BucketIter.new e ix b =
      .ok (if gs[b]'(by rw [hwf.len]; exact hb) = [] then none else
        some { reader := enc32 e (gs[b]'(by rw [hwf.len]; exact hb) ++ (gs.drop (b + 1)).flatten),
               index := (gs.take b).flatten.length, bucketIndex := b }) := by
  have hbl : b < gs.length := by rw [hwf.len]; exact hb
  unfold BucketIter.new
  rw [henc.buckets, skipTo_enc32 e _ b (by rw [bucketArray_length]; omega), bucketArray_drop gs 0 b hbl]
  simp only [Out.bind_ok]
  have hsplit := flatten_split gs b hbl
  have hsmall := hwf.small
  have hlt : (if gs[b] = [] then 0 else 0 + (gs.take b).flatten.length + 1) < 2 ^ 32 := by
    split
    · decide
    · rename_i hne
      have : 0 < gs[b].length := List.length_pos_iff.mpr hne
      rw [hsplit] at hsmall
      simp only [List.length_append] at hsmall
      omega
  have := readFixed_enc32 e _ (bucketArray (gs.drop (b + 1)) (0 + (gs.take (b + 1)).flatten.length)) [] hlt
  simp only [List.append_nil] at this
  rw [this]
  simp only [Out.bind_ok]
  by_cases hg : gs[b] = []
  · simp [hg]
  · simp only [hg, if_false]
    rw [if_neg (by omega)]
    have hidx : 0 + (gs.take b).flatten.length + 1 - 1 = (gs.take b).flatten.length := by omega
    rw [hidx, henc.hashes]
    rw [skipTo_enc32 e _ _ (by rw [hsplit]; simp)]
    simp only [Out.bind_ok, Out.pure_eq]
    congr 3
    rw [hsplit, List.append_assoc, List.drop_left]

/-- **the bucket iterator returns exactly the names of the bucket** (group form) -/
theorem bucket_group (e : Endian) (bc : Nat) (gs : List (List Nat)) (ix : Index)
    (hwf : WellFormed bc gs) (henc : EncodesTable e gs ix) (b : Nat) (hb : b < bc) :
    ix.bucket e b =
      .ok (if gs[b]'(by rw [hwf.len]; exact hb) = [] then none else
        some ((indexFrom (gs.take b).flatten.length (gs[b]'(by rw [hwf.len]; exact hb))).map .item)) := by
  have hbl : b < gs.length := by rw [hwf.len]; exact hb
  unfold Index.bucket
  rw [bucketIter_new e bc gs ix hwf henc b hb]
  simp only [Out.bind_ok]
  by_cases hg : gs[b] = []
  · simp [hg]
  · simp only [hg, if_false, Out.pure_eq]
    congr 2
    have hbc0 : ix.bucketCount ≠ 0 := by rw [henc.bucketCount, hwf.len]; omega
    have hbceq : ix.bucketCount = bc := by rw [henc.bucketCount, hwf.len]
    apply drain_group e ix b hbc0
    · rw [henc.nameCount, flatten_split gs b hbl]; simp [Nat.add_assoc]
    · intro h hh; rw [hbceq]; exact hwf.mod b hbl h hh
    · have hl := later_groups_mod bc gs hwf b
      cases hr : (gs.drop (b + 1)).flatten with
      | nil => left; rfl
      | cons h r =>
        right
        refine ⟨h, r, rfl, ?_⟩
        rw [hbceq]
        exact hl h (by rw [hr]; simp)
    · rw [henc.nameCount, flatten_split gs b hbl]; simp; omega

/-! ### linear scans -/

theorem indexFrom_append (s : Nat) (a c : List Nat) :
    indexFrom s (a ++ c) = indexFrom s a ++ indexFrom (s + a.length) c := by
  induction a generalizing s with
  | nil => simp [indexFrom]
  | cons h a ih =>
    simp only [List.cons_append, indexFrom, List.length_cons, ih (s + 1)]
    congr 3; omega

theorem indexFrom_mem (s : Nat) (hs : List Nat) (p : Nat × Nat) (h : p ∈ indexFrom s hs) : p.2 ∈ hs := by
  induction hs generalizing s with
  | nil => simp [indexFrom] at h
  | cons a hs ih =>
    simp only [indexFrom, List.mem_cons] at h
    rcases h with h | h
    · subst h; simp
    · exact List.mem_cons_of_mem _ (ih (s + 1) h)

theorem filter_indexFrom_all (s : Nat) (hs : List Nat) (P : Nat × Nat → Bool)
    (h : ∀ p, p ∈ indexFrom s hs → P p = true) : (indexFrom s hs).filter P = indexFrom s hs :=
  List.filter_eq_self.mpr h

theorem filter_indexFrom_none (s : Nat) (hs : List Nat) (P : Nat × Nat → Bool)
    (h : ∀ p, p ∈ indexFrom s hs → P p = false) : (indexFrom s hs).filter P = [] :=
  List.filter_eq_nil_iff.mpr (fun p hp => by simp [h p hp])

theorem earlier_groups_mod (bc : Nat) (gs : List (List Nat)) (hwf : WellFormed bc gs) (b : Nat)
    (hb : b < gs.length) : ∀ h, h ∈ (gs.take b).flatten → h % bc ≠ b := by
  intro h hh
  obtain ⟨g, hg, hhg⟩ := List.mem_flatten.mp hh
  obtain ⟨i, hi, hgi⟩ := List.getElem_of_mem hg
  have hi' : i < b := by simp at hi; omega
  rw [List.getElem_take] at hgi
  have := hwf.mod i (by omega) h (by rw [hgi]; exact hhg)
  omega

/-- exhaustive scan of the hash array for the names of bucket `b` -/
def scanBucket (bc b : Nat) (hashes : List Nat) : List (Nat × Nat) :=
  (indexFrom 0 hashes).filter (fun p => p.2 % bc = b)

/-- exhaustive scan of the hash array for the names with hash `hq` -/
def scanHash (hq : Nat) (hashes : List Nat) : List Nat :=
  ((indexFrom 0 hashes).filter (fun p => p.2 = hq)).map (·.1)

theorem scanBucket_groups (bc : Nat) (gs : List (List Nat)) (hwf : WellFormed bc gs) (b : Nat)
    (hb : b < gs.length) :
    scanBucket bc b gs.flatten = indexFrom (gs.take b).flatten.length gs[b] := by
  unfold scanBucket
  rw [flatten_split gs b hb, indexFrom_append, indexFrom_append, List.filter_append, List.filter_append]
  rw [filter_indexFrom_none 0 _ _ (fun p hp => by
        have := earlier_groups_mod bc gs hwf b hb p.2 (indexFrom_mem _ _ p hp); simpa using this),
      filter_indexFrom_all _ _ _ (fun p hp => by
        have := (hwf.mod b hb p.2 (indexFrom_mem _ _ p hp)).1; simpa using this),
      filter_indexFrom_none _ _ _ (fun p hp => by
        have := (later_groups_mod bc gs hwf b p.2 (indexFrom_mem _ _ p hp)).1; simpa using this)]
  simp

/-- names with hash `hq` can only be in group `hq % bc` -/
theorem scanHash_groups (bc : Nat) (gs : List (List Nat)) (hwf : WellFormed bc gs) (hq : Nat)
    (hb : hq % bc < gs.length) :
    scanHash hq gs.flatten =
      ((indexFrom (gs.take (hq % bc)).flatten.length gs[hq % bc]).filter (fun p => p.2 = hq)).map (·.1) := by
  unfold scanHash
  rw [flatten_split gs (hq % bc) hb, indexFrom_append, indexFrom_append, List.filter_append,
    List.filter_append]
  rw [filter_indexFrom_none 0 _ _ (fun p hp => by
        have := earlier_groups_mod bc gs hwf (hq % bc) hb p.2 (indexFrom_mem _ _ p hp)
        simp only [decide_eq_false_iff_not]; intro he; rw [he] at this; exact this rfl),
      filter_indexFrom_none (0 + ((gs.take (hq % bc)).flatten ++ gs[hq % bc]).length) _ _ (fun p hp => by
        have := (later_groups_mod bc gs hwf (hq % bc) p.2 (indexFrom_mem _ _ p hp)).1
        simp only [decide_eq_false_iff_not]; intro he; rw [he] at this; exact this rfl)]
  simp

/-! ### the hash iterator -/

/-- position of the first hash equal to `hq` and the hashes after it -/
def splitFirst (hq : Nat) : List Nat → Option (Nat × List Nat)
  | [] => none
  | h :: g => if h = hq then some (0, g) else (splitFirst hq g).map fun (k, r) => (k + 1, r)

theorem splitFirst_length (hq : Nat) (g : List Nat) (k : Nat) (r : List Nat)
    (h : splitFirst hq g = some (k, r)) : r.length < g.length ∧ k + 1 + r.length = g.length := by
  induction g generalizing k with
  | nil => simp [splitFirst] at h
  | cons a g ih =>
    simp only [splitFirst] at h
    split at h
    · simp only [Option.some.injEq, Prod.mk.injEq] at h
      obtain ⟨rfl, rfl⟩ := h; simp; omega
    · cases hs : splitFirst hq g with
      | none => rw [hs] at h; simp at h
      | some p =>
        obtain ⟨k', r'⟩ := p
        rw [hs] at h
        simp only [Option.map_some, Option.some.injEq, Prod.mk.injEq] at h
        obtain ⟨rfl, rfl⟩ := h
        have := ih k' hs
        simp only [List.length_cons]; omega

theorem splitFirst_mem (hq : Nat) (g : List Nat) (k : Nat) (r : List Nat)
    (h : splitFirst hq g = some (k, r)) : ∀ x, x ∈ r → x ∈ g := by
  induction g generalizing k with
  | nil => simp [splitFirst] at h
  | cons a g ih =>
    simp only [splitFirst] at h
    split at h
    · simp only [Option.some.injEq, Prod.mk.injEq] at h
      obtain ⟨_, rfl⟩ := h; intro x hx; simp [hx]
    · cases hs : splitFirst hq g with
      | none => rw [hs] at h; simp at h
      | some p =>
        obtain ⟨k', r'⟩ := p
        rw [hs] at h
        simp only [Option.map_some, Option.some.injEq, Prod.mk.injEq] at h
        obtain ⟨_, rfl⟩ := h
        intro x hx; exact List.mem_cons_of_mem _ (ih k' hs x hx)

/-- the matches of a scan, in terms of `splitFirst` -/
theorem filter_splitFirst (hq s : Nat) (g : List Nat) :
    ((indexFrom s g).filter (fun p => p.2 = hq)).map (·.1) =
      match splitFirst hq g with
      | none => []
      | some (k, r) => (s + k) :: ((indexFrom (s + k + 1) r).filter (fun p => p.2 = hq)).map (·.1) := by
  induction g generalizing s with
  | nil => rfl
  | cons a g ih =>
    simp only [indexFrom, splitFirst]
    by_cases ha : a = hq
    · simp [ha]
    · simp only [List.filter_cons, ha, decide_false, if_false, Bool.false_eq_true]
      rw [ih (s + 1)]
      cases splitFirst hq g with
      | none => rfl
      | some p =>
        obtain ⟨k, r⟩ := p
        simp only [Option.map_some]
        have e1 : s + 1 + k = s + (k + 1) := by omega
        have e2 : s + 1 + k + 1 = s + (k + 1) + 1 := by omega
        rw [e1]

theorem hashNext_group (e : Endian) (ix : Index) (b hq : Nat) (hbc : ix.bucketCount ≠ 0)
    (g rest : List Nat) (s fuel : Nat)
    (hn : ix.nameCount = s + g.length + rest.length)
    (hg : ∀ h, h ∈ g → h % ix.bucketCount = b ∧ h < 2 ^ 32)
    (hrest : rest = [] ∨ ∃ h r, rest = h :: r ∧ h % ix.bucketCount ≠ b ∧ h < 2 ^ 32)
    (hf : g.length < fuel) :
    ∃ it', hashNext e ix hq fuel { reader := enc32 e (g ++ rest), index := s, bucketIndex := b } =
      match splitFirst hq g with
      | none => (.ok none, it')
      | some (k, r) => (.ok (some (s + k)), { reader := enc32 e (r ++ rest), index := s + k + 1, bucketIndex := b }) := by
  induction g generalizing s fuel with
  | nil =>
    cases fuel with
    | zero => simp at hf
    | succ f =>
      simp only [splitFirst, hashNext, BucketIter.next, List.nil_append]
      rcases hrest with hr | ⟨h, r, hr, hmod, hlt⟩
      · subst hr
        rw [if_pos (by simp at hn; simp; omega)]
        exact ⟨_, rfl⟩
      · subst hr
        rw [if_neg (by simp at hn; simp; omega)]
        have := readFixed_enc32 e h r [] hlt
        simp only [List.append_nil] at this
        rw [this]
        simp only [hbc, if_false, hmod, ne_eq, not_false_eq_true, if_true]
        exact ⟨_, rfl⟩
  | cons h g ih =>
    cases fuel with
    | zero => simp at hf
    | succ f =>
      have hh := hg h (by simp)
      simp only [hashNext, BucketIter.next]
      rw [if_neg (by simp at hn; simp; omega)]
      have := readFixed_enc32 e h (g ++ rest) [] hh.2
      simp only [List.append_nil] at this
      simp only [List.cons_append]
      rw [this]
      simp only [hbc, if_false, hh.1, ne_eq, not_true_eq_false, splitFirst]
      by_cases hhq : h = hq
      · simp only [hhq, if_true]
        exact ⟨⟨[], 0, 0⟩, by simp⟩
      · simp only [hhq, if_false]
        obtain ⟨it', hit⟩ := ih (s + 1) f (by simp at hn; omega) (fun h' hh' => hg h' (by simp [hh']))
          (by simpa using hf)
        refine ⟨it', ?_⟩
        rw [hit]
        cases splitFirst hq g with
        | none => rfl
        | some p =>
          obtain ⟨k, r⟩ := p
          simp only [Option.map_some]
          have e1 : s + 1 + k = s + (k + 1) := by omega
          have e2 : s + 1 + k + 1 = s + (k + 1) + 1 := by omega
          rw [e1]


theorem hashDrain_group (e : Endian) (ix : Index) (b hq : Nat) (hbc : ix.bucketCount ≠ 0)
    (rest : List Nat)
    (hrest : rest = [] ∨ ∃ h r, rest = h :: r ∧ h % ix.bucketCount ≠ b ∧ h < 2 ^ 32)
    (F : Nat) (g : List Nat) (s : Nat)
    (hn : ix.nameCount = s + g.length + rest.length)
    (hg : ∀ h, h ∈ g → h % ix.bucketCount = b ∧ h < 2 ^ 32)
    (hF : g.length < F) :
    hashDrain e ix hq F { reader := enc32 e (g ++ rest), index := s, bucketIndex := b } =
      (((indexFrom s g).filter (fun p => p.2 = hq)).map (·.1)).map .item := by
  induction F generalizing g s with
  | zero => simp at hF
  | succ F ih =>
    rw [hashDrain, filter_splitFirst]
    obtain ⟨it', hit⟩ := hashNext_group e ix b hq hbc g rest s (ix.nameCount + 2) hn hg hrest (by omega)
    rw [hit]
    cases hs : splitFirst hq g with
    | none => rfl
    | some p =>
      obtain ⟨k, r⟩ := p
      obtain ⟨hlt, hsum⟩ := splitFirst_length hq g k r hs
      simp only [List.map_cons]
      congr 1
      exact ih r (s + k + 1) (by omega) (fun h hh => hg h (splitFirst_mem hq g k r hs h hh)) (by omega)

/-- **`find_by_hash` returns exactly the names with that hash** (exhaustive scan of the hash
array) -/
theorem findByHash_scan (e : Endian) (bc : Nat) (gs : List (List Nat)) (ix : Index)
    (hwf : WellFormed bc gs) (henc : EncodesTable e gs ix) (hbc : 0 < bc) (hq : Nat) :
    ix.findByHash e hq = .ok ((scanHash hq gs.flatten).map .item) := by
  have hbceq : ix.bucketCount = bc := by rw [henc.bucketCount, hwf.len]
  have hbc0 : ix.bucketCount ≠ 0 := by omega
  have hb : hq % bc < bc := Nat.mod_lt _ hbc
  have hbl : hq % bc < gs.length := by rw [hwf.len]; exact hb
  unfold Index.findByHash
  have hbcne : ¬ bc = 0 := by omega
  simp only [hbceq, if_neg hbcne]
  rw [bucketIter_new e bc gs ix hwf henc (hq % bc) hb, scanHash_groups bc gs hwf hq hbl]
  simp only [Out.bind_ok]
  by_cases hg : gs[hq % bc] = []
  · simp [hg, indexFrom]
  · simp only [hg, if_false, Out.pure_eq]
    congr 1
    apply hashDrain_group e ix (hq % bc) hq hbc0
    · have hl := later_groups_mod bc gs hwf (hq % bc)
      cases hr : (gs.drop (hq % bc + 1)).flatten with
      | nil => left; rfl
      | cons h r =>
        right
        refine ⟨h, r, rfl, ?_⟩
        rw [hbceq]
        exact hl h (by rw [hr]; simp)
    · rw [henc.nameCount, flatten_split gs (hq % bc) hbl]; simp [Nat.add_assoc]
    · intro h hh; rw [hbceq]; exact hwf.mod (hq % bc) hbl h hh
    · rw [henc.nameCount, flatten_split gs (hq % bc) hbl]; simp; omega

/-- **the bucket iterator returns exactly the names of the bucket** (exhaustive scan form) -/
theorem bucket_scan (e : Endian) (bc : Nat) (gs : List (List Nat)) (ix : Index)
    (hwf : WellFormed bc gs) (henc : EncodesTable e gs ix) (b : Nat) (hb : b < bc) :
    ix.bucket e b =
      .ok (if scanBucket bc b gs.flatten = [] then none
           else some ((scanBucket bc b gs.flatten).map .item)) := by
  have hbl : b < gs.length := by rw [hwf.len]; exact hb
  rw [bucket_group e bc gs ix hwf henc b hb, scanBucket_groups bc gs hwf b hbl]
  by_cases hg : gs[b] = []
  · simp [hg, indexFrom]
  · have : indexFrom (gs.take b).flatten.length gs[b] ≠ [] := by
      cases hgb : gs[b] with
      | nil => exact absurd hgb hg
      | cons a t => simp [indexFrom]
    rw [if_neg hg, if_neg this]

open Gimli.C17 in
/-- **layout arithmetic of `NameIndex::new`**: the content after the header is, in this order,
the CU list, the local TU list, the foreign TU list (8-byte signatures), the bucket array, the
hash array (absent when there are no buckets), the string-offset array, the entry-offset array,
the abbreviation table and the entry pool -/
theorem new_layout (h : Header) (ix : Index) (hn : Index.new h = .ok ix) :
    ∃ abbrevTable,
      h.content = ix.cuList ++ ix.localTuList ++ ix.foreignTuList ++ ix.bucketData ++
        ix.hashTableData ++ ix.nameTableData ++ ix.entryOffsetData ++ abbrevTable ++ ix.entryPool ∧
      ix.cuList.length = h.cuCount * h.format.wordSize ∧
      ix.localTuList.length = h.localTuCount * h.format.wordSize ∧
      ix.foreignTuList.length = h.foreignTuCount * 8 ∧
      ix.bucketData.length = h.bucketCount * 4 ∧
      ix.hashTableData.length = (if h.bucketCount = 0 then 0 else h.nameCount * 4) ∧
      ix.nameTableData.length = h.nameCount * h.format.wordSize ∧
      ix.entryOffsetData.length = h.nameCount * h.format.wordSize ∧
      abbrevTable.length = h.abbrevTableSize ∧
      parseAbbrevs (abbrevTable.length + 1) abbrevTable = .ok ix.abbrevs ∧
      ix.format = h.format ∧ ix.bucketCount = h.bucketCount ∧ ix.nameCount = h.nameCount ∧
      ix.cuCount = h.cuCount ∧ ix.localTuCount = h.localTuCount ∧ ix.foreignTuCount = h.foreignTuCount := by
  unfold Index.new at hn
  simp only at hn
  obtain ⟨⟨cu, r1⟩, h1, hn⟩ := bind_eq_ok _ _ _ hn
  obtain ⟨⟨ltu, r2⟩, h2, hn⟩ := bind_eq_ok _ _ _ hn
  obtain ⟨⟨ftu, r3⟩, h3, hn⟩ := bind_eq_ok _ _ _ hn
  obtain ⟨⟨bk, r4⟩, h4, hn⟩ := bind_eq_ok _ _ _ hn
  obtain ⟨⟨ht, r5⟩, h5, hn⟩ := bind_eq_ok _ _ _ hn
  obtain ⟨⟨nt, r6⟩, h6, hn⟩ := bind_eq_ok _ _ _ hn
  obtain ⟨⟨eo, r7⟩, h7, hn⟩ := bind_eq_ok _ _ _ hn
  obtain ⟨⟨ab, r8⟩, h8, hn⟩ := bind_eq_ok _ _ _ hn
  obtain ⟨abbrevs, h9, hn⟩ := bind_eq_ok _ _ _ hn
  simp only [Out.pure_eq, Out.ok.injEq] at hn
  subst hn
  obtain ⟨e1, l1⟩ := take_ok_split _ _ _ _ h1
  obtain ⟨e2, l2⟩ := take_ok_split _ _ _ _ h2
  obtain ⟨e3, l3⟩ := take_ok_split _ _ _ _ h3
  obtain ⟨e4, l4⟩ := take_ok_split _ _ _ _ h4
  obtain ⟨e5, l5⟩ := take_ok_split _ _ _ _ h5
  obtain ⟨e6, l6⟩ := take_ok_split _ _ _ _ h6
  obtain ⟨e7, l7⟩ := take_ok_split _ _ _ _ h7
  obtain ⟨e8, l8⟩ := take_ok_split _ _ _ _ h8
  simp only at e2 e3 e4 e5 e6 e7 e8 h9
  refine ⟨ab, ?_, l1, l2, l3, l4, l5, l6, l7, l8, h9, rfl, rfl, rfl, rfl, rfl, rfl⟩
  simp only
  rw [e1, e2, e3, e4, e5, e6, e7, e8]
  simp [List.append_assoc]
end Gimli.Names
